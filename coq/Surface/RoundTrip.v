(* C14 — proof that parsing the printed tokens of a term gives the term back.
   Work in progress: expression core. *)
From Coq Require Import String Ascii List ZArith QArith Bool Arith Lia.
From NV Require Import Surface.Ast Surface.Indent Surface.Print Surface.Parse Surface.TableWf.
Import ListNotations.
Close Scope Q_scope.
Open Scope nat_scope.
Open Scope string_scope.
Open Scope list_scope.

(* ------------------------------------------------------------------ sizes *)

Definition lsum {A} (f : A -> nat) (l : list A) : nat := fold_right (fun x n => f x + n) 0 l.

Lemma lsum_in {A} (f : A -> nat) l x : In x l -> f x <= lsum f l.
Proof.
  unfold lsum. induction l as [|y l IH]; cbn; [tauto|]. intros [->|H]; [lia|]. specialize (IH H). lia.
Qed.

Definition osize {A} (f : A -> nat) (o : option A) : nat := match o with Some x => f x | None => 0 end.

Definition asize_with (tysize : typ -> nat) (a : annot_ typ) : nat :=
  S (osize tysize (a_typ a) + lsum tysize (a_ctrs a)).

Section Size.
Fixpoint tsize (t : term) : nat :=
  match t with
  | Null | Bool _ | Num _ | Str _ | Var _ | ImportPath _ _ | ImportPkg _ => 1
  | Chunks cs => S (lsum (fun c => match c with CLit _ => 1 | CExpr e _ => S (tsize e) end) cs)
  | Fun args body => S (lsum psize args + tsize body)
  | Let _ bs body =>
      S (lsum (fun b => S (psize (b_pat b) + asize_with tysize (b_ann b) + tsize (b_val b))) bs + tsize body)
  | App h args => S (tsize h + lsum tsize args)
  | Enum _ a => S (osize tsize a)
  | Record incs fs _ =>
      S (lsum (fun i => S (asize_with tysize (m_ann (i_meta i)))) incs
         + lsum (fun f => S (lsum (fun e => match e with
                                          | PId _ => 1
                                          | PExpr cs => S (lsum (fun c => match c with CLit _ => 1 | CExpr e _ => S (tsize e) end) cs)
                                          end) (f_path f)
                            + asize_with tysize (m_ann (f_meta f)) + osize tsize (f_val f))) fs)
  | If c a b => S (tsize c + tsize a + tsize b)
  | Match bs => S (lsum (fun b => S (psize (br_pat b) + osize tsize (br_guard b) + tsize (br_body b))) bs)
  | Array es => S (lsum tsize es)
  | Op _ args => S (lsum tsize args)
  | Annot a inner => S (asize_with tysize a + tsize inner)
  | TypeT ty => S (tysize ty)
  end
with tysize (ty : typ) : nat :=
  match ty with
  | TContract t => S (tsize t)
  | TArrow a b => S (tysize a + tysize b)
  | TForall _ b => S (tysize b)
  | TEnum rows _ => S (lsum (fun r => S (osize tysize (snd r))) rows)
  | TRecord rows _ => S (lsum (fun r => S (tysize (snd r))) rows)
  | TDict _ t => S (tysize t)
  | TArrayT t => S (tysize t)
  | _ => 1
  end
with psize (p : pat) : nat :=
  match p with Pat _ d => S (pdsize d) end
with pdsize (d : pdata) : nat :=
  match d with
  | PRecord fs _ =>
      S (lsum (fun f => S (asize_with tysize (fp_ann f) + osize tsize (fp_default f) + psize (fp_pat f))) fs)
  | PArray ps _ => S (lsum psize ps)
  | PEnum _ a => S (osize psize a)
  | POr ps => S (lsum psize ps)
  | _ => 1
  end.
Definition asize := asize_with tysize.
End Size.

(* decide comparisons of string constants *)
Ltac streq :=
  repeat match goal with
         | |- context [String.eqb ?a ?b] =>
             let v := eval vm_compute in (String.eqb a b) in
             match v with true => idtac | false => idtac end;
             change (String.eqb a b) with v
         end.
Ltac psimp := repeat (progress (cbn [bind expect is_tk peek_is fst snd]; streq; cbv iota)).

Ltac len := repeat (rewrite app_length in * || cbn [length] in * ); try lia.

(* ------------------------------------------------------------------ generic list / option facts *)

Lemma assoc_string_in {A} (x : string) (l : list (string * A)) (a : A) :
  assoc_string x l = Some a -> In (x, a) l.
Proof.
  induction l as [|[y b] l IH]; cbn; [discriminate|].
  destruct (String.eqb x y) eqn:E.
  - intros [= ->]. apply String.eqb_eq in E. subst. now left.
  - intros H. right. now apply IH.
Qed.

Lemma mem_string_in (x : string) (l : list string) : mem_string x l = true <-> In x l.
Proof.
  induction l as [|y l IH]; cbn; [split; [discriminate|tauto]|].
  rewrite orb_true_iff, IH, String.eqb_eq. split; intros [H|H]; auto.
Qed.

Lemma assoc_string_none_notin {A} (x : string) (l : list (string * A)) :
  mem_string x (map fst l) = false -> assoc_string x l = None.
Proof.
  induction l as [|[y b] l IH]; cbn; [reflexivity|].
  destruct (String.eqb x y); cbn; [discriminate|]. exact IH.
Qed.

Lemma assoc_string_some_mem {A} (x : string) (l : list (string * A)) a :
  assoc_string x l = Some a -> mem_string x (map fst l) = true.
Proof. intros H. apply mem_string_in. apply assoc_string_in in H. now apply (in_map fst) in H. Qed.

(* ------------------------------------------------------------------ the fragment *)

Definition num_ok (n : Q) : bool :=
  match Qnum n with Zpos _ => true | Z0 => Pos.eqb (Qden n) 1 | Zneg _ => false end.

Definition is_lazy_name (n : string) : bool := String.eqb n "(&&)" || String.eqb n "(||)".

Definition simple_pat (p : pat) : Prop := exists x, p = Pat None (PAny x).

(* may this term stand in type position (uniterm.rs: TryConvert<UniTerm> for Type) *)
Definition contract_ok (t : term) : bool :=
  match t with
  | Null | Bool _ | Num _ | Str _ | Array _ | Enum _ _ | Chunks _ | TypeT _ => false
  | Record [] [] false => false
  | _ => true
  end.

(* chunk lists as the lexer and the grammar produce them: no empty literal, no two adjacent
   literals *)
Fixpoint chunks_shape (cs : list chunk) : Prop :=
  match cs with
  | [] => True
  | CLit s :: r => s <> EmptyString /\ match r with CLit _ :: _ => False | _ => True end /\ chunks_shape r
  | CExpr _ _ :: r => chunks_shape r
  end.

Definition empty_annot_b (a : annot) : bool :=
  match a_typ a, a_ctrs a with None, [] => true | _, _ => false end.

Section RT.
Variable binops : list (string * (nat * assoc * bkind)).
Variable prefixops : list (string * (nat * pkind)).
Variable max_level : nat.
Variable primops : list (string * (string * nat)).
Variable keywords : list string.
Variable op_spelling : list (string * string).
Variable infix_ops postfix_ops : list string.
Variable q : quirks.

Hypothesis Htab :
  table_ok binops prefixops max_level primops op_spelling infix_ops postfix_ops = true.
(* the printer/parser variant: the repaired code; the alias flag is left free (it only matters
   for patterns that are outside of the fragment proved here) *)
Hypothesis Hq_num : q_num_round q = false.
Hypothesis Hq_annot : q_annot_noparens q = false.
Hypothesis Hq_dyn : q_dynaccess q = false.
Hypothesis Hq_ne : q_drop_not_exported q = false.
Hypothesis Hq_alias : q_drop_alias q = false.
Hypothesis Hq_incl : q_include_only q = false.
Hypothesis Hq_empty : q_keep_empty_lit q = false.
Hypothesis Hq_ml : q_multiline_unchecked q = false.

Notation PT := (pr_term keywords op_spelling infix_ops postfix_ops q).
Notation PTY := (pr_typ keywords op_spelling infix_ops postfix_ops q).
Notation PATOM := (pr_atom PT).
Notation PTPART := (pr_type_part q PTY).

Definition binop_name (n : string) : bool :=
  mem_string n infix_ops && negb (String.eqb n "record/get").

(* indentation levels survive printing: a string printed in the standard style has none *)
Definition indent_ok (cs : list chunk) : Prop :=
  chunks_multiline q false cs = false -> forall e i, In (CExpr e i) cs -> i = 0.

Definition simple_field (f : fdef) (v : term) : Prop :=
  exists s, f = FDef [PId s] empty_fmeta (Some v).

Definition simple_binding (b : binding) : Prop :=
  simple_pat (b_pat b) /\ b_doc b = None /\ b_ann b = empty_annot.

Inductive core : term -> Prop :=
| C_null : core Null
| C_bool b : core (Bool b)
| C_var x : core (Var x)
| C_num n : num_ok n = true -> core (Num n)
| C_tag s : core (Enum s None)
| C_variant s a : core a -> core (Enum s (Some a))
| C_chunks cs :
    chunks_shape cs -> indent_ok cs -> (forall e i, In (CExpr e i) cs -> core e) -> core (Chunks cs)
| C_array es : (forall e, In e es -> core e) -> core (Array es)
| C_app h args :
    args <> [] -> core h -> (forall a, In a args -> core a) ->
    (forall s a, h = Enum s None -> args <> [a]) -> core (App h args)
| C_lazy n a b : is_lazy_name n = true -> core a -> core b -> core (App (Op (ONamed n) [a]) [b])
| C_binop n a b : binop_name n = true -> core a -> core b -> core (Op (ONamed n) [a; b])
| C_not a : core a -> core (Op (ONamed "bool/not") [a])
| C_access id a : core a -> core (Op (OStatAccess id) [a])
| C_if c a b : core c -> core a -> core b -> core (If c a b)
| C_fun args body : args <> [] -> (forall p, In p args -> simple_pat p) -> core body -> core (Fun args body)
| C_let rec bs body :
    bs <> [] -> (forall b, In b bs -> simple_binding b /\ core (b_val b)) -> core body ->
    core (Let rec bs body)
| C_annot a inner :
    empty_annot_b a = false -> core inner ->
    (forall ty, a_typ a = Some ty -> core_ty ty) -> (forall ty, In ty (a_ctrs a) -> core_ty ty) ->
    core (Annot a inner)
| C_record fs :
    (forall f, In f fs -> exists v, simple_field f v /\ core v) -> core (Record [] fs false)
| C_primop sp name args :
    assoc_string sp primops = Some (name, length args) ->
    (forall a, In a args -> core a) -> core (Op (ONamed name) args)
| C_import p fmt : core (ImportPath p fmt)
| C_import_pkg id : core (ImportPkg id)
with core_ty : typ -> Prop :=
| CT_dyn : core_ty TDyn
| CT_number : core_ty TNumber
| CT_bool : core_ty TBool
| CT_string : core_ty TString
| CT_contract t : core t -> contract_ok t = true -> core_ty (TContract t)
| CT_arrow a b : core_ty a -> core_ty b -> core_ty (TArrow a b)
| CT_array t : core_ty t -> core_ty (TArrayT t).

(* what the parser returns for the printed tokens, before the conversion to a term or a type *)
Definition uni_of (t : term) : uni :=
  match t with
  | Var x => UVar x
  | Record incs fs open => URec (URecord incs fs None open)
  | _ => UTerm t
  end.

(* the type before fix_type_vars *)
Fixpoint raw_ty (ty : typ) : typ :=
  match ty with
  | TContract (Var x) => TVar x
  | TArrow a b => TArrow (raw_ty a) (raw_ty b)
  | TArrayT t => TArrayT (raw_ty t)
  | _ => ty
  end.

Definition uni_of_ty (ty : typ) : uni :=
  match ty with
  | TContract t => uni_of t
  | _ => UType (raw_ty ty)
  end.


(* ------------------------------------------------------------------ conversions *)

Lemma simple_fields_not_type fs :
  (forall f, In f fs -> exists v, simple_field f v /\ core v) ->
  record_to_term (URecord [] fs None false) = Some (Record [] fs false).
Proof.
  intros H. unfold record_to_term. cbn [ur_fields ur_incs ur_tail ur_open].
  assert (Hmap : map fix_fdef fs = fs).
  { induction fs as [|f fs IH]; [reflexivity|]. cbn [map]. f_equal.
    - destruct (H f (or_introl eq_refl)) as (v & (s & ->) & _). reflexivity.
    - apply IH. intros g Hg. apply H. now right. }
  destruct fs as [|f fs].
  - reflexivity.
  - destruct (H f (or_introl eq_refl)) as (v & (s & ->) & _).
    cbn [map all_some field_as_row f_path f_val]. rewrite andb_false_l.
    f_equal. f_equal. exact Hmap.
Qed.

Lemma as_term_uni_of t : core t -> as_term (uni_of t) = Some t.
Proof.
  intros H. destruct H; try reflexivity.
  cbn [uni_of as_term]. now apply simple_fields_not_type.
Qed.

Lemma as_type_uni_of t :
  core t -> contract_ok t = true -> as_type (uni_of t) = Some (raw_ty (TContract t)).
Proof.
  intros H Hc. destruct H; cbn in Hc; try discriminate; try reflexivity.
  (* record literal *)
  destruct fs as [|f fs]; [discriminate|].
  assert (Hs : record_to_type_strict (URecord [] (f :: fs) None false) = None).
  { unfold record_to_type_strict. cbn [ur_open ur_incs ur_fields].
    destruct (H f (or_introl eq_refl)) as (v & (s & ->) & _). reflexivity. }
  change (record_to_type (URecord [] (f :: fs) None false)
          = Some (TContract (Record [] (f :: fs) false))).
  unfold record_to_type. cbn [ur_tail]. rewrite Hs. now rewrite simple_fields_not_type.
Qed.

Lemma as_type_uni_of_ty ty : core_ty ty -> as_type (uni_of_ty ty) = Some (raw_ty ty).
Proof.
  intros H. destruct H; try reflexivity.
  cbn [uni_of_ty]. now apply as_type_uni_of.
Qed.

Lemma fix_raw ty : core_ty ty -> fix_ty [] (raw_ty ty) = ty.
Proof.
  induction ty; intros H; inversion H; subst; cbn; try reflexivity.
  - destruct t; try reflexivity.
  - now rewrite IHty1, IHty2.
  - now rewrite IHty.
Qed.


(* ------------------------------------------------------------------ facts from the table check *)

Lemma forallb_in {A} (f : A -> bool) l x : forallb f l = true -> In x l -> f x = true.
Proof. intros H Hin. rewrite forallb_forall in H. now apply H. Qed.

Ltac split_andb H :=
  repeat match type of H with
         | (_ && _) = true => let H' := fresh "Ht" in apply andb_prop in H; destruct H as [H H']
         end.

Lemma tab_binop_entry sp e :
  assoc_string sp binops = Some e -> binop_entry_ok max_level (sp, e) = true.
Proof.
  intros H. pose proof Htab as T. unfold table_ok in T. split_andb T.
  eapply forallb_in; [|apply assoc_string_in; exact H]. assumption.
Qed.

Lemma tab_prefix_entry sp e :
  assoc_string sp prefixops = Some e -> prefixop_entry_ok max_level (sp, e) = true.
Proof.
  intros H. pose proof Htab as T. unfold table_ok in T. split_andb T.
  eapply forallb_in; [|apply assoc_string_in; exact H]. assumption.
Qed.

Lemma op_token_ok_facts sp :
  op_token_ok sp = true -> starts_atom (TK sp) = false /\ mem_string sp structural_tokens = false.
Proof.
  unfold op_token_ok. intros H. apply andb_prop in H as [H1 H2].
  split; [now apply negb_true_iff in H1 | now apply negb_true_iff in H2].
Qed.

Lemma binop_entry_nonarrow sp lvl a k :
  binop_entry_ok max_level (sp, (lvl, a, k)) = true -> is_arrow k = false ->
  op_token_ok sp = true /\ 1 <= lvl /\ lvl < max_level /\ a = ALeft.
Proof.
  unfold binop_entry_ok. intros H Hk. rewrite Hk in H.
  apply andb_prop in H as [H H4]. apply andb_prop in H as [H H3]. apply andb_prop in H as [H1 H2].
  apply andb_prop in H4 as [H4 H5].
  apply Nat.leb_le in H2. apply Nat.ltb_lt in H4.
  destruct a; try discriminate. auto.
Qed.

Lemma prefix_entry_facts sp lvl k :
  prefixop_entry_ok max_level (sp, (lvl, k)) = true ->
  op_token_ok sp = true /\ 1 <= lvl /\ lvl < max_level.
Proof.
  unfold prefixop_entry_ok. intros H.
  apply andb_prop in H as [H H3]. apply andb_prop in H as [H1 H2].
  apply Nat.leb_le in H2. apply Nat.ltb_lt in H3. auto.
Qed.

Lemma tab_binop_token sp e :
  assoc_string sp binops = Some e ->
  starts_atom (TK sp) = false /\ mem_string sp structural_tokens = false.
Proof.
  intros H. apply tab_binop_entry in H. destruct e as [[lvl a] k]. unfold binop_entry_ok in H.
  split_andb H. now apply op_token_ok_facts.
Qed.

Lemma tab_prefix_token sp e :
  assoc_string sp prefixops = Some e ->
  starts_atom (TK sp) = false /\ mem_string sp structural_tokens = false.
Proof.
  intros H. apply tab_prefix_entry in H. destruct e as [lvl k].
  apply prefix_entry_facts in H as (H & _). now apply op_token_ok_facts.
Qed.

(* a structural token or a token that starts an atom is not an operator *)
Lemma tab_not_op sp :
  starts_atom (TK sp) = true \/ mem_string sp structural_tokens = true ->
  assoc_string sp binops = None /\ assoc_string sp prefixops = None.
Proof.
  intros H. split.
  - destruct (assoc_string sp binops) as [e|] eqn:E; [|reflexivity].
    apply tab_binop_token in E as [E1 E2]. destruct H as [H|H]; congruence.
  - destruct (assoc_string sp prefixops) as [e|] eqn:E; [|reflexivity].
    apply tab_prefix_token in E as [E1 E2]. destruct H as [H|H]; congruence.
Qed.

Lemma tab_binop_name n :
  binop_name n = true ->
  exists sp lvl,
    assoc_string n op_spelling = Some sp /\ assoc_string sp binops = Some (lvl, ALeft, BOp n)
    /\ 1 <= lvl /\ lvl < max_level.
Proof.
  unfold binop_name. intros H. apply andb_prop in H as [Hin Hne]. apply negb_true_iff in Hne.
  pose proof Htab as T. unfold table_ok in T. split_andb T.
  match goal with
  | X : forallb (printed_infix_ok binops op_spelling) infix_ops = true |- _ =>
      pose proof (forallb_in _ _ n X (proj1 (mem_string_in _ _) Hin)) as P
  end.
  unfold printed_infix_ok in P. rewrite Hne in P. cbn [orb] in P.
  destruct (assoc_string n op_spelling) as [sp|] eqn:Esp; [|discriminate].
  destruct (assoc_string sp binops) as [[[lvl a] k]|] eqn:Eb; [|discriminate].
  destruct k; try discriminate. apply String.eqb_eq in P. subst name.
  destruct (binop_entry_nonarrow _ _ _ _ (tab_binop_entry _ _ Eb) eq_refl) as (_ & ? & ? & ->).
  exists sp, lvl. auto.
Qed.

Lemma tab_lazy n :
  is_lazy_name n = true ->
  exists sp lvl,
    sp = (if String.eqb n "(&&)" then "&&" else "||")
    /\ assoc_string sp binops = Some (lvl, ALeft, BLazy n) /\ 1 <= lvl /\ lvl < max_level.
Proof.
  intros H. pose proof Htab as T. unfold table_ok in T. split_andb T.
  unfold is_lazy_name in H.
  assert (Hl : forall sp, lazy_ok binops sp n = true ->
               exists lvl, assoc_string sp binops = Some (lvl, ALeft, BLazy n) /\ 1 <= lvl /\ lvl < max_level).
  { intros sp Hok. unfold lazy_ok in Hok.
    destruct (assoc_string sp binops) as [[[lvl a] k]|] eqn:Eb; [|discriminate].
    destruct k; try discriminate. apply String.eqb_eq in Hok. subst name.
    destruct (binop_entry_nonarrow _ _ _ _ (tab_binop_entry _ _ Eb) eq_refl) as (_ & ? & ? & ->).
    exists lvl. auto. }
  destruct (String.eqb n "(&&)") eqn:E1.
  - apply String.eqb_eq in E1. subst n.
    match goal with X : lazy_ok binops "&&" "(&&)" = true |- _ => destruct (Hl _ X) as (lvl & ? & ? & ?) end.
    exists "&&", lvl. auto.
  - cbn [orb] in H. apply String.eqb_eq in H. subst n.
    match goal with X : lazy_ok binops "||" "(||)" = true |- _ => destruct (Hl _ X) as (lvl & ? & ? & ?) end.
    exists "||", lvl. auto.
Qed.

Lemma tab_not :
  exists lvl, assoc_string "!" prefixops = Some (lvl, PUnary "bool/not") /\ 1 <= lvl /\ lvl < max_level.
Proof.
  pose proof Htab as T. unfold table_ok in T. split_andb T.
  destruct (assoc_string "!" prefixops) as [[lvl k]|] eqn:E; [|discriminate].
  destruct k as [|n]; [discriminate|].
  match goal with X : String.eqb n "bool/not" = true |- _ => apply String.eqb_eq in X; subst n end.
  destruct (prefix_entry_facts _ _ _ (tab_prefix_entry _ _ E)) as (_ & ? & ?).
  exists lvl. auto.
Qed.

Lemma tab_neg :
  exists lvl, assoc_string "-" prefixops = Some (lvl, PNeg) /\ 1 <= lvl /\ lvl < max_level.
Proof.
  pose proof Htab as T. unfold table_ok in T. split_andb T.
  destruct (assoc_string "-" prefixops) as [[lvl k]|] eqn:E; [|discriminate].
  destruct k as [|n]; [|discriminate].
  destruct (prefix_entry_facts _ _ _ (tab_prefix_entry _ _ E)) as (_ & ? & ?).
  exists lvl. auto.
Qed.

Lemma binop_entry_arrow sp lvl a :
  binop_entry_ok max_level (sp, (lvl, a, BArrow)) = true ->
  sp = "->" /\ lvl = max_level /\ a = ARight.
Proof.
  unfold binop_entry_ok. cbn [is_arrow]. intros H.
  apply andb_prop in H as [_ H]. apply andb_prop in H as [H H3]. apply andb_prop in H as [H1 H2].
  apply String.eqb_eq in H1. apply Nat.eqb_eq in H2. destruct a; try discriminate. auto.
Qed.

Lemma tab_arrow :
  exists a, assoc_string "->" binops = Some (max_level, ARight, BArrow) /\ a = tt.
Proof.
  pose proof Htab as T. unfold table_ok in T. split_andb T.
  match goal with X : existsb _ binops = true |- _ => apply existsb_exists in X; destruct X as ([sp [[lvl a] k]] & Hin & Hk) end.
  cbn in Hk. destruct k; try discriminate.
  match goal with X : forallb (binop_entry_ok max_level) binops = true |- _ =>
    pose proof (forallb_in _ _ _ X Hin) as E end.
  apply binop_entry_arrow in E as (-> & -> & ->).
  exists tt. split; [|reflexivity].
  (* keys are distinct: the lookup finds this entry *)
  match goal with X : nodup_strings (map fst binops) = true |- _ => revert X end.
  clear -Hin. induction binops as [|[y e] l IH]; [destruct Hin|].
  cbn [map fst nodup_strings assoc_string]. intros Hnd.
  apply andb_prop in Hnd as [Hn Hnd]. apply negb_true_iff in Hn.
  destruct Hin as [Heq|Hin].
  - inversion Heq; subst. cbn. reflexivity.
  - destruct (String.eqb "->" y) eqn:E.
    + apply String.eqb_eq in E. subst y. apply (in_map fst) in Hin. cbn [fst] in Hin.
      apply mem_string_in in Hin. congruence.
    + now apply IH.
Qed.


(* tokens that are neither operators nor atom starts *)
Lemma tab_not_primop sp :
  starts_atom (TK sp) = true \/ mem_string sp structural_tokens = true ->
  assoc_string sp primops = None.
Proof.
  intros H. destruct (assoc_string sp primops) as [[name n]|] eqn:E; [|reflexivity].
  pose proof Htab as T. unfold table_ok in T. split_andb T.
  match goal with X : forallb (primop_entry_ok op_spelling infix_ops postfix_ops) primops = true |- _ =>
    pose proof (forallb_in _ _ _ X (assoc_string_in _ _ _ E)) as Q end.
  unfold primop_entry_ok in Q. split_andb Q.
  repeat match goal with X : negb _ = true |- _ => apply negb_true_iff in X end.
  destruct H; congruence.
Qed.

Lemma tab_primop sp name ar :
  assoc_string sp primops = Some (name, ar) ->
  sp = ("%" ++ name ++ "%")%string /\ 1 <= ar
  /\ starts_atom (TK sp) = false /\ mem_string sp structural_tokens = false
  /\ assoc_string name op_spelling = None /\ mem_string name infix_ops = false
  /\ String.eqb name "(&&)" = false /\ String.eqb name "(||)" = false
  /\ String.eqb sp "%enum/embed%" = false /\ mem_string name postfix_ops = false
  /\ assoc_string sp prefixops = None /\ assoc_string sp binops = None
  /\ String.eqb name "record/get" = false /\ String.eqb name "(-)" = false
  /\ String.eqb name "bool/not" = false.
Proof.
  intros E. pose proof Htab as T. unfold table_ok in T. split_andb T.
  match goal with X : forallb (primop_entry_ok op_spelling infix_ops postfix_ops) primops = true |- _ =>
    pose proof (forallb_in _ _ _ X (assoc_string_in _ _ _ E)) as Q end.
  match goal with X : forallb (fun e => negb (mem_string (fst e) (map fst prefixops)) && _) primops = true |- _ =>
    pose proof (forallb_in _ _ _ X (assoc_string_in _ _ _ E)) as Q2 end.
  cbn [fst] in Q2. apply andb_prop in Q2 as [Q2a Q2b].
  apply negb_true_iff in Q2a. apply negb_true_iff in Q2b.
  unfold primop_entry_ok in Q. split_andb Q.
  repeat match goal with X : negb _ = true |- _ => apply negb_true_iff in X end.
  match goal with X : String.eqb sp _ = true |- _ => apply String.eqb_eq in X end.
  match goal with X : Nat.leb 1 ar = true |- _ => apply Nat.leb_le in X end.
  assert (Hsp : assoc_string name op_spelling = None).
  { destruct (assoc_string name op_spelling); [discriminate|reflexivity]. }
  repeat split; auto.
  - now apply assoc_string_none_notin.
  - now apply assoc_string_none_notin.
  - destruct (String.eqb name "record/get") eqn:E1; [|reflexivity]. apply String.eqb_eq in E1. subst. congruence.
  - destruct (String.eqb name "(-)") eqn:E1; [|reflexivity]. apply String.eqb_eq in E1. subst. congruence.
  - destruct (String.eqb name "bool/not") eqn:E1; [|reflexivity]. apply String.eqb_eq in E1. subst.
    destruct (assoc_string "bool/not" op_spelling); [discriminate|discriminate].
Qed.

(* ------------------------------------------------------------------ follow sets *)

Definition tok_weak (t : token) : Prop := starts_atom t = false /\ t <> TK ".".

Definition weak_follow (rest : list token) : Prop :=
  match rest with [] => True | t :: _ => tok_weak t end.

(* after an infix expression of level at most L: the loop of that level stops *)
Definition infix_follow (L : nat) (rest : list token) : Prop :=
  weak_follow rest
  /\ match rest with
     | TK sp :: _ => match assoc_string sp binops with Some (lvl, _, _) => L < lvl | None => True end
     | _ => True
     end.

(* after the domain of an arrow, or anywhere an expression may end: if an operator follows, it is
   the loosest one *)
Definition arrow_follow (rest : list token) : Prop :=
  weak_follow rest
  /\ match rest with
     | TK sp :: _ => match assoc_string sp binops with Some (lvl, _, _) => lvl = max_level | None => True end
     | _ => True
     end.

Definition strong_follow (rest : list token) : Prop := infix_follow max_level rest.

Definition term_follow (rest : list token) : Prop :=
  strong_follow rest /\ starts_annot rest = false.

Lemma infix_follow_of_arrow L rest : L < max_level -> arrow_follow rest -> infix_follow L rest.
Proof.
  intros HL [Hw Ha]. split; [exact Hw|].
  destruct rest as [|[sp| | | | | | | | | |] r]; auto.
  destruct (assoc_string sp binops) as [[[lvl a] k]|]; auto. now subst.
Qed.

Lemma binop_level_le sp lvl a k : assoc_string sp binops = Some (lvl, a, k) -> lvl <= max_level.
Proof.
  intros H. apply tab_binop_entry in H. unfold binop_entry_ok in H. split_andb H.
  match goal with X : Nat.leb lvl max_level = true |- _ => now apply Nat.leb_le in X end.
Qed.

Lemma arrow_follow_of_strong rest : strong_follow rest -> arrow_follow rest.
Proof.
  intros [Hw Ha]. split; [exact Hw|].
  destruct rest as [|[sp| | | | | | | | | |] r]; auto.
  destruct (assoc_string sp binops) as [[[lvl a] k]|] eqn:E; auto.
  apply binop_level_le in E. lia.
Qed.


Definition closers : list string := [")"; "}"; "]"; ","; "="; "in"; "then"; "else"; ";"; "|]"; "=>"].

Lemma closer_term_follow sp r : mem_string sp closers = true -> term_follow (TK sp :: r).
Proof.
  intros H.
  assert (Hs : mem_string sp structural_tokens = true).
  { cbn in H. repeat (apply orb_prop in H as [H|H]; [apply String.eqb_eq in H; subst; reflexivity|]).
    discriminate. }
  assert (Ha : starts_atom (TK sp) = false /\ sp <> "." /\ sp <> "|" /\ sp <> ":").
  { cbn in H. repeat (apply orb_prop in H as [H|H]; [apply String.eqb_eq in H; subst; cbn; repeat split; discriminate|]).
    discriminate. }
  destruct Ha as (Ha & Hd & Hp & Hc).
  split; [split; [split; [exact Ha | congruence] |] |].
  - destruct (tab_not_op sp (or_intror Hs)) as [-> _]. exact I.
  - unfold starts_annot, peek_is, is_tk. 
    destruct (String.eqb ":" sp) eqn:E1; [apply String.eqb_eq in E1; congruence|].
    destruct (String.eqb "|" sp) eqn:E2; [apply String.eqb_eq in E2; congruence|]. reflexivity.
Qed.

Lemma term_follow_nil : term_follow [].
Proof. repeat split. Qed.

(* ------------------------------------------------------------------ one level of the parser *)

Section Step.
Variable lfuel : nat.

Record spec (self : parsers) (n : nat) : Prop := Spec {
  sp_term : forall t rest,
      core t -> length (PT t) <= n -> term_follow rest -> length (PT t ++ rest) < lfuel ->
      p_uniterm self (PT t ++ rest) = Some (uni_of t, rest);
  sp_atom : forall L t rest,
      core t -> length (PATOM t) <= n -> infix_follow L rest -> length (PATOM t ++ rest) < lfuel ->
      p_infix self L (PATOM t ++ rest) = Some (uni_of t, rest);
  sp_type : forall ty rest,
      core_ty ty -> length (PTPART ty) <= n -> strong_follow rest -> length (PTPART ty ++ rest) < lfuel ->
      p_type self (PTPART ty ++ rest) = Some (raw_ty ty, rest);
  sp_tyinfix : forall ty rest,
      core_ty ty -> length (PTPART ty) <= n -> strong_follow rest -> length (PTPART ty ++ rest) < lfuel ->
      p_infix self max_level (PTPART ty ++ rest) = Some (uni_of_ty ty, rest);
  sp_utype : forall ty rest,
      core_ty ty -> length (PTY ty) <= n -> term_follow rest -> length (PTY ty ++ rest) < lfuel ->
      p_uniterm self (PTY ty ++ rest) = Some (uni_of_ty ty, rest);
  (* a variable pattern, not followed by an alias marker (nor, for a general pattern, by anything
     but a fixed token) *)
  sp_pat : forall fl x r,
      1 <= n -> 1 <= lfuel ->
      (forall r', r <> TK "@" :: r') -> (fl = PGeneral -> exists s r', r = TK s :: r') ->
      p_pat self fl (TId x :: r) = Some (Pat None (PAny x), r);
}.

Variable self : parsers.
Variable n : nat.
Hypothesis Hself : spec self n.

Lemma self_p_term t rest :
  core t -> length (PT t) <= n -> term_follow rest -> length (PT t ++ rest) < lfuel ->
  p_term self (PT t ++ rest) = Some (t, rest).
Proof.
  intros Hc Hn Hf Hl. unfold p_term. rewrite (sp_term _ _ Hself) by assumption.
  cbn [bind]. now rewrite as_term_uni_of.
Qed.

(* ---- strings *)

Definition chunk_toks (ml : bool) (c : chunk) : list token :=
  match c with
  | CLit s => lit_toks s
  | CExpr e i => [TInterp (if ml then i else 0)] ++ PT e ++ [TK "}"]
  end.

Lemma chunks_loop_ok ml : forall cs acc rest f,
  chunks_shape cs ->
  match acc, cs with CLit _ :: _, CLit _ :: _ => False | _, _ => True end ->
  (forall e i, In (CExpr e i) cs -> core e /\ length (PT e) <= n /\ (ml = false -> i = 0)) ->
  length cs < f ->
  length (flat_map (chunk_toks ml) cs ++ TEnd :: rest) < lfuel ->
  chunks_loop q self f acc (flat_map (chunk_toks ml) cs ++ TEnd :: rest) = Some (rev acc ++ cs, rest).
Proof.
  induction cs as [|c cs IH]; intros acc rest f Hshape Hadj Hex Hf Hl.
  - destruct f; [cbn in Hf; lia|]. cbn. now rewrite app_nil_r.
  - destruct f; [cbn in Hf; lia|]. cbn [length] in Hf.
    destruct c as [s|e i].
    + cbn [chunks_shape] in Hshape. destruct Hshape as (Hne & Hnext & Hshape).
      cbn [flat_map chunk_toks]. unfold lit_toks. destruct s as [|ch s]; [congruence|].
      cbn [app chunks_loop].
      assert (Hlen : length (flat_map (chunk_toks ml) cs ++ TEnd :: rest) < lfuel).
      { cbn in Hl. lia. }
      assert (Hadj' : match cs with CLit _ :: _ => False | _ => True end) by exact Hnext.
      destruct acc as [|[prev|e' i'] acc'].
      * rewrite (IH [CLit (String ch s)] rest f);
          [ reflexivity | exact Hshape | destruct cs as [|[?|? ?] ?]; auto
          | intros; apply Hex; now right | lia | exact Hlen ].
      * destruct Hadj.
      * rewrite (IH (CLit (String ch s) :: CExpr e' i' :: acc') rest f);
          [ cbn [rev app]; rewrite <- ?app_assoc; reflexivity | exact Hshape
          | destruct cs as [|[?|? ?] ?]; auto
          | intros; apply Hex; now right | lia | exact Hlen ].
    + cbn [chunks_shape] in Hshape.
      destruct (Hex e i (or_introl eq_refl)) as (Hce & Hne & Hi).
      cbn [flat_map chunk_toks]. rewrite <- !app_assoc. cbn [app chunks_loop].
      assert (Hlen : length (flat_map (chunk_toks ml) cs ++ TEnd :: rest) < lfuel
                     /\ length (PT e ++ TK "}" :: flat_map (chunk_toks ml) cs ++ TEnd :: rest) < lfuel).
      { cbn [flat_map chunk_toks] in Hl. rewrite <- !app_assoc in Hl. cbn [app] in Hl. len. }
      destruct Hlen as [Hlen1 Hlen2].
      rewrite (self_p_term e (TK "}" :: flat_map (chunk_toks ml) cs ++ TEnd :: rest));
        [ | exact Hce | exact Hne | now apply closer_term_follow | exact Hlen2 ].
      psimp.
      assert (Hi' : (if ml then i else 0) = i) by (destruct ml; auto; symmetry; auto).
      rewrite Hi'.
      rewrite (IH (CExpr e i :: acc) rest f);
        [ cbn [rev app]; rewrite <- ?app_assoc; reflexivity | exact Hshape
        | destruct cs as [|[?|? ?] ?]; exact I
        | intros; apply Hex; now right | lia | exact Hlen1 ].
Qed.

(* the printed form of a string *)
Lemma pr_chunks_eq fm cs :
  pr_chunks q PT fm cs
  = (if chunks_multiline q fm cs then [TMStr (nb_percent cs)] else [TStr])
      ++ flat_map (chunk_toks (chunks_multiline q fm cs)) cs ++ [TEnd].
Proof. unfold pr_chunks. destruct (chunks_multiline q fm cs); reflexivity. Qed.

Lemma chunk_toks_len ml cs e i :
  In (CExpr e i) cs -> length (PT e) + 2 <= length (flat_map (chunk_toks ml) cs).
Proof.
  induction cs as [|c cs IH]; [intros []|]. intros [->|H].
  - cbn [flat_map chunk_toks]. len.
  - specialize (IH H). cbn [flat_map]. len.
Qed.

Lemma chunk_toks_count ml cs : length cs <= length (flat_map (chunk_toks ml) cs) + length cs.
Proof. lia. Qed.

Lemma chunks_len_le ml cs : chunks_shape cs -> length cs <= length (flat_map (chunk_toks ml) cs).
Proof.
  induction cs as [|c cs IH]; [cbn; lia|]. intros Hs. destruct c as [s|e i].
  - cbn [chunks_shape] in Hs. destruct Hs as (Hne & _ & Hs). specialize (IH Hs).
    cbn [flat_map chunk_toks]. unfold lit_toks. destruct s; [congruence|]. len.
  - cbn [chunks_shape] in Hs. specialize (IH Hs). cbn [flat_map chunk_toks]. len.
Qed.

Lemma string_chunks_ok fm cs rest :
  chunks_shape cs ->
  (chunks_multiline q fm cs = false -> forall e i, In (CExpr e i) cs -> i = 0) ->
  (forall e i, In (CExpr e i) cs -> core e) ->
  length (pr_chunks q PT fm cs) <= S n ->
  length (pr_chunks q PT fm cs ++ rest) < lfuel ->
  string_chunks q lfuel self (pr_chunks q PT fm cs ++ rest) = Some (cs, rest).
Proof.
  intros Hshape Hind Hcore Hn Hl. rewrite pr_chunks_eq in *.
  set (ml := chunks_multiline q fm cs) in *.
  assert (Hgo : chunks_loop q self lfuel [] (flat_map (chunk_toks ml) cs ++ TEnd :: rest) = Some (cs, rest)).
  { apply (chunks_loop_ok ml cs [] rest lfuel).
    - exact Hshape.
    - destruct cs as [|[?|? ?] ?]; exact I.
    - intros e i Hin. repeat split.
      + eapply Hcore; eauto.
      + pose proof (chunk_toks_len ml cs e i Hin). destruct ml; len.
      + intros ->. eapply Hind; eauto.
    - pose proof (chunks_len_le ml cs Hshape). destruct ml; len.
    - destruct ml; len. }
  destruct ml; cbn [app]; rewrite <- app_assoc; cbn [app string_chunks]; exact Hgo.
Qed.

(* ---- first tokens of printed terms *)

Lemma ident_toks_head s : exists tok r, ident_toks keywords s = tok :: r /\ (tok = TId s \/ tok = TStr).
Proof.
  unfold ident_toks, quoted.
  destruct (matches_quoting_regex s && negb (mem_string s keywords)); cbn; eauto.
Qed.

Lemma tag_toks_head s : exists tok r, tag_toks s = tok :: r /\ (tok = TTag s \/ tok = TQTag).
Proof. unfold tag_toks. destruct (matches_quoting_regex s); cbn; eauto. Qed.

Lemma num_toks_ok nq : num_ok nq = true -> num_toks q nq = [TNum nq].
Proof.
  unfold num_ok, num_toks, Qabs_pos, is_neg. destruct nq as [nn nd]. cbn [Qnum Qden].
  destruct nn; try discriminate.
  - intros H. apply Pos.eqb_eq in H. now subst.
  - intros _. now rewrite Hq_num.
Qed.

Lemma pr_chunks_head fm cs : exists tok r, pr_chunks q PT fm cs = tok :: r /\ is_string_start tok = true.
Proof. rewrite pr_chunks_eq. destruct (chunks_multiline q fm cs); cbn; eauto. Qed.

(* an operator that is printed infix is not one of the special names *)
Lemma binop_name_facts nm :
  binop_name nm = true ->
  String.eqb nm "record/get" = false /\ mem_string nm postfix_ops = false
  /\ String.eqb nm "(&&)" = false /\ String.eqb nm "(||)" = false /\ mem_string nm infix_ops = true.
Proof.
  intros H. unfold binop_name in H. apply andb_prop in H as [Hin Hne]. apply negb_true_iff in Hne.
  pose proof Htab as T. unfold table_ok in T. split_andb T.
  assert (Hpost : mem_string nm postfix_ops = false).
  { destruct (mem_string nm postfix_ops) eqn:E; [|reflexivity].
    apply mem_string_in in E.
    match goal with X : forallb (fun n0 => negb (mem_string n0 infix_ops)) postfix_ops = true |- _ =>
      pose proof (forallb_in _ _ _ X E) as Q end.
    cbn in Q. rewrite Hin in Q. discriminate. }
  repeat split; auto.
  - destruct (String.eqb nm "(&&)") eqn:E; [|reflexivity]. apply String.eqb_eq in E. subst nm. congruence.
  - destruct (String.eqb nm "(||)") eqn:E; [|reflexivity]. apply String.eqb_eq in E. subst nm. congruence.
Qed.

(* every printed atom starts with a token of FIRST(Atom) *)
Lemma patom_head t : core t -> exists tok r, PATOM t = tok :: r /\ starts_atom tok = true.
Proof.
  intros Hc. unfold pr_atom.
  destruct (is_atom t) eqn:Ha; cbn [negb parens_if]; [|unfold parens; cbn; eauto].
  revert Ha. induction Hc; cbn [is_atom]; intros Ha; try discriminate;
    try (cbn; eauto; fail).
  - destruct b; cbn; eauto.
  - cbn [pr_term]. rewrite num_toks_ok by assumption. cbn; eauto.
  - cbn [pr_term]. destruct (tag_toks_head s) as (tok & r & -> & [->| ->]); cbn; eauto.
  - cbn [pr_term]. destruct (pr_chunks_head false cs) as (tok & r & -> & Hs).
    exists tok, r. split; [reflexivity|]. destruct tok; try discriminate; reflexivity.
  - (* a strict binary operator is not an atom *)
    destruct (binop_name_facts _ H) as (E1 & _ & E2 & E3 & _). rewrite E1, E2, E3 in Ha. discriminate.
  - (* static access *)
    cbn [pr_term]. unfold pr_atom.
    destruct (is_atom a) eqn:Ha'.
    + cbn [negb parens_if]. destruct (IHHc eq_refl) as (tok & r & E & Hs). rewrite E. cbn; eauto.
    + cbn; eauto.
  - cbn [pr_term pr_record]. destruct fs; cbn; eauto.
  - (* prefix primop: not an atom *)
    destruct (tab_primop _ _ _ H) as (_ & _ & _ & _ & _ & _ & E2 & E3 & _ & _ & _ & _ & E1 & _).
    rewrite E1, E2, E3 in Ha. discriminate.
Qed.

(* how a strict binary operator application is printed *)
Lemma pr_binop nm a b :
  binop_name nm = true ->
  PT (Op (ONamed nm) [a; b])
  = if String.eqb nm "(-)" && (match a with Num z => is_zero z | _ => false end)
    then [TK "-"] ++ PATOM b
    else match assoc_string nm op_spelling with
         | Some sp => PATOM a ++ [TK sp] ++ PATOM b
         | None => PATOM a ++ [TK ("%" ++ nm ++ "%")%string] ++ PATOM b
         end.
Proof.
  intros H. destruct (binop_name_facts _ H) as (E1 & E2 & E3 & E4 & E5).
  cbn [pr_term op_name]. rewrite E1.
  destruct (String.eqb nm "(-)" && (match a with Num z => is_zero z | _ => false end)); [reflexivity|].
  rewrite E2, E5. unfold op_toks. rewrite E3, E4. cbn [orb].
  destruct (assoc_string nm op_spelling); reflexivity.
Qed.

Definition is_uniterm_only (t : term) : bool :=
  match t with
  | If _ _ _ | Fun _ _ | Let _ _ _ | Annot _ _ | ImportPath _ _ | ImportPkg _ => true
  | _ => false
  end.

(* how a prefix primop application is printed *)
Lemma pr_primop sp name args :
  assoc_string sp primops = Some (name, length args) ->
  PT (Op (ONamed name) args) = TK sp :: flat_map PATOM args.
Proof.
  intros H.
  destruct (tab_primop _ _ _ H) as (Esp & _ & _ & _ & Eo & Ei & E2 & E3 & _ & Ep & _ & _ & Eg & Em & En).
  assert (Eop : op_toks op_spelling (ONamed name) = [TK sp]).
  { unfold op_toks. rewrite E2, E3, Eo. cbn [orb]. now subst sp. }
  cbn [pr_term op_name]. destruct args as [|a [|b [|c l]]].
  - rewrite Ep. now rewrite Eop.
  - rewrite En, E2, E3, Ep. now rewrite Eop.
  - rewrite Eg, Em, Ep, Ei. cbn [andb]. now rewrite Eop.
  - rewrite Ep. now rewrite Eop.
Qed.

(* a partially applied lazy operator is not in the fragment *)
Lemma core_not_lazy_partial name x :
  core (Op (ONamed name) [x]) -> String.eqb name "(&&)" || String.eqb name "(||)" = false.
Proof.
  intros Hc. inversion Hc; subst.
  - reflexivity.
  - match goal with X : assoc_string _ primops = Some _ |- _ =>
      destruct (tab_primop _ _ _ X) as (_ & _ & _ & _ & _ & _ & E2 & E3 & _) end.
    now rewrite E2, E3.
Qed.

(* the first token(s) of a printed term *)
Lemma pt_head t :
  core t ->
  exists tok r, PT t = tok :: r
    /\ (starts_atom tok = true
        \/ ((tok = TK "-" \/ tok = TK "!") /\ exists tok2 r2, r = tok2 :: r2 /\ starts_atom tok2 = true)
        \/ ((tok = TK "let" \/ tok = TK "fun" \/ tok = TK "if" \/ tok = TK "import") /\ is_uniterm_only t = true)
        \/ (exists sp name ar, tok = TK sp /\ assoc_string sp primops = Some (name, ar))).
Proof.
  intros Hc.
  assert (Hat : forall a r0, core a -> exists tok r, PATOM a ++ r0 = tok :: r /\ starts_atom tok = true).
  { intros a r0 Ha. destruct (patom_head a Ha) as (tok & r & -> & Hs). cbn. eauto. }
  destruct Hc.
  - cbn; eauto 8.
  - destruct b; cbn; eauto 8.
  - cbn; eauto 8.
  - cbn [pr_term]. rewrite num_toks_ok by assumption. cbn; eauto 8.
  - cbn [pr_term]. destruct (tag_toks_head s) as (tok & r & -> & [->| ->]); cbn; eauto 8.
  - cbn [pr_term]. destruct (tag_toks_head s) as (tok & r & -> & [->| ->]); cbn; eauto 8.
  - cbn [pr_term]. destruct (pr_chunks_head false cs) as (tok & r & -> & Hs).
    exists tok, r. split; [reflexivity|]. left. destruct tok; try discriminate; reflexivity.
  - cbn; eauto 8.
  - (* application *)
    assert (E : PT (App h args) = PATOM h ++ flat_map PATOM args).
    { cbn [pr_term]. destruct h; try reflexivity. destruct o; try reflexivity.
      destruct args0 as [|x [|? ?]]; try reflexivity.
      now rewrite (core_not_lazy_partial _ _ Hc). }
    rewrite E. destruct (Hat h (flat_map PATOM args) Hc) as (tok & r & -> & Hs). eauto 8.
  - (* lazy operator *)
    cbn [pr_term]. unfold is_lazy_name in H. rewrite H.
    destruct (Hat a ([TK (if String.eqb n0 "(&&)" then "&&" else "||")] ++ PATOM b) Hc1) as (tok & r & -> & Hs).
    eauto 8.
  - (* strict binary operator *)
    rewrite pr_binop by assumption.
    destruct (String.eqb n0 "(-)" && _).
    + destruct (Hat b [] Hc2) as (tok & r & E & Hs). rewrite app_nil_r in E.
      exists (TK "-"), (PATOM b). split; [reflexivity|]. right; left. split; [now left|]. rewrite E. eauto.
    + destruct (assoc_string n0 op_spelling).
      * destruct (Hat a ([TK s] ++ PATOM b) Hc1) as (tok & r & -> & Hs). eauto 8.
      * destruct (Hat a ([TK ("%" ++ n0 ++ "%")%string] ++ PATOM b) Hc1) as (tok & r & -> & Hs). eauto 8.
  - (* not *)
    cbn [pr_term op_name]. streq. cbv iota.
    destruct (Hat a [] Hc) as (tok & r & E & Hs). rewrite app_nil_r in E.
    exists (TK "!"), (PATOM a). split; [reflexivity|]. right; left. split; [now right|]. rewrite E. eauto.
  - (* access *)
    cbn [pr_term]. destruct (Hat a ([TK "."] ++ ident_toks keywords id) Hc) as (tok & r & -> & Hs). eauto 8.
  - cbn [pr_term app]. eexists _, _. split; [reflexivity|]. right; right; left. split; [tauto|reflexivity].
  - cbn [pr_term]. destruct (negb (q_dynaccess q) && is_curried_dot args body); cbn [app].
    + eexists _, _. split; [reflexivity|]. left. reflexivity.
    + eexists _, _. split; [reflexivity|]. right; right; left. split; [tauto|reflexivity].
  - cbn [pr_term app]. eexists _, _. split; [reflexivity|]. right; right; left. split; [tauto|reflexivity].
  - cbn [pr_term].
    match goal with |- context [PATOM inner ++ ?R] => destruct (Hat inner R Hc) as (tok & r & -> & Hs) end.
    eauto 8.
  - cbn [pr_term pr_record]. destruct fs; cbn; eauto 8.
  - rewrite (pr_primop _ _ _ H). eexists _, _. split; [reflexivity|]. right; right; right. eauto.
  - cbn [pr_term]. unfold quoted. cbn [app]. eexists _, _. split; [reflexivity|]. right; right; left. split; [tauto|reflexivity].
  - cbn [pr_term]. eexists _, _. split; [reflexivity|]. right; right; left. split; [tauto|reflexivity].
Qed.

(* ---- atoms *)

Notation ATOMB := (atom_base binops prefixops q lfuel self).
Notation ATOM := (atom binops prefixops q lfuel self).

Lemma curried_none_atomstart tok :
  starts_atom tok = true -> curried_op_name binops prefixops tok = None.
Proof.
  intros H. destruct tok as [s| | | | | | | | | |]; try reflexivity.
  unfold curried_op_name.
  destruct (String.eqb s ".") eqn:E1; [apply String.eqb_eq in E1; subst; discriminate|].
  destruct (String.eqb s "|>") eqn:E2; [apply String.eqb_eq in E2; subst; discriminate|].
  destruct (String.eqb s "!=") eqn:E3; [apply String.eqb_eq in E3; subst; discriminate|].
  destruct (tab_not_op s (or_introl H)) as [-> ->]. reflexivity.
Qed.

Lemma curried_none_struct s :
  mem_string s structural_tokens = true -> s <> "." -> curried_op_name binops prefixops (TK s) = None.
Proof.
  intros H Hd. unfold curried_op_name.
  destruct (String.eqb s ".") eqn:E1; [apply String.eqb_eq in E1; congruence|].
  destruct (String.eqb s "|>") eqn:E2; [apply String.eqb_eq in E2; subst; discriminate|].
  destruct (String.eqb s "!=") eqn:E3; [apply String.eqb_eq in E3; subst; discriminate|].
  destruct (tab_not_op s (or_intror H)) as [-> ->]. reflexivity.
Qed.

Definition not_curried (X : list token) : Prop :=
  exists tok r, X = tok :: r
    /\ (curried_op_name binops prefixops tok = None
        \/ exists tok2 r2, r = tok2 :: r2 /\ starts_atom tok2 = true).

Lemma paren_atom X rest u :
  not_curried X ->
  p_uniterm self (X ++ TK ")" :: rest) = Some (u, TK ")" :: rest) ->
  ATOMB (TK "(" :: X ++ TK ")" :: rest) = Some (u, rest).
Proof.
  intros (tok & r & -> & Hc) Hp. unfold atom_base. streq. cbv iota.
  cbn [app] in *.
  destruct r as [|tok2 r2].
  - cbn [app]. destruct Hc as [Hc|(? & ? & ? & _)]; [|discriminate].
    rewrite Hc. cbn [app] in Hp. rewrite Hp. psimp. reflexivity.
  - cbn [app] in *.
    assert (Hgo : match curried_op_name binops prefixops tok, tok2 with
                  | Some _, TK c => String.eqb c ")" = false
                  | _, _ => True
                  end).
    { destruct Hc as [Hc|(t2 & r2' & E & Hs)]; [now rewrite Hc|].
      inversion E; subst. destruct (curried_op_name binops prefixops tok); [|exact I].
      destruct t2; try exact I.
      destruct (String.eqb s0 ")") eqn:E2; [|reflexivity]. apply String.eqb_eq in E2. subst. discriminate. }
    destruct tok2 as [c| | | | | | | | | |]; try (rewrite Hp; psimp; reflexivity).
    destruct (curried_op_name binops prefixops tok); [|rewrite Hp; psimp; reflexivity].
    rewrite Hgo. rewrite Hp. psimp. reflexivity.
Qed.

Lemma pt_not_curried t : core t -> not_curried (PT t).
Proof.
  intros Hc. destruct (pt_head t Hc) as (tok & r & E & H). exists tok, r. split; [exact E|].
  destruct H as [H|[[_ H]|[[[->|[->|[->| ->]]] _]|(sp & name & ar & -> & Hp)]]].
  - left. now apply curried_none_atomstart.
  - now right.
  - left. now apply curried_none_struct.
  - left. now apply curried_none_struct.
  - left. now apply curried_none_struct.
  - left. now apply curried_none_struct.
  - left. destruct (tab_primop _ _ _ Hp) as (Esp & _ & _ & _ & _ & _ & _ & _ & _ & _ & Epre & Ebin & _).
    unfold curried_op_name. rewrite Ebin, Epre. subst sp. reflexivity.
Qed.

(* a printed term does not start with a closing or separating token *)
Lemma pt_peek_false s t r :
  core t -> starts_atom (TK s) = false -> mem_string s structural_tokens = true ->
  s <> "-" -> s <> "!" -> s <> "let" -> s <> "fun" -> s <> "if" -> s <> "import" ->
  peek_is s (PT t ++ r) = false.
Proof.
  intros Hc Hs Hst H1 H2 H3 H4 H5 H6. destruct (pt_head t Hc) as (tok & r0 & -> & H).
  cbn [app peek_is]. unfold is_tk. destruct tok as [s'| | | | | | | | | |]; try reflexivity.
  destruct (String.eqb s s') eqn:E; [|reflexivity]. apply String.eqb_eq in E. subst s'.
  destruct H as [H|[[[H|H] _]|[[[H|[H|[H|H]]] _]|(sp & name & ar & H & Hp)]]];
    try congruence; try (inversion H; congruence).
  inversion H; subst. destruct (tab_primop _ _ _ Hp) as (_ & _ & _ & Hns & _). congruence.
Qed.

Lemma sep_by_cons2 {A} sep (f : A -> list token) x y l :
  sep_by sep f (x :: y :: l) = f x ++ sep ++ sep_by sep f (y :: l).
Proof. reflexivity. Qed.

Lemma term_list_ok : forall es acc rest f,
  (forall e, In e es -> core e /\ length (PT e) <= n) ->
  length es < f ->
  length (sep_by [TK ","] PT es ++ TK "]" :: rest) < lfuel ->
  term_list self f acc (sep_by [TK ","] PT es ++ TK "]" :: rest) = Some (rev acc ++ es, rest).
Proof.
  induction es as [|x es IH]; intros acc rest f Hes Hf Hl.
  - destruct f; [cbn in Hf; lia|]. cbn. now rewrite app_nil_r.
  - destruct f; [cbn in Hf; lia|]. cbn [length] in Hf.
    destruct (Hes x (or_introl eq_refl)) as [Hcx Hnx].
    destruct es as [|y es].
    + cbn [sep_by] in *. cbn [term_list].
      rewrite pt_peek_false by (auto; try reflexivity; discriminate).
      rewrite (self_p_term x (TK "]" :: rest));
        [ | exact Hcx | exact Hnx | now apply closer_term_follow | exact Hl ].
      psimp. cbn [rev]. reflexivity.
    + rewrite sep_by_cons2 in *. rewrite <- !app_assoc in *. cbn [app] in *. cbn [term_list].
      rewrite pt_peek_false by (auto; try reflexivity; discriminate).
      rewrite (self_p_term x (TK "," :: sep_by [TK ","] PT (y :: es) ++ TK "]" :: rest));
        [ | exact Hcx | exact Hnx | now apply closer_term_follow | exact Hl ].
      psimp.
      rewrite (IH (x :: acc) rest f).
      * cbn [rev]. now rewrite <- app_assoc.
      * intros e He. apply Hes. now right.
      * cbn [length] in *. lia.
      * len.
Qed.

(* ---- records with simple fields *)

Lemma string_app_nil_r (s : string) : (s ++ "")%string = s.
Proof. induction s; cbn; [reflexivity|now f_equal]. Qed.

Lemma quoted_string_chunks s r :
  2 <= lfuel ->
  string_chunks q lfuel self (quoted s ++ r)
  = Some (match s with EmptyString => [] | _ => [CLit s] end, r).
Proof.
  intros Hl. destruct lfuel as [|[|f]]; try lia.
  unfold quoted, lit_toks. destruct s; reflexivity.
Qed.

Lemma ident_path_elem s r :
  2 <= lfuel ->
  field_path_elem q lfuel self (ident_toks keywords s ++ r) = Some (PId s, r).
Proof.
  intros Hl. unfold ident_toks.
  destruct (matches_quoting_regex s && negb (mem_string s keywords)).
  - reflexivity.
  - assert (E : forall X, field_path_elem q lfuel self (TStr :: X)
                      = bind (string_chunks q lfuel self (TStr :: X))
                             (fun x => let '(cs, r0) := x in
                                       match chunks_static cs with
                                       | Some s0 => Some (PId s0, r0)
                                       | None => Some (PExpr cs, r0)
                                       end)) by reflexivity.
    change (quoted s ++ r) with (TStr :: (lit_toks s ++ [TEnd]) ++ r). rewrite E.
    change (TStr :: (lit_toks s ++ [TEnd]) ++ r) with (quoted s ++ r).
    rewrite quoted_string_chunks by assumption.
    cbn [bind]. destruct s; cbn [chunks_static]; [reflexivity|]. now rewrite string_app_nil_r.
Qed.

Lemma ident_toks_not_include s r :
  is_include_decl (ident_toks keywords s ++ TK "=" :: r) = false.
Proof.
  unfold ident_toks. destruct (matches_quoting_regex s && negb (mem_string s keywords)); [|reflexivity].
  cbn. now rewrite andb_false_r.
Qed.

Lemma ident_toks_peek s c r : peek_is c (ident_toks keywords s ++ r) = false.
Proof.
  unfold ident_toks. destruct (matches_quoting_regex s && negb (mem_string s keywords)); reflexivity.
Qed.

Lemma pr_fdef_simple s v :
  pr_fdef keywords q PT PTY (FDef [PId s] empty_fmeta (Some v)) = ident_toks keywords s ++ TK "=" :: PT v.
Proof. reflexivity. Qed.

Lemma field_path_single k s r :
  1 <= k -> 2 <= lfuel -> peek_is "." r = false ->
  field_path q lfuel self k [] (ident_toks keywords s ++ r) = Some ([PId s], r).
Proof.
  intros Hk Hl Hp. destruct k; [lia|]. cbn [field_path].
  rewrite ident_path_elem by assumption. cbn [bind]. rewrite Hp. reflexivity.
Qed.

Lemma annot_series_none k fixed lvl acc ts :
  1 <= k -> starts_annot ts = false -> annot_series self k fixed lvl acc ts = Some (acc, ts).
Proof. intros Hk Hs. destruct k; [lia|]. cbn [annot_series]. now rewrite Hs. Qed.

Lemma field_decl_simple s v r :
  2 <= lfuel -> core v -> length (PT v) <= n ->
  term_follow r -> length (ident_toks keywords s ++ TK "=" :: PT v ++ r) < lfuel ->
  field_decl q lfuel self (ident_toks keywords s ++ TK "=" :: PT v ++ r)
  = Some (DField (FDef [PId s] empty_fmeta (Some v)), r).
Proof.
  intros Hl Hc Hn Hf Hlen. unfold field_decl.
  rewrite (ident_toks_not_include s (PT v ++ r)).
  rewrite field_path_single; [ | lia | exact Hl | reflexivity ].
  psimp. unfold annots. rewrite annot_series_none; [ | lia | reflexivity ].
  psimp.
  rewrite self_p_term; [ | exact Hc | exact Hn | exact Hf | len ].
  psimp. reflexivity.
Qed.

Definition simple_field_n (fd : fdef) : Prop :=
  exists s v, fd = FDef [PId s] empty_fmeta (Some v) /\ core v /\ length (PT v) <= n.

Notation PFDEF := (pr_fdef keywords q PT PTY).

Lemma record_body_ok : forall fs acc rest f,
  (forall fd, In fd fs -> simple_field_n fd) -> fs <> [] ->
  length fs < f -> 2 <= lfuel ->
  length (sep_by [TK ","] PFDEF fs ++ TK "}" :: rest) < lfuel ->
  record_body q lfuel self f acc (sep_by [TK ","] PFDEF fs ++ TK "}" :: rest)
  = Some (URecord (ur_incs acc) (ur_fields acc ++ fs) (ur_tail acc) (ur_open acc), rest).
Proof.
  induction fs as [|x fs IH]; intros acc rest f Hfs Hne Hf Hl2 Hl; [congruence|].
  destruct f; [cbn in Hf; lia|]. cbn [length] in Hf.
  destruct (Hfs x (or_introl eq_refl)) as (s & v & -> & Hcv & Hnv).
  destruct fs as [|y fs].
  - cbn [sep_by] in *. rewrite pr_fdef_simple in *. rewrite <- app_assoc in *. cbn [app] in *.
    cbn [record_body]. rewrite !ident_toks_peek. cbn [orb].
    rewrite field_decl_simple; [ | exact Hl2 | exact Hcv | exact Hnv | now apply closer_term_follow | exact Hl ].
    psimp. unfold record_tail_and_close. psimp. destruct acc; reflexivity.
  - rewrite sep_by_cons2 in *. rewrite pr_fdef_simple in *. rewrite <- !app_assoc in *. cbn [app] in *.
    cbn [record_body]. rewrite !ident_toks_peek. cbn [orb].
    rewrite field_decl_simple; [ | exact Hl2 | exact Hcv | exact Hnv | now apply closer_term_follow | exact Hl ].
    psimp.
    rewrite (IH (add_decl (DField (FDef [PId s] empty_fmeta (Some v))) acc) rest f).
    + destruct acc; cbn. now rewrite <- app_assoc.
    + intros fd Hin. apply Hfs. now right.
    + discriminate.
    + cbn [length] in *. lia.
    + exact Hl2.
    + len.
Qed.

Lemma pr_record_simple fs :
  PT (Record [] fs false) = TK "{" :: sep_by [TK ","] PFDEF fs ++ [TK "}"].
Proof. destruct fs; reflexivity. Qed.

Lemma atomb_record fs rest :
  (forall fd, In fd fs -> simple_field_n fd) -> 2 <= lfuel ->
  length (PT (Record [] fs false) ++ rest) < lfuel ->
  ATOMB (PT (Record [] fs false) ++ rest) = Some (URec (URecord [] fs None false), rest).
Proof.
  intros Hfs Hl2 Hl. rewrite pr_record_simple in *. rewrite <- app_comm_cons, <- app_assoc in *. cbn [app] in *.
  assert (Hbody : record_body q lfuel self lfuel (URecord [] [] None false)
                    (sep_by [TK ","] PFDEF fs ++ TK "}" :: rest)
                  = Some (URecord [] fs None false, rest)).
  { destruct fs as [|x fs].
    - cbn [sep_by app]. destruct lfuel as [|[|k]]; try lia. reflexivity.
    - rewrite record_body_ok; [ reflexivity | exact Hfs | discriminate | | exact Hl2 | len ].
      assert (H : forall l : list fdef, (forall fd, In fd l -> simple_field_n fd) ->
                        length l <= length (sep_by [TK ","] PFDEF l)).
      { clear. induction l as [|a l IH]; intros Hs; [cbn; lia|].
        destruct (Hs a (or_introl eq_refl)) as (s & v & -> & _).
        assert (IH' : length l <= length (sep_by [TK ","] PFDEF l)) by (apply IH; intros; apply Hs; now right).
        destruct l as [|b l].
        - cbn [sep_by]. rewrite pr_fdef_simple. len.
        - rewrite sep_by_cons2. len. }
      specialize (H (x :: fs) Hfs). len. }
  unfold atom_base. streq. cbv iota.
  destruct (sep_by [TK ","] PFDEF fs ++ TK "}" :: rest) as [|t0 ts0] eqn:E.
  - destruct (sep_by [TK ","] PFDEF fs); discriminate.
  - destruct t0 as [u| | | | | | | | | |]; try (rewrite Hbody; reflexivity).
    destruct ts0 as [|t1 ts1]; [rewrite Hbody; reflexivity|].
    destruct t1 as [c| | | | | | | | | |]; try (rewrite Hbody; reflexivity).
    (* the first token is a closing brace (empty record) or comes from a field name: never `_` *)
    assert (Hu : String.eqb u "_" = false).
    { destruct fs as [|x fs].
      - cbn in E. inversion E. reflexivity.
      - destruct (Hfs x (or_introl eq_refl)) as (s & v & -> & _).
        destruct fs as [|y fs]; [cbn [sep_by] in E | rewrite sep_by_cons2 in E];
          rewrite pr_fdef_simple in E; rewrite <- ?app_assoc in E;
          destruct (ident_toks_head s) as (tok & r & Et & [->| ->]); rewrite Et in E; cbn in E; inversion E. }
    rewrite Hu. cbn [andb]. rewrite Hbody. reflexivity.
Qed.

(* ---- base atoms *)

Lemma sep_by_in_len {A} (f : A -> list token) sep l x :
  In x l -> length (f x) <= length (sep_by sep f l).
Proof.
  induction l as [|a l IH]; [intros []|]. intros Hin.
  destruct l as [|b l].
  - destruct Hin as [->|[]]. cbn. lia.
  - rewrite sep_by_cons2. destruct Hin as [->|Hin]; [len|]. specialize (IH Hin). len.
Qed.

Definition is_access (t : term) : bool :=
  match t with Op (OStatAccess _) [_] => true | _ => false end.

Lemma atomb_ok t rest :
  core t -> is_atom t = true -> is_access t = false ->
  length (PT t) <= S n -> length (PT t ++ rest) < lfuel ->
  ATOMB (PT t ++ rest) = Some (uni_of t, rest).
Proof.
  intros Hc Ha Hacc Hn Hl.
  assert (Hl2 : 2 <= lfuel).
  { destruct (pt_head t Hc) as (tok & r & E & _). rewrite E in Hl. cbn [app length] in Hl. lia. }
  destruct Hc; cbn [is_atom is_access] in *; try discriminate.
  - reflexivity.
  - destruct b; reflexivity.
  - reflexivity.
  - cbn [pr_term]. rewrite num_toks_ok by assumption. reflexivity.
  - cbn [pr_term]. unfold tag_toks. destruct (matches_quoting_regex s); [reflexivity|].
    unfold lit_toks. destruct s; reflexivity.
  - (* string *)
    cbn [pr_term] in *. destruct (pr_chunks_head false cs) as (tok & r & E & Hs).
    assert (Hgo : string_chunks q lfuel self (pr_chunks q PT false cs ++ rest) = Some (cs, rest)).
    { apply string_chunks_ok; auto. }
    rewrite E in *. cbn [app] in *. unfold atom_base.
    destruct tok; try discriminate; rewrite Hgo; reflexivity.
  - (* array *)
    cbn [pr_term] in *. rewrite <- !app_assoc in *. cbn [app] in *. unfold atom_base. streq. cbv iota.
    rewrite (term_list_ok es [] rest lfuel).
    + reflexivity.
    + intros e He. split; [now apply H|]. pose proof (sep_by_in_len PT [TK ","] es e He). len.
    + assert (forall l : list term, (forall e, In e l -> core e) -> length l <= length (sep_by [TK ","] PT l)).
      { induction l as [|a l IH]; intros Hl'; [cbn; lia|].
        assert (Ha1 : 1 <= length (PT a)).
        { destruct (pt_head a (Hl' a (or_introl eq_refl))) as (tok & r & -> & _). len. }
        assert (IH' : length l <= length (sep_by [TK ","] PT l)) by (apply IH; intros; apply Hl'; now right).
        destruct l as [|b l]; [cbn [sep_by]; len | rewrite sep_by_cons2; len]. }
      specialize (H0 es H). len.
    + len.
  - (* strict binary operator: not an atom *)
    destruct (binop_name_facts _ H) as (E1 & _ & E2 & E3 & _). rewrite E1, E2, E3 in Ha. discriminate.
  - (* record *)
    apply atomb_record; auto.
    intros fd Hin. destruct (H fd Hin) as (v & (s & ->) & Hv). exists s, v. repeat split; auto.
    rewrite pr_record_simple in Hn.
    pose proof (sep_by_in_len PFDEF [TK ","] fs _ Hin) as Hlen. rewrite pr_fdef_simple in Hlen. len.
  - (* prefix primop: not an atom *)
    destruct (tab_primop _ _ _ H) as (_ & _ & _ & _ & _ & _ & E2 & E3 & _ & _ & _ & _ & E1 & _).
    rewrite E1, E2, E3 in Ha. discriminate.
Qed.

(* ---- access chains *)

Fixpoint acc_depth (t : term) : nat :=
  match t with
  | Op (OStatAccess _) [a] => S (acc_depth a)
  | _ => 0
  end.

Notation ALOOP := (access_loop q lfuel self).

Lemma access_step f u e id r :
  as_term u = Some e -> 2 <= lfuel ->
  ALOOP (S f) u (TK "." :: ident_toks keywords id ++ r) = ALOOP f (UTerm (Op (OStatAccess id) [e])) r.
Proof.
  intros Hu Hl. cbn [access_loop]. psimp. rewrite Hu. cbn [bind].
  unfold ident_toks. destruct (matches_quoting_regex id && negb (mem_string id keywords)).
  - reflexivity.
  - change (quoted id ++ r) with (TStr :: (lit_toks id ++ [TEnd]) ++ r). cbn [is_string_start]. cbv iota.
    change (TStr :: (lit_toks id ++ [TEnd]) ++ r) with (quoted id ++ r).
    rewrite quoted_string_chunks by assumption. cbn [bind].
    destruct id; cbn [chunks_static]; [reflexivity|]. now rewrite string_app_nil_r.
Qed.

Lemma access_stop f u r : 1 <= f -> peek_is "." r = false -> ALOOP f u r = Some (u, r).
Proof. intros Hf Hp. destruct f; [lia|]. cbn [access_loop]. now rewrite Hp. Qed.

Lemma acc_depth_len t : core t -> acc_depth t < length (PATOM t).
Proof.
  intros Hc. induction Hc; cbn [acc_depth];
    try (match goal with
         | |- 0 < length (PATOM ?x) =>
             assert (Hx : core x) by (econstructor; eassumption);
             destruct (patom_head x Hx) as (? & ? & -> & _); cbn; lia
         end).
  unfold pr_atom at 1. cbn [is_atom negb parens_if pr_term]. len.
Qed.

(* the atom parser on a printed atom, up to the continuation of the access loop *)
Lemma atom_loopform t : core t -> forall rest,
  length (PATOM t) <= S n -> length (PATOM t ++ rest) < lfuel ->
  ATOM (PATOM t ++ rest) = ALOOP (lfuel - acc_depth t) (uni_of t) rest.
Proof.
  intros Hc.
  assert (Hnon : forall t0, core t0 -> is_access t0 = false -> forall rest,
             length (PATOM t0) <= S n -> length (PATOM t0 ++ rest) < lfuel ->
             ATOM (PATOM t0 ++ rest) = ALOOP (lfuel - acc_depth t0) (uni_of t0) rest).
  { intros t0 Hc0 Hna rest Hn Hl.
    assert (Hd : acc_depth t0 = 0).
    { destruct t0; try reflexivity. destruct o; try reflexivity. destruct args as [|? [|? ?]]; try reflexivity. discriminate. }
    rewrite Hd, Nat.sub_0_r. unfold atom, pr_atom in *.
    destruct (is_atom t0) eqn:Ha; cbn [negb parens_if] in *.
    - rewrite atomb_ok; auto.
    - unfold parens in *. rewrite <- !app_assoc in *. cbn [app] in *.
      rewrite (paren_atom (PT t0) rest (uni_of t0)).
      + reflexivity.
      + now apply pt_not_curried.
      + apply (sp_term _ _ Hself); auto; [len | now apply closer_term_follow | len]. }
  induction Hc; intros rest Hn Hl;
    try (apply Hnon; [eauto using core | reflexivity | assumption | assumption ]).
  (* static access *)
  cbn [acc_depth]. 
  assert (E : PATOM (Op (OStatAccess id) [a]) = PATOM a ++ TK "." :: ident_toks keywords id).
  { unfold pr_atom at 1. cbn [is_atom negb parens_if pr_term]. reflexivity. }
  rewrite E in *. rewrite <- app_assoc in *. cbn [app] in *.
  rewrite IHHc; [ | len | exact Hl ].
  pose proof (acc_depth_len a Hc) as Hd.
  assert (Hf : lfuel - acc_depth a = S (lfuel - S (acc_depth a))) by len.
  rewrite Hf. rewrite (access_step _ _ a); [reflexivity | now apply as_term_uni_of | len].
Qed.

Lemma atom_ok t rest :
  core t -> length (PATOM t) <= S n -> length (PATOM t ++ rest) < lfuel ->
  peek_is "." rest = false ->
  ATOM (PATOM t ++ rest) = Some (uni_of t, rest).
Proof.
  intros Hc Hn Hl Hp. rewrite atom_loopform by assumption.
  apply access_stop; [|exact Hp]. pose proof (acc_depth_len t Hc). len.
Qed.

(* ---- application *)

Notation ATOMT := (atom_term binops prefixops q lfuel self).
Notation ASTAR := (atoms_star binops prefixops q lfuel self).
Notation APPH := (applicative_head binops prefixops primops q lfuel self).
Notation APP := (applicative binops prefixops primops q lfuel self).

Lemma weak_peek_dot r : weak_follow r -> peek_is "." r = false.
Proof.
  destruct r as [|t r]; [reflexivity|]. intros [_ Hd]. cbn [peek_is]. unfold is_tk.
  destruct t; try reflexivity. destruct (String.eqb "." s) eqn:E; [|reflexivity].
  apply String.eqb_eq in E. subst. congruence.
Qed.

Lemma atomstart_peek_dot tok r : starts_atom tok = true -> peek_is "." (tok :: r) = false.
Proof.
  intros H. cbn [peek_is]. unfold is_tk. destruct tok; try reflexivity.
  destruct (String.eqb "." s) eqn:E; [|reflexivity]. apply String.eqb_eq in E. subst. discriminate.
Qed.

Lemma atoms_peek_dot args rest :
  (forall a, In a args -> core a) -> weak_follow rest -> peek_is "." (flat_map PATOM args ++ rest) = false.
Proof.
  intros Ha Hw. destruct args as [|a args]; [now apply weak_peek_dot|].
  cbn [flat_map]. destruct (patom_head a (Ha a (or_introl eq_refl))) as (tok & r & -> & Hs).
  rewrite <- !app_assoc. cbn [app]. now apply atomstart_peek_dot.
Qed.

Lemma atom_term_ok t rest :
  core t -> length (PATOM t) <= S n -> length (PATOM t ++ rest) < lfuel ->
  peek_is "." rest = false ->
  ATOMT (PATOM t ++ rest) = Some (t, rest).
Proof.
  intros Hc Hn Hl Hp. unfold atom_term. rewrite atom_ok by assumption. cbn [bind].
  now rewrite as_term_uni_of.
Qed.

Lemma atoms_star_step f acc ts tok r :
  ts = tok :: r -> starts_atom tok = true ->
  ASTAR (S f) acc ts = bind (ATOMT ts) (fun x => let '(a, r') := x in ASTAR f (a :: acc) r').
Proof. intros -> Hs. cbn [atoms_star]. now rewrite Hs. Qed.

Lemma atoms_star_ok : forall args acc rest f,
  (forall a, In a args -> core a /\ length (PATOM a) <= S n) ->
  weak_follow rest -> length args < f ->
  length (flat_map PATOM args ++ rest) < lfuel ->
  ASTAR f acc (flat_map PATOM args ++ rest) = Some (rev acc ++ args, rest).
Proof.
  induction args as [|a args IH]; intros acc rest f Ha Hw Hf Hl.
  - destruct f; [cbn in Hf; lia|]. cbn [flat_map app atoms_star]. rewrite app_nil_r.
    destruct rest as [|t r]; [reflexivity|]. destruct Hw as [Hs _]. now rewrite Hs.
  - destruct f; [cbn in Hf; lia|]. cbn [length] in Hf.
    destruct (Ha a (or_introl eq_refl)) as [Hca Hna].
    cbn [flat_map] in *. rewrite <- app_assoc in *.
    destruct (patom_head a Hca) as (tok & r & E & Hs).
    rewrite (atoms_star_step f acc _ tok (r ++ flat_map PATOM args ++ rest));
      [ | rewrite E; reflexivity | exact Hs ].
    rewrite atom_term_ok; [ | exact Hca | exact Hna | exact Hl | ].
    + cbn [bind]. rewrite (IH (a :: acc) rest f).
      * cbn [rev]. now rewrite <- app_assoc.
      * intros x Hx. apply Ha. now right.
      * exact Hw.
      * lia.
      * len.
    + apply atoms_peek_dot; [|exact Hw]. intros x Hx. apply Ha. now right.
Qed.

Lemma apph_atom t rest : core t -> APPH (PATOM t ++ rest) = ATOM (PATOM t ++ rest).
Proof.
  intros Hc. destruct (patom_head t Hc) as (tok & r & -> & Hs). cbn [app].
  unfold applicative_head. destruct tok as [s| | | | | | | | | |]; try reflexivity.
  destruct (String.eqb s "Array") eqn:E1; [apply String.eqb_eq in E1; subst; discriminate|].
  destruct (String.eqb s "match") eqn:E2; [apply String.eqb_eq in E2; subst; discriminate|].
  destruct (String.eqb s "%enum/embed%") eqn:E3; [apply String.eqb_eq in E3; subst; discriminate|].
  now rewrite (tab_not_primop s (or_introl Hs)).
Qed.

Definition app_result (h : term) (args : list term) : uni :=
  match args with
  | [] => uni_of h
  | _ => match h, args with
         | Enum tag None, [a] => UTerm (Enum tag (Some a))
         | _, _ => UTerm (App h args)
         end
  end.

Lemma applicative_ok h args rest :
  core h -> (forall a, In a args -> core a) ->
  length (PATOM h ++ flat_map PATOM args) <= S n ->
  weak_follow rest ->
  length (PATOM h ++ flat_map PATOM args ++ rest) < lfuel ->
  APP (PATOM h ++ flat_map PATOM args ++ rest) = Some (app_result h args, rest).
Proof.
  intros Hh Ha Hn Hw Hl. unfold applicative.
  rewrite apph_atom by assumption.
  rewrite atom_ok; [ | exact Hh | len | exact Hl | now apply atoms_peek_dot ].
  cbn [bind].
  rewrite (atoms_star_ok args [] rest lfuel).
  - cbn [rev app]. unfold app_result. destruct args as [|a args]; [reflexivity|].
    rewrite as_term_uni_of by assumption. cbn [bind].
    destruct h; try reflexivity. destruct arg; [reflexivity|]. destruct args; reflexivity.
  - intros a Hin. split; [now apply Ha|].
    assert (length (PATOM a) <= length (flat_map PATOM args)).
    { clear -Hin. induction args as [|b args IH]; [destruct Hin|]. cbn [flat_map].
      destruct Hin as [->|Hin]; [len | specialize (IH Hin); len]. }
    len.
  - exact Hw.
  - assert (length args <= length (flat_map PATOM args)).
    { clear Hn Hl. induction args as [|b args IH]; [cbn; lia|]. cbn [flat_map].
      destruct (patom_head b (Ha b (or_introl eq_refl))) as (tok & r & -> & _).
      assert (length args <= length (flat_map PATOM args)) by (apply IH; intros; apply Ha; now right). len. }
    len.
  - len.
Qed.

Lemma atoms_n_ok : forall args acc rest,
  (forall a, In a args -> core a /\ length (PATOM a) <= S n) ->
  weak_follow rest ->
  length (flat_map PATOM args ++ rest) < lfuel ->
  atoms_n binops prefixops q lfuel self (length args) acc (flat_map PATOM args ++ rest)
  = Some (rev acc ++ args, rest).
Proof.
  induction args as [|a args IH]; intros acc rest Ha Hw Hl.
  - cbn. now rewrite app_nil_r.
  - destruct (Ha a (or_introl eq_refl)) as [Hca Hna].
    cbn [flat_map length atoms_n] in *. rewrite <- app_assoc in *.
    rewrite atom_term_ok; [ | exact Hca | exact Hna | exact Hl | ].
    + cbn [bind]. rewrite IH.
      * cbn [rev]. now rewrite <- app_assoc.
      * intros x Hx. apply Ha. now right.
      * exact Hw.
      * len.
    + apply atoms_peek_dot; [|exact Hw]. intros x Hx. apply Ha. now right.
Qed.

Lemma mem_false_neq s k l : mem_string s l = false -> In k l -> String.eqb s k = false.
Proof.
  intros Hm Hin. destruct (String.eqb s k) eqn:E; [|reflexivity]. apply String.eqb_eq in E. subst.
  apply mem_string_in in Hin. congruence.
Qed.

(* a prefix primop applied to its arguments *)
Lemma primop_loopform L sp name args rest :
  assoc_string sp primops = Some (name, length args) ->
  (forall a, In a args -> core a) ->
  length (TK sp :: flat_map PATOM args) <= S n -> weak_follow rest ->
  length (TK sp :: flat_map PATOM args ++ rest) < lfuel ->
  infix binops prefixops primops q lfuel self L (TK sp :: flat_map PATOM args ++ rest)
  = infix_loop binops self lfuel L (UTerm (Op (ONamed name) args)) rest.
Proof.
  intros Hp Ha Hn Hw Hl.
  destruct (tab_primop _ _ _ Hp) as (_ & _ & _ & Hns & _ & _ & _ & _ & Eemb & _ & Epre & _).
  unfold infix, infix_prefix. rewrite Epre.
  unfold applicative, applicative_head.
  rewrite (mem_false_neq sp "Array" _ Hns) by (cbn; tauto).
  rewrite (mem_false_neq sp "match" _ Hns) by (cbn; tauto).
  rewrite Eemb, Hp.
  rewrite atoms_n_ok; [ | | exact Hw | cbn [length] in Hl; len ].
  - cbn [bind rev app].
    assert (Hstar : atoms_star binops prefixops q lfuel self lfuel [] rest = Some ([], rest)).
    { pose proof (atoms_star_ok [] [] rest lfuel) as Hs. cbn [flat_map app rev] in Hs. apply Hs.
      - intros ? [].
      - exact Hw.
      - cbn [length] in *. lia.
      - cbn [length] in *. len. }
    rewrite Hstar. reflexivity.
  - intros a Hin. split; [now apply Ha|].
    assert (length (PATOM a) <= length (flat_map PATOM args)).
    { clear -Hin. induction args as [|b args IH]; [destruct Hin|]. cbn [flat_map].
      destruct Hin as [->|Hin]; [len | specialize (IH Hin); len]. }
    cbn [length] in Hn. len.
Qed.

(* ---- infix expressions *)

Notation IPRE := (infix_prefix binops prefixops primops q lfuel self).
Notation ILOOP := (infix_loop binops self).
Notation INFIX := (infix binops prefixops primops q lfuel self).

Lemma ipre_atomstart L ts tok r :
  ts = tok :: r -> starts_atom tok = true -> IPRE L ts = APP ts.
Proof.
  intros -> Hs. unfold infix_prefix. destruct tok as [s| | | | | | | | | |]; try reflexivity.
  now destruct (tab_not_op s (or_introl Hs)) as [_ ->].
Qed.

Lemma iloop_stop f L u r : 1 <= f -> infix_follow L r -> ILOOP f L u r = Some (u, r).
Proof.
  intros Hf [_ Hb]. destruct f; [lia|]. cbn [infix_loop].
  destruct r as [|[sp| | | | | | | | | |] r]; try reflexivity.
  destruct (assoc_string sp binops) as [[[lvl a] k]|]; [|reflexivity].
  assert (E : Nat.leb lvl L = false) by (apply Nat.leb_gt; exact Hb). now rewrite E.
Qed.

Lemma iloop_binop f L lhs sp lvl a k r :
  assoc_string sp binops = Some (lvl, a, k) -> lvl <= L ->
  ILOOP (S f) L lhs (TK sp :: r)
  = bind (p_infix self (match a with ALeft | ANone => lvl - 1 | ARight | AAll => lvl end) r)
         (fun x => let '(rhs, r1) := x in bind (mk_binop k lhs rhs) (fun u => ILOOP f L u r1)).
Proof.
  intros E Hl. cbn [infix_loop]. rewrite E.
  assert (E2 : Nat.leb lvl L = true) by now apply Nat.leb_le. now rewrite E2.
Qed.

Lemma patom_of_atom t : is_atom t = true -> PATOM t = PT t.
Proof. intros H. unfold pr_atom. now rewrite H. Qed.

(* the whole printed atom, at any level *)
Lemma infix_atom_loopform L t rest :
  core t -> length (PATOM t) <= S n -> weak_follow rest -> length (PATOM t ++ rest) < lfuel ->
  INFIX L (PATOM t ++ rest) = ILOOP lfuel L (uni_of t) rest.
Proof.
  intros Hc Hn Hw Hl. unfold infix.
  destruct (patom_head t Hc) as (tok & r & E & Hs).
  rewrite (ipre_atomstart L _ tok (r ++ rest)); [ | rewrite E; reflexivity | exact Hs ].
  pose proof (applicative_ok t [] rest Hc) as Happ. cbn [flat_map app] in Happ. rewrite app_nil_r in Happ.
  rewrite Happ; [reflexivity | intros ? [] | exact Hn | exact Hw | exact Hl ].
Qed.

Lemma infix_atom_ok L t rest :
  core t -> length (PATOM t) <= S n -> infix_follow L rest -> length (PATOM t ++ rest) < lfuel ->
  INFIX L (PATOM t ++ rest) = Some (uni_of t, rest).
Proof.
  intros Hc Hn Hf Hl. rewrite infix_atom_loopform; auto; [|exact (proj1 Hf)].
  apply iloop_stop; [|exact Hf]. destruct (patom_head t Hc) as (? & ? & E & _). rewrite E in Hl. len.
Qed.

Lemma optok_weak sp e r : assoc_string sp binops = Some e -> weak_follow (TK sp :: r).
Proof.
  intros H. destruct (tab_binop_token _ _ H) as [Hs Hm]. split; [exact Hs|].
  intros E. inversion E. subst. discriminate.
Qed.

Lemma ipre_prefix L sp lvl k r :
  assoc_string sp prefixops = Some (lvl, k) -> lvl <= L ->
  IPRE L (TK sp :: r)
  = bind (p_infix self lvl r) (fun x => let '(e, r1) := x in bind (mk_prefix k e) (fun u => Some (u, r1))).
Proof.
  intros E Hl. unfold infix_prefix. rewrite E.
  assert (E2 : Nat.leb lvl L = true) by now apply Nat.leb_le. now rewrite E2.
Qed.

(* the loop of level max_level after the tokens of an infix-level term *)
Lemma infix_loopform t rest :
  core t -> is_uniterm_only t = false ->
  length (PT t) <= S n -> arrow_follow rest -> length (PT t ++ rest) < lfuel ->
  exists f', length rest < f' /\ INFIX max_level (PT t ++ rest) = ILOOP f' max_level (uni_of t) rest.
Proof.
  intros Hc Hu Hn Hf Hl.
  assert (Hatomic : is_atom t = true -> exists f', length rest < f' /\
            INFIX max_level (PT t ++ rest) = ILOOP f' max_level (uni_of t) rest).
  { intros Ha. exists lfuel. split; [len|]. rewrite <- patom_of_atom in * by assumption.
    apply infix_atom_loopform; auto. exact (proj1 Hf). }
  assert (Happ : forall h args, core h -> (forall a, In a args -> core a) ->
            PT t = PATOM h ++ flat_map PATOM args ->
            exists f', length rest < f' /\
              INFIX max_level (PT t ++ rest) = ILOOP f' max_level (app_result h args) rest).
  { intros h args Hh Ha E. exists lfuel. split; [len|]. unfold infix. rewrite E in *.
    destruct (patom_head h Hh) as (tok & r & Eh & Hs). rewrite <- app_assoc in *.
    rewrite (ipre_atomstart max_level _ tok (r ++ flat_map PATOM args ++ rest));
      [ | rewrite Eh; reflexivity | exact Hs ].
    rewrite applicative_ok; [reflexivity | exact Hh | exact Ha | len | exact (proj1 Hf) | exact Hl ]. }
  (* a binary operator between two printed atoms *)
  assert (Hbin : forall a b sp lvl k u,
            core a -> core b -> PT t = PATOM a ++ [TK sp] ++ PATOM b ->
            assoc_string sp binops = Some (lvl, ALeft, k) -> 1 <= lvl -> lvl < max_level ->
            mk_binop k (uni_of a) (uni_of b) = Some u ->
            exists f', length rest < f' /\ INFIX max_level (PT t ++ rest) = ILOOP f' max_level u rest).
  { intros a b sp lvl k u Ha Hb E Hsp Hl1 Hl2 Hmk. rewrite E in *. rewrite <- !app_assoc in *. cbn [app] in *.
    destruct lfuel as [|f] eqn:Ef; [lia|]. exists f. split; [len|]. rewrite <- Ef in *.
    rewrite infix_atom_loopform; [ | exact Ha | len | eapply optok_weak; eauto | exact Hl ].
    rewrite Ef at 1. rewrite (iloop_binop f max_level _ sp lvl ALeft k); [ | exact Hsp | lia ].
    rewrite (sp_atom _ _ Hself (lvl - 1) b rest);
      [ | exact Hb | len | apply infix_follow_of_arrow; [lia | exact Hf] | len ].
    cbn [bind]. rewrite Hmk. reflexivity. }
  (* a prefix operator before a printed atom *)
  assert (Hpre : forall a sp lvl k u,
            core a -> PT t = TK sp :: PATOM a ->
            assoc_string sp prefixops = Some (lvl, k) -> lvl < max_level ->
            mk_prefix k (uni_of a) = Some u ->
            exists f', length rest < f' /\ INFIX max_level (PT t ++ rest) = ILOOP f' max_level u rest).
  { intros a sp lvl k u Ha E Hsp Hl2 Hmk. rewrite E in *. cbn [app] in *.
    exists lfuel. split; [len|]. unfold infix.
    rewrite (ipre_prefix max_level sp lvl k); [ | exact Hsp | lia ].
    rewrite (sp_atom _ _ Hself lvl a rest);
      [ | exact Ha | len | apply infix_follow_of_arrow; [lia | exact Hf] | len ].
    cbn [bind]. rewrite Hmk. reflexivity. }
  destruct Hc; cbn [is_uniterm_only] in Hu; try discriminate;
    try (apply Hatomic; reflexivity).
  - (* number *)
    apply Hatomic. cbn [is_atom]. unfold num_ok in H. unfold is_neg. destruct (Qnum n0); try discriminate; reflexivity.
  - (* enum variant *)
    apply (Happ (Enum s None) [a]); [constructor | intros ? [<-|[]]; assumption | ].
    cbn [pr_term flat_map]. rewrite app_nil_r. reflexivity.
  - (* application *)
    destruct (Happ h args Hc H0) as (f' & Hf' & E).
    + cbn [pr_term]. destruct h; try reflexivity. destruct o; try reflexivity.
      destruct args0 as [|x [|? ?]]; try reflexivity.
      now rewrite (core_not_lazy_partial _ _ Hc).
    + exists f'. split; [exact Hf'|]. rewrite E. unfold app_result.
      destruct args as [|a0 args]; [congruence|].
      destruct h; try reflexivity. destruct arg; [reflexivity|].
      destruct args; [|reflexivity]. exfalso. eapply H1; reflexivity.
  - (* lazy operator *)
    destruct (tab_lazy n0 H) as (sp & lvl & Esp & Hsp & Hl1 & Hl2).
    apply (Hbin a b sp lvl (BLazy n0)); auto.
    + cbn [pr_term]. unfold is_lazy_name in H. rewrite H. now subst sp.
    + cbn [mk_binop]. rewrite !as_term_uni_of by assumption. reflexivity.
  - (* strict binary operator *)
    destruct (tab_binop_name n0 H) as (sp & lvl & Esp & Hsp & Hl1 & Hl2).
    pose proof (pr_binop n0 a b H) as Epr. rewrite Esp in Epr.
    destruct (String.eqb n0 "(-)" && _) eqn:Eneg.
    + (* printed as a negation *)
      apply andb_prop in Eneg as [En Ez]. apply String.eqb_eq in En. subst n0.
      destruct a; try discriminate.
      assert (Eq0 : q0 = (0 # 1)%Q).
      { assert (Hnum : num_ok q0 = true) by (inversion Hc1; assumption).
        destruct q0 as [qn qd]. unfold num_ok, is_zero in *. cbn [Qnum Qden] in *.
        destruct qn; try discriminate. apply Pos.eqb_eq in Hnum. now subst. }
      subst q0. destruct tab_neg as (lvl' & Hneg & _ & Hl2').
      apply (Hpre b "-" lvl' PNeg); auto.
      cbn [mk_prefix]. rewrite as_term_uni_of by assumption. reflexivity.
    + apply (Hbin a b sp lvl (BOp n0)); auto.
      cbn [mk_binop]. rewrite !as_term_uni_of by assumption. reflexivity.
  - (* not *)
    destruct tab_not as (lvl & Hnot & _ & Hl2).
    apply (Hpre a "!" lvl (PUnary "bool/not")); auto;
      try (cbn [pr_term op_name]; streq; reflexivity).
    cbn [mk_prefix]. rewrite as_term_uni_of by assumption. reflexivity.
  - (* prefix primop *)
    exists lfuel. split; [len|]. rewrite (pr_primop _ _ _ H) in *. rewrite <- app_comm_cons in *.
    apply (primop_loopform max_level sp name args rest); auto. exact (proj1 Hf).
Qed.

Lemma infix_ok t rest :
  core t -> is_uniterm_only t = false ->
  length (PT t) <= S n -> strong_follow rest -> length (PT t ++ rest) < lfuel ->
  INFIX max_level (PT t ++ rest) = Some (uni_of t, rest).
Proof.
  intros Hc Hu Hn Hf Hl.
  destruct (infix_loopform t rest Hc Hu Hn (arrow_follow_of_strong _ Hf) Hl) as (f' & Hf' & ->).
  apply iloop_stop; [lia | exact Hf].
Qed.

(* ---- the UniTerm rule *)

Notation UNI := (uniterm binops prefixops max_level primops q lfuel self).

Definition first_not_kw (ts : list token) : Prop :=
  match ts with
  | TK s :: _ => mem_string s ["let"; "fun"; "if"; "import"; "forall"] = false
  | _ => True
  end.

Lemma uni_infix ts :
  first_not_kw ts ->
  UNI ts = bind (INFIX max_level ts)
             (fun x => let '(u, r1) := x in
                if starts_annot r1 then
                  bind (annots lfuel self true 0 r1)
                       (fun y => let '(m, r2) := y in bind (as_term u) (fun e => Some (UTerm (Annot (m_ann m) e), r2)))
                else Some (u, r1)).
Proof.
  intros H. unfold uniterm. destruct ts as [|[s| | | | | | | | | |] r]; try reflexivity.
  cbn [first_not_kw mem_string] in H.
  repeat (apply orb_false_elim in H as [? H]).
  repeat match goal with X : String.eqb s _ = false |- _ => rewrite X; clear X end.
  reflexivity.
Qed.

Lemma pt_first_not_kw t rest : core t -> is_uniterm_only t = false -> first_not_kw (PT t ++ rest).
Proof.
  intros Hc Hu. destruct (pt_head t Hc) as (tok & r & E & H). rewrite E. cbn [app first_not_kw].
  destruct tok as [s| | | | | | | | | |]; try exact I.
  destruct H as [H|[[[H|H] _]|[[_ H]|(sp & name & ar & H & Hp)]]].
  - cbn [mem_string]. 
    repeat match goal with
           | |- (String.eqb s ?k || _) = false =>
               let E := fresh in destruct (String.eqb s k) eqn:E;
               [apply String.eqb_eq in E; subst; discriminate | cbn [orb]]
           end. reflexivity.
  - inversion H. reflexivity.
  - inversion H. reflexivity.
  - congruence.
  - inversion H; subst. destruct (tab_primop _ _ _ Hp) as (_ & _ & _ & Hns & _).
    cbn [mem_string].
    repeat match goal with
           | |- (String.eqb sp ?k || _) = false =>
               let E := fresh in destruct (String.eqb sp k) eqn:E;
               [apply String.eqb_eq in E; subst; discriminate | cbn [orb]]
           end. reflexivity.
Qed.

Lemma uni_infix_ok t rest :
  core t -> is_uniterm_only t = false ->
  length (PT t) <= S n -> term_follow rest -> length (PT t ++ rest) < lfuel ->
  UNI (PT t ++ rest) = Some (uni_of t, rest).
Proof.
  intros Hc Hu Hn [Hs Ha] Hl. rewrite uni_infix by now apply pt_first_not_kw.
  rewrite infix_ok by assumption. cbn [bind]. now rewrite Ha.
Qed.

Lemma uni_if c a b rest :
  core c -> core a -> core b ->
  length (PT (If c a b)) <= S n -> term_follow rest -> length (PT (If c a b) ++ rest) < lfuel ->
  UNI (PT (If c a b) ++ rest) = Some (UTerm (If c a b), rest).
Proof.
  intros Hc Ha Hb Hn Hf Hl. cbn [pr_term] in *. rewrite <- !app_assoc in *. cbn [app] in *.
  unfold uniterm. streq. cbv iota.
  rewrite self_p_term; [ | exact Hc | len | now apply closer_term_follow | len ].
  psimp.
  rewrite self_p_term; [ | exact Ha | len | now apply closer_term_follow | len ].
  psimp.
  rewrite self_p_term; [ | exact Hb | len | exact Hf | len ].
  psimp. reflexivity.
Qed.

(* variable patterns of a function *)
Lemma fun_patterns_ok : forall xs acc rest f,
  1 <= n -> 1 <= lfuel -> length xs < f -> (acc <> [] \/ xs <> []) ->
  fun_patterns self f acc (map TId xs ++ TK "=>" :: rest)
  = Some (rev acc ++ map (fun x => Pat None (PAny x)) xs, TK "=>" :: rest).
Proof.
  induction xs as [|x xs IH]; intros acc rest f Hn Hl Hf Hne.
  - destruct f; [cbn in Hf; lia|]. cbn [map app fun_patterns]. psimp. rewrite app_nil_r.
    destruct acc; [destruct Hne; congruence|reflexivity].
  - destruct f; [cbn in Hf; lia|]. cbn [map app fun_patterns length] in *. psimp.
    rewrite (sp_pat _ _ Hself PFunArg x); [ | exact Hn | exact Hl | | discriminate ].
    + cbn [bind]. rewrite IH; [ | exact Hn | exact Hl | lia | left; discriminate ].
      cbn [rev]. now rewrite <- app_assoc.
    + intros r' E. destruct xs; discriminate.
Qed.

Lemma core_not_curried_dot args body : core body -> is_curried_dot args body = false.
Proof.
  intros Hc. destruct (is_curried_dot args body) eqn:E; [|reflexivity]. exfalso.
  unfold is_curried_dot in E.
  destruct args as [|[[|] [| x | | | | |]] [|[[|] [| y | | | | |]] [|? ?]]]; try discriminate.
  destruct body; try discriminate. destruct o; try discriminate.
  destruct args as [|[] [|[] [|? ?]]]; try discriminate.
  apply andb_prop in E as [E _]. apply andb_prop in E as [E _]. apply andb_prop in E as [E _].
  apply andb_prop in E as [E _]. apply String.eqb_eq in E. subst.
  inversion Hc; subst.
  - unfold binop_name in *.
    match goal with X : _ && negb (String.eqb "record/get" "record/get") = true |- _ =>
      apply andb_prop in X as [_ X]; discriminate end.
  - match goal with X : assoc_string _ primops = Some _ |- _ =>
      destruct (tab_primop _ _ _ X) as (_ & _ & _ & _ & _ & _ & _ & _ & _ & _ & _ & _ & Eg & _) end.
    discriminate.
Qed.

Lemma simple_pats_map args :
  (forall p, In p args -> simple_pat p) -> exists xs, args = map (fun x => Pat None (PAny x)) xs.
Proof.
  induction args as [|p args IH]; intros H; [exists []; reflexivity|].
  destruct (H p (or_introl eq_refl)) as [x ->].
  destruct IH as [xs ->]; [intros; apply H; now right|]. exists (x :: xs). reflexivity.
Qed.

Lemma pr_simple_pats xs :
  flat_map (pr_pat_parens q (pr_pat keywords op_spelling infix_ops postfix_ops q)
                          (pr_pdata keywords op_spelling infix_ops postfix_ops q))
           (map (fun x => Pat None (PAny x)) xs)
  = map TId xs.
Proof.
  induction xs as [|x xs IH]; [reflexivity|]. cbn [map flat_map]. rewrite IH.
  unfold pr_pat_parens. destruct (q_alias_in_parens q); reflexivity.
Qed.

Lemma uni_fun args body rest :
  args <> [] -> (forall p, In p args -> simple_pat p) -> core body ->
  length (PT (Fun args body)) <= S n -> term_follow rest -> length (PT (Fun args body) ++ rest) < lfuel ->
  UNI (PT (Fun args body) ++ rest) = Some (UTerm (Fun args body), rest).
Proof.
  intros Hne Hs Hb Hn Hf Hl. destruct (simple_pats_map args Hs) as [xs ->].
  assert (E : PT (Fun (map (fun x => Pat None (PAny x)) xs) body)
              = TK "fun" :: map TId xs ++ TK "=>" :: PT body).
  { cbn [pr_term]. rewrite core_not_curried_dot by assumption. rewrite andb_false_r.
    rewrite pr_simple_pats. reflexivity. }
  rewrite E in *. rewrite <- app_comm_cons, <- app_assoc in *. cbn [app] in *.
  unfold uniterm. streq. cbv iota.
  rewrite (fun_patterns_ok xs [] (PT body ++ rest) lfuel); [ | len | len | | right; destruct xs; [exfalso; apply Hne; reflexivity|discriminate] ].
  - psimp. rewrite self_p_term; [ | exact Hb | len | exact Hf | len ].
    psimp. reflexivity.
  - assert (length (map TId xs) = length xs) by apply map_length. len.
Qed.

(* ---- let *)

Notation PB := (pr_binding q PT PTY (pr_pat keywords op_spelling infix_ops postfix_ops q)).

Definition simple_binding_n (b : binding) : Prop :=
  exists x v, b = Bind (Pat None (PAny x)) None empty_annot v /\ core v /\ length (PT v) <= n.

Lemma pr_binding_simple x v :
  PB (Bind (Pat None (PAny x)) None empty_annot v) = TId x :: TK "=" :: PT v.
Proof. reflexivity. Qed.

Lemma let_binding_simple x v r :
  1 <= n -> core v -> length (PT v) <= n -> term_follow r ->
  length (TId x :: TK "=" :: PT v ++ r) < lfuel ->
  let_binding lfuel self (TId x :: TK "=" :: PT v ++ r)
  = Some (Bind (Pat None (PAny x)) None empty_annot v, r).
Proof.
  intros Hn1 Hc Hn Hf Hl. unfold let_binding.
  rewrite (sp_pat _ _ Hself PGeneral x); [ | exact Hn1 | len | discriminate | eauto ].
  cbn [bind]. unfold annots. rewrite annot_series_none; [ | len | reflexivity ].
  psimp. rewrite self_p_term; [ | exact Hc | exact Hn | exact Hf | len ].
  psimp. reflexivity.
Qed.

Lemma let_bindings_ok : forall bs acc rest f,
  (forall b, In b bs -> simple_binding_n b) -> bs <> [] -> 1 <= n ->
  length bs < f ->
  length (sep_by [TK ","] PB bs ++ TK "in" :: rest) < lfuel ->
  let_bindings lfuel self f acc (sep_by [TK ","] PB bs ++ TK "in" :: rest)
  = Some (rev acc ++ bs, TK "in" :: rest).
Proof.
  induction bs as [|b bs IH]; intros acc rest f Hbs Hne Hn1 Hf Hl; [congruence|].
  destruct f; [cbn in Hf; lia|]. cbn [length] in Hf.
  destruct (Hbs b (or_introl eq_refl)) as (x & v & -> & Hcv & Hnv).
  destruct bs as [|b2 bs].
  - cbn [sep_by] in *. rewrite pr_binding_simple in *. cbn [app] in *. cbn [let_bindings].
    rewrite let_binding_simple; [ | exact Hn1 | exact Hcv | exact Hnv | now apply closer_term_follow | exact Hl ].
    psimp. cbn [rev]. reflexivity.
  - rewrite sep_by_cons2 in *. rewrite pr_binding_simple in *. rewrite <- !app_assoc in *. cbn [app] in *.
    cbn [let_bindings].
    rewrite let_binding_simple; [ | exact Hn1 | exact Hcv | exact Hnv | now apply closer_term_follow | exact Hl ].
    psimp.
    assert (Hnext : peek_is "in" (sep_by [TK ","] PB (b2 :: bs) ++ TK "in" :: rest) = false).
    { destruct (Hbs b2 (or_intror (or_introl eq_refl))) as (x2 & v2 & -> & _).
      destruct bs; [cbn [sep_by] | rewrite sep_by_cons2]; rewrite pr_binding_simple; reflexivity. }
    rewrite Hnext. cbv iota.
    etransitivity.
    { apply (IH (Bind (Pat None (PAny x)) None empty_annot v :: acc) rest f).
      - intros b' Hb'. apply Hbs. now right.
      - discriminate.
      - exact Hn1.
      - cbn [length] in *. lia.
      - len. }
    cbn [rev]. now rewrite <- app_assoc.
Qed.

Lemma uni_let rec bs body rest :
  bs <> [] -> (forall b, In b bs -> simple_binding b /\ core (b_val b)) -> core body ->
  length (PT (Let rec bs body)) <= S n -> term_follow rest ->
  length (PT (Let rec bs body) ++ rest) < lfuel ->
  UNI (PT (Let rec bs body) ++ rest) = Some (UTerm (Let rec bs body), rest).
Proof.
  intros Hne Hbs Hb Hn Hf Hl.
  assert (E : PT (Let rec bs body)
              = TK "let" :: (if rec then [TK "rec"] else []) ++ sep_by [TK ","] PB bs ++ TK "in" :: PT body)
    by reflexivity.
  rewrite E in *. clear E. rewrite <- app_comm_cons in *. rewrite <- !app_assoc in *. cbn [app] in *.
  assert (Hbs' : forall b, In b bs -> simple_binding_n b).
  { intros b Hin. destruct (Hbs b Hin) as [((x & Hp) & Hd & Ha) Hv].
    destruct b as [bp bd ba bv]. cbn in *. subst. exists x, bv. repeat split; auto.
    pose proof (sep_by_in_len PB [TK ","] bs _ Hin) as Hlen. rewrite pr_binding_simple in Hlen.
    destruct rec; len. }
  assert (Hlen : length bs <= length (sep_by [TK ","] PB bs)).
  { clear -Hbs'. induction bs as [|a l IH]; [cbn; lia|].
    destruct (Hbs' a (or_introl eq_refl)) as (x & v & -> & _).
    assert (IH' : length l <= length (sep_by [TK ","] PB l)) by (apply IH; intros; apply Hbs'; now right).
    destruct l; [cbn [sep_by]; rewrite pr_binding_simple; len | rewrite sep_by_cons2; len]. }
  unfold uniterm. streq. cbv iota.
  assert (Hfirst : peek_is "rec" (sep_by [TK ","] PB bs ++ TK "in" :: PT body ++ rest) = false).
  { destruct bs as [|b bs]; [congruence|]. destruct (Hbs' b (or_introl eq_refl)) as (x & v & -> & _).
    destruct bs; [cbn [sep_by] | rewrite sep_by_cons2]; rewrite pr_binding_simple; reflexivity. }
  destruct rec; cbn [app peek_is is_tk tl]; streq; cbv iota; [|rewrite Hfirst];
    (rewrite (let_bindings_ok bs [] (PT body ++ rest) lfuel);
      [ | exact Hbs' | exact Hne | len | len | len ]);
    psimp; (rewrite self_p_term; [ | exact Hb | len | exact Hf | len ]); psimp; reflexivity.
Qed.

(* ---- annotations *)

Definition annot_toks (a : annot) : list token :=
  (match a_typ a with Some ty => TK ":" :: PTPART ty | None => [] end)
    ++ flat_map (fun ty => TK "|" :: PTPART ty) (a_ctrs a).

Lemma pr_annot_eq a : pr_annot q PTY a = annot_toks a.
Proof. unfold pr_annot, annot_toks. destruct (a_typ a); reflexivity. Qed.

Lemma self_fixed_type ty more :
  core_ty ty -> length (PTPART ty) <= n -> strong_follow more -> length (PTPART ty ++ more) < lfuel ->
  p_fixed_type self (PTPART ty ++ more) = Some (ty, more).
Proof.
  intros Hc Hn Hf Hl. unfold p_fixed_type. rewrite (sp_type _ _ Hself) by assumption.
  cbn [bind]. now rewrite fix_raw.
Qed.

Lemma annot_atom_pipe0 r :
  annot_atom self true 0 (TK "|" :: r)
  = bind (p_fixed_type self r)
         (fun x => let '(ty, r1) := x in Some (FMeta None (Ann None [ty]) false false PNeutral, r1)).
Proof. destruct r as [|[] ?]; reflexivity. Qed.

Lemma pipe_strong r : strong_follow (TK "|" :: r).
Proof.
  split; [split; [reflexivity | discriminate]|].
  destruct (tab_not_op "|" (or_intror eq_refl)) as [-> _]. exact I.
Qed.

Definition ctr_meta (ty : typ) : fmeta := FMeta None (Ann None [ty]) false false PNeutral.

Lemma ctrs_series : forall cs acc rest f,
  (forall ty, In ty cs -> core_ty ty /\ length (PTPART ty) <= n) ->
  starts_annot rest = false -> strong_follow rest -> length cs < f ->
  length (flat_map (fun ty => TK "|" :: PTPART ty) cs ++ rest) < lfuel ->
  annot_series self f true 0 acc (flat_map (fun ty => TK "|" :: PTPART ty) cs ++ rest)
  = Some (fold_left (fun m ty => combine_fmeta m (ctr_meta ty)) cs acc, rest).
Proof.
  induction cs as [|c cs IH]; intros acc rest f Hcs Hsa Hsf Hf Hl.
  - cbn [flat_map app fold_left]. apply annot_series_none; [cbn in Hf; lia | exact Hsa].
  - destruct f; [cbn in Hf; lia|]. cbn [length] in Hf. cbn [flat_map fold_left] in *.
    rewrite <- app_assoc in *. cbn [app] in *.
    destruct (Hcs c (or_introl eq_refl)) as [Hc Hn].
    cbn [annot_series starts_annot peek_is is_tk]. streq. cbn [orb]. cbv iota.
    rewrite annot_atom_pipe0.
    rewrite self_fixed_type; [ | exact Hc | exact Hn | | len ].
    + cbn [bind]. apply IH; auto; [intros; apply Hcs; now right | lia | len].
    + destruct cs as [|c2 cs]; [exact Hsf | apply pipe_strong].
Qed.

Lemma ctrs_fold_ann cs acc :
  m_ann (fold_left (fun m ty => combine_fmeta m (ctr_meta ty)) cs acc)
  = Ann (a_typ (m_ann acc)) (a_ctrs (m_ann acc) ++ cs).
Proof.
  revert acc. induction cs as [|c cs IH]; intros acc.
  - cbn. rewrite app_nil_r. now destruct (m_ann acc).
  - cbn [fold_left]. rewrite IH. unfold combine_fmeta, ctr_meta. cbn [m_ann].
    unfold combine_annot. cbn [a_typ a_ctrs]. destruct (m_ann acc) as [t0 cs0]. cbn [a_typ a_ctrs].
    destruct t0; cbn [a_typ a_ctrs]; now rewrite <- app_assoc.
Qed.

Lemma annots_ok a rest :
  empty_annot_b a = false ->
  (forall ty, a_typ a = Some ty -> core_ty ty) -> (forall ty, In ty (a_ctrs a) -> core_ty ty) ->
  length (annot_toks a) <= n ->
  term_follow rest -> length (annot_toks a ++ rest) < lfuel ->
  exists m, annots lfuel self true 0 (annot_toks a ++ rest) = Some (m, rest) /\ m_ann m = a.
Proof.
  intros Hne Ht Hcs Hn [Hsf Hsa] Hl. unfold annots. destruct a as [t0 cs]. unfold annot_toks in *.
  cbn [a_typ a_ctrs] in *.
  assert (Hcs' : forall ty, In ty cs -> core_ty ty /\ length (PTPART ty) <= n).
  { intros ty Hin. split; [now apply Hcs|].
    assert (length (PTPART ty) <= length (flat_map (fun ty0 => TK "|" :: PTPART ty0) cs)).
    { clear -Hin. induction cs as [|c cs IH]; [destruct Hin|]. cbn [flat_map].
      destruct Hin as [->|Hin]; [len | specialize (IH Hin); len]. }
    len. }
  assert (Hlen : length cs <= length (flat_map (fun ty0 => TK "|" :: PTPART ty0) cs)).
  { clear. induction cs as [|c cs IH]; [cbn; lia|]. cbn [flat_map]. len. }
  destruct t0 as [ty|].
  - (* a type annotation first *)
    cbn [app] in *. rewrite <- ?app_assoc in *.
    assert (Hstep : forall k more, 1 <= k ->
              strong_follow more -> length (PTPART ty ++ more) < lfuel ->
              annot_series self k true 0 empty_fmeta (TK ":" :: PTPART ty ++ more)
              = annot_series self (k - 1) true 0
                  (combine_fmeta empty_fmeta (FMeta None (Ann (Some ty) []) false false PNeutral)) more).
    { intros k more Hk Hfm Hlm. destruct k; [lia|]. cbn [annot_series starts_annot peek_is is_tk].
      streq. cbn [orb]. cbv iota. cbn [annot_atom]. streq. cbv iota.
      rewrite self_fixed_type; [ | now apply Ht | len | exact Hfm | exact Hlm ].
      cbn [bind]. replace (S k - 1) with k by lia. reflexivity. }
    rewrite Hstep; [ | len | | len ].
    + rewrite ctrs_series; [ | exact Hcs' | exact Hsa | exact Hsf | len | len ].
      eexists. split; [reflexivity|]. rewrite ctrs_fold_ann. reflexivity.
    + destruct cs; [exact Hsf | apply pipe_strong].
  - cbn [app] in *. destruct cs as [|c cs]; [discriminate|].
    rewrite ctrs_series; [ | exact Hcs' | exact Hsa | exact Hsf | len | len ].
    eexists. split; [reflexivity|]. rewrite ctrs_fold_ann. reflexivity.
Qed.

Lemma uni_annot a inner rest :
  empty_annot_b a = false -> core inner ->
  (forall ty, a_typ a = Some ty -> core_ty ty) -> (forall ty, In ty (a_ctrs a) -> core_ty ty) ->
  length (PT (Annot a inner)) <= S n -> term_follow rest ->
  length (PT (Annot a inner) ++ rest) < lfuel ->
  UNI (PT (Annot a inner) ++ rest) = Some (UTerm (Annot a inner), rest).
Proof.
  intros Hne Hi Ht Hcs Hn Hf Hl.
  assert (E : PT (Annot a inner) = PATOM inner ++ annot_toks a).
  { rewrite <- pr_annot_eq. reflexivity. }
  rewrite E in *. rewrite <- app_assoc in *.
  assert (Hstart : exists r0, annot_toks a ++ rest = TK ":" :: r0 \/ annot_toks a ++ rest = TK "|" :: r0).
  { unfold annot_toks. destruct a as [[ty|] cs]; cbn [a_typ a_ctrs]; [eexists; left; reflexivity|].
    destruct cs; [discriminate|]. cbn. eexists; right; reflexivity. }
  destruct (patom_head inner Hi) as (tok & r & Ei & Hs).
  rewrite uni_infix.
  2:{ rewrite Ei. cbn [app first_not_kw]. destruct tok; try exact I. cbn [mem_string].
      repeat match goal with
             | |- (String.eqb s ?k || _) = false =>
                 let E' := fresh in destruct (String.eqb s k) eqn:E';
                 [apply String.eqb_eq in E'; subst; discriminate | cbn [orb]]
             end. reflexivity. }
  assert (Hfollow : infix_follow max_level (annot_toks a ++ rest) /\ starts_annot (annot_toks a ++ rest) = true).
  { destruct Hstart as [r0 [-> | ->]]; (split; [split; [split; [reflexivity|discriminate]|] | reflexivity]).
    - destruct (tab_not_op ":" (or_intror eq_refl)) as [-> _]. exact I.
    - destruct (tab_not_op "|" (or_intror eq_refl)) as [-> _]. exact I. }
  destruct Hfollow as [Hif Hsa].
  rewrite infix_atom_ok; [ | exact Hi | len | exact Hif | exact Hl ].
  cbn [bind]. rewrite Hsa.
  destruct (annots_ok a rest Hne Ht Hcs) as (m & -> & Hm); [ | exact Hf | | ].
  - rewrite Ei in Hn. len.
  - rewrite Ei in Hl. len.
  - cbn [bind]. rewrite as_term_uni_of by assumption. cbn [bind]. now rewrite Hm.
Qed.

(* ---- imports *)

Lemma follow_not_as rest : term_follow rest -> is_as rest = false.
Proof.
  intros [[Hw _] _]. destruct rest as [|t r]; [reflexivity|]. destruct Hw as [Hs _].
  destruct t; try reflexivity. discriminate.
Qed.

Lemma quoted_static p X :
  standard_static_string (TStr :: lit_toks p ++ TEnd :: X) = Some (p, X).
Proof. unfold lit_toks. destruct p; reflexivity. Qed.

Lemma uni_import p fmt rest :
  term_follow rest ->
  UNI (PT (ImportPath p fmt) ++ rest) = Some (UTerm (ImportPath p fmt), rest).
Proof.
  intros Hf. cbn [pr_term]. unfold quoted. rewrite <- !app_assoc. cbn [app].
  unfold uniterm. streq. cbv iota.
  rewrite quoted_static. cbn [bind].
  destruct (format_from_path p) as [f|] eqn:Ef.
  - destruct (String.eqb f fmt) eqn:Ee.
    + apply String.eqb_eq in Ee. subst f. cbn [app]. now rewrite (follow_not_as rest Hf).
    + reflexivity.
  - reflexivity.
Qed.

Lemma uni_import_pkg id rest :
  UNI (PT (ImportPkg id) ++ rest) = Some (UTerm (ImportPkg id), rest).
Proof. reflexivity. Qed.

Lemma uni_ok t rest :
  core t -> length (PT t) <= S n -> term_follow rest -> length (PT t ++ rest) < lfuel ->
  UNI (PT t ++ rest) = Some (uni_of t, rest).
Proof.
  intros Hc Hn Hf Hl. destruct (is_uniterm_only t) eqn:Hu; [|now apply uni_infix_ok].
  destruct Hc; cbn [is_uniterm_only] in Hu; try discriminate.
  - now apply uni_if.
  - now apply uni_fun.
  - now apply uni_let.
  - now apply uni_annot.
  - now apply uni_import.
  - apply uni_import_pkg.
Qed.

(* ---- types *)

Notation TYR := (type_rule binops prefixops max_level primops q lfuel self).

Lemma needs_parens_eq t :
  needs_parens_in_type_pos q (TContract t) = is_uniterm_only t.
Proof. destruct t; cbn; try reflexivity. now rewrite Hq_annot. Qed.

Lemma ptpart_contract t :
  PTPART (TContract t) = if is_uniterm_only t then PATOM t else PT t.
Proof.
  unfold pr_type_part. rewrite needs_parens_eq.
  destruct (is_uniterm_only t) eqn:E; cbn [parens_if]; [|reflexivity].
  unfold pr_atom. destruct t; try discriminate; reflexivity.
Qed.

Lemma arrow_tok_follow r : arrow_follow (TK "->" :: r).
Proof.
  destruct tab_arrow as (_ & Ha & _).
  split; [eapply optok_weak; eauto|]. now rewrite Ha.
Qed.

Definition is_arrow_ty (ty : typ) : bool := match ty with TArrow _ _ => true | _ => false end.

Lemma builtin_loopform s ty rest :
  type_builtin s = Some ty -> weak_follow rest -> 1 <= lfuel ->
  INFIX max_level (TK s :: rest) = ILOOP lfuel max_level (UType ty) rest.
Proof.
  intros Hb Hw Hl. unfold infix.
  assert (Hs : starts_atom (TK s) = true).
  { cbn [starts_atom]. rewrite Hb. now rewrite !orb_true_r. }
  rewrite (ipre_atomstart max_level _ (TK s) rest eq_refl Hs).
  unfold applicative, applicative_head.
  destruct (String.eqb s "Array") eqn:E1; [apply String.eqb_eq in E1; subst; discriminate|].
  destruct (String.eqb s "match") eqn:E2; [apply String.eqb_eq in E2; subst; discriminate|].
  destruct (String.eqb s "%enum/embed%") eqn:E3; [apply String.eqb_eq in E3; subst; discriminate|].
  rewrite (tab_not_primop s (or_introl Hs)).
  unfold atom, atom_base.
  assert (Hne : forall k, type_builtin k = None -> String.eqb s k = false).
  { intros k Hk. destruct (String.eqb s k) eqn:E; [|reflexivity]. apply String.eqb_eq in E. subst. congruence. }
  rewrite !Hne by reflexivity. rewrite Hb. cbn [bind].
  rewrite access_stop; [ | exact Hl | now apply weak_peek_dot ].
  cbn [bind].
  destruct lfuel as [|f] eqn:Ef; [lia|]. cbn [atoms_star].
  destruct rest as [|t0 r0]; [reflexivity|]. destruct Hw as [Hw _]. rewrite Hw. reflexivity.
Qed.

Lemma not_curried_app X Y : not_curried X -> not_curried (X ++ Y).
Proof.
  intros (tok & r & -> & H). exists tok, (r ++ Y). split; [reflexivity|].
  destruct H as [H|(tok2 & r2 & -> & Hs)]; [now left|]. right. exists tok2, (r2 ++ Y). auto.
Qed.

Lemma not_curried_atomstart tok r : starts_atom tok = true -> not_curried (tok :: r).
Proof. intros H. exists tok, r. split; [reflexivity|]. left. now apply curried_none_atomstart. Qed.

Lemma pty_not_curried ty : core_ty ty -> not_curried (PTY ty).
Proof.
  intros Hc. induction Hc.
  - now apply not_curried_atomstart.
  - now apply not_curried_atomstart.
  - now apply not_curried_atomstart.
  - now apply not_curried_atomstart.
  - now apply pt_not_curried.
  - (* arrow *)
    change (PTY (TArrow a b))
      with (parens_if (is_arrow_or_forall a) (PTPART a) ++ [TK "->"] ++ parens_if (is_forall b) (PTPART b)).
    apply not_curried_app. destruct (is_arrow_or_forall a); cbn [parens_if].
    + unfold parens. now apply not_curried_atomstart.
    + unfold pr_type_part. destruct (needs_parens_in_type_pos q a); cbn [parens_if]; [|exact IHHc1].
      unfold parens. now apply not_curried_atomstart.
  - (* array *)
    assert (E : exists r, PTY (TArrayT t) = TK "Array" :: r).
    { unfold pr_typ. cbn [pr_typ_gen]. destruct (is_atom_ty t); eexists; reflexivity. }
    destruct E as [r ->]. exists (TK "Array"), r. split; [reflexivity|]. left.
    now apply curried_none_struct.
Qed.

Lemma is_atom_ty_core ty :
  core_ty ty -> is_atom_ty ty = true ->
  (exists s, type_builtin s = Some ty /\ PTY ty = [TK s]) \/ (exists a, ty = TContract a /\ is_atom a = true).
Proof.
  intros Hc Ha. destruct Hc; cbn [is_atom_ty] in Ha; try discriminate.
  - left. exists "Dyn". split; reflexivity.
  - left. exists "Number". split; reflexivity.
  - left. exists "Bool". split; reflexivity.
  - left. exists "String". split; reflexivity.
  - right. eauto.
Qed.

Lemma raw_builtin s ty : type_builtin s = Some ty -> raw_ty ty = ty.
Proof.
  unfold type_builtin. repeat (destruct (String.eqb s _); [intros [= <-]; reflexivity|]). discriminate.
Qed.

Lemma builtin_uni s ty : type_builtin s = Some ty -> uni_of_ty ty = UType ty.
Proof.
  unfold type_builtin. repeat (destruct (String.eqb s _); [intros [= <-]; reflexivity|]). discriminate.
Qed.

Lemma array_loopform t rest :
  core_ty t -> length (PTY (TArrayT t)) <= S n -> weak_follow rest ->
  length (PTY (TArrayT t) ++ rest) < lfuel ->
  INFIX max_level (PTY (TArrayT t) ++ rest) = ILOOP lfuel max_level (UType (TArrayT (raw_ty t))) rest.
Proof.
  intros Hc Hn Hw Hl.
  assert (E : PTY (TArrayT t) = TK "Array" :: (if is_atom_ty t then PTY t else parens (PTY t))).
  { unfold pr_typ. cbn [pr_typ_gen]. destruct (is_atom_ty t); reflexivity. }
  rewrite E in *. clear E. rewrite <- app_comm_cons in *.
  (* the argument is an atom *)
  assert (Harg : ATOM ((if is_atom_ty t then PTY t else parens (PTY t)) ++ rest)
                 = Some (uni_of_ty t, rest)).
  { destruct (is_atom_ty t) eqn:Hat.
    - destruct (is_atom_ty_core t Hc Hat) as [(s & Hb & Es)|(a & -> & Ha)].
      + rewrite Es in *. cbn [app]. unfold atom, atom_base.
        assert (Hne : forall k, type_builtin k = None -> String.eqb s k = false).
        { intros k Hk. destruct (String.eqb s k) eqn:E; [|reflexivity]. apply String.eqb_eq in E. subst. congruence. }
        rewrite !Hne by reflexivity. rewrite Hb. cbn [bind].
        rewrite access_stop; [ | len | now apply weak_peek_dot ].
        now rewrite (builtin_uni _ _ Hb).
      + inversion Hc; subst. change (PTY (TContract a)) with (PT a) in *.
        rewrite <- (patom_of_atom a Ha) in *.
        rewrite atom_ok; [reflexivity | assumption | len | len | now apply weak_peek_dot ].
    - unfold parens in *. rewrite <- !app_assoc in *. cbn [app] in *. unfold atom.
      rewrite (paren_atom (PTY t) rest (uni_of_ty t)).
      + cbn [bind]. apply access_stop; [len | now apply weak_peek_dot].
      + now apply pty_not_curried.
      + apply (sp_utype _ _ Hself); [exact Hc | len | now apply closer_term_follow | len]. }
  unfold infix, infix_prefix.
  destruct (tab_not_op "Array" (or_intror eq_refl)) as [_ ->].
  unfold applicative, applicative_head. streq. cbv iota.
  rewrite Harg. cbn [bind]. rewrite as_type_uni_of_ty by assumption. cbn [bind].
  destruct lfuel as [|f] eqn:Ef; [lia|]. cbn [atoms_star].
  destruct rest as [|t0 r0]; [reflexivity|]. destruct Hw as [Hw _]. rewrite Hw. reflexivity.
Qed.

Lemma ptpart_noncontract ty :
  (forall t, ty <> TContract t) -> PTPART ty = PTY ty.
Proof. intros H. unfold pr_type_part. destruct ty; try reflexivity. exfalso. eapply H; reflexivity. Qed.

(* types that are not arrows: up to the continuation of the loop *)
Lemma type_loopform ty rest :
  core_ty ty -> is_arrow_ty ty = false ->
  length (PTPART ty) <= S n -> arrow_follow rest -> length (PTPART ty ++ rest) < lfuel ->
  exists f', length rest < f' /\ INFIX max_level (PTPART ty ++ rest) = ILOOP f' max_level (uni_of_ty ty) rest.
Proof.
  intros Hc Hna Hn Hf Hl.
  assert (Hb : forall s, type_builtin s = Some ty -> PTPART ty = [TK s] ->
            exists f', length rest < f' /\
              INFIX max_level (PTPART ty ++ rest) = ILOOP f' max_level (uni_of_ty ty) rest).
  { intros s Hs E. rewrite E in *. cbn [app] in *. exists lfuel. split; [len|].
    rewrite (builtin_uni _ _ Hs). apply builtin_loopform; [exact Hs | exact (proj1 Hf) | len]. }
  destruct Hc; cbn [is_arrow_ty] in Hna; try discriminate.
  - apply (Hb "Dyn"); reflexivity.
  - apply (Hb "Number"); reflexivity.
  - apply (Hb "Bool"); reflexivity.
  - apply (Hb "String"); reflexivity.
  - (* a term *)
    rewrite ptpart_contract in *. cbn [uni_of_ty]. destruct (is_uniterm_only t) eqn:Hu.
    + exists lfuel. split; [len|]. apply infix_atom_loopform; auto. exact (proj1 Hf).
    + now apply infix_loopform.
  - (* array *)
    rewrite ptpart_noncontract in * by discriminate.
    exists lfuel. split; [len|]. cbn [uni_of_ty raw_ty]. apply array_loopform; auto. exact (proj1 Hf).
Qed.

Lemma type_infix_ok ty : core_ty ty -> forall rest,
  length (PTPART ty) <= S n -> strong_follow rest -> length (PTPART ty ++ rest) < lfuel ->
  INFIX max_level (PTPART ty ++ rest) = Some (uni_of_ty ty, rest).
Proof.
  intros Hc rest Hn Hf Hl.
  destruct (is_arrow_ty ty) eqn:Ha.
  2:{ destruct (type_loopform ty rest Hc Ha Hn (arrow_follow_of_strong _ Hf) Hl) as (f' & Hf' & ->).
      apply iloop_stop; [lia | exact Hf]. }
  destruct Hc as [ | | | | |d c Hd Hcod| ]; try discriminate.
  rewrite ptpart_noncontract in * by discriminate.
  assert (E : PTY (TArrow d c)
              = parens_if (is_arrow_or_forall d) (PTPART d) ++ TK "->" :: parens_if (is_forall c) (PTPART c))
    by reflexivity.
  rewrite E in *. clear E.
  assert (Hfc : is_forall c = false) by (destruct Hcod; reflexivity).
  rewrite Hfc in *. cbn [parens_if] in *. rewrite <- app_assoc in *. cbn [app] in *.
  destruct tab_arrow as (_ & Harrow & _).
  (* the domain, up to the arrow *)
  assert (Hdom : exists f', length (TK "->" :: PTPART c ++ rest) < f' /\
            INFIX max_level (parens_if (is_arrow_or_forall d) (PTPART d) ++ TK "->" :: PTPART c ++ rest)
            = ILOOP f' max_level (uni_of_ty d) (TK "->" :: PTPART c ++ rest)).
  { destruct (is_arrow_or_forall d) eqn:Hd'; cbn [parens_if] in *.
    - (* parenthesised arrow *)
      assert (Hda : forall t, d <> TContract t) by (intros t ->; discriminate).
      rewrite (ptpart_noncontract d Hda) in *.
      exists lfuel. split; [len|]. unfold infix, parens in *. rewrite <- !app_assoc in *. cbn [app] in *.
      rewrite (ipre_atomstart max_level _ (TK "(") _ eq_refl eq_refl).
      unfold applicative, applicative_head. streq. cbv iota.
      rewrite (tab_not_primop "(" (or_introl eq_refl)). unfold atom.
      rewrite (paren_atom (PTY d) _ (uni_of_ty d));
        [ | now apply pty_not_curried
          | apply (sp_utype _ _ Hself); [exact Hd | len | now apply closer_term_follow | len] ].
      cbn [bind]. rewrite access_stop; [ | len | reflexivity ].
      cbn [bind]. destruct lfuel as [|f] eqn:Ef; [lia|]. cbn [atoms_star starts_atom]. streq. cbn [orb].
      reflexivity.
    - apply type_loopform; auto; [destruct d; try reflexivity; discriminate | len | apply arrow_tok_follow]. }
  destruct Hdom as (f' & Hf' & ->).
  destruct f' as [|f']; [cbn in Hf'; lia|].
  rewrite (iloop_binop f' max_level _ "->" max_level ARight BArrow); [ | exact Harrow | lia ].
  rewrite (sp_tyinfix _ _ Hself c rest); [ | exact Hcod | len | exact Hf | len ].
  cbn [bind mk_binop]. rewrite !as_type_uni_of_ty by assumption. cbn [bind].
  cbn [uni_of_ty raw_ty]. apply iloop_stop; [cbn [length] in Hf'; len | exact Hf].
Qed.

(* ---- first token of a printed type *)

Lemma atomstart_first tok r :
  starts_atom tok = true -> peek_is "forall" (tok :: r) = false /\ first_not_kw (tok :: r).
Proof.
  intros Hs. split.
  - cbn [peek_is]. unfold is_tk. destruct tok; try reflexivity.
    destruct (String.eqb "forall" s) eqn:E; [|reflexivity]. apply String.eqb_eq in E. subst. discriminate.
  - cbn [first_not_kw]. destruct tok; try exact I. cbn [mem_string].
    repeat match goal with
           | |- (String.eqb s ?k || _) = false =>
               let E' := fresh in destruct (String.eqb s k) eqn:E';
               [apply String.eqb_eq in E'; subst; discriminate | cbn [orb]]
           end. reflexivity.
Qed.

Lemma ptpart_first ty :
  core_ty ty -> forall r, peek_is "forall" (PTPART ty ++ r) = false /\ first_not_kw (PTPART ty ++ r).
Proof.
  intros Hc. induction Hc; intros r.
  - now apply atomstart_first.
  - now apply atomstart_first.
  - now apply atomstart_first.
  - now apply atomstart_first.
  - rewrite ptpart_contract. destruct (is_uniterm_only t) eqn:Hu.
    + destruct (patom_head t H) as (tok & r0 & -> & Hs). cbn [app]. now apply atomstart_first.
    + split; [apply pt_peek_false; auto; discriminate | now apply pt_first_not_kw].
  - (* arrow *)
    rewrite ptpart_noncontract by discriminate.
    change (PTY (TArrow a b))
      with (parens_if (is_arrow_or_forall a) (PTPART a) ++ [TK "->"] ++ parens_if (is_forall b) (PTPART b)).
    rewrite <- app_assoc.
    destruct (is_arrow_or_forall a) eqn:Ea; cbn [parens_if].
    + unfold parens. cbn [app]. now apply atomstart_first.
    + apply IHHc1.
  - rewrite ptpart_noncontract by discriminate.
    assert (E : exists r0, PTY (TArrayT t) = TK "Array" :: r0).
    { unfold pr_typ. cbn [pr_typ_gen]. destruct (is_atom_ty t); eexists; reflexivity. }
    destruct E as [r0 ->]. split; reflexivity.
Qed.

(* ---- one more level *)

Lemma spec_step : spec (step binops prefixops max_level primops q lfuel self) (S n).
Proof.
  constructor.
  - intros t rest Hc Hn Hf Hl. now apply uni_ok.
  - intros L t rest Hc Hn Hf Hl. now apply infix_atom_ok.
  - intros ty rest Hc Hn Hf Hl. cbn [p_type step]. unfold type_rule.
    rewrite (proj1 (ptpart_first ty Hc rest)).
    rewrite type_infix_ok by assumption. cbn [bind]. now rewrite as_type_uni_of_ty.
  - intros ty rest Hc Hn Hf Hl. now apply type_infix_ok.
  - intros ty rest Hc Hn Hf Hl. cbn [p_uniterm step].
    destruct Hc as [ | | | |t Ht Hok| | ] eqn:Ecase;
      try (rewrite <- ptpart_noncontract in * by discriminate;
           rewrite uni_infix by (apply ptpart_first; rewrite <- ?Ecase; constructor; assumption);
           rewrite type_infix_ok; [ cbn [bind]; now rewrite (proj2 Hf) | constructor; assumption | exact Hn | exact (proj1 Hf) | exact Hl ]).
    now apply uni_ok.
  - intros fl x r Hn Hl Hat Hgen. cbn [p_pat step]. unfold pattern, pattern_one, pattern_data.
    destruct fl.
    + destruct (Hgen eq_refl) as (s & r' & ->).
      destruct (String.eqb s "@") eqn:E; [apply String.eqb_eq in E; subst; exfalso; eapply Hat; reflexivity|].
      cbn [bind]. destruct lfuel as [|f]; [lia|]. reflexivity.
    + destruct r as [|[s| | | | | | | | | |] r']; try reflexivity.
      destruct (String.eqb s "@") eqn:E; [apply String.eqb_eq in E; subst; exfalso; eapply Hat; reflexivity|].
      reflexivity.
    + destruct r as [|[s| | | | | | | | | |] r']; reflexivity.
Qed.

End Step.


(* ------------------------------------------------------------------ all levels *)

Lemma pt_nonempty t : core t -> 1 <= length (PT t).
Proof. intros Hc. destruct (pt_head t Hc) as (tok & r & -> & _). cbn. lia. Qed.

Lemma patom_nonempty t : core t -> 1 <= length (PATOM t).
Proof. intros Hc. destruct (patom_head t Hc) as (tok & r & -> & _). cbn. lia. Qed.

Lemma spec_base lfuel : spec lfuel fail_parsers 0.
Proof.
  constructor.
  - intros t rest Hc Hn. pose proof (pt_nonempty t Hc). lia.
  - intros L t rest Hc Hn. pose proof (patom_nonempty t Hc). lia.
  - intros ty rest Hc Hn. exfalso.
    assert (1 <= length (PTPART ty)).
    { unfold pr_type_part. destruct (needs_parens_in_type_pos q ty); cbn [parens_if]; [unfold parens; len|].
      destruct Hc; try (cbn; lia).
      - now apply pt_nonempty.
      - change (PTY (TArrow a b)) with (parens_if (is_arrow_or_forall a) (PTPART a) ++ [TK "->"] ++ parens_if (is_forall b) (PTPART b)). len.
      - unfold pr_typ. cbn [pr_typ_gen]. destruct (is_atom_ty t); len. }
    lia.
  - intros ty rest Hc Hn. exfalso.
    assert (1 <= length (PTPART ty)).
    { unfold pr_type_part. destruct (needs_parens_in_type_pos q ty); cbn [parens_if]; [unfold parens; len|].
      destruct Hc; try (cbn; lia).
      - now apply pt_nonempty.
      - change (PTY (TArrow a b)) with (parens_if (is_arrow_or_forall a) (PTPART a) ++ [TK "->"] ++ parens_if (is_forall b) (PTPART b)). len.
      - unfold pr_typ. cbn [pr_typ_gen]. destruct (is_atom_ty t); len. }
    lia.
  - intros ty rest Hc Hn. exfalso.
    assert (1 <= length (PTY ty)).
    { destruct Hc; try (cbn; lia).
      - now apply pt_nonempty.
      - change (PTY (TArrow a b)) with (parens_if (is_arrow_or_forall a) (PTPART a) ++ [TK "->"] ++ parens_if (is_forall b) (PTPART b)). len.
      - unfold pr_typ. cbn [pr_typ_gen]. destruct (is_atom_ty t); len. }
    lia.
  - intros fl x r Hn. lia.
Qed.

Lemma spec_all lfuel k : spec lfuel (parsers_n binops prefixops max_level primops q lfuel k) k.
Proof.
  induction k as [|k IH]; [apply spec_base|]. cbn [parsers_n]. now apply spec_step.
Qed.

(* parsing the printed tokens of a term of the fragment gives the term back *)
Theorem parse_print_core t :
  core t ->
  parse binops prefixops max_level primops q (print keywords op_spelling infix_ops postfix_ops q t) = Some t.
Proof.
  intros Hc. unfold parse, parse_fuel, print.
  set (F := S (length (PT t))).
  pose proof (spec_all F F) as Hs.
  unfold p_term.
  pose proof (sp_term _ _ _ Hs t [] Hc) as H. rewrite app_nil_r in H.
  rewrite H; [ | unfold F; lia | apply term_follow_nil | unfold F; lia ].
  cbn [bind]. now rewrite as_term_uni_of.
Qed.

(* printing is a fixpoint after one round *)
Theorem print_fixpoint_core t t' :
  core t ->
  parse binops prefixops max_level primops q (print keywords op_spelling infix_ops postfix_ops q t) = Some t' ->
  print keywords op_spelling infix_ops postfix_ops q t' = print keywords op_spelling infix_ops postfix_ops q t.
Proof. intros Hc H. rewrite parse_print_core in H by assumption. now inversion H. Qed.

End RT.
