(* C14 — model of the AST pretty-printer parser/src/ast/pretty.rs, at the level of tokens.

   [pr_term : term -> list token] mirrors [impl Pretty for &Node] and friends: the same case
   analysis, the same parenthesisation decisions ([is_atom], [Allocator::atom], [parens_if],
   [needs_parens_in_type_pos], [pat_with_parens], the arrow/forall rules of [impl Pretty for
   &Type]), the same choice between quoted and bare identifiers, the same choice of string style
   and of the number of percent signs of a multiline string ([min_interpolate_sign]), the same
   rendering of numbers ([Number::to_sci] with default options: 16 significant digits).
   Layout (line breaks, indentation) is not modelled: it does not change the token stream, which
   the harness checks by rendering at widths 0, 80 and 200.

   What the printer does wrong is modelled as it is (see Props/C14.v for the refuted statements).
   A Rust panic (unreachable!/panic! in pretty.rs) is the token [TPanic].

   The operator spellings come from the generated table (Gen/OpTable.v): the section variables
   below are instantiated there.  Definitions only. *)
From Coq Require Import String Ascii List ZArith QArith Bool Arith.
From NV Require Import Surface.Ast Surface.Indent.
Import ListNotations.
Close Scope Q_scope.
Open Scope nat_scope.
Open Scope string_scope.
Open Scope list_scope.

(* ------------------------------------------------------------------ characters / identifiers *)

Definition is_alpha (c : ascii) : bool :=
  let n := nat_of_ascii c in
  (Nat.leb 65 n && Nat.leb n 90) || (Nat.leb 97 n && Nat.leb n 122).
Definition is_digit (c : ascii) : bool :=
  let n := nat_of_ascii c in Nat.leb 48 n && Nat.leb n 57.
Definition is_underscore (c : ascii) : bool := Nat.eqb (nat_of_ascii c) 95.
Definition is_dash (c : ascii) : bool := Nat.eqb (nat_of_ascii c) 45.

Fixpoint all_ident_rest (s : string) : bool :=
  match s with
  | EmptyString => true
  | String c s' => (is_alpha c || is_digit c || is_underscore c || is_dash c) && all_ident_rest s'
  end.

(* QUOTING_REGEX = ^_*[a-zA-Z][_a-zA-Z0-9-]*$ *)
Fixpoint matches_quoting_regex (s : string) : bool :=
  match s with
  | EmptyString => false
  | String c s' =>
      if is_underscore c then matches_quoting_regex s'
      else is_alpha c && all_ident_rest s'
  end.

Fixpoint mem_string (x : string) (l : list string) : bool :=
  match l with
  | [] => false
  | y :: l' => String.eqb x y || mem_string x l'
  end.

Fixpoint assoc_string {A} (x : string) (l : list (string * A)) : option A :=
  match l with
  | [] => None
  | (y, a) :: l' => if String.eqb x y then Some a else assoc_string x l'
  end.

Definition newline : ascii := ascii_of_nat 10.
Definition carriage_return : ascii := ascii_of_nat 13.
Definition percent : ascii := ascii_of_nat 37.
Definition dquote : ascii := ascii_of_nat 34.
Definition lbrace : ascii := ascii_of_nat 123.

Fixpoint string_contains_char (c : ascii) (s : string) : bool :=
  match s with
  | EmptyString => false
  | String d s' => Ascii.eqb c d || string_contains_char c s'
  end.

(* ------------------------------------------------------------------ min_interpolate_sign *)

(* The regex of min_interpolate_sign in pretty.rs is  (%+\{)|(dquote %+)  and the function returns
   the length of the longest match found by [Regex::find_iter] (leftmost-first, non-overlapping
   scan), 1 if there is none.  The scan as an automaton over the characters: *)
Inductive dstate :=
| DStart                (* not inside a candidate *)
| DQuote (k : nat)      (* a double quote followed by k percent signs *)
| DPercent (k : nat).   (* k >= 1 percent signs, not preceded by a double quote *)

(* close the candidate that is pending in state [st]: a quote followed by k >= 1 percent signs
   is a match of length k + 1 *)
Definition dflush (st : dstate) (best : nat) : nat :=
  match st with
  | DQuote (S k) => Nat.max (S (S k)) best
  | _ => best
  end.

Definition dstart (c : ascii) : dstate :=
  if Ascii.eqb c percent then DPercent 1
  else if Ascii.eqb c dquote then DQuote 0
  else DStart.

Fixpoint delim_scan (s : string) (st : dstate) (best : nat) : nat :=
  match s with
  | EmptyString => dflush st best
  | String c s' =>
      match st with
      | DStart => delim_scan s' (dstart c) best
      | DQuote k =>
          if Ascii.eqb c percent then delim_scan s' (DQuote (S k)) best
          else delim_scan s' (dstart c) (dflush st best)
      | DPercent k =>
          if Ascii.eqb c percent then delim_scan s' (DPercent (S k)) best
          else if Ascii.eqb c lbrace then delim_scan s' DStart (Nat.max (S k) best)
          else delim_scan s' (dstart c) best
      end
  end.

Definition min_interpolate_sign (s : string) : nat :=
  match delim_scan s DStart 0 with
  | O => 1
  | n => n
  end.

(* ------------------------------------------------------------------ numbers *)

(* [Number::to_sci()] with default options: the value printed is the number rounded to 16
   significant decimal digits, ties to even.  Returns the value that re-lexing the output
   yields.  Positive rationals only (callers split the sign off). *)

Definition pow10 (n : nat) : positive := Pos.pow 10 (Pos.of_nat n).
Definition pow10N (n : nat) : N := match n with O => 1%N | _ => Npos (pow10 n) end.

(* floor (log10 (a/b)) for a, b > 0, by search within [-fuel, fuel] *)
Fixpoint log10_up (fuel : nat) (a b : N) (e : nat) : nat :=
  (* largest e' >= e (within fuel) with b * 10^e' <= a *)
  match fuel with
  | O => e
  | S f => if (b * pow10N (S e) <=? a)%N then log10_up f a b (S e) else e
  end.
Fixpoint log10_down (fuel : nat) (a b : N) (e : nat) : nat :=
  (* smallest e' >= e (within fuel) with b <= a * 10^e' *)
  match fuel with
  | O => e
  | S f => if (b <=? a * pow10N e)%N then e else log10_down f a b (S e)
  end.

Definition digits_bound (a b : N) : nat := N.to_nat (N.size a) + N.to_nat (N.size b) + 2.

(* round-half-even of a/b (b > 0) *)
Definition div_round_even (a b : N) : N :=
  let q := (a / b)%N in
  let r := (a mod b)%N in
  match (2 * r ?= b)%N with
  | Lt => q
  | Gt => (q + 1)%N
  | Eq => if N.even q then q else (q + 1)%N
  end.

Definition sig_digits : nat := 16.

(* a/b > 0 rounded to [sig_digits] significant digits, as a reduced fraction *)
Definition round_sig_pos (a : positive) (b : positive) : Q :=
  let a' := Npos a in
  let b' := Npos b in
  if (b' <=? a')%N then
    (* value >= 1: log = e >= 0 *)
    let e := log10_up (digits_bound a' b') a' b' 0 in
    (* scale = 15 - e *)
    if Nat.leb e (sig_digits - 1) then
      let s := (sig_digits - 1 - e)%nat in
      let n := div_round_even (a' * pow10N s) b' in
      Qred (Z.of_N n # pow10 s * 1)
    else
      let s := (e - (sig_digits - 1))%nat in
      let n := div_round_even a' (b' * pow10N s) in
      Qred (Z.of_N (n * pow10N s) # 1)
  else
    (* value < 1: log = -k with k >= 1 the smallest with b <= a * 10^k *)
    let k := log10_down (digits_bound a' b') a' b' 1 in
    let s := (sig_digits - 1 + k)%nat in
    let n := div_round_even (a' * pow10N s) b' in
    Qred (Z.of_N n # pow10 s).

Definition Qabs_pos (q : Q) : option (positive * positive) :=
  match Qnum q with
  | Zpos a => Some (a, Qden q)
  | Zneg a => Some (a, Qden q)
  | Z0 => None
  end.

Definition is_neg (q : Q) : bool := match Qnum q with Zneg _ => true | _ => false end.
Definition is_zero (q : Q) : bool := match Qnum q with Z0 => true | _ => false end.

(* ------------------------------------------------------------------ the printer *)

Section Printer.

(* from Gen/OpTable.v *)
Variable keywords : list string.                   (* lexer::KEYWORDS *)
Variable op_spelling : list (string * string).     (* impl Pretty for &PrimOp: display name -> text *)
Variable infix_ops : list string.                  (* PrimOp::positioning() = Infix *)
Variable postfix_ops : list string.                (* PrimOp::positioning() = Postfix, named ones *)
Variable q : quirks.                               (* which variant of the printer *)

(* tokens of a printed number: a leading minus sign is lexed as a separate token *)
Definition num_toks (n : Q) : list token :=
  match Qabs_pos n with
  | None => [TNum (0 # 1)]
  | Some (a, b) =>
      (if is_neg n then [TK "-"] else [])
        ++ [TNum (if q_num_round q then round_sig_pos a b else (Zpos a # b))]
  end.

Definition lit_toks (s : string) : list token :=
  match s with EmptyString => [] | _ => [TLit s] end.

Definition quoted (s : string) : list token := [TStr] ++ lit_toks s ++ [TEnd].

(* ident_quoted *)
Definition ident_toks (s : string) : list token :=
  if matches_quoting_regex s && negb (mem_string s keywords) then [TId s] else quoted s.

(* a quote character followed by enum_tag_quoted *)
Definition tag_toks (s : string) : list token :=
  if matches_quoting_regex s then [TTag s] else [TQTag] ++ lit_toks s ++ [TEnd].

Definition parens (ts : list token) : list token := [TK "("] ++ ts ++ [TK ")"].
Definition parens_if (b : bool) (ts : list token) : list token := if b then parens ts else ts.

Definition sep_by {A} (sep : list token) (f : A -> list token) : list A -> list token :=
  fix go (l : list A) : list token :=
    match l with
    | [] => []
    | [x] => f x
    | x :: l' => f x ++ sep ++ go l'
    end.

(* InputFormat::from_path on the (unescaped) path text: std::path::Path::extension
   of the path. The file name is the last component once empty and [.] components
   are dropped (none when it is [..]); the extension is what follows the last dot
   of the file name, and there is none when that dot is the first character. *)
Fixpoint components_aux (s : string) (cur : string) : list string :=
  match s with
  | EmptyString => [cur]
  | String c s' =>
      if Ascii.eqb c "/"%char then cur :: components_aux s' EmptyString
      else components_aux s' (cur ++ String c EmptyString)%string
  end.
Definition file_name (p : string) : option string :=
  match rev (filter (fun c => negb (String.eqb c "" || String.eqb c "."))
                    (components_aux p EmptyString)) with
  | [] => None
  | c :: _ => if String.eqb c ".." then None else Some c
  end.
Fixpoint ext_aux (s : string) (first : bool) (cur : option string) : option string :=
  match s with
  | EmptyString => cur
  | String c s' =>
      if Ascii.eqb c "."%char
      then ext_aux s' false (if first then cur else Some s')
      else ext_aux s' false cur
  end.
Definition after_last_dot_aux (p : string) (cur : option string) : option string :=
  match file_name p with
  | Some n => ext_aux n true cur
  | None => None
  end.
Definition format_from_path (p : string) : option string :=
  match after_last_dot_aux p None with
  | Some "ncl" => Some "Nickel"
  | Some "json" => Some "Json"
  | Some "yaml" => Some "Yaml"
  | Some "yml" => Some "Yaml"
  | Some "toml" => Some "Toml"
  | Some "txt" => Some "Text"
  | _ => None
  end.

Definition op_name (o : op) : string :=
  match o with
  | OStatAccess _ => "record/access"
  | OEnumEmbed _ => "enum/embed"
  | ONamed n => n
  end.

(* impl Pretty for &PrimOp *)
Definition op_toks (o : op) : list token :=
  match o with
  | OStatAccess _ => [TPanic]
  | OEnumEmbed id => [TK "%enum/embed%"; TId id]
  | ONamed n =>
      if String.eqb n "(&&)" || String.eqb n "(||)" then [TPanic]
      else match assoc_string n op_spelling with
           | Some sp => [TK sp]
           | None => [TK ("%" ++ n ++ "%")%string]
           end
  end.

Fixpoint is_atom (t : term) : bool :=
  match t with
  | Null | Bool _ | Str _ | Chunks _ | Enum _ None | Record _ _ _ | Array _ | Var _ => true
  | Op (OStatAccess _) _ => true
  | Op (ONamed n) _ => String.eqb n "record/get" || String.eqb n "(&&)" || String.eqb n "(||)"
  | Op (OEnumEmbed _) _ => false
  | Num q => negb (is_neg q)
  | TypeT ty => is_atom_ty ty
  | Let _ _ _ | If _ _ _ | Enum _ (Some _) | Match _ | Fun _ _ | App _ _ | Annot _ _
  | ImportPath _ _ | ImportPkg _ => false
  end
with is_atom_ty (ty : typ) : bool :=
  match ty with
  | TDyn | TNumber | TBool | TString | TVar _ | TRecord _ _ | TEnum _ _ => true
  | TContract t => is_atom t
  | _ => false
  end.

Definition needs_parens_in_type_pos (ty : typ) : bool :=
  match ty with
  | TContract (Fun _ _) | TContract (Let _ _ _) | TContract (If _ _ _)
  | TContract (ImportPath _ _) | TContract (ImportPkg _) => true
  | TContract (Annot _ _) => negb (q_annot_noparens q)
  | _ => false
  end.

Definition chunk_has_char (c : ascii) (ch : chunk) : bool :=
  match ch with CLit s => string_contains_char c s | CExpr _ _ => false end.

Definition chunks_percent_count (cs : list chunk) : nat :=
  fold_right Nat.max 0
    (map (fun ch => match ch with CLit s => min_interpolate_sign s | CExpr _ _ => 1 end) cs).

Definition chunks_multiline (force_monoline : bool) (cs : list chunk) : bool :=
  negb force_monoline && existsb (chunk_has_char newline) cs
  && negb (existsb (chunk_has_char carriage_return) cs)
  && (q_multiline_unchecked q || multiline_roundtrips cs).

Definition nb_percent (cs : list chunk) : nat :=
  match chunks_percent_count cs with O => 1 | n => n end.

(* generic pieces, parameterised by the recursive printers *)
Section Pieces.
Variable pr_term : term -> list token.
Variable pr_typ : typ -> list token.
Variable pr_pat : pat -> list token.
Variable pr_pdata : pdata -> list token.

Definition pr_atom (t : term) : list token := parens_if (negb (is_atom t)) (pr_term t).
Definition pr_type_part (ty : typ) : list token :=
  parens_if (needs_parens_in_type_pos ty) (pr_typ ty).

Definition pr_chunks (force_monoline : bool) (cs : list chunk) : list token :=
  if chunks_multiline force_monoline cs then
    [TMStr (nb_percent cs)]
      ++ flat_map (fun ch => match ch with
                            | CLit s => lit_toks s
                            | CExpr e i => [TInterp i] ++ pr_term e ++ [TK "}"]
                            end) cs
      ++ [TEnd]
  else
    [TStr]
      ++ flat_map (fun ch => match ch with
                            | CLit s => lit_toks s
                            | CExpr e _ => [TInterp 0] ++ pr_term e ++ [TK "}"]
                            end) cs
      ++ [TEnd].

Definition pr_annot (a : annot) : list token :=
  (match a_typ a with Some ty => [TK ":"] ++ pr_type_part ty | None => [] end)
    ++ flat_map (fun ty => [TK "|"] ++ pr_type_part ty) (a_ctrs a).

Definition pr_prio (p : prio) : list token :=
  match p with
  | PBottom => [TK "|"; TK "default"]
  | PNeutral => []
  | PNumeral q => [TK "|"; TK "priority"] ++ num_toks q
  | PTop => [TK "|"; TK "force"]
  end.

(* Allocator::field_metadata.  [not_exported] is not printed (as in the Rust code). *)
Definition pr_fmeta (with_doc : bool) (m : fmeta) : list token :=
  pr_annot (m_ann m)
    ++ (if with_doc then
          match m_doc m with
          | Some d => [TK "|"; TK "doc"] ++ pr_chunks false [CLit d]
          | None => []
          end
        else [])
    ++ (if m_opt m then [TK "|"; TK "optional"] else [])
    ++ (if m_ne m && negb (q_drop_not_exported q) then [TK "|"; TK "not_exported"] else [])
    ++ pr_prio (m_prio m).

Definition fmeta_is_empty (m : fmeta) : bool :=
  match m_doc m, a_typ (m_ann m), a_ctrs (m_ann m), m_opt m, m_ne m, m_prio m with
  | None, None, [], false, false, PNeutral => true
  | _, _, _, _, _, _ => false
  end.

Definition pr_pelem (e : pelem) : list token :=
  match e with
  | PId s => ident_toks s
  | PExpr cs => pr_chunks true cs
  end.

Definition pr_fdef (fd : fdef) : list token :=
  sep_by [TK "."] pr_pelem (f_path fd)
    ++ pr_fmeta true (f_meta fd)
    ++ match f_val fd with Some v => [TK "="] ++ pr_term v | None => [] end.

Definition pr_incl (i : incl) : list token :=
  [TId "include"; TId (i_id i)] ++ pr_fmeta true (i_meta i).

(* Allocator::record *)
Definition pr_record (incs : list incl) (fields : list fdef) (open : bool) : list token :=
  let no_decls := match fields, incs with
                  | [], [] => true
                  | [], _ :: _ => q_include_only q
                  | _ :: _, _ => false
                  end in
  if no_decls then (if open then [TK "{"; TK ".."; TK "}"] else [TK "{"; TK "}"])
  else
    [TK "{"]
      ++ sep_by [TK ","] pr_incl incs
      ++ (match incs, fields with
          | [], _ => []
          | _ :: _, [] => if q_include_only q then [TK ","] else []
          | _ :: _, _ :: _ => [TK ","]
          end)
      ++ sep_by [TK ","] pr_fdef fields
      ++ (if open then [TK ","; TK ".."] else [])
      ++ [TK "}"].

Definition pr_binding (b : binding) : list token :=
  pr_pat (b_pat b)
    ++ pr_fmeta true (FMeta (b_doc b) (b_ann b) false false PNeutral)
    ++ [TK "="] ++ pr_term (b_val b).

Definition pr_branch (b : branch) : list token :=
  pr_pat (br_pat b)
    ++ (match br_guard b with Some g => [TK "if"] ++ pr_term g | None => [] end)
    ++ [TK "=>"] ++ pr_term (br_body b).

Definition pat_needs_parens (p : pat) : bool :=
  match p with
  | Pat _ (PEnum _ (Some _)) | Pat _ (POr _) => true
  | _ => false
  end.
Definition alias_toks (alias : option string) : list token :=
  match alias with Some a => [TId a; TK "@"] | None => [] end.
Definition pr_pat_parens (p : pat) : list token :=
  if q_alias_in_parens q then parens_if (pat_needs_parens p) (pr_pat p)
  else match p with
       | Pat alias d => alias_toks alias ++ parens_if (pat_needs_parens p) (pr_pdata d)
       end.

Definition pr_ptail (t : ptail) : list token :=
  match t with
  | TClosed => []
  | TOpen => [TK ".."]
  | TCapture x => [TK ".."; TId x]
  end.

Definition pr_fpat (f : fpat) : list token :=
  [TId (fp_id f)]
    ++ pr_fmeta false (FMeta None (fp_ann f) false false PNeutral)
    ++ (match fp_default f with Some d => [TK "?"] ++ pr_atom d | None => [] end)
    ++ (match fp_pat f with
        | Pat alias (PAny x) =>
            if String.eqb x (fp_id f)
               && (q_drop_alias q || match alias with None => true | Some _ => false end)
            then [] else [TK "="] ++ pr_pat (fp_pat f)
        | _ => [TK "="] ++ pr_pat (fp_pat f)
        end)
    ++ [TK ","].

Definition pr_pconst (c : pconst) : list token :=
  match c with
  | CBool true => [TK "true"]
  | CBool false => [TK "false"]
  | CNum q => num_toks q
  | CStr s => quoted s
  | CNull => [TK "null"]
  end.

Definition pr_erow (r : string * option typ) : list token :=
  tag_toks (fst r)
    ++ match snd r with
       | Some ty => parens_if (negb (is_atom_ty ty)) (pr_typ ty)
       | None => []
       end.

Definition pr_rrow (r : string * typ) : list token :=
  ident_toks (fst r) ++ [TK ":"] ++ pr_type_part (snd r).

End Pieces.

(* the chain of foralls printed as one [forall a b c. body] *)
Fixpoint forall_chain (ty : typ) : list string * typ :=
  match ty with
  | TForall x body => let (xs, b) := forall_chain body in (x :: xs, b)
  | _ => ([], ty)
  end.

Definition is_arrow_or_forall (ty : typ) : bool :=
  match ty with TArrow _ _ | TForall _ _ => true | _ => false end.
Definition is_forall (ty : typ) : bool :=
  match ty with TForall _ _ => true | _ => false end.

(* the eta-expansion of the curried record access operator *)
Definition is_curried_dot (args : list pat) (body : term) : bool :=
  match args, body with
  | [Pat None (PAny x); Pat None (PAny y)], Op (ONamed n) [Var f; Var r] =>
      String.eqb n "record/get" && String.eqb x "x" && String.eqb y "y"
      && String.eqb f "y" && String.eqb r "x"
  | _, _ => false
  end.

Fixpoint pr_term (t : term) : list token :=
  match t with
  | Null => [TK "null"]
  | Bool true => [TK "true"]
  | Bool false => [TK "false"]
  | Num q => num_toks q
  | Str s => quoted s
  | Chunks cs => pr_chunks pr_term false cs
  | If c a b => [TK "if"] ++ pr_term c ++ [TK "then"] ++ pr_term a ++ [TK "else"] ++ pr_term b
  | Fun args body =>
      if negb (q_dynaccess q) && is_curried_dot args body then [TK "("; TK "."; TK ")"]
      else [TK "fun"] ++ flat_map (pr_pat_parens pr_pat pr_pdata) args ++ [TK "=>"] ++ pr_term body
  | Let rec bs body =>
      [TK "let"] ++ (if rec then [TK "rec"] else [])
        ++ sep_by [TK ","] (pr_binding pr_term (pr_typ_gen false) pr_pat) bs
        ++ [TK "in"] ++ pr_term body
  | App head args =>
      match head with
      | Op (ONamed n) [fst] =>
          if String.eqb n "(&&)" || String.eqb n "(||)" then
            match args with
            | [snd] =>
                pr_atom pr_term fst
                  ++ [TK (if String.eqb n "(&&)" then "&&" else "||")]
                  ++ pr_atom pr_term snd
            | _ => [TPanic]
            end
          else pr_atom pr_term head ++ flat_map (pr_atom pr_term) args
      | _ => pr_atom pr_term head ++ flat_map (pr_atom pr_term) args
      end
  | Var x => [TId x]
  | Enum tag None => tag_toks tag
  | Enum tag (Some a) => tag_toks tag ++ pr_atom pr_term a
  | Record incs fields open => pr_record pr_term (pr_typ_gen false) incs fields open
  | Match bs =>
      [TK "match"; TK "{"]
        ++ flat_map (fun b => pr_branch pr_term pr_pat b ++ [TK ","]) bs
        ++ [TK "}"]
  | Array es => [TK "["] ++ sep_by [TK ","] pr_term es ++ [TK "]"]
  | Op (OStatAccess id) [a] => pr_atom pr_term a ++ [TK "."] ++ ident_toks id
  | Op o args =>
      let n := op_name o in
      match args with
      | [a] =>
          if String.eqb n "bool/not" then [TK "!"] ++ pr_atom pr_term a
          else if String.eqb n "(&&)" then [TK "("; TK "&&"; TK ")"] ++ pr_atom pr_term a
          else if String.eqb n "(||)" then [TK "("; TK "||"; TK ")"] ++ pr_atom pr_term a
          else if mem_string n postfix_ops then flat_map (pr_atom pr_term) args ++ op_toks o
          else op_toks o ++ flat_map (pr_atom pr_term) args
      | [a; b] =>
          if String.eqb n "record/get" then
            if q_dynaccess q then pr_term b ++ [TK "."] ++ pr_term a
            else match a with
                 | Chunks _ => pr_atom pr_term b ++ [TK "."] ++ pr_term a
                 | _ => pr_atom pr_term b ++ [TK "."; TStr; TInterp 0] ++ pr_term a ++ [TK "}"; TEnd]
                 end
          else if String.eqb n "(-)" && (match a with Num q => is_zero q | _ => false end)
          then [TK "-"] ++ pr_atom pr_term b
          else if mem_string n postfix_ops then flat_map (pr_atom pr_term) args ++ op_toks o
          else if mem_string n infix_ops then pr_atom pr_term a ++ op_toks o ++ pr_atom pr_term b
          else op_toks o ++ flat_map (pr_atom pr_term) args
      | _ =>
          if mem_string n postfix_ops then flat_map (pr_atom pr_term) args ++ op_toks o
          else op_toks o ++ flat_map (pr_atom pr_term) args
      end
  | Annot a inner => pr_atom pr_term inner ++ pr_annot (pr_typ_gen false) a
  | ImportPath p fmt =>
      [TK "import"] ++ quoted p
        ++ (match format_from_path p with
            | Some f => if String.eqb f fmt then [] else [TId "as"; TTag fmt]
            | None => [TId "as"; TTag fmt]
            end)
  | ImportPkg id => [TK "import"; TId id]
  | TypeT ty => pr_typ_gen false ty
  end
with pr_typ_gen (skip : bool) (ty : typ) : list token :=
  (* [skip = true]: we are below the head of a chain of foralls that has already been printed as
     [forall a b c .]; skip the remaining binders and print the innermost body *)
  match ty with
  | TDyn => [TK "Dyn"]
  | TNumber => [TK "Number"]
  | TBool => [TK "Bool"]
  | TString => [TK "String"]
  | TSymbol => [TId "Symbol"]
  | TForeignId => [TId "ForeignId"]
  | TArrayT t =>
      if is_atom_ty t then [TK "Array"] ++ pr_typ_gen false t
      else [TK "Array"] ++ parens (pr_typ_gen false t)
  | TContract t => pr_term t
  | TVar x => [TId x]
  | TForall x body =>
      if skip then pr_typ_gen true body
      else
        let (xs, b) := forall_chain body in
        [TK "forall"] ++ map TId (x :: xs) ++ [TK "."]
          ++ parens_if (needs_parens_in_type_pos b) (pr_typ_gen true body)
  | TEnum rows tail =>
      [TK "[|"] ++ sep_by [TK ","] (pr_erow (pr_typ_gen false)) rows
        ++ (match tail with Some x => [TK ";"; TId x] | None => [] end)
        ++ [TK "|]"]
  | TRecord rows tail =>
      [TK "{"] ++ sep_by [TK ","] (pr_rrow (pr_typ_gen false)) rows
        ++ (match tail with
            | RClosed => []
            | RTailDyn => [TK ";"; TK "Dyn"]
            | RTailVar x => [TK ";"; TId x]
            end)
        ++ [TK "}"]
  | TDict flavour t =>
      [TK "{"; TK "_"; TK (if flavour then "|" else ":")]
        ++ pr_type_part (pr_typ_gen false) t ++ [TK "}"]
  | TArrow d c =>
      parens_if (is_arrow_or_forall d) (pr_type_part (pr_typ_gen false) d)
        ++ [TK "->"]
        ++ parens_if (is_forall c) (pr_type_part (pr_typ_gen false) c)
  | TWildcard _ => [TK "_"]
  end
with pr_pat (p : pat) : list token :=
  match p with
  | Pat alias d =>
      alias_toks alias ++ pr_pdata d
  end
with pr_pdata (d : pdata) : list token :=
  match d with
  | PWild => [TK "_"]
  | PAny x => [TId x]
  | PRecord fs tail =>
      [TK "{"] ++ flat_map (pr_fpat pr_term (pr_typ_gen false) pr_pat) fs ++ pr_ptail tail ++ [TK "}"]
  | PArray ps tail =>
      [TK "["] ++ sep_by [TK ","] pr_pat ps
        ++ (match ps, tail with
            | _ :: _, TOpen | _ :: _, TCapture _ => [TK ","]
            | _, _ => []
            end)
        ++ pr_ptail tail ++ [TK "]"]
  | PEnum tag None => tag_toks tag
  | PEnum tag (Some a) => tag_toks tag ++ pr_pat_parens pr_pat pr_pdata a
  | PConst c => pr_pconst c
  | POr ps => sep_by [TId "or"] (pr_pat_parens pr_pat pr_pdata) ps
  end.

Definition pr_typ (ty : typ) : list token := pr_typ_gen false ty.

Definition print (t : term) : list token := pr_term t.

End Printer.
