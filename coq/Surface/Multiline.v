(* C14 — the delimiter of a printed multiline string is safe.

   [lex] models the multiline-string mode of parser/src/lexer.rs (the logos automaton of
   [MultiStringToken] with longest match: runs of ordinary characters, a double quote followed by
   percent signs (candidate end), percent signs followed by an opening brace (candidate
   interpolation), both together; and [handle_multistr_token], which compares the length of a
   candidate with the delimiter's and splits an over-long candidate interpolation) as an automaton
   over characters.  Interpolated expressions are holes.  The output is a stream of events in
   which consecutive literal tokens are already fused (one event per literal character).

   [multiline_delim_safe]: for the number of percent signs the printer chooses
   ([nb_percent], the maximum of [min_interpolate_sign] over the literal chunks), the lexer reads
   the printed string back as exactly its chunks: every literal character as a literal, every
   interpolation as an interpolation, the closing delimiter as the end.
   (Layout: the printer also inserts indentation after each line break; these are ordinary
   characters next to an ordinary character and are dealt with by strip_indent, see Indent.v.) *)
From Coq Require Import String Ascii List Bool Arith Lia.
From NV Require Import Surface.Ast Surface.Indent Surface.Print.
Import ListNotations.
Open Scope nat_scope.

Inductive mitem := MC (c : ascii) | MHole.
Inductive mev := ELit (c : ascii) | EInterp | EEnd | EErr.

Definition lits (s : list ascii) : list mev := map ELit s.
Definition pct (k : nat) : list ascii := repeat percent k.

Fixpoint chars (s : string) : list ascii :=
  match s with EmptyString => [] | String c s' => c :: chars s' end.

(* the characters of the candidate pending in a state *)
Definition pending (st : dstate) : list ascii :=
  match st with
  | DStart => []
  | DQuote k => dquote :: pct k
  | DPercent k => pct k
  end.

(* the candidate pending in [st] is complete (the next character does not extend it) *)
Definition lflush (pc : nat) (st : dstate) : list mev :=
  match st with
  | DQuote (S k) =>          (* candidate end of length k + 2 *)
      match Nat.compare (S (S k)) pc with
      | Gt => [EErr]
      | Eq => [EEnd]
      | Lt => lits (pending st)
      end
  | _ => lits (pending st)
  end.

Definition stops (evs : list mev) : bool :=
  existsb (fun e => match e with EEnd | EErr => true | _ => false end) evs.

Fixpoint lex (pc : nat) (input : list mitem) (st : dstate) : list mev :=
  match input with
  | [] => lflush pc st
  | MHole :: r => match st with DStart => lex pc r DStart | _ => [EErr] end
  | MC c :: r =>
      let restart :=
        match dstart c with
        | DStart => ELit c :: lex pc r DStart
        | st' => lex pc r st'
        end in
      match st with
      | DStart => restart
      | DQuote k =>
          if Ascii.eqb c percent then lex pc r (DQuote (S k))
          else if Ascii.eqb c lbrace && negb (Nat.eqb k 0) then
            (* quote, k percent signs, brace: length k + 2 *)
            if Nat.ltb pc (k + 2) then
              ELit dquote :: lits (pct (k + 2 - pc - 1)) ++ EInterp :: lex pc r DStart
            else lits (pending st) ++ ELit lbrace :: lex pc r DStart
          else
            let out := lflush pc st in
            if stops out then out else out ++ restart
      | DPercent k =>
          if Ascii.eqb c percent then lex pc r (DPercent (S k))
          else if Ascii.eqb c lbrace then
            (* k percent signs, brace: length k + 1 *)
            if Nat.leb pc (k + 1) then lits (pct (k + 1 - pc)) ++ EInterp :: lex pc r DStart
            else lits (pending st) ++ ELit lbrace :: lex pc r DStart
          else lits (pending st) ++ restart
      end
  end.

(* ---- what the printer writes *)

Definition chunk_items {Tm} (n : nat) (c : chunk_ Tm) : list mitem :=
  match c with
  | CLit s => map MC (chars s)
  | CExpr _ _ => map MC (pct n) ++ [MC lbrace; MHole]
  end.

Definition render {Tm} (n : nat) (cs : list (chunk_ Tm)) : list mitem :=
  MC newline :: flat_map (chunk_items n) cs ++ MC newline :: MC dquote :: map MC (pct n).

Definition chunk_events {Tm} (c : chunk_ Tm) : list mev :=
  match c with
  | CLit s => lits (chars s)
  | CExpr _ _ => [EInterp]
  end.

Definition expected {Tm} (cs : list (chunk_ Tm)) : list mev :=
  ELit newline :: flat_map chunk_events cs ++ [ELit newline; EEnd].

(* ---- the scan of min_interpolate_sign and the lexer agree on what a candidate is *)

(* state reached by the scan after [s], and the best match found *)
Fixpoint scan_state (s : string) (st : dstate) : dstate :=
  match s with
  | EmptyString => st
  | String c s' =>
      match st with
      | DStart => scan_state s' (dstart c)
      | DQuote k => if Ascii.eqb c percent then scan_state s' (DQuote (S k)) else scan_state s' (dstart c)
      | DPercent k =>
          if Ascii.eqb c percent then scan_state s' (DPercent (S k))
          else if Ascii.eqb c lbrace then scan_state s' DStart
          else scan_state s' (dstart c)
      end
  end.

Lemma dflush_le st best : best <= dflush st best.
Proof. destruct st as [|[|k]|k]; cbn [dflush]; lia. Qed.

Lemma delim_scan_ge s : forall st best, best <= delim_scan s st best.
Proof.
  induction s as [|c s IH]; intros st best; cbn [delim_scan]; [apply dflush_le|].
  destruct st as [|k|k].
  - apply IH.
  - destruct (Ascii.eqb c percent); [apply IH|]. etransitivity; [apply dflush_le | apply IH].
  - destruct (Ascii.eqb c percent); [apply IH|].
    destruct (Ascii.eqb c lbrace); [|apply IH]. etransitivity; [|apply IH]. lia.
Qed.

Lemma delim_scan_final s : forall st best n,
  delim_scan s st best <= n -> dflush (scan_state s st) 0 <= n.
Proof.
  induction s as [|c s IH]; intros st best n H; cbn [delim_scan scan_state] in *.
  - destruct st as [|[|k]|k]; cbn [dflush] in *; lia.
  - destruct st as [|k|k].
    + eapply IH; eauto.
    + destruct (Ascii.eqb c percent); eapply IH; eauto.
    + destruct (Ascii.eqb c percent); [eapply IH; eauto|].
      destruct (Ascii.eqb c lbrace); eapply IH; eauto.
Qed.

Lemma pct_S k : pct (S k) = percent :: pct k.
Proof. reflexivity. Qed.

Lemma pct_snoc k : pct k ++ [percent] = pct (S k).
Proof. unfold pct. induction k; [reflexivity|]. cbn [repeat app]. f_equal. exact IHk. Qed.

Lemma pct_shift k l : pct k ++ percent :: l = pct (S k) ++ l.
Proof. rewrite <- pct_snoc. rewrite <- app_assoc. reflexivity. Qed.

Lemma lits_app a b : lits (a ++ b) = lits a ++ lits b.
Proof. apply map_app. Qed.

Lemma dstart_cases c :
  (dstart c = DPercent 1 /\ c = percent) \/ (dstart c = DQuote 0 /\ c = dquote)
  \/ (dstart c = DStart /\ c <> percent /\ c <> dquote).
Proof.
  unfold dstart. destruct (Ascii.eqb c percent) eqn:E1.
  - apply Ascii.eqb_eq in E1. auto.
  - destruct (Ascii.eqb c dquote) eqn:E2.
    + apply Ascii.eqb_eq in E2. auto.
    + right; right. split; [reflexivity|]. split; intros ->; [now rewrite Ascii.eqb_refl in E1 | now rewrite Ascii.eqb_refl in E2].
Qed.


Lemma stops_lits l : stops (lits l) = false.
Proof. induction l; [reflexivity|]. cbn. exact IHl. Qed.

(* how the lexer restarts on a character from the initial state *)
Lemma lex_start pc c r :
  lex pc (MC c :: r) DStart
  = match dstart c with DStart => ELit c :: lex pc r DStart | st' => lex pc r st' end.
Proof. reflexivity. Qed.

(* The lexer over the characters of a literal all of whose candidates are shorter than the
   delimiter: everything read so far is literal text, except the candidate still pending. *)
Lemma lex_text n s : forall st best R,
  delim_scan s st best <= n ->
  exists e,
    pending st ++ chars s = e ++ pending (scan_state s st)
    /\ lex (S n) (map MC (chars s) ++ R) st = lits e ++ lex (S n) R (scan_state s st).
Proof.
  induction s as [|c s IH]; intros st best R H.
  - exists []. cbn [chars map app scan_state lits]. split; [now rewrite app_nil_r | reflexivity].
  - cbn [chars map app]. cbn [delim_scan] in H. cbn [scan_state].
    (* restarting on [c] from the initial state, after [pre] has been emitted *)
    assert (Hrestart : forall best',
              delim_scan s (dstart c) best' <= n ->
              exists e, c :: chars s = e ++ pending (scan_state s (dstart c))
                /\ (match dstart c with DStart => ELit c :: lex (S n) (map MC (chars s) ++ R) DStart
                                      | st' => lex (S n) (map MC (chars s) ++ R) st' end)
                   = lits e ++ lex (S n) R (scan_state s (dstart c))).
    { intros best' Hb. destruct (IH (dstart c) best' R Hb) as (e & He & Hl).
      destruct (dstart_cases c) as [[E ->]|[[E ->]|[E _]]]; rewrite E in *.
      - exists e. split; [exact He | exact Hl].
      - exists e. split; [exact He | exact Hl].
      - exists (c :: e). cbn [pending app] in He. split; [cbn [app]; now rewrite He|].
        cbn [lits map app]. now rewrite Hl. }
    destruct st as [|k|k].
    + (* initial state *)
      rewrite lex_start. destruct (Hrestart best H) as (e & He & Hl). exists e. split; [exact He | exact Hl].
    + (* a quote and k percent signs *)
      cbn [lex].
      destruct (Ascii.eqb c percent) eqn:Ep.
      * apply Ascii.eqb_eq in Ep. subst c.
        destruct (IH (DQuote (S k)) best R H) as (e & He & Hl). exists e. split; [|exact Hl].
        rewrite <- He. cbn [pending app]. now rewrite pct_shift.
      * assert (Hk : dflush (DQuote k) best <= n).
        { etransitivity; [apply delim_scan_ge | exact H]. }
        destruct (Hrestart _ H) as (e & He & Hl).
        destruct (Ascii.eqb c lbrace && negb (Nat.eqb k 0)) eqn:Eb.
        -- (* quote, percent signs, brace: shorter than the delimiter, hence literal *)
           apply andb_prop in Eb as [Eb Ek]. apply Ascii.eqb_eq in Eb. subst c.
           destruct k as [|k0]; [discriminate|]. cbn [dflush] in Hk.
           assert (Hlt : Nat.ltb (S n) (S k0 + 2) = false) by (apply Nat.ltb_ge; lia).
           rewrite Hlt.
           assert (Ed : dstart lbrace = DStart) by reflexivity. rewrite Ed in *.
           exists (pending (DQuote (S k0)) ++ e). split.
           ++ rewrite <- app_assoc. now rewrite <- He.
           ++ rewrite lits_app. rewrite <- app_assoc. f_equal.
              cbn [lits map app] in Hl |- *. destruct e as [|e0 e]; cbn [lits map app] in *.
              ** (* cannot happen: the brace is emitted *) cbn [pending] in He. 
                 destruct (scan_state s DStart) as [|j|j]; cbn [pending] in He; try discriminate;
                   destruct j; discriminate.
              ** inversion Hl. 
                 assert (e0 = lbrace).
                 { cbn [app] in He. inversion He. reflexivity. }
                 subst e0. reflexivity.
        -- (* the candidate end is complete and too short to be the end *)
           assert (Hout : lflush (S n) (DQuote k) = lits (pending (DQuote k))).
           { destruct k as [|k0]; [reflexivity|]. cbn [lflush dflush] in *.
             assert (Ec : Nat.compare (S (S k0)) (S n) = Lt) by (apply Nat.compare_lt_iff; lia).
             now rewrite Ec. }
           rewrite Hout, stops_lits.
           exists (pending (DQuote k) ++ e). split.
           ++ rewrite <- app_assoc. now rewrite <- He.
           ++ rewrite lits_app, <- app_assoc. f_equal. exact Hl.
    + (* k percent signs *)
      cbn [lex].
      destruct (Ascii.eqb c percent) eqn:Ep.
      * apply Ascii.eqb_eq in Ep. subst c.
        destruct (IH (DPercent (S k)) best R H) as (e & He & Hl). exists e. split; [|exact Hl].
        rewrite <- He. cbn [pending]. now rewrite pct_shift.
      * destruct (Ascii.eqb c lbrace) eqn:Eb.
        -- apply Ascii.eqb_eq in Eb. subst c.
           assert (Hk : Nat.max (S k) best <= n).
           { etransitivity; [apply delim_scan_ge | exact H]. }
           assert (Hle : Nat.leb (S n) (k + 1) = false) by (apply Nat.leb_gt; lia).
           rewrite Hle.
           destruct (IH DStart _ R H) as (e & He & Hl).
           exists (pending (DPercent k) ++ lbrace :: e). split.
           ++ rewrite <- app_assoc. cbn [app]. cbn [pending app] in He. now rewrite He.
           ++ rewrite lits_app, <- app_assoc. f_equal. cbn [lits map app]. f_equal. exact Hl.
        -- destruct (Hrestart _ H) as (e & He & Hl).
           exists (pending (DPercent k) ++ e). split.
           ++ rewrite <- app_assoc. now rewrite <- He.
           ++ rewrite lits_app, <- app_assoc. f_equal. exact Hl.
Qed.

(* ---- interpolations and the closing delimiter *)

Definition add_pct (m : nat) (st : dstate) : dstate :=
  match st with
  | DStart => match m with 0 => DStart | _ => DPercent m end
  | DQuote k => DQuote (k + m)
  | DPercent k => DPercent (k + m)
  end.

Lemma feed_pct pc m : forall st X, lex pc (map MC (pct m) ++ X) st = lex pc X (add_pct m st).
Proof.
  induction m as [|m IH]; intros st X.
  - destruct st; cbn [pct repeat map app add_pct]; rewrite ?Nat.add_0_r; reflexivity.
  - rewrite pct_S. cbn [map app].
    destruct st as [|k|k].
    + rewrite lex_start. change (dstart percent) with (DPercent 1). cbv iota. rewrite IH. cbn [add_pct].
      replace (1 + m) with (S m) by lia. reflexivity.
    + cbn [lex]. change (Ascii.eqb percent percent) with true. cbv iota. rewrite IH. cbn [add_pct].
      replace (S k + m) with (k + S m) by lia. reflexivity.
    + cbn [lex]. change (Ascii.eqb percent percent) with true. cbv iota. rewrite IH. cbn [add_pct].
      replace (S k + m) with (k + S m) by lia. reflexivity.
Qed.

Lemma lex_interp n st R :
  1 <= n ->
  lex (S n) (map MC (pct n) ++ MC lbrace :: MHole :: R) st = lits (pending st) ++ EInterp :: lex (S n) R DStart.
Proof.
  intros Hn. rewrite feed_pct. destruct st as [|k|k]; cbn [add_pct].
  - destruct n as [|m]; [lia|]. cbn [lex].
    change (Ascii.eqb lbrace percent) with false. change (Ascii.eqb lbrace lbrace) with true. cbv iota.
    assert (E : Nat.leb (S (S m)) (S m + 1) = true) by (apply Nat.leb_le; lia). rewrite E.
    replace (S m + 1 - S (S m)) with 0 by lia. reflexivity.
  - cbn [lex].
    change (Ascii.eqb lbrace percent) with false. change (Ascii.eqb lbrace lbrace) with true.
    assert (E0 : Nat.eqb (k + n) 0 = false) by (apply Nat.eqb_neq; lia). rewrite E0. cbn [negb andb]. cbv iota.
    assert (E : Nat.ltb (S n) (k + n + 2) = true) by (apply Nat.ltb_lt; lia). rewrite E.
    replace (k + n + 2 - S n - 1) with k by lia. reflexivity.
  - cbn [lex].
    change (Ascii.eqb lbrace percent) with false. change (Ascii.eqb lbrace lbrace) with true. cbv iota.
    assert (E : Nat.leb (S n) (k + n + 1) = true) by (apply Nat.leb_le; lia). rewrite E.
    replace (k + n + 1 - S n) with k by lia. reflexivity.
Qed.

Lemma lflush_safe n st : dflush st 0 <= n -> lflush (S n) st = lits (pending st).
Proof.
  intros H. destruct st as [|[|k]|k]; try reflexivity. cbn [lflush dflush] in *.
  assert (Ec : Nat.compare (S (S k)) (S n) = Lt) by (apply Nat.compare_lt_iff; lia). now rewrite Ec.
Qed.

Lemma lex_quote_newline pc k r :
  lex pc (MC newline :: r) (DQuote k)
  = (let out := lflush pc (DQuote k) in if stops out then out else out ++ lex pc (MC newline :: r) DStart).
Proof. reflexivity. Qed.

Lemma lex_pct_newline pc k r :
  lex pc (MC newline :: r) (DPercent k) = lits (pending (DPercent k)) ++ lex pc (MC newline :: r) DStart.
Proof. reflexivity. Qed.

Lemma lex_end n st :
  1 <= n -> dflush st 0 <= n ->
  lex (S n) (MC newline :: MC dquote :: map MC (pct n)) st = lits (pending st) ++ [ELit newline; EEnd].
Proof.
  intros Hn Hs.
  assert (Htail : lex (S n) (MC dquote :: map MC (pct n)) DStart = [EEnd]).
  { rewrite lex_start. change (dstart dquote) with (DQuote 0). cbv iota.
    rewrite <- (app_nil_r (map MC (pct n))). rewrite feed_pct. cbn [add_pct lex].
    destruct n as [|m]; [lia|]. cbn [plus lflush].
    assert (Ec : Nat.compare (S (S m)) (S (S m)) = Eq) by apply Nat.compare_refl. now rewrite Ec. }
  assert (Hnl : lex (S n) (MC newline :: MC dquote :: map MC (pct n)) DStart = [ELit newline; EEnd]).
  { rewrite lex_start. change (dstart newline) with DStart. cbv iota. now rewrite Htail. }
  destruct st as [|k|k].
  - exact Hnl.
  - rewrite lex_quote_newline. cbv zeta. rewrite lflush_safe by assumption. rewrite stops_lits. now rewrite Hnl.
  - rewrite lex_pct_newline. now rewrite Hnl.
Qed.

(* ---- whole strings *)

(* no two adjacent literal chunks (the lexer and the grammar fuse them) *)
Fixpoint no_adjacent_lits {Tm} (cs : list (chunk_ Tm)) : Prop :=
  match cs with
  | CLit _ :: ((CLit _ :: _) as r) => False
  | _ :: r => no_adjacent_lits r
  | [] => True
  end.

Definition starts_with_lit {Tm} (cs : list (chunk_ Tm)) : bool :=
  match cs with CLit _ :: _ => true | _ => false end.

Lemma lex_chunks {Tm} n : forall (cs : list (chunk_ Tm)) st,
  1 <= n -> no_adjacent_lits cs ->
  (forall s, In (CLit s) cs -> delim_scan s DStart 0 <= n) ->
  (starts_with_lit cs = true -> st = DStart) -> dflush st 0 <= n ->
  lex (S n) (flat_map (chunk_items n) cs ++ MC newline :: MC dquote :: map MC (pct n)) st
  = lits (pending st) ++ flat_map chunk_events cs ++ [ELit newline; EEnd].
Proof.
  induction cs as [|c cs IH]; intros st Hn Hadj Hsafe Hst Hfl.
  - cbn [flat_map app]. now apply lex_end.
  - destruct c as [s|e i].
    + (* literal *)
      rewrite (Hst eq_refl) in *. cbn [flat_map chunk_items chunk_events pending lits map app].
      rewrite <- app_assoc.
      destruct (lex_text n s DStart 0 (flat_map (chunk_items n) cs ++ MC newline :: MC dquote :: map MC (pct n)))
        as (e & He & Hl); [apply Hsafe; now left|].
      rewrite Hl. rewrite IH.
      * rewrite app_assoc. rewrite <- lits_app. rewrite <- He. cbn [pending app]. now rewrite <- app_assoc.
      * exact Hn.
      * destruct cs as [|[?|? ?] ?]; cbn in Hadj |- *; auto. destruct Hadj.
      * intros s' Hin. apply Hsafe. now right.
      * intros Hsw. exfalso. destruct cs as [|[?|? ?] ?]; try discriminate. cbn in Hadj. exact Hadj.
      * eapply delim_scan_final. apply Hsafe. now left.
    + (* interpolation *)
      cbn [flat_map chunk_items chunk_events]. rewrite <- !app_assoc. cbn [app].
      rewrite lex_interp by assumption. rewrite IH.
      * cbn [pending lits map app]. reflexivity.
      * exact Hn.
      * destruct cs; exact Hadj.
      * intros s' Hin. apply Hsafe. now right.
      * reflexivity.
      * cbn. lia.
Qed.

Lemma nb_percent_ge (cs : list chunk) : 1 <= nb_percent cs.
Proof. unfold nb_percent. destruct (chunks_percent_count cs); lia. Qed.

Lemma nb_percent_bound (cs : list chunk) s : In (CLit s) cs -> delim_scan s DStart 0 <= nb_percent cs.
Proof.
  intros Hin.
  assert (H1 : delim_scan s DStart 0 <= min_interpolate_sign s).
  { unfold min_interpolate_sign. destruct (delim_scan s DStart 0); lia. }
  assert (H2 : min_interpolate_sign s <= chunks_percent_count cs).
  { unfold chunks_percent_count. induction cs as [|c cs IH]; [destruct Hin|].
    cbn [map fold_right]. destruct Hin as [->|Hin]; [lia | specialize (IH Hin); lia]. }
  unfold nb_percent. destruct (chunks_percent_count cs); lia.
Qed.

(* The number of percent signs chosen by the printer makes the lexer read the printed string back
   as its chunks. *)
Theorem multiline_delim_safe (cs : list chunk) :
  no_adjacent_lits cs ->
  lex (S (nb_percent cs)) (render (nb_percent cs) cs) DStart = expected cs.
Proof.
  intros Hadj. unfold render, expected. rewrite lex_start. change (dstart newline) with DStart. cbv iota.
  f_equal. rewrite lex_chunks; auto.
  - apply nb_percent_ge.
  - intros s Hin. now apply nb_percent_bound.
  - cbn. lia.
Qed.

(* non-vacuity: a string whose text contains would-be delimiters *)
Example multiline_delim_example :
  let cs : list chunk := [CLit "a %{ "" ""% b"; CExpr (Var "x") 0; CLit "%%%"; CExpr (Var "y") 0] in
  nb_percent cs = 2 /\ no_adjacent_lits cs.
Proof. split; [vm_compute; reflexivity | cbn; exact I]. Qed.
