(* C14 — glue used only by the extracted driver: decimal text <-> numbers.  Definitions only. *)
From Coq Require Import String Ascii List ZArith QArith Bool Arith.
Import ListNotations.
Close Scope Q_scope.
Open Scope nat_scope.

Definition digit_of (c : ascii) : option N :=
  let n := nat_of_ascii c in
  if Nat.leb 48 n && Nat.leb n 57 then Some (N.of_nat (n - 48)) else None.

Fixpoint n_of_digits (s : string) (acc : N) : option N :=
  match s with
  | EmptyString => Some acc
  | String c s' => match digit_of c with
                   | Some d => n_of_digits s' (acc * 10 + d)%N
                   | None => None
                   end
  end.

Fixpoint split_slash (s : string) (pre : string) : string * option string :=
  match s with
  | EmptyString => (pre, None)
  | String c s' =>
      if Ascii.eqb c "/"%char then (pre, Some s')
      else split_slash s' (pre ++ String c EmptyString)%string
  end.

Definition q_of_string (s : string) : option Q :=
  let '(neg, body) := match s with
                      | String c s' => if Ascii.eqb c "-"%char then (true, s') else (false, s)
                      | EmptyString => (false, s)
                      end in
  let '(ns, ds) := split_slash body EmptyString in
  match n_of_digits ns 0%N, (match ds with Some d => n_of_digits d 0%N | None => Some 1%N end) with
  | Some n, Some (Npos d) =>
      let z := Z.of_N n in Some ((if neg then Z.opp z else z) # d)%Q
  | _, _ => None
  end.

Fixpoint digits_of_N (fuel : nat) (n : N) (acc : string) : string :=
  match fuel with
  | O => acc
  | S f =>
      let d := N.to_nat (n mod 10)%N in
      let acc' := String (ascii_of_nat (48 + d)) acc in
      if (n / 10 =? 0)%N then acc' else digits_of_N f (n / 10)%N acc'
  end.

Definition string_of_N (n : N) : string := digits_of_N (S (N.to_nat (N.size n))) n EmptyString.

Definition string_of_q (q : Q) : string :=
  let sign := match Qnum q with Zneg _ => "-"%string | _ => EmptyString end in
  let n := string_of_N (Z.abs_N (Qnum q)) in
  match Qden q with
  | xH => (sign ++ n)%string
  | d => (sign ++ n ++ "/" ++ string_of_N (Npos d))%string
  end.
