(* C01 — semantic typing (unary logical relation) of the fragment and its structural lemmas. *)
From Coq Require Import List String Bool Arith QArith Lia.
Import ListNotations.
From NV Require Import Types.Syntax Types.Sem Types.Pure.
Close Scope Q_scope.
Open Scope string_scope.

Definition cand := whnf -> Prop.

(* an outcome is acceptable at a semantic type: a value of the type, an error that is not a dynamic
   type error of typed origin, or divergence *)
Definition ok_out (P : cand) (o : outcome whnf) : Prop :=
  match o with
  | Ok v => P v
  | Err e => safe_err e
  | OutOfFuel => True
  end.

Definition TT (P : cand) (t : thunk) : Prop := forall n, ok_out P (eval_thunk n t).

(* application of a value to an argument thunk, from typed code *)
Definition app_out (n : nat) (v : whnf) (t : thunk) : outcome whnf :=
  apply_with (eval n) MTyped v t.

Definition name_of (v : whnf) : option string :=
  match v with VTag t => Some t | VVariant t _ => Some t | _ => None end.

Fixpoint V (T : ty) (d : list cand) (v : whnf) {struct T} : Prop :=
  match T with
  | TDyn => pure_whnf v
  | TNum => exists q, v = VNum q
  | TStr => exists s, v = VStr s
  | TBool => exists b, v = VBool b
  | TArr T' => exists ts, v = VArr ts /\ Forall (TT (V T' d)) ts
  | TFun A B => forall t, TT (V A d) t -> forall n, ok_out (V B d) (app_out n v t)
  | TRec r => exists fs, v = VRec fs /\ Vrows r d fs
  | TDict T' => exists fs, v = VRec fs /\ Forall (fun ft => TT (V T' d) (snd ft)) fs
  | TEnum e => Verows e d v
  | TVar i => nth i d (fun _ => False) v
  | TForall T' => forall R : cand, V T' (R :: d) v
  end
with Vrows (r : rows) (d : list cand) (fs : list (string * thunk)) {struct r} : Prop :=
  match r, fs with
  | RNil, [] => True
  | RCons f T r', (g, t) :: fs' => f = g /\ TT (V T d) t /\ Vrows r' d fs'
  | _, _ => False
  end
with Verows (e : erows) (d : list cand) (v : whnf) {struct e} : Prop :=
  (* the first row of a tag shadows the later ones, as [erows_lookup] *)
  match e with
  | ENil => False
  | EBare t e' => v = VTag t \/ (name_of v <> Some t /\ Verows e' d v)
  | EArg t T e' => (exists th, v = VVariant t th /\ TT (V T d) th) \/ (name_of v <> Some t /\ Verows e' d v)
  end.

(* ------------------------------------------------------------------------ extensionality *)

Lemma ok_out_ext : forall (P Q : cand) o, (forall v, P v <-> Q v) -> ok_out P o <-> ok_out Q o.
Proof. intros P Q [v|e|] H; simpl; [apply H|tauto|tauto]. Qed.

Lemma TT_ext : forall (P Q : cand) t, (forall v, P v <-> Q v) -> TT P t <-> TT Q t.
Proof.
  intros P Q t H. unfold TT. split; intros H1 n; specialize (H1 n);
    eapply ok_out_ext; eauto. intros v. symmetry. apply H.
Qed.

Lemma Forall_TT_ext : forall (P Q : cand) ts, (forall v, P v <-> Q v) ->
  Forall (TT P) ts <-> Forall (TT Q) ts.
Proof.
  intros P Q ts H. split; intros HF; eapply Forall_impl; try eassumption;
    intros t Ht; eapply TT_ext; try eassumption; eauto. intros v; symmetry; apply H.
Qed.

(* a generic "transport" lemma: two (type, environment) pairs with equivalent interpretations of
   every constructor; used for both weakening and substitution *)
Definition equiv_at (T1 : ty) (d1 : list cand) (T2 : ty) (d2 : list cand) : Prop :=
  forall v, V T1 d1 v <-> V T2 d2 v.

(* ------------------------------------------------------------------------------ weakening *)

Lemma nth_insert : forall {A} (d1 d2 : list A) (R dflt : A) n,
  nth (if Nat.leb (List.length d1) n then S n else n) (d1 ++ R :: d2) dflt = nth n (d1 ++ d2) dflt.
Proof.
  intros A d1 d2 R dflt n. destruct (Nat.leb (List.length d1) n) eqn:Hle.
  - apply Nat.leb_le in Hle.
    rewrite (app_nth2 d1 (R :: d2)) by lia. rewrite (app_nth2 d1 d2) by lia.
    replace (S n - List.length d1) with (S (n - List.length d1)) by lia. reflexivity.
  - apply Nat.leb_gt in Hle.
    rewrite (app_nth1 d1 (R :: d2)) by lia. rewrite (app_nth1 d1 d2) by lia. reflexivity.
Qed.

Lemma V_shift_mut :
  (forall T d1 R d2 v, V (shift (List.length d1) T) (d1 ++ R :: d2) v <-> V T (d1 ++ d2) v) /\
  (forall r d1 R d2 fs, Vrows (shift_rows (List.length d1) r) (d1 ++ R :: d2) fs <-> Vrows r (d1 ++ d2) fs) /\
  (forall e d1 R d2 v, Verows (shift_erows (List.length d1) e) (d1 ++ R :: d2) v <-> Verows e (d1 ++ d2) v).
Proof.
  apply ty_rows_ind; intros; simpl; try tauto.
  - (* TArr *)
    split; intros [ts [-> HF]]; exists ts; split; auto;
      eapply Forall_TT_ext; try eassumption; intros v'; [symmetry|]; apply H.
  - (* TFun *)
    split; intros HV t0 Ht n.
    + eapply ok_out_ext; [intros v'; symmetry; apply H0|]. apply HV.
      eapply TT_ext; [|eassumption]. intros v'. apply H.
    + eapply ok_out_ext; [intros v'; apply H0|]. apply HV.
      eapply TT_ext; [|eassumption]. intros v'. symmetry. apply H.
  - (* TRec *)
    split; intros [fs [-> HF]]; exists fs; (split; [reflexivity|]); apply H in HF || apply H; assumption.
  - (* TDict *)
    split; intros [fs [-> HF]]; exists fs; (split; [reflexivity|]);
      rewrite Forall_forall in *; intros ft Hin; specialize (HF ft Hin);
      (eapply TT_ext; [|exact HF]); intros v'; [symmetry|]; apply H.
  - (* TEnum *) apply H.
  - (* TVar *)
    destruct (Nat.leb (List.length d1) n) eqn:Hle; simpl.
    + pose proof (@nth_insert cand d1 d2 R (fun _ => False) n) as Hn. rewrite Hle in Hn.
      rewrite Hn. tauto.
    + pose proof (@nth_insert cand d1 d2 R (fun _ => False) n) as Hn. rewrite Hle in Hn.
      rewrite Hn. tauto.
  - (* TForall *)
    split; intros HV R0; specialize (HV R0);
      apply (H (R0 :: d1) R d2 v); assumption.
  - (* RCons *)
    destruct fs as [|[g t0] fs']; [tauto|].
    split; intros [Hfg [Ht Hr]]; (split; [assumption|split]).
    + eapply TT_ext; [|eassumption]. intros v'. symmetry. apply H.
    + apply H0 in Hr. assumption.
    + eapply TT_ext; [|eassumption]. intros v'. apply H.
    + apply H0. assumption.
  - (* EBare *)
    split; intros [Hv|[Hn Hr]]; try (left; assumption); right; (split; [assumption|]);
      first [apply H; assumption | apply H in Hr; assumption].
  - (* EArg *)
    split; intros [[th [Hv Ht]]|[Hn Hr]].
    + left. exists th. split; [assumption|]. eapply TT_ext; [|eassumption]. intros v'. symmetry. apply H.
    + right. split; [assumption|]. apply H0 in Hr. assumption.
    + left. exists th. split; [assumption|]. eapply TT_ext; [|eassumption]. intros v'. apply H.
    + right. split; [assumption|]. apply H0. assumption.
Qed.

Lemma V_shift0 : forall T R d v, V (shift 0 T) (R :: d) v <-> V T d v.
Proof. intros. apply (proj1 V_shift_mut T [] R d v). Qed.

Fixpoint shiftn (k : nat) (T : ty) : ty :=
  match k with 0 => T | S k' => shift 0 (shiftn k' T) end.

Lemma V_shiftn : forall d1 T d2 v, V (shiftn (List.length d1) T) (d1 ++ d2) v <-> V T d2 v.
Proof.
  induction d1 as [|R d1 IH]; intros; simpl; [tauto|].
  rewrite V_shift0. apply IH.
Qed.

(* ---------------------------------------------------------------------------- substitution *)

Lemma V_subst_mut : forall S d2,
  (forall T d1 v, V (subst (List.length d1) (shiftn (List.length d1) S) T) (d1 ++ d2) v
                  <-> V T (d1 ++ V S d2 :: d2) v) /\
  (forall r d1 fs, Vrows (subst_rows (List.length d1) (shiftn (List.length d1) S) r) (d1 ++ d2) fs
                   <-> Vrows r (d1 ++ V S d2 :: d2) fs) /\
  (forall e d1 v, Verows (subst_erows (List.length d1) (shiftn (List.length d1) S) e) (d1 ++ d2) v
                  <-> Verows e (d1 ++ V S d2 :: d2) v).
Proof.
  intros S d2. apply ty_rows_ind; intros; simpl; try tauto.
  - split; intros [ts [-> HF]]; exists ts; split; auto;
      eapply Forall_TT_ext; try eassumption; intros v'; [symmetry|]; apply H.
  - split; intros HV t0 Ht n.
    + eapply ok_out_ext; [intros v'; symmetry; apply H0|]. apply HV.
      eapply TT_ext; [|eassumption]. intros v'. apply H.
    + eapply ok_out_ext; [intros v'; apply H0|]. apply HV.
      eapply TT_ext; [|eassumption]. intros v'. symmetry. apply H.
  - split; intros [fs [-> HF]]; exists fs; (split; [reflexivity|]); apply H in HF || apply H; assumption.
  - (* TDict *)
    split; intros [fs [-> HF]]; exists fs; (split; [reflexivity|]);
      rewrite Forall_forall in *; intros ft Hin; specialize (HF ft Hin);
      (eapply TT_ext; [|exact HF]); intros v'; [symmetry|]; apply H.
  - (* TEnum *) apply H.
  - (* TVar *)
    destruct (Nat.compare n (List.length d1)) eqn:Hc.
    + apply Nat.compare_eq in Hc. subst n.
      rewrite app_nth2 by lia. rewrite Nat.sub_diag. simpl. apply V_shiftn.
    + apply Nat.compare_lt_iff in Hc. simpl.
      rewrite (app_nth1 d1 d2) by lia. rewrite (app_nth1 d1 (_ :: d2)) by lia. tauto.
    + apply Nat.compare_gt_iff in Hc. simpl.
      rewrite (app_nth2 d1 d2) by lia. rewrite (app_nth2 d1 (_ :: d2)) by lia.
      replace (n - List.length d1) with (Datatypes.S (pred n - List.length d1)) by lia. simpl. tauto.
  - (* TForall *)
    split; intros HV R0; specialize (HV R0); apply (H (R0 :: d1) v); assumption.
  - destruct fs as [|[g t0] fs']; [tauto|].
    split; intros [Hfg [Ht Hr]]; (split; [assumption|split]).
    + eapply TT_ext; [|eassumption]. intros v'. symmetry. apply H.
    + apply H0 in Hr. assumption.
    + eapply TT_ext; [|eassumption]. intros v'. apply H.
    + apply H0. assumption.
  - (* EBare *)
    split; intros [Hv|[Hn Hr]]; try (left; assumption); right; (split; [assumption|]);
      first [apply H; assumption | apply H in Hr; assumption].
  - (* EArg *)
    split; intros [[th [Hv Ht]]|[Hn Hr]].
    + left. exists th. split; [assumption|]. eapply TT_ext; [|eassumption]. intros v'. symmetry. apply H.
    + right. split; [assumption|]. apply H0 in Hr. assumption.
    + left. exists th. split; [assumption|]. eapply TT_ext; [|eassumption]. intros v'. apply H.
    + right. split; [assumption|]. apply H0. assumption.
Qed.

Lemma V_subst0 : forall T S d v, V (subst 0 S T) d v <-> V T (V S d :: d) v.
Proof. intros. apply (proj1 (V_subst_mut S d) T [] v). Qed.

(* ------------------------------------------------------------------------------- records *)

Lemma Vrows_lookup : forall r d fs f T,
  Vrows r d fs -> rows_lookup f r = Some T -> exists t, assoc f fs = Some t /\ TT (V T d) t.
Proof.
  induction r as [|g T' r IH]; intros d fs f T HV Hl; simpl in *; [discriminate|].
  destruct fs as [|[g' t] fs']; [contradiction|]. destruct HV as [<- [Ht Hr]].
  simpl. destruct (String.eqb f g).
  - inversion Hl; subst. exists t. split; [reflexivity|assumption].
  - eapply IH; eauto.
Qed.

(* --------------------------------------------------------------------------------- enums *)

Lemma Verows_tag : forall e d t, erows_lookup t e = Some None -> Verows e d (VTag t).
Proof.
  induction e as [|u e IH|u T e IH]; simpl; intros d t H; [discriminate| |].
  - destruct (String.eqb t u) eqn:Heq.
    + apply String.eqb_eq in Heq. subst. left. reflexivity.
    + right. split; [|apply IH; assumption]. simpl. intros Hc. inversion Hc; subst.
      rewrite String.eqb_refl in Heq. discriminate.
  - destruct (String.eqb t u) eqn:Heq; [discriminate|].
    right. split; [|apply IH; assumption]. simpl. intros Hc. inversion Hc; subst.
    rewrite String.eqb_refl in Heq. discriminate.
Qed.

Lemma Verows_variant : forall e d t T th,
  erows_lookup t e = Some (Some T) -> TT (V T d) th -> Verows e d (VVariant t th).
Proof.
  induction e as [|u e IH|u U e IH]; simpl; intros d t T th H Ht; [discriminate| |].
  - destruct (String.eqb t u) eqn:Heq; [discriminate|].
    right. split; [|eapply IH; eassumption]. simpl. intros Hc. inversion Hc; subst.
    rewrite String.eqb_refl in Heq. discriminate.
  - destruct (String.eqb t u) eqn:Heq.
    + apply String.eqb_eq in Heq. subst. inversion H; subst. left. exists th. split; [reflexivity|assumption].
    + right. split; [|eapply IH; eassumption]. simpl. intros Hc. inversion Hc; subst.
      rewrite String.eqb_refl in Heq. discriminate.
Qed.

Lemma Verows_inv : forall e d v, Verows e d v ->
  (exists t, v = VTag t /\ erows_lookup t e = Some None) \/
  (exists t th T, v = VVariant t th /\ erows_lookup t e = Some (Some T) /\ TT (V T d) th).
Proof.
  induction e as [|u e IH|u U e IH]; simpl; intros d v H; [contradiction| |].
  - destruct H as [->|[Hn Hr]].
    + left. exists u. rewrite String.eqb_refl. split; reflexivity.
    + destruct (IH d v Hr) as [[t [-> Hl]]|[t [th [T [-> [Hl Ht]]]]]].
      * left. exists t. split; [reflexivity|]. destruct (String.eqb t u) eqn:Heq; [|assumption].
        apply String.eqb_eq in Heq. subst. exfalso. apply Hn. reflexivity.
      * right. exists t, th, T. split; [reflexivity|]. split; [|assumption].
        destruct (String.eqb t u) eqn:Heq; [|assumption].
        apply String.eqb_eq in Heq. subst. exfalso. apply Hn. reflexivity.
  - destruct H as [[th [-> Ht]]|[Hn Hr]].
    + right. exists u, th, U. rewrite String.eqb_refl. split; [reflexivity|]. split; [reflexivity|assumption].
    + destruct (IH d v Hr) as [[t [-> Hl]]|[t [th [T [-> [Hl Ht]]]]]].
      * left. exists t. split; [reflexivity|]. destruct (String.eqb t u) eqn:Heq; [|assumption].
        apply String.eqb_eq in Heq. subst. exfalso. apply Hn. reflexivity.
      * right. exists t, th, T. split; [reflexivity|]. split; [|assumption].
        destruct (String.eqb t u) eqn:Heq; [|assumption].
        apply String.eqb_eq in Heq. subst. exfalso. apply Hn. reflexivity.
Qed.
