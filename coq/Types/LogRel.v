(* C01 — semantic typing (unary logical relation) of the fragment and its structural lemmas. *)
From Coq Require Import List String Bool Arith QArith Lia.
Import ListNotations.
From NV Require Import Types.Syntax Types.Sem Types.Pure.
Close Scope Q_scope.
Open Scope string_scope.

(* candidates: semantic types (sets of values) and semantic rows (sets of field lists) *)
Definition cand := whnf -> Prop.
Definition rcand := list (string * thunk) -> Prop.

(* an outcome is acceptable at a semantic type: a value of the type, an error that is not a dynamic
   type error of typed origin, or divergence *)
Definition ok_out (P : cand) (o : outcome whnf) : Prop :=
  match o with
  | Ok v => P v
  | Err e => safe_err e
  | OutOfFuel => True
  end.

Definition TT (P : cand) (t : thunk) : Prop := forall n, ok_out P (eval_thunk n t).

(* application of a value to an argument thunk, from typed code *)
Definition app_out (n : nat) (v : whnf) (t : thunk) : outcome whnf :=
  apply_with (eval n) MTyped v t.

(* the enum row a value belongs to: its tag and whether it carries a payload *)
Definition key_of (v : whnf) : option (string * bool) :=
  match v with VTag t => Some (t, false) | VVariant t _ => Some (t, true) | _ => None end.

(* the fields other than [f] *)
Definition remove_field (f : string) (fs : list (string * thunk)) : list (string * thunk) :=
  filter (fun ft => negb (String.eqb (fst ft) f)) fs.

Fixpoint V (T : ty) (d : list cand) (dr : list rcand) (v : whnf) {struct T} : Prop :=
  match T with
  | TDyn => pure_whnf v
  | TNum => exists q, v = VNum q
  | TStr => exists s, v = VStr s
  | TBool => exists b, v = VBool b
  | TArr T' => exists ts, v = VArr ts /\ Forall (TT (V T' d dr)) ts
  | TFun A B => forall t, TT (V A d dr) t -> forall n, ok_out (V B d dr) (app_out n v t)
  | TRec r => exists fs, v = VRec fs /\ NoDup (map fst fs) /\ Vrows r d dr fs
  | TDict T' => exists fs, v = VRec fs /\ Forall (fun ft => TT (V T' d dr) (snd ft)) fs
  | TEnum e => Verows e d dr v
  | TVar i => nth i d (fun _ => False) v
  | TForall T' => forall R : cand, V T' (R :: d) dr v
  | TForallR T' => forall R : rcand, V T' d (R :: dr) v
  end
with Vrows (r : rows) (d : list cand) (dr : list rcand) (fs : list (string * thunk)) {struct r} : Prop :=
  (* the rows consume the fields: a closed record has none left, a row variable describes the rest *)
  match r with
  | RNil => fs = []
  | RCons f T r' => (exists t, assoc f fs = Some t /\ TT (V T d dr) t) /\ Vrows r' d dr (remove_field f fs)
  | RVar n => nth n dr (fun _ => False) fs
  end
with Verows (e : erows) (d : list cand) (dr : list rcand) (v : whnf) {struct e} : Prop :=
  (* the first row of a (tag, payload-ness) shadows the later ones, as [erows_lookup] *)
  match e with
  | ENil => False
  | EBare t e' => v = VTag t \/ (key_of v <> Some (t, false) /\ Verows e' d dr v)
  | EArg t T e' => (exists th, v = VVariant t th /\ TT (V T d dr) th) \/ (key_of v <> Some (t, true) /\ Verows e' d dr v)
  end.

(* ------------------------------------------------------------------------ extensionality *)

Lemma ok_out_ext : forall (P Q : cand) o, (forall v, P v <-> Q v) -> ok_out P o <-> ok_out Q o.
Proof. intros P Q [v|e|] H; simpl; [apply H|tauto|tauto]. Qed.

Lemma TT_ext : forall (P Q : cand) t, (forall v, P v <-> Q v) -> TT P t <-> TT Q t.
Proof.
  intros P Q t H. unfold TT. split; intros H1 n; specialize (H1 n);
    eapply ok_out_ext; eauto. intros v. symmetry. apply H.
Qed.

Lemma Forall_TT_ext : forall (P Q : cand) ts, (forall v, P v <-> Q v) ->
  Forall (TT P) ts <-> Forall (TT Q) ts.
Proof.
  intros P Q ts H. split; intros HF; eapply Forall_impl; try eassumption;
    intros t Ht; eapply TT_ext; try eassumption; eauto. intros v; symmetry; apply H.
Qed.

(* A generic transport lemma: if two interpretations agree on the variables (in the sense given by
   the hypotheses on the environments), they agree on all types.  Weakening and both substitution
   lemmas are instances.  [ft]/[fr] translate the syntax, [Hd]/[Hr] relate the environments at the
   variables. *)

Lemma nth_insert : forall {A} (d1 d2 : list A) (R dflt : A) n,
  nth (if Nat.leb (List.length d1) n then S n else n) (d1 ++ R :: d2) dflt = nth n (d1 ++ d2) dflt.
Proof.
  intros A d1 d2 R dflt n. destruct (Nat.leb (List.length d1) n) eqn:Hle.
  - apply Nat.leb_le in Hle.
    rewrite (app_nth2 d1 (R :: d2)) by lia. rewrite (app_nth2 d1 d2) by lia.
    replace (S n - List.length d1) with (S (n - List.length d1)) by lia. reflexivity.
  - apply Nat.leb_gt in Hle.
    rewrite (app_nth1 d1 (R :: d2)) by lia. rewrite (app_nth1 d1 d2) by lia. reflexivity.
Qed.

(* the common shape of all the cases that only push the equivalence through a constructor *)
Ltac congr_cases H H0 :=
  match goal with
  | |- (exists ts, _ = VArr ts /\ _) <-> _ =>
      split; intros [ts [-> HF]]; exists ts; (split; [reflexivity|]);
      (eapply Forall_TT_ext; [|eassumption]); intros v'; [symmetry|]; apply H
  | |- (forall t, TT _ t -> forall n, ok_out _ _) <-> _ =>
      split; intros HV t0 Ht n;
      [ eapply ok_out_ext; [intros v'; symmetry; apply H0|]; apply HV;
        eapply TT_ext; [|eassumption]; intros v'; apply H
      | eapply ok_out_ext; [intros v'; apply H0|]; apply HV;
        eapply TT_ext; [|eassumption]; intros v'; symmetry; apply H ]
  | |- (exists fs, _ = VRec fs /\ NoDup _ /\ _) <-> _ =>
      split; intros [fs [-> [Hnd HF]]]; exists fs; (split; [reflexivity|split; [assumption|]]);
      first [apply H; assumption | apply H in HF; assumption]
  | |- (exists fs, _ = VRec fs /\ Forall _ fs) <-> _ =>
      split; intros [fs [-> HF]]; exists fs; (split; [reflexivity|]);
      rewrite Forall_forall in *; intros ft Hin; specialize (HF ft Hin);
      (eapply TT_ext; [|exact HF]); intros v'; [symmetry|]; apply H
  end.

Ltac rows_cases H H0 :=
  match goal with
  | |- ((exists t, assoc _ _ = Some t /\ _) /\ _) <-> _ =>
      split; intros [[t0 [Ha Ht]] Hr]; (split; [exists t0; split; [assumption|]|]);
      [ eapply TT_ext; [|eassumption]; intros v'; symmetry; apply H
      | first [apply H0; assumption | apply H0 in Hr; assumption]
      | eapply TT_ext; [|eassumption]; intros v'; apply H
      | first [apply H0; assumption | apply H0 in Hr; assumption] ]
  | |- (_ = VTag _ \/ _) <-> _ =>
      split; intros [Hv|[Hn Hr]]; try (left; assumption); right; (split; [assumption|]);
      first [apply H; assumption | apply H in Hr; assumption]
  | |- ((exists th, _ = VVariant _ th /\ _) \/ _) <-> _ =>
      split; intros [[th [Hv Ht]]|[Hn Hr]];
      [ left; exists th; split; [assumption|]; eapply TT_ext; [|eassumption]; intros v'; symmetry; apply H
      | right; split; [assumption|]; first [apply H0; assumption | apply H0 in Hr; assumption]
      | left; exists th; split; [assumption|]; eapply TT_ext; [|eassumption]; intros v'; apply H
      | right; split; [assumption|]; first [apply H0; assumption | apply H0 in Hr; assumption] ]
  end.

(* ------------------------------------------------------------------------------ weakening *)

Lemma V_shift_mut :
  (forall T d1 R d2 dr v, V (shift (List.length d1) T) (d1 ++ R :: d2) dr v <-> V T (d1 ++ d2) dr v) /\
  (forall r d1 R d2 dr fs, Vrows (shift_rows (List.length d1) r) (d1 ++ R :: d2) dr fs <-> Vrows r (d1 ++ d2) dr fs) /\
  (forall e d1 R d2 dr v, Verows (shift_erows (List.length d1) e) (d1 ++ R :: d2) dr v <-> Verows e (d1 ++ d2) dr v).
Proof.
  apply ty_rows_ind; intros; simpl; try tauto; try (congr_cases H H0; fail); try (rows_cases H H0; fail).
  - (* TEnum *) apply H.
  - (* TVar *)
    pose proof (@nth_insert cand d1 d2 R (fun _ => False) n) as Hn.
    destruct (Nat.leb (List.length d1) n) eqn:Hle; simpl; rewrite Hn; tauto.
  - (* TForall *)
    split; intros HV R0; specialize (HV R0); apply (H (R0 :: d1) R d2 dr v); assumption.
  - (* TForallR *)
    split; intros HV R0; specialize (HV R0); apply (H d1 R d2 (R0 :: dr) v); assumption.
Qed.

Lemma V_shift0 : forall T R d dr v, V (shift 0 T) (R :: d) dr v <-> V T d dr v.
Proof. intros. apply (proj1 V_shift_mut T [] R d dr v). Qed.

Lemma Vrows_shift0 : forall r R d dr fs, Vrows (shift_rows 0 r) (R :: d) dr fs <-> Vrows r d dr fs.
Proof. intros. apply (proj1 (proj2 V_shift_mut) r [] R d dr fs). Qed.

Lemma V_shiftR_mut :
  (forall T d dr1 R dr2 v, V (shiftR (List.length dr1) T) d (dr1 ++ R :: dr2) v <-> V T d (dr1 ++ dr2) v) /\
  (forall r d dr1 R dr2 fs, Vrows (shiftR_rows (List.length dr1) r) d (dr1 ++ R :: dr2) fs <-> Vrows r d (dr1 ++ dr2) fs) /\
  (forall e d dr1 R dr2 v, Verows (shiftR_erows (List.length dr1) e) d (dr1 ++ R :: dr2) v <-> Verows e d (dr1 ++ dr2) v).
Proof.
  apply ty_rows_ind; intros; simpl; try tauto; try (congr_cases H H0; fail); try (rows_cases H H0; fail).
  - (* TEnum *) apply H.
  - (* TForall *)
    split; intros HV R0; specialize (HV R0); apply (H (R0 :: d) dr1 R dr2 v); assumption.
  - (* TForallR *)
    split; intros HV R0; specialize (HV R0); apply (H d (R0 :: dr1) R dr2 v); assumption.
  - (* RVar *)
    pose proof (@nth_insert rcand dr1 dr2 R (fun _ => False) n) as Hn.
    destruct (Nat.leb (List.length dr1) n) eqn:Hle; simpl; rewrite Hn; tauto.
Qed.

Lemma V_shiftR0 : forall T R d dr v, V (shiftR 0 T) d (R :: dr) v <-> V T d dr v.
Proof. intros. apply (proj1 V_shiftR_mut T d [] R dr v). Qed.

Lemma Vrows_shiftR0 : forall r R d dr fs, Vrows (shiftR_rows 0 r) d (R :: dr) fs <-> Vrows r d dr fs.
Proof. intros. apply (proj1 (proj2 V_shiftR_mut) r d [] R dr fs). Qed.

(* ---------------------------------------------------------------------------- substitution *)

(* [S'] is the substituted type as seen under the binders crossed so far: it means what [S] meant
   outside.  This invariant is preserved under both kinds of binders by the weakening lemmas. *)
Lemma V_subst_mut : forall S d2 dr2,
  (forall T d1 dr1 S', (forall v, V S' (d1 ++ d2) (dr1 ++ dr2) v <-> V S d2 dr2 v) ->
     forall v, V (subst (List.length d1) S' T) (d1 ++ d2) (dr1 ++ dr2) v
               <-> V T (d1 ++ V S d2 dr2 :: d2) (dr1 ++ dr2) v) /\
  (forall r d1 dr1 S', (forall v, V S' (d1 ++ d2) (dr1 ++ dr2) v <-> V S d2 dr2 v) ->
     forall fs, Vrows (subst_rows (List.length d1) S' r) (d1 ++ d2) (dr1 ++ dr2) fs
                <-> Vrows r (d1 ++ V S d2 dr2 :: d2) (dr1 ++ dr2) fs) /\
  (forall e d1 dr1 S', (forall v, V S' (d1 ++ d2) (dr1 ++ dr2) v <-> V S d2 dr2 v) ->
     forall v, Verows (subst_erows (List.length d1) S' e) (d1 ++ d2) (dr1 ++ dr2) v
               <-> Verows e (d1 ++ V S d2 dr2 :: d2) (dr1 ++ dr2) v).
Proof.
  intros S d2 dr2. apply ty_rows_ind; intros; simpl; try tauto;
    try (specialize (H d1 dr1 S' H1); specialize (H0 d1 dr1 S' H1); first [congr_cases H H0 | rows_cases H H0]; fail);
    try (specialize (H d1 dr1 S' H0); first [congr_cases H H0 | rows_cases H H0]; fail).
  - (* TEnum *) apply H. assumption.
  - (* TVar *)
    destruct (Nat.compare n (List.length d1)) eqn:Hc.
    + apply Nat.compare_eq in Hc. subst n.
      rewrite app_nth2 by lia. rewrite Nat.sub_diag. simpl. apply H.
    + apply Nat.compare_lt_iff in Hc. simpl.
      rewrite (app_nth1 d1 d2) by lia. rewrite (app_nth1 d1 (_ :: d2)) by lia. tauto.
    + apply Nat.compare_gt_iff in Hc. simpl.
      rewrite (app_nth2 d1 d2) by lia. rewrite (app_nth2 d1 (_ :: d2)) by lia.
      replace (n - List.length d1) with (Datatypes.S (pred n - List.length d1)) by lia. simpl. tauto.
  - (* TForall *)
    split; intros HV R0; specialize (HV R0);
      apply (H (R0 :: d1) dr1 (shift 0 S')); try assumption;
      intros v'; simpl; rewrite V_shift0; apply H0.
  - (* TForallR *)
    split; intros HV R0; specialize (HV R0);
      apply (H d1 (R0 :: dr1) (shiftR 0 S')); try assumption;
      intros v'; simpl; rewrite V_shiftR0; apply H0.
Qed.

Lemma V_subst0 : forall T S d dr v, V (subst 0 S T) d dr v <-> V T (V S d dr :: d) dr v.
Proof. intros. apply (proj1 (V_subst_mut S d dr) T [] [] S); intros; tauto. Qed.

Lemma V_substR_mut : forall R d2 dr2,
  (forall T d1 dr1 R', (forall fs, Vrows R' (d1 ++ d2) (dr1 ++ dr2) fs <-> Vrows R d2 dr2 fs) ->
     forall v, V (substR (List.length dr1) R' T) (d1 ++ d2) (dr1 ++ dr2) v
               <-> V T (d1 ++ d2) (dr1 ++ Vrows R d2 dr2 :: dr2) v) /\
  (forall r d1 dr1 R', (forall fs, Vrows R' (d1 ++ d2) (dr1 ++ dr2) fs <-> Vrows R d2 dr2 fs) ->
     forall fs, Vrows (substR_rows (List.length dr1) R' r) (d1 ++ d2) (dr1 ++ dr2) fs
                <-> Vrows r (d1 ++ d2) (dr1 ++ Vrows R d2 dr2 :: dr2) fs) /\
  (forall e d1 dr1 R', (forall fs, Vrows R' (d1 ++ d2) (dr1 ++ dr2) fs <-> Vrows R d2 dr2 fs) ->
     forall v, Verows (substR_erows (List.length dr1) R' e) (d1 ++ d2) (dr1 ++ dr2) v
               <-> Verows e (d1 ++ d2) (dr1 ++ Vrows R d2 dr2 :: dr2) v).
Proof.
  intros R d2 dr2. apply ty_rows_ind; intros; simpl; try tauto;
    try (specialize (H d1 dr1 R' H1); specialize (H0 d1 dr1 R' H1); first [congr_cases H H0 | rows_cases H H0]; fail);
    try (specialize (H d1 dr1 R' H0); first [congr_cases H H0 | rows_cases H H0]; fail).
  - (* TEnum *) apply H. assumption.
  - (* TForall *)
    split; intros HV R0; specialize (HV R0);
      apply (H (R0 :: d1) dr1 (shift_rows 0 R')); try assumption;
      intros fs'; simpl; rewrite Vrows_shift0; apply H0.
  - (* TForallR *)
    split; intros HV R0; specialize (HV R0);
      apply (H d1 (R0 :: dr1) (shiftR_rows 0 R')); try assumption;
      intros fs'; simpl; rewrite Vrows_shiftR0; apply H0.
  - (* RVar *)
    destruct (Nat.compare n (List.length dr1)) eqn:Hc.
    + apply Nat.compare_eq in Hc. subst n.
      rewrite app_nth2 by lia. rewrite Nat.sub_diag. simpl. apply H.
    + apply Nat.compare_lt_iff in Hc. simpl.
      rewrite (app_nth1 dr1 dr2) by lia. rewrite (app_nth1 dr1 (_ :: dr2)) by lia. tauto.
    + apply Nat.compare_gt_iff in Hc. simpl.
      rewrite (app_nth2 dr1 dr2) by lia. rewrite (app_nth2 dr1 (_ :: dr2)) by lia.
      replace (n - List.length dr1) with (Datatypes.S (pred n - List.length dr1)) by lia. simpl. tauto.
Qed.

Lemma V_substR0 : forall T R d dr v, V (substR 0 R T) d dr v <-> V T d (Vrows R d dr :: dr) v.
Proof. intros. apply (proj1 (V_substR_mut R d dr) T [] [] R); intros; tauto. Qed.

(* ------------------------------------------------------------------------------- records *)

Lemma assoc_remove_neq : forall f g (fs : list (string * thunk)),
  String.eqb f g = false -> assoc f (remove_field g fs) = assoc f fs.
Proof.
  intros f g fs Hne. induction fs as [|[h t] fs IH]; simpl; [reflexivity|].
  destruct (String.eqb h g) eqn:Hhg; simpl.
  - apply String.eqb_eq in Hhg. subst h. rewrite Hne. exact IH.
  - destruct (String.eqb f h); [reflexivity|exact IH].
Qed.

Lemma Vrows_lookup : forall r d dr fs f T,
  Vrows r d dr fs -> rows_lookup f r = Some T -> exists t, assoc f fs = Some t /\ TT (V T d dr) t.
Proof.
  induction r as [|g T' r IH|n]; intros d dr fs f T HV Hl; simpl in *; try discriminate.
  destruct HV as [[t [Ha Ht]] Hr].
  destruct (String.eqb f g) eqn:Hfg.
  - apply String.eqb_eq in Hfg. subst. inversion Hl; subst. exists t. split; assumption.
  - destruct (IH d dr _ f T Hr Hl) as [t' [Ha' Ht']]. exists t'. split; [|assumption].
    rewrite <- Ha'. symmetry. apply assoc_remove_neq. assumption.
Qed.

Lemma remove_field_notin : forall f (fs : list (string * thunk)),
  ~ In f (map fst fs) -> remove_field f fs = fs.
Proof.
  intros f fs Hn. induction fs as [|[g t] fs IH]; simpl; [reflexivity|].
  destruct (String.eqb g f) eqn:Hgf.
  - exfalso. apply Hn. left. simpl. apply String.eqb_eq in Hgf. assumption.
  - simpl. f_equal. apply IH. intros Hin. apply Hn. right. assumption.
Qed.

Lemma remove_field_In : forall f ft (fs : list (string * thunk)),
  In ft (remove_field f fs) <-> In ft fs /\ fst ft <> f.
Proof.
  intros f ft fs. unfold remove_field. rewrite filter_In. split; intros [H1 H2]; split; auto.
  - intros Heq. rewrite Heq in H2. rewrite String.eqb_refl in H2. discriminate.
  - destruct (String.eqb (fst ft) f) eqn:Heq; [|reflexivity].
    apply String.eqb_eq in Heq. contradiction.
Qed.

Lemma NoDup_remove_field : forall f (fs : list (string * thunk)),
  NoDup (map fst fs) -> NoDup (map fst (remove_field f fs)).
Proof.
  intros f fs. induction fs as [|[g t] fs IH]; simpl; intros Hnd; [constructor|].
  inversion Hnd; subst. destruct (String.eqb g f); simpl; [apply IH; assumption|].
  constructor; [|apply IH; assumption].
  intros Hin. apply H1. apply in_map_iff in Hin. destruct Hin as [ft [Hfst Hin]].
  apply remove_field_In in Hin. apply in_map_iff. exists ft. tauto.
Qed.

Lemma assoc_In : forall {A} f (fs : list (string * A)) t, assoc f fs = Some t -> In (f, t) fs.
Proof.
  induction fs as [|[g u] fs IH]; simpl; intros t H; [discriminate|].
  destruct (String.eqb f g) eqn:Hfg.
  - apply String.eqb_eq in Hfg. inversion H; subst. left. reflexivity.
  - right. apply IH. assumption.
Qed.

Lemma NoDup_assoc : forall (fs : list (string * thunk)) f t,
  NoDup (map fst fs) -> In (f, t) fs -> assoc f fs = Some t.
Proof.
  induction fs as [|[g u] fs IH]; simpl; intros f t Hnd Hin; [contradiction|].
  inversion Hnd; subst. destruct Hin as [Heq|Hin].
  - inversion Heq; subst. rewrite String.eqb_refl. reflexivity.
  - destruct (String.eqb f g) eqn:Hfg.
    + apply String.eqb_eq in Hfg. subst. exfalso. apply H1. apply in_map_iff. exists (g, t). split; auto.
    + apply IH; assumption.
Qed.

(* --------------------------------------------------------------------------------- enums *)

Lemma Verows_tag : forall e d dr t, erows_lookup t false e = Some None -> Verows e d dr (VTag t).
Proof.
  induction e as [|u e IH|u T e IH]; simpl; intros d dr t H; [discriminate| |].
  - destruct (String.eqb t u) eqn:Heq; simpl in H.
    + apply String.eqb_eq in Heq. subst. left. reflexivity.
    + right. split; [|apply IH; assumption]. simpl. intros Hc. inversion Hc; subst.
      rewrite String.eqb_refl in Heq. discriminate.
  - rewrite andb_false_r in H. right. split; [|apply IH; assumption]. simpl. discriminate.
Qed.

Lemma Verows_variant : forall e d dr t T th,
  erows_lookup t true e = Some (Some T) -> TT (V T d dr) th -> Verows e d dr (VVariant t th).
Proof.
  induction e as [|u e IH|u U e IH]; simpl; intros d dr t T th H Ht; [discriminate| |].
  - rewrite andb_false_r in H. right. split; [|eapply IH; eassumption]. simpl. discriminate.
  - destruct (String.eqb t u) eqn:Heq; simpl in H.
    + apply String.eqb_eq in Heq. subst. inversion H; subst. left. exists th. split; [reflexivity|assumption].
    + right. split; [|eapply IH; eassumption]. simpl. intros Hc. inversion Hc; subst.
      rewrite String.eqb_refl in Heq. discriminate.
Qed.

Lemma Verows_inv : forall e d dr v, Verows e d dr v ->
  (exists t, v = VTag t /\ erows_lookup t false e = Some None) \/
  (exists t th T, v = VVariant t th /\ erows_lookup t true e = Some (Some T) /\ TT (V T d dr) th).
Proof.
  induction e as [|u e IH|u U e IH]; simpl; intros d dr v H; [contradiction| |].
  - destruct H as [->|[Hn Hr]].
    + left. exists u. rewrite String.eqb_refl. split; reflexivity.
    + destruct (IH d dr v Hr) as [[t [-> Hl]]|[t [th [T [-> [Hl Ht]]]]]].
      * left. exists t. split; [reflexivity|]. destruct (String.eqb t u) eqn:Heq; simpl; [|assumption].
        apply String.eqb_eq in Heq. subst. exfalso. apply Hn. reflexivity.
      * right. exists t, th, T. split; [reflexivity|]. split; [|assumption].
        rewrite andb_false_r. assumption.
  - destruct H as [[th [-> Ht]]|[Hn Hr]].
    + right. exists u, th, U. rewrite String.eqb_refl. split; [reflexivity|]. split; [reflexivity|assumption].
    + destruct (IH d dr v Hr) as [[t [-> Hl]]|[t [th [T [-> [Hl Ht]]]]]].
      * left. exists t. split; [reflexivity|]. rewrite andb_false_r. assumption.
      * right. exists t, th, T. split; [reflexivity|]. split; [|assumption].
        destruct (String.eqb t u) eqn:Heq; simpl; [|assumption].
        apply String.eqb_eq in Heq. subst. exfalso. apply Hn. reflexivity.
Qed.
