(* C01 — untyped code: values built exclusively by untyped code ("pure" values) and the lemma that
   evaluating untyped code over such values never raises a dynamic error of *typed* origin.
   This is the interpretation of [Dyn] used by the logical relation. *)
From Coq Require Import List String Bool Arith QArith Lia.
Import ListNotations.
From NV Require Import Types.Syntax Types.Sem.
Close Scope Q_scope.
Open Scope string_scope.
Local Arguments Nat.eqb : simpl never.

Inductive pure_whnf : whnf -> Prop :=
| PW_Num : forall q, pure_whnf (VNum q)
| PW_Str : forall s, pure_whnf (VStr s)
| PW_Bool : forall b, pure_whnf (VBool b)
| PW_Tag : forall t, pure_whnf (VTag t)
| PW_Variant : forall t th, pure_thunk th -> pure_whnf (VVariant t th)
| PW_Clo : forall x b rho, plain b = true -> Forall (fun xt => pure_thunk (snd xt)) rho ->
           pure_whnf (VClo MUntyped x b rho)
| PW_Prim : forall o args, Forall pure_thunk args -> pure_whnf (VPrim o args)
| PW_Arr : forall ts, Forall pure_thunk ts -> pure_whnf (VArr ts)
| PW_Rec : forall fs, Forall (fun ft => pure_thunk (snd ft)) fs -> pure_whnf (VRec fs)
with pure_thunk : thunk -> Prop :=
| PT : forall e rho, plain e = true -> Forall (fun xt => pure_thunk (snd xt)) rho ->
       pure_thunk (Thunk MUntyped e rho).

Definition pure_env (rho : env) : Prop := Forall (fun xt => pure_thunk (snd xt)) rho.

Definition pure_out (o : outcome whnf) : Prop :=
  match o with
  | Ok v => pure_whnf v
  | Err e => safe_err e
  | OutOfFuel => True
  end.

Lemma assoc_Forall : forall {A} (P : A -> Prop) x l a,
  Forall (fun xa => P (snd xa)) l -> assoc x l = Some a -> P a.
Proof.
  induction l as [|[y b] l IH]; simpl; intros a HF Ha; [discriminate|].
  inversion HF; subst. destruct (String.eqb x y).
  - inversion Ha; subst. assumption.
  - eauto.
Qed.

Lemma forallb_Forall_plain : forall es, forallb plain es = true -> Forall (fun e => plain e = true) es.
Proof. intros es H. apply Forall_forall. intros e He. rewrite forallb_forall in H. auto. Qed.

Lemma insert_field_Forall : forall {A} (P : string * A -> Prop) x l,
  P x -> Forall P l -> Forall P (insert_field x l).
Proof.
  induction l as [|y l IH]; simpl; intros Hx Hl; [repeat constructor; assumption|].
  inversion Hl; subst. destruct (str_leb (fst x) (fst y)); constructor; auto.
Qed.

Lemma sort_fields_Forall : forall {A} (P : string * A -> Prop) l,
  Forall P l -> Forall P (sort_fields l).
Proof.
  induction l as [|x l IH]; simpl; intros Hl; [constructor|].
  inversion Hl; subst. apply insert_field_Forall; auto.
Qed.

(* an evaluator for thunks that is good on pure thunks *)
Definition pure_ev (ev : thunk -> outcome whnf) : Prop :=
  forall t, pure_thunk t -> pure_out (ev t).

Ltac pure_step ev H t :=
  let Ht := fresh "Hev" in
  let o := fresh "o" in
  pose proof (H t) as Ht; destruct (ev t) as [?v|?e|] eqn:?; simpl in *; auto.

Ltac ev_pure ev Hev :=
  match goal with
  | Ht : pure_thunk ?a |- context [ev ?a] =>
      let H := fresh "Hp" in
      pose proof (Hev a Ht) as H; destruct (ev a) as [?v|?e|]; simpl in H |- *; auto
  end.

Ltac split_vals :=
  repeat match goal with
  | |- pure_out (match ?v with VNum _ => _ | _ => _ end) => destruct v; simpl; auto
  end.

Lemma delta_pure : forall ev o args,
  pure_ev ev -> Forall pure_thunk args -> pure_out (delta ev MUntyped o args).
Proof.
  intros ev o args Hev Hargs.
  destruct o; simpl;
    repeat match goal with
    | |- pure_out (match ?l with [] => _ | _ :: _ => _ end) => destruct l; simpl; auto
    end;
    repeat match goal with
    | H : Forall pure_thunk (_ :: _) |- _ => inversion H; clear H; subst
    end;
    unfold num2, get_num, get_str, get_arr, get_rec, bind;
    repeat ev_pure ev Hev; split_vals; try (constructor; fail).
  all: try match goal with |- context [Qeq_bool ?y ?z] => destruct (Qeq_bool y z); simpl; auto; constructor end.
  - inversion Hp0; subst.
    destruct (index_of q); simpl; auto.
    destruct (nth_error ts n) eqn:Hn; simpl; auto.
    apply Hev. eapply Forall_forall; [eassumption|]. eapply nth_error_In; eassumption.
  - inversion Hp; inversion Hp0; subst. constructor. apply Forall_app; split; assumption.
  - inversion Hp; subst. constructor. apply Forall_forall. intros t1 Ht. apply in_map_iff in Ht.
    destruct Ht as [t2 [<- Hin]]. constructor; [reflexivity|].
    repeat constructor; simpl; auto.
    eapply Forall_forall; eassumption.
  - destruct v; simpl; auto; destruct v0; simpl; auto; constructor.
  - inversion Hp; subst. constructor. apply Forall_forall. intros t1 Ht. apply in_map_iff in Ht.
    destruct Ht as [ft [<- Hin]]. constructor; [reflexivity|constructor].
  - inversion Hp; subst. constructor. apply Forall_forall. intros t1 Ht. apply in_map_iff in Ht.
    destruct Ht as [ft [<- Hin]].
    pose proof (sort_fields_Forall _ _ H0) as Hs. rewrite Forall_forall in Hs. apply Hs. assumption.
  - inversion Hp0; subst. destruct (assoc s fs) as [t1|] eqn:Ha; simpl; auto.
    apply Hev. eapply (assoc_Forall pure_thunk); eassumption.
Qed.

Lemma wrap_fields_pure : forall r fs fs',
  Forall (fun ft => pure_thunk (snd ft)) fs ->
  wrap_fields MUntyped r fs = Some fs' ->
  Forall (fun ft => pure_thunk (snd ft)) fs'.
Proof.
  induction r as [|f T r IH|n]; simpl; intros fs fs' HF Hw.
  - inversion Hw; subst. constructor.
  - destruct (assoc f fs) as [t|] eqn:Ha; [|discriminate].
    destruct (wrap_fields MUntyped r fs) as [rest|] eqn:Hr; [|discriminate].
    inversion Hw; subst. constructor.
    + simpl. unfold wrap. constructor; [reflexivity|].
      constructor; [|constructor]. simpl.
      eapply (assoc_Forall pure_thunk); eassumption.
    + eapply IH; eauto.
  - discriminate.
Qed.

Lemma cast_whnf_pure : forall T v, pure_whnf v -> pure_out (cast_whnf MUntyped T v).
Proof.
  intros T v Hv. destruct T; simpl; auto;
    destruct v; simpl; auto.
  - (* TArr *)
    inversion Hv; subst. constructor. apply Forall_forall. intros t Ht.
    apply in_map_iff in Ht. destruct Ht as [t0 [<- Hin]]. unfold wrap.
    constructor; [reflexivity|]. constructor; [|constructor]. simpl.
    eapply Forall_forall; eassumption.
  - (* TRec *)
    inversion Hv; subst.
    destruct (forallb _ fs); simpl; auto.
    destruct (wrap_fields MUntyped r fs) as [fs'|] eqn:Hw; simpl; auto.
    constructor. eapply wrap_fields_pure; eauto.
  - (* TDict *)
    inversion Hv; subst. constructor. apply Forall_forall. intros ft Ht.
    apply in_map_iff in Ht. destruct Ht as [ft0 [<- Hin]]. simpl. unfold wrap.
    constructor; [reflexivity|]. constructor; [|constructor]. simpl.
    rewrite Forall_forall in H0. apply (H0 ft0 Hin).
  - (* TEnum, tag *)
    destruct (erows_lookup t false e) as [[T'|]|]; simpl; auto.
  - (* TEnum, variant *)
    inversion Hv; subst.
    destruct (erows_lookup t true e) as [[T'|]|]; simpl; auto.
    constructor. unfold wrap. constructor; [reflexivity|]. constructor; [|constructor]. assumption.
Qed.

Lemma eval_pure : forall n e rho,
  plain e = true -> pure_env rho -> pure_out (eval n MUntyped rho e).
Proof.
  induction n as [|n IH]; intros e rho Hp Hrho; [exact I|].
  assert (Hevt : pure_ev (eval_thunk n)).
  { intros t Ht. inversion Ht; subst. simpl. apply IH; assumption. }
  destruct e; simpl in Hp |- *.
  - (* Var *)
    destruct (assoc x rho) as [[m' e' rho']|] eqn:Ha; simpl; auto.
    pose proof (assoc_Forall pure_thunk _ _ _ Hrho Ha) as Ht. inversion Ht; subst.
    apply IH; assumption.
  - constructor.
  - constructor.
  - constructor.
  - constructor; assumption.
  - (* App *)
    apply andb_true_iff in Hp. destruct Hp as [Hf Ha].
    pose proof (IH e1 rho Hf Hrho) as H1. destruct (eval n MUntyped rho e1) as [v| |]; simpl in *; auto.
    assert (Harg : pure_thunk (Thunk MUntyped e2 rho)) by (constructor; assumption).
    destruct v; simpl; auto.
    + inversion H1; subst. apply IH; [assumption|]. constructor; assumption.
    + inversion H1; subst.
      destruct (Nat.eqb (S (Datatypes.length args)) (arity o)).
      * apply (delta_pure (eval_thunk n)); [exact Hevt|].
        apply Forall_app; split; [assumption|]. constructor; [assumption|constructor].
      * simpl. constructor. apply Forall_app; split; [assumption|]. constructor; [assumption|constructor].
  - (* Let *)
    apply andb_true_iff in Hp. destruct Hp as [H1 H2].
    apply IH; [assumption|]. constructor; [|assumption]. simpl. constructor; assumption.
  - (* If *)
    apply andb_true_iff in Hp. destruct Hp as [Hp H3]. apply andb_true_iff in Hp. destruct Hp as [H1 H2].
    pose proof (IH e1 rho H1 Hrho) as Hc. destruct (eval n MUntyped rho e1) as [v| |]; simpl in *; auto.
    destruct v; simpl; auto. destruct b; apply IH; assumption.
  - (* Arr *)
    constructor. apply Forall_forall. intros t Ht. apply in_map_iff in Ht.
    destruct Ht as [e0 [<- Hin]]. constructor; [|assumption].
    rewrite forallb_forall in Hp. auto.
  - (* Rec *)
    constructor. apply Forall_forall. intros ft Ht. apply in_map_iff in Ht.
    destruct Ht as [fe [<- Hin]]. simpl. constructor; [|assumption].
    rewrite forallb_forall in Hp. auto.
  - (* Proj *)
    pose proof (IH e rho Hp Hrho) as H1. destruct (eval n MUntyped rho e) as [v| |]; simpl in *; auto.
    destruct v; simpl; auto.
    destruct (assoc f fs) as [[m' e' rho']|] eqn:Ha; simpl; auto.
    inversion H1; subst.
    pose proof (assoc_Forall pure_thunk _ _ _ H0 Ha) as Ht. inversion Ht; subst.
    apply IH; assumption.
  - constructor.
  - (* Variant *)
    constructor. constructor; assumption.
  - (* Match *)
    apply andb_true_iff in Hp. destruct Hp as [Hp Hd]. apply andb_true_iff in Hp. destruct Hp as [He Hbs].
    pose proof (IH e rho He Hrho) as H1. destruct (eval n MUntyped rho e) as [v| |]; simpl in *; auto.
    assert (Hdef : pure_out match d with Some b => eval n MUntyped rho b | None => Err (ENonExhaustive MUntyped) end).
    { destruct d; simpl; auto. }
    assert (Hfb : forall t arg x b, find_branch t arg bs = Some (x, b) -> plain b = true).
    { intros t0 arg x b Hf. rewrite forallb_forall in Hbs. clear - Hf Hbs.
      induction bs as [|[[u y] c] bs IHb]; simpl in *; [discriminate|].
      destruct (String.eqb t0 u && Bool.eqb arg match y with Some _ => true | None => false end).
      - inversion Hf; subst. apply (Hbs (u, x, b)). left; reflexivity.
      - apply IHb; auto. }
    destruct v; simpl; auto.
    + destruct (find_branch t false bs) as [[x b]|] eqn:Hf; simpl; auto.
      apply IH; [eapply Hfb; eassumption|assumption].
    + inversion H1; subst.
      destruct (find_branch t true bs) as [[[x|] b]|] eqn:Hf; simpl; auto.
      * apply IH; [eapply Hfb; eassumption|]. constructor; assumption.
      * apply IH; [eapply Hfb; eassumption|assumption].
  - constructor. constructor.
  - discriminate.
  - discriminate.
  - (* Cast *)
    pose proof (IH e rho Hp Hrho) as H1. destruct (eval n MUntyped rho e) as [v| |]; simpl in *; auto.
    apply cast_whnf_pure. assumption.
Qed.

Lemma pure_thunk_out : forall t n, pure_thunk t -> pure_out (eval_thunk n t).
Proof. intros t n Ht. inversion Ht; subst. simpl. apply eval_pure; assumption. Qed.
