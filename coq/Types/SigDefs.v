(* C01 / T0 — vocabulary of the two generated primop tables and the check that relates them.

   [Gen/PrimopSig.v]  (static side)  : for every primitive operation, the argument types and the
     result type the real typechecker assigns to it (obtained by running [typecheck_visit] on
     [fun a0 .. an => %op% a0 .. an] and reading the resolved types of the parameters and of the
     primop application).
   [Gen/PrimopDyn.v]  (dynamic side) : for every primitive operation and every vector of run-time
     kinds, what the real interpreter did on representatives of those kinds.

   Only definitions here (no proofs), so that the generated files depend on nothing else. *)
From Coq Require Import List String Bool.
Import ListNotations.
Open Scope string_scope.

(* Run-time kinds of values, as [typeof]/the primop dispatch distinguishes them. *)
Inductive kind :=
| KNum | KStr | KBool | KNull | KArr | KRec | KFun | KTag | KVariant | KLabel | KType | KCustom
| KSealKey | KForeign.

Definition kind_eqb (a b : kind) : bool :=
  match a, b with
  | KNum, KNum | KStr, KStr | KBool, KBool | KNull, KNull | KArr, KArr | KRec, KRec
  | KFun, KFun | KTag, KTag | KVariant, KVariant | KLabel, KLabel | KType, KType
  | KCustom, KCustom | KSealKey, KSealKey | KForeign, KForeign => true
  | _, _ => false
  end.

(* The kinds that have a representative writable in Nickel source (sealing keys and foreign ids
   have none: they only arise inside the interpreter). *)
Definition repr_kinds : list kind :=
  [KNum; KStr; KBool; KNull; KArr; KRec; KFun; KTag; KVariant; KLabel; KType; KCustom].

(* Static types as printed by the harness (resolved through the unification table). *)
Inductive stail := TClosed | TDynTail | TVarTail (x : string).

Inductive sty :=
| SDyn | SNum | SBool | SStr | SSym | SForeign | SContract | SWild
| SVar (x : string)
| SArr (t : sty)
| SFun (a b : sty)
| SDict (t : sty)
| SRec (rows : list (string * sty)) (tail : stail)
| SEnum (rows : list (string * option sty)) (tail : stail)
| SForall (x : string) (t : sty).

Definition tail_open (t : stail) : bool :=
  match t with TClosed => false | _ => true end.

Definition has_bare_row (rows : list (string * option sty)) : bool :=
  existsb (fun r => match snd r with None => true | Some _ => false end) rows.
Definition has_arg_row (rows : list (string * option sty)) : bool :=
  existsb (fun r => match snd r with None => false | Some _ => true end) rows.

(* [inhabits k T]: can a value of run-time kind [k] have static type [T]?  [Dyn], type variables
   (unification variables left free by the primop's type, i.e. its polymorphism), opaque contract
   types and wildcards admit every kind. *)
Fixpoint inhabits (k : kind) (T : sty) : bool :=
  match T with
  | SDyn | SContract | SWild | SVar _ => true
  | SNum => kind_eqb k KNum
  | SBool => kind_eqb k KBool
  | SStr => kind_eqb k KStr
  | SSym => kind_eqb k KSealKey
  | SForeign => kind_eqb k KForeign
  | SArr _ => kind_eqb k KArr
  | SFun _ _ => kind_eqb k KFun
  | SDict _ | SRec _ _ => kind_eqb k KRec
  | SEnum rows tail =>
      (kind_eqb k KTag && (has_bare_row rows || tail_open tail))
      || (kind_eqb k KVariant && (has_arg_row rows || tail_open tail))
  | SForall _ t => inhabits k t
  end.

(* [s_args]: the operands the primop forces; [s_lazy]: the further (lazy) operands, i.e. the domains
   of the arrows of the primop's result type; [s_res]: the final codomain. *)
Record sig_row := { s_name : string; s_args : list sty; s_lazy : list sty; s_res : sty }.

(* What the interpreter did on the representatives of one kind vector: the error classes seen
   (canonical class names of harness/src/eval.rs) and the kinds of the results seen. *)
Record dres := { d_errs : list string; d_kinds : list kind }.

Definition dyn_row := (list kind * dres)%type.
Definition dyn_table_t := list (string * list dyn_row).

Fixpoint kinds_eqb (a b : list kind) : bool :=
  match a, b with
  | [], [] => true
  | x :: a', y :: b' => kind_eqb x y && kinds_eqb a' b'
  | _, _ => false
  end.

Fixpoint lookup_rows (ks : list kind) (rows : list dyn_row) : option dres :=
  match rows with
  | [] => None
  | (ks', d) :: rest => if kinds_eqb ks ks' then Some d else lookup_rows ks rest
  end.

Fixpoint lookup_op (name : string) (t : dyn_table_t) : option (list dyn_row) :=
  match t with
  | [] => None
  | (n, rows) :: rest => if String.eqb name n then Some rows else lookup_op name rest
  end.

Definition lookup_dyn (t : dyn_table_t) (name : string) (ks : list kind) : option dres :=
  match lookup_op name t with
  | Some rows => lookup_rows ks rows
  | None => None
  end.

Definition mem_str (s : string) (l : list string) : bool := existsb (String.eqb s) l.

(* Error classes that are dynamic type errors whatever the primop.  [FieldMissing] is one for the
   static access [record/access] (the record type promised the field); for the dictionary
   primops a missing key is a value-dependent precondition.
   [Panic] (a caught Rust panic) and [Crash] (the interpreter process aborted, e.g. a native stack
   overflow) are failures of another property (C10: never a crash) and are value-dependent in the
   cases seen; they are reported in the evidence but are not dynamic *type* errors.
   [ShapeMismatch]: the interpreter returned a value whose *deep* shape does not inhabit the static
   result type (a record field or enum case the type promised is missing, an element of the wrong
   kind): checked by the translator on every result of an inhabiting operand vector. *)
Definition type_error_classes : list string :=
  ["TypeErr"; "NotAFunc"; "NonExhaustive"; "UnboundId"; "Internal"; "NotEnoughArgs"; "Unreadable";
   "ShapeMismatch"].

Definition bad_class (op : string) (c : string) : bool :=
  mem_str c type_error_classes || (String.eqb c "FieldMissing" && String.eqb op "record/access").

Definition dres_ok (op : string) (res : sty) (d : dres) : bool :=
  negb (existsb (bad_class op) d.(d_errs)) && forallb (fun k => inhabits k res) d.(d_kinds).

(* All kind vectors (over the representable kinds) that inhabit the argument types. *)
Fixpoint vectors_for (args : list sty) : list (list kind) :=
  match args with
  | [] => [[]]
  | T :: rest =>
      let tl := vectors_for rest in
      flat_map (fun k => map (cons k) tl) (filter (fun k => inhabits k T) repr_kinds)
  end.

Definition row_ok (exempt : list string) (t : dyn_table_t) (r : sig_row) : bool :=
  mem_str r.(s_name) exempt
  || forallb (fun ks => match lookup_dyn t r.(s_name) ks with
                        | Some d => dres_ok r.(s_name) r.(s_res) d
                        | None => false
                        end) (vectors_for r.(s_args)).

Definition table_ok (exempt : list string) (s : list sig_row) (t : dyn_table_t) : bool :=
  forallb (row_ok exempt t) s.

(* Primitive operations whose static type is deliberately looser than their run-time dispatch:
   the type system has no type for labels, contracts and sealing keys, so the typechecker gives
   these internal operations [Dyn] ("Morally: Label -> Label; Actual: Dyn -> Dyn" in
   core/src/typecheck/operation.rs).  They are not reachable from the surface syntax of typed
   blocks except by writing the %primop% itself.  Each entry is witnessed by a failing kind vector
   in the generated table (reported in the evidence, not required: an entry that stops failing is
   an improvement of the code, not a violation). *)
Definition exempt_ops : list string :=
  [ "blame"; "label/flip_polarity"; "label/polarity"; "label/go_dom"; "label/go_codom";
    "label/go_array"; "label/go_dict"; "label/go_field"; "label/push_diag"; "label/with_message";
    "label/with_notes"; "label/append_note"; "label/with_error_data";
    "label/lookup_type_variable"; "label/insert_type_variable";
    "contract/apply"; "contract/check"; "contract/custom"; "contract/array_lazy_apply";
    "contract/record_lazy_apply"; "record/merge_contract";
    "seal"; "unseal"; "record/seal_tail"; "record/unseal_tail"; "record/empty_with_tail";
    "enum/get_arg"; "enum/get_tag" ].
