(* C01 — fuel-indexed call-by-name big-step evaluator with run-time kinds for the typed fragment.
   Every dynamic error records whether the failing redex lies (lexically) in typed or in untyped
   code.  Definitions only. *)
From Coq Require Import List String Bool Arith ZArith QArith.
Import ListNotations.
From NV Require Import Types.Syntax.
Close Scope Q_scope.
Open Scope string_scope.

Inductive mode := MTyped | MUntyped.

(* Values in weak head normal form.  Thunks are unevaluated terms closed by their environment
   (call by name; nothing is memoised, evaluation is pure and deterministic). *)
Inductive whnf :=
| VNum (q : Q)
| VStr (s : string)
| VBool (b : bool)
| VClo (m : mode) (x : string) (b : tm) (rho : list (string * thunk))
| VPrim (o : prim) (args : list thunk)         (* partially applied primitive *)
| VArr (ts : list thunk)
| VRec (fs : list (string * thunk))
| VTag (t : string)
| VVariant (t : string) (arg : thunk)
with thunk :=
| Thunk (m : mode) (e : tm) (rho : list (string * thunk)).

Definition env := list (string * thunk).

Inductive err :=
| ETypeErr (m : mode)          (* operand of the wrong kind *)
| ENotAFunc (m : mode)         (* applying a non-function *)
| EFieldMissing (m : mode)     (* static access to a missing field *)
| ENonExhaustive (m : mode)    (* no match arm for the scrutinee *)
| EUnbound (m : mode)          (* unbound identifier *)
| EBlame                       (* a [Cast] blames its subject *)
| EDivByZero
| EIndex                       (* array index out of bounds / not a natural number *)
| EKeyMissing                  (* dictionary key not present (std.record.get) *)
| EIncomparable                (* == on functions *)
| EUnmodelled.                 (* behaviour outside the model (e.g. == on arrays) *)

Inductive outcome (A : Type) :=
| Ok (a : A)
| Err (e : err)
| OutOfFuel.
Arguments Ok {A} a.
Arguments Err {A} e.
Arguments OutOfFuel {A}.

Definition bind {A B} (o : outcome A) (f : A -> outcome B) : outcome B :=
  match o with Ok a => f a | Err e => Err e | OutOfFuel => OutOfFuel end.

(* ------------------------------------------------------------------------ primitive operations *)

(* fields sorted by name (byte order), as record/fields and record/values do *)
Definition str_leb (a b : string) : bool :=
  match String.compare a b with Gt => false | _ => true end.

Fixpoint insert_field {A} (x : string * A) (l : list (string * A)) : list (string * A) :=
  match l with
  | [] => [x]
  | y :: l' => if str_leb (fst x) (fst y) then x :: l else y :: insert_field x l'
  end.

Fixpoint sort_fields {A} (l : list (string * A)) : list (string * A) :=
  match l with
  | [] => []
  | x :: l' => insert_field x (sort_fields l')
  end.


Section Delta.
  Variable ev : thunk -> outcome whnf.

  Definition get_num (m : mode) (t : thunk) (k : Q -> outcome whnf) : outcome whnf :=
    match ev t with
    | Ok (VNum q) => k q
    | Ok _ => Err (ETypeErr m)
    | Err e => Err e
    | OutOfFuel => OutOfFuel
    end.

  Definition get_str (m : mode) (t : thunk) (k : string -> outcome whnf) : outcome whnf :=
    match ev t with
    | Ok (VStr s) => k s
    | Ok _ => Err (ETypeErr m)
    | Err e => Err e
    | OutOfFuel => OutOfFuel
    end.

  Definition get_arr (m : mode) (t : thunk) (k : list thunk -> outcome whnf) : outcome whnf :=
    match ev t with
    | Ok (VArr ts) => k ts
    | Ok _ => Err (ETypeErr m)
    | Err e => Err e
    | OutOfFuel => OutOfFuel
    end.

  Definition get_rec (m : mode) (t : thunk) (k : list (string * thunk) -> outcome whnf) : outcome whnf :=
    match ev t with
    | Ok (VRec fs) => k fs
    | Ok _ => Err (ETypeErr m)
    | Err e => Err e
    | OutOfFuel => OutOfFuel
    end.

  (* both operands are evaluated (left first) before their kinds are checked, as the interpreter does *)
  Definition num2 (m : mode) (a b : thunk) (k : Q -> Q -> outcome whnf) : outcome whnf :=
    bind (ev a) (fun va => bind (ev b) (fun vb =>
      match va, vb with
      | VNum x, VNum y => k x y
      | _, _ => Err (ETypeErr m)
      end)).

  Definition index_of (q : Q) : option nat :=
    let q' := Qred q in
    match Qden q', Qnum q' with
    | xH, Z0 => Some 0
    | xH, Zpos p => Some (Pos.to_nat p)
    | _, _ => None
    end.

  Definition eq_base (m : mode) (va vb : whnf) : outcome whnf :=
    match va, vb with
    | VNum x, VNum y => Ok (VBool (Qeq_bool x y))
    | VStr x, VStr y => Ok (VBool (String.eqb x y))
    | VBool x, VBool y => Ok (VBool (Bool.eqb x y))
    | VTag x, VTag y => Ok (VBool (String.eqb x y))
    | VClo _ _ _ _, _ | _, VClo _ _ _ _ | VPrim _ _, _ | _, VPrim _ _ => Err EIncomparable
    | VArr _, VArr _ | VRec _, VRec _ | VVariant _ _, VVariant _ _ => Err EUnmodelled
    | _, _ => Ok (VBool false)
    end.

  (* [args] has exactly [arity o] elements when this is called *)
  Definition delta (m : mode) (o : prim) (args : list thunk) : outcome whnf :=
    match o, args with
    | PAdd, [a; b] => num2 m a b (fun x y => Ok (VNum (Qred (x + y)%Q)))
    | PSub, [a; b] => num2 m a b (fun x y => Ok (VNum (Qred (x - y)%Q)))
    | PMul, [a; b] => num2 m a b (fun x y => Ok (VNum (Qred (x * y)%Q)))
    | PDiv, [a; b] => num2 m a b (fun x y =>
                        if Qeq_bool y 0%Q then Err EDivByZero else Ok (VNum (Qred (x / y)%Q)))
    | PLt, [a; b] => num2 m a b (fun x y => Ok (VBool (negb (Qle_bool y x))))
    | PLe, [a; b] => num2 m a b (fun x y => Ok (VBool (Qle_bool x y)))
    | PGt, [a; b] => num2 m a b (fun x y => Ok (VBool (negb (Qle_bool x y))))
    | PGe, [a; b] => num2 m a b (fun x y => Ok (VBool (Qle_bool y x)))
    | PNot, [a] => match ev a with
                   | Ok (VBool b) => Ok (VBool (negb b))
                   | Ok _ => Err (ETypeErr m)
                   | Err e => Err e
                   | OutOfFuel => OutOfFuel
                   end
    | PConcat, [a; b] =>
        bind (ev a) (fun va => bind (ev b) (fun vb =>
          match va, vb with
          | VStr x, VStr y => Ok (VStr (x ++ y))
          | _, _ => Err (ETypeErr m)
          end))
    | PStrLen, [a] => get_str m a (fun s => Ok (VNum (inject_Z (Z.of_nat (String.length s)))))
    | PArrLen, [a] => get_arr m a (fun ts => Ok (VNum (inject_Z (Z.of_nat (List.length ts)))))
    | PArrAt, [i; a] =>
        get_num m i (fun q => get_arr m a (fun ts =>
          match index_of q with
          | Some k => match nth_error ts k with Some t => ev t | None => Err EIndex end
          | None => Err EIndex
          end))
    | PArrCat, [a; b] =>
        bind (ev a) (fun va => bind (ev b) (fun vb =>
          match va, vb with
          | VArr x, VArr y => Ok (VArr (x ++ y))
          | _, _ => Err (ETypeErr m)
          end))
    | PArrMap, [f; a] =>
        get_arr m a (fun ts =>
          Ok (VArr (map (fun t => Thunk m (App (Var "f") (Var "x")) [("f", f); ("x", t)]) ts)))
    | PEq, [a; b] => bind (ev a) (fun va => bind (ev b) (fun vb => eq_base m va vb))
    | PRecFields, [a] =>
        get_rec m a (fun fs => Ok (VArr (map (fun ft => Thunk m (Str (fst ft)) []) (sort_fields fs))))
    | PRecValues, [a] => get_rec m a (fun fs => Ok (VArr (map snd (sort_fields fs))))
    | PRecHas, [k; a] =>
        get_str m k (fun s => get_rec m a (fun fs =>
          Ok (VBool (match assoc s fs with Some _ => true | None => false end))))
    | PRecGet, [k; a] =>
        get_str m k (fun s => get_rec m a (fun fs =>
          match assoc s fs with Some t => ev t | None => Err EKeyMissing end))
    | _, _ => Err EUnmodelled
    end.
End Delta.

(* --------------------------------------------------------------------------------- contracts *)

(* [cast_whnf m T v]: the immediate part of the contract for first-order [T] on a value in whnf;
   the elements of arrays and the fields of records are wrapped lazily, as the real array and
   record contracts do. *)
Definition wrap (m : mode) (T : ty) (t : thunk) : thunk :=
  Thunk m (Cast (Var "x") T) [("x", t)].

Fixpoint wrap_fields (m : mode) (r : rows) (fs : list (string * thunk)) : option (list (string * thunk)) :=
  match r with
  | RNil => Some []
  | RVar _ => None
  | RCons f T r' =>
      match assoc f fs, wrap_fields m r' fs with
      | Some t, Some rest => Some ((f, wrap m T t) :: rest)
      | _, _ => None
      end
  end.

Definition cast_whnf (m : mode) (T : ty) (v : whnf) : outcome whnf :=
  match T, v with
  | TDyn, _ => Ok v
  | TNum, VNum _ | TStr, VStr _ | TBool, VBool _ => Ok v
  | TEnum e, VTag t => match erows_lookup t false e with Some None => Ok v | _ => Err EBlame end
  | TEnum e, VVariant t th => match erows_lookup t true e with
                              | Some (Some T') => Ok (VVariant t (wrap m T' th))
                              | _ => Err EBlame
                              end
  | TArr T', VArr ts => Ok (VArr (map (wrap m T') ts))
  | TRec r, VRec fs =>
      (* closed record contract: exactly the declared fields *)
      if forallb (fun fe => existsb (String.eqb (fst fe)) (rows_fields r)) fs
      then match wrap_fields m r fs with Some fs' => Ok (VRec fs') | None => Err EBlame end
      else Err EBlame
  | TDict T', VRec fs => Ok (VRec (map (fun ft => (fst ft, wrap m T' (snd ft))) fs))
  | TFun _ _, _ | TVar _, _ | TForall _, _ | TForallR _, _ => Err EUnmodelled
  | _, _ => Err EBlame
  end.

(* --------------------------------------------------------------------------------- evaluator *)

Definition apply_with (ev : mode -> env -> tm -> outcome whnf) (m : mode) (v : whnf) (t : thunk)
  : outcome whnf :=
  match v with
  | VClo m' x b rho' => ev m' ((x, t) :: rho') b
  | VPrim o args =>
      if Nat.eqb (S (List.length args)) (arity o)
      then delta (fun t => match t with Thunk m' e' rho' => ev m' rho' e' end) m o (args ++ [t])
      else Ok (VPrim o (args ++ [t]))
  | _ => Err (ENotAFunc m)
  end.

Fixpoint eval (n : nat) (m : mode) (rho : env) (e : tm) : outcome whnf :=
  match n with
  | 0 => OutOfFuel
  | S n' =>
      match e with
      | Var x => match assoc x rho with
                 | Some (Thunk m' e' rho') => eval n' m' rho' e'
                 | None => Err (EUnbound m)
                 end
      | Num q => Ok (VNum q)
      | Str s => Ok (VStr s)
      | Bool b => Ok (VBool b)
      | Lam x b => Ok (VClo m x b rho)
      | App f a => match eval n' m rho f with
                   | Ok v => apply_with (eval n') m v (Thunk m a rho)
                   | Err e => Err e
                   | OutOfFuel => OutOfFuel
                   end
      | Let x e1 b => eval n' m ((x, Thunk m e1 rho) :: rho) b
      | If c t e2 => match eval n' m rho c with
                     | Ok (VBool true) => eval n' m rho t
                     | Ok (VBool false) => eval n' m rho e2
                     | Ok _ => Err (ETypeErr m)
                     | Err e => Err e
                     | OutOfFuel => OutOfFuel
                     end
      | Arr es => Ok (VArr (map (fun e => Thunk m e rho) es))
      | Rec fs => Ok (VRec (map (fun fe => (fst fe, Thunk m (snd fe) rho)) fs))
      | Proj e1 f => match eval n' m rho e1 with
                     | Ok (VRec fs) => match assoc f fs with
                                       | Some (Thunk m' e' rho') => eval n' m' rho' e'
                                       | None => Err (EFieldMissing m)
                                       end
                     | Ok _ => Err (ETypeErr m)
                     | Err e => Err e
                     | OutOfFuel => OutOfFuel
                     end
      | Tag t => Ok (VTag t)
      | Variant t e1 => Ok (VVariant t (Thunk m e1 rho))
      | Match e1 bs d => match eval n' m rho e1 with
                         | Ok (VTag t) => match find_branch t false bs with
                                          | Some (_, b) => eval n' m rho b
                                          | None => match d with
                                                    | Some b => eval n' m rho b
                                                    | None => Err (ENonExhaustive m)
                                                    end
                                          end
                         | Ok (VVariant t th) =>
                             match find_branch t true bs with
                             | Some (Some x, b) => eval n' m ((x, th) :: rho) b
                             | Some (None, b) => eval n' m rho b
                             | None => match d with
                                       | Some b => eval n' m rho b
                                       | None => Err (ENonExhaustive m)
                                       end
                             end
                         | Ok _ => match d with
                                   | Some b => eval n' m rho b
                                   | None => Err (ENonExhaustive m)
                                   end
                         | Err e => Err e
                         | OutOfFuel => OutOfFuel
                         end
      | Prim o => Ok (VPrim o [])
      | AnnT e1 _ => eval n' m rho e1
      | Untyped u => eval n' MUntyped [] u
      | Cast e1 T => match eval n' m rho e1 with
                     | Ok v => cast_whnf m T v
                     | Err e => Err e
                     | OutOfFuel => OutOfFuel
                     end
      end
  end.

Definition eval_thunk (n : nat) (t : thunk) : outcome whnf :=
  match t with Thunk m e rho => eval n m rho e end.

(* ------------------------------------------------------------------------- deep evaluation *)

Inductive dval :=
| DNum (q : Q) | DStr (s : string) | DBool (b : bool) | DTag (t : string)
| DArr (l : list dval) | DRec (l : list (string * dval)) | DFun | DVariant (t : string) (d : dval).

Section Force.
  Variable force : whnf -> outcome dval.
  Variable evt : thunk -> outcome whnf.

  Fixpoint force_list (ts : list thunk) : outcome (list dval) :=
    match ts with
    | [] => Ok []
    | t :: ts' => bind (evt t) (fun v => bind (force v) (fun d =>
                  bind (force_list ts') (fun ds => Ok (d :: ds))))
    end.

  Fixpoint force_fields (fs : list (string * thunk)) : outcome (list (string * dval)) :=
    match fs with
    | [] => Ok []
    | (f, t) :: fs' => bind (evt t) (fun v => bind (force v) (fun d =>
                       bind (force_fields fs') (fun ds => Ok ((f, d) :: ds))))
    end.
End Force.

Fixpoint force (n : nat) (v : whnf) : outcome dval :=
  match n with
  | 0 => OutOfFuel
  | S n' =>
      match v with
      | VNum q => Ok (DNum q)
      | VStr s => Ok (DStr s)
      | VBool b => Ok (DBool b)
      | VTag t => Ok (DTag t)
      | VClo _ _ _ _ | VPrim _ _ => Ok DFun
      | VArr ts => bind (force_list (force n') (eval_thunk n') ts) (fun ds => Ok (DArr ds))
      | VRec fs => bind (force_fields (force n') (eval_thunk n') fs) (fun ds => Ok (DRec ds))
      | VVariant t th => bind (eval_thunk n' th) (fun v' => bind (force n' v') (fun d => Ok (DVariant t d)))
      end
  end.

(* Whole programs are typed blocks: evaluation starts in typed mode, then forces the result. *)
Definition run (n : nat) (e : tm) : outcome dval :=
  bind (eval n MTyped [] e) (force n).

(* ------------------------------------------------------------------------------- the property *)

Definition safe_err (e : err) : Prop :=
  match e with
  | ETypeErr MTyped | ENotAFunc MTyped | EFieldMissing MTyped | ENonExhaustive MTyped | EUnbound MTyped => False
  | _ => True
  end.

Definition safe_outcome {A} (o : outcome A) : Prop :=
  match o with
  | Err e => safe_err e
  | _ => True
  end.
