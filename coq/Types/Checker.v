(* C01 — an executable derivation checker: terms in which every node carries the type information
   the declarative rules need (binder types, instantiations, element types).  Definitions only;
   soundness ([infer] succeeds => the erased term is declaratively typable) is in CheckerSound.v. *)
From Coq Require Import List String Bool Arith QArith.
Import ListNotations.
From NV Require Import Types.Syntax Types.Decl.
Close Scope Q_scope.
Open Scope string_scope.

Fixpoint tags_eqb (a b : list string) : bool :=
  match a, b with
  | [], [] => true
  | x :: a', y :: b' => String.eqb x y && tags_eqb a' b'
  | _, _ => false
  end.

Definition opt_str_eqb (a b : option string) : bool :=
  match a, b with
  | None, None => true
  | Some x, Some y => String.eqb x y
  | _, _ => false
  end.

Fixpoint ty_eqb (a b : ty) : bool :=
  match a, b with
  | TDyn, TDyn | TNum, TNum | TStr, TStr | TBool, TBool => true
  | TArr x, TArr y => ty_eqb x y
  | TFun x1 x2, TFun y1 y2 => ty_eqb x1 y1 && ty_eqb x2 y2
  | TRec r, TRec s => rows_eqb r s
  | TDict x, TDict y => ty_eqb x y
  | TEnum x, TEnum y => erows_eqb x y
  | TVar n, TVar m => Nat.eqb n m
  | TForall x, TForall y => ty_eqb x y
  | TForallR x, TForallR y => ty_eqb x y
  | _, _ => false
  end
with rows_eqb (r s : rows) : bool :=
  match r, s with
  | RNil, RNil => true
  | RCons f t r', RCons g u s' => String.eqb f g && ty_eqb t u && rows_eqb r' s'
  | RVar n, RVar m => Nat.eqb n m
  | _, _ => false
  end
with erows_eqb (r s : erows) : bool :=
  match r, s with
  | ENil, ENil => true
  | EBare t r', EBare u s' => String.eqb t u && erows_eqb r' s'
  | EArg t A r', EArg u B s' => String.eqb t u && ty_eqb A B && erows_eqb r' s'
  | _, _ => false
  end.

(* decision procedure for the subtyping relation of Decl.v *)
Fixpoint subb (a b : ty) {struct a} : bool :=
  ty_eqb a b ||
  match a, b with
  | TRec r, TDict u => rows_all_subb r u
  | TArr x, TArr y => subb x y
  | TDict x, TDict y => subb x y
  | TRec r, TRec s => rows_subb r s
  | _, _ => false
  end
with rows_all_subb (r : rows) (u : ty) {struct r} : bool :=
  match r with
  | RNil => true
  | RCons _ t r' => subb t u && rows_all_subb r' u
  | RVar _ => false
  end
with rows_subb (r s : rows) {struct r} : bool :=
  match r, s with
  | RNil, RNil => true
  | RCons f t r', RCons g u s' => String.eqb f g && subb t u && rows_subb r' s'
  | RVar n, RVar m => Nat.eqb n m
  | _, _ => false
  end.

(* instantiation arguments: a type for a type quantifier, rows for a row quantifier *)
Inductive targ := ITy (T : ty) | IRow (R : rows).

Fixpoint nodupb (l : list string) : bool :=
  match l with
  | [] => true
  | x :: l' => negb (existsb (String.eqb x) l') && nodupb l'
  end.

Inductive atm :=
| AVar (x : string) (insts : list targ)      (* the variable, instantiated (outermost quantifier first) *)
| ANum (q : Q)
| AStr (s : string)
| ABool (b : bool)
| ALam (x : string) (A : ty) (b : atm)
| AApp (f a : atm)
| ALet (x : string) (ks : list bool) (e b : atm)   (* generalise over e: one quantifier per element,
                                                    outermost first; true = row variable *)
| AIf (c t e : atm)
| AArr (T : ty) (es : list atm)
| ARec (fs : list (string * atm))
| AProj (e : atm) (f : string)
| ATag (t : string) (r : erows)                 (* the enum type the tag is used at *)
| AVariant (t : string) (e : atm) (r : erows)
| AMatch (e : atm) (T : ty) (bs : list (string * option string * atm)) (d : option atm)   (* T: the result type *)
| APrim (o : prim) (insts : list targ)
| AAnnT (e : atm) (T : ty)
| AUntyped (u : tm)
| ACast (e : atm) (T : ty)
| ASub (e : atm) (T : ty).                  (* subsumption: e's type is a subtype of T *)

Fixpoint erase (a : atm) : tm :=
  match a with
  | AVar x _ => Var x
  | ANum q => Num q
  | AStr s => Str s
  | ABool b => Bool b
  | ALam x _ b => Lam x (erase b)
  | AApp f a => App (erase f) (erase a)
  | ALet x _ e b => Let x (erase e) (erase b)
  | AIf c t e => If (erase c) (erase t) (erase e)
  | AArr _ es => Arr (map erase es)
  | ARec fs => Rec (map (fun fe => (fst fe, erase (snd fe))) fs)
  | AProj e f => Proj (erase e) f
  | ATag t _ => Tag t
  | AVariant t e _ => Variant t (erase e)
  | AMatch e _ bs d => Match (erase e) (map (fun b => (fst b, erase (snd b))) bs)
                         (match d with Some b => Some (erase b) | None => None end)
  | APrim o _ => Prim o
  | AAnnT e T => AnnT (erase e) T
  | AUntyped u => Untyped u
  | ACast e T => Cast (erase e) T
  | ASub e _ => erase e
  end.

Fixpoint inst (T : ty) (insts : list targ) : option ty :=
  match insts with
  | [] => Some T
  | ITy S0 :: rest => match T with
                      | TForall T' => inst (subst 0 S0 T') rest
                      | _ => None
                      end
  | IRow R :: rest => match T with
                      | TForallR T' => inst (substR 0 R T') rest
                      | _ => None
                      end
  end.

(* the context under the quantifiers [ks] (outermost first) *)
Fixpoint ctx_under (ks : list bool) (G : ctx) : ctx :=
  match ks with
  | [] => G
  | false :: ks' => ctx_under ks' (shift_ctx G)
  | true :: ks' => ctx_under ks' (shiftR_ctx G)
  end.

Fixpoint foralls (ks : list bool) (T : ty) : ty :=
  match ks with
  | [] => T
  | false :: ks' => TForall (foralls ks' T)
  | true :: ks' => TForallR (foralls ks' T)
  end.

(* every row of [e] has an arm of the right shape *)
Fixpoint exhaustive (e : erows) (bs : list (string * option string * unit)) : bool :=
  match e with
  | ENil => true
  | EBare t e' => (match find_branch t false bs with Some _ => true | None => false end) && exhaustive e' bs
  | EArg t _ e' => (match find_branch t true bs with Some _ => true | None => false end) && exhaustive e' bs
  end.

Section Infer.
  Variable Sg : sigma.

  Fixpoint infer (G : ctx) (a : atm) {struct a} : option ty :=
    match a with
    | AVar x insts => match assoc x G with Some T => inst T insts | None => None end
    | ANum _ => Some TNum
    | AStr _ => Some TStr
    | ABool _ => Some TBool
    | ALam x A b => match infer ((x, A) :: G) b with Some B => Some (TFun A B) | None => None end
    | AApp f a1 =>
        match infer G f, infer G a1 with
        | Some (TFun A B), Some A' => if ty_eqb A A' then Some B else None
        | _, _ => None
        end
    | ALet x ks e b =>
        match infer (ctx_under ks G) e with
        | Some T => infer ((x, foralls ks T) :: G) b
        | None => None
        end
    | AIf c t e =>
        match infer G c, infer G t, infer G e with
        | Some TBool, Some T1, Some T2 => if ty_eqb T1 T2 then Some T1 else None
        | _, _, _ => None
        end
    | AArr T es =>
        if (fix all (es : list atm) : bool :=
              match es with
              | [] => true
              | e :: es' => match infer G e with
                            | Some T' => ty_eqb T T' && all es'
                            | None => false
                            end
              end) es
        then Some (TArr T) else None
    | ARec fs =>
        match (fix rows_of (fs : list (string * atm)) : option rows :=
                 match fs with
                 | [] => Some RNil
                 | (f, e) :: fs' => match infer G e, rows_of fs' with
                                    | Some T, Some r => Some (RCons f T r)
                                    | _, _ => None
                                    end
                 end) fs with
        | Some r => if nodupb (map fst fs) then Some (TRec r) else None
        | None => None
        end
    | AProj e f => match infer G e with
                   | Some (TRec r) => rows_lookup f r
                   | _ => None
                   end
    | ATag t r => match erows_lookup t false r with Some None => Some (TEnum r) | _ => None end
    | AVariant t e r =>
        match erows_lookup t true r, infer G e with
        | Some (Some A), Some A' => if ty_eqb A A' then Some (TEnum r) else None
        | _, _ => None
        end
    | AMatch e T bs d =>
        match infer G e with
        | Some (TEnum r) =>
            if (fix all (bs : list (string * option string * atm)) : bool :=
                  match bs with
                  | [] => true
                  | (t, None, b) :: bs' => match infer G b with
                                           | Some T' => ty_eqb T T' && all bs'
                                           | None => false
                                           end
                  | (t, Some x, b) :: bs' =>
                      match erows_lookup t true r with
                      | Some (Some A) => match infer ((x, A) :: G) b with
                                         | Some T' => ty_eqb T T' && all bs'
                                         | None => false
                                         end
                      | _ => false
                      end
                  end) bs
            then match d with
                 | Some b => match infer G b with
                             | Some T' => if ty_eqb T T' then Some T else None
                             | None => None
                             end
                 | None => if exhaustive r (map (fun b => (fst b, tt)) bs) then Some T else None
                 end
            else None
        | _ => None
        end
    | APrim o insts => match Sg o with Some T => inst T insts | None => None end
    | AAnnT e T => match infer G e with
                   | Some T' => if ty_eqb T T' then Some T else None
                   | None => None
                   end
    | AUntyped u => if plain u then Some TDyn else None
    | ACast e T => match infer G e with
                   | Some TDyn => if first_order T then Some T else None
                   | _ => None
                   end
    | ASub e T => match infer G e with
                  | Some A => if subb A T then Some T else None
                  | None => None
                  end
    end.

  (* the certificate [a] proves that its erasure has type [T] in the empty context *)
  Definition check_deriv (a : atm) (T : ty) : bool :=
    match infer [] a with
    | Some T' => ty_eqb T T'
    | None => false
    end.
End Infer.
