(* C01 — syntax of the typed fragment: types, terms, primitive operations.  Definitions only. *)
From Coq Require Import List String Bool Arith QArith.
Import ListNotations.
Close Scope Q_scope.
Open Scope string_scope.

(* ------------------------------------------------------------------------------------ types *)

(* Type variables and record-row variables are de Bruijn indices in two separate index spaces
   ([TForall] binds a type variable, [TForallR] a row variable).  A record type is a list of rows
   ending either closed ([RNil]) or in a row variable ([RVar]): {f1 : T1, ..., fn : Tn ; r}.
   Enums are closed rows. *)
Inductive ty :=
| TDyn | TNum | TStr | TBool
| TArr (t : ty)
| TFun (a b : ty)
| TRec (r : rows)
| TDict (t : ty)                 (* {_ : t} *)
| TEnum (e : erows)             (* closed enum rows: bare tags and variants with a payload type *)
| TVar (n : nat)
| TForall (t : ty)
| TForallR (t : ty)
with rows :=
| RNil
| RCons (f : string) (t : ty) (r : rows)
| RVar (n : nat)
with erows :=
| ENil
| EBare (t : string) (e : erows)
| EArg (t : string) (T : ty) (e : erows).

Scheme ty_mut := Induction for ty Sort Prop
with rows_mut := Induction for rows Sort Prop
with erows_mut := Induction for erows Sort Prop.
Combined Scheme ty_rows_ind from ty_mut, rows_mut, erows_mut.

(* An enum row is identified by its tag AND whether it carries a payload: [| 'B, 'B Number |] has two
   distinct rows (the typechecker treats them so).  [erows_lookup t arg e]: the first row for tag [t]
   with ([arg] = true) or without a payload: None (absent), Some None (bare), Some (Some T). *)
Fixpoint erows_lookup (t : string) (arg : bool) (e : erows) : option (option ty) :=
  match e with
  | ENil => None
  | EBare u e' => if String.eqb t u && negb arg then Some None else erows_lookup t arg e'
  | EArg u T e' => if String.eqb t u && arg then Some (Some T) else erows_lookup t arg e'
  end.

Fixpoint rows_lookup (f : string) (r : rows) : option ty :=
  match r with
  | RNil | RVar _ => None
  | RCons g t r' => if String.eqb f g then Some t else rows_lookup f r'
  end.

Fixpoint rows_fields (r : rows) : list string :=
  match r with RNil | RVar _ => [] | RCons f _ r' => f :: rows_fields r' end.

Fixpoint rows_closed (r : rows) : bool :=
  match r with RNil => true | RVar _ => false | RCons _ _ r' => rows_closed r' end.

(* shift c T: add 1 to the free type variables >= c *)
Fixpoint shift (c : nat) (T : ty) : ty :=
  match T with
  | TDyn => TDyn | TNum => TNum | TStr => TStr | TBool => TBool
  | TArr t => TArr (shift c t)
  | TFun a b => TFun (shift c a) (shift c b)
  | TRec r => TRec (shift_rows c r)
  | TDict t => TDict (shift c t)
  | TEnum e => TEnum (shift_erows c e)
  | TVar n => if Nat.leb c n then TVar (S n) else TVar n
  | TForall t => TForall (shift (S c) t)
  | TForallR t => TForallR (shift c t)
  end
with shift_rows (c : nat) (r : rows) : rows :=
  match r with
  | RNil => RNil
  | RCons f t r' => RCons f (shift c t) (shift_rows c r')
  | RVar n => RVar n
  end
with shift_erows (c : nat) (e : erows) : erows :=
  match e with
  | ENil => ENil
  | EBare t e' => EBare t (shift_erows c e')
  | EArg t T e' => EArg t (shift c T) (shift_erows c e')
  end.

(* shiftR c T: add 1 to the free row variables >= c *)
Fixpoint shiftR (c : nat) (T : ty) : ty :=
  match T with
  | TDyn => TDyn | TNum => TNum | TStr => TStr | TBool => TBool
  | TArr t => TArr (shiftR c t)
  | TFun a b => TFun (shiftR c a) (shiftR c b)
  | TRec r => TRec (shiftR_rows c r)
  | TDict t => TDict (shiftR c t)
  | TEnum e => TEnum (shiftR_erows c e)
  | TVar n => TVar n
  | TForall t => TForall (shiftR c t)
  | TForallR t => TForallR (shiftR (S c) t)
  end
with shiftR_rows (c : nat) (r : rows) : rows :=
  match r with
  | RNil => RNil
  | RCons f t r' => RCons f (shiftR c t) (shiftR_rows c r')
  | RVar n => if Nat.leb c n then RVar (S n) else RVar n
  end
with shiftR_erows (c : nat) (e : erows) : erows :=
  match e with
  | ENil => ENil
  | EBare t e' => EBare t (shiftR_erows c e')
  | EArg t T e' => EArg t (shiftR c T) (shiftR_erows c e')
  end.

(* subst k S T: replace variable k by S (shifted under binders), decrement the variables above k *)
Fixpoint subst (k : nat) (S : ty) (T : ty) : ty :=
  match T with
  | TDyn => TDyn | TNum => TNum | TStr => TStr | TBool => TBool
  | TArr t => TArr (subst k S t)
  | TFun a b => TFun (subst k S a) (subst k S b)
  | TRec r => TRec (subst_rows k S r)
  | TDict t => TDict (subst k S t)
  | TEnum e => TEnum (subst_erows k S e)
  | TVar n => match Nat.compare n k with
              | Eq => S
              | Lt => TVar n
              | Gt => TVar (pred n)
              end
  | TForall t => TForall (subst (Datatypes.S k) (shift 0 S) t)
  | TForallR t => TForallR (subst k (shiftR 0 S) t)
  end
with subst_rows (k : nat) (S : ty) (r : rows) : rows :=
  match r with
  | RNil => RNil
  | RCons f t r' => RCons f (subst k S t) (subst_rows k S r')
  | RVar n => RVar n
  end
with subst_erows (k : nat) (S : ty) (e : erows) : erows :=
  match e with
  | ENil => ENil
  | EBare t e' => EBare t (subst_erows k S e')
  | EArg t T e' => EArg t (subst k S T) (subst_erows k S e')
  end.

(* substR k R T: replace the row variable k by the rows R (which end closed or in another row
   variable): substituting at the end of a record type appends R's rows *)
Fixpoint substR (k : nat) (R : rows) (T : ty) : ty :=
  match T with
  | TDyn => TDyn | TNum => TNum | TStr => TStr | TBool => TBool
  | TArr t => TArr (substR k R t)
  | TFun a b => TFun (substR k R a) (substR k R b)
  | TRec r => TRec (substR_rows k R r)
  | TDict t => TDict (substR k R t)
  | TEnum e => TEnum (substR_erows k R e)
  | TVar n => TVar n
  | TForall t => TForall (substR k (shift_rows 0 R) t)
  | TForallR t => TForallR (substR (Datatypes.S k) (shiftR_rows 0 R) t)
  end
with substR_rows (k : nat) (R : rows) (r : rows) : rows :=
  match r with
  | RNil => RNil
  | RCons f t r' => RCons f (substR k R t) (substR_rows k R r')
  | RVar n => match Nat.compare n k with
              | Eq => R
              | Lt => RVar n
              | Gt => RVar (pred n)
              end
  end
with substR_erows (k : nat) (R : rows) (e : erows) : erows :=
  match e with
  | ENil => ENil
  | EBare t e' => EBare t (substR_erows k R e')
  | EArg t T e' => EArg t (substR k R T) (substR_erows k R e')
  end.

(* first-order types: what a contract [Cast e T] can check in this fragment *)
Fixpoint first_order (T : ty) : bool :=
  match T with
  | TDyn | TNum | TStr | TBool => true
  | TArr t => first_order t
  | TRec r => first_order_rows r
  | TDict t => first_order t
  | TEnum e => first_order_erows e
  | TFun _ _ | TVar _ | TForall _ | TForallR _ => false
  end
with first_order_rows (r : rows) : bool :=
  (* closed, no duplicate label *)
  match r with
  | RNil => true
  | RVar _ => false
  | RCons f t r' => first_order t && negb (existsb (String.eqb f) (rows_fields r')) && first_order_rows r'
  end
with first_order_erows (e : erows) : bool :=
  match e with
  | ENil => true
  | EBare _ e' => first_order_erows e'
  | EArg _ T e' => first_order T && first_order_erows e'
  end.

(* ------------------------------------------------------------------------------------ terms *)

Inductive prim :=
| PAdd | PSub | PMul | PDiv
| PLt | PLe | PGt | PGe
| PNot
| PConcat            (* ++ *)
| PStrLen            (* std.string.length *)
| PArrLen            (* std.array.length *)
| PArrAt             (* std.array.at : Number -> Array a -> a *)
| PArrCat            (* @ *)
| PArrMap            (* std.array.map : (a -> b) -> Array a -> Array b *)
| PEq                (* == *)
| PRecFields         (* std.record.fields : {_ : a} -> Array String *)
| PRecValues         (* std.record.values : {_ : a} -> Array a *)
| PRecHas            (* std.record.has_field : String -> {_ : a} -> Bool *)
| PRecGet.           (* std.record.get : String -> {_ : a} -> a *)

Definition prim_eqb (a b : prim) : bool :=
  match a, b with
  | PAdd, PAdd | PSub, PSub | PMul, PMul | PDiv, PDiv | PLt, PLt | PLe, PLe | PGt, PGt | PGe, PGe
  | PNot, PNot | PConcat, PConcat | PStrLen, PStrLen | PArrLen, PArrLen | PArrAt, PArrAt
  | PArrCat, PArrCat | PArrMap, PArrMap | PEq, PEq | PRecFields, PRecFields | PRecValues, PRecValues
  | PRecHas, PRecHas | PRecGet, PRecGet => true
  | _, _ => false
  end.

Definition arity (o : prim) : nat :=
  match o with
  | PNot | PStrLen | PArrLen | PRecFields | PRecValues => 1
  | _ => 2
  end.

Inductive tm :=
| Var (x : string)
| Num (q : Q)
| Str (s : string)
| Bool (b : bool)
| Lam (x : string) (b : tm)
| App (f a : tm)
| Let (x : string) (e b : tm)
| If (c t e : tm)
| Arr (es : list tm)
| Rec (fs : list (string * tm))          (* non-recursive record literal *)
| Proj (e : tm) (f : string)
| Tag (t : string)
| Variant (t : string) (e : tm)                              (* 't e *)
| Match (e : tm) (bs : list (string * option string * tm)) (d : option tm)
    (* arms: 't => b  or  't x => b ; plus an optional wildcard arm *)
| Prim (o : prim)
| AnnT (e : tm) (T : ty)                 (* (e : T) inside typed code *)
| Untyped (u : tm)                       (* a closed piece of untyped code, of type Dyn *)
| Cast (e : tm) (T : ty).                (* (e | T), T first-order: run-time check *)

(* the first arm for tag [t] of the right shape (with / without a payload binder) *)
Fixpoint find_branch {B : Type} (t : string) (arg : bool) (bs : list (string * option string * B))
  : option (option string * B) :=
  match bs with
  | [] => None
  | (u, x, b) :: bs' =>
      if String.eqb t u && Bool.eqb arg (match x with Some _ => true | None => false end)
      then Some (x, b) else find_branch t arg bs'
  end.

Fixpoint assoc {A : Type} (x : string) (l : list (string * A)) : option A :=
  match l with
  | [] => None
  | (y, a) :: l' => if String.eqb x y then Some a else assoc x l'
  end.

(* Terms allowed under [Untyped]: no static annotation, no nested [Untyped]. *)
Fixpoint plain (e : tm) : bool :=
  match e with
  | Var _ | Num _ | Str _ | Bool _ | Tag _ | Prim _ => true
  | Lam _ b => plain b
  | App f a => plain f && plain a
  | Let _ e b => plain e && plain b
  | If c t e => plain c && plain t && plain e
  | Arr es => forallb plain es
  | Rec fs => forallb (fun fe => plain (snd fe)) fs
  | Proj e _ => plain e
  | Variant _ e => plain e
  | Match e bs d => plain e && forallb (fun b => plain (snd b)) bs
                    && match d with Some b => plain b | None => true end
  | AnnT _ _ | Untyped _ => false
  | Cast e _ => plain e
  end.
