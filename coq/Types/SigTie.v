(* C01 — the model's signature table [model_sig] (for which [sig_sound] is proved) is, entry by
   entry, the type the running typechecker of /repo assigns to the corresponding primitive operation
   or standard-library function (Gen/ModelSigGen.v, regenerated on every run). *)
From Coq Require Import List String Bool.
Import ListNotations.
From NV Require Import Types.Syntax Types.Decl Types.ModelSig Types.Checker Types.CheckerSound Gen.ModelSigGen.

Definition all_prims : list prim :=
  [PAdd; PSub; PMul; PDiv; PLt; PLe; PGt; PGe; PNot; PConcat; PStrLen; PArrLen; PArrAt; PArrCat; PArrMap; PEq;
   PRecFields; PRecValues; PRecHas; PRecGet].

Definition sig_tie_ok : bool :=
  forallb (fun oT => match model_sig (fst oT) with
                     | Some T => ty_eqb T (snd oT)
                     | None => false
                     end) gen_model_sig
  && forallb (fun o => existsb (fun oT => prim_eqb o (fst oT)) gen_model_sig) all_prims.

Lemma sig_tie_ok_true : sig_tie_ok = true.
Proof. vm_compute. reflexivity. Qed.

Lemma all_prims_complete : forall o, In o all_prims.
Proof. destruct o; simpl; tauto. Qed.

Lemma prim_eqb_eq : forall a b, prim_eqb a b = true -> a = b.
Proof. destruct a, b; simpl; intros H; try discriminate; reflexivity. Qed.

(* every primitive of the model has a generated entry, and every generated entry is the model's *)
Theorem model_sig_matches_generated_lemma :
  (forall o T, In (o, T) gen_model_sig -> model_sig o = Some T) /\
  (forall o, exists T, In (o, T) gen_model_sig).
Proof.
  pose proof sig_tie_ok_true as H. unfold sig_tie_ok in H.
  apply andb_true_iff in H. destruct H as [H1 H2]. split.
  - intros o T Hin. rewrite forallb_forall in H1. specialize (H1 (o, T) Hin). cbn [fst snd] in H1.
    revert H1. destruct (model_sig o) as [T'|]; intros H1; [|discriminate]. apply ty_eqb_eq in H1. subst. reflexivity.
  - intros o. rewrite forallb_forall in H2. specialize (H2 o (all_prims_complete o)).
    apply existsb_exists in H2. destruct H2 as [[o' T] [Hin Heq]]. simpl in Heq.
    apply prim_eqb_eq in Heq. subst. exists T. assumption.
Qed.
