(* C01 — every modelled primitive inhabits the semantic interpretation of its static type. *)
From Coq Require Import List String Bool Arith QArith Lia.
Import ListNotations.
From NV Require Import Types.Syntax Types.Sem Types.Pure Types.Decl Types.LogRel Types.Safety Types.ModelSig.
Close Scope Q_scope.
Open Scope string_scope.
Local Arguments Nat.eqb : simpl never.

Ltac ev_tt ev :=
  match goal with
  | Ht : TT ?P ?a |- context [eval_thunk ?n ?a] =>
      let H := fresh "Hv" in
      pose proof (Ht n) as H; destruct (eval_thunk n a) as [?v|?e|]; simpl in H |- *; auto
  end.

Lemma num2_ok : forall (P : cand) d dr n a b k,
  TT (V TNum d dr) a -> TT (V TNum d dr) b ->
  (forall x y, ok_out P (k x y)) ->
  ok_out P (Sem.num2 (eval_thunk n) MTyped a b k).
Proof.
  intros P d dr n a b k Ha Hb Hk. unfold Sem.num2, bind.
  pose proof (Ha n) as H1. destruct (eval_thunk n a) as [va|ea|]; simpl in *; auto.
  pose proof (Hb n) as H2. destruct (eval_thunk n b) as [vb|eb|]; simpl in *; auto.
  destruct H1 as [x ->]. destruct H2 as [y ->]. apply Hk.
Qed.

Lemma prim2 : forall o A B C d dr,
  arity o = 2 ->
  (forall a b n, TT (V A d dr) a -> TT (V B d dr) b -> ok_out (V C d dr) (delta (eval_thunk n) MTyped o [a; b])) ->
  V (TFun A (TFun B C)) d dr (VPrim o []).
Proof.
  intros o A B C d dr Har H. simpl. intros a Ha n. unfold app_out. simpl.
  rewrite Har. simpl.
  intros b Hb n'. unfold app_out. simpl. rewrite Har. simpl. apply H; assumption.
Qed.

Lemma prim1 : forall o A C d dr,
  arity o = 1 ->
  (forall a n, TT (V A d dr) a -> ok_out (V C d dr) (delta (eval_thunk n) MTyped o [a])) ->
  V (TFun A C) d dr (VPrim o []).
Proof.
  intros o A C d dr Har H. simpl. intros a Ha n. unfold app_out. simpl.
  rewrite Har. simpl. apply H; assumption.
Qed.

Theorem model_sig_sound : sig_sound model_sig.
Proof.
  intros o T d dr Hs. unfold model_sig in Hs. inversion Hs; subst; clear Hs.
  destruct o.
  - apply prim2; [reflexivity|]. intros. simpl. eapply num2_ok; eauto. intros; simpl; eauto.
  - apply prim2; [reflexivity|]. intros. simpl. eapply num2_ok; eauto. intros; simpl; eauto.
  - apply prim2; [reflexivity|]. intros. simpl. eapply num2_ok; eauto. intros; simpl; eauto.
  - apply prim2; [reflexivity|]. intros. simpl. eapply num2_ok; eauto. intros; simpl.
    destruct (Qeq_bool y 0); simpl; eauto.
  - apply prim2; [reflexivity|]. intros. simpl. eapply num2_ok; eauto. intros; simpl; eauto.
  - apply prim2; [reflexivity|]. intros. simpl. eapply num2_ok; eauto. intros; simpl; eauto.
  - apply prim2; [reflexivity|]. intros. simpl. eapply num2_ok; eauto. intros; simpl; eauto.
  - apply prim2; [reflexivity|]. intros. simpl. eapply num2_ok; eauto. intros; simpl; eauto.
  - (* PNot *)
    apply prim1; [reflexivity|]. intros a n Ha. simpl.
    pose proof (Ha n) as H1. destruct (eval_thunk n a) as [va|ea|]; simpl in *; auto.
    destruct H1 as [b ->]. simpl. eauto.
  - (* PConcat *)
    apply prim2; [reflexivity|]. intros a b n Ha Hb. simpl. unfold bind.
    pose proof (Ha n) as H1. destruct (eval_thunk n a) as [va|ea|]; simpl in *; auto.
    pose proof (Hb n) as H2. destruct (eval_thunk n b) as [vb|eb|]; simpl in *; auto.
    destruct H1 as [x ->]. destruct H2 as [y ->]. simpl. eauto.
  - (* PStrLen *)
    apply prim1; [reflexivity|]. intros a n Ha. simpl. unfold get_str.
    pose proof (Ha n) as H1. destruct (eval_thunk n a) as [va|ea|]; simpl in *; auto.
    destruct H1 as [x ->]. simpl. eauto.
  - (* PArrLen *)
    intros R. apply prim1; [reflexivity|]. intros a n Ha. simpl. unfold get_arr.
    pose proof (Ha n) as H1. destruct (eval_thunk n a) as [va|ea|]; simpl in *; auto.
    destruct H1 as [ts [-> HF]]. simpl. eauto.
  - (* PArrAt *)
    intros R. apply prim2; [reflexivity|]. intros i a n Hi Ha. simpl. unfold get_num, get_arr.
    pose proof (Hi n) as H1. destruct (eval_thunk n i) as [vi|ei|]; simpl in *; auto.
    destruct H1 as [q ->].
    pose proof (Ha n) as H2. destruct (eval_thunk n a) as [va|ea|]; simpl in *; auto.
    destruct H2 as [ts [-> HF]].
    destruct (index_of q) as [k|]; simpl; auto.
    destruct (nth_error ts k) as [t|] eqn:Hn; simpl; auto.
    apply nth_error_In in Hn. rewrite Forall_forall in HF. apply (HF t Hn n).
  - (* PArrCat *)
    intros R. apply prim2; [reflexivity|]. intros a b n Ha Hb. simpl. unfold bind.
    pose proof (Ha n) as H1. destruct (eval_thunk n a) as [va|ea|]; simpl in *; auto.
    pose proof (Hb n) as H2. destruct (eval_thunk n b) as [vb|eb|]; simpl in *; auto.
    destruct H1 as [x [-> Hx]]. destruct H2 as [y [-> Hy]]. simpl.
    exists (x ++ y)%list. split; [reflexivity|]. apply Forall_app. split; assumption.
  - (* PArrMap *)
    intros Ra Rb. apply prim2; [reflexivity|]. intros f a n Hf Ha. simpl. unfold get_arr.
    pose proof (Ha n) as H2. destruct (eval_thunk n a) as [va|ea|]; simpl in *; auto.
    destruct H2 as [ts [-> HF]]. simpl.
    eexists. split; [reflexivity|].
    apply Forall_forall. intros t' Hin. apply in_map_iff in Hin. destruct Hin as [t [<- Hin]].
    intros k. simpl.
    destruct k as [|k]; [exact I|]. simpl.
    destruct k as [|k]; [exact I|]. simpl.
    destruct f as [mf ef rf].
    pose proof (Hf k) as H1. simpl in H1.
    destruct (eval k mf rf ef) as [vf|e0|]; simpl in *; auto.
    assert (Htt : TT (fun v : whnf => Ra v) (Thunk MTyped (Var "x") [("f", Thunk mf ef rf); ("x", t)])).
    { intros j. simpl. destruct j as [|j]; [exact I|]. simpl.
      rewrite Forall_forall in HF. destruct t as [mt et rt]. apply (HF _ Hin j). }
    exact (H1 _ Htt (S k)).
  - (* PEq *)
    intros Ra Rb. apply prim2; [reflexivity|]. intros a b n Ha Hb. simpl. unfold bind.
    pose proof (Ha n) as H1. destruct (eval_thunk n a) as [va|ea|]; simpl in *; auto.
    pose proof (Hb n) as H2. destruct (eval_thunk n b) as [vb|eb|]; simpl in *; auto.
    destruct va, vb; simpl; eauto.
  - (* PRecFields *)
    intros R. apply prim1; [reflexivity|]. intros a n Ha. simpl. unfold get_rec.
    pose proof (Ha n) as H1. destruct (eval_thunk n a) as [va|ea|]; simpl in *; auto.
    destruct H1 as [fs [-> HF]]. simpl. eexists. split; [reflexivity|].
    apply Forall_forall. intros t Hin. apply in_map_iff in Hin. destruct Hin as [ft [<- Hin]].
    intros k. simpl. destruct k; simpl; eauto.
  - (* PRecValues *)
    intros R. apply prim1; [reflexivity|]. intros a n Ha. simpl. unfold get_rec.
    pose proof (Ha n) as H1. destruct (eval_thunk n a) as [va|ea|]; simpl in *; auto.
    destruct H1 as [fs [-> HF]]. simpl. eexists. split; [reflexivity|].
    apply Forall_forall. intros t Hin. apply in_map_iff in Hin. destruct Hin as [ft [<- Hin]].
    pose proof (sort_fields_Forall _ _ HF) as Hs. rewrite Forall_forall in Hs. apply (Hs ft Hin).
  - (* PRecHas *)
    intros R. apply prim2; [reflexivity|]. intros k a n Hk Ha. simpl. unfold get_str, get_rec.
    pose proof (Hk n) as H1. destruct (eval_thunk n k) as [vk|ek|]; simpl in *; auto.
    destruct H1 as [s ->].
    pose proof (Ha n) as H2. destruct (eval_thunk n a) as [va|ea|]; simpl in *; auto.
    destruct H2 as [fs [-> HF]]. simpl. eauto.
  - (* PRecGet *)
    intros R. apply prim2; [reflexivity|]. intros k a n Hk Ha. simpl. unfold get_str, get_rec.
    pose proof (Hk n) as H1. destruct (eval_thunk n k) as [vk|ek|]; simpl in *; auto.
    destruct H1 as [s ->].
    pose proof (Ha n) as H2. destruct (eval_thunk n a) as [va|ea|]; simpl in *; auto.
    destruct H2 as [fs [-> HF]].
    destruct (assoc s fs) as [t|] eqn:Has; simpl; auto.
    pose proof (assoc_Forall (fun t => TT (fun v => R v) t) _ _ _ HF Has) as Ht. apply (Ht n).
Qed.

(* the property for the concrete signature table of the model *)
Theorem type_safety_model : forall n e T,
  has_type model_sig [] e T -> safe_outcome (run n e).
Proof. intros. eapply type_safety_lemma; [apply model_sig_sound|eassumption]. Qed.
