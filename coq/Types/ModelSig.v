(* C01 — the static types of the modelled primitives, as core/src/typecheck/operation.rs and the
   annotations of core/stdlib/std.ncl give them.  Definitions only.  [Types/SigTie.v] checks this
   table against the generated one of the running typechecker. *)
From Coq Require Import List String.
Import ListNotations.
From NV Require Import Types.Syntax Types.Decl.

Definition num2 (r : ty) : ty := TFun TNum (TFun TNum r).

Definition model_sig : sigma := fun o =>
  Some match o with
  | PAdd | PSub | PMul | PDiv => num2 TNum
  | PLt | PLe | PGt | PGe => num2 TBool
  | PNot => TFun TBool TBool
  | PConcat => TFun TStr (TFun TStr TStr)
  | PStrLen => TFun TStr TNum
  | PArrLen => TForall (TFun (TArr (TVar 0)) TNum)
  | PArrAt => TForall (TFun TNum (TFun (TArr (TVar 0)) (TVar 0)))
  | PArrCat => TForall (TFun (TArr (TVar 0)) (TFun (TArr (TVar 0)) (TArr (TVar 0))))
  | PArrMap => TForall (TForall (TFun (TFun (TVar 1) (TVar 0)) (TFun (TArr (TVar 1)) (TArr (TVar 0)))))
  | PEq => TForall (TForall (TFun (TVar 1) (TFun (TVar 0) TBool)))
  | PRecFields => TForall (TFun (TDict (TVar 0)) (TArr TStr))
  | PRecValues => TForall (TFun (TDict (TVar 0)) (TArr (TVar 0)))
  | PRecHas => TForall (TFun TStr (TFun (TDict (TVar 0)) TBool))
  | PRecGet => TForall (TFun TStr (TFun (TDict (TVar 0)) (TVar 0)))
  end.
