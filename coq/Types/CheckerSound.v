(* C01 — [checker_sound]: a certificate accepted by the executable checker is a derivation of the
   declarative type system for the erased term. *)
From Coq Require Import List String Bool Arith QArith Lia.
Import ListNotations.
From NV Require Import Types.Syntax Types.Decl Types.Checker.
Close Scope Q_scope.
Open Scope string_scope.

Lemma tags_eqb_eq : forall a b, tags_eqb a b = true -> a = b.
Proof.
  induction a as [|x a IH]; destruct b as [|y b]; simpl; intros H; try discriminate; auto.
  apply andb_true_iff in H. destruct H as [H1 H2]. apply String.eqb_eq in H1. subst.
  f_equal. apply IH. assumption.
Qed.

Lemma ty_eqb_eq_mut :
  (forall a b, ty_eqb a b = true -> a = b) /\ (forall r s, rows_eqb r s = true -> r = s) /\
  (forall r s, erows_eqb r s = true -> r = s).
Proof.
  apply ty_rows_ind; intros.
  - destruct b; simpl in *; try discriminate; reflexivity.
  - destruct b; simpl in *; try discriminate; reflexivity.
  - destruct b; simpl in *; try discriminate; reflexivity.
  - destruct b; simpl in *; try discriminate; reflexivity.
  - destruct b; simpl in *; try discriminate. f_equal. apply H. assumption.
  - destruct b0; simpl in *; try discriminate.
    apply andb_true_iff in H1. destruct H1. f_equal; [apply H|apply H0]; assumption.
  - destruct b; simpl in *; try discriminate. f_equal. apply H. assumption.
  - destruct b; simpl in *; try discriminate. f_equal. apply H. assumption.
  - destruct b; simpl in *; try discriminate. f_equal. apply H. assumption.
  - destruct b; simpl in *; try discriminate. f_equal. apply Nat.eqb_eq. assumption.
  - destruct b; simpl in *; try discriminate. f_equal. apply H. assumption.
  - destruct b; simpl in *; try discriminate. f_equal. apply H. assumption.
  - destruct s; simpl in *; try discriminate. reflexivity.
  - destruct s; simpl in *; try discriminate.
    apply andb_true_iff in H1. destruct H1 as [H1 H3]. apply andb_true_iff in H1. destruct H1 as [H1 H2].
    apply String.eqb_eq in H1. subst. f_equal; [apply H|apply H0]; assumption.
  - destruct s; simpl in *; try discriminate. f_equal. apply Nat.eqb_eq. assumption.
  - destruct s; simpl in *; try discriminate. reflexivity.
  - destruct s; simpl in *; try discriminate.
    apply andb_true_iff in H0. destruct H0 as [H1 H2]. apply String.eqb_eq in H1. subst.
    f_equal. apply H. assumption.
  - destruct s; simpl in *; try discriminate.
    apply andb_true_iff in H1. destruct H1 as [H1 H3]. apply andb_true_iff in H1. destruct H1 as [H1 H2].
    apply String.eqb_eq in H1. subst. f_equal; [apply H|apply H0]; assumption.
Qed.

Definition ty_eqb_eq := proj1 ty_eqb_eq_mut.

Lemma subb_eq : forall a b,
  subb a b = (ty_eqb a b ||
              match a, b with
              | TRec r, TDict u => rows_all_subb r u
              | TArr x, TArr y => subb x y
              | TDict x, TDict y => subb x y
              | TRec r, TRec s => rows_subb r s
              | _, _ => false
              end).
Proof. destruct a; reflexivity. Qed.

Lemma subb_sound_mut :
  (forall a b, subb a b = true -> sub a b) /\
  (forall r, (forall u, rows_all_subb r u = true -> rows_sub_all r u) /\
             (forall s, rows_subb r s = true -> rows_sub r s)) /\
  (forall e : erows, True).
Proof.
  apply ty_rows_ind; intros.
  - rewrite subb_eq in H. apply orb_true_iff in H. destruct H as [H|H]; [apply ty_eqb_eq in H; subst; constructor|destruct b; discriminate].
  - rewrite subb_eq in H. apply orb_true_iff in H. destruct H as [H|H]; [apply ty_eqb_eq in H; subst; constructor|destruct b; discriminate].
  - rewrite subb_eq in H. apply orb_true_iff in H. destruct H as [H|H]; [apply ty_eqb_eq in H; subst; constructor|destruct b; discriminate].
  - rewrite subb_eq in H. apply orb_true_iff in H. destruct H as [H|H]; [apply ty_eqb_eq in H; subst; constructor|destruct b; discriminate].
  - (* TArr *)
    rewrite subb_eq in H0. apply orb_true_iff in H0. destruct H0 as [H0|H0]; [apply ty_eqb_eq in H0; subst; constructor|].
    destruct b; try discriminate. apply S_Arr. apply H. assumption.
  - (* TFun *)
    rewrite subb_eq in H1. apply orb_true_iff in H1. destruct H1 as [H1|H1]; [apply ty_eqb_eq in H1; subst; constructor|destruct b0; discriminate].
  - (* TRec *)
    rewrite subb_eq in H0. apply orb_true_iff in H0. destruct H0 as [H0|H0]; [apply ty_eqb_eq in H0; subst; constructor|].
    destruct b; try discriminate.
    + apply S_Rec. apply H. assumption.
    + apply S_RecDict. apply H. assumption.
  - (* TDict *)
    rewrite subb_eq in H0. apply orb_true_iff in H0. destruct H0 as [H0|H0]; [apply ty_eqb_eq in H0; subst; constructor|].
    destruct b; try discriminate. apply S_Dict. apply H. assumption.
  - rewrite subb_eq in H0. apply orb_true_iff in H0. destruct H0 as [H0|H0]; [apply ty_eqb_eq in H0; subst; constructor|destruct b; discriminate].
  - rewrite subb_eq in H. apply orb_true_iff in H. destruct H as [H|H]; [apply ty_eqb_eq in H; subst; constructor|destruct b; discriminate].
  - rewrite subb_eq in H0. apply orb_true_iff in H0. destruct H0 as [H0|H0]; [apply ty_eqb_eq in H0; subst; constructor|destruct b; discriminate].
  - rewrite subb_eq in H0. apply orb_true_iff in H0. destruct H0 as [H0|H0]; [apply ty_eqb_eq in H0; subst; constructor|destruct b; discriminate].
  - (* RNil *)
    split; intros; [constructor|]. destruct s; simpl in *; try discriminate. constructor.
  - (* RCons *)
    destruct H0 as [Hall Hboth]. split.
    + intros u Hu. simpl in Hu. apply andb_true_iff in Hu. destruct Hu as [H1 H2].
      constructor; [apply H; assumption|apply Hall; assumption].
    + intros s Hs. destruct s; simpl in Hs; try discriminate.
      apply andb_true_iff in Hs. destruct Hs as [Hs H3]. apply andb_true_iff in Hs. destruct Hs as [H1 H2].
      apply String.eqb_eq in H1. subst. constructor; [apply H; assumption|apply Hboth; assumption].
  - (* RVar *)
    split; intros; simpl in *; [discriminate|]. destruct s; try discriminate.
    apply Nat.eqb_eq in H. subst. constructor.
  - exact I.
  - exact I.
  - exact I.
Qed.

Definition subb_sound := proj1 subb_sound_mut.

(* ------------------------------------------------------------------------- match arms *)

Lemma find_branch_map : forall {A B} (f : A -> B) t a (bs : list (string * option string * A)),
  find_branch t a (map (fun b => (fst b, f (snd b))) bs) =
  match find_branch t a bs with Some (x, b) => Some (x, f b) | None => None end.
Proof.
  induction bs as [|[[u x] b] bs IH]; simpl; [reflexivity|].
  destruct (String.eqb t u && Bool.eqb a match x with Some _ => true | None => false end); [reflexivity|apply IH].
Qed.

Lemma exhaustive_sound : forall bs e, exhaustive e bs = true ->
  forall t a p, erows_lookup t a e = Some p -> find_branch t a bs <> None.
Proof.
  induction e as [|u e IH|u U e IH]; simpl; intros Hex t a p Hl; [discriminate| |].
  - apply andb_true_iff in Hex. destruct Hex as [Hrow Hrest].
    destruct (String.eqb t u && negb a) eqn:Heq.
    + apply andb_true_iff in Heq. destruct Heq as [Heq Ha]. apply String.eqb_eq in Heq. subst.
      destruct a; [discriminate|]. destruct (find_branch u false bs); [discriminate|discriminate].
    + eapply IH; eassumption.
  - apply andb_true_iff in Hex. destruct Hex as [Hrow Hrest].
    destruct (String.eqb t u && a) eqn:Heq.
    + apply andb_true_iff in Heq. destruct Heq as [Heq Ha]. apply String.eqb_eq in Heq. subst.
      destruct (find_branch u true bs); [discriminate|discriminate].
    + eapply IH; eassumption.
Qed.

(* induction principle for certificates (nested lists) *)
Section atm_ind'.
  Variable P : atm -> Prop.
  Hypothesis HVar : forall x insts, P (AVar x insts).
  Hypothesis HNum : forall q, P (ANum q).
  Hypothesis HStr : forall s, P (AStr s).
  Hypothesis HBool : forall b, P (ABool b).
  Hypothesis HLam : forall x A b, P b -> P (ALam x A b).
  Hypothesis HApp : forall f a, P f -> P a -> P (AApp f a).
  Hypothesis HLet : forall x ks e b, P e -> P b -> P (ALet x ks e b).
  Hypothesis HIf : forall c t e, P c -> P t -> P e -> P (AIf c t e).
  Hypothesis HArr : forall T es, Forall P es -> P (AArr T es).
  Hypothesis HRec : forall fs, Forall (fun fe => P (snd fe)) fs -> P (ARec fs).
  Hypothesis HProj : forall e f, P e -> P (AProj e f).
  Hypothesis HTag : forall t r, P (ATag t r).
  Hypothesis HVariant : forall t e r, P e -> P (AVariant t e r).
  Hypothesis HMatch : forall e T bs d, P e -> Forall (fun b => P (snd b)) bs ->
                        (forall b, d = Some b -> P b) -> P (AMatch e T bs d).
  Hypothesis HPrim : forall o insts, P (APrim o insts).
  Hypothesis HAnnT : forall e T, P e -> P (AAnnT e T).
  Hypothesis HUntyped : forall u, P (AUntyped u).
  Hypothesis HCast : forall e T, P e -> P (ACast e T).
  Hypothesis HSub : forall e T, P e -> P (ASub e T).

  Fixpoint atm_ind' (a : atm) : P a :=
    match a with
    | AVar x i => HVar x i
    | ANum q => HNum q
    | AStr s => HStr s
    | ABool b => HBool b
    | ALam x A b => HLam x A b (atm_ind' b)
    | AApp f a => HApp f a (atm_ind' f) (atm_ind' a)
    | ALet x k e b => HLet x k e b (atm_ind' e) (atm_ind' b)
    | AIf c t e => HIf c t e (atm_ind' c) (atm_ind' t) (atm_ind' e)
    | AArr T es => HArr T es ((fix go (es : list atm) : Forall P es :=
                                 match es with
                                 | [] => Forall_nil _
                                 | e :: es' => Forall_cons e (atm_ind' e) (go es')
                                 end) es)
    | ARec fs => HRec fs ((fix go (fs : list (string * atm)) : Forall (fun fe => P (snd fe)) fs :=
                             match fs with
                             | [] => Forall_nil _
                             | fe :: fs' => Forall_cons fe (atm_ind' (snd fe)) (go fs')
                             end) fs)
    | AProj e f => HProj e f (atm_ind' e)
    | ATag t r => HTag t r
    | AVariant t e r => HVariant t e r (atm_ind' e)
    | AMatch e T bs d =>
        HMatch e T bs d (atm_ind' e)
          ((fix go (bs : list (string * option string * atm)) : Forall (fun b => P (snd b)) bs :=
              match bs with
              | [] => Forall_nil _
              | b :: bs' => Forall_cons b (atm_ind' (snd b)) (go bs')
              end) bs)
          (match d as d0 return (forall b, d0 = Some b -> P b) with
           | Some b0 => fun b Hb => match Hb in (_ = y) return (match y with Some b' => P b' | None => True end) with
                                    | eq_refl => atm_ind' b0
                                    end
           | None => fun b Hb => match Hb in (_ = y) return (match y with Some b' => P b' | None => True end) with
                                 | eq_refl => I
                                 end
           end)
    | APrim o i => HPrim o i
    | AAnnT e T => HAnnT e T (atm_ind' e)
    | AUntyped u => HUntyped u
    | ACast e T => HCast e T (atm_ind' e)
    | ASub e T => HSub e T (atm_ind' e)
    end.
End atm_ind'.

Section Sound.
  Variable Sg : sigma.

  Lemma inst_sound : forall insts T T' G e,
    inst T insts = Some T' -> has_type Sg G e T -> has_type Sg G e T'.
  Proof.
    induction insts as [|[S0|R] rest IH]; simpl; intros T T' G e Hi Ht.
    - inversion Hi; subst. assumption.
    - destruct T; try discriminate. eapply IH; [eassumption|]. apply T_Inst. assumption.
    - destruct T; try discriminate. eapply IH; [eassumption|]. apply T_InstR. assumption.
  Qed.

  Lemma gen_sound : forall ks G e T,
    has_type Sg (ctx_under ks G) e T -> has_type Sg G e (foralls ks T).
  Proof.
    induction ks as [|[|] ks IH]; simpl; intros G e T H; [assumption| |].
    - apply T_GenR. apply IH. assumption.
    - apply T_Gen. apply IH. assumption.
  Qed.

  Lemma nodupb_NoDup : forall l, nodupb l = true -> NoDup l.
  Proof.
    induction l as [|x l IH]; simpl; intros H; [constructor|].
    apply andb_true_iff in H. destruct H as [H1 H2]. constructor; [|apply IH; assumption].
    intros Hin. apply negb_true_iff in H1.
    assert (existsb (String.eqb x) l = true) as Hx
      by (apply existsb_exists; exists x; split; [assumption|apply String.eqb_refl]).
    congruence.
  Qed.

  Lemma infer_sound : forall a G T, infer Sg G a = Some T -> has_type Sg G (erase a) T.
  Proof.
    induction a using atm_ind'; intros G T0 Hi; simpl in Hi |- *.
    - destruct (assoc x G) as [T1|] eqn:Ha; [|discriminate].
      eapply inst_sound; [eassumption|]. apply T_Var. assumption.
    - inversion Hi; subst. constructor.
    - inversion Hi; subst. constructor.
    - inversion Hi; subst. constructor.
    - destruct (infer Sg ((x, A) :: G) a) as [B|] eqn:Hb; [|discriminate].
      inversion Hi; subst. apply T_Lam. apply IHa. assumption.
    - destruct (infer Sg G a1) as [Tf|] eqn:Hf; [|discriminate].
      destruct Tf; try discriminate.
      destruct (infer Sg G a2) as [A'|] eqn:Ha; [|discriminate].
      destruct (ty_eqb Tf1 A') eqn:He; [|discriminate].
      apply ty_eqb_eq in He. subst. inversion Hi; subst.
      eapply T_App; [apply IHa1|apply IHa2]; eassumption.
    - destruct (infer Sg (ctx_under ks G) a1) as [T1|] eqn:He; [|discriminate].
      eapply T_Let; [|apply IHa2; eassumption].
      apply gen_sound. apply IHa1. assumption.
    - destruct (infer Sg G a1) as [Tc|] eqn:Hc; [|discriminate].
      destruct Tc; try discriminate.
      destruct (infer Sg G a2) as [T1|] eqn:H1; [|discriminate].
      destruct (infer Sg G a3) as [T2|] eqn:H2; [|discriminate].
      destruct (ty_eqb T1 T2) eqn:He; [|discriminate].
      apply ty_eqb_eq in He. subst. inversion Hi; subst.
      apply T_If; [apply IHa1|apply IHa2|apply IHa3]; assumption.
    - (* Arr *)
      match type of Hi with (if ?c then _ else _) = _ => destruct c eqn:Hall; [|discriminate] end.
      inversion Hi; subst. apply T_Arr.
      clear Hi. induction es as [|e es IHes]; simpl; [constructor|].
      inversion H; subst.
      destruct (infer Sg G e) as [T'|] eqn:He; [|discriminate].
      apply andb_true_iff in Hall. destruct Hall as [Hq Hrest].
      apply ty_eqb_eq in Hq. subst. constructor; [apply H2; assumption|].
      apply IHes; assumption.
    - (* Rec *)
      match type of Hi with match ?c with _ => _ end = _ => destruct c as [r|] eqn:Hr; [|discriminate] end.
      destruct (nodupb (map fst fs)) eqn:Hnd; [|discriminate].
      inversion Hi; subst. apply T_Rec.
      { rewrite map_map. simpl. apply nodupb_NoDup. assumption. }
      clear Hi Hnd.
      revert r Hr. induction fs as [|[f e] fs IHfs]; simpl; intros r Hr.
      + inversion Hr; subst. constructor.
      + inversion H; subst. simpl in H2.
        destruct (infer Sg G e) as [T'|] eqn:He; [|discriminate].
        match type of Hr with match ?c with _ => _ end = _ => destruct c as [r'|] eqn:Hr'; [|discriminate] end.
        inversion Hr; subst. constructor; [apply H2; assumption|].
        apply IHfs; [assumption|reflexivity].
    - (* Proj *)
      destruct (infer Sg G a) as [Te|] eqn:He; [|discriminate].
      destruct Te; try discriminate.
      eapply T_Proj; [apply IHa; eassumption|assumption].
    - (* Tag *)
      destruct (erows_lookup t false r) as [[A|]|] eqn:Hl; try discriminate.
      inversion Hi; subst. apply T_Tag. assumption.
    - (* Variant *)
      destruct (erows_lookup t true r) as [[A|]|] eqn:Hl; try discriminate.
      destruct (infer Sg G a) as [A'|] eqn:He; [|discriminate].
      destruct (ty_eqb A A') eqn:Hq; [|discriminate].
      apply ty_eqb_eq in Hq. subst. inversion Hi; subst.
      eapply T_Variant; [eassumption|]. apply IHa. assumption.
    - (* Match *)
      destruct (infer Sg G a) as [Te|] eqn:He; [|discriminate].
      destruct Te; try discriminate.
      match type of Hi with (if ?c then _ else _) = _ => destruct c eqn:Hall; [|discriminate] end.
      assert (Hbs : has_branches Sg G e (map (fun b => (fst b, erase (snd b))) bs) T).
      { clear Hi H0. induction bs as [|[[t x] b] bs IHbs]; simpl; [constructor|].
        inversion H as [|? ? Hhd Htl]; subst. simpl in Hhd.
        destruct x as [x|].
        - destruct (erows_lookup t true e) as [[A|]|] eqn:Hl; try discriminate.
          destruct (infer Sg ((x, A) :: G) b) as [T'|] eqn:Hb; [|discriminate].
          apply andb_true_iff in Hall. destruct Hall as [Hq Hrest].
          apply ty_eqb_eq in Hq. subst. eapply HB_arg; [eassumption|apply Hhd; assumption|].
          apply IHbs; assumption.
        - destruct (infer Sg G b) as [T'|] eqn:Hb; [|discriminate].
          apply andb_true_iff in Hall. destruct Hall as [Hq Hrest].
          apply ty_eqb_eq in Hq. subst. apply HB_bare; [apply Hhd; assumption|].
          apply IHbs; assumption. }
      destruct d as [b|].
      + destruct (infer Sg G b) as [T'|] eqn:Hb; [|discriminate].
        destruct (ty_eqb T T') eqn:Hq; [|discriminate].
        apply ty_eqb_eq in Hq. subst. inversion Hi; subst.
        eapply T_MatchD; [apply IHa; eassumption|assumption|].
        apply (H0 b eq_refl). assumption.
      + match type of Hi with (if ?c then _ else _) = _ => destruct c eqn:Hex; [|discriminate] end.
        inversion Hi; subst.
        eapply T_Match; [apply IHa; eassumption|assumption|].
        intros t a0 p Hl.
        pose proof (exhaustive_sound _ e Hex t a0 p Hl) as Hx.
        rewrite (find_branch_map (fun _ : atm => tt)) in Hx.
        rewrite (find_branch_map erase).
        destruct (find_branch t a0 bs) as [[x b]|]; [discriminate|].
        exfalso. apply Hx. reflexivity.
    - (* Prim *)
      destruct (Sg o) as [T1|] eqn:Hs; [|discriminate].
      eapply inst_sound; [eassumption|]. apply T_Prim. assumption.
    - (* AnnT *)
      destruct (infer Sg G a) as [T'|] eqn:He; [|discriminate].
      destruct (ty_eqb T T') eqn:Hq; [|discriminate].
      apply ty_eqb_eq in Hq. subst. inversion Hi; subst. apply T_AnnT. apply IHa. assumption.
    - (* Untyped *)
      destruct (plain u) eqn:Hp; [|discriminate]. inversion Hi; subst. apply T_Untyped. assumption.
    - (* Cast *)
      destruct (infer Sg G a) as [Te|] eqn:He; [|discriminate].
      destruct Te; try discriminate.
      destruct (first_order T) eqn:Hf; [|discriminate].
      inversion Hi; subst. apply T_Cast; [apply IHa; assumption|assumption].
    - (* Sub *)
      destruct (infer Sg G a) as [A|] eqn:He; [|discriminate].
      destruct (subb A T) eqn:Hs; [|discriminate].
      inversion Hi; subst. eapply T_Sub; [apply IHa; eassumption|]. apply subb_sound. assumption.
  Qed.

  Theorem checker_sound_lemma : forall a T,
    check_deriv Sg a T = true -> has_type Sg [] (erase a) T.
  Proof.
    intros a T H. unfold check_deriv in H.
    destruct (infer Sg [] a) as [T'|] eqn:Hi; [|discriminate].
    apply ty_eqb_eq in H. subst. apply infer_sound. assumption.
  Qed.
End Sound.
