(* C01 / T0 — [sig_sound_generated]: the static primop type table of the real typechecker and the
   observed run-time dispatch of the real interpreter agree.  Re-checked by coqc on every run
   against the freshly generated Gen/PrimopSig.v and Gen/PrimopDyn.v. *)
From Coq Require Import List String Bool.
Import ListNotations.
From NV Require Import Types.SigDefs Gen.PrimopSig Gen.PrimopDyn.

Lemma kind_eqb_eq : forall a b, kind_eqb a b = true <-> a = b.
Proof. intros a b; split; [destruct a, b; simpl; congruence || discriminate | intros ->; destruct b; reflexivity]. Qed.

Lemma mem_str_In : forall s l, mem_str s l = true <-> In s l.
Proof.
  intros s l; unfold mem_str; rewrite existsb_exists; split.
  - intros [x [Hin Heq]]. apply String.eqb_eq in Heq. subst. exact Hin.
  - intros Hin. exists s. split; [exact Hin | apply String.eqb_refl].
Qed.

Lemma vectors_for_cons : forall T rest,
  vectors_for (T :: rest) =
  flat_map (fun k => map (cons k) (vectors_for rest)) (filter (fun k => inhabits k T) repr_kinds).
Proof. reflexivity. Qed.

(* Every inhabiting vector over the representable kinds is enumerated by [vectors_for]. *)
Lemma vectors_for_complete : forall args ks,
  Forall2 (fun k T => inhabits k T = true) ks args ->
  Forall (fun k => In k repr_kinds) ks ->
  In ks (vectors_for args).
Proof.
  induction args as [|T rest IH]; intros ks HF Hrep.
  - inversion HF; subst. simpl. left. reflexivity.
  - inversion HF as [|k T' ks' rest' Hk Hrest]; subst.
    inversion Hrep as [|k' ks'' Hkin Hrep']; subst.
    rewrite vectors_for_cons. apply in_flat_map. exists k. split.
    + apply filter_In. split; assumption.
    + apply in_map. apply IH; assumption.
Qed.

Lemma table_ok_generated : table_ok exempt_ops sig_table dyn_table = true.
Proof. vm_compute. reflexivity. Qed.

(* The statement: for every primitive operation of the generated static table that is not one of
   the listed internal label/contract/sealing operations, and every vector of representable
   run-time kinds inhabiting its static argument types, the generated dynamic table has a row for
   that vector, no dynamic type error class was observed on it, and every observed result kind
   inhabits the static result type.  The finite tables are in the statement. *)
Theorem sig_sound_generated_lemma :
  forall r, In r sig_table -> ~ In r.(s_name) exempt_ops ->
  forall ks, Forall (fun k => In k repr_kinds) ks ->
    Forall2 (fun k T => inhabits k T = true) ks r.(s_args) ->
    exists d, lookup_dyn dyn_table r.(s_name) ks = Some d
              /\ (forall c, In c d.(d_errs) -> bad_class r.(s_name) c = false)
              /\ (forall k, In k d.(d_kinds) -> inhabits k r.(s_res) = true).
Proof.
  intros r Hr Hex ks Hrep Hinh.
  pose proof table_ok_generated as Hok. unfold table_ok in Hok.
  rewrite forallb_forall in Hok. specialize (Hok r Hr). unfold row_ok in Hok.
  apply orb_true_iff in Hok. destruct Hok as [Hm | Hall].
  - exfalso. apply Hex. apply mem_str_In. exact Hm.
  - rewrite forallb_forall in Hall.
    specialize (Hall ks (vectors_for_complete _ _ Hinh Hrep)).
    destruct (lookup_dyn dyn_table (s_name r) ks) as [d|] eqn:Hl; [|discriminate].
    exists d. split; [reflexivity|]. unfold dres_ok in Hall.
    apply andb_true_iff in Hall. destruct Hall as [Hneg Hk]. split.
    + intros c Hc. destruct (bad_class (s_name r) c) eqn:Hb; [|reflexivity].
      exfalso. apply negb_true_iff in Hneg.
      assert (existsb (bad_class (s_name r)) (d_errs d) = true) as Hx
        by (apply existsb_exists; exists c; split; assumption).
      congruence.
    + intros k Hkin. rewrite forallb_forall in Hk. apply Hk. exact Hkin.
Qed.

(* Non-vacuity: the table is not empty, has non-exempt rows, and those have inhabiting vectors. *)
Example sig_table_nonexempt_rows :
  List.length (filter (fun r => negb (mem_str r.(s_name) exempt_ops)) sig_table) >= 60.
Proof. vm_compute. repeat constructor. Qed.

Example plus_row_has_vector :
  exists r, In r sig_table /\ r.(s_name) = "(+)"%string /\ vectors_for r.(s_args) = [[KNum; KNum]].
Proof.
  destruct (find (fun r => String.eqb r.(s_name) "(+)") sig_table) as [r|] eqn:Hf.
  - exists r. pose proof (find_some _ _ Hf) as [Hin Hn]. apply String.eqb_eq in Hn.
    split; [exact Hin|]. split; [exact Hn|].
    revert Hf. vm_compute. intros Hf. inversion Hf. reflexivity.
  - revert Hf. vm_compute. discriminate.
Qed.
