(* C01 — type safety of the fragment: the fundamental lemma of the logical relation and its
   corollary [type_safety]. *)
From Coq Require Import List String Bool Arith QArith Lia.
Import ListNotations.
From NV Require Import Types.Syntax Types.Sem Types.Pure Types.Decl Types.LogRel.
Close Scope Q_scope.
Open Scope string_scope.
Local Arguments Nat.eqb : simpl never.

(* Every primitive inhabits the semantic interpretation of its declared static type. *)
Definition sig_sound (Sg : sigma) : Prop :=
  forall o T d dr, Sg o = Some T -> V T d dr (VPrim o []).

Definition env_ok (G : ctx) (d : list cand) (dr : list rcand) (rho : env) : Prop :=
  forall x T, assoc x G = Some T -> exists t, assoc x rho = Some t /\ TT (V T d dr) t.

Lemma env_ok_nil : forall d dr, env_ok [] d dr [].
Proof. intros d dr x T H. discriminate. Qed.

Lemma env_ok_cons : forall G d dr rho x A t,
  env_ok G d dr rho -> TT (V A d dr) t -> env_ok ((x, A) :: G) d dr ((x, t) :: rho).
Proof.
  intros G d dr rho x A t He Ht y T Hy. simpl in *. destruct (String.eqb y x).
  - inversion Hy; subst. exists t. split; [reflexivity|assumption].
  - apply He. assumption.
Qed.

Lemma assoc_shift_ctx : forall G x T',
  assoc x (shift_ctx G) = Some T' -> exists T, assoc x G = Some T /\ T' = shift 0 T.
Proof.
  induction G as [|[y U] G IH]; simpl; intros x T' H; [discriminate|].
  destruct (String.eqb x y).
  - inversion H; subst. exists U. split; reflexivity.
  - apply IH. assumption.
Qed.

Lemma env_ok_shift : forall G d dr rho R, env_ok G d dr rho -> env_ok (shift_ctx G) (R :: d) dr rho.
Proof.
  intros G d dr rho R He x T' Hx. apply assoc_shift_ctx in Hx. destruct Hx as [T [Hx ->]].
  destruct (He x T Hx) as [t [Ha Ht]]. exists t. split; [assumption|].
  eapply TT_ext; [|eassumption]. intros v. apply V_shift0.
Qed.

Lemma assoc_shiftR_ctx : forall G x T',
  assoc x (shiftR_ctx G) = Some T' -> exists T, assoc x G = Some T /\ T' = shiftR 0 T.
Proof.
  induction G as [|[y U] G IH]; simpl; intros x T' H; [discriminate|].
  destruct (String.eqb x y).
  - inversion H; subst. exists U. split; reflexivity.
  - apply IH. assumption.
Qed.

Lemma env_ok_shiftR : forall G d dr rho R, env_ok G d dr rho -> env_ok (shiftR_ctx G) d (R :: dr) rho.
Proof.
  intros G d dr rho R He x T' Hx. apply assoc_shiftR_ctx in Hx. destruct Hx as [T [Hx ->]].
  destruct (He x T Hx) as [t [Ha Ht]]. exists t. split; [assumption|].
  eapply TT_ext; [|eassumption]. intros v. apply V_shiftR0.
Qed.

(* ------------------------------------------------------------------------------ contracts *)

Lemma wrap_TT : forall T d dr,
  (forall v, pure_whnf v -> ok_out (V T d dr) (cast_whnf MTyped T v)) ->
  forall t, pure_thunk t -> TT (V T d dr) (wrap MTyped T t).
Proof.
  intros T d dr HT t Ht n. unfold wrap. simpl.
  destruct n as [|n]; [exact I|]. simpl.
  destruct n as [|n]; [exact I|]. simpl.
  destruct t as [m' e' rho'].
  pose proof (pure_thunk_out _ n Ht) as Hp. simpl in Hp.
  destruct (eval n m' rho' e') as [v|e|]; simpl in *; auto.
Qed.

Lemma wrap_fields_names : forall m r fs fs', wrap_fields m r fs = Some fs' -> map fst fs' = rows_fields r.
Proof.
  induction r as [|f T r IH|n]; simpl; intros fs fs' H.
  - inversion H; subst. reflexivity.
  - destruct (assoc f fs); [|discriminate]. destruct (wrap_fields m r fs) as [rest|] eqn:Hr; [|discriminate].
    inversion H; subst. simpl. f_equal. eapply IH; eassumption.
  - discriminate.
Qed.

Lemma first_order_rows_nodup : forall r, first_order_rows r = true -> NoDup (rows_fields r).
Proof.
  induction r as [|f T r IH|n]; simpl; intros H; [constructor| |discriminate].
  apply andb_true_iff in H. destruct H as [H H3]. apply andb_true_iff in H. destruct H as [H1 H2].
  constructor; [|apply IH; assumption].
  intros Hin. apply negb_true_iff in H2.
  assert (existsb (String.eqb f) (rows_fields r) = true) as Hx
    by (apply existsb_exists; exists f; split; [assumption|apply String.eqb_refl]).
  congruence.
Qed.

Lemma cast_sound_mut :
  (forall T, first_order T = true -> forall d dr v, pure_whnf v -> ok_out (V T d dr) (cast_whnf MTyped T v)) /\
  (forall r, first_order_rows r = true -> forall d dr fs, Forall (fun ft => pure_thunk (snd ft)) fs ->
     forall fs', wrap_fields MTyped r fs = Some fs' -> Vrows r d dr fs') /\
  (forall e, first_order_erows e = true -> forall t T', erows_lookup t true e = Some (Some T') ->
     forall d dr v, pure_whnf v -> ok_out (V T' d dr) (cast_whnf MTyped T' v)).
Proof.
  apply ty_rows_ind; simpl; intros; try discriminate.
  - assumption.
  - destruct v; simpl; eauto.
  - destruct v; simpl; eauto.
  - destruct v; simpl; eauto.
  - (* TArr *)
    destruct v; simpl; auto. inversion H1; subst.
    exists (map (wrap MTyped t) ts). split; [reflexivity|].
    apply Forall_forall. intros t' Hin. apply in_map_iff in Hin. destruct Hin as [t0 [<- Hin]].
    apply wrap_TT; [intros; apply H; assumption|].
    eapply Forall_forall; eassumption.
  - (* TRec *)
    destruct v; simpl; auto. inversion H1; subst.
    destruct (forallb _ fs); simpl; auto.
    destruct (wrap_fields MTyped r fs) as [fs'|] eqn:Hw; simpl; auto.
    exists fs'. split; [reflexivity|]. split.
    + rewrite (wrap_fields_names _ _ _ _ Hw). apply first_order_rows_nodup. assumption.
    + eapply H; eauto.
  - (* TDict *)
    destruct v; simpl; auto. inversion H1; subst.
    eexists. split; [reflexivity|].
    apply Forall_forall. intros ft Hin. apply in_map_iff in Hin. destruct Hin as [ft0 [<- Hin]]. simpl.
    apply wrap_TT; [intros; apply H; assumption|].
    rewrite Forall_forall in H3. apply (H3 ft0 Hin).
  - (* TEnum *)
    destruct v; simpl; auto.
    + destruct (erows_lookup t false e) as [[T'|]|] eqn:Hl; simpl; auto. apply Verows_tag. assumption.
    + inversion H1; subst.
      destruct (erows_lookup t true e) as [[T'|]|] eqn:Hl; simpl; auto.
      eapply Verows_variant; [eassumption|].
      apply wrap_TT; [|assumption]. intros v' Hv'. eapply H; eassumption.
  - (* RNil *) inversion H1; subst. reflexivity.
  - (* RCons *)
    apply andb_true_iff in H1. destruct H1 as [H1 Hfr]. apply andb_true_iff in H1. destruct H1 as [Hft Hnd].
    destruct (assoc f fs) as [t0|] eqn:Ha; [|discriminate].
    destruct (wrap_fields MTyped r fs) as [rest|] eqn:Hr; [|discriminate].
    inversion H3; subst. simpl. rewrite String.eqb_refl. split.
    + exists (wrap MTyped t t0). split; [reflexivity|].
      apply wrap_TT; [intros; apply H; assumption|].
      eapply (assoc_Forall pure_thunk); eassumption.
    + simpl. rewrite remove_field_notin; [eapply H0; eauto|].
      rewrite (wrap_fields_names _ _ _ _ Hr). intros Hin. apply negb_true_iff in Hnd.
      assert (existsb (String.eqb f) (rows_fields r) = true) as Hx
        by (apply existsb_exists; exists f; split; [assumption|apply String.eqb_refl]).
      congruence.
  - (* EBare *)
    rewrite andb_false_r in H1. eapply H; eassumption.
  - (* EArg *)
    apply andb_true_iff in H1. destruct H1 as [Hft Hfe].
    rewrite andb_true_r in H2. destruct (String.eqb t0 t).
    + inversion H2; subst. apply H; assumption.
    + eapply H0; eassumption.
Qed.

(* ------------------------------------------------------------------------------ subtyping *)

Lemma ok_out_mono : forall (P Q : cand) o, (forall v, P v -> Q v) -> ok_out P o -> ok_out Q o.
Proof. intros P Q [v|e|] H; simpl; auto. Qed.

Lemma TT_mono : forall (P Q : cand) t, (forall v, P v -> Q v) -> TT P t -> TT Q t.
Proof. intros P Q t H Ht n. eapply ok_out_mono; [eassumption|apply Ht]. Qed.

Lemma sub_sound_mut :
  (forall A B, sub A B -> forall d dr v, V A d dr v -> V B d dr v) /\
  (forall r U, rows_sub_all r U -> forall d dr fs, NoDup (map fst fs) -> Vrows r d dr fs ->
     Forall (fun ft => TT (V U d dr) (snd ft)) fs) /\
  (forall r s, rows_sub r s -> forall d dr fs, Vrows r d dr fs -> Vrows s d dr fs).
Proof.
  apply sub_ind3; intros.
  - assumption.
  - simpl in *. destruct H1 as [fs [-> [Hnd Hr]]]. exists fs. split; [reflexivity|]. eapply H0; eassumption.
  - simpl in *. destruct H1 as [ts [-> HF]]. exists ts. split; [reflexivity|].
    rewrite Forall_forall in *. intros t Hin. specialize (HF t Hin).
    eapply TT_mono; [|exact HF]. intros v'. apply H0.
  - simpl in *. destruct H1 as [fs [-> HF]]. exists fs. split; [reflexivity|].
    rewrite Forall_forall in *. intros t Hin. specialize (HF t Hin).
    eapply TT_mono; [|exact HF]. intros v'. apply H0.
  - simpl in *. destruct H1 as [fs [-> [Hnd Hr]]]. exists fs. split; [reflexivity|]. split; [assumption|].
    apply H0. assumption.
  - (* SA_nil *) simpl in H0. subst. constructor.
  - (* SA_cons *)
    simpl in H4. destruct H4 as [[t [Ha Ht]] Hr].
    pose proof (H2 d dr (remove_field f fs) (NoDup_remove_field f fs H3) Hr) as Hrest.
    apply Forall_forall. intros ft Hin. destruct (String.eqb (fst ft) f) eqn:Hq.
    + apply String.eqb_eq in Hq. destruct ft as [g u]. simpl in Hq. subst g.
      pose proof (NoDup_assoc fs f u H3 Hin) as Hau. rewrite Ha in Hau. inversion Hau; subst.
      simpl. eapply TT_mono; [|eassumption]. intros v'. apply H0.
    + rewrite Forall_forall in Hrest. apply Hrest. apply remove_field_In. split; [assumption|].
      intros Heq. rewrite Heq in Hq. rewrite String.eqb_refl in Hq. discriminate.
  - (* SR_nil *) assumption.
  - (* SR_cons *)
    simpl in *. destruct H3 as [[t [Ha Ht]] Hr]. split.
    + exists t. split; [assumption|]. eapply TT_mono; [|eassumption]. intros v'. apply H0.
    + apply H2. assumption.
  - (* SR_var *) assumption.
Qed.

(* ------------------------------------------------------------------- the fundamental lemma *)

Definition mk_thunks (rho : env) (es : list tm) : list thunk := map (fun e => Thunk MTyped e rho) es.
Definition mk_fields (rho : env) (fs : list (string * tm)) : list (string * thunk) :=
  map (fun fe => (fst fe, Thunk MTyped (snd fe) rho)) fs.

Section Fundamental.
  Variable Sg : sigma.
  Hypothesis HSg : sig_sound Sg.

  Lemma fundamental :
    (forall G e T, has_type Sg G e T ->
       forall d dr rho, env_ok G d dr rho -> forall n, ok_out (V T d dr) (eval n MTyped rho e)) /\
    (forall G es T, has_types Sg G es T ->
       forall d dr rho, env_ok G d dr rho -> Forall (TT (V T d dr)) (mk_thunks rho es)) /\
    (forall G fs r, has_fields Sg G fs r ->
       forall d dr rho, env_ok G d dr rho -> NoDup (map fst fs) -> Vrows r d dr (mk_fields rho fs)) /\
    (forall G r bs T, has_branches Sg G r bs T ->
       forall d dr rho, env_ok G d dr rho ->
       (forall t x b, find_branch t false bs = Some (x, b) ->
          forall n, ok_out (V T d dr) (eval n MTyped rho b)) /\
       (forall t x b A th, find_branch t true bs = Some (x, b) -> erows_lookup t true r = Some (Some A) ->
          TT (V A d dr) th -> exists y, x = Some y /\ forall n, ok_out (V T d dr) (eval n MTyped ((y, th) :: rho) b))).
  Proof.
    apply typing_ind; intros.
    - (* Var *)
      destruct n as [|n]; [exact I|]. simpl.
      destruct (H0 x T H) as [t [Ha Ht]]. rewrite Ha. destruct t as [m' e' rho'].
      apply (Ht n).
    - destruct n as [|n]; [exact I|]. simpl. eauto.
    - destruct n as [|n]; [exact I|]. simpl. eauto.
    - destruct n as [|n]; [exact I|]. simpl. eauto.
    - (* Lam *)
      destruct n as [|n]; [exact I|]. simpl.
      intros t Ht n0. unfold app_out. simpl.
      apply H0. apply env_ok_cons; assumption.
    - (* App *)
      destruct n as [|n]; [exact I|]. simpl.
      pose proof (H0 d dr rho H3 n) as Hf.
      destruct (eval n MTyped rho f) as [v|e|]; simpl in *; auto.
      apply (Hf (Thunk MTyped a rho)).
      intros n0. simpl. apply H2. assumption.
    - (* Let *)
      destruct n as [|n]; [exact I|]. simpl.
      apply H2. apply env_ok_cons; [assumption|].
      intros n0. simpl. apply H0. assumption.
    - (* If *)
      destruct n as [|n]; [exact I|]. simpl.
      pose proof (H0 d dr rho H5 n) as Hc.
      destruct (eval n MTyped rho c) as [v|e0|]; simpl in *; auto.
      destruct Hc as [b ->]. destruct b; [apply H2|apply H4]; assumption.
    - (* Arr *)
      destruct n as [|n]; [exact I|]. simpl.
      exists (mk_thunks rho es). split; [reflexivity|]. apply H0. assumption.
    - (* Rec *)
      destruct n as [|n]; [exact I|]. simpl.
      exists (mk_fields rho fs). split; [reflexivity|]. split.
      + unfold mk_fields. rewrite map_map. simpl. assumption.
      + apply H1; assumption.
    - (* Proj *)
      destruct n as [|n]; [exact I|]. simpl.
      pose proof (H0 d dr rho H2 n) as He.
      destruct (eval n MTyped rho e) as [v|e0|]; simpl in *; auto.
      destruct He as [fs [-> [Hnd Hr]]].
      destruct (Vrows_lookup _ _ _ _ _ _ Hr H1) as [t [Ha Ht]]. rewrite Ha.
      destruct t as [m' e' rho']. apply (Ht n).
    - (* Tag *)
      destruct n as [|n]; [exact I|]. simpl. apply Verows_tag. assumption.
    - (* Variant *)
      destruct n as [|n]; [exact I|]. simpl. eapply Verows_variant; [eassumption|].
      intros n0. simpl. apply H1. assumption.
    - (* Match *)
      destruct n as [|n]; [exact I|]. simpl.
      pose proof (H0 d dr rho H4 n) as He.
      destruct (eval n MTyped rho e) as [v|e0|]; simpl in *; auto.
      destruct (H2 d dr rho H4) as [Hb0 Hb1].
      destruct (Verows_inv _ _ _ _ He) as [[t [-> Hl]]|[t [th [A [-> [Hl Ht]]]]]].
      + destruct (find_branch t false bs) as [[x b]|] eqn:Hf.
        * eapply Hb0; eassumption.
        * exfalso. eapply (H3 t false None); eassumption.
      + destruct (find_branch t true bs) as [[x b]|] eqn:Hf.
        * destruct (Hb1 t x b A th Hf Hl Ht) as [y [-> Hy]]. apply Hy.
        * exfalso. eapply (H3 t true (Some A)); eassumption.
    - (* MatchD *)
      destruct n as [|n]; [exact I|]. simpl.
      pose proof (H0 d0 dr rho H5 n) as He.
      destruct (eval n MTyped rho e) as [v|e0|]; simpl in *; auto.
      destruct (H2 d0 dr rho H5) as [Hb0 Hb1].
      destruct (Verows_inv _ _ _ _ He) as [[t [-> Hl]]|[t [th [A [-> [Hl Ht]]]]]].
      + destruct (find_branch t false bs) as [[x b]|] eqn:Hf.
        * eapply Hb0; eassumption.
        * apply H4. assumption.
      + destruct (find_branch t true bs) as [[x b]|] eqn:Hf.
        * destruct (Hb1 t x b A th Hf Hl Ht) as [y [-> Hy]]. apply Hy.
        * apply H4. assumption.
    - (* Prim *)
      destruct n as [|n]; [exact I|]. simpl. eapply HSg. eassumption.
    - (* AnnT *)
      destruct n as [|n]; [exact I|]. simpl. apply H0. assumption.
    - (* Untyped *)
      destruct n as [|n]; [exact I|]. simpl.
      pose proof (eval_pure n u [] H (Forall_nil _)) as Hp.
      destruct (eval n MUntyped [] u); simpl in *; auto.
    - (* Cast *)
      destruct n as [|n]; [exact I|]. simpl.
      pose proof (H0 d dr rho H2 n) as He.
      destruct (eval n MTyped rho e) as [v|e0|]; simpl in *; auto.
      apply (proj1 cast_sound_mut); assumption.
    - (* Gen *)
      assert (Hall : forall R, ok_out (V T (R :: d) dr) (eval n MTyped rho e)).
      { intros R. apply H0. apply env_ok_shift. assumption. }
      destruct (eval n MTyped rho e) as [v|e0|]; simpl in *; auto.
      apply (Hall (fun _ => True)).
    - (* Inst *)
      pose proof (H0 d dr rho H1 n) as He.
      destruct (eval n MTyped rho e) as [v|e0|]; simpl in *; auto.
      apply V_subst0. apply He.
    - (* Sub *)
      pose proof (H0 d dr rho H2 n) as He.
      eapply ok_out_mono; [|eassumption]. intros v. apply (proj1 sub_sound_mut _ _ H1).
    - (* GenR *)
      assert (Hall : forall R, ok_out (V T d (R :: dr)) (eval n MTyped rho e)).
      { intros R. apply H0. apply env_ok_shiftR. assumption. }
      destruct (eval n MTyped rho e) as [v|e0|]; simpl in *; auto.
      apply (Hall (fun _ => True)).
    - (* InstR *)
      pose proof (H0 d dr rho H1 n) as He.
      destruct (eval n MTyped rho e) as [v|e0|]; simpl in *; auto.
      apply V_substR0. apply He.
    - (* types nil *) constructor.
    - (* types cons *)
      simpl. constructor.
      + intros n. simpl. apply H0. assumption.
      + apply H2. assumption.
    - (* fields nil *) reflexivity.
    - (* fields cons *)
      simpl in H4. inversion H4; subst. simpl. rewrite String.eqb_refl. split.
      + eexists. split; [reflexivity|]. intros n. simpl. apply H0. assumption.
      + simpl. rewrite remove_field_notin.
        * apply H2; assumption.
        * unfold mk_fields. rewrite map_map. simpl. assumption.
    - (* branches nil *) split; intros; discriminate.
    - (* branches bare *)
      destruct (H2 d dr rho H3) as [Hb0 Hb1]. split.
      + intros t0 x b0 Hf n. cbn [find_branch] in Hf.
        revert Hf. destruct (String.eqb t0 t && Bool.eqb false false) eqn:Hq; intros Hf.
        * inversion Hf; subst. apply H0. assumption.
        * eapply Hb0; eassumption.
      + intros t0 x b0 A th Hf Hl Ht. cbn [find_branch] in Hf.
        revert Hf. destruct (String.eqb t0 t && Bool.eqb true false) eqn:Hq; intros Hf.
        * simpl in Hq. rewrite andb_false_r in Hq. discriminate.
        * eapply Hb1; eassumption.
    - (* branches arg *)
      destruct (H3 d dr rho H4) as [Hb0 Hb1]. split.
      + intros t0 x0 b0 Hf n. cbn [find_branch] in Hf.
        revert Hf. destruct (String.eqb t0 t && Bool.eqb false true) eqn:Hq; intros Hf.
        * simpl in Hq. rewrite andb_false_r in Hq. discriminate.
        * eapply Hb0; eassumption.
      + intros t0 x0 b0 A0 th Hf Hl Ht. cbn [find_branch] in Hf.
        revert Hf. destruct (String.eqb t0 t && Bool.eqb true true) eqn:Hq; intros Hf.
        * inversion Hf; subst. apply andb_true_iff in Hq. destruct Hq as [Hq _].
          apply String.eqb_eq in Hq. subst. rewrite H in Hl. inversion Hl; subst.
          exists x. split; [reflexivity|]. intros n. apply H1. apply env_ok_cons; assumption.
        * eapply Hb1; eassumption.
  Qed.
End Fundamental.

(* --------------------------------------------------------------------- deep evaluation *)

(* candidates all of whose members can be forced safely *)
Definition deep_ok (v : whnf) : Prop := forall n, safe_outcome (force n v).
Definition cands_deep (d : list cand) : Prop := Forall (fun R : cand => forall v, R v -> deep_ok v) d.

Lemma bind_safe : forall {A B} (o : outcome A) (f : A -> outcome B),
  safe_outcome o -> (forall a, o = Ok a -> safe_outcome (f a)) -> safe_outcome (bind o f).
Proof. intros A B [a|e|] f Ho Hf; simpl in *; auto. Qed.

Lemma force_list_safe : forall (P : cand) n ts,
  (forall v, P v -> safe_outcome (force n v)) ->
  Forall (TT P) ts -> safe_outcome (force_list (force n) (eval_thunk n) ts).
Proof.
  intros P n ts HP. induction ts as [|t ts IH]; intros HF; simpl; [exact I|].
  inversion HF; subst. specialize (H1 n).
  destruct (eval_thunk n t) as [v|e|]; simpl in *; auto.
  pose proof (HP v H1) as Hf. destruct (force n v) as [dv|e|]; simpl in *; auto.
  specialize (IH H2). destruct (force_list (force n) (eval_thunk n) ts); simpl in *; auto.
Qed.

Lemma pure_deep : forall n v, pure_whnf v -> safe_outcome (force n v).
Proof.
  induction n as [|n IH]; intros v Hv; [exact I|].
  destruct v; simpl; auto;
    try (inversion Hv; subst;
         match goal with
         | Hp : pure_thunk ?th |- context [eval_thunk n ?th] =>
             pose proof (pure_thunk_out th n Hp) as Hq;
             destruct (eval_thunk n th) as [v'|e'|]; simpl in *; auto;
             pose proof (IH v' Hq) as Hf; destruct (force n v'); simpl in *; auto
         end; fail).
  - inversion Hv; subst.
    assert (Hl : safe_outcome (force_list (force n) (eval_thunk n) ts)).
    { clear Hv. induction ts as [|t ts IHt]; simpl; [exact I|].
      inversion H0; subst. pose proof (pure_thunk_out t n H2) as Hp.
      destruct (eval_thunk n t) as [v|e|]; simpl in *; auto.
      pose proof (IH v Hp) as Hf. destruct (force n v); simpl in *; auto.
      specialize (IHt H3). destruct (force_list (force n) (eval_thunk n) ts); simpl in *; auto. }
    destruct (force_list (force n) (eval_thunk n) ts); simpl in *; auto.
  - inversion Hv; subst.
    assert (Hl : safe_outcome (force_fields (force n) (eval_thunk n) fs)).
    { clear Hv. induction fs as [|[f t] fs IHt]; simpl; [exact I|].
      inversion H0; subst. simpl in H2. pose proof (pure_thunk_out t n H2) as Hp.
      destruct (eval_thunk n t) as [v|e|]; simpl in *; auto.
      pose proof (IH v Hp) as Hf. destruct (force n v); simpl in *; auto.
      specialize (IHt H3). destruct (force_fields (force n) (eval_thunk n) fs); simpl in *; auto. }
    destruct (force_fields (force n) (eval_thunk n) fs); simpl in *; auto.
Qed.

(* forcing one field *)
Definition elem_safe (n : nat) (t : thunk) : Prop :=
  safe_outcome (bind (eval_thunk n t) (force n)).

Lemma force_fields_safe : forall n fs,
  (forall ft, In ft fs -> elem_safe n (snd ft)) ->
  safe_outcome (force_fields (force n) (eval_thunk n) fs).
Proof.
  intros n fs. induction fs as [|[f t] fs IH]; intros H; simpl; [exact I|].
  pose proof (H (f, t) (or_introl eq_refl)) as Ht. unfold elem_safe in Ht. simpl in Ht.
  destruct (eval_thunk n t) as [v|e|]; simpl in *; auto.
  destruct (force n v) as [dv|e|]; simpl in *; auto.
  assert (Hr : safe_outcome (force_fields (force n) (eval_thunk n) fs)) by (apply IH; intros; apply H; right; assumption).
  destruct (force_fields (force n) (eval_thunk n) fs); simpl in *; auto.
Qed.

Definition rcands_deep (dr : list rcand) : Prop :=
  Forall (fun R : rcand => forall fs, R fs -> forall n ft, In ft fs -> elem_safe n (snd ft)) dr.

Lemma force_safe_mut :
  (forall T d dr, cands_deep d -> rcands_deep dr -> forall v, V T d dr v -> forall n, safe_outcome (force n v)) /\
  (forall r d dr, cands_deep d -> rcands_deep dr -> forall fs, NoDup (map fst fs) -> Vrows r d dr fs ->
     forall n ft, In ft fs -> elem_safe n (snd ft)) /\
  (forall e d dr, cands_deep d -> rcands_deep dr -> forall t T, erows_lookup t true e = Some (Some T) ->
     forall v, V T d dr v -> forall n, safe_outcome (force n v)).
Proof.
  apply ty_rows_ind; intros.
  - apply pure_deep. assumption.
  - destruct H1 as [q ->]. destruct n; simpl; exact I.
  - destruct H1 as [q ->]. destruct n; simpl; exact I.
  - destruct H1 as [q ->]. destruct n; simpl; exact I.
  - (* TArr *)
    destruct H2 as [ts [-> HF]]. destruct n as [|n]; [exact I|]. simpl.
    assert (Hl : safe_outcome (force_list (force n) (eval_thunk n) ts)).
    { eapply force_list_safe; [|eassumption]. intros v Hv. eapply H; eauto. }
    destruct (force_list (force n) (eval_thunk n) ts); simpl in *; auto.
  - (* TFun: only closures and partially applied primitives are semantic functions *)
    destruct n as [|n]; [exact I|].
    assert (Hbad : (forall t0, apply_with (eval 0) MTyped v t0 = Err (ENotAFunc MTyped)) -> False).
    { intros Hw.
      pose proof (H3 (Thunk MUntyped (Var "z") []) (fun k => match k with 0 => I | S _ => I end) 0) as Hx.
      unfold app_out in Hx. rewrite Hw in Hx. exact Hx. }
    destruct v; simpl; auto.
    + exfalso. apply Hbad. reflexivity.
    + exfalso. apply Hbad. reflexivity.
    + exfalso. apply Hbad. reflexivity.
  - (* TRec *)
    destruct H2 as [fs [-> [Hnd Hr]]]. destruct n as [|n]; [exact I|]. simpl.
    assert (Hl : safe_outcome (force_fields (force n) (eval_thunk n) fs)).
    { apply force_fields_safe. intros ft Hin. eapply H; eassumption. }
    destruct (force_fields (force n) (eval_thunk n) fs); simpl in *; auto.
  - (* TDict *)
    destruct H2 as [fs [-> HF]]. destruct n as [|n]; [exact I|]. simpl.
    assert (Hl : safe_outcome (force_fields (force n) (eval_thunk n) fs)).
    { apply force_fields_safe. intros ft Hin. rewrite Forall_forall in HF. specialize (HF ft Hin n).
      unfold elem_safe. destruct (eval_thunk n (snd ft)) as [v|e|]; simpl in *; auto.
      eapply H; eassumption. }
    destruct (force_fields (force n) (eval_thunk n) fs); simpl in *; auto.
  - (* TEnum *)
    simpl in H2. destruct (Verows_inv _ _ _ _ H2) as [[t [-> Hl]]|[t [th [A [-> [Hl Ht]]]]]].
    + destruct n; simpl; exact I.
    + destruct n as [|n]; [exact I|]. simpl. specialize (Ht n).
      destruct (eval_thunk n th) as [v'|e'|]; simpl in *; auto.
      pose proof (H d dr H0 H1 t A Hl v' Ht n) as Hf. destruct (force n v'); simpl in *; auto.
  - (* TVar *)
    simpl in H1. unfold cands_deep in H.
    destruct (nth_in_or_default n d (fun _ : whnf => False)) as [Hin|Hd].
    + rewrite Forall_forall in H. apply (H _ Hin v H1).
    + rewrite Hd in H1. contradiction.
  - (* TForall *)
    simpl in H2. eapply (H ((fun _ => False) :: d) dr).
    + constructor; [intros v0 []|assumption].
    + assumption.
    + apply H2.
  - (* TForallR *)
    simpl in H2. eapply (H d ((fun _ => False) :: dr)).
    + assumption.
    + constructor; [intros fs0 []|assumption].
    + apply H2.
  - (* RNil *)
    simpl in H2. subst. contradiction.
  - (* RCons *)
    simpl in H4. destruct H4 as [[t0 [Ha Ht]] Hr].
    destruct (String.eqb (fst ft) f) eqn:Hq.
    + apply String.eqb_eq in Hq. destruct ft as [g u]. simpl in Hq. subst g.
      pose proof (NoDup_assoc fs f u H3 H5) as Hau. rewrite Ha in Hau. inversion Hau; subst.
      unfold elem_safe. simpl. specialize (Ht n).
      destruct (eval_thunk n u) as [v|e|]; simpl in *; auto.
      eapply H; eassumption.
    + eapply (H0 d dr H1 H2 (remove_field f fs)); [apply NoDup_remove_field; assumption|eassumption|].
      apply remove_field_In. split; [assumption|].
      intros Heq. rewrite Heq in Hq. rewrite String.eqb_refl in Hq. discriminate.
  - (* RVar *)
    simpl in H2. unfold rcands_deep in H0.
    destruct (nth_in_or_default n dr (fun _ : list (string * thunk) => False)) as [Hin|Hd].
    + rewrite Forall_forall in H0. eapply (H0 _ Hin fs H2); eassumption.
    + rewrite Hd in H2. contradiction.
  - (* ENil *) discriminate.
  - (* EBare *)
    simpl in H2. rewrite andb_false_r in H2. eapply H; eassumption.
  - (* EArg *)
    simpl in H3. rewrite andb_true_r in H3. destruct (String.eqb t0 t).
    + inversion H3; subst. eapply H; eassumption.
    + eapply H0; eassumption.
Qed.

(* ------------------------------------------------------------------------------ type safety *)

Theorem type_safety_lemma : forall Sg, sig_sound Sg ->
  forall n e T, has_type Sg [] e T -> safe_outcome (run n e).
Proof.
  intros Sg HSg n e T Hty. unfold run.
  pose proof (proj1 (fundamental Sg HSg) [] e T Hty [] [] [] (env_ok_nil [] []) n) as He.
  destruct (eval n MTyped [] e) as [v|e0|]; simpl in *; auto.
  apply (proj1 force_safe_mut T [] []); [constructor|constructor|assumption].
Qed.

(* the value of a typed block inhabits the semantic interpretation of its annotation: the block can
   never be blamed for the contract derived from its own (first-order) annotation *)
Theorem typed_result_in_type : forall Sg, sig_sound Sg ->
  forall n e T v, has_type Sg [] e T -> eval n MTyped [] e = Ok v -> V T [] [] v.
Proof.
  intros Sg HSg n e T v Hty Hev.
  pose proof (proj1 (fundamental Sg HSg) [] e T Hty [] [] [] (env_ok_nil [] []) n) as He.
  rewrite Hev in He. exact He.
Qed.
