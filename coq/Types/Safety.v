(* C01 — type safety of the fragment: the fundamental lemma of the logical relation and its
   corollary [type_safety]. *)
From Coq Require Import List String Bool Arith QArith Lia.
Import ListNotations.
From NV Require Import Types.Syntax Types.Sem Types.Pure Types.Decl Types.LogRel.
Close Scope Q_scope.
Open Scope string_scope.
Local Arguments Nat.eqb : simpl never.

(* Every primitive inhabits the semantic interpretation of its declared static type. *)
Definition sig_sound (Sg : sigma) : Prop :=
  forall o T d, Sg o = Some T -> V T d (VPrim o []).

Definition env_ok (G : ctx) (d : list cand) (rho : env) : Prop :=
  forall x T, assoc x G = Some T -> exists t, assoc x rho = Some t /\ TT (V T d) t.

Lemma env_ok_nil : forall d, env_ok [] d [].
Proof. intros d x T H. discriminate. Qed.

Lemma env_ok_cons : forall G d rho x A t,
  env_ok G d rho -> TT (V A d) t -> env_ok ((x, A) :: G) d ((x, t) :: rho).
Proof.
  intros G d rho x A t He Ht y T Hy. simpl in *. destruct (String.eqb y x).
  - inversion Hy; subst. exists t. split; [reflexivity|assumption].
  - apply He. assumption.
Qed.

Lemma assoc_shift_ctx : forall G x T',
  assoc x (shift_ctx G) = Some T' -> exists T, assoc x G = Some T /\ T' = shift 0 T.
Proof.
  induction G as [|[y U] G IH]; simpl; intros x T' H; [discriminate|].
  destruct (String.eqb x y).
  - inversion H; subst. exists U. split; reflexivity.
  - apply IH. assumption.
Qed.

Lemma env_ok_shift : forall G d rho R, env_ok G d rho -> env_ok (shift_ctx G) (R :: d) rho.
Proof.
  intros G d rho R He x T' Hx. apply assoc_shift_ctx in Hx. destruct Hx as [T [Hx ->]].
  destruct (He x T Hx) as [t [Ha Ht]]. exists t. split; [assumption|].
  eapply TT_ext; [|eassumption]. intros v. apply V_shift0.
Qed.

(* ------------------------------------------------------------------------------ contracts *)

Lemma wrap_TT : forall T d,
  (forall v, pure_whnf v -> ok_out (V T d) (cast_whnf MTyped T v)) ->
  forall t, pure_thunk t -> TT (V T d) (wrap MTyped T t).
Proof.
  intros T d HT t Ht n. unfold wrap. simpl.
  destruct n as [|n]; [exact I|]. simpl.
  destruct n as [|n]; [exact I|]. simpl.
  destruct t as [m' e' rho'].
  pose proof (pure_thunk_out _ n Ht) as Hp. simpl in Hp.
  destruct (eval n m' rho' e') as [v|e|]; simpl in *; auto.
Qed.

Lemma cast_sound_mut :
  (forall T, first_order T = true -> forall d v, pure_whnf v -> ok_out (V T d) (cast_whnf MTyped T v)) /\
  (forall r, first_order_rows r = true -> forall d fs, Forall (fun ft => pure_thunk (snd ft)) fs ->
     forall fs', wrap_fields MTyped r fs = Some fs' -> Vrows r d fs') /\
  (forall e, first_order_erows e = true -> forall t T', erows_lookup t e = Some (Some T') ->
     forall d v, pure_whnf v -> ok_out (V T' d) (cast_whnf MTyped T' v)).
Proof.
  apply ty_rows_ind; simpl; intros; try discriminate.
  - assumption.
  - destruct v; simpl; eauto.
  - destruct v; simpl; eauto.
  - destruct v; simpl; eauto.
  - (* TArr *)
    destruct v; simpl; auto. inversion H1; subst.
    exists (map (wrap MTyped t) ts). split; [reflexivity|].
    apply Forall_forall. intros t' Hin. apply in_map_iff in Hin. destruct Hin as [t0 [<- Hin]].
    apply wrap_TT; [intros; apply H; assumption|].
    eapply Forall_forall; eassumption.
  - (* TRec *)
    destruct v; simpl; auto. inversion H1; subst.
    destruct (forallb _ fs); simpl; auto.
    destruct (wrap_fields MTyped r fs) as [fs'|] eqn:Hw; simpl; auto.
    exists fs'. split; [reflexivity|]. eapply H; eauto.
  - (* TDict *)
    destruct v; simpl; auto. inversion H1; subst.
    eexists. split; [reflexivity|].
    apply Forall_forall. intros ft Hin. apply in_map_iff in Hin. destruct Hin as [ft0 [<- Hin]]. simpl.
    apply wrap_TT; [intros; apply H; assumption|].
    rewrite Forall_forall in H3. apply (H3 ft0 Hin).
  - (* TEnum *)
    destruct v; simpl; auto.
    + destruct (erows_lookup t e) as [[T'|]|] eqn:Hl; simpl; auto. apply Verows_tag. assumption.
    + inversion H1; subst.
      destruct (erows_lookup t e) as [[T'|]|] eqn:Hl; simpl; auto.
      eapply Verows_variant; [eassumption|].
      apply wrap_TT; [|assumption]. intros v' Hv'. eapply H; eassumption.
  - (* RNil *) inversion H1; subst. exact I.
  - (* RCons *)
    apply andb_true_iff in H1. destruct H1 as [Hft Hfr].
    destruct (assoc f fs) as [t0|] eqn:Ha; [|discriminate].
    destruct (wrap_fields MTyped r fs) as [rest|] eqn:Hr; [|discriminate].
    inversion H3; subst. simpl. split; [reflexivity|]. split.
    + apply wrap_TT; [intros; apply H; assumption|].
      eapply (assoc_Forall pure_thunk); eassumption.
    + eapply H0; eauto.
  - (* EBare *)
    destruct (String.eqb t0 t); [discriminate|]. eapply H; eassumption.
  - (* EArg *)
    apply andb_true_iff in H1. destruct H1 as [Hft Hfe].
    destruct (String.eqb t0 t).
    + inversion H2; subst. apply H; assumption.
    + eapply H0; eassumption.
Qed.

(* ------------------------------------------------------------------------------ subtyping *)

Lemma ok_out_mono : forall (P Q : cand) o, (forall v, P v -> Q v) -> ok_out P o -> ok_out Q o.
Proof. intros P Q [v|e|] H; simpl; auto. Qed.

Lemma TT_mono : forall (P Q : cand) t, (forall v, P v -> Q v) -> TT P t -> TT Q t.
Proof. intros P Q t H Ht n. eapply ok_out_mono; [eassumption|apply Ht]. Qed.

Lemma sub_sound_mut :
  (forall A B, sub A B -> forall d v, V A d v -> V B d v) /\
  (forall r U, rows_sub_all r U -> forall d fs, Vrows r d fs ->
     Forall (fun ft => TT (V U d) (snd ft)) fs) /\
  (forall r s, rows_sub r s -> forall d fs, Vrows r d fs -> Vrows s d fs).
Proof.
  apply sub_ind3; intros.
  - assumption.
  - simpl in *. destruct H1 as [fs [-> Hr]]. exists fs. split; [reflexivity|]. apply H0. assumption.
  - simpl in *. destruct H1 as [ts [-> HF]]. exists ts. split; [reflexivity|].
    rewrite Forall_forall in *. intros t Hin. specialize (HF t Hin).
    eapply TT_mono; [|exact HF]. intros v'. apply H0.
  - simpl in *. destruct H1 as [fs [-> HF]]. exists fs. split; [reflexivity|].
    rewrite Forall_forall in *. intros t Hin. specialize (HF t Hin).
    eapply TT_mono; [|exact HF]. intros v'. apply H0.
  - simpl in *. destruct H1 as [fs [-> Hr]]. exists fs. split; [reflexivity|]. apply H0. assumption.
  - destruct fs as [|[? ?] ?]; simpl in *; [constructor|contradiction].
  - destruct fs as [|[g t] fs']; simpl in *; [contradiction|]. destruct H3 as [<- [Ht Hr]].
    constructor.
    + simpl. eapply TT_mono; [|eassumption]. intros v'. apply H0.
    + apply H2. assumption.
  - assumption.
  - destruct fs as [|[g t] fs']; simpl in *; [contradiction|]. destruct H3 as [<- [Ht Hr]].
    split; [reflexivity|]. split.
    + eapply TT_mono; [|eassumption]. intros v'. apply H0.
    + apply H2. assumption.
Qed.

(* ------------------------------------------------------------------- the fundamental lemma *)

Definition mk_thunks (rho : env) (es : list tm) : list thunk := map (fun e => Thunk MTyped e rho) es.
Definition mk_fields (rho : env) (fs : list (string * tm)) : list (string * thunk) :=
  map (fun fe => (fst fe, Thunk MTyped (snd fe) rho)) fs.

Section Fundamental.
  Variable Sg : sigma.
  Hypothesis HSg : sig_sound Sg.

  Lemma fundamental :
    (forall G e T, has_type Sg G e T ->
       forall d rho, env_ok G d rho -> forall n, ok_out (V T d) (eval n MTyped rho e)) /\
    (forall G es T, has_types Sg G es T ->
       forall d rho, env_ok G d rho -> Forall (TT (V T d)) (mk_thunks rho es)) /\
    (forall G fs r, has_fields Sg G fs r ->
       forall d rho, env_ok G d rho -> Vrows r d (mk_fields rho fs)) /\
    (forall G r bs T, has_branches Sg G r bs T ->
       forall d rho, env_ok G d rho ->
       (forall t x b, find_branch t false bs = Some (x, b) ->
          forall n, ok_out (V T d) (eval n MTyped rho b)) /\
       (forall t x b A th, find_branch t true bs = Some (x, b) -> erows_lookup t r = Some (Some A) ->
          TT (V A d) th -> exists y, x = Some y /\ forall n, ok_out (V T d) (eval n MTyped ((y, th) :: rho) b))).
  Proof.
    apply typing_ind; intros.
    - (* Var *)
      destruct n as [|n]; [exact I|]. simpl.
      destruct (H0 x T H) as [t [Ha Ht]]. rewrite Ha. destruct t as [m' e' rho'].
      apply (Ht n).
    - destruct n as [|n]; [exact I|]. simpl. eauto.
    - destruct n as [|n]; [exact I|]. simpl. eauto.
    - destruct n as [|n]; [exact I|]. simpl. eauto.
    - (* Lam *)
      destruct n as [|n]; [exact I|]. simpl.
      intros t Ht n0. unfold app_out. simpl.
      apply H0. apply env_ok_cons; assumption.
    - (* App *)
      destruct n as [|n]; [exact I|]. simpl.
      pose proof (H0 d rho H3 n) as Hf.
      destruct (eval n MTyped rho f) as [v|e|]; simpl in *; auto.
      apply (Hf (Thunk MTyped a rho)).
      intros n0. simpl. apply H2. assumption.
    - (* Let *)
      destruct n as [|n]; [exact I|]. simpl.
      apply H2. apply env_ok_cons; [assumption|].
      intros n0. simpl. apply H0. assumption.
    - (* If *)
      destruct n as [|n]; [exact I|]. simpl.
      pose proof (H0 d rho H5 n) as Hc.
      destruct (eval n MTyped rho c) as [v|e0|]; simpl in *; auto.
      destruct Hc as [b ->]. destruct b; [apply H2|apply H4]; assumption.
    - (* Arr *)
      destruct n as [|n]; [exact I|]. simpl.
      exists (mk_thunks rho es). split; [reflexivity|]. apply H0. assumption.
    - (* Rec *)
      destruct n as [|n]; [exact I|]. simpl.
      exists (mk_fields rho fs). split; [reflexivity|]. apply H0. assumption.
    - (* Proj *)
      destruct n as [|n]; [exact I|]. simpl.
      pose proof (H0 d rho H2 n) as He.
      destruct (eval n MTyped rho e) as [v|e0|]; simpl in *; auto.
      destruct He as [fs [-> Hr]].
      destruct (Vrows_lookup _ _ _ _ _ Hr H1) as [t [Ha Ht]]. rewrite Ha.
      destruct t as [m' e' rho']. apply (Ht n).
    - (* Tag *)
      destruct n as [|n]; [exact I|]. simpl. apply Verows_tag. assumption.
    - (* Variant *)
      destruct n as [|n]; [exact I|]. simpl. eapply Verows_variant; [eassumption|].
      intros n0. simpl. apply H1. assumption.
    - (* Match *)
      destruct n as [|n]; [exact I|]. simpl.
      pose proof (H0 d rho H4 n) as He.
      destruct (eval n MTyped rho e) as [v|e0|]; simpl in *; auto.
      destruct (H2 d rho H4) as [Hb0 Hb1].
      destruct (Verows_inv _ _ _ He) as [[t [-> Hl]]|[t [th [A [-> [Hl Ht]]]]]].
      + destruct (find_branch t false bs) as [[x b]|] eqn:Hf.
        * eapply Hb0; eassumption.
        * exfalso. eapply (H3 t None); eassumption.
      + destruct (find_branch t true bs) as [[x b]|] eqn:Hf.
        * destruct (Hb1 t x b A th Hf Hl Ht) as [y [-> Hy]]. apply Hy.
        * exfalso. eapply (H3 t (Some A)); eassumption.
    - (* MatchD *)
      destruct n as [|n]; [exact I|]. simpl.
      pose proof (H0 d0 rho H5 n) as He.
      destruct (eval n MTyped rho e) as [v|e0|]; simpl in *; auto.
      destruct (H2 d0 rho H5) as [Hb0 Hb1].
      destruct (Verows_inv _ _ _ He) as [[t [-> Hl]]|[t [th [A [-> [Hl Ht]]]]]].
      + destruct (find_branch t false bs) as [[x b]|] eqn:Hf.
        * eapply Hb0; eassumption.
        * apply H4. assumption.
      + destruct (find_branch t true bs) as [[x b]|] eqn:Hf.
        * destruct (Hb1 t x b A th Hf Hl Ht) as [y [-> Hy]]. apply Hy.
        * apply H4. assumption.
    - (* Prim *)
      destruct n as [|n]; [exact I|]. simpl. eapply HSg. eassumption.
    - (* AnnT *)
      destruct n as [|n]; [exact I|]. simpl. apply H0. assumption.
    - (* Untyped *)
      destruct n as [|n]; [exact I|]. simpl.
      pose proof (eval_pure n u [] H (Forall_nil _)) as Hp.
      destruct (eval n MUntyped [] u); simpl in *; auto.
    - (* Cast *)
      destruct n as [|n]; [exact I|]. simpl.
      pose proof (H0 d rho H2 n) as He.
      destruct (eval n MTyped rho e) as [v|e0|]; simpl in *; auto.
      apply (proj1 cast_sound_mut); assumption.
    - (* Gen *)
      assert (Hall : forall R, ok_out (V T (R :: d)) (eval n MTyped rho e)).
      { intros R. apply H0. apply env_ok_shift. assumption. }
      destruct (eval n MTyped rho e) as [v|e0|]; simpl in *; auto.
      apply (Hall (fun _ => True)).
    - (* Inst *)
      pose proof (H0 d rho H1 n) as He.
      destruct (eval n MTyped rho e) as [v|e0|]; simpl in *; auto.
      apply V_subst0. apply He.
    - (* Sub *)
      pose proof (H0 d rho H2 n) as He.
      eapply ok_out_mono; [|eassumption]. intros v. apply (proj1 sub_sound_mut _ _ H1).
    - (* types nil *) constructor.
    - (* types cons *)
      simpl. constructor.
      + intros n. simpl. apply H0. assumption.
      + apply H2. assumption.
    - (* fields nil *) exact I.
    - (* fields cons *)
      simpl. split; [reflexivity|]. split.
      + intros n. simpl. apply H0. assumption.
      + apply H2. assumption.
    - (* branches nil *) split; intros; discriminate.
    - (* branches bare *)
      destruct (H2 d rho H3) as [Hb0 Hb1]. split.
      + intros t0 x b0 Hf n. cbn [find_branch] in Hf.
        revert Hf. destruct (String.eqb t0 t && Bool.eqb false false) eqn:Hq; intros Hf.
        * inversion Hf; subst. apply H0. assumption.
        * eapply Hb0; eassumption.
      + intros t0 x b0 A th Hf Hl Ht. cbn [find_branch] in Hf.
        revert Hf. destruct (String.eqb t0 t && Bool.eqb true false) eqn:Hq; intros Hf.
        * simpl in Hq. rewrite andb_false_r in Hq. discriminate.
        * eapply Hb1; eassumption.
    - (* branches arg *)
      destruct (H3 d rho H4) as [Hb0 Hb1]. split.
      + intros t0 x0 b0 Hf n. cbn [find_branch] in Hf.
        revert Hf. destruct (String.eqb t0 t && Bool.eqb false true) eqn:Hq; intros Hf.
        * simpl in Hq. rewrite andb_false_r in Hq. discriminate.
        * eapply Hb0; eassumption.
      + intros t0 x0 b0 A0 th Hf Hl Ht. cbn [find_branch] in Hf.
        revert Hf. destruct (String.eqb t0 t && Bool.eqb true true) eqn:Hq; intros Hf.
        * inversion Hf; subst. apply andb_true_iff in Hq. destruct Hq as [Hq _].
          apply String.eqb_eq in Hq. subst. rewrite H in Hl. inversion Hl; subst.
          exists x. split; [reflexivity|]. intros n. apply H1. apply env_ok_cons; assumption.
        * eapply Hb1; eassumption.
  Qed.
End Fundamental.

(* --------------------------------------------------------------------- deep evaluation *)

(* candidates all of whose members can be forced safely *)
Definition deep_ok (v : whnf) : Prop := forall n, safe_outcome (force n v).
Definition cands_deep (d : list cand) : Prop := Forall (fun R : cand => forall v, R v -> deep_ok v) d.

Lemma bind_safe : forall {A B} (o : outcome A) (f : A -> outcome B),
  safe_outcome o -> (forall a, o = Ok a -> safe_outcome (f a)) -> safe_outcome (bind o f).
Proof. intros A B [a|e|] f Ho Hf; simpl in *; auto. Qed.

Lemma force_list_safe : forall (P : cand) n ts,
  (forall v, P v -> safe_outcome (force n v)) ->
  Forall (TT P) ts -> safe_outcome (force_list (force n) (eval_thunk n) ts).
Proof.
  intros P n ts HP. induction ts as [|t ts IH]; intros HF; simpl; [exact I|].
  inversion HF; subst. specialize (H1 n).
  destruct (eval_thunk n t) as [v|e|]; simpl in *; auto.
  pose proof (HP v H1) as Hf. destruct (force n v) as [dv|e|]; simpl in *; auto.
  specialize (IH H2). destruct (force_list (force n) (eval_thunk n) ts); simpl in *; auto.
Qed.

Lemma pure_deep : forall n v, pure_whnf v -> safe_outcome (force n v).
Proof.
  induction n as [|n IH]; intros v Hv; [exact I|].
  destruct v; simpl; auto;
    try (inversion Hv; subst;
         match goal with
         | Hp : pure_thunk ?th |- context [eval_thunk n ?th] =>
             pose proof (pure_thunk_out th n Hp) as Hq;
             destruct (eval_thunk n th) as [v'|e'|]; simpl in *; auto;
             pose proof (IH v' Hq) as Hf; destruct (force n v'); simpl in *; auto
         end; fail).
  - inversion Hv; subst.
    assert (Hl : safe_outcome (force_list (force n) (eval_thunk n) ts)).
    { clear Hv. induction ts as [|t ts IHt]; simpl; [exact I|].
      inversion H0; subst. pose proof (pure_thunk_out t n H2) as Hp.
      destruct (eval_thunk n t) as [v|e|]; simpl in *; auto.
      pose proof (IH v Hp) as Hf. destruct (force n v); simpl in *; auto.
      specialize (IHt H3). destruct (force_list (force n) (eval_thunk n) ts); simpl in *; auto. }
    destruct (force_list (force n) (eval_thunk n) ts); simpl in *; auto.
  - inversion Hv; subst.
    assert (Hl : safe_outcome (force_fields (force n) (eval_thunk n) fs)).
    { clear Hv. induction fs as [|[f t] fs IHt]; simpl; [exact I|].
      inversion H0; subst. simpl in H2. pose proof (pure_thunk_out t n H2) as Hp.
      destruct (eval_thunk n t) as [v|e|]; simpl in *; auto.
      pose proof (IH v Hp) as Hf. destruct (force n v); simpl in *; auto.
      specialize (IHt H3). destruct (force_fields (force n) (eval_thunk n) fs); simpl in *; auto. }
    destruct (force_fields (force n) (eval_thunk n) fs); simpl in *; auto.
Qed.

Lemma force_safe_mut :
  (forall T d, cands_deep d -> forall v, V T d v -> forall n, safe_outcome (force n v)) /\
  (forall r d, cands_deep d -> forall fs, Vrows r d fs ->
     forall n, safe_outcome (force_fields (force n) (eval_thunk n) fs)) /\
  (forall e d, cands_deep d -> forall t T, erows_lookup t e = Some (Some T) ->
     forall v, V T d v -> forall n, safe_outcome (force n v)).
Proof.
  apply ty_rows_ind; intros.
  - apply pure_deep. assumption.
  - destruct H0 as [q ->]. destruct n; simpl; exact I.
  - destruct H0 as [q ->]. destruct n; simpl; exact I.
  - destruct H0 as [q ->]. destruct n; simpl; exact I.
  - (* TArr *)
    destruct H1 as [ts [-> HF]]. destruct n as [|n]; [exact I|]. simpl.
    assert (Hl : safe_outcome (force_list (force n) (eval_thunk n) ts)).
    { eapply force_list_safe; [|eassumption]. intros v Hv. eapply H; eauto. }
    destruct (force_list (force n) (eval_thunk n) ts); simpl in *; auto.
  - (* TFun: only closures and partially applied primitives are semantic functions *)
    destruct n as [|n]; [exact I|].
    assert (Hbad : (forall t0, apply_with (eval 0) MTyped v t0 = Err (ENotAFunc MTyped)) -> False).
    { intros Hw.
      pose proof (H2 (Thunk MUntyped (Var "z") []) (fun k => match k with 0 => I | S _ => I end) 0) as Hx.
      unfold app_out in Hx. rewrite Hw in Hx. exact Hx. }
    destruct v; simpl; auto.
    + exfalso. apply Hbad. reflexivity.
    + exfalso. apply Hbad. reflexivity.
    + exfalso. apply Hbad. reflexivity.
  - (* TRec *)
    destruct H1 as [fs [-> Hr]]. destruct n as [|n]; [exact I|]. simpl.
    pose proof (H d H0 fs Hr n) as Hl.
    destruct (force_fields (force n) (eval_thunk n) fs); simpl in *; auto.
  - (* TDict *)
    destruct H1 as [fs [-> HF]]. destruct n as [|n]; [exact I|]. simpl.
    assert (Hl : safe_outcome (force_fields (force n) (eval_thunk n) fs)).
    { induction fs as [|[g t0] fs' IHf]; simpl; [exact I|].
      inversion HF; subst. simpl in H3. specialize (H3 n).
      destruct (eval_thunk n t0) as [v|e|]; simpl in *; auto.
      pose proof (H d H0 v H3 n) as Hf. destruct (force n v); simpl in *; auto.
      specialize (IHf H4). destruct (force_fields (force n) (eval_thunk n) fs'); simpl in *; auto. }
    destruct (force_fields (force n) (eval_thunk n) fs); simpl in *; auto.
  - (* TEnum *)
    simpl in H1. destruct (Verows_inv _ _ _ H1) as [[t [-> Hl]]|[t [th [A [-> [Hl Ht]]]]]].
    + destruct n; simpl; exact I.
    + destruct n as [|n]; [exact I|]. simpl. specialize (Ht n).
      destruct (eval_thunk n th) as [v'|e'|]; simpl in *; auto.
      pose proof (H d H0 t A Hl v' Ht n) as Hf. destruct (force n v'); simpl in *; auto.
  - (* TVar *)
    simpl in H0. unfold cands_deep in H.
    destruct (nth_in_or_default n d (fun _ : whnf => False)) as [Hin|Hd].
    + rewrite Forall_forall in H. apply (H _ Hin v H0).
    + rewrite Hd in H0. contradiction.
  - (* TForall *)
    simpl in H1. eapply (H ((fun _ => False) :: d)).
    + constructor; [intros v0 []|assumption].
    + apply H1.
  - (* RNil *)
    destruct fs as [|[? ?] ?]; [|contradiction]. simpl. exact I.
  - (* RCons *)
    destruct fs as [|[g t0] fs']; [contradiction|]. destruct H2 as [<- [Ht Hr]]. simpl.
    specialize (Ht n).
    destruct (eval_thunk n t0) as [v|e|]; simpl in *; auto.
    pose proof (H d H1 v Ht n) as Hf. destruct (force n v); simpl in *; auto.
    pose proof (H0 d H1 fs' Hr n) as Hl.
    destruct (force_fields (force n) (eval_thunk n) fs'); simpl in *; auto.
  - (* ENil *) discriminate.
  - (* EBare *)
    simpl in H1. destruct (String.eqb t0 t); [discriminate|]. eapply H; eassumption.
  - (* EArg *)
    simpl in H2. destruct (String.eqb t0 t).
    + inversion H2; subst. eapply H; eassumption.
    + eapply H0; eassumption.
Qed.

(* ------------------------------------------------------------------------------ type safety *)

Theorem type_safety_lemma : forall Sg, sig_sound Sg ->
  forall n e T, has_type Sg [] e T -> safe_outcome (run n e).
Proof.
  intros Sg HSg n e T Hty. unfold run.
  pose proof (proj1 (fundamental Sg HSg) [] e T Hty [] [] (env_ok_nil []) n) as He.
  destruct (eval n MTyped [] e) as [v|e0|]; simpl in *; auto.
  apply (proj1 force_safe_mut T []); [constructor|assumption].
Qed.

(* the value of a typed block inhabits the semantic interpretation of its annotation: the block can
   never be blamed for the contract derived from its own (first-order) annotation *)
Theorem typed_result_in_type : forall Sg, sig_sound Sg ->
  forall n e T v, has_type Sg [] e T -> eval n MTyped [] e = Ok v -> V T [] v.
Proof.
  intros Sg HSg n e T v Hty Hev.
  pose proof (proj1 (fundamental Sg HSg) [] e T Hty [] [] (env_ok_nil []) n) as He.
  rewrite Hev in He. exact He.
Qed.
