(* C01 — non-vacuity: well-typed, non-trivial programs of the fragment, and what they evaluate to. *)
From Coq Require Import List String Bool QArith.
Import ListNotations.
From NV Require Import Types.Syntax Types.Sem Types.Decl Types.ModelSig.
Close Scope Q_scope.
Open Scope string_scope.

Definition qn (z : Z) : Q := inject_Z z.

(* let id : forall a. a -> a = fun x => x in
   std.array.map (fun r => r.a + id 1) [ {a = 1}, ({a = 2} | {a : Number}) ]            *)
Definition ex_prog : tm :=
  Let "id" (Lam "x" (Var "x"))
    (App (App (Prim PArrMap)
           (Lam "r" (App (App (Prim PAdd) (Proj (Var "r") "a")) (App (Var "id") (Num (qn 1))))))
         (Arr [Rec [("a", Num (qn 1))];
               Cast (Untyped (Rec [("a", Num (qn 2))])) (TRec (RCons "a" TNum RNil))])).

Definition rA : ty := TRec (RCons "a" TNum RNil).

Example ex_prog_typed : has_type model_sig [] ex_prog (TArr TNum).
Proof.
  unfold ex_prog.
  eapply T_Let with (A := TForall (TFun (TVar 0) (TVar 0))).
  - apply T_Gen. apply T_Lam. apply T_Var. reflexivity.
  - eapply T_App with (A := TArr rA).
    + eapply T_App with (A := TFun rA TNum).
      * change (TFun (TFun rA TNum) (TFun (TArr rA) (TArr TNum)))
          with (subst 0 TNum (TFun (TFun (shift 0 rA) (TVar 0)) (TFun (TArr (shift 0 rA)) (TArr (TVar 0))))).
        apply T_Inst.
        change (TForall (TFun (TFun (shift 0 rA) (TVar 0)) (TFun (TArr (shift 0 rA)) (TArr (TVar 0)))))
          with (subst 0 rA (TForall (TFun (TFun (TVar 1) (TVar 0)) (TFun (TArr (TVar 1)) (TArr (TVar 0)))))).
        apply T_Inst. apply T_Prim. reflexivity.
      * apply T_Lam. eapply T_App with (A := TNum).
        -- eapply T_App with (A := TNum); [apply T_Prim; reflexivity|].
           eapply T_Proj; [apply T_Var; reflexivity|reflexivity].
        -- eapply T_App with (A := TNum); [|apply T_Num].
           change (TFun TNum TNum) with (subst 0 TNum (TFun (TVar 0) (TVar 0))).
           apply T_Inst. apply T_Var. reflexivity.
    + apply T_Arr. constructor.
      * apply T_Rec; [repeat constructor; simpl; tauto|repeat constructor].
      * constructor; [|constructor]. apply T_Cast; [|reflexivity]. apply T_Untyped. reflexivity.
Qed.

Example ex_prog_runs : run 30 ex_prog = Ok (DArr [DNum (qn 2); DNum (qn 3)]).
Proof. vm_compute. reflexivity. Qed.

(* an ill-typed program of the same shape does raise a dynamic type error of typed origin: the
   property is not vacuous on the model *)
Example ill_typed_fails : run 30 (App (App (Prim PAdd) (Num (qn 1))) (Str "a")) = Err (ETypeErr MTyped).
Proof. vm_compute. reflexivity. Qed.

(* untyped code failing behind a contract is blamed, not the typed block *)
Example hole_blamed : run 30 (Cast (Untyped (Str "a")) TNum) = Err EBlame.
Proof. vm_compute. reflexivity. Qed.

Example hole_untyped_error :
  run 30 (Cast (Untyped (App (Num (qn 1)) (Num (qn 2)))) TNum) = Err (ENotAFunc MUntyped).
Proof. vm_compute. reflexivity. Qed.
