(* C01 — declarative type system of the fragment.  [has_type Sigma Gamma e T].  Definitions only.

   The system is deliberately *more permissive* than Nickel's algorithmic typechecker (implicit
   generalisation and instantiation anywhere, as in Curry-style System F): every derivation the
   real typechecker finds on the fragment is meant to be expressible here (validated per program
   by the certificate checker of Checker.v), and type safety is proved for all of these. *)
From Coq Require Import List String Bool.
Import ListNotations.
From NV Require Import Types.Syntax.

Definition ctx := list (string * ty).

(* the signature table: the static type of every primitive (closed, possibly polymorphic) *)
Definition sigma := prim -> option ty.

Definition shift_ctx (G : ctx) : ctx := map (fun xt => (fst xt, shift 0 (snd xt))) G.
Definition shiftR_ctx (G : ctx) : ctx := map (fun xt => (fst xt, shiftR 0 (snd xt))) G.

(* Subtyping, as core/src/typecheck/subtyping.rs: one axiom (a record whose fields all have a subtype
   of U is a dictionary {_ : U}), reflexivity, and congruence on arrays, dictionaries and records. *)
Inductive sub : ty -> ty -> Prop :=
| S_Refl : forall T, sub T T
| S_RecDict : forall r U, rows_sub_all r U -> sub (TRec r) (TDict U)
| S_Arr : forall T U, sub T U -> sub (TArr T) (TArr U)
| S_Dict : forall T U, sub T U -> sub (TDict T) (TDict U)
| S_Rec : forall r s, rows_sub r s -> sub (TRec r) (TRec s)
with rows_sub_all : rows -> ty -> Prop :=
| SA_nil : forall U, rows_sub_all RNil U
| SA_cons : forall f T r U, sub T U -> rows_sub_all r U -> rows_sub_all (RCons f T r) U
with rows_sub : rows -> rows -> Prop :=
| SR_nil : rows_sub RNil RNil
| SR_cons : forall f T U r s, sub T U -> rows_sub r s -> rows_sub (RCons f T r) (RCons f U s)
| SR_var : forall n, rows_sub (RVar n) (RVar n).

Scheme sub_mut := Minimality for sub Sort Prop
with rows_sub_all_mut := Minimality for rows_sub_all Sort Prop
with rows_sub_mut := Minimality for rows_sub Sort Prop.
Combined Scheme sub_ind3 from sub_mut, rows_sub_all_mut, rows_sub_mut.

Section Typing.
  Variable Sg : sigma.

  Inductive has_type : ctx -> tm -> ty -> Prop :=
  | T_Var : forall G x T, assoc x G = Some T -> has_type G (Var x) T
  | T_Num : forall G q, has_type G (Num q) TNum
  | T_Str : forall G s, has_type G (Str s) TStr
  | T_Bool : forall G b, has_type G (Bool b) TBool
  | T_Lam : forall G x b A B, has_type ((x, A) :: G) b B -> has_type G (Lam x b) (TFun A B)
  | T_App : forall G f a A B, has_type G f (TFun A B) -> has_type G a A -> has_type G (App f a) B
  | T_Let : forall G x e b A B, has_type G e A -> has_type ((x, A) :: G) b B -> has_type G (Let x e b) B
  | T_If : forall G c t e T, has_type G c TBool -> has_type G t T -> has_type G e T ->
           has_type G (If c t e) T
  | T_Arr : forall G es T, has_types G es T -> has_type G (Arr es) (TArr T)
  | T_Rec : forall G fs r, NoDup (map fst fs) -> has_fields G fs r -> has_type G (Rec fs) (TRec r)
  | T_Proj : forall G e f r T, has_type G e (TRec r) -> rows_lookup f r = Some T ->
             has_type G (Proj e f) T
  | T_Tag : forall G t r, erows_lookup t false r = Some None -> has_type G (Tag t) (TEnum r)
  | T_Variant : forall G t e r A, erows_lookup t true r = Some (Some A) -> has_type G e A ->
                has_type G (Variant t e) (TEnum r)
  | T_Match : forall G e bs r T,
      has_type G e (TEnum r) -> has_branches G r bs T ->
      (forall t a p, erows_lookup t a r = Some p -> find_branch t a bs <> None) ->     (* exhaustive *)
      has_type G (Match e bs None) T
  | T_MatchD : forall G e bs d r T,
      has_type G e (TEnum r) -> has_branches G r bs T -> has_type G d T ->
      has_type G (Match e bs (Some d)) T
  | T_Prim : forall G o T, Sg o = Some T -> has_type G (Prim o) T
  | T_AnnT : forall G e T, has_type G e T -> has_type G (AnnT e T) T
  | T_Untyped : forall G u, plain u = true -> has_type G (Untyped u) TDyn
  | T_Cast : forall G e T, has_type G e TDyn -> first_order T = true -> has_type G (Cast e T) T
  | T_Gen : forall G e T, has_type (shift_ctx G) e T -> has_type G e (TForall T)
  | T_Inst : forall G e T S, has_type G e (TForall T) -> has_type G e (subst 0 S T)
  | T_Sub : forall G e A B, has_type G e A -> sub A B -> has_type G e B
  | T_GenR : forall G e T, has_type (shiftR_ctx G) e T -> has_type G e (TForallR T)
  | T_InstR : forall G e T R, has_type G e (TForallR T) -> has_type G e (substR 0 R T)
  with has_types : ctx -> list tm -> ty -> Prop :=
  | HT_nil : forall G T, has_types G [] T
  | HT_cons : forall G e es T, has_type G e T -> has_types G es T -> has_types G (e :: es) T
  with has_fields : ctx -> list (string * tm) -> rows -> Prop :=
  | HF_nil : forall G, has_fields G [] RNil
  | HF_cons : forall G f e fs T r, has_type G e T -> has_fields G fs r ->
              has_fields G ((f, e) :: fs) (RCons f T r)
  with has_branches : ctx -> erows -> list (string * option string * tm) -> ty -> Prop :=
  | HB_nil : forall G r T, has_branches G r [] T
  | HB_bare : forall G r t b bs T, has_type G b T -> has_branches G r bs T ->
              has_branches G r ((t, None, b) :: bs) T
  | HB_arg : forall G r t x b bs A T,
      erows_lookup t true r = Some (Some A) ->     (* the binder has the payload type of its tag *)
      has_type ((x, A) :: G) b T -> has_branches G r bs T ->
      has_branches G r ((t, Some x, b) :: bs) T.

  Scheme has_type_mut := Minimality for has_type Sort Prop
  with has_types_mut := Minimality for has_types Sort Prop
  with has_fields_mut := Minimality for has_fields Sort Prop
  with has_branches_mut := Minimality for has_branches Sort Prop.
  Combined Scheme typing_ind from has_type_mut, has_types_mut, has_fields_mut, has_branches_mut.
End Typing.
