(* [checks] (the run-time checks read off a TYPE) coincides with [cchecks] (the checks read off the
   contract skeleton that [subcontract] GENERATES for that type), modulo the names of variables.
   So the statements of GenProofs.v about [checks (simplify T)] are statements about the contract
   that Type::contract_static generates. *)
From Coq Require Import List String Bool Arith Lia.
From NV Require Import Contract.Data Contract.Gen Contract.Apply Contract.Checks Contract.CheckProofs
  Contract.GenProofs.
Import ListNotations.
Open Scope bool_scope.

(* ------------------------------------------------------------------ subcontract on rows, restated *)

Fixpoint rows_sub (vars : list (string * cvar)) (p : polarity) (rs : list (string * ty)) (sy : nat)
  : option (list (string * cexpr) * nat) :=
  match rs with
  | [] => Some ([], sy)
  | (k, t) :: rs' =>
      match subcontract t vars p sy with
      | Some (c, sy1) =>
          match rows_sub vars p rs' sy1 with
          | Some (cs, sy2) => Some ((k, c) :: cs, sy2)
          | None => None
          end
      | None => None
      end
  end.

Fixpoint erows_sub (vars : list (string * cvar)) (p : polarity) (rs : list (string * option ty)) (sy : nat)
  : option (list (string * option cexpr) * nat) :=
  match rs with
  | [] => Some ([], sy)
  | (k, None) :: rs' =>
      match erows_sub vars p rs' sy with
      | Some (cs, sy2) => Some ((k, None) :: cs, sy2)
      | None => None
      end
  | (k, Some t) :: rs' =>
      match subcontract t vars p sy with
      | Some (c, sy1) =>
          match erows_sub vars p rs' sy1 with
          | Some (cs, sy2) => Some ((k, Some c) :: cs, sy2)
          | None => None
          end
      | None => None
      end
  end.

Lemma subcontract_rec rows tail vars p sy :
  subcontract (TRec rows tail) vars p sy =
  match rows_sub vars p rows sy with
  | Some (fcs, sy1) =>
      match tail with
      | RClosed => Some (CRecord fcs CTEmpty false, sy1)
      | RDyn => Some (CRecord fcs CTDyn true, sy1)
      | RVar x =>
          match lookup x vars with
          | Some b => Some (CRecord fcs (CTVar b) true, sy1)
          | None => None
          end
      | RExcl excl => Some (CRecord fcs (CTVar (VExcludedOnly excl)) true, sy1)
      end
  | None => None
  end.
Proof.
  cbn [subcontract].
  match goal with |- match ?X with _ => _ end = _ => assert (E : X = rows_sub vars p rows sy) end.
  { revert sy. induction rows as [|[k t] rows IH]; intros sy; cbn; auto.
    destruct (subcontract t vars p sy) as [[c sy1]|]; auto. now rewrite IH. }
  now rewrite E.
Qed.

Lemma subcontract_enum rows tail vars p sy :
  subcontract (TEnum rows tail) vars p sy =
  match erows_sub vars p rows sy with
  | Some (branches, sy1) =>
      match tail with
      | EClosed => Some (CEnum branches None, sy1)
      | EVar x =>
          match lookup x vars with
          | Some b => Some (CEnum branches (Some b), sy1)
          | None => None
          end
      end
  | None => None
  end.
Proof.
  cbn [subcontract].
  match goal with |- match ?X with _ => _ end = _ => assert (E : X = erows_sub vars p rows sy) end.
  { revert sy. induction rows as [|[k [t|]] rows IH]; intros sy; cbn; auto.
    - destruct (subcontract t vars p sy) as [[c sy1]|]; auto. now rewrite IH.
    - now rewrite IH. }
  now rewrite E.
Qed.

(* cchecks on records / enums, restated *)

Definition fields_cchecks (p : polarity) kenv (fields : list (string * cexpr)) : list chk :=
  flat_map (fun f => under (SField (fst f)) (cchecks (snd f) p kenv)) fields.

Definition branches_cchecks (p : polarity) kenv (bs : list (string * option cexpr)) : list chk :=
  flat_map (fun b => match snd b with
                     | Some c => under (SVariant (fst b)) (cchecks c p kenv)
                     | None => []
                     end) bs.

Lemma cchecks_record fields tail ht p kenv :
  cchecks (CRecord fields tail ht) p kenv =
  here p KIsRecord
  :: map (fun k => here p (KHasField k)) (keys fields)
  ++ fields_cchecks p kenv fields
  ++ (if ht then [] else [here p KNoExtra])
  ++ ctail_checks kenv p (keys fields) tail.
Proof.
  cbn [cchecks]. do 3 f_equal. unfold fields_cchecks.
  induction fields as [|[k c] fields IH]; cbn; auto. now rewrite IH.
Qed.

Lemma cchecks_enum bs default p kenv :
  cchecks (CEnum bs default) p kenv =
  here p KIsEnum :: branches_cchecks p kenv bs
  ++ match default with None => [here p KEnumTag] | Some _ => [] end.
Proof.
  cbn [cchecks]. do 2 f_equal. unfold branches_cchecks.
  induction bs as [|[k [c|]] bs IH]; cbn; auto. now rewrite IH.
Qed.

(* ------------------------------------------------------------------ erasure *)

Lemma erase_under s l : map erase (under s l) = under s (map erase l).
Proof. unfold under. rewrite !map_map. reflexivity. Qed.

Lemma erase_here_plain p k : erase_kind k = k -> erase (here p k) = here p k.
Proof. unfold erase, here. cbn. now intros ->. Qed.

(* ------------------------------------------------------------------ the invariant between the
   generator's variable environment, the type-level environment and the label's *)

Definition var_ok (b : cvar) (k : varkind) (q : polarity) (kenv : list (nat * polarity)) (sy : nat) : Prop :=
  match k with
  | KType => exists key, b = VForallVar key /\ key < sy /\ lookup_nat key kenv = Some q
  | KRecRows e => exists key, b = VForallRecordTail key e /\ key < sy /\ lookup_nat key kenv = Some q
  | KEnumRows => b = VForallEnumTail
  end.

Definition J (vars : list (string * cvar)) (env : list (string * (polarity * varkind)))
           (kenv : list (nat * polarity)) (sy : nat) : Prop :=
  (forall x, match lookup x vars with
             | Some b => exists q k, lookup x env = Some (q, k) /\ var_ok b k q kenv sy
             | None => lookup x env = None
             end)
  /\ (forall key q, lookup_nat key kenv = Some q -> key < sy).

Lemma J_empty : J [] [] [] 0.
Proof. split; [intros x; reflexivity|intros key q H; discriminate]. Qed.

Lemma var_ok_mono b k q kenv sy sy' : sy <= sy' -> var_ok b k q kenv sy -> var_ok b k q kenv sy'.
Proof.
  intros Hle. destruct k; cbn; auto; intros (key & H1 & H2 & H3); exists key; repeat split; auto; lia.
Qed.

Lemma J_mono vars env kenv sy sy' : sy <= sy' -> J vars env kenv sy -> J vars env kenv sy'.
Proof.
  intros Hle [H1 H2]. split.
  - intros x. specialize (H1 x). destruct (lookup x vars); auto.
    destruct H1 as (q & k & Hl & Hv). exists q, k. split; auto. eapply var_ok_mono; eauto.
  - intros key q Hk. specialize (H2 key q Hk). lia.
Qed.

Lemma lookup_nat_cons_lt {A} key sy (a : A) kenv :
  key < sy -> lookup_nat key ((sy, a) :: kenv) = lookup_nat key kenv.
Proof.
  intros H. cbn. destruct (Nat.eqb key sy) eqn:E; auto. apply Nat.eqb_eq in E. lia.
Qed.

Lemma var_ok_extend b k q kenv sy p :
  var_ok b k q kenv sy -> var_ok b k q ((sy, p) :: kenv) (S sy).
Proof.
  destruct k; cbn [var_ok]; auto; intros (key & Hb & Hlt & Hq); exists key;
    (split; [exact Hb|]); (split; [lia|]); rewrite lookup_nat_cons_lt by exact Hlt; exact Hq.
Qed.

Lemma var_ok_fresh k sy p kenv : var_ok (var_contract k sy) k p ((sy, p) :: kenv) (S sy).
Proof.
  destruct k; cbn; auto; exists sy; rewrite Nat.eqb_refl; repeat split; auto.
Qed.

Lemma J_bind vars env kenv sy x k p :
  J vars env kenv sy ->
  J ((x, var_contract k sy) :: vars) ((x, (p, k)) :: env) ((sy, p) :: kenv) (S sy).
Proof.
  intros [H1 H2]. split.
  - intros y. cbn [lookup]. destruct (String.eqb y x) eqn:E.
    + exists p, k. split; auto. apply var_ok_fresh.
    + specialize (H1 y). destruct (lookup y vars); auto.
      destruct H1 as (q & k' & Hl & Hv). exists q, k'. split; auto. apply var_ok_extend. exact Hv.
  - intros key q. cbn. destruct (Nat.eqb key sy) eqn:Ek.
    + apply Nat.eqb_eq in Ek. lia.
    + intros Hk. specialize (H2 key q Hk). lia.
Qed.

(* ------------------------------------------------------------------ the theorem *)

Theorem cchecks_subcontract : forall T vars p sy c sy' env kenv,
  subcontract T vars p sy = Some (c, sy') ->
  J vars env kenv sy ->
  sy <= sy' /\ cchecks c p kenv = map erase (checks T p env).
Proof.
  induction T as [| | | |t IH|a b IHa IHb|rows tail IH|fl t IH|rows tail IH|x k t IH|x|n] using ty_ind';
    intros vars p sy c sy' env kenv Hs HJ.
  - inversion Hs; subst. split; auto.
  - inversion Hs; subst. split; auto.
  - inversion Hs; subst. split; auto.
  - inversion Hs; subst. split; auto.
  - (* Array *)
    cbn [subcontract] in Hs. destruct (is_dyn t) eqn:Ed.
    + destruct t; try discriminate. inversion Hs; subst. split; auto.
    + destruct (subcontract t vars p sy) as [[c1 sy1]|] eqn:E1; [|discriminate].
      inversion Hs; subst. destruct (IH _ _ _ _ _ _ _ E1 HJ) as [Hle Hc]. split; auto.
      cbn [cchecks checks map]. rewrite Hc, erase_under. reflexivity.
  - (* Arrow *)
    cbn [subcontract] in Hs.
    destruct (is_dyn a) eqn:Ea; destruct (is_dyn b) eqn:Eb; cbn [andb] in Hs.
    + destruct a; try discriminate. destruct b; try discriminate. inversion Hs; subst. split; auto.
    + destruct a; try discriminate.
      destruct (subcontract b vars p sy) as [[c1 sy1]|] eqn:E1; [|discriminate].
      inversion Hs; subst. destruct (IHb _ _ _ _ _ _ _ E1 HJ) as [Hle Hc]. split; auto.
      cbn [cchecks checks map under app]. rewrite Hc, erase_under. reflexivity.
    + destruct b; try discriminate.
      destruct (subcontract a vars (flip p) sy) as [[c1 sy1]|] eqn:E1; [|discriminate].
      inversion Hs; subst. destruct (IHa _ _ _ _ _ _ _ E1 HJ) as [Hle Hc]. split; auto.
      cbn [cchecks checks map under]. rewrite app_nil_r. rewrite Hc, erase_under. reflexivity.
    + destruct (subcontract a vars (flip p) sy) as [[c1 sy1]|] eqn:E1; [|discriminate].
      destruct (subcontract b vars p sy1) as [[c2 sy2]|] eqn:E2; [|discriminate].
      inversion Hs; subst. destruct (IHa _ _ _ _ _ _ _ E1 HJ) as [Hle1 Hc1].
      destruct (IHb _ _ _ _ _ _ _ E2 (J_mono _ _ _ _ _ Hle1 HJ)) as [Hle2 Hc2]. split; [lia|].
      cbn [cchecks checks map]. rewrite map_app, !erase_under, Hc1, Hc2. reflexivity.
  - (* Record *)
    rewrite subcontract_rec in Hs.
    destruct (rows_sub vars p rows sy) as [[fcs sy1]|] eqn:Er; [|discriminate].
    assert (Hrows : sy <= sy1 /\ keys fcs = keys rows /\
                    fields_cchecks p kenv fcs = map erase (rows_checks p env rows)).
    { clear Hs. revert sy fcs sy1 Er HJ.
      induction IH as [|[k t] rows Ht _ IHrows]; intros sy fcs sy1 Er HJ; cbn in Er.
      - inversion Er; subst. repeat split; auto.
      - destruct (subcontract t vars p sy) as [[c1 sya]|] eqn:E1; [|discriminate].
        destruct (rows_sub vars p rows sya) as [[cs syb]|] eqn:E2; [|discriminate].
        inversion Er; subst. cbn in Ht.
        destruct (Ht _ _ _ _ _ _ _ E1 HJ) as [Hle1 Hc1].
        destruct (IHrows _ _ _ E2 (J_mono _ _ _ _ _ Hle1 HJ)) as (Hle2 & Hk & Hc2).
        split; [lia|]. split; [unfold keys in *; cbn; now rewrite Hk|].
        unfold fields_cchecks, rows_checks in *. cbn [flat_map fst snd].
        rewrite map_app, erase_under, Hc1, Hc2. reflexivity. }
    destruct Hrows as (Hle & Hkeys & Hfields).
    assert (Hhead : forall l, map erase (map (fun k => here p (KHasField k)) l)
                              = map (fun k => here p (KHasField k)) l).
    { intros l. rewrite map_map. reflexivity. }
    destruct tail as [| |y|e].
    + inversion Hs; subst. split; auto.
      rewrite cchecks_record, checks_rec. cbn [map]. rewrite !map_app, Hhead, Hkeys, Hfields. reflexivity.
    + inversion Hs; subst. split; auto.
      rewrite cchecks_record, checks_rec. cbn [map]. rewrite !map_app, Hhead, Hkeys, Hfields. reflexivity.
    + destruct (lookup y vars) as [bv|] eqn:Ey; [|discriminate].
      inversion Hs; subst. split; auto.
      rewrite cchecks_record, checks_rec. cbn [map]. rewrite !map_app, Hhead, Hkeys, Hfields.
      do 3 f_equal. cbn [app].
      (* the tail variable *)
      destruct HJ as [HJ1 _]. specialize (HJ1 y). rewrite Ey in HJ1.
      destruct HJ1 as (q & kd & Hl & Hv). cbn [tail_checks]. rewrite Hl.
      destruct kd as [|excl|]; cbn in Hv.
      * destruct Hv as (key & -> & _ & Hq). cbn [ctail_checks]. rewrite Hq. reflexivity.
      * destruct Hv as (key & -> & _ & Hq). cbn [ctail_checks]. rewrite Hq.
        destruct (polarity_eqb q p); [reflexivity|].
        cbn [map]. f_equal. destruct (set_diff excl (keys rows)); reflexivity.
      * subst bv. reflexivity.
    + inversion Hs; subst. split; auto.
      rewrite cchecks_record, checks_rec. cbn [map]. rewrite !map_app, Hhead, Hkeys, Hfields.
      do 3 f_equal. cbn [app tail_checks ctail_checks]. destruct e; reflexivity.
  - (* Dict *)
    cbn [subcontract] in Hs. destruct (is_dyn t) eqn:Ed.
    + destruct t; try discriminate. inversion Hs; subst. split; auto.
    + destruct (subcontract t vars p sy) as [[c1 sy1]|] eqn:E1; [|discriminate].
      inversion Hs; subst. destruct (IH _ _ _ _ _ _ _ E1 HJ) as [Hle Hc]. split; auto.
      destruct fl; cbn [cchecks checks map]; rewrite Hc, erase_under; reflexivity.
  - (* Enum *)
    rewrite subcontract_enum in Hs.
    destruct (erows_sub vars p rows sy) as [[bs sy1]|] eqn:Er; [|discriminate].
    assert (Hrows : sy <= sy1 /\ branches_cchecks p kenv bs = map erase (erows_checks p env rows)).
    { clear Hs. revert sy bs sy1 Er HJ.
      induction IH as [|[k [t|]] rows Ht _ IHrows]; intros sy bs sy1 Er HJ; cbn in Er.
      - inversion Er; subst. split; auto.
      - destruct (subcontract t vars p sy) as [[c1 sya]|] eqn:E1; [|discriminate].
        destruct (erows_sub vars p rows sya) as [[cs syb]|] eqn:E2; [|discriminate].
        inversion Er; subst. cbn in Ht.
        destruct (Ht _ _ _ _ _ _ _ E1 HJ) as [Hle1 Hc1].
        destruct (IHrows _ _ _ E2 (J_mono _ _ _ _ _ Hle1 HJ)) as (Hle2 & Hc2).
        split; [lia|].
        unfold branches_cchecks, erows_checks in *. cbn [flat_map fst snd].
        rewrite map_app, erase_under, Hc1, Hc2. reflexivity.
      - destruct (erows_sub vars p rows sy) as [[cs syb]|] eqn:E2; [|discriminate].
        inversion Er; subst.
        destruct (IHrows _ _ _ E2 HJ) as (Hle2 & Hc2). split; auto. }
    destruct Hrows as (Hle & Hbs).
    destruct tail as [|y].
    + inversion Hs; subst. split; auto.
      rewrite cchecks_enum, checks_enum. cbn [map]. rewrite map_app, Hbs. reflexivity.
    + destruct (lookup y vars) as [bv|] eqn:Ey; [|discriminate].
      inversion Hs; subst. split; auto.
      rewrite cchecks_enum, checks_enum. cbn [map]. rewrite map_app, Hbs. reflexivity.
  - (* Forall *)
    cbn [subcontract] in Hs.
    destruct (subcontract t ((x, var_contract k sy) :: vars) p (S sy)) as [[c1 sy1]|] eqn:E1; [|discriminate].
    inversion Hs; subst.
    destruct (IH _ _ _ _ _ ((x, (p, k)) :: env) ((sy, p) :: kenv) E1 (J_bind _ _ _ _ x k p HJ)) as [Hle Hc].
    split; [lia|]. cbn [cchecks checks]. exact Hc.
  - (* Var *)
    cbn [subcontract] in Hs. destruct (lookup x vars) as [bv|] eqn:Ex; [|discriminate].
    inversion Hs; subst. split; auto.
    destruct HJ as [HJ1 _]. specialize (HJ1 x). rewrite Ex in HJ1.
    destruct HJ1 as (q & kd & Hl & Hv). cbn [checks cchecks]. rewrite Hl.
    destruct kd as [|excl|]; cbn in Hv.
    + destruct Hv as (key & -> & _ & Hq). cbn. rewrite Hq. reflexivity.
    + destruct Hv as (key & -> & _ & Hq). cbn. rewrite Hq. reflexivity.
    + subst bv. reflexivity.
  - (* Opaque *)
    inversion Hs; subst. split; auto.
Qed.

(* Type::contract and Type::contract_static *)
Corollary cchecks_contract_of T c :
  contract_of T = Some c -> cchecks c Pos [] = map erase (checks T Pos []).
Proof.
  unfold contract_of. destruct (subcontract T [] Pos 0) as [[c' sy']|] eqn:E; [|discriminate].
  intros H. inversion H; subst. exact (proj2 (cchecks_subcontract T [] Pos 0 c sy' [] [] E J_empty)).
Qed.

(* the negative checks of the generated STATIC contract are those of the generated FULL contract *)
Lemma negs_erase l : negs (map erase l) = map erase (negs l).
Proof.
  induction l as [|[pa po ki] l IH]; [reflexivity|].
  unfold negs, erase, is_neg in *. destruct po; simpl; [exact IH|f_equal; exact IH].
Qed.

Theorem static_contract_keeps_negative T c cs :
  wk T [] = true ->
  contract_of T = Some c -> contract_static_of T = Some cs ->
  negs (cchecks cs Pos []) = negs (cchecks c Pos []).
Proof.
  intros Hwk Hc Hcs. unfold contract_static_of in Hcs.
  rewrite (cchecks_contract_of _ _ Hc), (cchecks_contract_of _ _ Hcs), !negs_erase.
  now rewrite simplify_keeps_negative.
Qed.
