(* Proofs about the C03 model: the contract generated for a first-order type, applied to a data
   value and deep-forced, succeeds exactly on the members of the type, returns the value (up to
   field order), is idempotent, and otherwise blames with the label's polarity. *)
From Coq Require Import List String ZArith Bool Permutation Lia.
From NV Require Import Contract.Data Contract.Gen Contract.Apply.
Import ListNotations.
Open Scope bool_scope.

(* ------------------------------------------------------------------ induction principles *)

Section TyInd.
  Variable P : ty -> Prop.
  Hypothesis HDyn : P TDyn.
  Hypothesis HNum : P TNum.
  Hypothesis HStr : P TStr.
  Hypothesis HBool : P TBool.
  Hypothesis HArr : forall t, P t -> P (TArr t).
  Hypothesis HArrow : forall a b, P a -> P b -> P (TArrow a b).
  Hypothesis HRec : forall rows tail, Forall (fun r => P (snd r)) rows -> P (TRec rows tail).
  Hypothesis HDict : forall fl t, P t -> P (TDict fl t).
  Hypothesis HEnum : forall rows tail,
      Forall (fun r => match snd r with Some t => P t | None => True end) rows -> P (TEnum rows tail).
  Hypothesis HForall : forall x k t, P t -> P (TForall x k t).
  Hypothesis HVar : forall x, P (TVar x).
  Hypothesis HOpaque : forall n, P (TOpaque n).

  Fixpoint ty_ind' (T : ty) : P T :=
    match T with
    | TDyn => HDyn | TNum => HNum | TStr => HStr | TBool => HBool
    | TArr t => HArr t (ty_ind' t)
    | TArrow a b => HArrow a b (ty_ind' a) (ty_ind' b)
    | TRec rows tail =>
        HRec rows tail
          ((fix go (rs : list (string * ty)) : Forall (fun r => P (snd r)) rs :=
              match rs with
              | [] => Forall_nil _
              | r :: rs' => Forall_cons r (ty_ind' (snd r)) (go rs')
              end) rows)
    | TDict fl t => HDict fl t (ty_ind' t)
    | TEnum rows tail =>
        HEnum rows tail
          ((fix go (rs : list (string * option ty))
              : Forall (fun r => match snd r with Some t => P t | None => True end) rs :=
              match rs with
              | [] => Forall_nil _
              | (k, Some t) :: rs' =>
                  Forall_cons (P := fun r => match snd r with Some t => P t | None => True end)
                    (k, Some t) (ty_ind' t) (go rs')
              | (k, None) :: rs' =>
                  Forall_cons (P := fun r => match snd r with Some t => P t | None => True end)
                    (k, None) I (go rs')
              end) rows)
    | TForall x k t => HForall x k t (ty_ind' t)
    | TVar x => HVar x
    | TOpaque n => HOpaque n
    end.
End TyInd.

Section DvInd.
  Variable P : dv -> Prop.
  Hypothesis HNum : forall n d, P (DNum n d).
  Hypothesis HStr : forall s, P (DStr s).
  Hypothesis HBool : forall b, P (DBool b).
  Hypothesis HNull : P DNull.
  Hypothesis HTag : forall t, P (DEnum t None).
  Hypothesis HVariant : forall t a, P a -> P (DEnum t (Some a)).
  Hypothesis HArr : forall es, Forall P es -> P (DArr es).
  Hypothesis HRec : forall fs, Forall (fun f => P (snd f)) fs -> P (DRec fs).

  Fixpoint dv_ind' (v : dv) : P v :=
    match v with
    | DNum n d => HNum n d
    | DStr s => HStr s
    | DBool b => HBool b
    | DNull => HNull
    | DEnum t None => HTag t
    | DEnum t (Some a) => HVariant t a (dv_ind' a)
    | DArr es =>
        HArr es ((fix go (l : list dv) : Forall P l :=
                    match l with [] => Forall_nil _ | x :: r => Forall_cons x (dv_ind' x) (go r) end) es)
    | DRec fs =>
        HRec fs ((fix go (l : list (string * dv)) : Forall (fun f => P (snd f)) l :=
                    match l with [] => Forall_nil _ | x :: r => Forall_cons x (dv_ind' (snd x)) (go r) end) fs)
    end.
End DvInd.

(* ------------------------------------------------------------------ dv_equiv *)

Lemma dv_equiv_refl : forall v, dv_equiv v v.
Proof.
  induction v as [n d|s|b| |t|t a IHa|es IH|fs IH] using dv_ind'; try constructor; auto.
  - induction IH; constructor; auto.
  - apply EqRec with (l2' := fs); [apply Permutation_refl|].
    induction IH; constructor; auto.
Qed.

(* ------------------------------------------------------------------ list helpers *)

Lemma has_key_lookup {A} k (l : list (string * A)) :
  has_key k l = match lookup k l with Some _ => true | None => false end.
Proof.
  unfold has_key. induction l as [|[k' a] l IH]; cbn; auto.
  destruct (String.eqb k k'); cbn; auto.
Qed.

Lemma has_key_map {A B} (g : A -> B) k (l : list (string * A)) :
  has_key k (map (fun r => (fst r, g (snd r))) l) = has_key k l.
Proof.
  unfold has_key. induction l as [|[k' a] l IH]; cbn; auto. now rewrite IH.
Qed.

Lemma lookup_map {A B} (g : A -> B) k (l : list (string * A)) :
  lookup k (map (fun r => (fst r, g (snd r))) l) = option_map g (lookup k l).
Proof.
  induction l as [|[k' a] l IH]; cbn; auto. destruct (String.eqb k k'); cbn; auto.
Qed.

Lemma filter_nil_forallb {A} (f : A -> bool) l :
  is_nil (filter (fun x => negb (f x)) l) = forallb f l.
Proof.
  induction l as [|a l IH]; cbn; auto. destruct (f a); cbn; auto.
Qed.

Lemma filter_partition_perm {A} (f : A -> bool) (l : list A) :
  Permutation l (filter f l ++ filter (fun x => negb (f x)) l).
Proof.
  induction l as [|a l IH]; cbn; auto.
  destruct (f a); cbn.
  - now constructor.
  - apply Permutation_cons_app. exact IH.
Qed.

Lemma filter_all {A} (f : A -> bool) l : forallb f l = true -> filter f l = l.
Proof.
  induction l as [|a l IH]; cbn; auto. destruct (f a); cbn; [|discriminate].
  intros H. now rewrite IH.
Qed.

Lemma filter_none {A} (f : A -> bool) l : forallb (fun x => negb (f x)) l = true -> filter f l = [].
Proof.
  induction l as [|a l IH]; cbn; auto. destruct (f a); cbn; [discriminate|]. auto.
Qed.

Lemma forallb_filter {A} (f : A -> bool) l : forallb f (filter f l) = true.
Proof.
  induction l as [|a l IH]; cbn; auto. destruct (f a) eqn:E; cbn; auto. now rewrite E.
Qed.


Lemma forallb_ext' {A} (f g : A -> bool) l : (forall x, f x = g x) -> forallb f l = forallb g l.
Proof. intros H. induction l as [|a l IH]; cbn; auto. now rewrite H, IH. Qed.

Lemma forallb_map {A B} (f : B -> bool) (g : A -> B) l :
  forallb f (map g l) = forallb (fun x => f (g x)) l.
Proof. induction l as [|a l IH]; cbn; auto. now rewrite IH. Qed.

Lemma Forall2_In_l {A B} (R : A -> B -> Prop) l1 l2 a :
  Forall2 R l1 l2 -> In a l1 -> exists b, In b l2 /\ R a b.
Proof.
  induction 1 as [|x y l1 l2 Hxy _ IH]; cbn; [tauto|].
  intros [->|Hin]; [exists y; auto|]. destruct (IH Hin) as (b & Hb & HR). exists b. auto.
Qed.

Lemma has_key_perm {A} k (l l' : list (string * A)) :
  Permutation l l' -> has_key k l = has_key k l'.
Proof.
  unfold has_key. induction 1 as [|x l l' _ IH|x y l|l l' l'' _ IH1 _ IH2]; cbn; auto.
  - now rewrite IH.
  - destruct (String.eqb k (fst x)), (String.eqb k (fst y)); auto.
  - congruence.
Qed.

Lemma has_key_Forall2 {A B} (R : A -> B -> Prop) k (l' : list (string * A)) (l : list (string * B)) :
  Forall2 (fun a b => fst a = fst b /\ R (snd a) (snd b)) l' l -> has_key k l' = has_key k l.
Proof.
  unfold has_key. induction 1 as [|x y l1 l2 [Hxy _] _ IH]; cbn; auto. now rewrite Hxy, IH.
Qed.

(* ------------------------------------------------------------------ map_outcome *)

Lemma map_outcome_ok {A} (f : A -> outcome A) (R : A -> A -> Prop) l :
  Forall (fun a => exists b, f a = Ok b /\ R b a /\ f b = Ok b) l ->
  exists l', map_outcome f l = Ok l' /\ Forall2 R l' l /\ map_outcome f l' = Ok l'.
Proof.
  induction 1 as [|a l (b & Hb & HR & Hbb) _ (l' & Hl & HF & Hll)].
  - exists []. cbn. auto.
  - exists (b :: l'). cbn. rewrite Hb. cbn. fold (map_outcome f).
    rewrite Hl. cbn. split; [reflexivity|]. split; [constructor; auto|].
    rewrite Hbb. cbn. fold (map_outcome f). rewrite Hll. reflexivity.
Qed.

Lemma map_outcome_err {A B} (f : A -> outcome B) e l :
  Forall (fun a => (exists b, f a = Ok b) \/ f a = Err e) l ->
  Exists (fun a => f a = Err e) l ->
  map_outcome f l = Err e.
Proof.
  induction 1 as [|a l Ha _ IH]; intros HE.
  - inversion HE.
  - cbn. fold (map_outcome f). destruct Ha as [(b & Hb)|Ha].
    + rewrite Hb. cbn. inversion HE as [? ? H1|? ? H1]; subst.
      * congruence.
      * now rewrite IH.
    + now rewrite Ha.
Qed.

Lemma forallb_false_exists {A} (f : A -> bool) l :
  forallb f l = false -> Exists (fun a => f a = false) l.
Proof.
  induction l as [|a l IH]; cbn; [discriminate|].
  destruct (f a) eqn:E; cbn; intros H.
  - right. auto.
  - left. auto.
Qed.

(* ------------------------------------------------------------------ the contract of a
   first-order type, as a plain function (no environment, no counter) *)

Fixpoint fo_c (T : ty) : cexpr :=
  match T with
  | TDyn => CDyn | TNum => CNum | TStr => CStr | TBool => CBool
  | TArr t => if is_dyn t then CArrayDyn else CArray (fo_c t)
  | TRec rows tail =>
      CRecord (map (fun r => (fst r, fo_c (snd r))) rows)
              (match tail with RClosed => CTEmpty | RExcl e => CTVar (VExcludedOnly e) | _ => CTDyn end)
              (match tail with RClosed => false | _ => true end)
  | TDict fl t =>
      if is_dyn t then CDictDyn
      else match fl with FContract => CDictContract (fo_c t) | FType => CDictType (fo_c t) end
  | TEnum rows _ =>
      CEnum (map (fun r => (fst r, option_map fo_c (snd r))) rows) None
  | _ => CDyn
  end.

(* unfolding lemmas: the nested fixpoints of the definitions, restated with list functions *)

Lemma first_order_rec rows tail :
  first_order (TRec rows tail) =
  forallb (fun r => first_order (snd r)) rows && match tail with RVar _ => false | _ => true end.
Proof.
  cbn. f_equal. induction rows as [|[k t] rows IH]; cbn; auto. now rewrite IH.
Qed.

Lemma first_order_enum rows tail :
  first_order (TEnum rows tail) =
  forallb (fun r => match snd r with Some t => first_order t | None => true end) rows
  && match tail with EVar _ => false | EClosed => true end.
Proof.
  cbn. f_equal. induction rows as [|[k [t|]] rows IH]; cbn; auto. now rewrite IH.
Qed.

Lemma wf_ty_rec rows tail :
  wf_ty (TRec rows tail) = nodupb (keys rows) && forallb (fun r => wf_ty (snd r)) rows.
Proof.
  cbn. f_equal. induction rows as [|[k t] rows IH]; cbn; auto. now rewrite IH.
Qed.

Lemma wf_ty_enum rows tail :
  wf_ty (TEnum rows tail) =
  nodup_alts (map alt_key rows)
  && forallb (fun r => match snd r with Some t => wf_ty t | None => true end) rows.
Proof.
  cbn. f_equal. induction rows as [|[k [t|]] rows IH]; cbn; auto. now rewrite IH.
Qed.

Definition tail_open (tail : rtail) (k : string) : bool :=
  match tail with
  | RDyn => true
  | RExcl excl => negb (existsb (String.eqb k) excl)
  | _ => false
  end.

Lemma member_rec rows tail fs :
  member (TRec rows tail) (DRec fs) =
  forallb (fun r => has_key (fst r) fs) rows
  && forallb (fun f => match lookup (fst f) rows with
                       | Some t => member t (snd f)
                       | None => tail_open tail (fst f)
                       end) fs.
Proof.
  cbn. f_equal. apply forallb_ext'. intros f.
  induction rows as [|[k t] rows IH]; cbn; auto.
  destruct (String.eqb (fst f) k); auto.
Qed.

Definition alt_matches (tag : string) (arg : option dv) (r : string * option ty) : bool :=
  String.eqb tag (fst r) &&
  match snd r, arg with
  | None, None => true
  | Some t, Some a => member t a
  | _, _ => false
  end.

Lemma member_enum rows tail tag arg :
  member (TEnum rows tail) (DEnum tag arg) = existsb (alt_matches tag arg) rows.
Proof.
  cbn. induction rows as [|[k ot] rows IH]; cbn; auto. now rewrite IH.
Qed.

Lemma subcontract_fo : forall T, first_order T = true ->
  forall vars p sy, subcontract T vars p sy = Some (fo_c T, sy).
Proof.
  induction T as [| | | |t IH|a b _ _|rows tail IH|fl t IH|rows tail IH|x k t _|x|n] using ty_ind';
    intros Hfo vars p sy; try discriminate; try reflexivity.
  - cbn in *. destruct (is_dyn t); auto. now rewrite IH.
  - rewrite first_order_rec in Hfo. apply andb_true_iff in Hfo. destruct Hfo as [Hrows Htail].
    cbn.
    match goal with |- match ?X with _ => _ end = _ =>
      assert (HX : X = Some (map (fun r => (fst r, fo_c (snd r))) rows, sy)) end.
    { revert sy. induction IH as [|[k t] rows Ht _ IHrows]; intros sy; cbn; auto.
      cbn in Hrows. apply andb_true_iff in Hrows. destruct Hrows as [H1 H2].
      cbn in Ht. rewrite Ht by auto. rewrite IHrows by auto. reflexivity. }
    rewrite HX. destruct tail; try discriminate; reflexivity.
  - cbn in *. destruct (is_dyn t); auto. rewrite IH by auto. destruct fl; reflexivity.
  - rewrite first_order_enum in Hfo. apply andb_true_iff in Hfo. destruct Hfo as [Hrows Htail].
    cbn.
    match goal with |- match ?X with _ => _ end = _ =>
      assert (HX : X = Some (map (fun r => (fst r, option_map fo_c (snd r))) rows, sy)) end.
    { revert sy. induction IH as [|[k [t|]] rows Ht _ IHrows]; intros sy; cbn; auto.
      - cbn in Hrows. apply andb_true_iff in Hrows. destruct Hrows as [H1 H2].
        cbn in Ht. rewrite Ht by auto. rewrite IHrows by auto. reflexivity.
      - cbn in Hrows. rewrite IHrows by auto. reflexivity. }
    rewrite HX. destruct tail; try discriminate; reflexivity.
Qed.

Lemma check_pol_fo p T v : first_order T = true -> check_pol p T v = apply_data (fo_c T) p v.
Proof. intros H. unfold check_pol. now rewrite subcontract_fo. Qed.

(* apply_data on records / enums / dictionaries, restated *)

Definition field_app (p : polarity) (fields : list (string * cexpr)) (f : string * dv) : outcome (string * dv) :=
  obind (match lookup (fst f) fields with
         | Some c' => apply_data c' p (snd f)
         | None => Err FieldMissing
         end) (fun x => Ok (fst f, x)).

Lemma apply_record fields tail ht p fs :
  apply_data (CRecord fields tail ht) p (DRec fs) =
  let sp := split_pair fields fs in
  if negb (is_nil (left_only sp)) then blame p
  else if negb (is_nil (right_only sp)) && negb ht then blame p
  else obind (map_outcome (field_app p fields) (right_center sp))
         (fun with_contracts =>
            match tail with
            | CTEmpty => Ok (DRec with_contracts)
            | CTDyn => Ok (DRec (with_contracts ++ right_only sp))
            | CTVar (VExcludedOnly constr) =>
                if negb (is_nil (conflicts constr (right_only sp))) then blame p
                else Ok (DRec (with_contracts ++ right_only sp))
            | CTVar _ => Err OutOfFragment
            end).
Proof.
  cbn. destruct (negb (is_nil _)); auto.
  destruct (negb (is_nil _) && negb ht); auto.
  f_equal.
  assert (E : forall l, map_outcome
     (fun f : string * dv =>
      obind
        ((fix field_contract (fcs : list (string * cexpr)) : outcome dv :=
            match fcs with
            | [] => Err FieldMissing
            | (k, c') :: fcs' =>
                if (fst f =? k)%string then apply_data c' p (snd f) else field_contract fcs'
            end) fields) (fun x : dv => Ok (fst f, x))) l = map_outcome (field_app p fields) l).
  { induction l as [|f l IHl]; cbn; auto.
    fold (map_outcome (field_app p fields)).
    match goal with |- obind ?a _ = obind ?b _ => assert (Hab : a = b) end.
    { unfold field_app. f_equal. clear. induction fields as [|[k c'] fields IH]; cbn; auto.
      destruct (String.eqb (fst f) k); auto. }
    rewrite Hab. destruct (field_app p fields f); cbn; auto.
    match goal with |- obind ?a _ = obind ?b _ => replace a with b; auto end. }
  apply E.
Qed.

Definition branch_matches (tag : string) (arg : option dv) (b : string * option cexpr) : bool :=
  String.eqb tag (fst b) &&
  match snd b, arg with
  | None, None | Some _, Some _ => true
  | _, _ => false
  end.

Definition enum_app (p : polarity) (branches : list (string * option cexpr)) (tag : string) (arg : option dv)
  : outcome dv :=
  match find (branch_matches tag arg) branches with
  | None => blame p
  | Some (k, None) => Ok (DEnum tag arg)
  | Some (k, Some c') =>
      match arg with
      | Some a => obind (apply_data c' p a) (fun a' => Ok (DEnum k (Some a')))
      | None => blame p
      end
  end.

Lemma apply_enum branches p tag arg :
  apply_data (CEnum branches None) p (DEnum tag arg) = enum_app p branches tag arg.
Proof.
  unfold enum_app. cbn. induction branches as [|[k oc] branches IH]; cbn; auto.
  unfold branch_matches at 1. cbn.
  destruct (String.eqb tag k); cbn; auto.
  destruct oc, arg; cbn; auto.
Qed.

Definition is_some {A} (o : option A) : bool := match o with Some _ => true | None => false end.

Lemma branch_matches_shape tag (a1 a2 : option dv) b :
  is_some a1 = is_some a2 -> branch_matches tag a1 b = branch_matches tag a2 b.
Proof. unfold branch_matches. destruct (snd b), a1, a2; cbn; auto; discriminate. Qed.

Lemma bm_some tag a c : branch_matches tag (Some a) (tag, Some c) = true.
Proof. unfold branch_matches. cbn. now rewrite String.eqb_refl. Qed.

Lemma bm_none tag : branch_matches tag None (tag, None) = true.
Proof. unfold branch_matches. cbn. now rewrite String.eqb_refl. Qed.

Lemma enum_app_skip p b bs tag arg :
  branch_matches tag arg b = false -> enum_app p (b :: bs) tag arg = enum_app p bs tag arg.
Proof. unfold enum_app. cbn. intros ->. reflexivity. Qed.

(* ------------------------------------------------------------------ the main lemma *)

Definition spec_ok (c : cexpr) (p : polarity) (v : dv) : Prop :=
  exists v', apply_data c p v = Ok v' /\ dv_equiv v' v /\ apply_data c p v' = Ok v'.

Definition spec (T : ty) (p : polarity) (v : dv) : Prop :=
  (member T v = true -> spec_ok (fo_c T) p v) /\
  (member T v = false -> apply_data (fo_c T) p v = Err (Blame p)).

Lemma spec_total T p v :
  spec T p v ->
  (exists b, apply_data (fo_c T) p v = Ok b) \/ apply_data (fo_c T) p v = Err (Blame p).
Proof.
  intros [H1 H2]. destruct (member T v).
  - destruct (H1 eq_refl) as (b & Hb & _). left. eauto.
  - right. auto.
Qed.

Lemma nodup_alts_no_match tag arg rows :
  existsb (alt_key_eqb (tag, match arg with Some _ => true | None => false end)) (map alt_key rows) = false ->
  existsb (alt_matches tag arg) rows = false.
Proof.
  induction rows as [|[k ot] rows IH]; cbn; auto.
  intros H. apply orb_false_iff in H. destruct H as [H1 H2].
  rewrite IH by auto. rewrite orb_false_r.
  unfold alt_matches, alt_key_eqb in *. cbn in *.
  destruct (String.eqb tag k); cbn in *; auto.
  destruct ot, arg; cbn in *; auto; discriminate.
Qed.

Lemma keys_map_fo (rows : list (string * ty)) :
  keys (map (fun r => (fst r, fo_c (snd r))) rows) = keys rows.
Proof. unfold keys. rewrite map_map. reflexivity. Qed.

Lemma map_outcome_total {A B} (f : A -> outcome B) e l :
  Forall (fun a => (exists b, f a = Ok b) \/ f a = Err e) l ->
  (exists l', map_outcome f l = Ok l') \/ map_outcome f l = Err e.
Proof.
  induction 1 as [|a l Ha _ IH]; cbn; [left; eauto|]. fold (map_outcome f).
  destruct Ha as [(b & Hb)|Ha]; [|rewrite Ha; auto].
  rewrite Hb. cbn. destruct IH as [(l' & Hl')|Hl']; rewrite Hl'; cbn; eauto.
Qed.

Lemma conflicts_nil e (ro : list (string * dv)) :
  (forall f, In f ro -> existsb (String.eqb (fst f)) e = false) -> conflicts e ro = [].
Proof.
  unfold conflicts, keys. induction ro as [|f ro IH]; cbn; auto. intros H.
  rewrite (H f) by auto. apply IH. auto.
Qed.

Lemma conflicts_not_nil e (ro : list (string * dv)) f :
  In f ro -> existsb (String.eqb (fst f)) e = true -> is_nil (conflicts e ro) = false.
Proof.
  unfold conflicts, keys. induction ro as [|g ro IH]; cbn; [tauto|].
  intros [->|Hin] He.
  - rewrite He. reflexivity.
  - destruct (existsb (String.eqb (fst g)) e); auto.
Qed.

Lemma apply_spec : forall T, first_order T = true -> wf_ty T = true -> forall p v, spec T p v.
Proof.
  induction T as [| | | |t IH|a b _ _|rows tail IH|fl t IH|rows tail IH|x k t _|x|n] using ty_ind';
    intros Hfo Hwf p v; try discriminate.
  - (* Dyn *) split; cbn; [|discriminate]. intros _. exists v. repeat split; auto using dv_equiv_refl.
  - (* Num *) split; destruct v; cbn; try discriminate; auto.
    intros _. eexists. repeat split; auto using dv_equiv_refl.
  - (* Str *) split; destruct v; cbn; try discriminate; auto.
    intros _. eexists. repeat split; auto using dv_equiv_refl.
  - (* Bool *) split; destruct v; cbn; try discriminate; auto.
    intros _. eexists. repeat split; auto using dv_equiv_refl.
  - (* Array *)
    cbn in Hfo, Hwf. specialize (IH Hfo Hwf p).
    unfold spec, spec_ok. cbn [fo_c]. destruct (is_dyn t) eqn:Ed.
    + destruct t; try discriminate.
      split; destruct v; cbn; try discriminate; auto.
      * intros _. eexists. repeat split; auto using dv_equiv_refl.
      * intros H. exfalso. clear -H. induction es; cbn in *; congruence.
    + split; destruct v as [| | | | |es|]; cbn [member apply_data]; try discriminate; auto.
      * intros Hm.
        destruct (map_outcome_ok (apply_data (fo_c t) p) dv_equiv es) as (es' & H1 & H2 & H3).
        { rewrite forallb_forall in Hm. apply Forall_forall. intros x Hx.
          destruct (IH x) as [Hok _]. apply Hok. auto. }
        exists (DArr es'). rewrite H1. cbn. repeat split; auto.
        -- constructor. auto.
        -- rewrite H3. reflexivity.
      * intros Hm. rewrite (map_outcome_err _ (Blame p)); auto.
        -- apply Forall_forall. intros x _. apply spec_total. auto.
        -- apply forallb_false_exists in Hm. apply Exists_exists in Hm.
           destruct Hm as (x & Hx & Hmx). apply Exists_exists. exists x. split; auto.
           destruct (IH x) as [_ Hbad]. auto.
  - (* Record *)
    rewrite first_order_rec in Hfo. apply andb_true_iff in Hfo. destruct Hfo as [Hfo Htail].
    rewrite wf_ty_rec in Hwf. apply andb_true_iff in Hwf. destruct Hwf as [_ Hwf].
    assert (IHr : forall k t, lookup k rows = Some t -> forall v, spec t p v).
    { clear -IH Hfo Hwf. induction IH as [|[k' t'] rows Ht _ IHrows]; cbn; [discriminate|].
      cbn in Hfo, Hwf. apply andb_true_iff in Hfo. apply andb_true_iff in Hwf.
      destruct Hfo as [F1 F2], Hwf as [W1 W2].
      intros k t. destruct (String.eqb k k').
      - intros E. inversion E; subst. intros v. apply Ht; auto.
      - apply IHrows; auto. }
    clear IH.
    set (fields := map (fun r => (fst r, fo_c (snd r))) rows).
    assert (Hhk : forall k, has_key k fields = has_key k rows) by (intros; apply has_key_map).
    assert (Hlk : forall k, lookup k fields = option_map fo_c (lookup k rows)) by (intros; apply lookup_map).
    destruct v as [| | | | | |fs]; try (split; cbn; try discriminate; auto; fail).
    unfold spec, spec_ok. cbn [fo_c]. fold fields. rewrite member_rec. rewrite apply_record.
    cbv zeta. unfold split_pair; cbn [left_only right_center right_only].
    (* left_only is empty iff every declared field is present *)
    assert (Hleft : is_nil (filter (fun kc : string * cexpr => negb (has_key (fst kc) fs)) fields)
                    = forallb (fun r : string * ty => has_key (fst r) fs) rows).
    { rewrite filter_nil_forallb. unfold fields. rewrite forallb_map. reflexivity. }
    rewrite Hleft.
    destruct (forallb (fun r : string * ty => has_key (fst r) fs) rows) eqn:Epresent; cbn [negb andb];
      [|split; [discriminate|reflexivity]].
    set (center := filter (fun f : string * dv => has_key (fst f) fields) fs).
    set (ro := filter (fun f : string * dv => negb (has_key (fst f) fields)) fs).
    set (okf := fun f : string * dv => match lookup (fst f) rows with
                                       | Some t => member t (snd f)
                                       | None => tail_open tail (fst f) end).
    (* every field of the centre runs the contract of its declared type *)
    assert (Hcenter_total : Forall (fun f => (exists b, field_app p fields f = Ok b)
                                             \/ field_app p fields f = Err (Blame p)) center).
    { apply Forall_forall. intros f Hf. apply filter_In in Hf. destruct Hf as [_ Hk].
      rewrite Hhk, has_key_lookup in Hk. unfold field_app. rewrite Hlk.
      destruct (lookup (fst f) rows) as [t|] eqn:El; [|discriminate]. cbn.
      destruct (spec_total t p (snd f) (IHr _ _ El _)) as [(b & Hb)|Hb]; rewrite Hb; cbn; eauto. }
    destruct (negb (is_nil ro) && negb (match tail with RClosed => false | _ => true end)) eqn:Eextra.
    + (* an extra field and a closed record type *)
      split; [|reflexivity]. intros Hm. exfalso.
      apply andb_true_iff in Eextra. destruct Eextra as [E1 E2].
      destruct tail; try discriminate.
      destruct ro as [|f ro'] eqn:Ero; [discriminate|].
      assert (Hin : In f ro) by (rewrite Ero; left; auto).
      apply filter_In in Hin. destruct Hin as [Hin Hk].
      rewrite forallb_forall in Hm. specialize (Hm f Hin). unfold okf in Hm.
      rewrite Hhk, has_key_lookup in Hk. destruct (lookup (fst f) rows); cbn in *; discriminate.
    + destruct (forallb okf fs) eqn:Eok.
      * (* member *)
        split; [intros _|discriminate].
        rewrite forallb_forall in Eok.
        destruct (map_outcome_ok (field_app p fields)
                    (fun a b => fst a = fst b /\ dv_equiv (snd a) (snd b)) center)
          as (center' & H1 & H2 & H3).
        { apply Forall_forall. intros f Hf. apply filter_In in Hf. destruct Hf as [Hin Hk].
          specialize (Eok f Hin). unfold okf in Eok.
          rewrite Hhk, has_key_lookup in Hk. unfold field_app. rewrite Hlk.
          destruct (lookup (fst f) rows) as [t|] eqn:El; [|discriminate]. cbn.
          destruct (IHr _ _ El (snd f)) as [Hok _]. destruct (Hok Eok) as (b & Hb & Hbe & Hbb).
          exists (fst f, b). rewrite Hb. cbn. rewrite Hlk, El. cbn. rewrite Hbb. cbn. auto. }
        rewrite H1. cbn [obind].
        assert (Hkeys' : forall f', In f' center' -> has_key (fst f') fields = true).
        { intros f' Hf'. destruct (Forall2_In_l _ _ _ _ H2 Hf') as (f & Hf & Hff & _).
          rewrite Hff. apply filter_In in Hf. tauto. }
        assert (Hc'c : filter (fun f : string * dv => has_key (fst f) fields) center' = center').
        { apply filter_all. apply forallb_forall. auto. }
        assert (Hc'r : filter (fun f : string * dv => negb (has_key (fst f) fields)) center' = []).
        { apply filter_none. apply forallb_forall. intros f Hf. rewrite negb_involutive. auto. }
        assert (Hroc : filter (fun f : string * dv => has_key (fst f) fields) ro = []).
        { apply filter_none. apply forallb_forall. intros f Hf. apply filter_In in Hf. tauto. }
        assert (Hror : filter (fun f : string * dv => negb (has_key (fst f) fields)) ro = ro).
        { apply filter_all. apply forallb_forall. intros f Hf. apply filter_In in Hf. tauto. }
        assert (Hperm : Permutation fs (center ++ ro)) by apply filter_partition_perm.
        assert (HF2 : Forall2 (fun a b => fst a = fst b /\ dv_equiv (snd a) (snd b)) (center' ++ ro) (center ++ ro)).
        { apply Forall2_app; auto. clear. induction ro; constructor; auto using dv_equiv_refl. }
        (* the keys of the result are those of the value: every declared field is still present *)
        assert (Hleft' : forall l', Forall2 (fun a b : string * dv => fst a = fst b /\ dv_equiv (snd a) (snd b)) l' (center ++ ro) ->
                  is_nil (filter (fun kc : string * cexpr => negb (has_key (fst kc) l')) fields) = true).
        { intros l' Hl'. rewrite filter_nil_forallb. apply forallb_forall. intros kc Hkc.
          assert (Hk : has_key (fst kc) fs = true).
          { unfold fields in Hkc. apply in_map_iff in Hkc. destruct Hkc as (r & <- & Hr). cbn.
            rewrite forallb_forall in Epresent. auto. }
          rewrite (has_key_perm _ _ _ Hperm) in Hk.
          rewrite (has_key_Forall2 _ _ _ _ Hl'). exact Hk. }
        destruct tail; try discriminate; cbn [negb andb] in *.
        -- (* closed: there is no extra field *)
           rewrite andb_true_r in Eextra. apply negb_false_iff in Eextra.
           destruct ro; [|discriminate]. rewrite app_nil_r in *.
           exists (DRec center'). repeat split; auto.
           ++ eapply EqRec; eauto.
           ++ rewrite apply_record. cbv zeta. unfold split_pair; cbn [left_only right_center right_only].
              rewrite Hleft' by auto. rewrite Hc'r, Hc'c. cbn [negb is_nil andb]. rewrite H3. reflexivity.
        -- (* open *)
           exists (DRec (center' ++ ro)). repeat split; auto.
           ++ eapply EqRec; eauto.
           ++ rewrite apply_record. cbv zeta. unfold split_pair; cbn [left_only right_center right_only].
              rewrite Hleft' by auto. rewrite !filter_app, Hc'r, Hc'c, Hroc, Hror.
              rewrite app_nil_r. cbn [app]. rewrite andb_false_r. cbn [negb].
              rewrite H3. reflexivity.
        -- (* open except for the excluded names *)
           assert (Hconf : conflicts excl ro = []).
           { apply conflicts_nil. intros f Hf. apply filter_In in Hf. destruct Hf as [Hin Hk].
             specialize (Eok f Hin). unfold okf in Eok.
             rewrite Hhk, has_key_lookup in Hk. destruct (lookup (fst f) rows); [discriminate|].
             cbn in Eok. apply negb_true_iff in Eok. exact Eok. }
           rewrite Hconf. cbn [is_nil negb].
           exists (DRec (center' ++ ro)). repeat split; auto.
           ++ eapply EqRec; eauto.
           ++ rewrite apply_record. cbv zeta. unfold split_pair; cbn [left_only right_center right_only].
              rewrite Hleft' by auto. rewrite !filter_app, Hc'r, Hc'c, Hroc, Hror.
              rewrite app_nil_r. cbn [app]. rewrite andb_false_r. cbn [negb].
              rewrite H3. cbn [obind]. rewrite Hconf. reflexivity.
      * (* some field is not in its declared type, or is an excluded extra field *)
        split; [discriminate|intros _].
        apply forallb_false_exists in Eok. apply Exists_exists in Eok.
        destruct Eok as (f & Hin & Hbad). unfold okf in Hbad.
        destruct (lookup (fst f) rows) as [t|] eqn:El.
        -- rewrite (map_outcome_err _ (Blame p)); auto.
           apply Exists_exists. exists f. split.
           ++ apply filter_In. split; auto. rewrite Hhk, has_key_lookup, El. reflexivity.
           ++ unfold field_app. rewrite Hlk, El. cbn.
              destruct (IHr _ _ El (snd f)) as [_ Hb]. rewrite Hb; auto.
        -- assert (Hro : In f ro).
           { apply filter_In. split; auto. rewrite Hhk, has_key_lookup, El. reflexivity. }
           destruct tail; cbn in Hbad; try discriminate.
           ++ (* closed tail: excluded by Eextra *)
              exfalso. cbn [negb andb] in Eextra. rewrite andb_true_r in Eextra. apply negb_false_iff in Eextra.
              destruct ro; [inversion Hro|discriminate].
           ++ (* excluded-only tail *)
              apply negb_false_iff in Hbad.
              destruct (map_outcome_total _ _ _ Hcenter_total) as [(l' & Hl')|Hl']; rewrite Hl'; auto.
              cbn [obind]. rewrite (conflicts_not_nil _ _ _ Hro Hbad). reflexivity.
  - (* Dict *)
    cbn in Hfo, Hwf. specialize (IH Hfo Hwf p).
    assert (Hgen : forall c, (c = CDictContract (fo_c t) \/ c = CDictType (fo_c t)) ->
              (member (TDict fl t) v = true -> spec_ok c p v) /\
              (member (TDict fl t) v = false -> apply_data c p v = Err (Blame p))).
    { intros c Hc.
      assert (Happ : forall fs, apply_data c p (DRec fs) =
                obind (map_outcome (fun f : string * dv =>
                         obind (apply_data (fo_c t) p (snd f)) (fun x => Ok (fst f, x))) fs)
                      (fun fs' => Ok (DRec fs'))) by (destruct Hc; subst; reflexivity).
      assert (Hnr : forall w, (forall fs, w <> DRec fs) -> apply_data c p w = Err (Blame p)).
      { intros w Hw. destruct Hc; subst; destruct w; auto; exfalso; eapply Hw; eauto. }
      destruct v as [| | | | | |fs]; try (split; [discriminate|intros _; apply Hnr; congruence]).
      cbn [member]. split.
      - intros Hm. rewrite forallb_forall in Hm.
        destruct (map_outcome_ok (fun f : string * dv =>
                         obind (apply_data (fo_c t) p (snd f)) (fun x => Ok (fst f, x)))
                    (fun a b => fst a = fst b /\ dv_equiv (snd a) (snd b)) fs) as (fs' & H1 & H2 & H3).
        { apply Forall_forall. intros f Hf. destruct (IH (snd f)) as [Hok _].
          destruct (Hok (Hm f Hf)) as (b & Hb & Hbe & Hbb).
          exists (fst f, b). rewrite Hb. cbn. rewrite Hbb. cbn. auto. }
        exists (DRec fs'). rewrite !Happ, H1. cbn. repeat split; auto.
        + eapply EqRec; [apply Permutation_refl|]; auto.
        + rewrite H3. reflexivity.
      - intros Hm. rewrite Happ. rewrite (map_outcome_err _ (Blame p)); auto.
        + apply Forall_forall. intros f _.
          destruct (spec_total t p (snd f) (IH _)) as [(b & Hb)|Hb]; rewrite Hb; cbn; eauto.
        + apply forallb_false_exists in Hm. apply Exists_exists in Hm.
          destruct Hm as (f & Hf & Hbad). apply Exists_exists. exists f. split; auto.
          destruct (IH (snd f)) as [_ Hb]. rewrite Hb; auto. }
    unfold spec, spec_ok. cbn [fo_c]. destruct (is_dyn t) eqn:Ed.
    + destruct t; try discriminate.
      split; destruct v; cbn; try discriminate; auto.
      * intros _. eexists. repeat split; auto using dv_equiv_refl.
      * intros H. exfalso. clear -H. induction fs; cbn in *; congruence.
    + destruct fl; apply Hgen; auto.
  - (* Enum *)
    rewrite first_order_enum in Hfo. apply andb_true_iff in Hfo. destruct Hfo as [Hfo Htail].
    rewrite wf_ty_enum in Hwf. apply andb_true_iff in Hwf. destruct Hwf as [Hnd Hwf].
    destruct v as [| | | |tag arg| |]; try (split; cbn; try discriminate; auto; fail).
    unfold spec, spec_ok. cbn [fo_c]. rewrite member_enum.
    set (bs := map (fun r : string * option ty => (fst r, option_map fo_c (snd r))) rows).
    assert (Hmain :
      (existsb (alt_matches tag arg) rows = true ->
       exists arg', enum_app p bs tag arg = Ok (DEnum tag arg') /\ dv_equiv (DEnum tag arg') (DEnum tag arg)
                    /\ is_some arg' = is_some arg /\ enum_app p bs tag arg' = Ok (DEnum tag arg'))
      /\ (existsb (alt_matches tag arg) rows = false -> enum_app p bs tag arg = Err (Blame p))).
    { subst bs. clear Htail. revert Hnd Hfo Hwf.
      induction IH as [|[k ot] rows Ht _ IHrows]; intros Hnd Hfo Hwf.
      { cbn. split; [discriminate|reflexivity]. }
      cbn [map existsb fst snd].
      cbn in Hnd. apply andb_true_iff in Hnd. destruct Hnd as [Hnd1 Hnd2].
      apply negb_true_iff in Hnd1.
      assert (Hfo' : forallb (fun r : string * option ty => match snd r with Some t => first_order t | None => true end) rows = true
                     /\ match ot with Some t => first_order t = true | None => True end).
      { cbn in Hfo. destruct ot; [apply andb_true_iff in Hfo; tauto|auto]. }
      assert (Hwf' : forallb (fun r : string * option ty => match snd r with Some t => wf_ty t | None => true end) rows = true
                     /\ match ot with Some t => wf_ty t = true | None => True end).
      { cbn in Hwf. destruct ot; [apply andb_true_iff in Hwf; tauto|auto]. }
      destruct Hfo' as [F2 F1], Hwf' as [W2 W1].
      specialize (IHrows Hnd2 F2 W2).
      destruct (branch_matches tag arg (k, option_map fo_c ot)) eqn:Ebm.
      - (* the head alternative has the tag and the shape of the value *)
        unfold branch_matches in Ebm. cbn [fst snd] in Ebm. apply andb_true_iff in Ebm.
        destruct Ebm as [Etag Eshape]. apply String.eqb_eq in Etag. subst k.
        assert (Hrest : existsb (alt_matches tag arg) rows = false).
        { apply nodup_alts_no_match. unfold alt_key in Hnd1. cbn [fst snd] in Hnd1.
          destruct ot, arg; cbn in Eshape; try discriminate; exact Hnd1. }
        rewrite Hrest, orb_false_r. unfold alt_matches. cbn [fst snd]. rewrite String.eqb_refl. cbn [andb].
        destruct ot as [t|], arg as [a|]; cbn in Eshape; try discriminate.
        + cbn in Ht. specialize (Ht F1 W1 p a). destruct Ht as [Hok Hbad].
          unfold enum_app. cbn [map find fst snd option_map]. rewrite !bm_some.
          split.
          * intros Hm. destruct (Hok Hm) as (b & Hb & Hbe & Hbb).
            exists (Some b). rewrite !bm_some. rewrite Hb. cbn. repeat split; auto.
            -- constructor. auto.
            -- rewrite Hbb. reflexivity.
          * intros Hm. rewrite Hbad; auto.
        + unfold enum_app. cbn [map find fst snd option_map]. rewrite !bm_none.
          split; [|discriminate]. intros _. exists None. rewrite !bm_none. repeat split; auto using dv_equiv_refl.
      - (* the head alternative does not apply: same verdict as the remaining ones *)
        assert (Halt : alt_matches tag arg (k, ot) = false).
        { unfold branch_matches in Ebm. unfold alt_matches. cbn [fst snd] in *.
          destruct (String.eqb tag k); cbn in *; auto. destruct ot, arg; cbn in *; auto; discriminate. }
        rewrite Halt. cbn [orb]. rewrite enum_app_skip by exact Ebm.
        destruct IHrows as [I1 I2]. split; auto.
        intros Hm. destruct (I1 Hm) as (arg' & H1 & H2 & H3 & H4).
        exists arg'. repeat split; auto.
        rewrite enum_app_skip; auto.
        rewrite (branch_matches_shape tag arg' arg); auto. }
    destruct Hmain as [M1 M2]. split.
    + intros Hm. destruct (M1 Hm) as (arg' & H1 & H2 & H3 & H4).
      exists (DEnum tag arg'). rewrite !apply_enum. auto.
    + intros Hm. rewrite apply_enum. auto.
Qed.

(* ------------------------------------------------------------------ the theorems *)

Section Theorems.
  Variable T : ty.
  Hypothesis Hfo : first_order T = true.
  Hypothesis Hwf : wf_ty T = true.

  Theorem check_pol_sound_complete p v :
    (exists v', check_pol p T v = Ok v') <-> member T v = true.
  Proof.
    rewrite check_pol_fo by exact Hfo. destruct (apply_spec T Hfo Hwf p v) as [Hok Hbad]. split.
    - intros (v' & Hv'). destruct (member T v); auto. rewrite Hbad in Hv' by reflexivity. discriminate.
    - intros Hm. destruct (Hok Hm) as (v' & H1 & _). eauto.
  Qed.

  Theorem check_pol_identity p v v' : check_pol p T v = Ok v' -> dv_equiv v' v.
  Proof.
    rewrite check_pol_fo by exact Hfo. destruct (apply_spec T Hfo Hwf p v) as [Hok Hbad]. intros H.
    destruct (member T v).
    - destruct (Hok eq_refl) as (w & H1 & H2 & _). congruence.
    - rewrite Hbad in H by reflexivity. discriminate.
  Qed.

  Theorem check_pol_idempotent p v v' : check_pol p T v = Ok v' -> check_pol p T v' = Ok v'.
  Proof.
    rewrite !check_pol_fo by exact Hfo. destruct (apply_spec T Hfo Hwf p v) as [Hok Hbad]. intros H.
    destruct (member T v).
    - destruct (Hok eq_refl) as (w & H1 & _ & H3). congruence.
    - rewrite Hbad in H by reflexivity. discriminate.
  Qed.

  Theorem check_pol_fail_is_blame p v : member T v = false -> check_pol p T v = Err (Blame p).
  Proof.
    rewrite check_pol_fo by exact Hfo. destruct (apply_spec T Hfo Hwf p v) as [_ Hbad]. exact Hbad.
  Qed.

  (* the only error a built-in contract of the fragment can raise on data is that blame *)
  Theorem check_pol_total p v :
    (exists v', check_pol p T v = Ok v') \/ check_pol p T v = Err (Blame p).
  Proof.
    rewrite check_pol_fo by exact Hfo. apply spec_total. apply apply_spec; auto.
  Qed.
End Theorems.

(* The hypotheses are satisfiable by non-trivial types and values: an open record type with an
   array, a dictionary and an enum inside, a member with an extra field, and a non-member. *)
Definition ex_ty : ty :=
  TRec [("a"%string, TArr TNum);
        ("b"%string, TDict FContract (TEnum [("A"%string, Some TStr); ("B"%string, None)] EClosed))] RDyn.
Definition ex_member : dv :=
  DRec [("z"%string, DNull);
        ("b"%string, DRec [("k"%string, DEnum "A" (Some (DStr "s"))); ("l"%string, DEnum "B" None)]);
        ("a"%string, DArr [DNum 1 1; DNum (-7) 2])].
Definition ex_nonmember : dv :=
  DRec [("a"%string, DArr [DNum 1 1; DStr "x"]); ("b"%string, DRec [])].

Example ex_hyps : first_order ex_ty = true /\ wf_ty ex_ty = true.
Proof. split; reflexivity. Qed.
Example ex_member_ok :
  member ex_ty ex_member = true /\
  check ex_ty ex_member =
    Ok (DRec [("b"%string, DRec [("k"%string, DEnum "A" (Some (DStr "s"))); ("l"%string, DEnum "B" None)]);
              ("a"%string, DArr [DNum 1 1; DNum (-7) 2]);
              ("z"%string, DNull)]).
Proof. split; reflexivity. Qed.
Example ex_nonmember_blames :
  member ex_ty ex_nonmember = false /\ check ex_ty ex_nonmember = Err (Blame Pos).
Proof. split; reflexivity. Qed.

(* ------------------------------------------------------------------ the specification does not
   depend on field order: [member] is invariant under [dv_equiv] *)

Lemma forallb_perm {A} (f : A -> bool) l l' : Permutation l l' -> forallb f l = forallb f l'.
Proof.
  induction 1 as [|x l l' _ IH|x y l|l l' l'' _ IH1 _ IH2]; cbn; auto.
  - now rewrite IH.
  - destruct (f x), (f y); auto.
  - congruence.
Qed.

Lemma forallb_Forall2 {A B} (R : A -> B -> Prop) (f : A -> bool) (g : B -> bool) l l' :
  Forall2 R l l' -> (forall a b, R a b -> f a = g b) -> forallb f l = forallb g l'.
Proof.
  intros H Hfg. induction H as [|a b l l' Hab _ IH]; cbn; auto. now rewrite (Hfg a b Hab), IH.
Qed.

Lemma Forall2_impl_In {A B} (R S : A -> B -> Prop) l l' :
  Forall2 R l l' -> Forall (fun a => forall b, R a b -> S a b) l -> Forall2 S l l'.
Proof.
  induction 1 as [|a b l l' Hab _ IH]; intros HF; constructor; inversion HF; subst; auto.
Qed.

Theorem member_equiv : forall T v1 v2, dv_equiv v1 v2 -> member T v1 = member T v2.
Proof.
  induction T as [| | | |t IH|a b _ _|rows tail IH|fl t IH|rows tail IH|x k t _|x|n] using ty_ind';
    intros v1 v2 He; try reflexivity; try (inversion He; subst; reflexivity).
  - (* Array *)
    inversion He; subst; try reflexivity. cbn.
    eapply forallb_Forall2; eauto.
  - (* Record *)
    inversion He as [| | | | | | |l1 l2 l2' Hperm HF]; subst; try reflexivity.
    rewrite !member_rec.
    assert (Hk : forall k, has_key k l1 = has_key k l2).
    { intros k. rewrite (has_key_perm k l2 l2' Hperm). eapply has_key_Forall2; eauto. }
    f_equal.
    + apply forallb_ext'. intros r. apply Hk.
    + rewrite (forallb_perm _ l2 l2' Hperm).
      eapply forallb_Forall2; [exact HF|].
      intros f1 f2 [Hfst Hsnd]. cbn beta. rewrite Hfst.
      destruct (lookup (fst f2) rows) as [t|] eqn:El; auto.
      (* the declared type of that field *)
      clear -IH El Hsnd. induction IH as [|[k' t'] rows Ht _ IHrows]; cbn in El; [discriminate|].
      destruct (String.eqb (fst f2) k').
      * inversion El; subst. apply Ht. exact Hsnd.
      * auto.
  - (* Dict *)
    inversion He as [| | | | | | |l1 l2 l2' Hperm HF]; subst; try reflexivity. cbn.
    rewrite (forallb_perm _ l2 l2' Hperm).
    eapply forallb_Forall2; [exact HF|]. intros f1 f2 [_ Hsnd]. apply IH. exact Hsnd.
  - (* Enum *)
    inversion He; subst; try reflexivity.
    + rewrite !member_enum.
      induction IH as [|[k [t'|]] rows Ht _ IHrows]; cbn; auto.
      * unfold alt_matches at 1 3. cbn. rewrite IHrows.
        cbn in Ht. now rewrite (Ht a b) by assumption.
      * unfold alt_matches at 1 3. cbn. now rewrite IHrows.
Qed.
