(* Proofs about contract simplification (Type::simplify) and the typed/untyped boundary. *)
From Coq Require Import List String ZArith Bool Permutation.
From NV Require Import Contract.Data Contract.Gen Contract.Apply Contract.Checks Contract.CheckProofs.
Import ListNotations.
Open Scope bool_scope.

(* ------------------------------------------------------------------ "same negative checks, no new check" *)

Definition skn (l' l : list chk) : Prop := negs l' = negs l /\ incl l' l.

Lemma skn_refl l : skn l l.
Proof. split; [reflexivity|apply incl_refl]. Qed.

Lemma skn_app a' a b' b : skn a' a -> skn b' b -> skn (a' ++ b') (a ++ b).
Proof.
  intros [N1 I1] [N2 I2]. split.
  - unfold negs. rewrite !filter_app. fold (negs a') (negs a) (negs b') (negs b). congruence.
  - apply incl_app; [apply incl_appl|apply incl_appr]; auto.
Qed.

Lemma skn_cons c l' l : skn l' l -> skn (c :: l') (c :: l).
Proof. intros H. apply (skn_app [c] [c]); auto using skn_refl. Qed.

Lemma negs_under s l : negs (under s l) = under s (negs l).
Proof.
  induction l as [|[pa po ki] l IH]; [reflexivity|].
  unfold negs, under, is_neg in *. destruct po; simpl; [exact IH|f_equal; exact IH].
Qed.

Lemma skn_under s l' l : skn l' l -> skn (under s l') (under s l).
Proof.
  intros [N I]. split.
  - rewrite !negs_under. congruence.
  - unfold under. intros c Hc. apply in_map_iff in Hc. destruct Hc as (c0 & <- & Hc0).
    apply in_map_iff. exists c0. auto.
Qed.

Lemma skn_nil l : negs l = [] -> skn [] l.
Proof. intros H. split; [now rewrite H|intros c []]. Qed.

Lemma skn_nil_inv l : skn [] l -> negs l = [].
Proof. intros [H _]. now rewrite <- H. Qed.

Lemma skn_drop c l' l : c_pol c = Pos -> skn l' l -> skn l' (c :: l).
Proof.
  intros Hc [N I]. split.
  - unfold negs. cbn. unfold is_neg at 2. rewrite Hc. exact N.
  - apply incl_tl. exact I.
Qed.

Lemma negs_all_pos l : (forall c, In c l -> c_pol c = Pos) -> negs l = [].
Proof.
  unfold negs. induction l as [|c l IH]; cbn; auto. intros H.
  unfold is_neg at 1. rewrite (H c) by auto. apply IH. auto.
Qed.

Lemma skn_trans a b c : skn a b -> skn b c -> skn a c.
Proof. intros [N1 I1] [N2 I2]. split; [congruence|eapply incl_tran; eauto]. Qed.

(* ------------------------------------------------------------------ unfolding lemmas *)

Definition rows_checks (p : polarity) env (rows : list (string * ty)) : list chk :=
  flat_map (fun r => under (SField (fst r)) (checks (snd r) p env)) rows.

Definition erows_checks (p : polarity) env (rows : list (string * option ty)) : list chk :=
  flat_map (fun r => match snd r with
                     | Some t => under (SVariant (fst r)) (checks t p env)
                     | None => []
                     end) rows.

Lemma checks_rec rows tail p env :
  checks (TRec rows tail) p env =
  here p KIsRecord
  :: map (fun k => here p (KHasField k)) (keys rows)
  ++ rows_checks p env rows ++ tail_checks env p (keys rows) tail.
Proof.
  cbn. do 3 f_equal. unfold rows_checks.
  induction rows as [|[k t] rows IH]; cbn; auto. now rewrite IH.
Qed.

Lemma checks_enum rows tail p env :
  checks (TEnum rows tail) p env =
  here p KIsEnum :: erows_checks p env rows
  ++ match tail with EClosed => [here p KEnumTag] | EVar _ => [] end.
Proof.
  cbn. do 2 f_equal. unfold erows_checks.
  induction rows as [|[k [t|]] rows IH]; cbn; auto. now rewrite IH.
Qed.

Definition simp_rows (sv : svars) (p : polarity) (elide : bool) (rows : list (string * ty))
  : list (string * ty) :=
  flat_map (fun r => let t' := simplify (snd r) sv p in
                     if is_dyn t' && is_pos p && elide then [] else [(fst r, t')]) rows.

Definition simp_erows (sv : svars) (p : polarity) (rows : list (string * option ty))
  : list (string * option ty) :=
  map (fun r => (fst r, option_map (fun t => simplify t sv p) (snd r))) rows.

Lemma simplify_rec rows tail sv p :
  simplify (TRec rows tail) sv p =
  let rows' := simp_rows sv p (can_elide sv tail) rows in
  let tail' := simplify_rtail sv p (keys rows) tail in
  match rows', tail', p with
  | [], RDyn, Pos | [], RClosed, Pos => TDyn
  | _, _, _ => TRec rows' tail'
  end.
Proof.
  cbn [simplify]. cbv zeta.
  match goal with |- match ?X with _ => _ end = match ?Y with _ => _ end => assert (E : X = Y) end.
  { unfold simp_rows. induction rows as [|[k t] rows IH]; cbn; auto.
    destruct (is_dyn (simplify t sv p) && is_pos p && can_elide sv tail); cbn; now rewrite IH. }
  rewrite E. reflexivity.
Qed.

Lemma simplify_enum rows tail sv p :
  simplify (TEnum rows tail) sv p =
  let rows' := simp_erows sv p rows in
  let elide :=
    forallb (fun r : string * option ty => match snd r with Some t' => is_dyn t' | None => true end) rows'
    && match tail with EClosed => true | EVar _ => false end in
  if elide && is_pos p then TDyn else TEnum rows' tail.
Proof.
  cbn [simplify]. cbv zeta.
  match goal with |- (if forallb _ ?X && _ && _ then _ else _) = _ => assert (E : X = simp_erows sv p rows) end.
  { unfold simp_erows. induction rows as [|[k [t|]] rows IH]; cbn; auto; now rewrite IH. }
  rewrite E. reflexivity.
Qed.

(* ------------------------------------------------------------------ well-kinded types *)

(* what the parser produces: a type variable is used according to the kind of its binder, and is
   bound (closed types) *)
Fixpoint wk (T : ty) (kenv : list (string * varkind)) {struct T} : bool :=
  match T with
  | TDyn | TNum | TStr | TBool | TOpaque _ => true
  | TArr t => wk t kenv
  | TArrow a b => wk a kenv && wk b kenv
  | TRec rows tail =>
      (fix go (rs : list (string * ty)) : bool :=
         match rs with [] => true | (_, t) :: rs' => wk t kenv && go rs' end) rows
      && match tail with
         | RVar x => match lookup x kenv with Some (KRecRows _) => true | _ => false end
         | _ => true
         end
  | TDict _ t => wk t kenv
  | TEnum rows tail =>
      (fix go (rs : list (string * option ty)) : bool :=
         match rs with
         | [] => true
         | (_, None) :: rs' => go rs'
         | (_, Some t) :: rs' => wk t kenv && go rs'
         end) rows
      && match tail with
         | EVar x => match lookup x kenv with Some KEnumRows => true | _ => false end
         | EClosed => true
         end
  | TForall x k t => wk t ((x, k) :: kenv)
  | TVar x => match lookup x kenv with Some KType => true | _ => false end
  end.

Lemma wk_rec rows tail kenv :
  wk (TRec rows tail) kenv =
  forallb (fun r => wk (snd r) kenv) rows
  && match tail with
     | RVar x => match lookup x kenv with Some (KRecRows _) => true | _ => false end
     | _ => true
     end.
Proof. cbn. f_equal. induction rows as [|[k t] rows IH]; cbn; auto. now rewrite IH. Qed.

Lemma wk_enum rows tail kenv :
  wk (TEnum rows tail) kenv =
  forallb (fun r => match snd r with Some t => wk t kenv | None => true end) rows
  && match tail with
     | EVar x => match lookup x kenv with Some KEnumRows => true | _ => false end
     | EClosed => true
     end.
Proof. cbn. f_equal. induction rows as [|[k [t|]] rows IH]; cbn; auto. now rewrite IH. Qed.

(* ------------------------------------------------------------------ the invariant *)

(* [es]: binders in scope of the simplified type; [eo]: of the original one; [kenv]: their kinds *)
Definition inv (sv : svars) (es eo : list (string * (polarity * varkind)))
           (kenv : list (string * varkind)) : Prop :=
  forall x,
    (ty_elided sv x = true -> lookup x eo = Some (Pos, KType)) /\
    (forall e, rr_elided sv x = Some e -> lookup x eo = Some (Pos, KRecRows e)) /\
    (ty_elided sv x = false -> rr_elided sv x = None -> lookup x es = lookup x eo) /\
    lookup x kenv = option_map snd (lookup x eo).

Lemma inv_empty : inv sv_empty [] [] [].
Proof. intros x. cbn. repeat split; auto; discriminate. Qed.

Lemma inv_elide_ty sv es eo kenv x :
  inv sv es eo kenv ->
  inv (mkSV ((x, true) :: sv_ty sv) ((x, None) :: sv_rr sv)) es ((x, (Pos, KType)) :: eo) ((x, KType) :: kenv).
Proof.
  intros H y. specialize (H y). unfold ty_elided, rr_elided in *. cbn.
  destruct (String.eqb y x) eqn:E; cbn.
  - repeat split; auto; discriminate.
  - exact H.
Qed.

Lemma inv_elide_rr sv es eo kenv x excl :
  inv sv es eo kenv ->
  inv (mkSV ((x, false) :: sv_ty sv) ((x, Some excl) :: sv_rr sv)) es
      ((x, (Pos, KRecRows excl)) :: eo) ((x, KRecRows excl) :: kenv).
Proof.
  intros H y. specialize (H y). unfold ty_elided, rr_elided in *. cbn.
  destruct (String.eqb y x) eqn:E; cbn.
  - repeat split; auto; try discriminate. intros e He. inversion He. reflexivity.
  - exact H.
Qed.

Lemma inv_keep sv es eo kenv x p k :
  inv sv es eo kenv ->
  inv (mkSV ((x, false) :: sv_ty sv) ((x, None) :: sv_rr sv))
      ((x, (p, k)) :: es) ((x, (p, k)) :: eo) ((x, k) :: kenv).
Proof.
  intros H y. specialize (H y). unfold ty_elided, rr_elided in *. cbn.
  destruct (String.eqb y x) eqn:E; cbn.
  - repeat split; auto; discriminate.
  - exact H.
Qed.

(* ------------------------------------------------------------------ the main lemma *)

Lemma here_pos_negs {A} (f : A -> ckind) (l : list A) : negs (map (fun a => here Pos (f a)) l) = [].
Proof. apply negs_all_pos. intros c Hc. apply in_map_iff in Hc. destruct Hc as (k & <- & _). reflexivity. Qed.

Lemma simp_rows_keys sv p elide rows :
  is_pos p && elide = false -> keys (simp_rows sv p elide rows) = keys rows.
Proof.
  intros H. unfold simp_rows, keys. induction rows as [|[k t] rows IH]; [reflexivity|].
  cbn [flat_map fst snd]. rewrite <- andb_assoc, H, andb_false_r. cbn [app map fst]. now rewrite IH.
Qed.

Lemma simp_rows_keys_neg sv elide rows : keys (simp_rows sv Neg elide rows) = keys rows.
Proof. apply simp_rows_keys. reflexivity. Qed.

Lemma simp_rows_keys_noelide sv p rows : keys (simp_rows sv p false rows) = keys rows.
Proof. apply simp_rows_keys. apply andb_false_r. Qed.

Lemma incl_map_keys (p : polarity) sv elide rows :
  incl (map (fun k => here p (KHasField k)) (keys (simp_rows sv p elide rows)))
       (map (fun k => here p (KHasField k)) (keys rows)).
Proof.
  unfold simp_rows, keys. induction rows as [|[k t] rows IH]; cbn; [apply incl_refl|].
  destruct (is_dyn (simplify t sv p) && is_pos p && elide); cbn.
  - apply incl_tl. exact IH.
  - apply incl_cons; [left; reflexivity|apply incl_tl; exact IH].
Qed.

Lemma skn_has_fields p sv elide rows :
  (p = Neg \/ True) ->
  skn (map (fun k => here p (KHasField k)) (keys (simp_rows sv p elide rows)))
      (map (fun k => here p (KHasField k)) (keys rows)).
Proof.
  intros _. split; [|apply incl_map_keys].
  destruct p.
  - rewrite !here_pos_negs. reflexivity.
  - rewrite simp_rows_keys_neg. reflexivity.
Qed.

Theorem simplify_checks : forall T kenv, wk T kenv = true ->
  forall sv p es eo, inv sv es eo kenv ->
  skn (checks (simplify T sv p) p es) (checks T p eo).
Proof.
  induction T as [| | | |t IH|a IHa b IHb|rows tail IH|fl t IH|rows tail IH|x k t IH|x|n] using ty_ind';
    intros kenv Hwk sv p es eo Hinv.
  - (* Dyn *) apply skn_refl.
  - (* Num *) cbn. destruct p; cbn; [apply skn_nil; reflexivity|apply skn_refl].
  - (* Str *) cbn. destruct p; cbn; [apply skn_nil; reflexivity|apply skn_refl].
  - (* Bool *) cbn. destruct p; cbn; [apply skn_nil; reflexivity|apply skn_refl].
  - (* Array *)
    cbn in Hwk. specialize (IH kenv Hwk sv p es eo Hinv). cbn [simplify].
    destruct (is_dyn (simplify t sv p) && is_pos p) eqn:E.
    + apply andb_true_iff in E. destruct E as [E1 E2]. destruct p; [|discriminate].
      destruct (simplify t sv Pos); try discriminate. cbn [checks] in *.
      apply skn_drop; [reflexivity|]. apply skn_nil. rewrite negs_under.
      rewrite (skn_nil_inv _ IH). reflexivity.
    + cbn [checks]. apply skn_cons. apply skn_under. exact IH.
  - (* Arrow *)
    cbn in Hwk. apply andb_true_iff in Hwk. destruct Hwk as [W1 W2].
    cbn [simplify checks]. apply skn_cons. apply skn_app; apply skn_under; eauto.
  - (* Record *)
    rewrite wk_rec in Hwk. apply andb_true_iff in Hwk. destruct Hwk as [Wrows Wtail].
    rewrite simplify_rec. cbv zeta.
    set (elide := can_elide sv tail).
    set (rows' := simp_rows sv p elide rows).
    (* the fields *)
    assert (Hrows : skn (rows_checks p es rows') (rows_checks p eo rows)).
    { subst rows'. unfold rows_checks, simp_rows. clear Wtail.
      induction IH as [|[k t] rows Ht _ IHrows]; cbn [flat_map fst snd]; [apply skn_refl|].
      cbn in Wrows. apply andb_true_iff in Wrows. destruct Wrows as [W1 W2].
      cbn in Ht. specialize (Ht kenv W1 sv p es eo Hinv). specialize (IHrows W2).
      destruct (is_dyn (simplify t sv p) && is_pos p && elide) eqn:E; cbn [flat_map app fst snd].
      - apply andb_true_iff in E. destruct E as [E _]. apply andb_true_iff in E. destruct E as [E _].
        destruct (simplify t sv p); try discriminate. cbn [checks] in Ht.
        apply (skn_app [] _ _ _); auto.
        apply skn_nil. rewrite negs_under, (skn_nil_inv _ Ht). reflexivity.
      - apply skn_app; auto. apply skn_under. exact Ht. }
    (* the tail *)
    set (tail' := simplify_rtail sv p (keys rows) tail).
    assert (Htail : skn (tail_checks es p (keys rows') tail') (tail_checks eo p (keys rows) tail)).
    { subst tail'. destruct tail as [| |y|e]; cbn [simplify_rtail tail_checks].
      - destruct p; cbn; [apply skn_nil; reflexivity|apply skn_refl].
      - apply skn_refl.
      - (* a tail variable *)
        destruct (Hinv y) as (Hty & Hrr & Hsame & Hk).
        destruct (lookup y kenv) as [[| |]|] eqn:Eky; try discriminate. clear Wtail.
        destruct (rr_elided sv y) as [e|] eqn:Err.
        + (* introduced by an elided forall *)
          rewrite (Hrr e eq_refl). destruct p; cbn [polarity_eqb tail_checks].
          * apply skn_nil. reflexivity.
          * destruct (set_diff e (keys rows)) eqn:Ed; cbn [tail_checks].
            -- apply skn_nil. reflexivity.
            -- rewrite <- Ed. apply skn_drop; [reflexivity|]. rewrite Ed. apply skn_refl.
        + (* kept *)
          assert (Hnt : ty_elided sv y = false).
          { destruct (ty_elided sv y) eqn:Et; auto. rewrite (Hty eq_refl) in Hk. cbn in Hk. discriminate. }
          cbn [tail_checks]. rewrite (Hsame Hnt eq_refl).
          assert (Hkeys : keys rows' = keys rows).
          { subst rows' elide. unfold can_elide. rewrite Err. apply simp_rows_keys_noelide. }
          rewrite Hkeys. apply skn_refl.
      - apply skn_refl. }
    assert (Hfields : skn (map (fun k => here p (KHasField k)) (keys rows'))
                          (map (fun k => here p (KHasField k)) (keys rows))).
    { apply skn_has_fields. auto. }
    assert (Hfull : skn (checks (TRec rows' tail') p es) (checks (TRec rows tail) p eo)).
    { rewrite !checks_rec. apply skn_cons. apply skn_app; auto. apply skn_app; auto. }
    assert (Hdyn : rows' = [] -> (tail' = RDyn \/ tail' = RClosed) -> p = Pos ->
                   skn [] (checks (TRec rows tail) p eo)).
    { intros Hr Ht ->. rewrite checks_rec. apply skn_drop; [reflexivity|].
      apply (skn_app [] _ [] _).
      - apply skn_nil. apply here_pos_negs.
      - apply (skn_app [] _ [] _).
        + rewrite Hr in Hrows. exact Hrows.
        + rewrite Hr in Htail. destruct Ht as [Ht|Ht]; rewrite Ht in Htail; cbn in Htail.
          * exact Htail.
          * eapply skn_trans; [|exact Htail]. apply skn_nil. reflexivity. }
    destruct rows' as [|r rows'']; [|exact Hfull].
    destruct tail'; try exact Hfull; destruct p; try exact Hfull; cbn [checks]; apply Hdyn; auto.
  - (* Dict *)
    cbn in Hwk. specialize (IH kenv Hwk sv p es eo Hinv). cbn [simplify].
    destruct (is_dyn (simplify t sv p) && is_pos p) eqn:E.
    + apply andb_true_iff in E. destruct E as [E1 E2]. destruct p; [|discriminate].
      destruct (simplify t sv Pos); try discriminate. cbn [checks] in *.
      apply skn_drop; [reflexivity|]. apply skn_nil. rewrite negs_under.
      rewrite (skn_nil_inv _ IH). reflexivity.
    + cbn [checks]. apply skn_cons. apply skn_under. exact IH.
  - (* Enum *)
    rewrite wk_enum in Hwk. apply andb_true_iff in Hwk. destruct Hwk as [Wrows Wtail].
    rewrite simplify_enum. cbv zeta.
    set (rows' := simp_erows sv p rows).
    assert (Hrows : skn (erows_checks p es rows') (erows_checks p eo rows)).
    { subst rows'. unfold erows_checks, simp_erows. clear Wtail.
      induction IH as [|[k [t|]] rows Ht _ IHrows]; cbn; [apply skn_refl| |].
      - cbn in Wrows. apply andb_true_iff in Wrows. destruct Wrows as [W1 W2].
        cbn in Ht. apply skn_app; auto. apply skn_under. eauto.
      - cbn in Wrows. auto. }
    assert (Hfull : skn (checks (TEnum rows' tail) p es) (checks (TEnum rows tail) p eo)).
    { rewrite !checks_enum. apply skn_cons. apply skn_app; auto. apply skn_refl. }
    destruct (forallb _ rows' && _ && is_pos p) eqn:E; [|exact Hfull].
    apply andb_true_iff in E. destruct E as [E Ep]. apply andb_true_iff in E. destruct E as [Eall Et].
    destruct p; [|discriminate]. destruct tail; [|discriminate].
    rewrite checks_enum. change (checks TDyn Pos es) with (@nil chk). apply skn_drop; [reflexivity|].
    apply (skn_app [] _ [] _); [|apply skn_nil; reflexivity].
    eapply skn_trans; [|exact Hrows]. apply skn_nil.
    (* every argument type was simplified to Dyn: no check at all on that side *)
    clear -Eall. unfold erows_checks. induction rows' as [|[k [t|]] rows' IHr]; cbn in *; auto.
    apply andb_true_iff in Eall. destruct Eall as [E1 E2]. destruct t; try discriminate. cbn. auto.
  - (* Forall *)
    cbn in Hwk. cbn [simplify].
    destruct k as [|excl|]; destruct p; cbn [checks].
    + eapply IH; eauto. apply inv_elide_ty; auto.
    + eapply IH; eauto. apply inv_keep; auto.
    + eapply IH; eauto. apply inv_elide_rr; auto.
    + eapply IH; eauto. apply inv_keep; auto.
    + eapply IH; eauto. apply inv_keep; auto.
    + eapply IH; eauto. apply inv_keep; auto.
  - (* Var *)
    cbn in Hwk. destruct (Hinv x) as (Hty & Hrr & Hsame & Hk).
    destruct (lookup x kenv) as [[| |]|] eqn:Ekx; try discriminate.
    cbn [simplify]. destruct (ty_elided sv x) eqn:Et.
    + cbn [checks]. rewrite (Hty eq_refl). apply skn_nil. reflexivity.
    + assert (Hnr : rr_elided sv x = None).
      { destruct (rr_elided sv x) as [e|] eqn:Er; auto. rewrite (Hrr e eq_refl) in Hk. cbn in Hk. discriminate. }
      cbn [checks]. rewrite (Hsame eq_refl Hnr). apply skn_refl.
  - (* Opaque *) apply skn_refl.
Qed.

(* ------------------------------------------------------------------ the theorems on simplify *)

Theorem simplify_keeps_negative T : wk T [] = true ->
  negs (checks (static_type T) Pos []) = negs (checks T Pos []).
Proof. intros H. exact (proj1 (simplify_checks T [] H sv_empty Pos [] [] inv_empty)). Qed.

Theorem simplify_adds_no_check T : wk T [] = true ->
  incl (checks (static_type T) Pos []) (checks T Pos []).
Proof. intros H. exact (proj2 (simplify_checks T [] H sv_empty Pos [] [] inv_empty)). Qed.

(* Regression witnesses of two defects found with this model and since fixed in /repo (65f37a8):
   a kept forall shadows an elided forall of the same name. *)
Definition shadow_ty : ty :=
  TForall "a"%string KType (TArrow (TForall "a"%string KType (TArrow (TVar "a"%string) (TVar "a"%string))) (TArrow (TVar "a"%string) (TVar "a"%string))).

Example shadow_ty_wk : wk shadow_ty [] = true.
Proof. reflexivity. Qed.

Example shadow_ty_simplified :
  static_type shadow_ty =
  TArrow (TForall "a"%string KType (TArrow (TVar "a"%string) (TVar "a"%string))) (TArrow TDyn TDyn).
Proof. reflexivity. Qed.

Example shadow_ty_negative_checks :
  negs (checks (static_type shadow_ty) Pos []) =
  [ mkChk [SDom] Neg KIsFun; mkChk [SDom; SDom] Neg (KVar "a"%string); mkChk [SDom; SCodom] Neg (KVar "a"%string) ].
Proof. reflexivity. Qed.

Definition shadow_row_ty : ty :=
  TForall "r"%string (KRecRows ["y"%string])
    (TArrow (TForall "r"%string (KRecRows ["x"%string])
               (TArrow (TRec [("x"%string, TNum)] (RVar "r"%string)) (TRec [("x"%string, TNum)] (RVar "r"%string))))
            (TArrow (TRec [("y"%string, TNum)] (RVar "r"%string)) TNum)).

Example shadow_row_ty_simplified :
  wk shadow_row_ty [] = true /\
  static_type shadow_row_ty =
  TArrow (TForall "r"%string (KRecRows ["x"%string])
            (TArrow (TRec [("x"%string, TDyn)] (RVar "r"%string)) (TRec [("x"%string, TNum)] (RVar "r"%string))))
         (TArrow (TRec [("y"%string, TNum)] RDyn) TDyn).
Proof. split; reflexivity. Qed.

(* ------------------------------------------------------------------ first-order types under simplify *)

(* source-level types: the internal tail [RExcl] does not occur *)
Fixpoint no_excl (T : ty) : bool :=
  match T with
  | TDyn | TNum | TStr | TBool | TVar _ | TOpaque _ => true
  | TArr t => no_excl t
  | TArrow a b => no_excl a && no_excl b
  | TRec rows tail =>
      (fix go (rs : list (string * ty)) : bool :=
         match rs with [] => true | (_, t) :: rs' => no_excl t && go rs' end) rows
      && match tail with RExcl _ => false | _ => true end
  | TDict _ t => no_excl t
  | TEnum rows _ =>
      (fix go (rs : list (string * option ty)) : bool :=
         match rs with
         | [] => true
         | (_, None) :: rs' => go rs'
         | (_, Some t) :: rs' => no_excl t && go rs'
         end) rows
  | TForall _ _ t => no_excl t
  end.

Lemma no_excl_rec rows tail :
  no_excl (TRec rows tail) =
  forallb (fun r => no_excl (snd r)) rows && match tail with RExcl _ => false | _ => true end.
Proof. cbn. f_equal. induction rows as [|[k t] rows IH]; cbn; auto. now rewrite IH. Qed.

Lemma no_excl_enum rows tail :
  no_excl (TEnum rows tail) =
  forallb (fun r => match snd r with Some t => no_excl t | None => true end) rows.
Proof. cbn. induction rows as [|[k [t|]] rows IH]; cbn; auto. now rewrite IH. Qed.

(* in negative position a first-order type is left as it is *)
Lemma simplify_fo_neg : forall T, first_order T = true -> forall sv, simplify T sv Neg = T.
Proof.
  induction T as [| | | |t IH|a IHa b IHb|rows tail IH|fl t IH|rows tail IH|x k t IH|x|n] using ty_ind';
    intros Hfo sv; try discriminate; try reflexivity.
  - cbn in *. rewrite IH by auto. now rewrite andb_false_r.
  - rewrite first_order_rec in Hfo. apply andb_true_iff in Hfo. destruct Hfo as [Hrows Htail].
    rewrite simplify_rec. cbv zeta.
    assert (E : simp_rows sv Neg (can_elide sv tail) rows = rows).
    { unfold simp_rows. induction IH as [|[k t] rows Ht _ IHrows]; [reflexivity|].
      cbn in Hrows. apply andb_true_iff in Hrows. destruct Hrows as [H1 H2].
      cbn [flat_map fst snd]. cbn in Ht. rewrite Ht by auto.
      replace (is_dyn t && is_pos Neg && can_elide sv tail) with false
        by (cbn; now rewrite andb_false_r).
      cbn [app]. now rewrite IHrows. }
    rewrite E. destruct tail; try discriminate; cbn; destruct rows; reflexivity.
  - cbn in *. rewrite IH by auto. now rewrite andb_false_r.
  - rewrite first_order_enum in Hfo. apply andb_true_iff in Hfo. destruct Hfo as [Hrows Htail].
    rewrite simplify_enum. cbv zeta. rewrite andb_false_r.
    f_equal. unfold simp_erows. induction IH as [|[k [t|]] rows Ht _ IHrows]; cbn; auto.
    + cbn in Hrows. apply andb_true_iff in Hrows. destruct Hrows as [H1 H2].
      cbn in Ht. rewrite Ht by auto. now rewrite IHrows.
    + cbn in Hrows. now rewrite IHrows.
Qed.

(* in positive position a first-order source type is elided altogether *)
Lemma simplify_fo_pos : forall T, first_order T = true -> no_excl T = true ->
  forall sv, simplify T sv Pos = TDyn.
Proof.
  induction T as [| | | |t IH|a IHa b IHb|rows tail IH|fl t IH|rows tail IH|x k t IH|x|n] using ty_ind';
    intros Hfo Hne sv; try discriminate; try reflexivity.
  - cbn in *. now rewrite IH.
  - rewrite first_order_rec in Hfo. apply andb_true_iff in Hfo. destruct Hfo as [Hrows Htail].
    rewrite no_excl_rec in Hne. apply andb_true_iff in Hne. destruct Hne as [Nrows Ntail].
    rewrite simplify_rec. cbv zeta.
    assert (Hel : can_elide sv tail = true) by (destruct tail; try discriminate; reflexivity).
    assert (E : simp_rows sv Pos (can_elide sv tail) rows = []).
    { rewrite Hel. induction IH as [|[k t] rows Ht _ IHrows]; [reflexivity|].
      cbn in Hrows, Nrows. apply andb_true_iff in Hrows. apply andb_true_iff in Nrows.
      destruct Hrows as [H1 H2], Nrows as [N1 N2].
      change (simp_rows sv Pos true ((k, t) :: rows))
        with ((if is_dyn (simplify t sv Pos) && is_pos Pos && true then [] else [(k, simplify t sv Pos)])
              ++ simp_rows sv Pos true rows).
      cbn in Ht. rewrite Ht by auto. cbn [is_dyn is_pos andb app]. auto. }
    rewrite E. destruct tail; try discriminate; reflexivity.
  - cbn in *. now rewrite IH.
  - rewrite first_order_enum in Hfo. apply andb_true_iff in Hfo. destruct Hfo as [Hrows Htail].
    rewrite no_excl_enum in Hne.
    rewrite simplify_enum. cbv zeta.
    assert (E : forallb (fun r : string * option ty => match snd r with Some t' => is_dyn t' | None => true end)
                  (simp_erows sv Pos rows) = true).
    { unfold simp_erows. induction IH as [|[k [t|]] rows Ht _ IHrows]; cbn; auto.
        cbn in Hrows, Hne. apply andb_true_iff in Hrows. apply andb_true_iff in Hne.
        destruct Hrows as [H1 H2], Hne as [N1 N2].
        cbn in Ht. rewrite Ht by auto. cbn. now rewrite IHrows. }
    rewrite E. destruct tail; try discriminate. reflexivity.
Qed.

(* ------------------------------------------------------------------ the boundary, first-order *)

Definition outcome_equiv (a b : outcome dv) : Prop :=
  match a, b with
  | Ok x, Ok y => dv_equiv x y
  | Err e, Err e' => e = e'
  | _, _ => False
  end.

Lemma obind_ok_r {A} (o : outcome A) : obind o (fun x => Ok x) = o.
Proof. destruct o; reflexivity. Qed.

Definition arrow_c (A B : ty) : cexpr :=
  if is_dyn A && is_dyn B then CFuncDyn
  else if is_dyn A then CFuncCodom (fo_c B)
  else if is_dyn B then CFuncDom (fo_c A)
  else CFunc (fo_c A) (fo_c B).

Lemma contract_of_arrow A B :
  first_order A = true -> first_order B = true ->
  contract_of (TArrow A B) = Some (arrow_c A B).
Proof.
  intros HA HB. unfold contract_of, arrow_c. cbn [subcontract].
  destruct (is_dyn A && is_dyn B); auto.
  destruct (is_dyn A).
  - rewrite (subcontract_fo B HB). reflexivity.
  - destruct (is_dyn B).
    + rewrite (subcontract_fo A HA). reflexivity.
    + rewrite (subcontract_fo A HA), (subcontract_fo B HB). reflexivity.
Qed.

(* the full contract of [A -> B]: check the argument against A with the polarity flipped, run the
   function, check the result against B *)
Lemma wrap_full_arrow A B g :
  first_order A = true -> first_order B = true ->
  exists w, wrap_full (TArrow A B) g = Ok w /\
            forall x, w x = obind (check_pol Neg A x) (fun x' => obind (g x') (check_pol Pos B)).
Proof.
  intros HA HB. unfold wrap_full. rewrite contract_of_arrow by auto. unfold arrow_c.
  destruct (is_dyn A) eqn:EA; destruct (is_dyn B) eqn:EB; cbn [andb apply_fun flip].
  - destruct A; try discriminate. destruct B; try discriminate.
    exists g. split; [reflexivity|]. intros x. unfold check_pol. cbn. now rewrite obind_ok_r.
  - destruct A; try discriminate.
    eexists. split; [reflexivity|]. intros x. cbn beta.
    change (check_pol Neg TDyn x) with (Ok x). cbn [obind].
    destruct (g x) as [r|e]; cbn [obind]; [|reflexivity]. now rewrite check_pol_fo.
  - destruct B; try discriminate.
    eexists. split; [reflexivity|]. intros x. cbn beta. rewrite (check_pol_fo Neg A x HA).
    destruct (apply_data (fo_c A) Neg x) as [x'|e]; cbn [obind]; [|reflexivity].
    destruct (g x') as [r|e]; reflexivity.
  - eexists. split; [reflexivity|]. intros x. cbn beta. rewrite (check_pol_fo Neg A x HA).
    destruct (apply_data (fo_c A) Neg x) as [x'|e]; cbn [obind]; [|reflexivity].
    destruct (g x') as [r|e]; cbn [obind]; [|reflexivity]. now rewrite check_pol_fo.
Qed.

(* the static contract of [A -> B]: only the argument check is left *)
Lemma static_type_arrow A B :
  first_order A = true -> first_order B = true -> no_excl B = true ->
  static_type (TArrow A B) = TArrow A TDyn.
Proof.
  intros HA HB NB. unfold static_type. cbn [simplify flip].
  now rewrite simplify_fo_neg, simplify_fo_pos.
Qed.

Lemma wrap_static_arrow A B g :
  first_order A = true -> first_order B = true -> no_excl B = true ->
  exists w, wrap_static (TArrow A B) g = Ok w /\
            forall x, w x = obind (check_pol Neg A x) g.
Proof.
  intros HA HB NB. unfold wrap_static, contract_static_of. rewrite static_type_arrow by auto.
  destruct (wrap_full_arrow A TDyn g HA eq_refl) as (w & Hw & Hx). unfold wrap_full in Hw.
  exists w. split; auto. intros x. rewrite Hx.
  destruct (check_pol Neg A x); cbn; auto. unfold check_pol. cbn. now rewrite obind_ok_r.
Qed.

Section Boundary.
  Variables A B : ty.
  Hypothesis HA : first_order A = true.
  Hypothesis HB : first_order B = true.
  Hypothesis WA : wf_ty A = true.
  Hypothesis WB : wf_ty B = true.
  Variable g : dv -> outcome dv.      (* the typed implementation *)

  (* [f : A -> B] used by untyped code, full contract *)
  Theorem boundary_arrow :
    exists w, wrap_full (TArrow A B) g = Ok w /\
      (* a non-A argument: negative blame, whatever the body is *)
      (forall x, member A x = false -> w x = Err (Blame Neg)) /\
      (* an A argument reaches the body unchanged; the result is then checked against B *)
      (forall x, member A x = true ->
         exists x', dv_equiv x' x /\ member A x' = true /\
           (forall e, g x' = Err e -> w x = Err e) /\
           (forall r, g x' = Ok r ->
              (member B r = true -> exists r', w x = Ok r' /\ dv_equiv r' r) /\
              (member B r = false -> w x = Err (Blame Pos)))).
  Proof.
    destruct (wrap_full_arrow A B g HA HB) as (w & Hw & Hx). exists w. split; auto. split.
    - intros x Hm. rewrite Hx. rewrite (check_pol_fail_is_blame A HA WA Neg x Hm). reflexivity.
    - intros x Hm.
      destruct (proj2 (check_pol_sound_complete A HA WA Neg x) Hm) as (x' & Hx').
      exists x'. split; [exact (check_pol_identity A HA WA Neg x x' Hx')|]. split.
      { apply (check_pol_sound_complete A HA WA Neg x'). exists x'.
        exact (check_pol_idempotent A HA WA Neg x x' Hx'). }
      split.
      + intros e He. rewrite Hx, Hx'. cbn. now rewrite He.
      + intros r Hr. rewrite Hx, Hx'. cbn. rewrite Hr. cbn. split.
        * intros HmB. destruct (proj2 (check_pol_sound_complete B HB WB Pos r) HmB) as (r' & Hr').
          exists r'. split; auto. exact (check_pol_identity B HB WB Pos r r' Hr').
        * intros HmB. exact (check_pol_fail_is_blame B HB WB Pos r HmB).
  Qed.

  (* the static contract blames the untyped side on exactly the same arguments, and never blames
     the typed side *)
  Hypothesis NB : no_excl B = true.

  Theorem boundary_arrow_static :
    exists w, wrap_static (TArrow A B) g = Ok w /\
      (forall x, member A x = false -> w x = Err (Blame Neg)) /\
      (forall x, member A x = true ->
         exists x', dv_equiv x' x /\ member A x' = true /\ w x = g x').
  Proof.
    destruct (wrap_static_arrow A B g HA HB NB) as (w & Hw & Hx). exists w. split; auto. split.
    - intros x Hm. rewrite Hx. rewrite (check_pol_fail_is_blame A HA WA Neg x Hm). reflexivity.
    - intros x Hm.
      destruct (proj2 (check_pol_sound_complete A HA WA Neg x) Hm) as (x' & Hx').
      exists x'. split; [exact (check_pol_identity A HA WA Neg x x' Hx')|]. split.
      { apply (check_pol_sound_complete A HA WA Neg x'). exists x'.
        exact (check_pol_idempotent A HA WA Neg x x' Hx'). }
      rewrite Hx, Hx'. reflexivity.
  Qed.

  (* for an implementation that respects its type (what C01 gives for typed code), the static
     contract is observationally the full contract *)
  Hypothesis g_typed : forall x r, member A x = true -> g x = Ok r -> member B r = true.

  Theorem static_equiv_arrow :
    exists wf ws, wrap_full (TArrow A B) g = Ok wf /\ wrap_static (TArrow A B) g = Ok ws /\
      forall x, outcome_equiv (wf x) (ws x).
  Proof.
    destruct (wrap_full_arrow A B g HA HB) as (wf & Hwf & Hxf).
    destruct (wrap_static_arrow A B g HA HB NB) as (ws & Hws & Hxs).
    exists wf, ws. repeat split; auto. intros x. rewrite Hxf, Hxs.
    destruct (check_pol_total A HA WA Neg x) as [(x' & Hx')|Hx']; rewrite Hx'; cbn; auto.
    assert (Hm' : member A x' = true).
    { apply (check_pol_sound_complete A HA WA Neg x'). exists x'.
      exact (check_pol_idempotent A HA WA Neg x x' Hx'). }
    destruct (g x') as [r|e] eqn:Hg; cbn; auto.
    specialize (g_typed x' r Hm' Hg).
    destruct (proj2 (check_pol_sound_complete B HB WB Pos r) g_typed) as (r' & Hr').
    rewrite Hr'. cbn. exact (check_pol_identity B HB WB Pos r r' Hr').
  Qed.
End Boundary.

(* data crossing the boundary: the static contract of a first-order type is $dyn, and the full
   contract returns a member unchanged *)
Theorem static_equiv_data T v :
  first_order T = true -> wf_ty T = true -> no_excl T = true -> member T v = true ->
  contract_static_of T = Some CDyn /\
  exists v', check T v = Ok v' /\ dv_equiv v' v.
Proof.
  intros Hfo Hwf Hne Hm. split.
  - unfold contract_static_of, static_type. now rewrite simplify_fo_pos.
  - destruct (proj2 (check_pol_sound_complete T Hfo Hwf Pos v) Hm) as (v' & Hv').
    exists v'. split; auto. exact (check_pol_identity T Hfo Hwf Pos v v' Hv').
Qed.

(* Regression witness (6b8f512): the excluded-only tail gives the extra fields back *)
Example excluded_only_keeps_extra_fields :
  apply_data (CRecord [("x"%string, CNum)] (CTVar (VExcludedOnly ["y"%string])) true) Neg
             (DRec [("x"%string, DNum 1 1); ("w"%string, DNum 2 1)])
  = Ok (DRec [("x"%string, DNum 1 1); ("w"%string, DNum 2 1)])
  /\ apply_data (CRecord [("x"%string, CNum)] (CTVar (VExcludedOnly ["y"%string])) true) Neg
             (DRec [("x"%string, DNum 1 1); ("y"%string, DNum 2 1)])
  = Err (Blame Neg).
Proof. split; reflexivity. Qed.

(* the hypotheses of the boundary theorems are satisfiable by a non-trivial function *)
Example boundary_hyps_example :
  let A := TRec [("n"%string, TNum)] RDyn in
  let B := TArr TNum in
  let g := fun v => match v with
                    | DRec fs => match lookup "n"%string fs with Some n => Ok (DArr [n; n]) | None => Err FieldMissing end
                    | _ => Err FieldMissing end in
  first_order A = true /\ first_order B = true /\ wf_ty A = true /\ wf_ty B = true /\ no_excl B = true /\
  (exists w, wrap_full (TArrow A B) g = Ok w /\
             w (DRec [("z"%string, DNull); ("n"%string, DNum 3 1)]) = Ok (DArr [DNum 3 1; DNum 3 1]) /\
             w (DRec [("n"%string, DStr "x")]) = Err (Blame Neg)).
Proof. cbn. repeat split. eexists. split; [reflexivity|]. split; reflexivity. Qed.

(* the typing hypothesis of [static_equiv_arrow] is satisfiable: the identity at [Number -> Number]
   and a function building an array out of a record field *)
Example static_equiv_hyps_example_id :
  forall x r, member TNum x = true -> (fun v : dv => Ok v) x = Ok r -> member TNum r = true.
Proof. intros x r Hm Hg. inversion Hg; subst. exact Hm. Qed.

Example static_equiv_hyps_example_pair :
  let g := fun v => match v with DNum n d => Ok (DArr [DNum n d; DNum n d]) | _ => Err FieldMissing end in
  forall x r, member TNum x = true -> g x = Ok r -> member (TArr TNum) r = true.
Proof. intros g x r Hm Hg. destruct x; try discriminate. inversion Hg; subst. reflexivity. Qed.
