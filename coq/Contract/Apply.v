(* Model of contract APPLICATION to data, followed by a deep force: what
       %contract/apply% <contract> <label> v      (operation.rs: ContractApply +
                                                   ContractPostprocessResult)
   evaluates to under eval_full, for a first-order data value [v], following the bodies of
   /repo/core/stdlib/internals.ncl one to one.  [p] is the polarity of the label: every 'Error
   returned by a builtin contract becomes, through ContractPostprocessResult -> %blame%, an
   EvalErrorKind::BlameError whose label has that polarity.

   Laziness: $array, $dict_contract, $dict_type, the record field map of $record_type and the
   argument of an enum variant only ATTACH the sub-contract (ContractArrayLazyApp,
   ContractRecordLazyApp, %record/map%, a thunk); the deep force then runs them.  Since the only
   error a builtin contract can raise on data is a blame of the same label, the order in which
   the deep force meets them is not observable and the model takes the first one in field order.

   What is NOT modelled here (result [Err OutOfFragment]): sealing ($forall_var and
   $forall_record_tail on data) and opaque user contracts.  Functions: a data value is never a
   function, so the four function contracts fail their `%typeof% value == 'Function` test. *)
From Coq Require Import List String Bool.
From NV Require Import Contract.Data Contract.Gen.
Import ListNotations.
Open Scope bool_scope.

Definition blame {A} (p : polarity) : outcome A := Err (Blame p).

Definition map_outcome {A B} (f : A -> outcome B) : list A -> outcome (list B) :=
  fix go (l : list A) : outcome (list B) :=
    match l with
    | [] => Ok []
    | a :: r => obind (f a) (fun b => obind (go r) (fun bs => Ok (b :: bs)))
    end.

(* %record/split_pair% field_contracts value  (merge.rs: split_ref).  Field order inside the three
   parts is unspecified in the implementation (swap_remove); the model keeps the order of the
   operand each part is taken from. *)
Record split_result := mkSplit {
  left_only : list (string * cexpr);      (* declared fields absent from the value *)
  right_center : list (string * dv);      (* fields of the value that are declared *)
  right_only : list (string * dv) }.      (* fields of the value that are not declared *)

Definition split_pair (fields : list (string * cexpr)) (fs : list (string * dv)) : split_result :=
  mkSplit (filter (fun kc => negb (has_key (fst kc) fs)) fields)
          (filter (fun f => has_key (fst f) fields) fs)
          (filter (fun f => negb (has_key (fst f) fields)) fs).

Definition is_nil {A} (l : list A) : bool := match l with [] => true | _ => false end.

(* std.array.filter (fun field => std.array.elem field constr) (%record/fields% extra_fields) *)
Definition conflicts (constr : list string) (extra : list (string * dv)) : list string :=
  filter (fun k => existsb (String.eqb k) constr) (keys extra).

Fixpoint apply_data (c : cexpr) (p : polarity) (v : dv) {struct c} : outcome dv :=
  match c with
  | CDyn => Ok v
  | CNum => match v with DNum _ _ => Ok v | _ => blame p end
  | CBool => match v with DBool _ => Ok v | _ => blame p end
  | CStr => match v with DStr _ => Ok v | _ => blame p end
  | CArray elt =>
      match v with
      | DArr es => obind (map_outcome (apply_data elt p) es) (fun es' => Ok (DArr es'))
      | _ => blame p
      end
  | CArrayDyn => match v with DArr _ => Ok v | _ => blame p end
  | CFunc _ _ | CFuncDom _ | CFuncCodom _ | CFuncDyn => blame p
  | CVarRef b => Err OutOfFragment
  | CForall _ _ body => apply_data body p v   (* $forall only records the variable in the label *)
  | CEnum branches default =>
      match v with
      | DEnum tag arg =>
          (fix matcher (bs : list (string * option cexpr)) : outcome dv :=
             match bs with
             | [] =>
                 match default with
                 | None => blame p                         (* $enum_fail *)
                 | Some VForallEnumTail => Ok v            (* $forall_enum_tail: 'Ok value *)
                 | Some _ => Err OutOfFragment
                 end
             | (k, oc) :: bs' =>
                 if String.eqb tag k then
                   match oc, arg with
                   | None, None => Ok v                    (* 'tag => 'Ok value *)
                   | Some c', Some a =>                    (* 'tag x => 'Ok ('tag (apply c' x)) *)
                       obind (apply_data c' p a) (fun a' => Ok (DEnum k (Some a')))
                   | _, _ => matcher bs'
                   end
                 else matcher bs'
             end) branches
      | _ => blame p
      end
  | CRecord fields tail has_tail =>
      match v with
      | DRec fs =>
          let sp := split_pair fields fs in
          if negb (is_nil (left_only sp)) then blame p                       (* missing field *)
          else if negb (is_nil (right_only sp)) && negb has_tail then blame p (* extra field *)
          else
            obind
              (map_outcome
                 (fun f : string * dv =>
                    obind
                      ((fix field_contract (fcs : list (string * cexpr)) : outcome dv :=
                          match fcs with
                          | [] => Err FieldMissing          (* field_contracts."%{field}" *)
                          | (k, c') :: fcs' =>
                              if String.eqb (fst f) k then apply_data c' p (snd f)
                              else field_contract fcs'
                          end) fields)
                      (fun x => Ok (fst f, x)))
                 (right_center sp))
              (fun with_contracts =>
                 match tail with
                 | CTEmpty => Ok (DRec with_contracts)
                 | CTDyn => Ok (DRec (with_contracts ++ right_only sp))   (* disjoint_merge *)
                 | CTVar (VExcludedOnly constr) =>
                     if negb (is_nil (conflicts constr (right_only sp))) then blame p
                     else Ok (DRec (with_contracts ++ right_only sp))      (* disjoint_merge *)
                 | CTVar _ => Err OutOfFragment
                 end)
      | _ => blame p
      end
  | CDictDyn => match v with DRec _ => Ok v | _ => blame p end
  | CDictContract c' | CDictType c' =>
      match v with
      | DRec fs =>
          obind (map_outcome (fun f : string * dv =>
                                obind (apply_data c' p (snd f)) (fun x => Ok (fst f, x))) fs)
                (fun fs' => Ok (DRec fs'))
      | _ => blame p
      end
  | COpaque _ => Err OutOfFragment
  end.

(* [v | T] fully evaluated, with a label of polarity [p] *)
Definition check_pol (p : polarity) (T : ty) (v : dv) : outcome dv :=
  match subcontract T [] p 0 with
  | Some (c, _) => apply_data c p v
  | None => Err UnboundTypeVar
  end.

(* a contract annotation [v | T]: Type::contract, label of positive polarity *)
Definition check (T : ty) (v : dv) : outcome dv := check_pol Pos T v.
