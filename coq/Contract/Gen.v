(* Model of contract GENERATION: /repo/core/src/typ.rs
     impl Subcontract for Type / EnumRows / RecordRows,   Type::contract.
   A [cexpr] is the skeleton of the term those functions build: which function of
   /repo/core/stdlib/internals.ncl is applied to which sub-contracts.  Positions, the
   CustomContract wrapper and the pre-compilation of the enum matcher are not represented.

   [subcontract] follows the Rust code case by case, including every specialisation
   ($array_dyn, $func_dyn, $func_dom, $func_codom, $dict_dyn), the environment [vars] of type
   variables, the polarity flip on the domain of an arrow and the counter [sy] of sealing keys
   (threaded left to right exactly like [&mut i32]).  [None] = UnboundTypeVariableError. *)
From Coq Require Import List String Bool.
From NV Require Import Contract.Data.
Import ListNotations.
Open Scope bool_scope.

(* what a type variable is bound to in [vars] (the application of an internals function) *)
Inductive cvar :=
| VForallVar (key : nat)                             (* $forall_var key *)
| VForallEnumTail                                    (* $forall_enum_tail *)
| VForallRecordTail (key : nat) (excl : list string) (* $forall_record_tail key [excl] *)
| VExcludedOnly (excl : list string).                (* $forall_record_tail_excluded_only [excl]
                                                        (only put there by simplify) *)

Inductive ctail :=
| CTEmpty                 (* $empty_tail *)
| CTDyn                   (* $dyn_tail *)
| CTVar (b : cvar).

Inductive cexpr :=
| CDyn | CNum | CBool | CStr           (* $dyn $num $bool $string *)
| CArray (elt : cexpr)                 (* $array elt *)
| CArrayDyn                            (* $array_dyn *)
| CFunc (dom codom : cexpr)            (* $func dom codom *)
| CFuncDom (dom : cexpr)               (* $func_dom dom *)
| CFuncCodom (codom : cexpr)           (* $func_codom codom *)
| CFuncDyn                             (* $func_dyn *)
| CVarRef (b : cvar)                   (* the contract bound to a type variable *)
| CForall (key : nat) (p : polarity) (body : cexpr)            (* $forall key p body *)
| CEnum (branches : list (string * option cexpr)) (default : option cvar)
      (* $enum (fun label value => value |> match { branches.., _ => default }):
         a branch ('tag, None) returns the value, ('tag, Some c) applies c to the argument;
         default None = $enum_fail label, Some b = apply the tail variable's contract *)
| CRecord (fields : list (string * cexpr)) (tail : ctail) (has_tail : bool)
      (* $record_type {fields} tail has_tail *)
| CDictDyn                             (* $dict_dyn *)
| CDictContract (c : cexpr)            (* $dict_contract c *)
| CDictType (c : cexpr)                (* $dict_type c *)
| COpaque (n : nat).                   (* TypeF::Contract(t) => t *)

Definition is_dyn (T : ty) : bool := match T with TDyn => true | _ => false end.

Definition var_contract (k : varkind) (key : nat) : cvar :=
  match k with
  | KType => VForallVar key
  | KEnumRows => VForallEnumTail
  | KRecRows excluded => VForallRecordTail key excluded
  end.

Fixpoint subcontract (T : ty) (vars : list (string * cvar)) (p : polarity) (sy : nat)
  {struct T} : option (cexpr * nat) :=
  match T with
  | TDyn => Some (CDyn, sy)
  | TNum => Some (CNum, sy)
  | TBool => Some (CBool, sy)
  | TStr => Some (CStr, sy)
  | TArr t =>
      if is_dyn t then Some (CArrayDyn, sy)
      else match subcontract t vars p sy with
           | Some (c, sy1) => Some (CArray c, sy1)
           | None => None
           end
  | TArrow s t =>
      if is_dyn s && is_dyn t then Some (CFuncDyn, sy)
      else if is_dyn s then
        match subcontract t vars p sy with
        | Some (c, sy1) => Some (CFuncCodom c, sy1)
        | None => None
        end
      else if is_dyn t then
        match subcontract s vars (flip p) sy with
        | Some (c, sy1) => Some (CFuncDom c, sy1)
        | None => None
        end
      else
        match subcontract s vars (flip p) sy with
        | Some (cs, sy1) =>
            match subcontract t vars p sy1 with
            | Some (ct, sy2) => Some (CFunc cs ct, sy2)
            | None => None
            end
        | None => None
        end
  | TOpaque n => Some (COpaque n, sy)
  | TVar x =>
      match lookup x vars with
      | Some b => Some (CVarRef b, sy)
      | None => None
      end
  | TForall x k body =>
      let key := sy in
      match subcontract body ((x, var_contract k key) :: vars) p (S sy) with
      | Some (c, sy1) => Some (CForall key p c, sy1)
      | None => None
      end
  | TEnum rows tail =>
      match
        (fix rows_sub (rs : list (string * option ty)) (sy : nat)
           : option (list (string * option cexpr) * nat) :=
           match rs with
           | [] => Some ([], sy)
           | (k, None) :: rs' =>
               match rows_sub rs' sy with
               | Some (cs, sy2) => Some ((k, None) :: cs, sy2)
               | None => None
               end
           | (k, Some t) :: rs' =>
               match subcontract t vars p sy with
               | Some (c, sy1) =>
                   match rows_sub rs' sy1 with
                   | Some (cs, sy2) => Some ((k, Some c) :: cs, sy2)
                   | None => None
                   end
               | None => None
               end
           end) rows sy
      with
      | Some (branches, sy1) =>
          match tail with
          | EClosed => Some (CEnum branches None, sy1)
          | EVar x =>
              match lookup x vars with
              | Some b => Some (CEnum branches (Some b), sy1)
              | None => None
              end
          end
      | None => None
      end
  | TRec rows tail =>
      match
        (fix rows_sub (rs : list (string * ty)) (sy : nat)
           : option (list (string * cexpr) * nat) :=
           match rs with
           | [] => Some ([], sy)
           | (k, t) :: rs' =>
               match subcontract t vars p sy with
               | Some (c, sy1) =>
                   match rows_sub rs' sy1 with
                   | Some (cs, sy2) => Some ((k, c) :: cs, sy2)
                   | None => None
                   end
               | None => None
               end
           end) rows sy
      with
      | Some (fcs, sy1) =>
          match tail with
          | RClosed => Some (CRecord fcs CTEmpty false, sy1)
          | RDyn => Some (CRecord fcs CTDyn true, sy1)
          | RVar x =>
              match lookup x vars with
              | Some b => Some (CRecord fcs (CTVar b) true, sy1)
              | None => None
              end
          end
      | None => None
      end
  | TDict fl t =>
      if is_dyn t then Some (CDictDyn, sy)
      else match subcontract t vars p sy with
           | Some (c, sy1) =>
               Some (match fl with FContract => CDictContract c | FType => CDictType c end, sy1)
           | None => None
           end
  end.

(* Type::contract: empty environment, positive polarity, counter 0 *)
Definition contract_of (T : ty) : option cexpr :=
  match subcontract T [] Pos 0 with Some (c, _) => Some c | None => None end.
