(* Model of contract GENERATION: /repo/core/src/typ.rs
     impl Subcontract for Type / EnumRows / RecordRows,   Type::contract.
   A [cexpr] is the skeleton of the term those functions build: which function of
   /repo/core/stdlib/internals.ncl is applied to which sub-contracts.  Positions, the
   CustomContract wrapper and the pre-compilation of the enum matcher are not represented.

   [subcontract] follows the Rust code case by case, including every specialisation
   ($array_dyn, $func_dyn, $func_dom, $func_codom, $dict_dyn), the environment [vars] of type
   variables, the polarity flip on the domain of an arrow and the counter [sy] of sealing keys
   (threaded left to right exactly like [&mut i32]).  [None] = UnboundTypeVariableError. *)
From Coq Require Import List String Bool.
From NV Require Import Contract.Data.
Import ListNotations.
Open Scope bool_scope.

(* what a type variable is bound to in [vars] (the application of an internals function) *)
Inductive cvar :=
| VForallVar (key : nat)                             (* $forall_var key *)
| VForallEnumTail                                    (* $forall_enum_tail *)
| VForallRecordTail (key : nat) (excl : list string) (* $forall_record_tail key [excl] *)
| VExcludedOnly (excl : list string).                (* $forall_record_tail_excluded_only [excl]
                                                        (only put there by simplify) *)

Inductive ctail :=
| CTEmpty                 (* $empty_tail *)
| CTDyn                   (* $dyn_tail *)
| CTVar (b : cvar).

Inductive cexpr :=
| CDyn | CNum | CBool | CStr           (* $dyn $num $bool $string *)
| CArray (elt : cexpr)                 (* $array elt *)
| CArrayDyn                            (* $array_dyn *)
| CFunc (dom codom : cexpr)            (* $func dom codom *)
| CFuncDom (dom : cexpr)               (* $func_dom dom *)
| CFuncCodom (codom : cexpr)           (* $func_codom codom *)
| CFuncDyn                             (* $func_dyn *)
| CVarRef (b : cvar)                   (* the contract bound to a type variable *)
| CForall (key : nat) (p : polarity) (body : cexpr)            (* $forall key p body *)
| CEnum (branches : list (string * option cexpr)) (default : option cvar)
      (* $enum (fun label value => value |> match { branches.., _ => default }):
         a branch ('tag, None) returns the value, ('tag, Some c) applies c to the argument;
         default None = $enum_fail label, Some b = apply the tail variable's contract *)
| CRecord (fields : list (string * cexpr)) (tail : ctail) (has_tail : bool)
      (* $record_type {fields} tail has_tail *)
| CDictDyn                             (* $dict_dyn *)
| CDictContract (c : cexpr)            (* $dict_contract c *)
| CDictType (c : cexpr)                (* $dict_type c *)
| COpaque (n : nat).                   (* TypeF::Contract(t) => t *)

Definition is_dyn (T : ty) : bool := match T with TDyn => true | _ => false end.

Definition var_contract (k : varkind) (key : nat) : cvar :=
  match k with
  | KType => VForallVar key
  | KEnumRows => VForallEnumTail
  | KRecRows excluded => VForallRecordTail key excluded
  end.

Fixpoint subcontract (T : ty) (vars : list (string * cvar)) (p : polarity) (sy : nat)
  {struct T} : option (cexpr * nat) :=
  match T with
  | TDyn => Some (CDyn, sy)
  | TNum => Some (CNum, sy)
  | TBool => Some (CBool, sy)
  | TStr => Some (CStr, sy)
  | TArr t =>
      if is_dyn t then Some (CArrayDyn, sy)
      else match subcontract t vars p sy with
           | Some (c, sy1) => Some (CArray c, sy1)
           | None => None
           end
  | TArrow s t =>
      if is_dyn s && is_dyn t then Some (CFuncDyn, sy)
      else if is_dyn s then
        match subcontract t vars p sy with
        | Some (c, sy1) => Some (CFuncCodom c, sy1)
        | None => None
        end
      else if is_dyn t then
        match subcontract s vars (flip p) sy with
        | Some (c, sy1) => Some (CFuncDom c, sy1)
        | None => None
        end
      else
        match subcontract s vars (flip p) sy with
        | Some (cs, sy1) =>
            match subcontract t vars p sy1 with
            | Some (ct, sy2) => Some (CFunc cs ct, sy2)
            | None => None
            end
        | None => None
        end
  | TOpaque n => Some (COpaque n, sy)
  | TVar x =>
      match lookup x vars with
      | Some b => Some (CVarRef b, sy)
      | None => None
      end
  | TForall x k body =>
      let key := sy in
      match subcontract body ((x, var_contract k key) :: vars) p (S sy) with
      | Some (c, sy1) => Some (CForall key p c, sy1)
      | None => None
      end
  | TEnum rows tail =>
      match
        (fix rows_sub (rs : list (string * option ty)) (sy : nat)
           : option (list (string * option cexpr) * nat) :=
           match rs with
           | [] => Some ([], sy)
           | (k, None) :: rs' =>
               match rows_sub rs' sy with
               | Some (cs, sy2) => Some ((k, None) :: cs, sy2)
               | None => None
               end
           | (k, Some t) :: rs' =>
               match subcontract t vars p sy with
               | Some (c, sy1) =>
                   match rows_sub rs' sy1 with
                   | Some (cs, sy2) => Some ((k, Some c) :: cs, sy2)
                   | None => None
                   end
               | None => None
               end
           end) rows sy
      with
      | Some (branches, sy1) =>
          match tail with
          | EClosed => Some (CEnum branches None, sy1)
          | EVar x =>
              match lookup x vars with
              | Some b => Some (CEnum branches (Some b), sy1)
              | None => None
              end
          end
      | None => None
      end
  | TRec rows tail =>
      match
        (fix rows_sub (rs : list (string * ty)) (sy : nat)
           : option (list (string * cexpr) * nat) :=
           match rs with
           | [] => Some ([], sy)
           | (k, t) :: rs' =>
               match subcontract t vars p sy with
               | Some (c, sy1) =>
                   match rows_sub rs' sy1 with
                   | Some (cs, sy2) => Some ((k, c) :: cs, sy2)
                   | None => None
                   end
               | None => None
               end
           end) rows sy
      with
      | Some (fcs, sy1) =>
          match tail with
          | RClosed => Some (CRecord fcs CTEmpty false, sy1)
          | RDyn => Some (CRecord fcs CTDyn true, sy1)
          | RVar x =>
              match lookup x vars with
              | Some b => Some (CRecord fcs (CTVar b) true, sy1)
              | None => None
              end
          | RExcl excl => Some (CRecord fcs (CTVar (VExcludedOnly excl)) true, sy1)
          end
      | None => None
      end
  | TDict fl t =>
      if is_dyn t then Some (CDictDyn, sy)
      else match subcontract t vars p sy with
           | Some (c, sy1) =>
               Some (match fl with FContract => CDictContract c | FType => CDictType c end, sy1)
           | None => None
           end
  end.

(* Type::contract: empty environment, positive polarity, counter 0 *)
Definition contract_of (T : ty) : option cexpr :=
  match subcontract T [] Pos 0 with Some (c, _) => Some c | None => None end.

(* ------------------------------------------------------------------ Type::simplify

   Model of Type::simplify / RecordRows::simplify / EnumRows::simplify (typ.rs), used by
   Type::contract_static for the contract of a STATIC type annotation.

   [svars] is SimplifyVars: [sv_ty] maps a type variable to [true] when it was introduced by an
   elided forall (and is to be replaced by Dyn), to [false] when a nearer forall of the same name
   shadows it; [sv_rr] maps a record-row variable to [Some excluded] when introduced by an elided
   forall, to [None] when shadowed.  Both are persistent environments: insertion = cons, lookup =
   first match.

   The generated tail variable that RecordRows::simplify binds in [contract_env] to
   `$forall_record_tail_excluded_only [excluded - fields]` is represented by the tail [RExcl]
   (i.e. up to the name of the fresh variable).  The HashSet difference keeps, here, the order of
   [excluded]; the order is not observable (std.array.elem). *)

Record svars := mkSV { sv_ty : list (string * bool); sv_rr : list (string * option (list string)) }.

Definition sv_empty : svars := mkSV [] [].

Definition ty_elided (sv : svars) (x : string) : bool :=
  match lookup x (sv_ty sv) with Some true => true | _ => false end.

Definition rr_elided (sv : svars) (x : string) : option (list string) :=
  match lookup x (sv_rr sv) with Some (Some e) => Some e | _ => None end.

Definition mem_str (x : string) (l : list string) : bool := existsb (String.eqb x) l.

(* excluded - fields *)
Definition set_diff (a b : list string) : list string := filter (fun x => negb (mem_str x b)) a.

Definition is_pos (p : polarity) : bool := match p with Pos => true | Neg => false end.

(* the tail of RecordRows::simplify's do_simplify *)
Definition simplify_rtail (sv : svars) (p : polarity) (fields : list string) (tail : rtail) : rtail :=
  match tail with
  | RClosed => if is_pos p then RDyn else RClosed
  | RDyn => RDyn
  | RExcl e => RExcl e
  | RVar x =>
      match rr_elided sv x, p with
      | Some _, Pos => RDyn
      | None, _ => RVar x
      | Some excluded, Neg =>
          let excluded' := set_diff excluded fields in
          match excluded' with
          | [] => RDyn
          | _ => RExcl excluded'
          end
      end
  end.

(* peek_tail: can fields be elided given the tail? *)
Definition can_elide (sv : svars) (tail : rtail) : bool :=
  match tail with
  | RVar x => match rr_elided sv x with Some _ => true | None => false end
  | _ => true
  end.

Fixpoint simplify (T : ty) (sv : svars) (p : polarity) {struct T} : ty :=
  match T with
  | TArrow a b => TArrow (simplify a sv (flip p)) (simplify b sv p)
  | TForall x k body =>
      match k, p with
      | KType, Pos =>
          simplify body (mkSV ((x, true) :: sv_ty sv) ((x, None) :: sv_rr sv)) p
      | KRecRows excluded, Pos =>
          simplify body (mkSV ((x, false) :: sv_ty sv) ((x, Some excluded) :: sv_rr sv)) p
      | _, _ =>
          (* kept: its variable shadows an elided one of the same name *)
          TForall x k (simplify body (mkSV ((x, false) :: sv_ty sv) ((x, None) :: sv_rr sv)) p)
      end
  | TVar x => if ty_elided sv x then TDyn else TVar x
  | TNum | TStr | TBool => if is_pos p then TDyn else T
  | TRec rows tail =>
      let elide := can_elide sv tail in
      let rows' :=
        (fix go (rs : list (string * ty)) : list (string * ty) :=
           match rs with
           | [] => []
           | (k, t) :: rs' =>
               let t' := simplify t sv p in
               if is_dyn t' && is_pos p && elide then go rs' else (k, t') :: go rs'
           end) rows in
      let tail' := simplify_rtail sv p (keys rows) tail in
      match rows', tail', p with
      | [], RDyn, Pos | [], RClosed, Pos => TDyn
      | _, _, _ => TRec rows' tail'
      end
  | TEnum rows tail =>
      let rows' :=
        (fix go (rs : list (string * option ty)) : list (string * option ty) :=
           match rs with
           | [] => []
           | (k, None) :: rs' => (k, None) :: go rs'
           | (k, Some t) :: rs' => (k, Some (simplify t sv p)) :: go rs'
           end) rows in
      let elide :=
        forallb (fun r : string * option ty =>
                   match snd r with Some t' => is_dyn t' | None => true end) rows'
        && match tail with EClosed => true | EVar _ => false end in
      if elide && is_pos p then TDyn else TEnum rows' tail
  | TDict fl t =>
      let t' := simplify t sv p in
      if is_dyn t' && is_pos p then TDyn else TDict fl t'
  | TArr t =>
      let t' := simplify t sv p in
      if is_dyn t' && is_pos p then TDyn else TArr t'
  | TDyn => TDyn
  | TOpaque n => TOpaque n
  end.

(* Type::contract_static *)
Definition static_type (T : ty) : ty := simplify T sv_empty Pos.

Definition contract_static_of (T : ty) : option cexpr := contract_of (static_type T).
