(* The run-time checks a type's contract performs, as data:  where (the path of value accesses
   from the annotated value: the same steps as label.path — go_dom, go_codom, go_array, go_dict,
   go_field — plus the argument of an enum variant), who is blamed when the check fails, and what
   is checked.  Read off internals.ncl:

   - a ground type, the "is an array / record / function / enum" tests, missing and extra fields,
     a tag outside a closed enum type: blame the label's current polarity [p];
   - the domain of an arrow flips the polarity ($func: %label/flip_polarity% (go_dom label));
   - an occurrence of a type variable ($forall_var) unseals (failure blames the current polarity,
     which is then the polarity [q] of the forall) when [q = p], and seals otherwise (a sealed value
     that is inspected blames the label flipped back to [q]): both are charged to [q];
   - a record tail variable ($forall_record_tail): when [q = p], "no extra field" + unseal, charged
     to [q]; otherwise seal (charged to [q]) and "none of the excluded fields among the extra
     fields", which blames the CURRENT polarity [p].  Fields declared in the record type itself are
     never extra, so the effective excluded set is [excluded - fields]; when it is empty there is
     no such check;
   - an enum tail variable ($forall_enum_tail) checks nothing;
   - an opaque user contract is one check of unknown polarity, recorded at the current one. *)
From Coq Require Import List String Bool.
From NV Require Import Contract.Data Contract.Gen.
Import ListNotations.
Open Scope bool_scope.

Inductive step :=
| SDom | SCodom | SElem | SDict
| SField (f : string)
| SVariant (tag : string).

Inductive ckind :=
| KNumber | KString | KBoolean
| KIsArray | KIsFun | KIsRecord | KIsEnum
| KHasField (f : string)
| KNoExtra
| KEnumTag
| KVar (x : string)                 (* seal / unseal of a type variable *)
| KTailUnseal (x : string)          (* no extra field + unseal of the tail *)
| KTailSeal (x : string)
| KExcluded (fs : list string)      (* none of these among the extra fields *)
| KOpaque (n : nat).

Record chk := mkChk { c_path : list step; c_pol : polarity; c_kind : ckind }.

Definition under (s : step) (l : list chk) : list chk :=
  map (fun c => mkChk (s :: c_path c) (c_pol c) (c_kind c)) l.

Definition here (p : polarity) (k : ckind) : chk := mkChk [] p k.

(* checks of a record tail *)
Definition tail_checks (env : list (string * (polarity * varkind))) (p : polarity)
           (fields : list string) (tail : rtail) : list chk :=
  match tail with
  | RClosed => [here p KNoExtra]
  | RDyn => []
  | RExcl e => match e with [] => [] | _ => [here p (KExcluded e)] end
  | RVar x =>
      match lookup x env with
      | Some (q, KRecRows excluded) =>
          if polarity_eqb q p then [here q (KTailUnseal x)]
          else here q (KTailSeal x)
               :: match set_diff excluded fields with
                  | [] => []
                  | e => [here p (KExcluded e)]
                  end
      | Some (q, KType) => [here q (KVar x)]     (* ill-kinded: $forall_var used as a tail *)
      | Some (_, KEnumRows) => []
      | None => []
      end
  end.

Fixpoint checks (T : ty) (p : polarity) (env : list (string * (polarity * varkind))) {struct T}
  : list chk :=
  match T with
  | TDyn => []
  | TNum => [here p KNumber]
  | TStr => [here p KString]
  | TBool => [here p KBoolean]
  | TArr t => here p KIsArray :: under SElem (checks t p env)
  | TArrow a b =>
      here p KIsFun :: under SDom (checks a (flip p) env) ++ under SCodom (checks b p env)
  | TRec rows tail =>
      here p KIsRecord
      :: map (fun k => here p (KHasField k)) (keys rows)
      ++ (fix go (rs : list (string * ty)) : list chk :=
            match rs with
            | [] => []
            | (k, t) :: rs' => under (SField k) (checks t p env) ++ go rs'
            end) rows
      ++ tail_checks env p (keys rows) tail
  | TDict _ t => here p KIsRecord :: under SDict (checks t p env)
  | TEnum rows tail =>
      here p KIsEnum
      :: (fix go (rs : list (string * option ty)) : list chk :=
            match rs with
            | [] => []
            | (k, None) :: rs' => go rs'
            | (k, Some t) :: rs' => under (SVariant k) (checks t p env) ++ go rs'
            end) rows
      ++ match tail with EClosed => [here p KEnumTag] | EVar _ => [] end
  | TForall x k body => checks body p ((x, (p, k)) :: env)
  | TVar x =>
      match lookup x env with
      | Some (q, KType) => [here q (KVar x)]
      | Some (q, KRecRows _) => [here q (KTailSeal x)]   (* ill-kinded *)
      | Some (_, KEnumRows) => []
      | None => []
      end
  | TOpaque n => [here p (KOpaque n)]
  end.

Definition is_neg (c : chk) : bool := match c_pol c with Neg => true | Pos => false end.

(* the negative checks: those that can blame the untyped side of a static annotation *)
Definition negs (l : list chk) : list chk := filter is_neg l.

(* ------------------------------------------------------------------ function values

   A function value of the boundary theorem is a Gallina function from data to an outcome (it is
   strict: it receives its argument fully evaluated).  [apply_fun c p g] is what a function contract
   skeleton [c] with a label of polarity [p] turns [g] into, following $func, $func_dom,
   $func_codom, $func_dyn of internals.ncl; the argument and result contracts are first-order and
   run through [apply_data]. *)
From NV Require Import Contract.Apply.

Definition apply_fun (c : cexpr) (p : polarity) (g : dv -> outcome dv) : outcome (dv -> outcome dv) :=
  match c with
  | CFunc d cd =>
      Ok (fun x => obind (apply_data d (flip p) x) (fun x' => obind (g x') (apply_data cd p)))
  | CFuncDom d => Ok (fun x => obind (apply_data d (flip p) x) g)
  | CFuncCodom cd => Ok (fun x => obind (g x) (apply_data cd p))
  | CFuncDyn => Ok g
  | CDyn => Ok g
  | CVarRef _ | CForall _ _ _ | COpaque _ => Err OutOfFragment
  | _ => blame p       (* `%typeof% value == 'Array` etc. fail on a function *)
  end.

(* [f : A -> B] seen from untyped code, full contract (Type::contract, used by `|` and, with hook
   H2, by `:`) and static contract (Type::contract_static, used by `:`) *)
Definition wrap_full (T : ty) (g : dv -> outcome dv) : outcome (dv -> outcome dv) :=
  match contract_of T with
  | Some c => apply_fun c Pos g
  | None => Err UnboundTypeVar
  end.

Definition wrap_static (T : ty) (g : dv -> outcome dv) : outcome (dv -> outcome dv) :=
  match contract_static_of T with
  | Some c => apply_fun c Pos g
  | None => Err UnboundTypeVar
  end.

(* A second-order function [h] (it receives a callback) under a function contract: the callback is
   itself wrapped by the domain contract, with the polarity flipped ($func: the domain label is
   %label/flip_polarity% (go_dom label)).  A callback that is not a function at all is a data
   value handed to a function contract. *)
Inductive arg1 :=
| ACallback (cb : dv -> outcome dv)
| AData (v : dv).

Definition apply_arg (c : cexpr) (p : polarity) (a : arg1) : outcome (dv -> outcome dv) :=
  match a with
  | ACallback cb => apply_fun c p cb
  | AData v =>
      (* a data value where a function is expected: the contract decides (blame, or $dyn lets it
         through and the typed body then applies a non-function: not modelled) *)
      match apply_data c p v with
      | Ok _ => Err OutOfFragment
      | Err e => Err e
      end
  end.

Definition apply_ho (c : cexpr) (p : polarity) (h : (dv -> outcome dv) -> outcome dv)
  : outcome (arg1 -> outcome dv) :=
  match c with
  | CFunc d cd =>
      Ok (fun a => obind (apply_arg d (flip p) a) (fun cb' => obind (h cb') (apply_data cd p)))
  | CFuncDom d => Ok (fun a => obind (apply_arg d (flip p) a) h)
  | _ => Err OutOfFragment
  end.

Definition wrap2_full (T : ty) (h : (dv -> outcome dv) -> outcome dv) : outcome (arg1 -> outcome dv) :=
  match contract_of T with
  | Some c => apply_ho c Pos h
  | None => Err UnboundTypeVar
  end.

Definition wrap2_static (T : ty) (h : (dv -> outcome dv) -> outcome dv) : outcome (arg1 -> outcome dv) :=
  match contract_static_of T with
  | Some c => apply_ho c Pos h
  | None => Err UnboundTypeVar
  end.

(* ------------------------------------------------------------------ the same checks, read off the
   GENERATED contract skeleton (one clause per internals.ncl function).  Type variables are
   identified by their sealing key; [kenv] is the label's type environment (key -> polarity
   recorded by $forall, i.e. the label's polarity when the forall contract was applied).  Names
   are erased ([""]) in the variable checks.  [GenChecksProofs.cchecks_subcontract] proves that
   this reading of the generated contract coincides with [checks] on the type. *)

Fixpoint lookup_nat {A} (k : nat) (l : list (nat * A)) : option A :=
  match l with
  | [] => None
  | (k', a) :: r => if Nat.eqb k k' then Some a else lookup_nat k r
  end.

Definition cvar_checks (kenv : list (nat * polarity)) (b : cvar) : list chk :=
  match b with
  | VForallVar key =>
      match lookup_nat key kenv with Some q => [here q (KVar "")] | None => [] end
  | VForallRecordTail key _ =>
      match lookup_nat key kenv with Some q => [here q (KTailSeal "")] | None => [] end
  | VForallEnumTail => []
  | VExcludedOnly _ => []
  end.

Definition ctail_checks (kenv : list (nat * polarity)) (p : polarity) (fields : list string)
           (tail : ctail) : list chk :=
  match tail with
  | CTEmpty => []
  | CTDyn => []
  | CTVar (VExcludedOnly e) => match e with [] => [] | _ => [here p (KExcluded e)] end
  | CTVar (VForallRecordTail key excluded) =>
      match lookup_nat key kenv with
      | Some q =>
          if polarity_eqb q p then [here q (KTailUnseal "")]
          else here q (KTailSeal "")
               :: match set_diff excluded fields with
                  | [] => []
                  | e => [here p (KExcluded e)]
                  end
      | None => []
      end
  | CTVar (VForallVar key) =>
      match lookup_nat key kenv with Some q => [here q (KVar "")] | None => [] end
  | CTVar VForallEnumTail => []
  end.

Fixpoint cchecks (c : cexpr) (p : polarity) (kenv : list (nat * polarity)) {struct c} : list chk :=
  match c with
  | CDyn => []
  | CNum => [here p KNumber]
  | CStr => [here p KString]
  | CBool => [here p KBoolean]
  | CArray e => here p KIsArray :: under SElem (cchecks e p kenv)
  | CArrayDyn => [here p KIsArray]
  | CFunc d cd =>
      here p KIsFun :: under SDom (cchecks d (flip p) kenv) ++ under SCodom (cchecks cd p kenv)
  | CFuncDom d => here p KIsFun :: under SDom (cchecks d (flip p) kenv)
  | CFuncCodom cd => here p KIsFun :: under SCodom (cchecks cd p kenv)
  | CFuncDyn => [here p KIsFun]
  | CVarRef b => cvar_checks kenv b
  | CForall key _ body => cchecks body p ((key, p) :: kenv)
  | CEnum branches default =>
      here p KIsEnum
      :: (fix go (bs : list (string * option cexpr)) : list chk :=
            match bs with
            | [] => []
            | (k, None) :: bs' => go bs'
            | (k, Some c') :: bs' => under (SVariant k) (cchecks c' p kenv) ++ go bs'
            end) branches
      ++ match default with None => [here p KEnumTag] | Some _ => [] end
  | CRecord fields tail has_tail =>
      here p KIsRecord
      :: map (fun k => here p (KHasField k)) (keys fields)
      ++ (fix go (fs : list (string * cexpr)) : list chk :=
            match fs with
            | [] => []
            | (k, c') :: fs' => under (SField k) (cchecks c' p kenv) ++ go fs'
            end) fields
      ++ (if has_tail then [] else [here p KNoExtra])
      ++ ctail_checks kenv p (keys fields) tail
  | CDictDyn => [here p KIsRecord]
  | CDictContract c' | CDictType c' => here p KIsRecord :: under SDict (cchecks c' p kenv)
  | COpaque n => [here p (KOpaque n)]
  end.

Definition erase_kind (k : ckind) : ckind :=
  match k with
  | KVar _ => KVar ""
  | KTailUnseal _ => KTailUnseal ""
  | KTailSeal _ => KTailSeal ""
  | k => k
  end.

Definition erase (c : chk) : chk := mkChk (c_path c) (c_pol c) (erase_kind (c_kind c)).
