(* Data values, Nickel types, and the SPECIFICATION of type membership.

   [dv]  first-order data: what a fully evaluated, function-free Nickel value is.
   [ty]  the static types of /repo/parser/src/typ.rs (TypeF) that the contract generator of
         /repo/core/src/typ.rs handles: ground types, arrays, arrows, record rows with the three
         kinds of tail, dictionaries of both flavours, enum rows with optional arguments and an
         optional tail variable, the three kinds of [forall], variables, and opaque (user) contracts.
   [member] is the specification "v is a value of type T", written from the manual
         (/repo/doc/manual/typing.md "Type system", contracts.md) and NOT from the implementation
         of the contracts.  It is only meaningful on [first_order] types; on the rest it is [false]
         for arrows (data is never a function) and unspecified (false) for variables/opaque.

   Field order of records is not observable in Nickel (merge.rs: "we don't make any guarantee",
   export sorts); two data values are "the same" when they are [dv_equiv]: equal up to a
   permutation of record fields at every depth. *)
From Coq Require Import List String ZArith Bool Permutation.
Import ListNotations.
Open Scope bool_scope.

Inductive polarity := Pos | Neg.
Definition flip (p : polarity) : polarity := match p with Pos => Neg | Neg => Pos end.
Definition polarity_eqb (p q : polarity) : bool :=
  match p, q with Pos, Pos | Neg, Neg => true | _, _ => false end.

(* error classes of the canonical outcome enumeration (DESIGN §1.2) that contract application on
   data can produce, plus the two ways of leaving the modelled fragment *)
Inductive errclass :=
| Blame (p : polarity)      (* EvalErrorKind::BlameError with label.polarity = p *)
| UnboundTypeVar            (* UnboundTypeVariableError of subcontract *)
| FieldMissing              (* EvalErrorKind::FieldMissing (a record access on an absent field) *)
| OutOfFragment.            (* sealing / function wrappers applied to data: not modelled here *)

Inductive outcome (A : Type) :=
| Ok (a : A)
| Err (e : errclass).
Arguments Ok {A} a.
Arguments Err {A} e.

Definition obind {A B} (o : outcome A) (f : A -> outcome B) : outcome B :=
  match o with Ok a => f a | Err e => Err e end.

(* ------------------------------------------------------------------ data *)

Inductive dv :=
| DNum (num : Z) (den : positive)         (* an exact rational; never inspected by a contract *)
| DStr (s : string)
| DBool (b : bool)
| DNull
| DEnum (tag : string) (arg : option dv)  (* 'tag  or  'tag arg *)
| DArr (es : list dv)
| DRec (fs : list (string * dv)).         (* field definitions, no metadata *)

(* ------------------------------------------------------------------ types *)

Inductive varkind :=
| KType
| KRecRows (excluded : list string)
| KEnumRows.

Inductive rtail :=
| RClosed | RDyn | RVar (x : string)
| RExcl (excl : list string).   (* only produced by Type::simplify: a generated tail variable bound
                                   to $forall_record_tail_excluded_only [excl] *)
Inductive etail := EClosed | EVar (x : string).
Inductive dflavour := FType | FContract.     (* {_ : T}  vs  {_ | T} *)

Inductive ty :=
| TDyn | TNum | TStr | TBool
| TArr (t : ty)
| TArrow (a b : ty)
| TRec (rows : list (string * ty)) (tail : rtail)
| TDict (fl : dflavour) (t : ty)
| TEnum (rows : list (string * option ty)) (tail : etail)
| TForall (x : string) (k : varkind) (t : ty)
| TVar (x : string)
| TOpaque (n : nat).                         (* TypeF::Contract: a user contract, never inspected *)

(* ------------------------------------------------------------------ the specification *)

Definition has_key {A} (k : string) (l : list (string * A)) : bool :=
  existsb (fun kv => String.eqb k (fst kv)) l.

Fixpoint lookup {A} (k : string) (l : list (string * A)) : option A :=
  match l with
  | [] => None
  | (k', a) :: r => if String.eqb k k' then Some a else lookup k r
  end.

Definition keys {A} (l : list (string * A)) : list string := map fst l.

(* "v is a value of type T" *)
Fixpoint member (T : ty) (v : dv) {struct T} : bool :=
  match T with
  | TDyn => true
  | TNum => match v with DNum _ _ => true | _ => false end
  | TStr => match v with DStr _ => true | _ => false end
  | TBool => match v with DBool _ => true | _ => false end
  | TArr t => match v with DArr es => forallb (member t) es | _ => false end
  | TArrow _ _ => false
  | TRec rows tail =>
      (* a record that has every declared field, whose declared fields have the declared types,
         and that has no other field unless the record type is open ([; Dyn]); the internal tail
         [RExcl excl] is open except for the field names in [excl] *)
      match v with
      | DRec fs =>
          forallb (fun r => has_key (fst r) fs) rows
          && forallb (fun f =>
                (fix in_rows (rs : list (string * ty)) : bool :=
                   match rs with
                   | [] => match tail with
                           | RDyn => true
                           | RExcl excl => negb (existsb (String.eqb (fst f)) excl)
                           | _ => false
                           end
                   | (k, t) :: rs' => if String.eqb (fst f) k then member t (snd f) else in_rows rs'
                   end) rows) fs
      | _ => false
      end
  | TDict _ t =>
      (* both flavours denote the same set of values: records all of whose fields are in [t] *)
      match v with DRec fs => forallb (fun f => member t (snd f)) fs | _ => false end
  | TEnum rows _ =>
      (* one of the alternatives: the same tag, applied or not like the alternative, and the
         argument (if any) in the alternative's type *)
      match v with
      | DEnum tag arg =>
          (fix alt (rs : list (string * option ty)) : bool :=
             match rs with
             | [] => false
             | (k, ot) :: rs' =>
                 (String.eqb tag k &&
                  match ot, arg with
                  | None, None => true
                  | Some t, Some a => member t a
                  | _, _ => false
                  end) || alt rs'
             end) rows
      | _ => false
      end
  | TForall _ _ _ => false
  | TVar _ => false
  | TOpaque _ => false
  end.

(* ------------------------------------------------------------------ fragments *)

(* The fragment of property C03: built from Number, String, Bool, Dyn, arrays, closed or open
   ([; Dyn]) record types, dictionaries and closed enum types. *)
Fixpoint first_order (T : ty) : bool :=
  match T with
  | TDyn | TNum | TStr | TBool => true
  | TArr t => first_order t
  | TArrow _ _ => false
  | TRec rows tail =>
      (fix fo_rows (rs : list (string * ty)) : bool :=
         match rs with [] => true | (_, t) :: rs' => first_order t && fo_rows rs' end) rows
      && match tail with RVar _ => false | _ => true end
  | TDict _ t => first_order t
  | TEnum rows tail =>
      (fix fo_rows (rs : list (string * option ty)) : bool :=
         match rs with
         | [] => true
         | (_, None) :: rs' => fo_rows rs'
         | (_, Some t) :: rs' => first_order t && fo_rows rs'
         end) rows
      && match tail with EVar _ => false | EClosed => true end
  | TForall _ _ _ | TVar _ | TOpaque _ => false
  end.

(* Well-formed types: what the parser accepts (a record type with a repeated field is a parse
   error) and, for enums, no two alternatives with the same tag and the same shape (the
   typechecker and the generated matcher both take the first one; the specification above reads
   an enum type as a set of alternatives, which is the same thing only without such repeats). *)
Fixpoint nodupb (l : list string) : bool :=
  match l with
  | [] => true
  | x :: r => negb (existsb (String.eqb x) r) && nodupb r
  end.

Definition alt_key (r : string * option ty) : string * bool :=
  (fst r, match snd r with Some _ => true | None => false end).

Definition alt_key_eqb (a b : string * bool) : bool :=
  String.eqb (fst a) (fst b) && Bool.eqb (snd a) (snd b).

Fixpoint nodup_alts (l : list (string * bool)) : bool :=
  match l with
  | [] => true
  | x :: r => negb (existsb (alt_key_eqb x) r) && nodup_alts r
  end.

Fixpoint wf_ty (T : ty) : bool :=
  match T with
  | TDyn | TNum | TStr | TBool | TVar _ | TOpaque _ => true
  | TArr t => wf_ty t
  | TArrow a b => wf_ty a && wf_ty b
  | TRec rows _ =>
      nodupb (keys rows)
      && (fix wf_rows (rs : list (string * ty)) : bool :=
            match rs with [] => true | (_, t) :: rs' => wf_ty t && wf_rows rs' end) rows
  | TDict _ t => wf_ty t
  | TEnum rows _ =>
      nodup_alts (map alt_key rows)
      && (fix wf_rows (rs : list (string * option ty)) : bool :=
            match rs with
            | [] => true
            | (_, None) :: rs' => wf_rows rs'
            | (_, Some t) :: rs' => wf_ty t && wf_rows rs'
            end) rows
  | TForall _ _ t => wf_ty t
  end.

(* Well-formed data: a record value never has two fields with the same name. *)
Fixpoint wf_dv (v : dv) : bool :=
  match v with
  | DNum _ _ | DStr _ | DBool _ | DNull => true
  | DEnum _ None => true
  | DEnum _ (Some a) => wf_dv a
  | DArr es => forallb wf_dv es
  | DRec fs =>
      nodupb (keys fs)
      && (fix wf_fs (l : list (string * dv)) : bool :=
            match l with [] => true | (_, x) :: r => wf_dv x && wf_fs r end) fs
  end.

(* ------------------------------------------------------------------ sameness of data *)

Inductive dv_equiv : dv -> dv -> Prop :=
| EqNum n d : dv_equiv (DNum n d) (DNum n d)
| EqStr s : dv_equiv (DStr s) (DStr s)
| EqBool b : dv_equiv (DBool b) (DBool b)
| EqNull : dv_equiv DNull DNull
| EqTag t : dv_equiv (DEnum t None) (DEnum t None)
| EqVariant t a b : dv_equiv a b -> dv_equiv (DEnum t (Some a)) (DEnum t (Some b))
| EqArr l1 l2 : Forall2 dv_equiv l1 l2 -> dv_equiv (DArr l1) (DArr l2)
| EqRec l1 l2 l2' :
    Permutation l2 l2' ->
    Forall2 (fun a b => fst a = fst b /\ dv_equiv (snd a) (snd b)) l1 l2' ->
    dv_equiv (DRec l1) (DRec l2).
