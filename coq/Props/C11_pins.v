(* C11 — pinned statements: each theorem of Props/C11.v must still have exactly this type. *)
From Coq Require Import List String ZArith Bool.
From NV Require Import Seal.Syntax Seal.Eval Seal.TableTypes Seal.TableCheck Seal.Guard Seal.Typing
     Seal.LogRel Seal.Fundamental Seal.Erasure Seal.Export Seal.Tail Seal.Keys Seal.Variants.
Import ListNotations.
Open Scope string_scope.
From NV Require Import Props.C11.
Check (C11_seal_guard_generated : seal_guard_statement).
Check (C11_inspect_blames :
  forall n r e k t l F,
    eval cfg_real n r e = Ok (VSealed k t l) ->
    frame_ok F n r ->
    eval cfg_real (S n) r (plug F e) = Err (Blame (lpol l))).
Check (C11_inspect_blames_contract :
  forall n r x F T arg,
    first_strict F ->
    propagating (fst (compile [("a", VCType 0)] 1 T)) l1 ->
    eval cfg_real (10 + n) r
      (App (Ann (TForall "a" KType (TArrow (TVar "a") T)) (Lam x (plug F (Var x)))) arg)
    = Err (Blame true)).
Check (C11_unseal_other_key_blames :
  forall n r e k k' t l l',
    eval cfg_real n r e = Ok (VSealed k t l) -> k' <> k ->
    eval cfg_real (S n) r (Unseal k' l' e) = Err (Blame (lpol l'))).
Check (C11_unseal_right_key :
  forall n r e k t l l',
    eval cfg_real n r e = Ok (VSealed k t l) ->
    eval cfg_real (S n) r (Unseal k l' e) = force cfg_real n t).
Check (C11_seq_sees_through :
  forall n r a b k t l v,
    eval cfg_real (S (S n)) r a = Ok (VSealed k t l) ->
    force cfg_real (S (S n)) t = Ok v -> unsealed v ->
    eval cfg_real (S (S (S n))) r (Seq a b) = eval cfg_real (S (S n)) r b).
Check (C11_export_sealed_blames :
  forall ev m k t l, deep ev (S m) (VSealed k t l) = Err (Blame (lpol l))).
Check (C11_parametric_erasure_partial :
  forall x e T k l0 U d0 t,
    passes_only x e T -> is_svar U = false -> lift (OR d0 U) t t ->
    lift (OR (fun _ => MkInt k (OR d0 U) (fun _ _ => False)) T)
         (Th [(x, Th [("%v", t)] (SealT k l0 (Var "%v")))] e)
         (Th [(x, t)] e)).
Check (C11_erasure_both_terminate :
  forall (O : orel) t1 t2 n1 n2 r1 r2,
    (forall a b, O a b -> a <> OutOfFuel) ->
    lift O t1 t2 ->
    force cfg_real n1 t1 = r1 -> r1 <> OutOfFuel -> force cfg_real n2 t2 = r2 -> r2 <> OutOfFuel -> O r1 r2).
Check (C11_fundamental :
  forall d e, wf_int d ->
    forall G T, has_ty G e T -> forall p1 p2, env_rel d G p1 p2 -> lift (OR d T) (Th p1 e) (Th p2 e)).
Check (C11_parametric_transparent :
  forall nv keys sg d0 T f p,
    scoped nv T -> rows_ok sg T -> (forall i, is_svar (sg i) = false) -> has_ty [] f T ->
    lift (OR d0 (inst sg T))
         (Th p (Chk (foralls (var_keys keys nv) (sty_ctr keys T)) lbl0 f))
         (Th p f)).
Check (C11_parametric_same_result :
  forall nv keys sg a b f arg p,
    scoped nv (SFun a b) -> rows_ok sg (SFun a b) -> (forall i, is_svar (sg i) = false) ->
    has_ty [] f (SFun a b) -> has_ty [] arg (inst sg a) -> is_base (inst sg b) = true ->
    forall n r, eval cfg_real n p (App f arg) = r -> r <> OutOfFuel ->
      exists m, eval cfg_real m p (App (Chk (foralls (var_keys keys nv) (sty_ctr keys (SFun a b))) lbl0 f) arg) = r).
Check (C11_parametric_annotation_same_result2 :
  forall sg a1 a2 b f arg1 arg2 p,
    scoped 2 (SFun a1 (SFun a2 b)) -> norow (SFun a1 (SFun a2 b)) -> (forall i, is_svar (sg i) = false) ->
    has_ty [] f (SFun a1 (SFun a2 b)) -> has_ty [] arg1 (inst sg a1) -> has_ty [] arg2 (inst sg a2) ->
    is_base (inst sg b) = true ->
    forall n r, eval cfg_real n p (App (App f arg1) arg2) = r -> r <> OutOfFuel ->
      exists m, eval cfg_real m p
                  (App (App (Ann (TForall "a" KType (TForall "b" KType (sty_ty names2 (SFun a1 (SFun a2 b))))) f) arg1) arg2) = r).
Check (C11_export_same :
  forall d T t1 t2, data_ty T -> lift (OR d T) t1 t2 ->
    forall n r, export n t2 = r -> r <> OutOfFuel -> exists m, export m t1 = r).
Check (C11_parametric_annotation_same_export2 :
  forall sg a1 a2 b f arg1 arg2,
    scoped 2 (SFun a1 (SFun a2 b)) -> norow (SFun a1 (SFun a2 b)) -> (forall i, is_svar (sg i) = false) ->
    has_ty [] f (SFun a1 (SFun a2 b)) -> has_ty [] arg1 (inst sg a1) -> has_ty [] arg2 (inst sg a2) ->
    data_ty (inst sg b) ->
    forall n r, run_data cfg_real n (App (App f arg1) arg2) = r -> r <> OutOfFuel ->
      exists m, run_data cfg_real m
                  (App (App (Ann (TForall "a" KType (TForall "b" KType (sty_ty names2 (SFun a1 (SFun a2 b))))) f) arg1) arg2) = r).
Check (C11_parametric_same_export :
  forall nv keys sg a b f arg,
    scoped nv (SFun a b) -> rows_ok sg (SFun a b) -> (forall i, is_svar (sg i) = false) ->
    has_ty [] f (SFun a b) -> has_ty [] arg (inst sg a) -> data_ty (inst sg b) ->
    forall n r, run_data cfg_real n (App f arg) = r -> r <> OutOfFuel ->
      exists m, run_data cfg_real m (App (Chk (foralls (var_keys keys nv) (sty_ctr keys (SFun a b))) lbl0 f) arg) = r).
Check (C11_tail_guarded :
  forall n r e fs k l tfs t o,
    eval cfg_real n r e = Ok (VRec fs (RSeal k l tfs t)) ->
    touches_tail o fs tfs ->
    eval cfg_real (S n) r (tail_op_tm o e) = Err Syntax.TailAccess).
Check (C11_tail_sealed :
  forall cf fs k excl l vfs vt p,
    lookup_tyvar k (ltenv l) = Some p -> p <> lpol l ->
    (forall x c, In (x, c) fs -> mem x vfs = true) ->
    (forall x t, In (x, t) (extra_of fs vfs) -> mem_str x excl = false) ->
    chk_record cf fs (CTVar k excl) l (VRec vfs vt)
    = Ok (VRec (center_of fs l vfs) (RSeal k (flip l) (extra_of fs vfs) vt))).
Check (C11_tail_preserved :
  forall cf fs k excl l vfs l0 tfs vt,
    lookup_tyvar k (ltenv l) = Some (lpol l) ->
    (forall x c, In (x, c) fs -> mem x vfs = true) ->
    extra_of fs vfs = [] ->
    chk_record cf fs (CTVar k excl) l (VRec vfs (RSeal k l0 tfs vt))
    = Ok (VRec (extend_fields (center_of fs l vfs) tfs) vt)).
Check (C11_nested_tail_preserved :
  forall cf fs k excl ln lp vfs vt vfs' p,
    lookup_tyvar k (ltenv ln) = Some p -> p <> lpol ln ->
    lookup_tyvar k (ltenv lp) = Some (lpol lp) ->
    (forall x c, In (x, c) fs -> mem x vfs = true) -> extra_of fs vfs = [] ->
    (forall x c, In (x, c) fs -> mem x vfs' = true) -> extra_of fs vfs' = [] ->
    chk_record cf fs (CTVar k excl) ln (VRec vfs vt)
      = Ok (VRec (center_of fs ln vfs) (RSeal k (flip ln) [] vt))
    /\ chk_record cf fs (CTVar k excl) lp (VRec vfs' (RSeal k (flip ln) [] vt))
      = Ok (VRec (center_of fs lp vfs') vt)).
Check (C11_tail_tampered_blames :
  forall cf fs k excl l vfs vt,
    lookup_tyvar k (ltenv l) = Some (lpol l) ->
    (forall x c, In (x, c) fs -> mem x vfs = true) ->
    (extra_of fs vfs <> [] \/ vt = RNone \/ (exists k' l0 tfs vt', vt = RSeal k' l0 tfs vt' /\ k' <> k)) ->
    chk_record cf fs (CTVar k excl) l (VRec vfs vt) = Err (Blame (lpol l))).
Check (C11_excluded_field_blames :
  forall cf fs k excl l vfs vt p x t,
    lookup_tyvar k (ltenv l) = Some p -> p <> lpol l ->
    (forall y c, In (y, c) fs -> mem y vfs = true) ->
    In (x, t) (extra_of fs vfs) -> mem_str x excl = true ->
    chk_record cf fs (CTVar k excl) l (VRec vfs vt) = Err (Blame (lpol l))).
Check (C11_nested_foralls_have_distinct_keys :
  forall t, alias_free t -> NoDup (fkeys (contract_of t))).
Check (C11_noflip_variant_refuted : ~ enforces (MkCfg false true false)).
Check (C11_seethrough_variant_refuted : ~ enforces (MkCfg true false false)).
Check (C11_dedup_variant_refuted :
  run_line cfg_dedup 60 own_result = "OK [#1,#2]" /\ run_line cfg_real 60 own_result = "ERR Blame+").
Check (C11_array_contract_twice_seals_twice :
  forall n k l t p,
    lookup_tyvar k (ltenv l) = Some p -> p <> lpol l ->
    let once := wrap_elem (CVar k) l t in
    let twice := wrap_elem (CVar k) l once in
    force cfg_real (S n) twice = Ok (VSealed k (Th [("%e", once)] (Var "%e")) (flip l))
    /\ force cfg_real (S (S n)) (Th [("%e", once)] (Var "%e"))
       = Ok (VSealed k (Th [("%e", t)] (Var "%e")) (flip l))).
Check (C11_cross_contract_keys_refuted :
  eval cfg_real 30 [] launder = Ok (VNum 2) /\ ~ blamed_outcome (eval cfg_real 30 [] launder)).
Check (C11_per_instantiation_keys_refuted :
  eval cfg_real 40 [] two_calls = Ok (VNum 1) /\ ~ blamed_outcome (eval cfg_real 40 [] two_calls)).
