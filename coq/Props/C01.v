(* C01 — property theorems.  Only statements closed by [exact]; proofs live in Types/*.v. *)
From Coq Require Import List String Bool.
Import ListNotations.
From NV Require Import Types.SigDefs Gen.PrimopSig Gen.PrimopDyn Types.SigSound.
From NV Require Import Types.Syntax Types.Sem Types.Decl Types.LogRel Types.Safety Types.ModelSig Types.ModelSigSound Types.Examples Types.Checker Types.CheckerSound Gen.ModelSigGen Types.SigTie.

(* T0, translator-tied: static primop types (real typechecker) vs observed run-time dispatch (real
   interpreter), for every primop outside the listed internal label/contract/sealing operations
   and every vector of source-representable run-time kinds inhabiting the static argument types. *)
Theorem C01_sig_sound_generated :
  forall r, In r sig_table -> ~ In r.(s_name) exempt_ops ->
  forall ks, Forall (fun k => In k repr_kinds) ks ->
    Forall2 (fun k T => inhabits k T = true) ks r.(s_args) ->
    exists d, lookup_dyn dyn_table r.(s_name) ks = Some d
              /\ (forall c, In c d.(d_errs) -> bad_class r.(s_name) c = false)
              /\ (forall k, In k d.(d_kinds) -> inhabits k r.(s_res) = true).
Proof. exact sig_sound_generated_lemma. Qed.

(* T0, type safety of the fragment (Types/Syntax.v, Decl.v, Sem.v): for every signature table whose
   primitives inhabit the semantic interpretation of their declared types, no program accepted by
   the declarative type system raises -- at any fuel, under deep evaluation -- a dynamic type error
   (wrong operand kind, non-function applied, missing field, non-exhaustive match, unbound
   identifier) whose failing redex lies in typed code. *)
Theorem C01_type_safety : forall Sg, sig_sound Sg ->
  forall n e T, has_type Sg [] e T -> safe_outcome (run n e).
Proof. exact type_safety_lemma. Qed.

(* the hypothesis is satisfiable: the model's own table (which mirrors operation.rs / std.ncl and is
   compared with the generated static table) is sound ... *)
Theorem C01_model_sig_sound : sig_sound model_sig.
Proof. exact model_sig_sound. Qed.

(* ... hence the property for the concrete model *)
Theorem C01_type_safety_model : forall n e T,
  has_type model_sig [] e T -> safe_outcome (run n e).
Proof. exact type_safety_model. Qed.

(* the value of a typed block inhabits the semantic interpretation of its own annotation (so the
   contract derived from that annotation cannot blame the block) *)
Theorem C01_typed_result_in_type : forall Sg, sig_sound Sg ->
  forall n e T v, has_type Sg [] e T -> eval n MTyped [] e = Ok v -> V T [] [] v.
Proof. exact typed_result_in_type. Qed.

(* certificates: the executable checker (extracted and run on every generated program) only accepts
   derivations of the declarative system *)
Theorem C01_checker_sound : forall Sg a T,
  check_deriv Sg a T = true -> has_type Sg [] (erase a) T.
Proof. exact checker_sound_lemma. Qed.

(* ... so a certified program of the model signature is safe *)
Theorem C01_certified_safe : forall a T n,
  check_deriv model_sig a T = true -> safe_outcome (run n (erase a)).
Proof. intros a T n H. eapply type_safety_model. apply checker_sound_lemma. eassumption. Qed.

(* translator tie of the model's signature table: it is the running typechecker's *)
Theorem C01_model_sig_matches_generated :
  (forall o T, In (o, T) gen_model_sig -> model_sig o = Some T) /\
  (forall o, exists T, In (o, T) gen_model_sig).
Proof. exact model_sig_matches_generated_lemma. Qed.
