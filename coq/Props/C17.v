(* C17 — property theorems.  Only statements closed by [exact]; proofs live in Vector/*.v. *)
From Coq Require Import List Arith.
Import ListNotations.
From NV Require Import Vector.Model Vector.History Vector.Proofs.

Theorem C17_new_wf : forall B, 2 <= B -> check_invariants B (@vnew nat) = true.
Proof. exact vnew_wf. Qed.
