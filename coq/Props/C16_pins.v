(* Pinned statements of the C16 theorems. *)
From Coq Require Import ZArith QArith Qround Qreduction Qabs List String.
From NV Require Import Arith.Num Arith.Expr Arith.Eq Arith.StdProofs Gen.StdNumber Props.C16.
Import ListNotations.
Open Scope Q_scope.

Check (C16_modulo_spec : forall a b, ~ b == 0 ->
  exists r, nmod a b = Ok r
    /\ a == inject_Z (trunc (a / b)) * b + r
    /\ Qabs r < Qabs b
    /\ (0 <= a -> 0 <= r) /\ (a <= 0 -> r <= 0)).
Check (C16_floor_spec : forall x, std1 "floor" x = okn (Qred (inject_Z (Qfloor x)))).
