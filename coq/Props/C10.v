(* C10 — every input yields a result or a structured diagnostic, never a crash.
   Level: proof (partial).  What is proved is panic-freedom of the modelled cores below, for every
   input of each core; crash-freedom of the whole pipeline over all byte strings is NOT a theorem
   (it is sampled by checks/c10.py).  Only statements closed by [exact]; proofs in Crash/*.v. *)
From Coq Require Import ZArith QArith String List Bool.
Import ListNotations.
From NV Require Import Crash.Outcome Crash.NumOps Crash.NumOpsProofs Crash.Index Crash.IndexProofs
  Crash.Lexer Crash.LexerProofs Crash.Span Crash.SpanProofs Crash.NameReg Crash.NameRegProofs
  Crash.Defects Crash.MergeDispatch Crash.MergeDispatchProofs Crash.TomlFloats Crash.TomlFloatsProofs
  Crash.TypePos Crash.TypePosProofs Crash.Ledger Gen.PanicSites.

(* ---------------------------------------------------------------- (a) number primops *)
Theorem C10_no_panic_div : forall n1 n2, no_panic (op_div n1 n2).
Proof. exact no_panic_div. Qed.

Theorem C10_no_panic_mod : forall n1 n2, no_panic (op_mod n1 n2).
Proof. exact no_panic_mod. Qed.

(* for every float conversion and every powf *)
Theorem C10_no_panic_pow : forall (to_f64 : Q -> fl) (powf : fl -> fl -> fl) n1 n2,
  no_panic (op_pow to_f64 powf n1 n2).
Proof. exact no_panic_pow. Qed.

(* what the zero-base guard (commit c4c4d42) excludes, exactly *)
Theorem C10_pow_unguarded_panics_iff : forall (to_f64 : Q -> fl) (powf : fl -> fl -> fl) n1 n2,
  (exists s, op_pow_unguarded to_f64 powf n1 n2 = Panic s) <->
  (exists e, i64_try_from n2 = Some e /\ (e < 0)%Z /\ qzero n1 = true).
Proof. exact pow_unguarded_panics_iff. Qed.

Theorem C10_no_panic_float1 : forall (to_f64 : Q -> fl) (f1 : fl -> fl) n, no_panic (op_float1 to_f64 f1 n).
Proof. exact no_panic_float1. Qed.

Theorem C10_no_panic_atan2 : forall (to_f64 : Q -> fl) (atan2 : fl -> fl -> fl) n1 n2,
  no_panic (op_atan2 to_f64 atan2 n1 n2).
Proof. exact no_panic_atan2. Qed.

Theorem C10_no_panic_log : forall (to_f64 : Q -> fl) (logf : fl -> Q -> fl) n1 n2,
  no_panic (op_log to_f64 logf n1 n2).
Proof. exact no_panic_log. Qed.

Theorem C10_div_by_zero_is_error : forall n1 n2, qzero n2 = true -> op_div n1 n2 = Error "division by zero".
Proof. exact div_by_zero_is_error. Qed.

Theorem C10_pow_zero_neg_is_error : forall to_f64 powf n1 n2 e,
  i64_try_from n2 = Some e -> (e < 0)%Z -> qzero n1 = true ->
  op_pow to_f64 powf n1 n2 = Error "division by zero".
Proof. exact pow_zero_neg_is_error. Qed.

(* ---------------------------------------------------------------- (b) index arithmetic *)
Theorem C10_no_panic_substring : forall A (s : list A) start end_, no_panic (substring s start end_).
Proof. exact no_panic_substring. Qed.

Theorem C10_no_panic_array_slice : forall A start end_ (arr : list A), no_panic (op_array_slice start end_ arr).
Proof. exact no_panic_array_slice. Qed.

Theorem C10_no_panic_array_at : forall A (arr : list A) n, no_panic (op_array_at arr n).
Proof. exact no_panic_array_at. Qed.

Theorem C10_no_panic_array_gen : forall n, no_panic (op_array_gen_len n).
Proof. exact no_panic_array_gen. Qed.

(* std.string.find / find_all: the look-up before commit c9daf53 is refuted, exactly for a match
   that starts at the end of the string; the code as it is now is proved panic-free *)
Theorem C10_find_all_index_refuted : exists offsets len m site, find_all_index offsets len m = Panic site.
Proof. exact find_all_index_panics. Qed.

Theorem C10_find_all_index_panics_iff : forall offsets len m,
  (exists site, find_all_index offsets len m = Panic site) <->
  (m = len /\ existsb (Z.eqb m) offsets = false).
Proof. exact find_all_index_panics_iff. Qed.

Theorem C10_no_panic_find_all_fixed : forall offsets len m, no_panic (find_all_index_fixed offsets len m).
Proof. exact no_panic_find_all_fixed. Qed.

(* ---------------------------------------------------------------- (c) the lexer mode automaton *)
Theorem C10_lexer_no_panic : forall input, forallb sym_wf input = true -> no_panic (run init input).
Proof. exact lexer_no_panic. Qed.

Theorem C10_lexer_consumes : forall input, forallb sym_wf input = true ->
  exists es final, run init input = Val (es, final) /\ List.length es = List.length input /\ wf final.
Proof. exact lexer_consumes. Qed.

Theorem C10_unmatched_brace_is_error : forall s, sN s = NRBrace ->
  next_step init s = Val (init, Err EUnmatchedCloseBrace).
Proof. exact unmatched_brace_is_error. Qed.

(* ---------------------------------------------------------------- (d) span arithmetic *)
Theorem C10_from_lexical_in_range : forall len bnd e,
  (len < 2 ^ 32)%Z -> lexical_error_ok len bnd e -> Forall (in_range len) (from_lexical e).
Proof. exact from_lexical_in_range. Qed.

Theorem C10_from_lexical_splits_char_refuted :
  exists len bnd e, (len < 2 ^ 32)%Z /\ src_ok len bnd /\ lexical_error_ok len bnd e /\
    ~ Forall (on_bnd bnd) (from_lexical e).
Proof. exact from_lexical_splits_char. Qed.

Theorem C10_from_lexical_fixed_ok : forall len bnd e,
  (len < 2 ^ 32)%Z -> lexical_error_ok len bnd e ->
  Forall (fun s => in_range len s /\ on_bnd bnd s) (from_lexical_fixed e).
Proof. exact from_lexical_fixed_ok. Qed.

Theorem C10_from_lalrpop_in_range : forall len e,
  (len < 2 ^ 32)%Z ->
  match e with
  | PInvalidToken l => (0 <= l < len)%Z
  | PUnrecognizedToken t | PExtraToken t => in_range len t
  end ->
  in_range len (from_lalrpop e).
Proof. exact from_lalrpop_in_range. Qed.

Theorem C10_split_spans_ok : forall len tok pc,
  in_range len tok -> (0 <= pc <= snd tok - fst tok)%Z ->
  exists a b, split_spans tok pc = Val (a, b) /\ in_range len a /\ in_range len b /\
              fst a = fst tok /\ snd a = fst b /\ snd b = snd tok /\ (snd b - fst b = pc)%Z.
Proof. exact split_spans_ok. Qed.

Theorem C10_fuse_in_range : forall len a b, in_range len a -> in_range len b ->
  in_range len (fuse a b) /\ (fst (fuse a b) <= fst a)%Z /\ (snd a <= snd (fuse a b))%Z
  /\ (fst (fuse a b) <= fst b)%Z /\ (snd b <= snd (fuse a b))%Z.
Proof. exact fuse_in_range. Qed.

Theorem C10_json_error_span_refuted : exists len off, (0 <= off <= len)%Z /\ ~ in_range len (json_error_span off).
Proof. exact json_error_span_out_of_range. Qed.

Theorem C10_toml_error_span_refuted : exists len t, in_range len t /\ ~ in_range len (toml_error_span t).
Proof. exact toml_error_span_out_of_range. Qed.

Theorem C10_external_error_span_ok : forall len bnd start end_,
  src_ok len bnd -> (0 <= start)%Z ->
  let s := external_error_span len bnd start end_ in
  in_range len s /\ on_bnd bnd s /\ ((fst s < len)%Z -> (fst s < snd s)%Z).
Proof. exact external_error_span_ok. Qed.

(* ---------------------------------------------------------------- name generation in type errors *)
Theorem C10_select_uniq_diverges_refuted : forall taken, taken 0%nat = true -> taken 1%nat = true ->
  forall fuel, select_uniq_orig taken fuel = None.
Proof. exact select_uniq_orig_diverges. Qed.

Theorem C10_select_uniq_fixed_terminates : forall taken bound,
  (forall s, (bound <= s)%nat -> taken s = false) ->
  exists r, select_uniq_fixed taken (S bound) = Some r /\ taken r = false.
Proof. exact select_uniq_fixed_terminates. Qed.

Theorem C10_no_panic_candidate_char : forall next, no_panic (candidate_char next).
Proof. exact no_panic_candidate_char. Qed.

(* ---------------------------------------------------------------- findings of this property: old code refuted, current code proved *)
Theorem C10_pretty_print_cap_refuted : exists widths max_width site,
  Forall (fun w => (1 <= w <= 4)%Z) widths /\ (0 <= max_width)%Z /\ pretty_print_cap widths max_width = Panic site.
Proof. exact pretty_print_cap_panics. Qed.

Theorem C10_no_panic_pretty_print_cap_fixed : forall widths max_width, no_panic (pretty_print_cap_fixed widths max_width).
Proof. exact no_panic_pretty_print_cap_fixed. Qed.

Theorem C10_lone_cr_refuted : exists s l site, string_token s = SLit l /\ literal_callback l = Panic site.
Proof. exact lone_cr_reaches_literal. Qed.

Theorem C10_no_panic_literal_fixed : forall l, no_panic (literal_handler_fixed l).
Proof. exact no_panic_literal_fixed. Qed.

(* ---------------------------------------------------------------- merge_fields: the unreachable!() arm *)
Theorem C10_no_panic_merge_select : forall has1 has2 p1 p2, no_panic (select_value has1 has2 p1 p2).
Proof. exact no_panic_select_value. Qed.

Theorem C10_prio_eq_is_cmp_eq : forall a b, prio_eq a b = true <-> prio_cmp a b = Eq.
Proof. exact prio_eq_cmp. Qed.

(* ---------------------------------------------------------------- TOML import: inf / nan *)
Theorem C10_no_panic_toml_import : forall doc, no_panic (from_doc doc).
Proof. exact no_panic_toml_import. Qed.

Theorem C10_toml_check_protects_conversion : forall i, check_floats i = true -> convert_item i = Val tt.
Proof. exact convert_item_ok. Qed.

(* a pre-check that does not enter inline tables below values would leave the expect reachable *)
Theorem C10_toml_check_needs_inline_arm : exists v site,
  check_value_no_inline v = true /\ convert_value v = Panic site.
Proof. exact check_without_inline_arm_is_unsound. Qed.

(* ---------------------------------------------------------------- annotation types have a position *)
Theorem C10_annot_positions_set : forall fuel t,
  pos_of (annot_fix_then_pos fuel t) = true /\ pos_of (annot_pos_then_fix fuel t) = true.
Proof. exact annot_positions_set. Qed.

Theorem C10_no_panic_labeled_type : forall fuel t,
  no_panic (labeled_type_from_ast (annot_fix_then_pos fuel t)) /\
  no_panic (labeled_type_from_ast (annot_pos_then_fix fuel t)).
Proof. exact no_panic_labeled_type. Qed.

(* a rebuilt node that drops its position breaks exactly the record-field order *)
Theorem C10_rebuilt_type_needs_position : exists t site,
  labeled_type_from_ast (fixed_enum_drops_pos 3 (with_pos t)) = Panic site
  /\ pos_of (with_pos (fixed_enum_drops_pos 3 t)) = true.
Proof. exact enum_without_build_fixed_panics. Qed.

(* ---------------------------------------------------------------- the ledger *)
Theorem C10_sites_all_covered : forall key line, In (key, line) sites -> exists c, In (key, c) ledger.
Proof. exact sites_all_covered. Qed.

Theorem C10_ledger_no_stale : forall key c, In (key, c) ledger -> exists line, In (key, line) sites.
Proof. exact ledger_no_stale. Qed.
