(* C14 — property theorems.  Only statements closed by [exact]; proofs live in Surface/*.v.
   [OpTable] is regenerated from grammar.lalrpop / lexer.rs / primop.rs / pretty.rs on every run. *)
From Coq Require Import String List ZArith QArith Bool.
From NV Require Import Surface.Ast Surface.Indent Surface.Print Surface.Parse Surface.TableWf
  Surface.RoundTrip Surface.Multiline Surface.Image Surface.CoreImage Surface.Examples Surface.Refuted Gen.OpTable.
Import ListNotations.
Open Scope string_scope.

(* the generated operator table has what the round trip needs *)
Theorem C14_op_table_wf :
  table_ok binops prefixops max_level primops op_spelling infix_ops postfix_ops = true.
Proof. vm_compute. reflexivity. Qed.

(* ---- the round trip, for the expression core (see Surface/RoundTrip.v for the fragment [core]:
   literals, variables, strings with interpolation, enum tags and variants, arrays, application,
   the strict and lazy infix operators of every level, negation, %primop% applications, static access, imports, if, fun and let
   with variable patterns, annotations with base / contract / arrow / array types, records with
   simple fields).  [pa] is the model parser instantiated at the generated table, [pr] the model
   printer; [repaired_code] is the variant of the code the check ties to /repo. *)

Theorem C14_parse_print_core :
  forall t, core primops infix_ops repaired_code t -> pa repaired_code (pr repaired_code t) = Some t.
Proof.
  exact (parse_print_core binops prefixops max_level primops keywords op_spelling infix_ops postfix_ops
           repaired_code C14_op_table_wf eq_refl eq_refl).
Qed.

Theorem C14_print_fixpoint_core :
  forall t t', core primops infix_ops repaired_code t ->
    pa repaired_code (pr repaired_code t) = Some t' -> pr repaired_code t' = pr repaired_code t.
Proof.
  exact (print_fixpoint_core binops prefixops max_level primops keywords op_spelling infix_ops postfix_ops
           repaired_code C14_op_table_wf eq_refl eq_refl).
Qed.

(* the hypothesis is satisfiable by a non-trivial program *)
Theorem C14_core_nonvacuous : core primops infix_ops repaired_code ex_core.
Proof. exact ex_core_in_fragment. Qed.

(* The full statements (type-checked, not proved): over the whole image of the parser
   ([Image.parser_image], an executable predicate that the check evaluates on every tree the model
   parser returns and on every generated tree), and its closure under parsing.
   [C14_parse_print_core] above is the part that is proved. *)
Definition C14_full_parse_print : Prop :=
  forall t, parser_image primops infix_ops t = true -> pa repaired_code (pr repaired_code t) = Some t.
Definition C14_full_image_closed : Prop :=
  forall ts t, pa repaired_code ts = Some t -> parser_image primops infix_ops t = true.

(* the proved fragment lies inside the image, so [C14_parse_print_core] is [C14_full_parse_print]
   restricted to [core] *)
Theorem C14_core_in_image :
  forall t, core primops infix_ops repaired_code t -> parser_image primops infix_ops t = true.
Proof. exact (core_in_image primops infix_ops repaired_code). Qed.

(* the number of percent signs the printer chooses for a multiline string (nb_percent, from
   min_interpolate_sign) makes the lexer's multiline mode (Multiline.lex, the automaton of
   lexer.rs) read the printed characters back as exactly the chunks: literal text as literals,
   interpolations as interpolations, the closing delimiter as the end *)
Theorem C14_multiline_delim_safe :
  forall cs : list chunk, no_adjacent_lits cs ->
    lex (S (nb_percent cs)) (render (nb_percent cs) cs) DStart = expected cs.
Proof. exact multiline_delim_safe. Qed.

(* ---- refuted statements about the pinned printer/parser (one flag each), with their witnesses *)

Theorem C14_number_print_refuted :
  pa only_num (pr only_num w_number) = Some (Num (123456789012345700000000000000 # 1)).
Proof. exact number_refuted. Qed.

Theorem C14_annotated_in_type_position_refuted :
  pa only_annot (pr only_annot w_annot)
  = Some (Annot (Ann None [ctr (Var "y"); ctr (Var "Z")]) (Var "x")).
Proof. exact annot_refuted. Qed.

Theorem C14_dynamic_access_refuted :
  pa only_dyn (pr only_dyn w_dyn)
  = Some (App (Var "f") [Op (ONamed "record/get") [Chunks [CExpr (Var "y") 0]; Var "x"]]).
Proof. exact dyn_refuted. Qed.

Theorem C14_curried_dot_refuted :
  pa only_dyn (pr only_dyn w_dot) = Some (Fun [vpat "x"; vpat "y"] (Op (OStatAccess "y") [Var "x"])).
Proof. exact dot_refuted. Qed.

Theorem C14_not_exported_refuted :
  pa only_ne (pr only_ne w_ne)
  = Some (Record [] [FDef [PId "foo"] (FMeta None no_ann false false PNeutral) (Some (Num (1 # 1)))] false).
Proof. exact not_exported_refuted. Qed.

Theorem C14_field_pattern_alias_refuted :
  pa only_alias (pr only_alias w_alias)
  = Some (Match [Branch (Pat None (PRecord [FPat "foo" no_ann None (Pat None (PAny "foo"))] TClosed))
                        None (Var "y")]).
Proof. exact alias_refuted. Qed.

Theorem C14_include_only_record_refuted :
  pa only_incl (pr only_incl w_incl) = Some (Record [] [] false).
Proof. exact include_refuted. Qed.

Theorem C14_aliased_pattern_parens_refuted :
  pa only_aliaspar (pr only_aliaspar w_aliaspar) = None.
Proof. exact aliaspar_refuted. Qed.

Theorem C14_empty_literal_chunk_refuted :
  exists t, pa only_emptylit w_emptylit_tokens = Some t
            /\ pa only_emptylit (pr only_emptylit t) = Some (Chunks [CExpr (Var "x") 0])
            /\ t <> Chunks [CExpr (Var "x") 0].
Proof. exact emptylit_refuted. Qed.

Theorem C14_multiline_indent_refuted :
  forall cs, In cs [w_ml1; w_ml2; w_ml3] ->
    chunks_multiline only_multiline false cs = true /\ multiline_roundtrips cs = false.
Proof. exact multiline_refuted. Qed.

(* ---- the same witnesses round-trip in the model of the repaired code *)

Theorem C14_witnesses_repaired :
  Forall (fun w => pa repaired_code (pr repaired_code w) = Some w)
         [w_number; w_annot; w_dyn; w_dot; w_ne; w_alias; w_incl; w_aliaspar].
Proof.
  exact (Forall_cons _ number_repaired (Forall_cons _ annot_repaired (Forall_cons _ dyn_repaired
        (Forall_cons _ dot_repaired (Forall_cons _ not_exported_repaired (Forall_cons _ alias_repaired
        (Forall_cons _ include_repaired (Forall_cons _ aliaspar_repaired (Forall_nil _))))))))).
Qed.
