(* C05 at mechanism level: the insertion-ordered, lazily merging model of core/src/eval/merge.rs
   (coq/MergeMech/Model.v) refines the data-merge algebra, hence its exports obey the laws.
   Statements only; proofs in MergeMech/*.v.  [ceq] is the contract equality used by combine_dedup
   (any sound one), [cl] the choice of the map split_ref clones (any), [sat] the meaning of contracts. *)
From Coq Require Import List NArith.
Import ListNotations.
From NV Require Import Merge.Algebra Merge.ElabWf.
From NV Require Import MergeMech.OrdMap MergeMech.Model MergeMech.Abs MergeMech.RefineFields MergeMech.RefineSplit
  MergeMech.Refine MergeMech.RefineExport MergeMech.ElabRefine MergeMech.Laws.

Definition sound (ceq : cid -> cid -> bool) : Prop := forall a b, ceq a b = true -> a = b.

(* the three comparisons of merge_fields cover all pairs of priorities: unreachable!() is unreachable *)
Theorem C05_mech_unreachable_arm : forall p q, mp_eq p q = false -> mp_gt p q = false -> mp_gt q p = true.
Proof. exact mp_trichotomy. Qed.

Theorem C05_mech_merge_fields_refines : forall ceq, sound ceq -> forall f1 f2,
  exists g, merge_fields ceq f1 f2 = Ok g /\ absF g = mergeF merge (absF f1) (absF f2).
Proof. exact merge_fields_refines. Qed.

(* split_ref, whichever map it clones and however swap_remove reorders it *)
Theorem C05_mech_split_ref : forall (cl : nat -> nat -> bool) (m1 m2 : list (N * mfield)) L C R,
  NoDup (keys m1) -> NoDup (keys m2) -> split_ref cl m1 m2 = (L, C, R) ->
  NoDup (keys L) /\ NoDup (keys C) /\ NoDup (keys R) /\
  (forall k, im_get k L = specL (im_get k m1) (im_get k m2)) /\
  (forall k, im_get k C = specC (im_get k m1) (im_get k m2)) /\
  (forall k, im_get k R = specR (im_get k m1) (im_get k m2)).
Proof. exact (fun cl m1 m2 L C R => split_ref_spec cl m1 m2 L C R). Qed.

(* merge_refines: one step of merge on evaluated operands *)
Theorem C05_mech_merge_refines : forall ceq, sound ceq -> forall cl a b,
  mwfb a = true -> mwfb b = true -> is_value a = true -> is_value b = true ->
  match mech_merge ceq cl a b with
  | Ok w => abs w = merge (abs a) (abs b) /\ mwfb w = true /\ is_value w = true /\
            mdepth w <= S (Nat.max (mdepth a) (mdepth b))
  | Err _ => merge (abs a) (abs b) = DTop
  | TypeErr | Panic => False
  end.
Proof. exact mech_merge_refines. Qed.

(* evaluation of suspended merges preserves the abstraction; it fails exactly on pending conflicts;
   it never panics *)
Theorem C05_mech_whnf_refines : forall ceq, sound ceq -> forall cl v, mwfb v = true ->
  match whnf ceq cl v with
  | Ok w => abs w = abs v /\ mwfb w = true /\ is_value w = true /\ mdepth w <= mdepth v
  | Err _ => abs v = DTop
  | TypeErr | Panic => False
  end.
Proof. exact whnf_refines. Qed.

(* export_refines: Force + sorting serializer = the algebra's export of the abstraction *)
Theorem C05_mech_export_refines : forall sat ceq, sound ceq -> forall cl v, mwfb v = true ->
  export_json ceq cl sat v = canon (export sat (abs v)).
Proof. exact export_refines. Qed.

(* record literals built in written order abstract to the algebra's elaboration *)
Theorem C05_mech_elab_refines : forall e, wfE e = true ->
  exists v, melab e = Ok v /\ abs v = elab e /\ mwfb v = true.
Proof. exact melab_refines. Qed.

(* the laws, on the mechanism model's exports *)
Theorem C05_mech_export_comm : forall ceq, sound ceq -> forall cl sat a b, mwfb a = true -> mwfb b = true ->
  export_json ceq cl sat (MPending a b) = export_json ceq cl sat (MPending b a).
Proof. exact export_comm. Qed.

Theorem C05_mech_export_assoc : forall ceq, sound ceq -> forall cl sat a b c,
  mwfb a = true -> mwfb b = true -> mwfb c = true ->
  export_json ceq cl sat (MPending (MPending a b) c) = export_json ceq cl sat (MPending a (MPending b c)).
Proof. exact export_assoc. Qed.

Theorem C05_mech_export_idem : forall ceq, sound ceq -> forall cl sat a, mwfb a = true ->
  export_json ceq cl sat (MPending a a) = export_json ceq cl sat a.
Proof. exact export_idem. Qed.

Theorem C05_mech_export_unit : forall ceq, sound ceq -> forall cl sat a fs, mwfb a = true -> abs a = DRec fs ->
  export_json ceq cl sat (MPending a (MRec [])) = export_json ceq cl sat a /\
  export_json ceq cl sat (MPending (MRec []) a) = export_json ceq cl sat a.
Proof. exact export_unit. Qed.

(* the whole pipeline the extracted model runs: source expression -> mechanism value -> export *)
Theorem C05_mech_pipeline : forall ceq, sound ceq -> forall cl sat e, wfE e = true ->
  exists v, melab e = Ok v /\ mwfb v = true /\ export_json ceq cl sat v = canon (export sat (elab e)).
Proof. exact pipeline_export. Qed.
