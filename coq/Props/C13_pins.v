(* C13 — pinned statements: each Check fails to compile if the theorem's statement drifts. *)
From Coq Require Import List NArith ZArith Bool.
Import ListNotations.
From NV Require Import Codec.Escape Codec.Ident Codec.Num Codec.YamlScalar Codec.SourcePins Codec.Loaders.
From NV Require Import Gen.Keywords.
From NV Require Import Props.C13.

Check (C13_escape_roundtrip : forall s rest : str, lex_string (print_string s ++ rest) = LexStatic s rest).
Check (C13_lex_string_fuel_enough : forall inp : str, lex_string inp <> LexErr EFuel).
Check (C13_escape_is_single_pass : forall s : str, escape s = esc_pass s).
Check (C13_escape_is_generated_chain : forall s : str, apply_replaces escape_replaces s = Some (escape s)).
Check (C13_escape_char_is_generated_table : forall c : N, escape_char c = assoc_N escape_char_table c).
Check (C13_source_patterns_pinned :
  string_token_patterns = expected_string_token_patterns
  /\ quoting_regex_src = expected_quoting_regex /\ ident_regex_src = expected_ident_regex).
Check (C13_source_bodies_pinned :
  ident_quoted_body_src = expected_ident_quoted_body
  /\ escape_ascii_body_src = expected_escape_ascii_body /\ normalize_body_src = expected_normalize_body).
Check (C13_keyword_tables_agree : tables_ok printer_keywords lexer_reserved grammar_accepted = true).
Check (C13_ident_quoted_roundtrip : forall k rest : str, rest_ok rest = true ->
  key_of grammar_accepted (lex_key lexer_reserved (print_key printer_keywords k ++ rest)) = Some (k, rest)).
Check (C13_int_roundtrip : forall n : Z, (i64_min <= n <= u64_max)%Z ->
  int_token n = Some (dec_of_Z n) /\ resolve Plain None (dec_of_Z n) = RNum n 0
  /\ json_serde_int (dec_of_Z n) = SInt n /\ ((n <= i64_max)%Z -> toml_int (dec_of_Z n) = TInt n)).
Check (C13_int_outside_range_goes_through_f64 : forall n : Z,
  (n < i64_min \/ u64_max < n)%Z -> serialize_int n = NF64 /\ int_token n = None).
Check (C13_yaml_quoted_is_string : forall st tg v, st <> Plain -> resolve st tg v = RStr v).
Check (C13_yaml_plain_resolution : forall v : str,
  (resolve Plain None v = RStr v <-> nonstring_spelling v = false)
  /\ (resolve Plain None v = RErr <-> infnan_spelling v = true)).
Check (C13_yaml_string_survives_under_contract :
  forall (writes_plain : str -> bool) (quoted : style), quoted <> Plain -> emitter_meets_contract writes_plain ->
  forall s, resolve (if writes_plain s then Plain else quoted) None s = RStr s).
Check (C13_yaml_contract_necessary : forall s, nonstring_spelling s = true -> resolve Plain None s <> RStr s).
Check (C13_loaders_agree : forall t : jtree, in_scope t = true ->
  loader_run (events t) = Some (denote t) /\ serde_run (events t) = Some (denote t)).
Check (C13_from_sci_grammar : forall v : str, is_some (from_sci v) = sci_grammar v).
Check (C13_yaml_overflow_spelling_is_number : forall v : str, float_overflow_spelling v = true ->
  exists m e, from_sci v = Some (m, e) /\ overflows_f64 m e = true /\ resolve Plain None v = RNum m e).
Check (C13_yaml_overflow_class_refuted : exists v : str, float_overflow_spelling v = true /\ resolve Plain None v <> RStr v).
(* the definitions the statements are about are the executable ones (not re-bound) *)
Check (eq_refl : i64_min = (- 2 ^ 63)%Z).
Check (eq_refl : u64_max = (2 ^ 64 - 1)%Z).
Check (eq_refl : print_string [34%N] = [34; 92; 34; 34]%N).
