(* Pinned statements of the C09 theorems. *)
From Coq Require Import List String ZArith.
From NV Require Import Lazy.Syntax Lazy.Spec Lazy.SpecFacts Lazy.Laws Lazy.Abs Lazy.Ctx
  Lazy.FieldPath Lazy.Need Lazy.NeedRef Lazy.Refute Props.C09.
Import ListNotations.

Check (C09_fuel_monotone : forall fl n m rho t r,
  run fl n rho t = r -> r <> OutOfFuel -> n <= m -> run fl m rho t = r).
Check (C09_let_abs : forall fl rho x e b,
  nocap (fv e) x b = true -> run_equiv fl rho (Let x e b) rho (subst x e b)).
Check (C09_beta_abs : forall fl rho x e b,
  nocap (fv e) x b = true -> run_equiv fl rho (App (Lam x b) e) rho (subst x e b)).
Check (C09_field_abs : forall fl rho f e,
  ~ In f (fv e) -> run_equiv fl rho (Get (Rec [(f, e)]) f) rho e).
Check (C09_elem_abs : forall fl rho e, run_equiv fl rho (At (Num 0) (Arr [e])) rho e).
Check (C09_import_abs : forall fl rho f e,
  lookup f fl = Some e -> fv e = [] -> run_equiv fl rho (Import f) rho e).
Check (C09_ctx_abs : forall fl t t' rho, prw fl t t' -> run_equiv fl rho t rho t').
Check (C09_seq_ok : forall fl rho v e k w,
  eval fl k rho v = Ok w -> run_equiv fl rho (Seq v e) rho e).
Check (C09_field_extraction : forall fl n rho e path d d',
  run fl n rho e = Ok d -> lookup_path path d = Some d' ->
  (exists m, extract fl m rho e path = Ok d') /\ (exists m, run fl m rho (gets e path) = Ok d')).
Check (C09_field_extraction_lazy : forall fl path rho e d,
  (exists n, run fl n rho (gets e path) = Ok d) <-> (exists m, extract fl m rho e path = Ok d)).
Check (C09_need_refines_name : forall fl n t r h,
  forallb (fun p => wft (snd p)) fl = true -> wft t = true ->
  runN fl Good n t = (r, h) -> r <> OutOfFuel ->
  (r <> Err InfiniteRec -> exists m, run fl m [] t = r) /\
  (r = Err InfiniteRec -> forall m, run fl m [] t = OutOfFuel)).
Check (C09_need_extract_refines_name : forall fl n t path r h,
  forallb (fun p => wft (snd p)) fl = true -> wft t = true ->
  extractN fl Good n t path = (r, h) -> r <> OutOfFuel ->
  (r <> Err InfiniteRec -> exists m, extract fl m [] t path = r) /\
  (r = Err InfiniteRec -> forall m, extract fl m [] t path = OutOfFuel)).
Check (C09_need_wrongcell_refuted : exists t, wft t = true /\ acyclic t = true /\ ~ refines_on [] WrongCell t).
Check (C09_need_callerenv_refuted : exists t, wft t = true /\ acyclic t = true /\ ~ refines_on [] CallerEnv t).
(* the definitions the statements unfold to *)
Check (eq_refl : run_equiv = fun fl rho1 t1 rho2 t2 =>
  oequiv (fun n => run fl n rho1 t1) (fun n => run fl n rho2 t2)).
Check (eq_refl : @oequiv = fun A f g => oapprox eq f g /\ oapprox eq g f).
Check (eq_refl : @oapprox = fun A B R f g =>
  forall n, f n <> OutOfFuel -> exists m, orel R (f n) (g m)).
Check (eq_refl : refines_on = fun fl md t =>
  forall n r h, runN fl md n t = (r, h) -> r <> OutOfFuel -> r <> Err InfiniteRec ->
    exists m, run fl m [] t = r).
