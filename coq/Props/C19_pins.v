(* Pinned statements of the C19 theorems: this file fails to compile if a statement changes. *)
From Coq Require Import List Arith.
Import ListNotations.
From NV Require Import Lsp.World Lsp.Spec Lsp.Witness Props.C19.

Check (C19_closed_buffer_refuted :
  exists rank disk h w ds,
    hist_respects rank disk h /\ client_ok no_bufs h = true /\
    run cfg_code idpick disk 50 h = Ok w /\
    w_pub w 0 = Some ds /\ live_id w 0 <> None /\
    ~ same_diags ds (expect (cur disk (bufs_after no_bufs h)) 50 0)).

Check (C19_cycle_order_refuted :
  exists h1 h2 w1 w2 d1 d2,
    (forall p, bufs_after no_bufs h1 p = bufs_after no_bufs h2 p) /\
    run cfg_code idpick nodisk 50 h1 = Ok w1 /\ run cfg_code idpick nodisk 50 h2 = Ok w2 /\
    w_pub w1 0 = Some d1 /\ w_pub w2 0 = Some d2 /\ ~ same_diags d1 d2).

Check (C19_self_import_overflows_50 :
  run cfg_code idpick nodisk 50 [Open 0 (mkC 1 [0] SOk)] = Crash Overflow).
