(* Pinned statements of the C19 theorems: this file fails to compile if a statement changes. *)
From Coq Require Import List Arith Permutation.
Import ListNotations.
From NV Require Import Lsp.World Lsp.Spec Lsp.Inv Lsp.Witness Lsp.SelfImport Lsp.Main Props.C19.

Check (C19_no_crash : forall cf pick disk rank fuel h, good pick disk rank fuel h ->
  exists w, run cf pick disk fuel h = Ok w).

Check (C19_analysis_fresh : forall cf pick disk rank fuel h w, good pick disk rank fuel h ->
  run cf pick disk fuel h = Ok w ->
  forall p f a, live_id w p = Some f -> w_an w f = Some a ->
    final_docs disk h p = Some (a_src a) /\ a_state a <> Typechecking /\
    (a_state a = Typechecked ->
       same_diags (a_tdiags a) (expect_t (final_docs disk h) fuel p) /\ NoDup (a_tdiags a))).

Check (C19_open_analysed : forall cf pick disk rank fuel h w, good pick disk rank fuel h ->
  run cf pick disk fuel h = Ok w ->
  forall p, bufs_after no_bufs h p <> None ->
    exists f a, live_id w p = Some f /\ w_an w f = Some a /\ a_state a = Typechecked).

Check (C19_answers_history_independent :
  forall cf pick1 pick2 disk rank fuel h1 h2 w1 w2,
  good pick1 disk rank fuel h1 -> good pick2 disk rank fuel h2 ->
  (forall p, bufs_after no_bufs h1 p = bufs_after no_bufs h2 p) ->
  run cf pick1 disk fuel h1 = Ok w1 -> run cf pick2 disk fuel h2 = Ok w2 ->
  forall p,
    (bufs_after no_bufs h1 p <> None -> exists a1 a2, view w1 p = Some a1 /\ view w2 p = Some a2) /\
    (forall a1 a2, view w1 p = Some a1 -> view w2 p = Some a2 ->
       a_src a1 = a_src a2 /\
       (a_state a1 = Typechecked -> a_state a2 = Typechecked -> same_diags (a_tdiags a1) (a_tdiags a2)))).

Check (C19_no_dup_no_stale : forall cf pick disk rank fuel h w, good pick disk rank fuel h ->
  (purge_closed cf = true \/ no_close h) ->
  run cf pick disk fuel h = Ok w ->
  (forall p ds, w_pub w p = Some ds -> live_id w p <> None ->
     same_diags ds (expect (final_docs disk h) fuel p) /\ NoDup ds) /\
  (forall p, bufs_after no_bufs h p <> None -> w_pub w p <> None)).

Check (C19_rev_imports_complete : forall cf pick disk rank fuel h w, good pick disk rank fuel h ->
  run cf pick disk fuel h = Ok w ->
  forall f a q, w_an w f = Some a -> a_state a = Typechecked ->
    In q (fst (reach (final_docs disk h) (c_imports (a_src a)))) ->
    exists t, live_id w q = Some t /\ w_an w t <> None /\ In f (w_rev w t) /\ In t (w_imports w f)).

Check (C19_failed_imports_complete : forall cf pick disk rank fuel h w, good pick disk rank fuel h ->
  run cf pick disk fuel h = Ok w ->
  forall f a q, w_an w f = Some a -> a_state a = Typechecked ->
    snd (reach (final_docs disk h) (c_imports (a_src a))) = Some q -> In f (w_failed w q)).

Check (C19_good_example : good idpick disk1 rank1 2 hist1).

Check (C19_closed_buffer_refuted :
  exists rank disk h w ds,
    hist_respects rank disk h /\ client_ok no_bufs h = true /\
    run cfg_code idpick disk 50 h = Ok w /\
    w_pub w 0 = Some ds /\ live_id w 0 <> None /\
    ~ same_diags ds (expect (cur disk (bufs_after no_bufs h)) 50 0)).

Check (C19_cycle_order_refuted :
  exists h1 h2 w1 w2 d1 d2,
    (forall p, bufs_after no_bufs h1 p = bufs_after no_bufs h2 p) /\
    run cfg_code idpick nodisk 50 h1 = Ok w1 /\ run cfg_code idpick nodisk 50 h2 = Ok w2 /\
    w_pub w1 0 = Some d1 /\ w_pub w2 0 = Some d2 /\ ~ same_diags d1 d2).

Check (C19_self_import_diverges :
  forall fuel, run cfg_code idpick nodisk fuel [Open 0 (mkC 1 [0] SOk)] = Crash Overflow).

Check (C19_closed_buffer_patched :
  exists w, run cfg_patched idpick disk1 50 hist1 = Ok w /\ w_pub w 0 = Some []).

Check (C19_self_import_patched :
  exists w, run cfg_patched idpick nodisk 50 [Open 0 (mkC 1 [0] SOk)] = Ok w /\ w_pub w 0 = Some []).
