(* C11 — property theorems.  Only statements closed by [exact]; proofs live in Seal/*.v. *)
From Coq Require Import List String ZArith Bool.
From NV Require Import Seal.Syntax Seal.Eval Seal.TableTypes Seal.TableCheck Seal.Guard Seal.Typing
     Seal.LogRel Seal.Fundamental Seal.Erasure Seal.Export Seal.Tail Seal.Keys Seal.Variants.
Import ListNotations.
Open Scope string_scope.

(* ---- T0, translator-tied: the table observed on the real interpreter (Gen/SealTable.v, regenerated on
   every run from the primop enums of core/src/term/mod.rs) *)
Theorem C11_seal_guard_generated : seal_guard_statement.
Proof. exact seal_guard_generated. Qed.

(* ---- T0: a sealed value in a strict position of any eliminator other than unseal-with-its-key / seq *)
Theorem C11_inspect_blames :
  forall n r e k t l F,
    eval cfg_real n r e = Ok (VSealed k t l) ->
    frame_ok F n r ->
    eval cfg_real (S n) r (plug F e) = Err (Blame (lpol l)).
Proof. exact inspect_blames. Qed.

Theorem C11_inspect_blames_contract :
  forall n r x F T arg,
    first_strict F ->
    propagating (fst (compile [("a", VCType 0)] 1 T)) l1 ->
    eval cfg_real (10 + n) r
      (App (Ann (TForall "a" KType (TArrow (TVar "a") T)) (Lam x (plug F (Var x)))) arg)
    = Err (Blame true).
Proof. exact inspect_blames_contract. Qed.

Theorem C11_unseal_other_key_blames :
  forall n r e k k' t l l',
    eval cfg_real n r e = Ok (VSealed k t l) -> k' <> k ->
    eval cfg_real (S n) r (Unseal k' l' e) = Err (Blame (lpol l')).
Proof. exact unseal_other_key_blames. Qed.

Theorem C11_unseal_right_key :
  forall n r e k t l l',
    eval cfg_real n r e = Ok (VSealed k t l) ->
    eval cfg_real (S n) r (Unseal k l' e) = force cfg_real n t.
Proof. exact unseal_right_key. Qed.

Theorem C11_seq_sees_through :
  forall n r a b k t l v,
    eval cfg_real (S (S n)) r a = Ok (VSealed k t l) ->
    force cfg_real (S (S n)) t = Ok v -> unsealed v ->
    eval cfg_real (S (S (S n))) r (Seq a b) = eval cfg_real (S (S n)) r b.
Proof. exact seq_sees_through. Qed.

Theorem C11_export_sealed_blames :
  forall ev m k t l, deep ev (S m) (VSealed k t l) = Err (Blame (lpol l)).
Proof. exact export_sealed_blames. Qed.

(* ---- T0: parametric_erasure.
   Full statement (both directions of the seal-erasure relation); type-checked, not proved.  What the
   proved direction leaves open is only a bare run that never produces an outcome
   (C11_erasure_both_terminate): *)
Definition C11_full_parametric_erasure : Prop :=
  forall x e T k l0 U d0 t,
    passes_only x e T -> is_svar U = false -> lift (OR d0 U) t t ->
    let sealed := Th [(x, Th [("%v", t)] (SealT k l0 (Var "%v")))] e in
    let bare := Th [(x, t)] e in
    lift (OR (fun _ => MkInt k (OR d0 U) (fun _ _ => False)) T) sealed bare
    /\ (is_svar T = false ->
        (* converse; at a quantified type the sealed run stops at the seal without forcing its content,
           so the converse is only meaningful at the other types *)
        forall n r1, force cfg_real n sealed = r1 -> r1 <> OutOfFuel ->
          exists m r2, force cfg_real m bare = r2 /\ OR (fun _ => MkInt k (OR d0 U) (fun _ _ => False)) T r1 r2).

(* Proved: the direction "whatever the bare run produces, the sealed run produces a related outcome"
   (no spurious blame, same results), for every term accepted by the syntactic criterion. *)
Theorem C11_parametric_erasure_partial :
  forall x e T k l0 U d0 t,
    passes_only x e T -> is_svar U = false -> lift (OR d0 U) t t ->
    lift (OR (fun _ => MkInt k (OR d0 U) (fun _ _ => False)) T)
         (Th [(x, Th [("%v", t)] (SealT k l0 (Var "%v")))] e)
         (Th [(x, t)] e).
Proof. exact parametric_erasure. Qed.

(* evaluation being a function, [lift] leaves open only bare runs that never produce an outcome: *)
Theorem C11_erasure_both_terminate :
  forall (O : orel) t1 t2 n1 n2 r1 r2,
    (forall a b, O a b -> a <> OutOfFuel) ->
    lift O t1 t2 ->
    force cfg_real n1 t1 = r1 -> r1 <> OutOfFuel -> force cfg_real n2 t2 = r2 -> r2 <> OutOfFuel -> O r1 r2.
Proof. exact lift_both_terminate. Qed.

Theorem C11_fundamental :
  forall d e, wf_int d ->
    forall G T, has_ty G e T -> forall p1 p2, env_rel d G p1 p2 -> lift (OR d T) (Th p1 e) (Th p2 e).
Proof. exact fundamental. Qed.

Theorem C11_parametric_transparent :
  forall nv keys sg d0 T f p,
    scoped nv T -> rows_ok sg T -> (forall i, is_svar (sg i) = false) -> has_ty [] f T ->
    lift (OR d0 (inst sg T))
         (Th p (Chk (foralls (var_keys keys nv) (sty_ctr keys T)) lbl0 f))
         (Th p f).
Proof. exact parametric_transparent. Qed.

Theorem C11_parametric_same_result :
  forall nv keys sg a b f arg p,
    scoped nv (SFun a b) -> rows_ok sg (SFun a b) -> (forall i, is_svar (sg i) = false) ->
    has_ty [] f (SFun a b) -> has_ty [] arg (inst sg a) -> is_base (inst sg b) = true ->
    forall n r, eval cfg_real n p (App f arg) = r -> r <> OutOfFuel ->
      exists m, eval cfg_real m p (App (Chk (foralls (var_keys keys nv) (sty_ctr keys (SFun a b))) lbl0 f) arg) = r.
Proof. exact parametric_same_result. Qed.

Theorem C11_parametric_annotation_same_result2 :
  forall sg a1 a2 b f arg1 arg2 p,
    scoped 2 (SFun a1 (SFun a2 b)) -> norow (SFun a1 (SFun a2 b)) -> (forall i, is_svar (sg i) = false) ->
    has_ty [] f (SFun a1 (SFun a2 b)) -> has_ty [] arg1 (inst sg a1) -> has_ty [] arg2 (inst sg a2) ->
    is_base (inst sg b) = true ->
    forall n r, eval cfg_real n p (App (App f arg1) arg2) = r -> r <> OutOfFuel ->
      exists m, eval cfg_real m p
                  (App (App (Ann (TForall "a" KType (TForall "b" KType (sty_ty names2 (SFun a1 (SFun a2 b))))) f) arg1) arg2) = r.
Proof. exact parametric_annotation_same_result2. Qed.

(* related computations at a first-order type export the same data (values and errors) *)
Theorem C11_export_same :
  forall d T t1 t2, data_ty T -> lift (OR d T) t1 t2 ->
    forall n r, export n t2 = r -> r <> OutOfFuel -> exists m, export m t1 = r.
Proof. exact export_same. Qed.

(* in terms of what `nickel export` prints: `(f | forall a b. T) arg1 arg2` vs `f arg1 arg2` *)
Theorem C11_parametric_annotation_same_export2 :
  forall sg a1 a2 b f arg1 arg2,
    scoped 2 (SFun a1 (SFun a2 b)) -> norow (SFun a1 (SFun a2 b)) -> (forall i, is_svar (sg i) = false) ->
    has_ty [] f (SFun a1 (SFun a2 b)) -> has_ty [] arg1 (inst sg a1) -> has_ty [] arg2 (inst sg a2) ->
    data_ty (inst sg b) ->
    forall n r, run_data cfg_real n (App (App f arg1) arg2) = r -> r <> OutOfFuel ->
      exists m, run_data cfg_real m
                  (App (App (Ann (TForall "a" KType (TForall "b" KType (sty_ty names2 (SFun a1 (SFun a2 b))))) f) arg1) arg2) = r.
Proof. exact parametric_annotation_same_export2. Qed.

(* one argument, any quantifier prefix, type AND record-row variables: the exported result is the same.
   For a row-polymorphic signature this is the end-to-end form of tail_preserved: a function that only
   passes the record around (returns it, projects listed fields) gets the sealed tail back intact. *)
Theorem C11_parametric_same_export :
  forall nv keys sg a b f arg,
    scoped nv (SFun a b) -> rows_ok sg (SFun a b) -> (forall i, is_svar (sg i) = false) ->
    has_ty [] f (SFun a b) -> has_ty [] arg (inst sg a) -> data_ty (inst sg b) ->
    forall n r, run_data cfg_real n (App f arg) = r -> r <> OutOfFuel ->
      exists m, run_data cfg_real m (App (Chk (foralls (var_keys keys nv) (sty_ctr keys (SFun a b))) lbl0 f) arg) = r.
Proof. exact parametric_same_export. Qed.

(* ---- T1: record-row tails *)
Theorem C11_tail_guarded :
  forall n r e fs k l tfs t o,
    eval cfg_real n r e = Ok (VRec fs (RSeal k l tfs t)) ->
    touches_tail o fs tfs ->
    eval cfg_real (S n) r (tail_op_tm o e) = Err Syntax.TailAccess.
Proof. exact tail_guarded. Qed.

Theorem C11_tail_sealed :
  forall cf fs k excl l vfs vt p,
    lookup_tyvar k (ltenv l) = Some p -> p <> lpol l ->
    (forall x c, In (x, c) fs -> mem x vfs = true) ->
    (forall x t, In (x, t) (extra_of fs vfs) -> mem_str x excl = false) ->
    chk_record cf fs (CTVar k excl) l (VRec vfs vt)
    = Ok (VRec (center_of fs l vfs) (RSeal k (flip l) (extra_of fs vfs) vt)).
Proof. exact tail_sealed. Qed.

Theorem C11_tail_preserved :
  forall cf fs k excl l vfs l0 tfs vt,
    lookup_tyvar k (ltenv l) = Some (lpol l) ->
    (forall x c, In (x, c) fs -> mem x vfs = true) ->
    extra_of fs vfs = [] ->
    chk_record cf fs (CTVar k excl) l (VRec vfs (RSeal k l0 tfs vt))
    = Ok (VRec (extend_fields (center_of fs l vfs) tfs) vt).
Proof. exact tail_unsealed. Qed.

Theorem C11_nested_tail_preserved :
  forall cf fs k excl ln lp vfs vt vfs' p,
    lookup_tyvar k (ltenv ln) = Some p -> p <> lpol ln ->
    lookup_tyvar k (ltenv lp) = Some (lpol lp) ->
    (forall x c, In (x, c) fs -> mem x vfs = true) -> extra_of fs vfs = [] ->
    (forall x c, In (x, c) fs -> mem x vfs' = true) -> extra_of fs vfs' = [] ->
    chk_record cf fs (CTVar k excl) ln (VRec vfs vt)
      = Ok (VRec (center_of fs ln vfs) (RSeal k (flip ln) [] vt))
    /\ chk_record cf fs (CTVar k excl) lp (VRec vfs' (RSeal k (flip ln) [] vt))
      = Ok (VRec (center_of fs lp vfs') vt).
Proof. exact nested_tail_preserved. Qed.

Theorem C11_tail_tampered_blames :
  forall cf fs k excl l vfs vt,
    lookup_tyvar k (ltenv l) = Some (lpol l) ->
    (forall x c, In (x, c) fs -> mem x vfs = true) ->
    (extra_of fs vfs <> [] \/ vt = RNone \/ (exists k' l0 tfs vt', vt = RSeal k' l0 tfs vt' /\ k' <> k)) ->
    chk_record cf fs (CTVar k excl) l (VRec vfs vt) = Err (Blame (lpol l)).
Proof. exact tail_tampered_blames. Qed.

Theorem C11_excluded_field_blames :
  forall cf fs k excl l vfs vt p x t,
    lookup_tyvar k (ltenv l) = Some p -> p <> lpol l ->
    (forall y c, In (y, c) fs -> mem y vfs = true) ->
    In (x, t) (extra_of fs vfs) -> mem_str x excl = true ->
    chk_record cf fs (CTVar k excl) l (VRec vfs vt) = Err (Blame (lpol l)).
Proof. exact excluded_field_blames. Qed.

(* ---- T2: nested / higher-rank quantifiers of one contract have pairwise distinct keys *)
Theorem C11_nested_foralls_have_distinct_keys :
  forall t, alias_free t -> NoDup (fkeys (contract_of t)).
Proof. exact nested_foralls_have_distinct_keys. Qed.

(* ---- deliberately unsound variants, and the two known findings about key freshness *)
Theorem C11_noflip_variant_refuted : ~ enforces (MkCfg false true false).
Proof. exact noflip_variant_refuted. Qed.

Theorem C11_seethrough_variant_refuted : ~ enforces (MkCfg true false false).
Proof. exact seethrough_variant_refuted. Qed.

(* deduplicating sealing contracts is unsound (the defect fixed by 88c71d0) *)
Theorem C11_dedup_variant_refuted :
  run_line cfg_dedup 60 own_result = "OK [#1,#2]" /\ run_line cfg_real 60 own_result = "ERR Blame+".
Proof. exact dedup_variant_refuted. Qed.

Theorem C11_array_contract_twice_seals_twice :
  forall n k l t p,
    lookup_tyvar k (ltenv l) = Some p -> p <> lpol l ->
    let once := wrap_elem (CVar k) l t in
    let twice := wrap_elem (CVar k) l once in
    force cfg_real (S n) twice = Ok (VSealed k (Th [("%e", once)] (Var "%e")) (flip l))
    /\ force cfg_real (S (S n)) (Th [("%e", once)] (Var "%e"))
       = Ok (VSealed k (Th [("%e", t)] (Var "%e")) (flip l)).
Proof. exact array_contract_twice_seals_twice. Qed.

Theorem C11_cross_contract_keys_refuted :
  eval cfg_real 30 [] launder = Ok (VNum 2) /\ ~ blamed_outcome (eval cfg_real 30 [] launder).
Proof. exact cross_contract_keys_refuted. Qed.

Theorem C11_per_instantiation_keys_refuted :
  eval cfg_real 40 [] two_calls = Ok (VNum 1) /\ ~ blamed_outcome (eval cfg_real 40 [] two_calls).
Proof. exact per_instantiation_keys_refuted. Qed.
