(* C11 — property theorems.  Only statements closed by [exact]; proofs live in Seal/*.v. *)
From Coq Require Import List String ZArith Bool.
From NV Require Import Seal.Syntax Seal.Eval Seal.TableTypes Seal.TableCheck Seal.Guard.
Import ListNotations.
Open Scope string_scope.

(* T0, translator-tied: the table observed on the real interpreter (Gen/SealTable.v, regenerated on
   every run from the primop enums of core/src/term/mod.rs) *)
Theorem C11_seal_guard_generated : seal_guard_statement.
Proof. exact seal_guard_generated. Qed.

(* T0: a sealed value in a strict position of any eliminator other than unseal-with-its-key / seq *)
Theorem C11_inspect_blames :
  forall n r e k t l F,
    eval cfg_real n r e = Ok (VSealed k t l) ->
    frame_ok F n r ->
    eval cfg_real (S n) r (plug F e) = Err (Blame (lpol l)).
Proof. exact inspect_blames. Qed.

Theorem C11_inspect_blames_contract :
  forall n r x F T arg,
    first_strict F ->
    propagating (fst (compile [("a", VCType 0)] 1 T)) l1 ->
    eval cfg_real (10 + n) r
      (App (Ann (TForall "a" KType (TArrow (TVar "a") T)) (Lam x (plug F (Var x)))) arg)
    = Err (Blame true).
Proof. exact inspect_blames_contract. Qed.

Theorem C11_unseal_other_key_blames :
  forall n r e k k' t l l',
    eval cfg_real n r e = Ok (VSealed k t l) -> k' <> k ->
    eval cfg_real (S n) r (Unseal k' l' e) = Err (Blame (lpol l')).
Proof. exact unseal_other_key_blames. Qed.

Theorem C11_unseal_right_key :
  forall n r e k t l l',
    eval cfg_real n r e = Ok (VSealed k t l) ->
    eval cfg_real (S n) r (Unseal k l' e) = force cfg_real n t.
Proof. exact unseal_right_key. Qed.

Theorem C11_seq_sees_through :
  forall n r a b k t l v,
    eval cfg_real (S (S n)) r a = Ok (VSealed k t l) ->
    force cfg_real (S (S n)) t = Ok v -> unsealed v ->
    eval cfg_real (S (S (S n))) r (Seq a b) = eval cfg_real (S (S n)) r b.
Proof. exact seq_sees_through. Qed.

Theorem C11_export_sealed_blames :
  forall ev m k t l, deep ev (S m) (VSealed k t l) = Err (Blame (lpol l)).
Proof. exact export_sealed_blames. Qed.
