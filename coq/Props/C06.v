(* C06 — merging follows the documented priority and metadata rules.  Statements only. *)
From Coq Require Import List QArith.
Import ListNotations.
From NV Require Import Merge.Algebra Merge.Sorted Merge.Prio Merge.Rules.
Close Scope Q_scope.
Open Scope bool_scope.

(* priorities: the canonical order used by the algebra IS MergePriority::cmp *)
Theorem C06_priority_order_is_cmp : forall p q, pcmp (pnorm p) (pnorm q) = pcmp_src p q.
Proof. exact pnorm_cmp. Qed.
Theorem C06_default_lowest : forall q, pltb PBot (PNum q) = true /\ pltb PBot PTop = true.
Proof. exact prio_default_lowest. Qed.
Theorem C06_force_highest : forall q, pltb (PNum q) PTop = true /\ pltb PBot PTop = true.
Proof. exact prio_force_highest. Qed.
Theorem C06_numeric_order : forall a b, pltb (PNum a) (PNum b) = true <-> (a < b)%Q.
Proof. exact prio_numeric. Qed.
Theorem C06_no_annotation_is_zero : pnorm SNeutral = pnorm (SNum 0%Q).
Proof. exact prio_neutral_is_zero. Qed.

(* a field defined on both sides *)
Theorem C06_higher_priority_wins_left : forall md p1 p2 o1 o2 h1 h2 c1 c2 t1 t2,
  pltb p2 p1 = true ->
  mergeF md (mkF p1 o1 h1 c1 (Some t1)) (mkF p2 o2 h2 c2 (Some t2)) =
  mkF p1 (o1 && o2) (h1 || h2) (cs_union c1 c2) (Some t1).
Proof. exact rule_higher_left. Qed.
Theorem C06_higher_priority_wins_right : forall md p1 p2 o1 o2 h1 h2 c1 c2 t1 t2,
  pltb p1 p2 = true ->
  mergeF md (mkF p1 o1 h1 c1 (Some t1)) (mkF p2 o2 h2 c2 (Some t2)) =
  mkF p2 (o1 && o2) (h1 || h2) (cs_union c1 c2) (Some t2).
Proof. exact rule_higher_right. Qed.
Theorem C06_equal_priority_recurses : forall md p o1 o2 h1 h2 c1 c2 t1 t2,
  mergeF md (mkF p o1 h1 c1 (Some t1)) (mkF p o2 h2 c2 (Some t2)) =
  mkF p (o1 && o2) (h1 || h2) (cs_union c1 c2) (Some (md t1 t2)).
Proof. exact rule_equal_recurse. Qed.
Theorem C06_equal_atoms_merge : forall x, merge (DAtom x) (DAtom x) = DAtom x.
Proof. exact rule_equal_atoms. Qed.
Theorem C06_unequal_atoms_conflict : forall x y, x <> y -> merge (DAtom x) (DAtom y) = DTop.
Proof. exact rule_unequal_atoms. Qed.
Theorem C06_optional_iff_both : forall md f1 f2, f_opt (mergeF md f1 f2) = f_opt f1 && f_opt f2.
Proof. exact rule_optional_iff_both. Qed.
Theorem C06_hidden_if_either : forall md f1 f2, f_hid (mergeF md f1 f2) = f_hid f1 || f_hid f2.
Proof. exact rule_hidden_if_either. Qed.
Theorem C06_one_sided_fields_kept : forall md k l1 l2, ssorted l1 -> ssorted l2 ->
  lookup k (merge_assoc md l1 l2) =
  match lookup k l1, lookup k l2 with
  | Some f1, Some f2 => Some (mergeF md f1 f2)
  | Some f1, None => Some f1
  | None, Some f2 => Some f2
  | None, None => None
  end.
Proof. exact rule_record_fields. Qed.

(* export *)
Theorem C06_export_record : forall sat n fs,
  exportD sat (S n) (DRec fs) =
  fold_right (fun kf acc => combine (fst kf) (field_result sat n (snd kf)) acc) (inl (JObj [])) fs.
Proof. exact export_rec. Qed.
Theorem C06_export_conflict : forall sat n, exportD sat n DTop = inr conflict_errs.
Proof. exact export_top. Qed.
