(* C02 — type annotations are enforced at the typed/untyped boundary with correct blame; the
   static contract is the full contract minus checks that can only blame the typed side.
   Only statements closed by [exact]; definitions in Contract/{Data,Gen,Apply,Checks}.v, proofs
   in Contract/{CheckProofs,GenProofs}.v. *)
From Coq Require Import List String.
From NV Require Import Contract.Data Contract.Gen Contract.Apply Contract.Checks
  Contract.CheckProofs Contract.GenProofs Contract.GenChecksProofs.
Import ListNotations.

(* Type::simplify never drops a check that can blame the untyped side, for every type *)
Theorem C02_simplify_keeps_negative : forall T, wk T [] = true ->
  negs (checks (static_type T) Pos []) = negs (checks T Pos []).
Proof. exact simplify_keeps_negative. Qed.

(* ... and never introduces a check *)
Theorem C02_simplify_adds_no_check : forall T, wk T [] = true ->
  incl (checks (static_type T) Pos []) (checks T Pos []).
Proof. exact simplify_adds_no_check. Qed.

(* the same, under binders and at either polarity (the induction-loaded form) *)
Theorem C02_simplify_checks : forall T kenv, wk T kenv = true ->
  forall sv p es eo, inv sv es eo kenv ->
  negs (checks (simplify T sv p) p es) = negs (checks T p eo) /\
  incl (checks (simplify T sv p) p es) (checks T p eo).
Proof. exact simplify_checks. Qed.

(* data handed over by the untyped side (negative position): blamed negatively iff not a member *)
Theorem C02_boundary_data : forall T v, first_order T = true -> wf_ty T = true ->
  (member T v = true ->
     exists v', check_pol Neg T v = Ok v' /\ dv_equiv v' v /\ check_pol Neg T v' = Ok v') /\
  (member T v = false -> check_pol Neg T v = Err (Blame Neg)).
Proof.
  exact (fun T v Hfo Hwf =>
    conj (fun Hm =>
            match proj2 (check_pol_sound_complete T Hfo Hwf Neg v) Hm with
            | ex_intro _ v' Hv' =>
                ex_intro _ v' (conj Hv' (conj (check_pol_identity T Hfo Hwf Neg v v' Hv')
                                              (check_pol_idempotent T Hfo Hwf Neg v v' Hv')))
            end)
         (check_pol_fail_is_blame T Hfo Hwf Neg v)).
Qed.

(* a function [g] annotated [A -> B] and used by untyped code *)
Theorem C02_boundary_arrow : forall A B, first_order A = true -> first_order B = true ->
  wf_ty A = true -> wf_ty B = true -> forall g,
  exists w, wrap_full (TArrow A B) g = Ok w /\
    (forall x, member A x = false -> w x = Err (Blame Neg)) /\
    (forall x, member A x = true ->
       exists x', dv_equiv x' x /\ member A x' = true /\
         (forall e, g x' = Err e -> w x = Err e) /\
         (forall r, g x' = Ok r ->
            (member B r = true -> exists r', w x = Ok r' /\ dv_equiv r' r) /\
            (member B r = false -> w x = Err (Blame Pos)))).
Proof. exact boundary_arrow. Qed.

Theorem C02_boundary_arrow_static : forall A B, first_order A = true -> first_order B = true ->
  wf_ty A = true -> wf_ty B = true -> forall g, no_excl B = true ->
  exists w, wrap_static (TArrow A B) g = Ok w /\
    (forall x, member A x = false -> w x = Err (Blame Neg)) /\
    (forall x, member A x = true ->
       exists x', dv_equiv x' x /\ member A x' = true /\ w x = g x').
Proof. exact (fun A B HA HB WA _ g NB => boundary_arrow_static A B HA HB WA g NB). Qed.

(* second sentence of the property, first-order arrows: for an implementation that respects its
   type the static contract is observationally the full contract *)
Theorem C02_static_equiv_arrow_partial : forall A B, first_order A = true -> first_order B = true ->
  wf_ty A = true -> wf_ty B = true -> forall g, no_excl B = true ->
  (forall x r, member A x = true -> g x = Ok r -> member B r = true) ->
  exists wf ws, wrap_full (TArrow A B) g = Ok wf /\ wrap_static (TArrow A B) g = Ok ws /\
    forall x, outcome_equiv (wf x) (ws x).
Proof. exact static_equiv_arrow. Qed.

Theorem C02_static_equiv_data : forall T v,
  first_order T = true -> wf_ty T = true -> no_excl T = true -> member T v = true ->
  contract_static_of T = Some CDyn /\ exists v', check T v = Ok v' /\ dv_equiv v' v.
Proof. exact static_equiv_data. Qed.

(* the checks read off the GENERATED contract skeleton (one clause per internals.ncl function) are
   the checks read off the type: the statements above are statements about what Type::contract and
   Type::contract_static generate *)
Theorem C02_cchecks_subcontract : forall T vars p sy c sy' env kenv,
  subcontract T vars p sy = Some (c, sy') -> J vars env kenv sy ->
  sy <= sy' /\ cchecks c p kenv = map erase (checks T p env).
Proof. exact cchecks_subcontract. Qed.

Theorem C02_static_contract_keeps_negative : forall T c cs, wk T [] = true ->
  contract_of T = Some c -> contract_static_of T = Some cs ->
  negs (cchecks cs Pos []) = negs (cchecks c Pos []).
Proof. exact static_contract_keeps_negative. Qed.
