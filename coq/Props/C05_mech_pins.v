From Coq Require Import List ZArith QArith.
Import ListNotations.
From NV Require Import Merge.Algebra Merge.ElabWf.
From NV Require Import MergeMech.OrdMap MergeMech.Model MergeMech.Abs MergeMech.RefineSplit MergeMech.Refine MergeMech.Laws.
From NV Require Import Props.C05_mech.
Close Scope Q_scope.
Check (C05_mech_unreachable_arm : forall p q, mp_eq p q = false -> mp_gt p q = false -> mp_gt q p = true).
Check (C05_mech_merge_fields_refines : forall ceq, sound ceq -> forall f1 f2,
  exists g, merge_fields ceq f1 f2 = Ok g /\ absF g = mergeF merge (absF f1) (absF f2)).
Check (C05_mech_split_ref : forall (cl : nat -> nat -> bool) (m1 m2 : list (N * mfield)) L C R,
  NoDup (keys m1) -> NoDup (keys m2) -> split_ref cl m1 m2 = (L, C, R) ->
  NoDup (keys L) /\ NoDup (keys C) /\ NoDup (keys R) /\
  (forall k, im_get k L = specL (im_get k m1) (im_get k m2)) /\
  (forall k, im_get k C = specC (im_get k m1) (im_get k m2)) /\
  (forall k, im_get k R = specR (im_get k m1) (im_get k m2))).
Check (C05_mech_merge_refines : forall ceq, sound ceq -> forall cl a b,
  mwfb a = true -> mwfb b = true -> is_value a = true -> is_value b = true ->
  match mech_merge ceq cl a b with
  | Ok w => abs w = merge (abs a) (abs b) /\ mwfb w = true /\ is_value w = true /\
            mdepth w <= S (Nat.max (mdepth a) (mdepth b))
  | Err _ => merge (abs a) (abs b) = DTop
  | TypeErr | Panic => False
  end).
Check (C05_mech_whnf_refines : forall ceq, sound ceq -> forall cl v, mwfb v = true ->
  match whnf ceq cl v with
  | Ok w => abs w = abs v /\ mwfb w = true /\ is_value w = true /\ mdepth w <= mdepth v
  | Err _ => abs v = DTop
  | TypeErr | Panic => False
  end).
Check (C05_mech_export_refines : forall sat ceq, sound ceq -> forall cl v, mwfb v = true ->
  export_json ceq cl sat v = canon (export sat (abs v))).
Check (C05_mech_elab_refines : forall e, wfE e = true ->
  exists v, melab e = Ok v /\ abs v = elab e /\ mwfb v = true).
Check (C05_mech_export_comm : forall ceq, sound ceq -> forall cl sat a b, mwfb a = true -> mwfb b = true ->
  export_json ceq cl sat (MPending a b) = export_json ceq cl sat (MPending b a)).
Check (C05_mech_export_assoc : forall ceq, sound ceq -> forall cl sat a b c,
  mwfb a = true -> mwfb b = true -> mwfb c = true ->
  export_json ceq cl sat (MPending (MPending a b) c) = export_json ceq cl sat (MPending a (MPending b c))).
Check (C05_mech_export_idem : forall ceq, sound ceq -> forall cl sat a, mwfb a = true ->
  export_json ceq cl sat (MPending a a) = export_json ceq cl sat a).
Check (C05_mech_export_unit : forall ceq, sound ceq -> forall cl sat a fs, mwfb a = true -> abs a = DRec fs ->
  export_json ceq cl sat (MPending a (MRec [])) = export_json ceq cl sat a /\
  export_json ceq cl sat (MPending (MRec []) a) = export_json ceq cl sat a).
Check (C05_mech_pipeline : forall ceq, sound ceq -> forall cl sat e, wfE e = true ->
  exists v, melab e = Ok v /\ mwfb v = true /\ export_json ceq cl sat v = canon (export sat (elab e))).

(* non-vacuity: N.eqb is a sound contract equality; a non-trivial pair of well-formed operands whose
   merge is neither operand (see also MergeMech/Laws.v ex_orders_differ: the two operand orders have
   different insertion orders) *)
Example C05_mech_sound_example : sound N.eqb.
Proof. intros a b H. now apply N.eqb_eq. Qed.
Example C05_mech_wf_example :
  exists x, melab (EMerge ex_a ex_b) = Ok x /\ mwfb x = true /\
            exists w, whnf N.eqb Nat.ltb x = Ok w /\ is_value w = true /\ abs w <> elab ex_a /\ abs w <> elab ex_b.
Proof. eexists. split; [vm_compute; reflexivity|]. split; [reflexivity|]. eexists. split; [vm_compute; reflexivity|].
  split; [reflexivity|]. split; vm_compute; discriminate. Qed.
