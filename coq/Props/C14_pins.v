(* C14 — pinned statements: each theorem of Props/C14.v must still have exactly this statement. *)
From Coq Require Import String List ZArith QArith Bool.
From NV Require Import Surface.Ast Surface.Indent Surface.Print Surface.Parse Surface.TableWf
  Surface.RoundTrip Surface.Multiline Surface.Image Surface.Examples Surface.Refuted Gen.OpTable Props.C14.
Import ListNotations.
Open Scope string_scope.

Check (C14_op_table_wf : table_ok binops prefixops max_level primops op_spelling infix_ops postfix_ops = true).
Check (C14_parse_print_core :
  forall t, core primops infix_ops repaired_code t -> pa repaired_code (pr repaired_code t) = Some t).
Check (C14_print_fixpoint_core :
  forall t t', core primops infix_ops repaired_code t ->
    pa repaired_code (pr repaired_code t) = Some t' -> pr repaired_code t' = pr repaired_code t).
Check (C14_core_nonvacuous : core primops infix_ops repaired_code ex_core).
Check (C14_core_in_image :
  forall t, core primops infix_ops repaired_code t -> parser_image primops infix_ops t = true).
Check (C14_multiline_delim_safe :
  forall cs : list chunk, no_adjacent_lits cs ->
    lex (S (nb_percent cs)) (render (nb_percent cs) cs) DStart = expected cs).
Check (C14_number_print_refuted :
  pa only_num (pr only_num w_number) = Some (Num (123456789012345700000000000000 # 1))).
Check (C14_annotated_in_type_position_refuted :
  pa only_annot (pr only_annot w_annot) = Some (Annot (Ann None [ctr (Var "y"); ctr (Var "Z")]) (Var "x"))).
Check (C14_dynamic_access_refuted :
  pa only_dyn (pr only_dyn w_dyn)
  = Some (App (Var "f") [Op (ONamed "record/get") [Chunks [CExpr (Var "y") 0]; Var "x"]])).
Check (C14_curried_dot_refuted :
  pa only_dyn (pr only_dyn w_dot) = Some (Fun [vpat "x"; vpat "y"] (Op (OStatAccess "y") [Var "x"]))).
Check (C14_not_exported_refuted :
  pa only_ne (pr only_ne w_ne)
  = Some (Record [] [FDef [PId "foo"] (FMeta None no_ann false false PNeutral) (Some (Num (1 # 1)))] false)).
Check (C14_field_pattern_alias_refuted :
  pa only_alias (pr only_alias w_alias)
  = Some (Match [Branch (Pat None (PRecord [FPat "foo" no_ann None (Pat None (PAny "foo"))] TClosed))
                        None (Var "y")])).
Check (C14_include_only_record_refuted : pa only_incl (pr only_incl w_incl) = Some (Record [] [] false)).
Check (C14_aliased_pattern_parens_refuted : pa only_aliaspar (pr only_aliaspar w_aliaspar) = None).
Check (C14_empty_literal_chunk_refuted :
  exists t, pa only_emptylit w_emptylit_tokens = Some t
            /\ pa only_emptylit (pr only_emptylit t) = Some (Chunks [CExpr (Var "x") 0])
            /\ t <> Chunks [CExpr (Var "x") 0]).
Check (C14_multiline_indent_refuted :
  forall cs, In cs [w_ml1; w_ml2; w_ml3] ->
    chunks_multiline only_multiline false cs = true /\ multiline_roundtrips cs = false).
Check (C14_witnesses_repaired :
  Forall (fun w => pa repaired_code (pr repaired_code w) = Some w)
         [w_number; w_annot; w_dyn; w_dot; w_ne; w_alias; w_incl; w_aliaspar]).
