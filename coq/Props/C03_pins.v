(* Pinned statements of the C03 theorems: this file stops compiling if a statement is changed. *)
From Coq Require Import List String.
From NV Require Import Contract.Data Contract.Gen Contract.Apply Props.C03.

Check (C03_check_sound_complete : forall T v, first_order T = true -> wf_ty T = true ->
  ((exists v', check T v = Ok v') <-> member T v = true)).
Check (C03_check_identity : forall T v v', first_order T = true -> wf_ty T = true ->
  check T v = Ok v' -> dv_equiv v' v).
Check (C03_check_idempotent : forall T v v', first_order T = true -> wf_ty T = true ->
  check T v = Ok v' -> check T v' = Ok v').
Check (C03_check_fail_is_blame : forall T v, first_order T = true -> wf_ty T = true ->
  member T v = false -> check T v = Err (Blame Pos)).
Check (C03_check_pol_spec : forall p T v, first_order T = true -> wf_ty T = true ->
  (member T v = true ->
     exists v', check_pol p T v = Ok v' /\ dv_equiv v' v /\ check_pol p T v' = Ok v') /\
  (member T v = false -> check_pol p T v = Err (Blame p))).
Check (C03_member_order_independent : forall T v1 v2, dv_equiv v1 v2 -> member T v1 = member T v2).
