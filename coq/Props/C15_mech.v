(* C15 at mechanism level: no order leak.  On the insertion-ordered model of merge.rs every
   order-exposing primitive is a function of the key-sorted abstraction of the value.
   Statements only; proofs in MergeMech/Order.v, Laws.v, Broken.v. *)
From Coq Require Import List Permutation NArith.
Import ListNotations.
From NV Require Import Merge.Algebra Merge.Rules Merge.ElabWf.
From NV Require Import MergeMech.OrdMap MergeMech.Model MergeMech.Abs MergeMech.Refine MergeMech.Order MergeMech.Laws MergeMech.Broken.

Definition sound (ceq : cid -> cid -> bool) : Prop := forall a b, ceq a b = true -> a = b.

(* enumeration_sorted, one statement per primitive: the result is computed from abs v alone *)
Theorem C15_mech_record_fields : forall ceq, sound ceq -> forall cl consider_all v, mwfb v = true ->
  norm_out (record_fields ceq cl consider_all v) = spec_fields consider_all (abs v).
Proof. exact record_fields_abs. Qed.

Theorem C15_mech_record_values : forall ceq, sound ceq -> forall cl v, mwfb v = true ->
  norm_out (out_map (map abs_lazy) (record_values ceq cl v)) = spec_values (abs v).
Proof. exact record_values_abs. Qed.

Theorem C15_mech_record_to_array : forall ceq, sound ceq -> forall cl v, mwfb v = true ->
  norm_out (out_map (map abs_entry) (record_to_array ceq cl v)) = spec_to_array (abs v).
Proof. exact record_to_array_abs. Qed.

Theorem C15_mech_observe_abs : forall ceq cl sat v, sound ceq -> mwfb v = true ->
  observe ceq cl sat v = observe_spec sat (abs v).
Proof. exact observe_abs. Qed.

(* no_order_leak: two values with the same abstraction -- whatever their insertion orders, whatever
   contract equality and clone choice were used to compute with them -- are indistinguishable *)
Theorem C15_mech_no_order_leak : forall ceq1 ceq2 cl1 cl2 sat v1 v2, sound ceq1 -> sound ceq2 ->
  mwfb v1 = true -> mwfb v2 = true -> abs v1 = abs v2 ->
  observe ceq1 cl1 sat v1 = observe ceq2 cl2 sat v2.
Proof. exact no_order_leak. Qed.

Theorem C15_mech_clone_choice_irrelevant : forall ceq1 ceq2 cl1 cl2 sat v, sound ceq1 -> sound ceq2 ->
  mwfb v = true -> observe ceq1 cl1 sat v = observe ceq2 cl2 sat v.
Proof. exact clone_choice_unobservable. Qed.

Theorem C15_mech_operand_order_irrelevant : forall ceq, sound ceq -> forall cl sat a b,
  mwfb a = true -> mwfb b = true ->
  observe ceq cl sat (MPending a b) = observe ceq cl sat (MPending b a).
Proof. exact observe_comm. Qed.

(* from source: the written order of a literal's fields / of a merge's operands *)
Theorem C15_mech_literal_order_irrelevant : forall ceq, sound ceq -> forall cl sat fs fs',
  Permutation fs fs' -> NoDup (map fkey fs) -> wfE (ERec fs) = true ->
  exists v v', melab (ERec fs) = Ok v /\ melab (ERec fs') = Ok v' /\
               observe ceq cl sat v = observe ceq cl sat v'.
Proof. exact literal_order_unobservable. Qed.

Theorem C15_mech_source_operand_order_irrelevant : forall ceq, sound ceq -> forall cl sat a b,
  wfE a = true -> wfE b = true ->
  exists v v', melab (EMerge a b) = Ok v /\ melab (EMerge b a) = Ok v' /\
               observe ceq cl sat v = observe ceq cl sat v'.
Proof. exact operand_order_unobservable. Qed.

(* teeth: the theorems fail for field_names without its sort, and for a swap_remove that loses the
   moved entry *)
Theorem C15_mech_fields_nosort_refuted :
  mwfb w_ba = true /\ mwfb w_ab = true /\ abs w_ba = abs w_ab /\
  record_fields_nosort N.eqb Nat.ltb false w_ba <> record_fields_nosort N.eqb Nat.ltb false w_ab.
Proof. exact fields_nosort_leaks_refuted. Qed.

Theorem C15_mech_lossy_swap_remove_refuted :
  mwfb (MRec m_axy) = true /\ mwfb (MRec m_acd) = true /\
  exists m, merge_records_bad m_axy m_acd = Ok m /\
            abs (MRec m) <> merge (abs (MRec m_axy)) (abs (MRec m_acd)) /\
            im_get 3%N m = None.
Proof. exact lossy_swap_remove_refuted. Qed.
