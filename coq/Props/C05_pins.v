From Coq Require Import List ZArith QArith.
Import ListNotations.
From NV Require Import Merge.Algebra Merge.ElabWf Props.C05.
Close Scope Q_scope.
Check (C05_merge_closed : forall a b, wf a = true -> wf b = true -> wf (merge a b) = true).
Check (C05_merge_comm : forall a b, wf a = true -> wf b = true -> merge a b = merge b a).
Check (C05_merge_assoc : forall a b c, wf a = true -> wf b = true -> wf c = true ->
  merge (merge a b) c = merge a (merge b c)).
Check (C05_merge_unit : forall fs,
  merge (DRec fs) (DRec []) = DRec fs /\ merge (DRec []) (DRec fs) = DRec fs).
Check (C05_merge_idem : forall a, wf a = true -> merge a a = a).
Check (C05_export_comm : forall sat a b, wf a = true -> wf b = true ->
  export sat (merge a b) = export sat (merge b a)).
Check (C05_export_assoc : forall sat a b c, wf a = true -> wf b = true -> wf c = true ->
  export sat (merge (merge a b) c) = export sat (merge a (merge b c))).

Check (C05_elab_wf : forall e, wfE e = true -> wf (elab e) = true).
Check (C05_expr_comm : forall a b, wfE a = true -> wfE b = true -> elab (EMerge a b) = elab (EMerge b a)).
Check (C05_expr_assoc : forall a b c, wfE a = true -> wfE b = true -> wfE c = true ->
  elab (EMerge (EMerge a b) c) = elab (EMerge a (EMerge b c))).
Check (C05_expr_idem : forall a, wfE a = true -> elab (EMerge a a) = elab a).

(* non-vacuity: a nested record with priorities, an optional field, a hidden field, contracts, an
   array and a pending conflict is well formed, and merging it with another one is not trivial *)
Example C05_wf_example :
  let a := elab (ERec [(0%N, SNeutral, false, false, [0%N], Some (EAtom (ANum 1%Z 1%positive)));
                       (1%N, SBot, false, false, [], Some (ERec [(2%N, SNeutral, true, false, [], None);
                                                                  (0%N, STop, false, true, [1%N; 0%N], Some (EAtom (AStr 1)))]));
                       (3%N, SNum (1 # 2)%Q, false, false, [], Some (EArr [EAtom ANull; EArr []]))]) in
  let b := elab (ERec [(1%N, SNeutral, false, false, [], Some (ERec [(0%N, SNeutral, false, false, [], Some (EAtom (AStr 2)))]));
                       (0%N, SNeutral, false, false, [], Some (EAtom (ANum 2%Z 1%positive)))]) in
  wf a = true /\ wf b = true /\ merge a b <> a /\ merge a b <> b.
Proof. vm_compute. repeat split; discriminate. Qed.
