(* C05 — merge is commutative, associative, has {} as unit and is idempotent on data.
   Statements only; proofs in Merge/AlgebraProofs.v. *)
From Coq Require Import List.
Import ListNotations.
From NV Require Import Merge.Algebra Merge.AlgebraProofs Merge.ElabWf.

Theorem C05_merge_closed : forall a b, wf a = true -> wf b = true -> wf (merge a b) = true.
Proof. exact merge_wf. Qed.

Theorem C05_merge_comm : forall a b, wf a = true -> wf b = true -> merge a b = merge b a.
Proof. exact merge_comm. Qed.

Theorem C05_merge_assoc : forall a b c, wf a = true -> wf b = true -> wf c = true ->
  merge (merge a b) c = merge a (merge b c).
Proof. exact merge_assoc_law. Qed.

Theorem C05_merge_unit : forall fs,
  merge (DRec fs) (DRec []) = DRec fs /\ merge (DRec []) (DRec fs) = DRec fs.
Proof. exact (fun fs => conj (merge_unit_r fs) (merge_unit_l fs)). Qed.

Theorem C05_merge_idem : forall a, wf a = true -> merge a a = a.
Proof. exact merge_idem. Qed.

(* the observable form: both sides export to the same configuration or fail alike *)
Theorem C05_export_comm : forall sat a b, wf a = true -> wf b = true ->
  export sat (merge a b) = export sat (merge b a).
Proof. exact (fun sat a b Ha Hb => f_equal (export sat) (merge_comm a b Ha Hb)). Qed.

Theorem C05_export_assoc : forall sat a b c, wf a = true -> wf b = true -> wf c = true ->
  export sat (merge (merge a b) c) = export sat (merge a (merge b c)).
Proof. exact (fun sat a b c Ha Hb Hc => f_equal (export sat) (merge_assoc_law a b c Ha Hb Hc)). Qed.

(* on source expressions (what the generators print as Nickel programs): the side condition is
   syntactic ([wfE]: arrays hold plain data) and well-formedness of the denotation is a theorem *)
Theorem C05_elab_wf : forall e, wfE e = true -> wf (elab e) = true.
Proof. exact elab_wf. Qed.

Theorem C05_expr_comm : forall a b, wfE a = true -> wfE b = true ->
  elab (EMerge a b) = elab (EMerge b a).
Proof. exact elab_merge_comm. Qed.

Theorem C05_expr_assoc : forall a b c, wfE a = true -> wfE b = true -> wfE c = true ->
  elab (EMerge (EMerge a b) c) = elab (EMerge a (EMerge b c)).
Proof. exact elab_merge_assoc. Qed.

Theorem C05_expr_idem : forall a, wfE a = true -> elab (EMerge a a) = elab a.
Proof. exact elab_merge_idem. Qed.
