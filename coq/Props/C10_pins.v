(* Pinned statements of the C10 theorems: this file compiles only while every theorem of Props/C10.v
   still has exactly the statement written here. *)
From Coq Require Import ZArith QArith String List Bool.
Import ListNotations.
From NV Require Import Crash.Outcome Crash.NumOps Crash.Index Crash.Lexer Crash.LexerProofs Crash.Span Crash.NameReg Crash.Defects Crash.MergeDispatch Crash.TomlFloats Crash.TypePos Crash.Ledger Gen.PanicSites Props.C10.

Check (C10_no_panic_div : forall n1 n2, no_panic (op_div n1 n2)).
Check (C10_no_panic_mod : forall n1 n2, no_panic (op_mod n1 n2)).
Check (C10_no_panic_pow : forall (to_f64 : Q -> fl) (powf : fl -> fl -> fl) n1 n2,
  no_panic (op_pow to_f64 powf n1 n2)).
Check (C10_pow_unguarded_panics_iff : forall (to_f64 : Q -> fl) (powf : fl -> fl -> fl) n1 n2,
  (exists s, op_pow_unguarded to_f64 powf n1 n2 = Panic s) <->
  (exists e, i64_try_from n2 = Some e /\ (e < 0)%Z /\ qzero n1 = true)).
Check (C10_no_panic_float1 : forall (to_f64 : Q -> fl) (f1 : fl -> fl) n, no_panic (op_float1 to_f64 f1 n)).
Check (C10_no_panic_atan2 : forall (to_f64 : Q -> fl) (atan2 : fl -> fl -> fl) n1 n2,
  no_panic (op_atan2 to_f64 atan2 n1 n2)).
Check (C10_no_panic_log : forall (to_f64 : Q -> fl) (logf : fl -> Q -> fl) n1 n2,
  no_panic (op_log to_f64 logf n1 n2)).
Check (C10_div_by_zero_is_error : forall n1 n2, qzero n2 = true -> op_div n1 n2 = Error "division by zero").
Check (C10_pow_zero_neg_is_error : forall to_f64 powf n1 n2 e,
  i64_try_from n2 = Some e -> (e < 0)%Z -> qzero n1 = true ->
  op_pow to_f64 powf n1 n2 = Error "division by zero").
Check (C10_no_panic_substring : forall A (s : list A) start end_, no_panic (substring s start end_)).
Check (C10_no_panic_array_slice : forall A start end_ (arr : list A), no_panic (op_array_slice start end_ arr)).
Check (C10_no_panic_array_at : forall A (arr : list A) n, no_panic (op_array_at arr n)).
Check (C10_no_panic_array_gen : forall n, no_panic (op_array_gen_len n)).
Check (C10_find_all_index_refuted : exists offsets len m site, find_all_index offsets len m = Panic site).
Check (C10_find_all_index_panics_iff : forall offsets len m,
  (exists site, find_all_index offsets len m = Panic site) <->
  (m = len /\ existsb (Z.eqb m) offsets = false)).
Check (C10_no_panic_find_all_fixed : forall offsets len m, no_panic (find_all_index_fixed offsets len m)).
Check (C10_lexer_no_panic : forall input, forallb sym_wf input = true -> no_panic (run init input)).
Check (C10_lexer_consumes : forall input, forallb sym_wf input = true ->
  exists es final, run init input = Val (es, final) /\ List.length es = List.length input /\ wf final).
Check (C10_unmatched_brace_is_error : forall s, sN s = NRBrace ->
  next_step init s = Val (init, Err EUnmatchedCloseBrace)).
Check (C10_from_lexical_in_range : forall len bnd e,
  (len < 2 ^ 32)%Z -> lexical_error_ok len bnd e -> Forall (in_range len) (from_lexical e)).
Check (C10_from_lexical_fixed_ok : forall len bnd e,
  (len < 2 ^ 32)%Z -> lexical_error_ok len bnd e ->
  Forall (fun s => in_range len s /\ on_bnd bnd s) (from_lexical_fixed e)).
Check (C10_from_lalrpop_in_range : forall len e,
  (len < 2 ^ 32)%Z ->
  match e with
  | PInvalidToken l => (0 <= l < len)%Z
  | PUnrecognizedToken t | PExtraToken t => in_range len t
  end ->
  in_range len (from_lalrpop e)).
Check (C10_split_spans_ok : forall len tok pc,
  in_range len tok -> (0 <= pc <= snd tok - fst tok)%Z ->
  exists a b, split_spans tok pc = Val (a, b) /\ in_range len a /\ in_range len b /\
              fst a = fst tok /\ snd a = fst b /\ snd b = snd tok /\ (snd b - fst b = pc)%Z).
Check (C10_fuse_in_range : forall len a b, in_range len a -> in_range len b ->
  in_range len (fuse a b) /\ (fst (fuse a b) <= fst a)%Z /\ (snd a <= snd (fuse a b))%Z
  /\ (fst (fuse a b) <= fst b)%Z /\ (snd b <= snd (fuse a b))%Z).
Check (C10_json_error_span_refuted : exists len off, (0 <= off <= len)%Z /\ ~ in_range len (json_error_span off)).
Check (C10_toml_error_span_refuted : exists len t, in_range len t /\ ~ in_range len (toml_error_span t)).
Check (C10_external_error_span_ok : forall len bnd start end_,
  src_ok len bnd -> (0 <= start)%Z ->
  let s := external_error_span len bnd start end_ in
  in_range len s /\ on_bnd bnd s /\ ((fst s < len)%Z -> (fst s < snd s)%Z)).
Check (C10_select_uniq_diverges_refuted : forall taken, taken 0%nat = true -> taken 1%nat = true ->
  forall fuel, select_uniq_orig taken fuel = None).
Check (C10_select_uniq_fixed_terminates : forall taken bound,
  (forall s, (bound <= s)%nat -> taken s = false) ->
  exists r, select_uniq_fixed taken (S bound) = Some r /\ taken r = false).
Check (C10_no_panic_candidate_char : forall next, no_panic (candidate_char next)).
Check (C10_pretty_print_cap_refuted : exists widths max_width site,
  Forall (fun w => (1 <= w <= 4)%Z) widths /\ (0 <= max_width)%Z /\ pretty_print_cap widths max_width = Panic site).
Check (C10_no_panic_pretty_print_cap_fixed : forall widths max_width, no_panic (pretty_print_cap_fixed widths max_width)).
Check (C10_lone_cr_refuted : exists s l site, string_token s = SLit l /\ literal_callback l = Panic site).
Check (C10_no_panic_literal_fixed : forall l, no_panic (literal_handler_fixed l)).
Check (C10_no_panic_merge_select : forall has1 has2 p1 p2, no_panic (select_value has1 has2 p1 p2)).
Check (C10_prio_eq_is_cmp_eq : forall a b, prio_eq a b = true <-> prio_cmp a b = Eq).
Check (C10_no_panic_toml_import : forall doc, no_panic (from_doc doc)).
Check (C10_toml_check_protects_conversion : forall i, check_floats i = true -> convert_item i = Val tt).
Check (C10_toml_check_needs_inline_arm : exists v site,
  check_value_no_inline v = true /\ convert_value v = Panic site).
Check (C10_annot_positions_set : forall fuel t,
  pos_of (annot_fix_then_pos fuel t) = true /\ pos_of (annot_pos_then_fix fuel t) = true).
Check (C10_no_panic_labeled_type : forall fuel t,
  no_panic (labeled_type_from_ast (annot_fix_then_pos fuel t)) /\
  no_panic (labeled_type_from_ast (annot_pos_then_fix fuel t))).
Check (C10_rebuilt_type_needs_position : exists t site,
  labeled_type_from_ast (fixed_enum_drops_pos 3 (with_pos t)) = Panic site
  /\ pos_of (with_pos (fixed_enum_drops_pos 3 t)) = true).
Check (C10_sites_all_covered : forall key line, In (key, line) sites -> exists c, In (key, c) ledger).
Check (C10_ledger_no_stale : forall key c, In (key, c) ledger -> exists line, In (key, line) sites).
