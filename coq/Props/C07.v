(* C07 -- recursive fields are recomputed after overriding.  Property theorems: only statements
   closed by [exact]; the proofs live in Rec/*.v.

   Part A (Rec/FreeVars.v): [collect]/[deps_stat]/[deps_dyn] model free_vars.rs; [free] is the
   specification of "occurs free".  Part B: [Mech] models revertible thunks, revert, saturate,
   init_cached, merge (the mechanism I); [Spec] is the heap-free late-binding specification S, in
   which a record is the table of the winning definitions; [abs] maps a record instance to it. *)
From Coq Require Import List NArith ZArith Bool.
Import ListNotations.
From NV Require Import Rec.FreeVars Rec.FreeVarsProofs.
From NV Require Import Rec.Lang Rec.Spec Rec.Mech Rec.SpecProofs Rec.MechInv Rec.MechMerge Rec.History
  Rec.Refuted Rec.Bridge Rec.Nested Rec.NestedProofs.

(* ================================================================= part A: the dependency analysis *)
Theorem C07_collect_sound_complete : forall t x, In x (collect false t) <-> free x t.
Proof. exact collect_sound_complete. Qed.

(* every recursive field that occurs free in the definition of a field (annotations or value) is
   recorded as a dependency of that field: static fields, included fields, dynamic fields *)
Theorem C07_deps_complete_stat : forall stat incl k f x,
  In (k, f) stat -> free_field x f -> In x (rec_fields stat incl) ->
  exists d, In (k, d) (deps_stat false stat incl) /\ In x d.
Proof. exact deps_complete_stat. Qed.

Theorem C07_deps_complete_incl : forall stat incl k ts t x,
  In (k, ts) incl -> In t ts -> free_ty x t -> In x (rec_fields stat incl) ->
  exists d, In (k, d) (deps_stat false stat incl) /\ In x d.
Proof. exact deps_complete_incl. Qed.

Theorem C07_deps_complete_dyn : forall stat incl dyn i nm f x,
  nth_error dyn i = Some (nm, f) -> free_field x f -> In x (rec_fields stat incl) ->
  exists d, nth_error (deps_dyn false stat incl dyn) i = Some d /\ In x d.
Proof. exact deps_complete_dyn. Qed.

Theorem C07_deps_sound_stat : forall stat incl k d x,
  In (k, d) (deps_stat false stat incl) -> In x d ->
  In x (rec_fields stat incl) /\
  ((exists f, In (k, f) stat /\ free_field x f) \/ (exists ts t, In (k, ts) incl /\ In t ts /\ free_ty x t)).
Proof. exact deps_sound_stat. Qed.

(* the analysis before fix a9a5295 (enum types skipped) violates completeness *)
Theorem C07_deps_pre_fix_refuted :
  exists stat incl k f x,
    In (k, f) stat /\ free_field x f /\ In x (rec_fields stat incl) /\
    ~ (exists d, In (k, d) (deps_stat true stat incl) /\ In x d).
Proof. exact deps_pre_fix_refuted. Qed.

(* ================================================================= part B: the overriding mechanism
   The invariant [coherent u] and the hypothesis [faithful u c] come in two modes: [u = false], the
   dependencies of all thunks are known (normal operation); [u = true], they are all unknown
   (FieldDeps::Unknown, hook H4) and the literals are closed. *)
(* reading a field of a coherent record instance through its thunks = reading the field of the
   S-record it denotes (same value, same error class, same fuel) *)
Theorem C07_override_refines : forall u st rid, coherent u st rid ->
  forall fuel k, ifield fuel st rid k = sfield fuel (abs st rid) k.
Proof. exact override_refines. Qed.

(* a record literal evaluates, without panic, to a coherent instance denoting its S-record *)
Theorem C07_eval_literal_ok : forall u c st l,
  faithful u c -> NoDup (lit_names l) -> (u = true -> lit_closed l) ->
  exists st', eval_literal c st l = Some (st', length (recs st)) /\
              extends st st' /\ coherent u st' (length (recs st)) /\
              srec_sim (abs st' (length (recs st))) (sden_lit l).
Proof. exact eval_literal_ok. Qed.

(* merge of coherent instances: no panic, a coherent instance, denoting the S-merge, nothing that
   existed before is changed *)
Theorem C07_merge_ok : forall u c st rid1 rid2,
  faithful u c -> coherent u st rid1 -> coherent u st rid2 ->
  exists st' rid', merge c st rid1 rid2 = Some (st', rid') /\
                   extends st st' /\ coherent u st' rid' /\
                   srec_sim (abs st' rid') (smerge (abs st rid1) (abs st rid2)).
Proof. exact merge_ok. Qed.

Theorem C07_merge_refines : forall u c st rid1 rid2 st' rid',
  faithful u c -> coherent u st rid1 -> coherent u st rid2 ->
  merge c st rid1 rid2 = Some (st', rid') ->
  forall fuel k, ifield fuel st' rid' k = sfield fuel (smerge (abs st rid1) (abs st rid2)) k.
Proof. exact merge_refines. Qed.

Theorem C07_operands_unchanged : forall u c st rid1 rid2 st' rid',
  faithful u c -> coherent u st rid1 -> coherent u st rid2 ->
  merge c st rid1 rid2 = Some (st', rid') ->
  forall r, coherent u st r -> forall fuel k, ifield fuel st' r k = ifield fuel st r k.
Proof. exact operands_unchanged. Qed.

Theorem C07_extends_coherent : forall u st st' rid,
  extends st st' -> coherent u st rid -> coherent u st' rid /\ abs st' rid = abs st rid.
Proof. exact extends_coherent. Qed.

(* the specification: merging is per field name; reading only depends on the scopes through the
   variables that occur *)
Theorem C07_slookup_smerge : forall R1 R2 k,
  slookup k (smerge R1 R2) = smerge_opt (slookup k R1) (slookup k R2).
Proof. exact slookup_smerge. Qed.

Theorem C07_sfield_sim : forall R R', srec_sim R R' -> forall fuel k, sfield fuel R k = sfield fuel R' k.
Proof. exact sfield_sim. Qed.

(* every override history *)
Theorem C07_history_refines : forall u c h,
  faithful u c -> lits_ok u h ->
  let (st, slots) := irun c h in Forall2 (slot_ok u st) slots (srun h).
Proof. exact history_refines. Qed.

Theorem C07_history_fields : forall u c h i,
  faithful u c -> lits_ok u h ->
  let (st, slots) := irun c h in
  match nth_error slots i, nth_error (srun h) i with
  | Some (Rid r), Some (Some R) => forall fuel k, ifield fuel st r k = sfield fuel R k
  | Some BadRef, Some None => True
  | None, None => True
  | _, _ => False
  end.
Proof. exact history_fields. Qed.

(* hook H4: with every dependency unknown, closed histories read the same fields *)
Theorem C07_history_fields_unknown : forall h i,
  hist_closed h ->
  let (st, slots) := irun (with_unknown cfg_fixed) h in
  match nth_error slots i, nth_error (srun h) i with
  | Some (Rid r), Some (Some R) => forall fuel k, ifield fuel st r k = sfield fuel R k
  | Some BadRef, Some None => True
  | None, None => True
  | _, _ => False
  end.
Proof. exact history_fields_unknown. Qed.

Theorem C07_depsunknown_equiv : forall h i,
  hist_closed h ->
  let (st, slots) := irun cfg_fixed h in
  let (stu, slotsu) := irun (with_unknown cfg_fixed) h in
  match nth_error slots i, nth_error slotsu i with
  | Some (Rid r), Some (Rid ru) => forall fuel k, ifield fuel stu ru k = ifield fuel st r k
  | Some BadRef, Some BadRef => True
  | None, None => True
  | _, _ => False
  end.
Proof. exact depsunknown_equiv. Qed.

(* nested records (two levels): reading into a record-valued field instantiates the record literal
   with the names of the enclosing record bound to the fields of the enclosing INSTANCE; the inner
   instance is coherent and denotes the record the specification assigns to that field of the final
   record; a piecewise definition of records instantiates both sides and merges the instances *)
Theorem C07_inst_ok : forall c F st ro k,
  faithful false c -> coherent false st ro ->
  inst_rel st (inst c F st ro k) (sinst F (abs st ro) k).
Proof. exact inst_ok. Qed.

Theorem C07_nested_history_fields : forall c h i k F,
  faithful false c -> lits_ok false h ->
  let (st, slots) := irun c h in
  match nth_error slots i, nth_error (srun h) i with
  | Some (Rid r), Some (Some R) =>
      ifield F st r k = sfield F R k /\
      match inst c F st r k, sinst F R k with
      | Some (st', ri), Some Ri => forall fuel p, ifield fuel st' ri p = sfield fuel Ri p
      | None, None => True
      | _, _ => False
      end
  | Some BadRef, Some None => True
  | None, None => True
  | _, _ => False
  end.
Proof. exact nested_history_fields. Qed.

(* the two parts meet *)
Theorem C07_vars_free : forall t x, In x (vars t) <-> free x (emb t).
Proof. exact vars_free. Qed.

Theorem C07_svars_free : forall s x, In x (svars s) <-> free x (emb_src s).
Proof. exact svars_free. Qed.

Theorem C07_cfg_fixed_faithful : faithful false cfg_fixed.
Proof. exact cfg_fixed_faithful. Qed.

Theorem C07_cfg_partA_faithful : faithful false cfg_partA.
Proof. exact cfg_partA_faithful. Qed.

Theorem C07_literal_deps_agree_stat : forall (l : literal) k d x,
  In (k, d) l -> fdyn d = false ->
  exists ds, In (k, ds) (deps_stat false (emb_stat l) []) /\
             (In x ds <-> exists ds', field_deps cfg_partA (lit_scope l) d = Some ds' /\ In x ds').
Proof. exact literal_deps_agree_stat. Qed.

Theorem C07_literal_deps_agree_dyn : forall (l : literal) k d x,
  In (k, d) l -> fdyn d = true ->
  exists ds, In ds (deps_dyn false (emb_stat l) [] (emb_dyn l)) /\
             (In x ds <-> exists ds', field_deps cfg_partA (lit_scope l) d = Some ds' /\ In x ds').
Proof. exact literal_deps_agree_dyn. Qed.

(* the Rust code before fix 8192ce0 ([cfg_current]: %record/insert% wrapped the thunk of a dynamically
   named field) runs like the fixed one on histories without dynamically named fields ... *)
Theorem C07_static_history_same : forall b c h,
  hist_static h -> forall sd, irun_from (set_wrap b c) sd h = irun_from c sd h.
Proof. exact static_history_same. Qed.

Theorem C07_history_fields_current : forall h i,
  hist_static h -> lits_ok false h ->
  let (st, slots) := irun cfg_current h in
  match nth_error slots i, nth_error (srun h) i with
  | Some (Rid r), Some (Some R) => forall fuel k, ifield fuel st r k = sfield fuel R k
  | Some BadRef, Some None => True
  | None, None => True
  | _, _ => False
  end.
Proof. exact history_fields_current. Qed.

(* ... and violated the property on a dynamically named field that depends on an overridden field
   (the real interpreter gave the same 11) *)
Theorem C07_dynamic_field_indirection_refuted :
  exists h i k, (forall l, In (SLit l) h -> NoDup (lit_names l)) /\
                field_of cfg_current h i k = Ok 11 /\ spec_field_of h i k = Ok 6 /\
                field_of cfg_fixed h i k = Ok 6.
Proof. exact dynamic_field_indirection_refuted. Qed.

(* ================================================================= the broken variants *)
Theorem C07_revert_keeps_cache_panics :
  exists h, (forall l, In (SLit l) h -> NoDup (lit_names l)) /\
            exists i, nth_error (snd (irun cfg_share_assert h)) i = Some Panicked.
Proof. exact revert_keeps_cache_panics. Qed.

Theorem C07_revert_keeps_cache_refuted :
  exists h i k, field_of cfg_share_skip h i k = Ok 2 /\ spec_field_of h i k = Ok 6.
Proof. exact revert_keeps_cache_refuted. Qed.

Theorem C07_revert_keeps_cache_overwrite_refuted :
  exists h i k, field_of cfg_share_overwrite h i k = Ok 6 /\ spec_field_of h i k = Ok 2.
Proof. exact revert_keeps_cache_overwrite_refuted. Qed.

Theorem C07_inplace_revert_refuted :
  exists h i k, field_of cfg_inplace h i k = Ok 6 /\ spec_field_of h i k = Ok 2
                /\ field_of cfg_fixed h i k = Ok 2.
Proof. exact inplace_revert_refuted. Qed.

Theorem C07_deps_incomplete_refuted :
  exists h i k, field_of cfg_incomplete h i k = Err UnboundId /\ spec_field_of h i k = Ok 1.
Proof. exact deps_incomplete_refuted. Qed.

Theorem C07_deps_incomplete_after_override_refuted :
  field_of cfg_incomplete h_incomplete2 0 1%N = Ok 0 /\ spec_field_of h_incomplete2 0 1%N = Ok 0 /\
  field_of cfg_incomplete h_incomplete2 2 1%N = Err UnboundId /\ spec_field_of h_incomplete2 2 1%N = Ok 1.
Proof. exact deps_incomplete_after_override_refuted. Qed.
