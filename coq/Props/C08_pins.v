(* Pinned statements of the C08 theorems (generated from Props/C08.v when a statement is added;
   a later change of a statement there makes this file fail). *)
From Coq Require Import List ZArith String Bool Arith.
Import ListNotations.
From NV Require Import Delayed.Model Delayed.Spec Delayed.Tracked Props.C08.

Check (C08_pending_tracked_at : forall es p i,
  prim_array_at es p i =
  match nth_error (view_arr (VArr es p)) i with Some t => Ok t | None => Err EOther end).
Check (C08_pending_tracked_map : forall f es p,
  view_arr (prim_array_map f es p) = map (TObs f) (view_arr (VArr es p))).
Check (C08_pending_tracked_concat : forall es1 p1 es2 p2,
  exists p2', map snd p2' = map snd p2 /\
    view_arr (prim_array_concat es1 p1 es2 p2) = view_arr (VArr es1 p1) ++ view_arr (VArr es2 p2')).
Check (C08_pending_tracked_slice : forall s e es p v,
  prim_array_slice s e es p = Ok v ->
  view_arr v = firstn (e - s) (skipn s (view_arr (VArr es p)))).
Check (C08_pending_tracked_lazy_app : forall c es p,
  view_arr (prim_array_lazy_app c es p) = map (TCtr c) (view_arr (VArr es p))).
Check (C08_length_observes_nothing : forall es es' p p',
  List.length es = List.length es' -> prim_array_length es p = prim_array_length es' p').
Check (C08_pending_tracked_access : forall k fs,
  prim_record_access k fs =
  match lookup k (view_rec (VRec fs)) with Some t => Ok t | None => Err EFieldMissing end).
Check (C08_pending_tracked_values : forall fs,
  view_arr (prim_record_values fs) = map snd (sort_fields (view_rec (VRec fs)))).
Check (C08_fields_names_only : forall fs fs',
  map fst fs = map fst fs' -> prim_record_fields fs = prim_record_fields fs').
Check (C08_pending_tracked_record_map : forall f fs,
  view_rec (prim_record_map f fs) = map (fun kt => (fst kt, f (fst kt) (snd kt))) (view_rec (VRec fs))).
Check (C08_pending_tracked_freeze : forall fs,
  view_rec (VRec (prim_record_freeze fs)) = view_rec (VRec fs)
  /\ Forall (fun fl => snd (snd fl) = []) (prim_record_freeze fs)).
Check (C08_pending_tracked_record_lazy_app : forall c fs,
  view_rec (prim_record_lazy_app c fs) = map (fun kt => (fst kt, TCtr c (snd kt))) (view_rec (VRec fs))).
Check (C08_pending_tracked_insert : forall k x fs v,
  prim_record_insert k x fs = Ok v -> view_rec v = view_rec (VRec fs) ++ [(k, x)]).
Check (C08_pending_tracked_pipeline : forall ts es p v,
  run_pipeline ts (VArr es p) = Ok v ->
  exists es' p', v = VArr es' p' /\ view_arr v = spec_pipeline ts (view_arr (VArr es p))).
