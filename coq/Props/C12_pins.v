(* C12 — pinned statements (a change of a statement in Props/C12.v must be made here too). *)
From Coq Require Import String ZArith List Bool.
Import ListNotations.
From NV Require Import Mech.Syntax Mech.Machine Mech.Spec Mech.Invariants Mech.SpecFacts
  Mech.Refine Mech.RefineFull Mech.Broken Props.C12.

Check (C12_blackhole_iff_on_stack :
  forall c, reachable c ->
    NoDup (upd_locs (stack c)) /\
    forall l, In l (upd_locs (stack c)) <-> blackholed (hp c) l).

Check (C12_unwind_clean :
  forall s h, bh_inv s h ->
    let h' := unwind s h in
    clean h' /\
    length h' = length h /\
    (forall l c, nth_error h l = Some c -> st c <> Blackholed -> nth_error h' l = Some c) /\
    (forall l c, nth_error h l = Some c -> st c = Blackholed ->
                 nth_error h' l = Some (set_state Suspended c)) /\
    (unlocked h -> unlocked h')).

Check (C12_session_heap_good :
  forall h : list input,
    clean (sheap (fst (sess_run empty_session h))) /\
    unlocked (sheap (fst (sess_run empty_session h)))).

Check (C12_evaluated_cells_sound :
  forall (h : list input) (e : tm) (fuel : nat),
    let s := fst (sess_run empty_session h) in
    forall r cf k, run fuel (mkcfg (CTm e, stop s) [] (sheap s)) = (r, cf, k) ->
    exists G : list sclos,
      length G = length (hp cf) /\
      forall l c, nth_error (hp cf) l = Some c ->
        exists t env r,
          orig c = (CTm t, env) /\ nth_error G l = Some (t, r) /\ env_rel G env r /\
          match st c with
          | Evaluated => exists n v, seval n t r = Val v /\ val_rel G (cur c) v
          | _ => cur c = orig c
          end).

Check (C12_session_equiv :
  forall (h : list input) (k : nat) (e : tm),
    match snd (sess_step (fst (sess_run empty_session h)) (IEval k e)) with
    | OOk ob => exists n v, spec_run n (defs_of h) e = Val v /\ sobs v = ob
    | OErr EInfRec => forall n, spec_run n (defs_of h) e = OOF
    | OErr c => exists n, spec_run n (defs_of h) e = Err c
    | OBudget => True
    | OBound | OData _ => False
    end).

Check (C12_session_vs_fresh :
  forall (h : list input) (k k' : nat) (e : tm),
    let o_session := snd (sess_step (fst (sess_run empty_session h)) (IEval k e)) in
    let o_fresh := fresh_eval k' (defs_of h) e in
    o_session <> OBudget -> o_fresh <> OBudget -> o_session = o_fresh).

Check (C12_unwind_clean_broken_refuted :
  exists h, count_blackholed (sheap (fst (sess_run_broken empty_session h))) <> 0).

Check (C12_session_equiv_broken_refuted :
  exists h k e n v,
    snd (sess_step_broken (fst (sess_run_broken empty_session h)) (IEval k e)) = OErr EInfRec /\
    spec_run n (defs_of h) e = Val v).

Check (C12_session_equiv_full :
  forall (h : list input) (k : nat) (e : tm),
    match snd (sess_step (fst (sess_run empty_session h)) (IFull k e)) with
    | OData d => exists n, spec_run_full n (defs_of h) e = Val d
    | OErr EInfRec => forall n, spec_run_full n (defs_of h) e = OOF
    | OErr c => exists n, spec_run_full n (defs_of h) e = Err c
    | OBudget => True
    | OBound | OOk _ => False
    end).

Check (C12_session_equiv_query :
  forall (h : list input) (k : nat) (x : string) (path : list string),
    match snd (sess_step (fst (sess_run empty_session h)) (IQuery k x path)) with
    | OOk ob => exists n v, spec_run_query n (defs_of h) x path = Val v /\ sobs v = ob
    | OErr EInfRec => forall n, spec_run_query n (defs_of h) x path = OOF
    | OErr c => exists n, spec_run_query n (defs_of h) x path = Err c
    | OBudget => True
    | OBound | OData _ => False
    end).

Check (C12_spine_nounlock_refuted :
  exists h k e,
    count_locked (sheap (fst (sess_run_nounlock empty_session h))) <> 0 /\
    snd (sess_step_nounlock (fst (sess_run_nounlock empty_session h)) (ISpine k e))
    <> snd (sess_step_nounlock empty_session (ISpine k (chain (defs_of h) e)))).

Check (C12_session_equiv_thunk_copy_refuted :
  exists h k e n c,
    snd (sess_step_satcopy (fst (sess_run_satcopy empty_session h)) (IEval k e)) = OErr EInfRec /\
    spec_run n (defs_of h) e = Err c).

Check (C12_thunk_copy_order_refuted :
  exists k n,
    snd (sess_step_satcopy empty_session (IEval k (copy_single false))) = OErr EInfRec /\
    snd (sess_step_satcopy empty_session (IEval k (copy_single true))) = OOk (ONum 10) /\
    spec_run n [] (copy_single false) = Val (VNum 10) /\
    snd (sess_step empty_session (IEval k (copy_single false))) = OOk (ONum 10)).
