(* C09 — evaluation is lazy and referentially transparent: the property theorems.
   S = call-by-name semantics (Lazy/Spec.v), I = call-by-need machine (Lazy/Need.v). *)
From Coq Require Import List String ZArith.
From NV Require Import Lazy.Syntax Lazy.Spec Lazy.SpecFacts Lazy.Laws Lazy.Abs Lazy.Ctx
  Lazy.FieldPath Lazy.Need Lazy.NeedRef Lazy.Refute.
Import ListNotations.

(* fuel monotonicity: a result, once produced, is produced with every larger fuel; hence
   [run_equiv] ("for some fuel") is the same as "for all sufficiently large fuel" *)
Theorem C09_fuel_monotone : forall fl n m rho t r,
  run fl n rho t = r -> r <> OutOfFuel -> n <= m -> run fl m rho t = r.
Proof. exact run_mono. Qed.

Theorem C09_let_abs : forall fl rho x e b,
  nocap (fv e) x b = true -> run_equiv fl rho (Let x e b) rho (subst x e b).
Proof. exact let_abs. Qed.

Theorem C09_beta_abs : forall fl rho x e b,
  nocap (fv e) x b = true -> run_equiv fl rho (App (Lam x b) e) rho (subst x e b).
Proof. exact beta_abs. Qed.

Theorem C09_field_abs : forall fl rho f e,
  ~ In f (fv e) -> run_equiv fl rho (Get (Rec [(f, e)]) f) rho e.
Proof. exact field_abs. Qed.

Theorem C09_elem_abs : forall fl rho e, run_equiv fl rho (At (Num 0) (Arr [e])) rho e.
Proof. exact elem_abs. Qed.

Theorem C09_import_abs : forall fl rho f e,
  lookup f fl = Some e -> fv e = [] -> run_equiv fl rho (Import f) rho e.
Proof. exact import_abs. Qed.

(* the three local rewrites at any number of positions inside any program context *)
Theorem C09_ctx_abs : forall fl t t' rho, prw fl t t' -> run_equiv fl rho t rho t'.
Proof. exact ctx_abs. Qed.

Theorem C09_seq_ok : forall fl rho v e k w,
  eval fl k rho v = Ok w -> run_equiv fl rho (Seq v e) rho e.
Proof. intros. apply eval_equiv_run_equiv. eapply seq_ok_eval; eauto. Qed.

Theorem C09_field_extraction : forall fl n rho e path d d',
  run fl n rho e = Ok d -> lookup_path path d = Some d' ->
  (exists m, extract fl m rho e path = Ok d') /\ (exists m, run fl m rho (gets e path) = Ok d').
Proof.
  intros. split; [eapply field_extraction|eapply field_extraction_gets]; eauto.
Qed.

Theorem C09_field_extraction_lazy : forall fl path rho e d,
  (exists n, run fl n rho (gets e path) = Ok d) <-> (exists m, extract fl m rho e path = Ok d).
Proof.
  intros. split; intros [n H]; [eapply field_extraction_lazy|eapply field_extraction_lazy_conv]; eauto.
Qed.

(* refinement of the call-by-need machine (thunks, update, black-holing) to S, let rec and
   recursive records included; [wft] = record literals have pairwise distinct field names.
   A result of the machine is a result of S, and a reported black hole is a divergence of S. *)
Theorem C09_need_refines_name : forall fl n t r h,
  forallb (fun p => wft (snd p)) fl = true -> wft t = true ->
  runN fl Good n t = (r, h) -> r <> OutOfFuel ->
  (r <> Err InfiniteRec -> exists m, run fl m [] t = r) /\
  (r = Err InfiniteRec -> forall m, run fl m [] t = OutOfFuel).
Proof. intros fl n t r h Hfl. exact (need_refines_name_full fl Hfl n t r h). Qed.

(* the same for field extraction on the machine *)
Theorem C09_need_extract_refines_name : forall fl n t path r h,
  forallb (fun p => wft (snd p)) fl = true -> wft t = true ->
  extractN fl Good n t path = (r, h) -> r <> OutOfFuel ->
  (r <> Err InfiniteRec -> exists m, extract fl m [] t path = r) /\
  (r = Err InfiniteRec -> forall m, extract fl m [] t path = OutOfFuel).
Proof. intros fl n t path r h Hfl. exact (need_extract_refines_name_full fl Hfl n t path r h). Qed.

Theorem C09_need_wrongcell_refuted : exists t, wft t = true /\ acyclic t = true /\ ~ refines_on [] WrongCell t.
Proof. exact need_wrongcell_refuted. Qed.

Theorem C09_need_callerenv_refuted : exists t, wft t = true /\ acyclic t = true /\ ~ refines_on [] CallerEnv t.
Proof. exact need_callerenv_refuted. Qed.
