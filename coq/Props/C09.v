(* C09 — evaluation is lazy and referentially transparent: the property theorems. *)
From Coq Require Import List String ZArith.
From NV Require Import Lazy.Syntax Lazy.Spec Lazy.SpecFacts Lazy.Laws.
Import ListNotations.

Theorem C09_fuel_monotone : forall fl n m rho t r,
  eval fl n rho t = r -> r <> OutOfFuel -> n <= m -> eval fl m rho t = r.
Proof. exact eval_mono. Qed.

Theorem C09_elem_abs : forall fl rho e, eval_equiv fl rho (At (Num 0) (Arr [e])) rho e.
Proof. exact elem_abs_eval. Qed.

Theorem C09_seq_ok : forall fl rho v e k w,
  eval fl k rho v = Ok w -> eval_equiv fl rho (Seq v e) rho e.
Proof. exact seq_ok_eval. Qed.
