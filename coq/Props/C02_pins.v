(* Pinned statements of the C02 theorems. *)
From Coq Require Import List String.
From NV Require Import Contract.Data Contract.Gen Contract.Apply Contract.Checks
  Contract.CheckProofs Contract.GenProofs Contract.GenChecksProofs Props.C02.
Import ListNotations.

Check (C02_simplify_keeps_negative : forall T, wk T [] = true ->
  negs (checks (static_type T) Pos []) = negs (checks T Pos [])).
Check (C02_simplify_adds_no_check : forall T, wk T [] = true ->
  incl (checks (static_type T) Pos []) (checks T Pos [])).
Check (C02_simplify_checks : forall T kenv, wk T kenv = true ->
  forall sv p es eo, inv sv es eo kenv ->
  negs (checks (simplify T sv p) p es) = negs (checks T p eo) /\
  incl (checks (simplify T sv p) p es) (checks T p eo)).
Check (C02_boundary_data : forall T v, first_order T = true -> wf_ty T = true ->
  (member T v = true ->
     exists v', check_pol Neg T v = Ok v' /\ dv_equiv v' v /\ check_pol Neg T v' = Ok v') /\
  (member T v = false -> check_pol Neg T v = Err (Blame Neg))).
Check (C02_boundary_arrow : forall A B, first_order A = true -> first_order B = true ->
  wf_ty A = true -> wf_ty B = true -> forall g,
  exists w, wrap_full (TArrow A B) g = Ok w /\
    (forall x, member A x = false -> w x = Err (Blame Neg)) /\
    (forall x, member A x = true ->
       exists x', dv_equiv x' x /\ member A x' = true /\
         (forall e, g x' = Err e -> w x = Err e) /\
         (forall r, g x' = Ok r ->
            (member B r = true -> exists r', w x = Ok r' /\ dv_equiv r' r) /\
            (member B r = false -> w x = Err (Blame Pos))))).
Check (C02_boundary_arrow_static : forall A B, first_order A = true -> first_order B = true ->
  wf_ty A = true -> wf_ty B = true -> forall g, no_excl B = true ->
  exists w, wrap_static (TArrow A B) g = Ok w /\
    (forall x, member A x = false -> w x = Err (Blame Neg)) /\
    (forall x, member A x = true ->
       exists x', dv_equiv x' x /\ member A x' = true /\ w x = g x')).
Check (C02_static_equiv_arrow_partial : forall A B, first_order A = true -> first_order B = true ->
  wf_ty A = true -> wf_ty B = true -> forall g, no_excl B = true ->
  (forall x r, member A x = true -> g x = Ok r -> member B r = true) ->
  exists wf ws, wrap_full (TArrow A B) g = Ok wf /\ wrap_static (TArrow A B) g = Ok ws /\
    forall x, outcome_equiv (wf x) (ws x)).
Check (C02_static_equiv_data : forall T v,
  first_order T = true -> wf_ty T = true -> no_excl T = true -> member T v = true ->
  contract_static_of T = Some CDyn /\ exists v', check T v = Ok v' /\ dv_equiv v' v).
Check (C02_cchecks_subcontract : forall T vars p sy c sy' env kenv,
  subcontract T vars p sy = Some (c, sy') -> J vars env kenv sy ->
  sy <= sy' /\ cchecks c p kenv = map erase (checks T p env)).
Check (C02_static_contract_keeps_negative : forall T c cs, wk T [] = true ->
  contract_of T = Some c -> contract_static_of T = Some cs ->
  negs (cchecks cs Pos []) = negs (cchecks c Pos [])).
