From Coq Require Import List Permutation ZArith.
Import ListNotations.
From NV Require Import Merge.Algebra Merge.Rules Merge.ElabWf.
From NV Require Import MergeMech.OrdMap MergeMech.Model MergeMech.Abs MergeMech.Refine MergeMech.Order MergeMech.Laws MergeMech.Broken.
From NV Require Import Props.C15_mech.
Check (C15_mech_record_fields : forall ceq, sound ceq -> forall cl consider_all v, mwfb v = true ->
  norm_out (record_fields ceq cl consider_all v) = spec_fields consider_all (abs v)).
Check (C15_mech_record_values : forall ceq, sound ceq -> forall cl v, mwfb v = true ->
  norm_out (out_map (map abs_lazy) (record_values ceq cl v)) = spec_values (abs v)).
Check (C15_mech_record_to_array : forall ceq, sound ceq -> forall cl v, mwfb v = true ->
  norm_out (out_map (map abs_entry) (record_to_array ceq cl v)) = spec_to_array (abs v)).
Check (C15_mech_observe_abs : forall ceq cl sat v, sound ceq -> mwfb v = true ->
  observe ceq cl sat v = observe_spec sat (abs v)).
Check (C15_mech_no_order_leak : forall ceq1 ceq2 cl1 cl2 sat v1 v2, sound ceq1 -> sound ceq2 ->
  mwfb v1 = true -> mwfb v2 = true -> abs v1 = abs v2 ->
  observe ceq1 cl1 sat v1 = observe ceq2 cl2 sat v2).
Check (C15_mech_clone_choice_irrelevant : forall ceq1 ceq2 cl1 cl2 sat v, sound ceq1 -> sound ceq2 ->
  mwfb v = true -> observe ceq1 cl1 sat v = observe ceq2 cl2 sat v).
Check (C15_mech_operand_order_irrelevant : forall ceq, sound ceq -> forall cl sat a b,
  mwfb a = true -> mwfb b = true ->
  observe ceq cl sat (MPending a b) = observe ceq cl sat (MPending b a)).
Check (C15_mech_literal_order_irrelevant : forall ceq, sound ceq -> forall cl sat fs fs',
  Permutation fs fs' -> NoDup (map fkey fs) -> wfE (ERec fs) = true ->
  exists v v', melab (ERec fs) = Ok v /\ melab (ERec fs') = Ok v' /\
               observe ceq cl sat v = observe ceq cl sat v').
Check (C15_mech_source_operand_order_irrelevant : forall ceq, sound ceq -> forall cl sat a b,
  wfE a = true -> wfE b = true ->
  exists v v', melab (EMerge a b) = Ok v /\ melab (EMerge b a) = Ok v' /\
               observe ceq cl sat v = observe ceq cl sat v').
Check (C15_mech_fields_nosort_refuted :
  mwfb w_ba = true /\ mwfb w_ab = true /\ abs w_ba = abs w_ab /\
  record_fields_nosort N.eqb Nat.ltb false w_ba <> record_fields_nosort N.eqb Nat.ltb false w_ab).
Check (C15_mech_lossy_swap_remove_refuted :
  mwfb (MRec m_axy) = true /\ mwfb (MRec m_acd) = true /\
  exists m, merge_records_bad m_axy m_acd = Ok m /\
            abs (MRec m) <> merge (abs (MRec m_axy)) (abs (MRec m_acd)) /\
            im_get 3%N m = None).

(* non-vacuity: the two operand orders of a non-trivial merge have different insertion orders and the
   same observations (MergeMech/Laws.v) *)
Example C15_mech_orders_differ_example :
  exists x y, melab (EMerge ex_a ex_b) = Ok x /\ melab (EMerge ex_b ex_a) = Ok y /\
              mwfb x = true /\ mwfb y = true /\
              out_map (fun w => match w with MRec fs => keys fs | _ => [] end) (whnf N.eqb Nat.ltb x) = Ok [3%N; 4%N; 1%N; 0%N] /\
              out_map (fun w => match w with MRec fs => keys fs | _ => [] end) (whnf N.eqb Nat.ltb y) = Ok [4%N; 3%N; 0%N; 1%N] /\
              record_fields N.eqb Nat.ltb false x = Ok [0%N; 1%N; 3%N; 4%N] /\
              record_fields N.eqb Nat.ltb false y = Ok [0%N; 1%N; 3%N; 4%N].
Proof. exact ex_orders_differ. Qed.
