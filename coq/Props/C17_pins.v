(* Pinned statements of the C17 theorems: this file fails to compile if a statement drifts. *)
From Coq Require Import List Arith Bool.
Import ListNotations.
From NV Require Import Vector.Model Vector.History Vector.Wf Vector.HistoryAbs Vector.HistoryProofs Vector.RcHeap Vector.RcHeapProofs Props.C17.

Check (C17_history_refines : forall B ops, 2 <= B ->
  Forall2 (fun (x : res * istate) (y : res * sstate) =>
             fst x = fst y /\ abs (snd x) = snd y /\ all_wf B (snd x))
          (irun B iinit ops) (srun sinit ops)).

Check (C17_history_refines_from : forall B st ops, 2 <= B -> all_wf B st ->
  Forall2 (fun (x : res * istate) (y : res * sstate) =>
             fst x = fst y /\ abs (snd x) = snd y /\ all_wf B (snd x))
          (irun B st ops) (srun (abs st) ops)).

Check (C17_frame_vec : forall B st o j, 2 <= B -> all_wf B st ->
  match o with
  | VPush k _ | VPop k | VSet k _ _ | VTrunc k _ | VExtend k _ | VMapFrom k _ _ | VDrop k => j <> k
  | _ => True
  end ->
  j < length (ivs st) ->
  option_map (@to_list nat) (nth j (ivs (fst (istep B st o))) None)
  = option_map (@to_list nat) (nth j (ivs st) None)).

Check (C17_frame_slice : forall B st o j, 2 <= B -> all_wf B st ->
  match o with
  | SPush k _ | SPop k | SSet k _ _ | SSlice k _ _ | SExtend k _ | SExtendFrom k _ | SMap k _ | SDrop k => j <> k
  | _ => True
  end ->
  j < length (iss st) ->
  option_map (@sl_list nat) (nth j (iss (fst (istep B st o))) None)
  = option_map (@sl_list nat) (nth j (iss st) None)).

Check (C17_new_wf : forall A B, wf B (@vnew A) /\ to_list (@vnew A) = []).

Check (C17_wf_check_invariants : forall A B (v : @vec A), 2 <= B -> wf B v -> check_invariants B v = true).

Check (C17_wf_length : forall A B (v : @vec A), 2 <= B -> wf B v -> length (to_list v) = vlen v).

Check (C17_push : forall A B (v : @vec A) x, 2 <= B -> wf B v ->
  exists v', vpush B v x = Some v' /\ wf B v' /\ to_list v' = to_list v ++ [x] /\ vlen v' = vlen v + 1).

Check (C17_pop : forall A B (v : @vec A), 2 <= B -> wf B v ->
  exists v', vpop v = Some (last_opt (to_list v), v') /\ wf B v'
             /\ to_list v' = removelast (to_list v) /\ vlen v' = vlen v - 1
             /\ (to_list v = [] -> v' = v)).

Check (C17_get : forall A B (v : @vec A) idx, 2 <= B -> wf B v ->
  vget B v idx = nth_error (to_list v) idx).

Check (C17_set : forall A B (v : @vec A) idx x, 2 <= B -> wf B v -> idx < vlen v ->
  exists v', vset B v idx x = Some v' /\ wf B v' /\ to_list v' = list_set (to_list v) idx x
             /\ vlen v' = vlen v).

Check (C17_set_out_of_bounds : forall A B (v : @vec A) idx x, 2 <= B -> vlen v <= idx ->
  vset B v idx x = None).

Check (C17_truncate : forall A B (v : @vec A) len, 2 <= B -> wf B v ->
  exists v', vtruncate B v len = Some v' /\ wf B v' /\ to_list v' = firstn len (to_list v)
             /\ vlen v' = Nat.min len (vlen v)).

Check (C17_extend : forall A B (v : @vec A) it, 2 <= B -> wf B v ->
  exists v', vextend B v it = Some v' /\ wf B v' /\ to_list v' = to_list v ++ it
             /\ vlen v' = vlen v + length it).

Check (C17_iter_from : forall A B (v : @vec A) idx, 2 <= B -> wf B v ->
  viter_from B v idx = if idx <=? vlen v then Some (skipn idx (to_list v)) else None).

Check (C17_slice_new : forall A B, 2 <= B -> swf B (@snew A) /\ sl_list (@snew A) = []).

Check (C17_slice_from_list : forall A B (l : list A), 2 <= B ->
  exists s', sfrom_list B l = Some s' /\ swf B s' /\ sl_list s' = l).

Check (C17_slice_push : forall A B (s : @slice A) x, 2 <= B -> swf B s ->
  exists s', spush B s x = Some s' /\ swf B s' /\ sl_list s' = sl_list s ++ [x]).

Check (C17_slice_pop : forall A B (s : @slice A), 2 <= B -> swf B s ->
  exists s', spop B s = Some (last_opt (sl_list s), s') /\ swf B s'
             /\ sl_list s' = removelast (sl_list s) /\ (sl_list s = [] -> s' = s)).

Check (C17_slice_get : forall A B (s : @slice A) idx, 2 <= B -> swf B s ->
  sget B s idx = nth_error (sl_list s) idx).

Check (C17_slice_set : forall A B (s : @slice A) idx x, 2 <= B -> swf B s -> idx < slen s ->
  exists s', sset B s idx x = Some s' /\ swf B s' /\ sl_list s' = list_set (sl_list s) idx x).

Check (C17_slice_slice : forall A B (s : @slice A) a b, 2 <= B -> swf B s ->
  if (a <=? b) && (b <=? slen s)
  then exists s', sslice s a b = Some s' /\ swf B s'
                  /\ sl_list s' = firstn (b - a) (skipn a (sl_list s))
  else sslice s a b = None).

Check (C17_slice_extend : forall A B (s : @slice A) it, 2 <= B -> swf B s ->
  exists s', sextend B s it = Some s' /\ swf B s' /\ sl_list s' = sl_list s ++ it).

Check (C17_slice_iter : forall A B (s : @slice A), 2 <= B -> swf B s -> siter B s = Some (sl_list s)).

Check (C17_slice_length : forall A B (s : @slice A), 2 <= B -> swf B s -> length (sl_list s) = slen s).

Check (C17_bit_ops_agree : forall k idx h,
  Nat.land (Nat.shiftr idx (Nat.log2 (2 ^ k) * h)) (2 ^ k - 1) = extract_index (2 ^ k) idx h).

Check (C17_leaf_mask_agrees : forall k idx, Nat.land idx (2 ^ k - 1) = idx mod 2 ^ k).
Check (C17_iter_mut_from : forall A B (f : A -> A) (v : @vec A) idx bd, 2 <= B -> wf B v ->
  (idx <= vlen v ->
   exists v', vmap_from B v idx f bd = Some v' /\ wf B v'
              /\ to_list v' = firstn idx (to_list v)
                              ++ (map f (firstn bd (skipn idx (to_list v))) ++ skipn bd (skipn idx (to_list v)))
              /\ vlen v' = vlen v)
  /\ (vlen v < idx -> vmap_from B v idx f bd = None)).

Check (C17_slice_iter_mut : forall A B (s : @slice A) (f : A -> A), 2 <= B -> swf B s ->
  exists s', smap B s f = Some s' /\ swf B s' /\ sl_list s' = map f (sl_list s)).


Check (C17_rc_set_refines_frame : forall A B (hp : @heap A) pre v post idx x vv vv',
  hinv hp (pre ++ v :: post) -> vabs hp v = Some vv -> vset B vv idx x = Some vv' ->
  exists hp' v', hvset B hp v idx x = Some (hp', v')
    /\ hinv hp' (pre ++ v' :: post) /\ vabs hp' v' = Some vv'
    /\ (forall w, In w (pre ++ post) -> vabs hp' w = vabs hp w)).

Check (C17_rc_push_refines_frame : forall A B (hp : @heap A) pre v post x vv vv',
  hinv hp (pre ++ v :: post) -> vabs hp v = Some vv -> vpush B vv x = Some vv' ->
  exists hp' v', hvpush B hp v x = Some (hp', v')
    /\ hinv hp' (pre ++ v' :: post) /\ vabs hp' v' = Some vv'
    /\ (forall w, In w (pre ++ post) -> vabs hp' w = vabs hp w)).

Check (C17_rc_clone : forall A (hp : @heap A) hs v, hinv hp hs -> In v hs ->
  let (hp', v') := hvclone hp v in
  hinv hp' (v' :: hs) /\ vabs hp' v' = vabs hp v /\ forall w, vabs hp' w = vabs hp w).

Check (C17_rc_get : forall A B (hp : @heap A) v vv idx, vabs hp v = Some vv -> hvget B hp v idx = vget B vv idx).

Check (C17_rc_new : forall A (hp : @heap A) hs, hinv hp hs ->
  hinv hp (hvnew :: hs) /\ vabs hp hvnew = Some (@vnew A)).

Check (C17_rc_init : forall A, hinv (@nil (@cell A)) []).

