(* C18 — pinned statements (generated once from Props/C18.v, then frozen: a change of a statement
   must be made in both files). *)
From Coq Require Import List NArith String.
Import ListNotations.
From NV Require Import Mem.Rc Mem.RcProofs Mem.StackBase Gen.StackTables Mem.Stack Mem.StackProofs
  Gen.UnsafeSites Mem.Ledger Props.C18.

Check (C18_rc_protocol_safe :
  forall ops,
  match run MAX_REF_COUNT ops init with
  | Ok (_, st) => rc_inv st /\ thunk_tag_inv st
  | Err _ => False
  | Overflow => True
  end).

Check (C18_rc_history_preserves :
  forall mx ops st, sinv [] st ->
  match run mx ops st with Ok (_, st') => sinv [] st' | Err _ => False | Overflow => True end).

Check (C18_rc_step_preserves :
  forall mx o, striple [] (step mx o) (fun _ => [])).

Check (C18_unique_access_only_when_count_1 :
  forall mx mode tv f h r h',
  h_modify mx mode tv f h = Ok (r, h') -> mode <> WShared -> snd r <> None ->
  exists a b, snd (fst r) = VPtr a /\ nth_error h' a = Some b /\ b_rc b = 1%N).

Check (C18_thunk_tag_inv :
  forall ops outs st v,
  run MAX_REF_COUNT ops init = Ok (outs, st) -> In (KThunk, v) (all_handles st) ->
  exists b, h_thunk_data (KThunk, v) (heap st) = Ok (b, heap st) /\ b_tag b = TThunk).

Check (C18_overflow_needs_max_handles :
  forall mx E h a,
  inv_h E h -> h_inc mx a h = Overflow -> (mx <= N.of_nat (occ a (E ++ heap_refs h)))%N).

Check (C18_stack_typed :
  forall ops,
  no_fault (srun 0 ops []) (fun r => frames_well_tagged (snd r))).

Check (C18_unwind_typed :
  forall st, frames_well_tagged st ->
  no_fault (unwind (List.length st) st) (fun q => snd q = [] /\ snd (fst q) = map it_kind st)).

Check (C18_stack_tables_consistent :
  (forall k m, marker_of_opt k = Some m -> drop_top_kind_opt m = Some k /\ item_size_kind_opt m = Some k) /\
  (forall k k' m, marker_of_opt k = Some m -> marker_of_opt k' = Some m -> k = k') /\
  Forall site_entry_ok guarded_sites /\
  pop_generic_guarded = true /\ pop_unchecked_reads_same_type = true /\
  marker_enum_as_modelled = true /\ unchecked_calls_accounted = true).

Check (C18_sites_all_covered :
  forall key line, In (key, line) sites -> covered key = true).

Check (C18_thunk_copy_fresh :
  forall sh,
  get_state (copy_shape sh) <> Blackholed /\ get_locked (copy_shape sh) = false /\
  copy_shape (copy_shape sh) = copy_shape sh).
