(* C16 — property theorems.  Only statements closed by [exact]; proofs live in Arith/*.v
   (StdProofs.v is about Gen/StdNumber.v, regenerated from std.ncl on every run). *)
From Coq Require Import ZArith QArith Qround Qreduction Qabs List String Bool Permutation.
From NV Require Import Arith.Num Arith.Expr Arith.Eq Arith.NumProofs Arith.StdProofs Arith.EqProofs Arith.EqX Arith.EqXProofs Gen.StdNumber.
Import ListNotations.
Open Scope Q_scope.

Theorem C16_ops_canonical : forall a b, Qred (nadd a b) = nadd a b /\ Qred (nsub a b) = nsub a b /\ Qred (nmul a b) = nmul a b.
Proof. exact ops_canonical. Qed.

Theorem C16_ops_proper : forall a a' b b', a == a' -> b == b' -> nadd a b = nadd a' b' /\ nsub a b = nsub a' b' /\ nmul a b = nmul a' b' /\ ndiv a b = ndiv a' b' /\ nmod a b = nmod a' b'.
Proof. exact ops_proper. Qed.

Theorem C16_add_comm : forall a b, nadd a b = nadd b a.
Proof. exact nadd_comm. Qed.

Theorem C16_add_assoc : forall a b c, nadd (nadd a b) c = nadd a (nadd b c).
Proof. exact nadd_assoc. Qed.

Theorem C16_add_0_l : forall a, nadd 0 a = Qred a.
Proof. exact nadd_0_l. Qed.

Theorem C16_sub_diag : forall a, nsub a a = 0.
Proof. exact nsub_diag. Qed.

Theorem C16_sub_add : forall a b, nadd (nsub a b) b = Qred a.
Proof. exact nsub_nadd. Qed.

Theorem C16_mul_comm : forall a b, nmul a b = nmul b a.
Proof. exact nmul_comm. Qed.

Theorem C16_mul_assoc : forall a b c, nmul (nmul a b) c = nmul a (nmul b c).
Proof. exact nmul_assoc. Qed.

Theorem C16_mul_1_l : forall a, nmul 1 a = Qred a.
Proof. exact nmul_1_l. Qed.

Theorem C16_mul_add_distr : forall a b c, nmul a (nadd b c) = nadd (nmul a b) (nmul a c).
Proof. exact nmul_nadd_distr. Qed.

Theorem C16_div_spec : forall a b, ~ b == 0 -> exists q, ndiv a b = Ok q /\ nmul q b = Qred a.
Proof. exact ndiv_spec. Qed.

Theorem C16_div_zero : forall a b, b == 0 -> ndiv a b = Err DivByZero.
Proof. exact ndiv_zero. Qed.

Theorem C16_cmp_trichotomy : forall a b, (nlt a b = true /\ neqb a b = false /\ ngt a b = false) \/ (nlt a b = false /\ neqb a b = true /\ ngt a b = false) \/ (nlt a b = false /\ neqb a b = false /\ ngt a b = true).
Proof. exact cmp_trichotomy. Qed.

Theorem C16_cmp_duality : forall a b, nlt a b = ngt b a /\ nle a b = nge b a /\ nle a b = negb (ngt a b) /\ nge a b = negb (nlt a b) /\ nle a b = (nlt a b || neqb a b)%bool.
Proof. exact cmp_duality. Qed.

Theorem C16_lt_irrefl : forall a, nlt a a = false.
Proof. exact nlt_irrefl. Qed.

Theorem C16_lt_trans : forall a b c, nlt a b = true -> nlt b c = true -> nlt a c = true.
Proof. exact nlt_trans. Qed.

Theorem C16_le_antisym : forall a b, nle a b = true -> nle b a = true -> neqb a b = true.
Proof. exact nle_antisym. Qed.

Theorem C16_le_total : forall a b, nle a b = true \/ nle b a = true.
Proof. exact nle_total. Qed.

Theorem C16_lt_add_compat : forall a b c, nlt a b = nlt (nadd a c) (nadd b c).
Proof. exact nlt_nadd_compat. Qed.

Theorem C16_lt_mul_compat : forall a b c, 0 < c -> nlt a b = nlt (nmul a c) (nmul b c).
Proof. exact nlt_nmul_compat. Qed.

Theorem C16_cmp_proper : forall a a' b b', a == a' -> b == b' -> nlt a b = nlt a' b' /\ nle a b = nle a' b' /\ neqb a b = neqb a' b'.
Proof. exact cmp_proper. Qed.

Theorem C16_modulo_spec : forall a b, ~ b == 0 -> exists r, nmod a b = Ok r /\ a == inject_Z (trunc (a / b)) * b + r /\ Qabs r < Qabs b /\ (0 <= a -> 0 <= r) /\ (a <= 0 -> r <= 0).
Proof. exact modulo_spec. Qed.

Theorem C16_modulo_zero : forall a b, b == 0 -> nmod a b = Err DivByZero.
Proof. exact modulo_zero. Qed.

Theorem C16_trunc_towards_zero : forall x, (0 <= x -> trunc x = Qfloor x) /\ (x <= 0 -> trunc x = Qceiling x).
Proof. exact trunc_towards_zero. Qed.

Theorem C16_pow_add : forall a m n x y, fits_i64 m = true -> fits_i64 n = true -> fits_i64 (m + n) = true -> npow a (inject_Z m) = Ok x -> npow a (inject_Z n) = Ok y -> npow a (inject_Z (m + n)) = Ok (nmul x y).
Proof. exact pow_add. Qed.

Theorem C16_pow_mul : forall a m n x y, fits_i64 m = true -> fits_i64 n = true -> fits_i64 (m * n) = true -> npow a (inject_Z m) = Ok x -> npow x (inject_Z n) = Ok y -> npow a (inject_Z (m * n)) = Ok y.
Proof. exact pow_mul. Qed.

Theorem C16_pow_neg : forall a n, ~ a == 0 -> fits_i64 n = true -> fits_i64 (- n) = true -> exists x, npow a (inject_Z n) = Ok x /\ npow a (inject_Z (- n)) = Ok (Qred (/ x)).
Proof. exact pow_neg. Qed.

Theorem C16_pow_zero_neg : forall a n, a == 0 -> (n < 0)%Z -> fits_i64 n = true -> npow a (inject_Z n) = Err DivByZero.
Proof. exact pow_zero_neg. Qed.

Theorem C16_pow_0_r : forall a, npow a 0 = Ok 1.
Proof. exact pow_0_r. Qed.

Theorem C16_pow_succ : forall a n x, (0 <= n)%Z -> fits_i64 n = true -> fits_i64 (n + 1) = true -> npow a (inject_Z n) = Ok x -> npow a (inject_Z (n + 1)) = Ok (nmul x a).
Proof. exact pow_succ. Qed.

Theorem C16_pow_unspecified : forall a b, as_i64 b = None -> npow a b = Unspec.
Proof. exact pow_unspecified. Qed.

Theorem C16_pow_beyond_i64_unspecified : exists a n, (- 2 ^ 63 <= n <= 2 ^ 64 - 1)%Z /\ npow a (inject_Z n) = Unspec.
Proof. exact pow_beyond_i64_unspecified. Qed.

Theorem C16_from_sci_spec : forall l, from_sci l == (inject_Z (Z.of_N (digits_val (l_int l))) + inject_Z (Z.of_N (digits_val (l_frac l))) / (10 # 1) ^ Z.of_nat (List.length (l_frac l))) * (10 # 1) ^ l_exp l.
Proof. exact from_sci_spec. Qed.

Theorem C16_from_sci_canonical : forall l, Qred (from_sci l) = from_sci l.
Proof. exact from_sci_canonical. Qed.

Theorem C16_from_sci_leading_zero : forall i f e, from_sci (mkLit (0%N :: i) f e) = from_sci (mkLit i f e).
Proof. exact from_sci_leading_zero. Qed.

Theorem C16_from_sci_trailing_zero : forall i f e, from_sci (mkLit i (f ++ [0%N]) e) = from_sci (mkLit i f e).
Proof. exact from_sci_trailing_zero. Qed.

Theorem C16_from_sci_shift : forall i f e, from_sci (mkLit i f e) = from_sci (mkLit (i ++ f) [] (e - Z.of_nat (List.length f))).
Proof. exact from_sci_shift. Qed.

Theorem C16_from_sci_int : forall ds, from_sci (mkLit ds [] 0) = inject_Z (Z.of_N (digits_val ds)).
Proof. exact from_sci_int. Qed.

Theorem C16_floor_spec : forall x, std1 "floor" x = okn (Qred (inject_Z (Qfloor x))).
Proof. exact floor_spec. Qed.

Theorem C16_floor_char : forall x, exists z, std1 "floor" x = okn (inject_Z z) /\ inject_Z z <= x /\ x < inject_Z z + 1.
Proof. exact floor_char. Qed.

Theorem C16_truncate_spec : forall x, std1 "truncate" x = okn (Qred (inject_Z (trunc x))).
Proof. exact truncate_spec. Qed.

Theorem C16_fract_spec : forall x, std1 "fract" x = okn (Qred (x - inject_Z (trunc x))).
Proof. exact fract_spec. Qed.

Theorem C16_truncate_fract : forall x, exists t f, std1 "truncate" x = okn t /\ std1 "fract" x = okn f /\ x == t + f /\ Qabs f < 1 /\ (0 <= x -> 0 <= f) /\ (x <= 0 -> f <= 0).
Proof. exact truncate_fract. Qed.

Theorem C16_abs_spec : forall x, exists y, std1 "abs" x = okn y /\ y == Qabs x.
Proof. exact abs_value. Qed.

Theorem C16_min_spec : forall x y, exists m, std2 "min" x y = okn m /\ m == mn x y /\ (m = x \/ m = y).
Proof. exact min_spec. Qed.

Theorem C16_max_spec : forall x y, exists m, std2 "max" x y = okn m /\ m == mx x y /\ (m = x \/ m = y).
Proof. exact max_spec. Qed.

Theorem C16_minmax_lattice : forall x y z, mn x y == mn y x /\ mx x y == mx y x /\ mn (mn x y) z == mn x (mn y z) /\ mx (mx x y) z == mx x (mx y z) /\ mn x x == x /\ mx x x == x /\ mn x (mx x y) == x /\ mx x (mn x y) == x /\ mn x y <= x /\ mn x y <= y /\ x <= mx x y /\ y <= mx x y /\ (z <= x -> z <= y -> z <= mn x y) /\ (x <= z -> y <= z -> mx x y <= z) /\ (mn x y = x \/ mn x y = y) /\ (mx x y = x \/ mx x y = y).
Proof. exact minmax_lattice. Qed.

Theorem C16_is_integer_spec : forall x, std1 "is_integer" x = okb (Pos.eqb (Qden (Qred x)) 1).
Proof. exact is_integer_spec. Qed.

Theorem C16_compare_spec : forall x y, std2 "compare" x y = Ok (VEnum (match (x ?= y)%Q with Lt => "Lesser" | Eq => "Equal" | Gt => "Greater" end)).
Proof. exact compare_spec. Qed.

Theorem C16_pow_spec : forall x n, std2 "pow" x n = lift (npow x n).
Proof. exact pow_spec. Qed.

Theorem C16_eq_refl : forall a, wf a = true -> dv_eqb a a = true.
Proof. exact dv_eq_refl. Qed.

Theorem C16_eq_sym : forall a b, wf a = true -> wf b = true -> dv_eqb a b = dv_eqb b a.
Proof. exact dv_eq_sym. Qed.

Theorem C16_eq_trans : forall a b c, wf a = true -> wf b = true -> wf c = true -> dv_eqb a b = true -> dv_eqb b c = true -> dv_eqb a c = true.
Proof. exact dv_eq_trans. Qed.

Theorem C16_eq_perm : forall f g, Permutation f g -> wf (DRec f) = true -> dv_eqb (DRec f) (DRec g) = true.
Proof. exact eq_perm. Qed.

Theorem C16_eq_num_repr : forall p q, (p == q)%Q -> dv_eqb (DNum p) (DNum q) = true.
Proof. exact eq_num_repr. Qed.

Theorem C16_eq_iff_canon : forall a b, wf a = true -> wf b = true -> (dv_eqb a b = true <-> canon a = canon b).
Proof. exact eq_iff_canon. Qed.

Theorem C16_eq_iff_export : forall a b, wf a = true -> wf b = true -> enum_free a = true -> enum_free b = true -> (dv_eqb a b = true <-> export a = export b).
Proof. exact eq_iff_export. Qed.

Theorem C16_eq_export_enum_refuted : exists a b, wf a = true /\ wf b = true /\ export a = export b /\ dv_eqb a b = false.
Proof. exact eq_export_enum_refuted. Qed.

Theorem C16_eq_stack_equiv : forall a b, wf a = true -> wf b = true -> eq_machine a b = Some (dv_eqb a b).
Proof. exact eq_stack_equiv. Qed.

Theorem C16_xeq_norm : forall a b da db, norm [] a = Some da -> norm [] b = Some db -> xwf a = true -> xwf b = true -> xeq_machine a b = Ok (dv_eqb da db).
Proof. exact xeq_norm. Qed.

Theorem C16_xeq_ignores_pending : forall a b a' b' da db, norm [] a = Some da -> norm [] a' = Some da -> norm [] b = Some db -> norm [] b' = Some db -> xwf a = true -> xwf a' = true -> xwf b = true -> xwf b' = true -> xeq_machine a b = xeq_machine a' b'.
Proof. exact xeq_ignores_pending. Qed.

Theorem C16_xeq_embed : forall a b, wf a = true -> wf b = true -> xeq_machine (embed a) (embed b) = Ok (dv_eqb a b).
Proof. exact xeq_embed. Qed.

