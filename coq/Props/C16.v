(* C16 — property theorems.  Only statements closed by [exact]; proofs live in Arith/*.v. *)
From Coq Require Import ZArith QArith Qround Qreduction Qabs List String.
From NV Require Import Arith.Num Arith.Expr Arith.Eq Arith.NumProofs Arith.StdProofs Gen.StdNumber.
Import ListNotations.
Open Scope Q_scope.

Theorem C16_modulo_spec : forall a b, ~ b == 0 ->
  exists r, nmod a b = Ok r
    /\ a == inject_Z (trunc (a / b)) * b + r
    /\ Qabs r < Qabs b
    /\ (0 <= a -> 0 <= r) /\ (a <= 0 -> r <= 0).
Proof. exact modulo_spec. Qed.

Theorem C16_floor_spec : forall x, std1 "floor" x = okn (Qred (inject_Z (Qfloor x))).
Proof. exact floor_spec. Qed.
