(* C12 — evaluations in one session do not interfere.  Only statements closed by [exact];
   the proofs live in coq/Mech/*.v. *)
From Coq Require Import String ZArith List Bool.
Import ListNotations.
From NV Require Import Mech.Syntax Mech.Machine Mech.Spec Mech.Invariants Mech.Broken.

(* In every configuration reachable by the machine (any run of `eval`, `eval_full`, `:query`,
   started on a heap without black-holed thunks) the update frames on the stack reference
   pairwise distinct thunks, and those are exactly the black-holed thunks. *)
Theorem C12_blackhole_iff_on_stack :
  forall c, reachable c ->
    NoDup (upd_locs (stack c)) /\
    forall l, In l (upd_locs (stack c)) <-> blackholed (hp c) l.
Proof. exact blackhole_iff_on_stack_thm. Qed.

(* Unwinding the stack of such a configuration (Drop for VirtualMachine) leaves no black-holed
   thunk, suspends exactly the black-holed ones and changes nothing else. *)
Theorem C12_unwind_clean :
  forall s h, bh_inv s h ->
    let h' := unwind s h in
    clean h' /\
    length h' = length h /\
    (forall l c, nth_error h l = Some c -> st c <> Blackholed -> nth_error h' l = Some c) /\
    (forall l c, nth_error h l = Some c -> st c = Blackholed ->
                 nth_error h' l = Some (set_state Suspended c)) /\
    (unlocked h -> unlocked h').
Proof. exact unwind_clean_thm. Qed.

(* After any history (inputs that succeed, fail at any depth or are abandoned after any number
   of steps) the session heap has no black-holed and no locked thunk. *)
Theorem C12_session_heap_good :
  forall h : list input,
    clean (sheap (fst (sess_run empty_session h))) /\
    unlocked (sheap (fst (sess_run empty_session h))).
Proof. exact session_heap_good. Qed.

(* The broken machine (no unwinding) is refuted by a concrete history. *)
Theorem C12_unwind_clean_broken_refuted :
  exists h, count_blackholed (sheap (fst (sess_run_broken empty_session h))) <> 0.
Proof. exact unwind_clean_broken_refuted_lemma. Qed.

Theorem C12_session_equiv_broken_refuted :
  exists h k e n v,
    snd (sess_step_broken (fst (sess_run_broken empty_session h)) (IEval k e)) = OErr EInfRec /\
    spec_run n (defs_of h) e = Val v.
Proof. exact session_equiv_broken_refuted_lemma. Qed.
