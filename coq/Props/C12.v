(* C12 — evaluations in one session do not interfere.  Only statements closed by [exact];
   the proofs live in coq/Mech/*.v; non-vacuity Examples (hypotheses met by non-trivial
   configurations) are in coq/Mech/Examples.v and coq/Mech/Broken.v.

   Objects (all executable, coq/Mech/Machine.v and coq/Mech/Spec.v):
     sess_run / sess_step : the REPL session over the call-by-need machine; every input carries the
                            step budget of hook H1 ([Abort k e] = [IEval k e] with a small k); the
                            VM is unwound after every input, whatever its outcome.
     spec_run n defs e    : the call-by-name, heap-free, memoisation-free meaning (fuel n) of the
                            stand-alone program `let x1 = e1 in ... in e`.
     fresh_eval k defs e  : the machine started from an empty session on that program. *)
From Coq Require Import String ZArith List Bool.
Import ListNotations.
From NV Require Import Mech.Syntax Mech.Machine Mech.Spec Mech.Invariants Mech.SpecFacts
  Mech.Refine Mech.RefineFull Mech.Broken Mech.Examples.

(* In every configuration reachable by the machine (any run of `eval`, `eval_full`, `:query`,
   started on a heap without black-holed thunks) the update frames on the stack reference
   pairwise distinct thunks, and those are exactly the black-holed thunks. *)
Theorem C12_blackhole_iff_on_stack :
  forall c, reachable c ->
    NoDup (upd_locs (stack c)) /\
    forall l, In l (upd_locs (stack c)) <-> blackholed (hp c) l.
Proof. exact blackhole_iff_on_stack_thm. Qed.

(* Unwinding the stack of such a configuration (Drop for VirtualMachine) leaves no black-holed
   thunk, suspends exactly the black-holed ones and changes nothing else (values of evaluated
   thunks, locks). *)
Theorem C12_unwind_clean :
  forall s h, bh_inv s h ->
    let h' := unwind s h in
    clean h' /\
    length h' = length h /\
    (forall l c, nth_error h l = Some c -> st c <> Blackholed -> nth_error h' l = Some c) /\
    (forall l c, nth_error h l = Some c -> st c = Blackholed ->
                 nth_error h' l = Some (set_state Suspended c)) /\
    (unlocked h -> unlocked h').
Proof. exact unwind_clean_thm. Qed.

(* After any history (inputs that succeed, fail at any depth or are abandoned after any number
   of steps) the session heap has no black-holed and no locked thunk. *)
Theorem C12_session_heap_good :
  forall h : list input,
    clean (sheap (fst (sess_run empty_session h))) /\
    unlocked (sheap (fst (sess_run empty_session h))).
Proof. exact session_heap_good. Qed.

(* Memoised cells are sound, in every configuration reached while evaluating any input after any
   history: there is an assignment G of call-by-name closures to the thunks such that every thunk
   was created with the term of its closure in a pointwise corresponding environment, and every
   Evaluated thunk holds (a machine representation of) the call-by-name value of its closure.
   Hence the residue of earlier successful or partial evaluations is semantically invisible. *)
Theorem C12_evaluated_cells_sound :
  forall (h : list input) (e : tm) (fuel : nat),
    let s := fst (sess_run empty_session h) in
    forall r cf k, run fuel (mkcfg (CTm e, stop s) [] (sheap s)) = (r, cf, k) ->
    exists G : list sclos,
      length G = length (hp cf) /\
      forall l c, nth_error (hp cf) l = Some c ->
        exists t env r,
          orig c = (CTm t, env) /\ nth_error G l = Some (t, r) /\ env_rel G env r /\
          match st c with
          | Evaluated => exists n v, seval n t r = Val v /\ val_rel G (cur c) v
          | _ => cur c = orig c
          end.
Proof. exact evaluated_cells_sound_thm. Qed.

(* THE PROPERTY.  For every history h (definitions, evaluations, full evaluations, queries; each
   succeeding, failing at any depth, or abandoned after any number of steps) and every input e
   with any budget k: if the evaluation of e in the session after h is not itself abandoned, then
     - a value: the stand-alone program `let defs in e` has, for some fuel, the call-by-name value
       with the same observable shape;
     - an error other than InfiniteRecursion: the stand-alone program raises the same error class;
     - InfiniteRecursion: the stand-alone program diverges (for every fuel) — never spurious. *)
Theorem C12_session_equiv :
  forall (h : list input) (k : nat) (e : tm),
    match snd (sess_step (fst (sess_run empty_session h)) (IEval k e)) with
    | OOk ob => exists n v, spec_run n (defs_of h) e = Val v /\ sobs v = ob
    | OErr EInfRec => forall n, spec_run n (defs_of h) e = OOF
    | OErr c => exists n, spec_run n (defs_of h) e = Err c
    | OBudget => True
    | OBound | OData _ => False
    end.
Proof. exact session_equiv_thm. Qed.

(* The property for a full evaluation (`eval_full`, :print) as the observed input: the data tree
   (or error class, or divergence) is that of the call-by-name deep evaluation [sfull] of the
   stand-alone program. *)
Theorem C12_session_equiv_full :
  forall (h : list input) (k : nat) (e : tm),
    match snd (sess_step (fst (sess_run empty_session h)) (IFull k e)) with
    | OData d => exists n, spec_run_full n (defs_of h) e = Val d
    | OErr EInfRec => forall n, spec_run_full n (defs_of h) e = OOF
    | OErr c => exists n, spec_run_full n (defs_of h) e = Err c
    | OBudget => True
    | OBound | OOk _ => False
    end.
Proof. exact session_equiv_full_thm. Qed.

(* The property for `:query x.p1...pn` as the observed input. *)
Theorem C12_session_equiv_query :
  forall (h : list input) (k : nat) (x : string) (path : list string),
    match snd (sess_step (fst (sess_run empty_session h)) (IQuery k x path)) with
    | OOk ob => exists n v, spec_run_query n (defs_of h) x path = Val v /\ sobs v = ob
    | OErr EInfRec => forall n, spec_run_query n (defs_of h) x path = OOF
    | OErr c => exists n, spec_run_query n (defs_of h) x path = Err c
    | OBudget => True
    | OBound | OData _ => False
    end.
Proof. exact session_equiv_query_thm. Qed.

(* The same against the fresh machine: whenever neither run exhausts its budget, the input has
   the same outcome in the session after h as the stand-alone program on an empty session. *)
Theorem C12_session_vs_fresh :
  forall (h : list input) (k k' : nat) (e : tm),
    let o_session := snd (sess_step (fst (sess_run empty_session h)) (IEval k e)) in
    let o_fresh := fresh_eval k' (defs_of h) e in
    o_session <> OBudget -> o_fresh <> OBudget -> o_session = o_fresh.
Proof. exact session_vs_fresh_thm. Qed.

(* The broken machine (no unwinding on drop) is refuted by a concrete history:
   let x = 1 + 1 ; x abandoned after 3 steps ; x. *)
Theorem C12_unwind_clean_broken_refuted :
  exists h, count_blackholed (sheap (fst (sess_run_broken empty_session h))) <> 0.
Proof. exact unwind_clean_broken_refuted_lemma. Qed.

Theorem C12_session_equiv_broken_refuted :
  exists h k e n v,
    snd (sess_step_broken (fst (sess_run_broken empty_session h)) (IEval k e)) = OErr EInfRec /\
    spec_run n (defs_of h) e = Val v.
Proof. exact session_equiv_broken_refuted_lemma. Qed.

(* eval_record_spine's lock protocol: the variant of eval_guarded that does not unlock on the
   error path leaves a locked thunk behind an abandoned eval_record_spine, and the next
   eval_record_spine differs from the stand-alone one. *)
Theorem C12_spine_nounlock_refuted :
  exists h k e,
    count_locked (sheap (fst (sess_run_nounlock empty_session h))) <> 0 /\
    snd (sess_step_nounlock (fst (sess_run_nounlock empty_session h)) (ISpine k e))
    <> snd (sess_step_nounlock empty_session (ISpine k (chain (defs_of h) e))).
Proof. exact spine_nounlock_refuted_lemma. Qed.

(* Copies of thunk data that keep the thunk's state (ThunkData's derived Clone at the pinned
   commit, reached through Thunk::saturate / with_pos_idx when a record merge meets a field that
   is being evaluated) break the property: the history
     let o = { r = { y = std.seq m (1 + true) }, m = r & { y = 2 } } ; o.r.y (type error) ; o.m.y
   ends with an infinite recursion although the stand-alone program raises the type error.  The
   machine all the theorems above are about creates such copies Suspended (the repair of
   proposed/C12-saturate-state.diff). *)
Theorem C12_session_equiv_thunk_copy_refuted :
  exists h k e n c,
    snd (sess_step_satcopy (fst (sess_run_satcopy empty_session h)) (IEval k e)) = OErr EInfRec /\
    spec_run n (defs_of h) e = Err c.
Proof. exact session_equiv_thunk_copy_refuted_lemma. Qed.

(* ... and make the result of ONE evaluation depend on the order of the operands of `+`. *)
Theorem C12_thunk_copy_order_refuted :
  exists k n,
    snd (sess_step_satcopy empty_session (IEval k (copy_single false))) = OErr EInfRec /\
    snd (sess_step_satcopy empty_session (IEval k (copy_single true))) = OOk (ONum 10) /\
    spec_run n [] (copy_single false) = Val (VNum 10) /\
    snd (sess_step empty_session (IEval k (copy_single false))) = OOk (ONum 10).
Proof. exact thunk_copy_order_refuted_lemma. Qed.
