(* Pinned statements of the C07 theorems: each [Check] fails to compile if the statement in
   Props/C07.v is changed. *)
From Coq Require Import List NArith ZArith Bool.
Import ListNotations.
From NV Require Import Rec.FreeVars Rec.FreeVarsProofs.
From NV Require Import Rec.Lang Rec.Spec Rec.Mech Rec.SpecProofs Rec.MechInv Rec.MechMerge Rec.History
  Rec.Refuted Rec.Bridge Rec.Nested Rec.NestedProofs.
From NV Require Import Props.C07.

Check (C07_collect_sound_complete : forall t x, In x (collect false t) <-> free x t).
Check (C07_deps_complete_stat : forall stat incl k f x,
  In (k, f) stat -> free_field x f -> In x (rec_fields stat incl) ->
  exists d, In (k, d) (deps_stat false stat incl) /\ In x d).
Check (C07_deps_complete_incl : forall stat incl k ts t x,
  In (k, ts) incl -> In t ts -> free_ty x t -> In x (rec_fields stat incl) ->
  exists d, In (k, d) (deps_stat false stat incl) /\ In x d).
Check (C07_deps_complete_dyn : forall stat incl dyn i nm f x,
  nth_error dyn i = Some (nm, f) -> free_field x f -> In x (rec_fields stat incl) ->
  exists d, nth_error (deps_dyn false stat incl dyn) i = Some d /\ In x d).
Check (C07_deps_sound_stat : forall stat incl k d x,
  In (k, d) (deps_stat false stat incl) -> In x d ->
  In x (rec_fields stat incl) /\
  ((exists f, In (k, f) stat /\ free_field x f) \/ (exists ts t, In (k, ts) incl /\ In t ts /\ free_ty x t))).
Check (C07_deps_pre_fix_refuted :
  exists stat incl k f x,
    In (k, f) stat /\ free_field x f /\ In x (rec_fields stat incl) /\
    ~ (exists d, In (k, d) (deps_stat true stat incl) /\ In x d)).
Check (C07_override_refines : forall u st rid, coherent u st rid ->
  forall fuel k, ifield fuel st rid k = sfield fuel (abs st rid) k).
Check (C07_eval_literal_ok : forall u c st l,
  faithful u c -> NoDup (lit_names l) -> (u = true -> lit_closed l) ->
  exists st', eval_literal c st l = Some (st', length (recs st)) /\
              extends st st' /\ coherent u st' (length (recs st)) /\
              srec_sim (abs st' (length (recs st))) (sden_lit l)).
Check (C07_merge_ok : forall u c st rid1 rid2,
  faithful u c -> coherent u st rid1 -> coherent u st rid2 ->
  exists st' rid', merge c st rid1 rid2 = Some (st', rid') /\
                   extends st st' /\ coherent u st' rid' /\
                   srec_sim (abs st' rid') (smerge (abs st rid1) (abs st rid2))).
Check (C07_merge_refines : forall u c st rid1 rid2 st' rid',
  faithful u c -> coherent u st rid1 -> coherent u st rid2 ->
  merge c st rid1 rid2 = Some (st', rid') ->
  forall fuel k, ifield fuel st' rid' k = sfield fuel (smerge (abs st rid1) (abs st rid2)) k).
Check (C07_operands_unchanged : forall u c st rid1 rid2 st' rid',
  faithful u c -> coherent u st rid1 -> coherent u st rid2 ->
  merge c st rid1 rid2 = Some (st', rid') ->
  forall r, coherent u st r -> forall fuel k, ifield fuel st' r k = ifield fuel st r k).
Check (C07_extends_coherent : forall u st st' rid,
  extends st st' -> coherent u st rid -> coherent u st' rid /\ abs st' rid = abs st rid).
Check (C07_slookup_smerge : forall R1 R2 k,
  slookup k (smerge R1 R2) = smerge_opt (slookup k R1) (slookup k R2)).
Check (C07_sfield_sim : forall R R', srec_sim R R' -> forall fuel k, sfield fuel R k = sfield fuel R' k).
Check (C07_history_refines : forall u c h,
  faithful u c -> lits_ok u h ->
  let (st, slots) := irun c h in Forall2 (slot_ok u st) slots (srun h)).
Check (C07_history_fields : forall u c h i,
  faithful u c -> lits_ok u h ->
  let (st, slots) := irun c h in
  match nth_error slots i, nth_error (srun h) i with
  | Some (Rid r), Some (Some R) => forall fuel k, ifield fuel st r k = sfield fuel R k
  | Some BadRef, Some None => True
  | None, None => True
  | _, _ => False
  end).
Check (C07_history_fields_unknown : forall h i,
  hist_closed h ->
  let (st, slots) := irun (with_unknown cfg_fixed) h in
  match nth_error slots i, nth_error (srun h) i with
  | Some (Rid r), Some (Some R) => forall fuel k, ifield fuel st r k = sfield fuel R k
  | Some BadRef, Some None => True
  | None, None => True
  | _, _ => False
  end).
Check (C07_depsunknown_equiv : forall h i,
  hist_closed h ->
  let (st, slots) := irun cfg_fixed h in
  let (stu, slotsu) := irun (with_unknown cfg_fixed) h in
  match nth_error slots i, nth_error slotsu i with
  | Some (Rid r), Some (Rid ru) => forall fuel k, ifield fuel stu ru k = ifield fuel st r k
  | Some BadRef, Some BadRef => True
  | None, None => True
  | _, _ => False
  end).
Check (C07_inst_ok : forall c F st ro k,
  faithful false c -> coherent false st ro ->
  inst_rel st (inst c F st ro k) (sinst F (abs st ro) k)).
Check (C07_nested_history_fields : forall c h i k F,
  faithful false c -> lits_ok false h ->
  let (st, slots) := irun c h in
  match nth_error slots i, nth_error (srun h) i with
  | Some (Rid r), Some (Some R) =>
      ifield F st r k = sfield F R k /\
      match inst c F st r k, sinst F R k with
      | Some (st', ri), Some Ri => forall fuel p, ifield fuel st' ri p = sfield fuel Ri p
      | None, None => True
      | _, _ => False
      end
  | Some BadRef, Some None => True
  | None, None => True
  | _, _ => False
  end).
Check (C07_vars_free : forall t x, In x (vars t) <-> free x (emb t)).
Check (C07_svars_free : forall s x, In x (svars s) <-> free x (emb_src s)).
Check (C07_cfg_fixed_faithful : faithful false cfg_fixed).
Check (C07_cfg_partA_faithful : faithful false cfg_partA).
Check (C07_literal_deps_agree_stat : forall (l : literal) k d x,
  In (k, d) l -> fdyn d = false ->
  exists ds, In (k, ds) (deps_stat false (emb_stat l) []) /\
             (In x ds <-> exists ds', field_deps cfg_partA (lit_scope l) d = Some ds' /\ In x ds')).
Check (C07_literal_deps_agree_dyn : forall (l : literal) k d x,
  In (k, d) l -> fdyn d = true ->
  exists ds, In ds (deps_dyn false (emb_stat l) [] (emb_dyn l)) /\
             (In x ds <-> exists ds', field_deps cfg_partA (lit_scope l) d = Some ds' /\ In x ds')).
Check (C07_static_history_same : forall b c h,
  hist_static h -> forall sd, irun_from (set_wrap b c) sd h = irun_from c sd h).
Check (C07_history_fields_current : forall h i,
  hist_static h -> lits_ok false h ->
  let (st, slots) := irun cfg_current h in
  match nth_error slots i, nth_error (srun h) i with
  | Some (Rid r), Some (Some R) => forall fuel k, ifield fuel st r k = sfield fuel R k
  | Some BadRef, Some None => True
  | None, None => True
  | _, _ => False
  end).
Check (C07_dynamic_field_indirection_refuted :
  exists h i k, (forall l, In (SLit l) h -> NoDup (lit_names l)) /\
                field_of cfg_current h i k = Ok 11 /\ spec_field_of h i k = Ok 6 /\
                field_of cfg_fixed h i k = Ok 6).
Check (C07_revert_keeps_cache_panics :
  exists h, (forall l, In (SLit l) h -> NoDup (lit_names l)) /\
            exists i, nth_error (snd (irun cfg_share_assert h)) i = Some Panicked).
Check (C07_revert_keeps_cache_refuted :
  exists h i k, field_of cfg_share_skip h i k = Ok 2 /\ spec_field_of h i k = Ok 6).
Check (C07_revert_keeps_cache_overwrite_refuted :
  exists h i k, field_of cfg_share_overwrite h i k = Ok 6 /\ spec_field_of h i k = Ok 2).
Check (C07_inplace_revert_refuted :
  exists h i k, field_of cfg_inplace h i k = Ok 6 /\ spec_field_of h i k = Ok 2
                /\ field_of cfg_fixed h i k = Ok 2).
Check (C07_deps_incomplete_refuted :
  exists h i k, field_of cfg_incomplete h i k = Err UnboundId /\ spec_field_of h i k = Ok 1).
Check (C07_deps_incomplete_after_override_refuted :
  field_of cfg_incomplete h_incomplete2 0 1%N = Ok 0 /\ spec_field_of h_incomplete2 0 1%N = Ok 0 /\
  field_of cfg_incomplete h_incomplete2 2 1%N = Err UnboundId /\ spec_field_of h_incomplete2 2 1%N = Ok 1).
