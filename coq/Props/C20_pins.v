(* C20 — pinned statements: each theorem of Props/C20.v must still have exactly this type. *)
From Coq Require Import List NArith Bool String.
Import ListNotations.
From NV Require Import Pkg.Version Pkg.VersionProofs Pkg.Resolve Pkg.ResolveProofs Pkg.Spec
  Pkg.CheckerProofs Pkg.Lock Pkg.LockProofs Pkg.Scheme Pkg.SchemeProofs.
From NV Require Import Props.C20.


Check (C20_req_views_agree : forall r v,
  (bucket_contains (bucket_of_req r) v && range_contains (range_of_req r) v) = satisfies r v
  /\ satisfies r v = matches_fix r v).

Check (C20_req_views_agree_cur_refuted :
  exists r v, bucket_contains (bucket_of_req r) v = true
           /\ range_contains (range_of_req r) v = true
           /\ satisfies r v = true
           /\ matches_cur r v = false).

Check (C20_req_views_agree_cur_pre_refuted :
  exists r v, matches_cur r v = true
           /\ bucket_contains (bucket_of_req r) v = false
           /\ satisfies r v = false).

Check (C20_matches_cur_on_solver_view : forall r v,
  satisfies r v = true -> matches_cur r v = negb (minor_gap r v)).

Check (C20_bucket_unique : forall b v,
  bucket_wf b = true -> bucket_contains b v = true -> b = bucket_of_ver v).

Check (C20_checker_correct : forall idx man a,
  valid_solution idx man a = true
  <-> keys_nodup a = true /\ Valid idx man (fun k => alookup k a)).

Check (C20_exists_solution_sound : forall idx man a,
  exists_solution idx man = Some a -> valid_solution idx man a = true).

Check (C20_exists_solution_complete : forall idx man,
  exists_solution idx man = None <-> forall a, valid_solution idx man a = false).

Check (C20_lookup_right_of_valid : forall idx man a d,
  valid_solution idx man a = true -> edge idx man a d ->
  exists w, index_dep_version matches_fix (index_packages a) d = Some w
         /\ alookup (dep_key d) a = Some w
         /\ satisfies (dreq d) w = true).

Check (C20_lookup_right_any_order : forall idx man a d vs',
  valid_solution idx man a = true -> edge idx man a d ->
  (forall x, In x vs' <-> In x (vers_of a (dpkg d))) ->
  exists w, find (matches_fix (dreq d)) vs' = Some w
         /\ alookup (dep_key d) a = Some w /\ satisfies (dreq d) w = true).

Check (C20_lookup_cur_iff_not_known : forall idx man a d w,
  valid_solution idx man a = true -> edge idx man a d -> alookup (dep_key d) a = Some w ->
  (index_dep_version matches_cur (index_packages a) d = Some w
   <-> known_class (index_packages a) d w = false)).

Check (C20_lookup_cur_wrong_is_unsatisfied : forall idx man a d w x,
  valid_solution idx man a = true -> edge idx man a d -> alookup (dep_key d) a = Some w ->
  index_dep_version matches_cur (index_packages a) d = Some x -> x <> w ->
  satisfies (dreq d) x = false).

Check (C20_one_version_per_class : forall idx man a id x y,
  valid_solution idx man a = true ->
  In x (vers_of a id) -> In y (vers_of a id) -> bucket_of_ver x = bucket_of_ver y -> x = y).

Check (C20_lookup_total_and_right : forall solve, pubgrub_sound solve ->
  forall idx entries man sol d,
  solve idx (locked_of entries) man = Solved sol -> edge idx man sol d ->
  exists w, index_dep_version matches_fix (index_packages sol) d = Some w
         /\ alookup (dep_key d) sol = Some w
         /\ satisfies (dreq d) w = true).

Check (C20_lookup_total_and_right_except_known : forall solve, pubgrub_sound solve ->
  forall idx entries man sol d,
  solve idx (locked_of entries) man = Solved sol -> edge idx man sol d ->
  exists w, alookup (dep_key d) sol = Some w
         /\ satisfies (dreq d) w = true
         /\ (index_dep_version matches_cur (index_packages sol) d = Some w
             <-> known_class (index_packages sol) d w = false)).

Check (C20_oracle_answer_valid : forall solve, pubgrub_sound solve ->
  forall idx entries man sol,
  solve idx (locked_of entries) man = Solved sol -> valid_solution idx man sol = true).

Check (C20_pubgrub_contract_satisfiable :
  pubgrub_sound brute_solver /\ pubgrub_complete brute_solver).

Check (C20_lock_no_crash : forall idx man a fuel,
  valid_solution idx man a = true ->
  ~ crashes (lock_new fuel matches_fix (Res idx (index_packages a)) man)).

Check (C20_lock_new_ok : forall idx man a fuel,
  valid_solution idx man a = true ->
  (List.length (all_packages (Res idx (index_packages a))) < fuel)%nat ->
  exists l, lock_new fuel matches_fix (Res idx (index_packages a)) man = Ok l).

Check (C20_lock_no_crash_except_known : forall idx man a fuel,
  valid_solution idx man a = true ->
  (forall d w, edge idx man a d -> alookup (dep_key d) a = Some w ->
               known_class (index_packages a) d w = false) ->
  ~ crashes (lock_new fuel matches_cur (Res idx (index_packages a)) man)).

Check (C20_package_map_no_crash : forall idx man a,
  valid_solution idx man a = true ->
  exists m, package_map matches_fix (Res idx (index_packages a)) man = Ok m).

Check (C20_namer_injective : forall calls p q e,
  let nm := namer_run calls namer_empty in
  lookup_ppkg p (assigned nm) = Some e -> lookup_ppkg q (assigned nm) = Some e -> p = q).

Check (C20_namer_names_distinct : forall calls0 calls n1 p1 n2 p2,
  let nm := namer_run calls0 namer_empty in
  let r1 := namer_name nm n1 p1 in
  let r2 := namer_name (namer_run calls (snd r1)) n2 p2 in
  fst r1 = fst r2 -> p1 = p2).

Check (C20_relock_stable : forall idx man locked,
  valid_solution idx man locked = true ->
  forall P, run idx locked man P ->
    (forall k v, In (k, v) P -> alookup k locked = Some v)
    /\ ~ conflict idx man P
    /\ (forall k rgs, needed idx man P k -> (forall rg, In rg rgs -> imposes idx man P k rg) ->
          exists w, alookup k locked = Some w /\ choose_version idx locked k rgs = Some w)).

Check (C20_up_to_date_sound : forall idx man1 man2 (l : lockfile),
  valid_solution idx man1 (locked_of (lock_entries l)) = true ->
  up_to_date matches_fix l man2 = true ->
  valid_solution idx man2 (locked_of (lock_entries l)) = true).

Check (C20_copy_from_lock_right : forall idx man1 man2 (l : lockfile) d,
  valid_solution idx man1 (locked_of (lock_entries l)) = true ->
  up_to_date matches_fix l man2 = true ->
  edge idx man2 (locked_of (lock_entries l)) d ->
  exists w, index_dep_version matches_fix (copy_from_lock l) d = Some w
         /\ alookup (dep_key d) (locked_of (lock_entries l)) = Some w
         /\ satisfies (dreq d) w = true).

Check (C20_up_to_date_cur_refuted :
  exists idx man1 man2 (l : lockfile),
    valid_solution idx man1 (locked_of (lock_entries l)) = true
    /\ up_to_date matches_cur l man2 = true
    /\ valid_solution idx man2 (locked_of (lock_entries l)) = false
    /\ exists_solution idx man2 <> None).

Check (C20_lock_crash_cur_refuted :
  valid_solution w_idx w_man w_sol = true
  /\ exists_solution w_idx w_man = Some w_sol
  /\ lock_new 10 matches_cur (Res w_idx (index_packages w_sol)) w_man = Panic
  /\ package_map matches_cur (Res w_idx (index_packages w_sol)) w_man = Panic
  /\ (exists l, lock_new 10 matches_fix (Res w_idx (index_packages w_sol)) w_man = Ok l)).

Check (C20_lookup_wrong_cur_refuted :
  valid_solution w2_idx w2_man w2_sol = true
  /\ index_dep_version matches_cur (index_packages w2_sol) (Dep "a" 0 (RCompat 1 None None)) = Some (V 1 0 0 "alpha")
  /\ satisfies (RCompat 1 None None) (V 1 0 0 "alpha") = false
  /\ index_dep_version matches_fix (index_packages w2_sol) (Dep "a" 0 (RCompat 1 None None)) = Some (V 1 2 0 EmptyString)).

Check (C20_self_dependency_no_solution :
  exists_solution w3_idx w3_man = None /\ valid_solution w3_idx w3_man [] = false).
