(* C19 — property theorems.  Only statements closed by [exact]; proofs live in Lsp/*.v.

   [good pick disk rank fuel h]: [pick] (the iteration order of the server's hash maps) is any
   permutation; every import of every document version in [h] and on [disk] goes to a document of
   smaller [rank] (one DAG order for the whole history), ranks are below [fuel]; the client sends
   didChange only for open documents.  [cf] is any configuration of the model: [cfg_patched] is the
   code as it is now, [cfg_code] the code before the fixes 36b39fb (close_file) and 257606a
   (self import) that this model led to. *)
From Coq Require Import List Arith Permutation.
Import ListNotations.
From NV Require Import Lsp.World Lsp.Spec Lsp.Inv Lsp.Witness Lsp.SelfImport Lsp.Main.

(* the server never terminates abnormally *)
Theorem C19_no_crash : forall cf pick disk rank fuel h, good pick disk rank fuel h ->
  exists w, run cf pick disk fuel h = Ok w.
Proof. exact no_crash. Qed.

(* after every history, every cached analysis of a current file was computed from the current text
   and its diagnostics equal those recomputed from the current documents *)
Theorem C19_analysis_fresh : forall cf pick disk rank fuel h w, good pick disk rank fuel h ->
  run cf pick disk fuel h = Ok w ->
  forall p f a, live_id w p = Some f -> w_an w f = Some a ->
    final_docs disk h p = Some (a_src a) /\ a_state a <> Typechecking /\
    (a_state a = Typechecked ->
       same_diags (a_tdiags a) (expect_t (final_docs disk h) fuel p) /\ NoDup (a_tdiags a)).
Proof. exact analysis_fresh. Qed.

Theorem C19_open_analysed : forall cf pick disk rank fuel h w, good pick disk rank fuel h ->
  run cf pick disk fuel h = Ok w ->
  forall p, bufs_after no_bufs h p <> None ->
    exists f a, live_id w p = Some f /\ w_an w f = Some a /\ a_state a = Typechecked.
Proof. exact open_analysed. Qed.

(* two histories ending in the same documents leave the same analyses *)
Theorem C19_answers_history_independent :
  forall cf pick1 pick2 disk rank fuel h1 h2 w1 w2,
  good pick1 disk rank fuel h1 -> good pick2 disk rank fuel h2 ->
  (forall p, bufs_after no_bufs h1 p = bufs_after no_bufs h2 p) ->
  run cf pick1 disk fuel h1 = Ok w1 -> run cf pick2 disk fuel h2 = Ok w2 ->
  forall p,
    (bufs_after no_bufs h1 p <> None -> exists a1 a2, view w1 p = Some a1 /\ view w2 p = Some a2) /\
    (forall a1 a2, view w1 p = Some a1 -> view w2 p = Some a2 ->
       a_src a1 = a_src a2 /\
       (a_state a1 = Typechecked -> a_state a2 = Typechecked -> same_diags (a_tdiags a1) (a_tdiags a2))).
Proof. exact answers_history_independent. Qed.

(* no stale, no missing and no duplicated diagnostics: what was last published for a current
   file is, as a duplicate-free list, what a fresh server computes from the final documents, and
   every open document has been published.
   For the code as it is now ([purge_closed] = true) on every history; for the code before fix
   36b39fb only on histories without didClose (C19_closed_buffer_refuted: the restriction is needed). *)
Theorem C19_no_dup_no_stale : forall cf pick disk rank fuel h w, good pick disk rank fuel h ->
  (purge_closed cf = true \/ no_close h) ->
  run cf pick disk fuel h = Ok w ->
  (forall p ds, w_pub w p = Some ds -> live_id w p <> None ->
     same_diags ds (expect (final_docs disk h) fuel p) /\ NoDup ds) /\
  (forall p, bufs_after no_bufs h p <> None -> w_pub w p <> None).
Proof. exact diagnostics_fresh. Qed.

(* supporting invariants *)
Theorem C19_rev_imports_complete : forall cf pick disk rank fuel h w, good pick disk rank fuel h ->
  run cf pick disk fuel h = Ok w ->
  forall f a q, w_an w f = Some a -> a_state a = Typechecked ->
    In q (fst (reach (final_docs disk h) (c_imports (a_src a)))) ->
    exists t, live_id w q = Some t /\ w_an w t <> None /\ In f (w_rev w t) /\ In t (w_imports w f).
Proof. exact rev_imports_complete. Qed.

Theorem C19_failed_imports_complete : forall cf pick disk rank fuel h w, good pick disk rank fuel h ->
  run cf pick disk fuel h = Ok w ->
  forall f a q, w_an w f = Some a -> a_state a = Typechecked ->
    snd (reach (final_docs disk h) (c_imports (a_src a))) = Some q -> In f (w_failed w q).
Proof. exact failed_imports_complete. Qed.

(* the hypotheses are satisfiable by a history with an import, a close and a type error *)
Theorem C19_good_example : good idpick disk1 rank1 2 hist1.
Proof. exact good_example. Qed.

(* Refuted statements, each with a witness replayed on the real server (corpus/C19,
   known_findings.txt): before fix 36b39fb the diagnostics published for a closed file could be
   stale even inside the class of the theorems; with cyclic imports (outside that class, still the
   case) diagnostics depend on the order of the history; before fix 257606a a self import made the
   server overflow its stack. *)
Theorem C19_closed_buffer_refuted :
  exists rank disk h w ds,
    hist_respects rank disk h /\ client_ok no_bufs h = true /\
    run cfg_code idpick disk 50 h = Ok w /\
    w_pub w 0 = Some ds /\ live_id w 0 <> None /\
    ~ same_diags ds (expect (cur disk (bufs_after no_bufs h)) 50 0).
Proof. exact closed_buffer_refuted. Qed.

Theorem C19_cycle_order_refuted :
  exists h1 h2 w1 w2 d1 d2,
    (forall p, bufs_after no_bufs h1 p = bufs_after no_bufs h2 p) /\
    run cfg_code idpick nodisk 50 h1 = Ok w1 /\ run cfg_code idpick nodisk 50 h2 = Ok w2 /\
    w_pub w1 0 = Some d1 /\ w_pub w2 0 = Some d2 /\ ~ same_diags d1 d2.
Proof. exact cycle_order_refuted. Qed.

(* a document importing itself makes typecheck_uncached recurse without bound: whatever the
   recursion budget, the model of the code as it is runs out of it (stack overflow of the server) *)
Theorem C19_self_import_diverges :
  forall fuel, run cfg_code idpick nodisk fuel [Open 0 (mkC 1 [0] SOk)] = Crash Overflow.
Proof. exact self_import_overflows. Qed.

(* the two fixes repair their witnesses *)
Theorem C19_closed_buffer_patched :
  exists w, run cfg_patched idpick disk1 50 hist1 = Ok w /\ w_pub w 0 = Some [].
Proof. exact closed_buffer_patched. Qed.

Theorem C19_self_import_patched :
  exists w, run cfg_patched idpick nodisk 50 [Open 0 (mkC 1 [0] SOk)] = Ok w /\ w_pub w 0 = Some [].
Proof. exact self_import_patched. Qed.
