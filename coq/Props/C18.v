(* C18 — evaluation never performs an invalid memory access: property theorems.
   Only statements closed by [exact]; the proofs are in Mem/RcProofs.v, Mem/StackProofs.v, Mem/Ledger.v.

   PARTIAL by nature: what is proved are the PROTOCOLS whose violation is the memory error
   (reference counting of value blocks and of the std Rc boxes between them, unique access before
   mutation, move-out of payloads, the Thunk wrapper's tag discipline, the marker discipline of the
   byte stack), for every history of the modelled operations.  Layout, bit patterns, transmutes,
   pointer provenance and the allocator are not modelled (see Mem/Ledger.v: LayoutOnly / ByTagTest). *)
From Coq Require Import List NArith String.
Import ListNotations.
From NV Require Import Mem.Rc Mem.RcProofs Mem.StackBase Gen.StackTables Mem.Stack Mem.StackProofs
  Gen.UnsafeSites Mem.Ledger.

(* every history of value-level operations, from the empty state: no error state (use after free,
   double free, count underflow, clone of a dead block, &mut while shared, unchecked thunk decode of
   a non-thunk), and at the end the count of every live block is exactly the number of live handles
   to it and is at least 1 (a block no handle points to has been freed: what can remain unreachable
   from the roots is kept alive by handles inside other unreachable blocks, i.e. cycles — a leak,
   not a safety issue), a freed block has no live handle, and every handle points to a live block of
   a tag its static type allows.  [Overflow] (2^56 - 1 simultaneous handles to one block) stops the
   run. *)
Theorem C18_rc_protocol_safe : forall ops,
  match run MAX_REF_COUNT ops init with
  | Ok (_, st) => rc_inv st /\ thunk_tag_inv st
  | Err _ => False
  | Overflow => True
  end.
Proof. exact rc_protocol_safe. Qed.

(* the same from any consistent state and for any bound of the count *)
Theorem C18_rc_history_preserves : forall mx ops st, sinv [] st ->
  match run mx ops st with Ok (_, st') => sinv [] st' | Err _ => False | Overflow => True end.
Proof. exact run_safe. Qed.

Theorem C18_rc_step_preserves : forall mx o, striple [] (step mx o) (fun _ => []).
Proof. exact step_safe. Qed.

(* a write through &mut (content_make_mut, content_mut, get_mut, Rc::make_mut) happens only on a
   block whose count is 1 *)
Theorem C18_unique_access_only_when_count_1 : forall mx mode tv f h r h',
  h_modify mx mode tv f h = Ok (r, h') -> mode <> WShared -> snd r <> None ->
  exists a b, snd (fst r) = VPtr a /\ nth_error h' a = Some b /\ b_rc b = 1%N.
Proof. exact modify_writes_unique. Qed.

(* thunk_tag_inv at work: after any history, the unchecked decode behind any Thunk-typed handle
   finds a live block tagged Thunk *)
Theorem C18_thunk_tag_inv : forall ops outs st v,
  run MAX_REF_COUNT ops init = Ok (outs, st) -> In (KThunk, v) (all_handles st) ->
  exists b, h_thunk_data (KThunk, v) (heap st) = Ok (b, heap st) /\ b_tag b = TThunk.
Proof. exact thunk_tag_decode. Qed.

(* the copy of a thunk's data made by make_unique / strong_clone / saturate (shared) / map is a fresh
   thunk: not black-holed (no update frame refers to it), not locked *)
Theorem C18_thunk_copy_fresh : forall sh,
  get_state (copy_shape sh) <> Blackholed /\ get_locked (copy_shape sh) = false /\
  copy_shape (copy_shape sh) = copy_shape sh.
Proof. exact copy_shape_fresh. Qed.

(* the increment can overflow only when max handles to the same block exist at once *)
Theorem C18_overflow_needs_max_handles : forall mx E h a,
  inv_h E h -> h_inc mx a h = Overflow -> (mx <= N.of_nat (occ a (E ++ heap_refs h)))%N.
Proof. exact overflow_needs_max_handles. Qed.

(* every script of stack operations from the empty stack: every unchecked pop / read materialises
   the top item at the type it was written at, the marker iterator stays on markers *)
Theorem C18_stack_typed : forall ops,
  no_fault (srun 0 ops []) (fun r => frames_well_tagged (snd r)).
Proof. exact stack_typed_from_empty. Qed.

(* unwind pops every item at its own type and terminates with the empty stack *)
Theorem C18_unwind_typed : forall st, frames_well_tagged st ->
  no_fault (unwind (List.length st) st) (fun q => snd q = [] /\ snd (fst q) = map it_kind st).
Proof. exact unwind_typed. Qed.

(* the pairings read from stack.rs are consistent *)
Theorem C18_stack_tables_consistent :
  (forall k m, marker_of_opt k = Some m -> drop_top_kind_opt m = Some k /\ item_size_kind_opt m = Some k) /\
  (forall k k' m, marker_of_opt k = Some m -> marker_of_opt k' = Some m -> k = k') /\
  Forall site_entry_ok guarded_sites /\
  pop_generic_guarded = true /\ pop_unchecked_reads_same_type = true /\
  marker_enum_as_modelled = true /\ unchecked_calls_accounted = true.
Proof. exact stack_tables_consistent. Qed.

(* every unsafe site of the four files is known to the ledger *)
Theorem C18_sites_all_covered : forall key line, In (key, line) sites -> covered key = true.
Proof. exact sites_all_covered. Qed.
