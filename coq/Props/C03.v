(* C03 — built-in type contracts accept exactly the values of their type.
   Only statements closed by [exact]; definitions in Contract/{Data,Gen,Apply}.v, proofs in
   Contract/CheckProofs.v.  [check T v] models the full evaluation of [v | T]. *)
From Coq Require Import List String.
From NV Require Import Contract.Data Contract.Gen Contract.Apply Contract.CheckProofs.

Theorem C03_check_sound_complete : forall T v, first_order T = true -> wf_ty T = true ->
  ((exists v', check T v = Ok v') <-> member T v = true).
Proof. exact (fun T v Hfo Hwf => check_pol_sound_complete T Hfo Hwf Pos v). Qed.

Theorem C03_check_identity : forall T v v', first_order T = true -> wf_ty T = true ->
  check T v = Ok v' -> dv_equiv v' v.
Proof. exact (fun T v v' Hfo Hwf => check_pol_identity T Hfo Hwf Pos v v'). Qed.

Theorem C03_check_idempotent : forall T v v', first_order T = true -> wf_ty T = true ->
  check T v = Ok v' -> check T v' = Ok v'.
Proof. exact (fun T v v' Hfo Hwf => check_pol_idempotent T Hfo Hwf Pos v v'). Qed.

Theorem C03_check_fail_is_blame : forall T v, first_order T = true -> wf_ty T = true ->
  member T v = false -> check T v = Err (Blame Pos).
Proof. exact (fun T v Hfo Hwf => check_pol_fail_is_blame T Hfo Hwf Pos v). Qed.

(* the same four facts at either label polarity (what C02's boundary theorem builds on) *)
Theorem C03_check_pol_spec : forall p T v, first_order T = true -> wf_ty T = true ->
  (member T v = true ->
     exists v', check_pol p T v = Ok v' /\ dv_equiv v' v /\ check_pol p T v' = Ok v') /\
  (member T v = false -> check_pol p T v = Err (Blame p)).
Proof.
  exact (fun p T v Hfo Hwf =>
    conj (fun Hm =>
            match proj2 (check_pol_sound_complete T Hfo Hwf p v) Hm with
            | ex_intro _ v' Hv' =>
                ex_intro _ v' (conj Hv' (conj (check_pol_identity T Hfo Hwf p v v' Hv')
                                              (check_pol_idempotent T Hfo Hwf p v v' Hv')))
            end)
         (check_pol_fail_is_blame T Hfo Hwf p v)).
Qed.

(* the specification itself is independent of record field order *)
Theorem C03_member_order_independent : forall T v1 v2, dv_equiv v1 v2 -> member T v1 = member T v2.
Proof. exact member_equiv. Qed.
