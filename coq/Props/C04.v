(* C04 — contracts attached to a field are enforced on its final value after any merging, and
   deduplication is sound.  Statements only. *)
From Coq Require Import List.
Import ListNotations.
From NV Require Import Merge.Algebra Merge.Sorted Merge.Rules Merge.Contracts Merge.CtrEq Merge.CtrEqProofs.

(* spec level (the algebra) *)
Theorem C04_attached_by_either_operand : forall k c a b,
  wf a = true -> wf b = true -> is_rec a -> is_rec b ->
  attached k c a \/ attached k c b -> attached k c (merge a b).
Proof. exact attached_merge. Qed.

Theorem C04_attached_through_chain : forall k c l acc,
  wf acc = true -> is_rec acc -> Forall (fun d => wf d = true /\ is_rec d) l ->
  attached k c acc \/ Exists (attached k c) l ->
  attached k c (fold_left merge l acc).
Proof. exact attached_chain. Qed.

Theorem C04_attached_enforced : forall sat n d js k c f dv,
  exportD sat (S n) d = inl (JObj js) ->
  forall fs, d = DRec fs -> ssorted fs ->
  lookup k fs = Some f -> f_hid f = false -> f_val f = Some dv -> In c (f_cs f) ->
  exists j, In (k, j) js /\ sat c j = true.
Proof. exact attached_enforced. Qed.

Theorem C04_duplicates_irrelevant : forall sat n p o h cs cs' v,
  cs_same cs cs' -> field_result sat n (mkF p o h cs v) = field_result sat n (mkF p o h cs' v).
Proof. exact dedup_transparent_field. Qed.

Theorem C04_union_is_concatenation_as_sets : forall c1 c2, cs_same (cs_union c1 c2) (c1 ++ c2).
Proof. exact union_same_as_append. Qed.

(* mechanism level (model of contract_eq.rs) *)
Theorem C04_contract_eq_sound : forall n t1 e1 t2 e2,
  contract_eq n t1 e1 t2 e2 = true ->
  forall m1 m2 u1 u2, unf m1 e1 t1 = Some u1 -> unf m2 e2 t2 = Some u2 -> ueq u1 u2.
Proof. exact contract_eq_sound. Qed.

Theorem C04_combine_dedup_sound : forall n c1 e1 c2 e2,
  (forall a, In a c1 -> In a (combine_dedup n c1 e1 c2 e2)) /\
  (forall b, In b c2 -> In b (combine_dedup n c1 e1 c2 e2) \/
                        exists a, In a c1 /\
                          forall m1 m2 u1 u2, unf m1 e1 a = Some u1 -> unf m2 e2 b = Some u2 -> ueq u1 u2).
Proof. exact combine_dedup_sound. Qed.

(* the comparison without length checks (the code before the fix 0d21c82) equates {foo | C1} and
   {foo | C1 | C2}: the theorem above is false for it *)
Theorem C04_prefix_zip_refuted :
  ceq false 5 12 wit1 [] wit2 [] = true /\
  exists u1 u2, unf 5 [] wit1 = Some u1 /\ unf 5 [] wit2 = Some u2 /\ ~ ueq u1 u2.
Proof. exact ceq_nolen_refuted. Qed.
