(* C08 - property theorems.  Only statements closed by [exact]; proofs live in Delayed/*.v. *)
From Coq Require Import List ZArith String Bool Arith.
Import ListNotations.
From NV Require Import Delayed.Model Delayed.Spec Delayed.Tracked Delayed.Rel Delayed.Main Delayed.Refuted Delayed.ReachTable Delayed.MergeTracked Delayed.Stack Delayed.RecEnv.

(* pending_tracked, one statement per primitive *)
Theorem C08_pending_tracked_at : forall es p i,
  prim_array_at es p i =
  match nth_error (view_arr (VArr es p)) i with Some t => Ok t | None => Err EOther end.
Proof. exact at_tracked. Qed.

Theorem C08_pending_tracked_map : forall f es p,
  view_arr (prim_array_map f es p) = map (TObs f) (view_arr (VArr es p)).
Proof. exact map_tracked. Qed.

Theorem C08_pending_tracked_concat : forall es1 p1 es2 p2,
  view_arr (prim_array_concat es1 p1 es2 p2) = view_arr (VArr es1 p1) ++ view_arr (VArr es2 p2).
Proof. exact concat_tracked. Qed.

Theorem C08_pending_tracked_slice : forall s e es p v,
  prim_array_slice s e es p = Ok v ->
  view_arr v = firstn (e - s) (skipn s (view_arr (VArr es p))).
Proof. exact slice_tracked. Qed.

Theorem C08_pending_tracked_lazy_app : forall c es p,
  view_arr (prim_array_lazy_app c es p) = map (TCtr c) (view_arr (VArr es p)).
Proof. exact lazy_app_tracked. Qed.

Theorem C08_length_observes_nothing : forall es es' p p',
  List.length es = List.length es' -> prim_array_length es p = prim_array_length es' p'.
Proof. exact length_observes_nothing. Qed.

Theorem C08_pending_tracked_access : forall k fs,
  prim_record_access k fs =
  match lookup k (view_rec (VRec fs)) with Some t => Ok t | None => Err EFieldMissing end.
Proof. exact access_tracked. Qed.

Theorem C08_pending_tracked_values : forall fs,
  view_arr (prim_record_values fs) = map snd (sort_fields (view_rec (VRec fs))).
Proof. exact values_tracked. Qed.

Theorem C08_fields_names_only : forall fs fs',
  map fst fs = map fst fs' -> prim_record_fields fs = prim_record_fields fs'.
Proof. exact fields_names_only. Qed.

Theorem C08_pending_tracked_record_map : forall f fs,
  view_rec (prim_record_map f fs) = map (fun kt => (fst kt, f (fst kt) (snd kt))) (view_rec (VRec fs)).
Proof. exact record_map_tracked. Qed.

Theorem C08_pending_tracked_freeze : forall fs,
  view_rec (VRec (prim_record_freeze fs)) = view_rec (VRec fs)
  /\ Forall (fun fl => snd (snd fl) = []) (prim_record_freeze fs).
Proof. exact freeze_tracked. Qed.

Theorem C08_pending_tracked_record_lazy_app : forall c fs,
  view_rec (prim_record_lazy_app c fs) = map (fun kt => (fst kt, TCtr c (snd kt))) (view_rec (VRec fs)).
Proof. exact record_lazy_app_tracked. Qed.

Theorem C08_pending_tracked_insert : forall k x fs v,
  prim_record_insert k x fs = Ok v -> view_rec v = view_rec (VRec fs) ++ [(k, x)].
Proof. exact insert_tracked. Qed.

Theorem C08_pending_tracked_merge : forall m1 m2 fs, prim_record_merge m1 m2 = VRec fs ->
  Forall (merged_from m1 m2) fs.
Proof. exact merge_tracked. Qed.

Theorem C08_pending_tracked_remove : forall k fs fs', prim_record_remove k fs = Ok (VRec fs') ->
  forall f, In f fs' -> In f fs.
Proof. exact remove_tracked. Qed.

Theorem C08_pending_tracked_pipeline : forall ts es p v,
  run_pipeline ts (VArr es p) = Ok v ->
  exists es' p', v = VArr es' p' /\ view_arr v = spec_pipeline ts (view_arr (VArr es p)).
Proof. exact pipeline_tracked. Qed.

(* the fundamental lemma: every supported observer preserves the relation between two runs that
   differ at a marked component and in how / with which labels the obligations are stored *)
Theorem C08_observers_preserve_relation :
  forall (Hole : forall A : Type, res A -> Prop),
    (forall A B (r : res A) (k : A -> res B), Hole A r -> Hole B (bind r k)) ->
    (forall r : res tree, Hole tree r ->
       Hole lval (match r with
                  | Ok tr => Ok (tree_to_lval tr)
                  | Err ENotExportable => Err ESerialize
                  | Err e => Err e
                  end)) ->
    forall o, supported o -> forall t1 t2, RelT Hole t1 t2 -> RelT Hole (TObs o t1) (TObs o t2).
Proof. exact obs_cong. Qed.

(* laziness / bottom_insensitive *)
Theorem C08_laziness : forall n k T o pos a,
  supported o -> container_ok k ->
  is_probe (run n (plug k pos AProbe) T o) = false ->
  res_sim (run n (plug k pos AProbe) T o) (run n (plug k pos a) T o).
Proof. exact laziness. Qed.

Theorem C08_bottom_insensitive : forall n k T o pos a a',
  supported o -> container_ok k ->
  is_probe (run n (plug k pos AProbe) T o) = false ->
  res_sim (run n (plug k pos a) T o) (run n (plug k pos a') T o).
Proof. exact bottom_insensitive. Qed.

Theorem C08_reached_fails : forall n k o pos,
  supported o -> container_ok k ->
  reaches n k o pos = true -> run n (plug k pos AFail) None o = Err EFail.
Proof. exact reached_fails. Qed.

Theorem C08_reached_fails_annotated : forall n k T o pos,
  wf_case k pos T = true -> supported o ->
  reaches n k o pos = true -> run n (plug k pos AFail) (Some T) o = Err EFail.
Proof. exact reached_fails_annotated. Qed.

(* observe_blames_iff_reached *)
Theorem C08_reached_blames : forall n k T o pos s,
  wf_case k pos T = true -> supported o ->
  reaches n k o pos = true ->
  exists e, run n (plug k pos (AStr s)) (Some T) o = Err e /\ is_blame e = true.
Proof. exact reached_blames. Qed.

Theorem C08_unreached_equals_unannotated : forall n k T o pos a,
  wf_case k pos T = true -> supported o -> container_ok k ->
  reaches n k o pos = false ->
  res_sim (run n (plug k pos a) (Some T) o) (run n (plug k pos a) None o).
Proof. exact unreached_equals_unannotated. Qed.

Theorem C08_observe_blames_iff_reached : forall n k T o pos s,
  wf_case k pos T = true -> supported o -> container_ok k ->
  is_blame_res (run n (plug k pos (AStr s)) None o) = false ->
  (is_blame_res (run n (plug k pos (AStr s)) (Some T) o) = true <-> reaches n k o pos = true).
Proof. exact observe_blames_iff_reached. Qed.

(* function contracts *)
Theorem C08_func_wraps_call : forall n o d c arg,
  eval (S n) (TObs (OCall arg) (TCtr (true, CFun d c) (TVal (Ok (VFun (FBase o))))))
  = apply_ctr true c (eval n (TObs o (TCtr (false, d) (thunk_of_atom arg)))).
Proof. exact func_wraps_call. Qed.

Theorem C08_func_domain_blames_iff_forced : forall n o s,
  fn_scalar o ->
  eval (S (S n)) (TObs (OCall (AStr s)) (TCtr (true, CFun CNum CDyn) (TVal (Ok (VFun (FBase o))))))
  = Err EBlameNeg
  <-> is_probe (eval (S (S n)) (TObs (OCall AProbe) (TVal (Ok (VFun (FBase o)))))) = true.
Proof. exact func_domain_blames_iff_forced. Qed.

(* the theorems tell the broken primitives apart *)
Theorem C08_concat_broken_refuted :
  exists n k T o pos s,
    wf_case k pos T = true /\ reaches n k o pos = true /\
    is_blame_res (run n (plug k pos (AStr s)) (Some T) o) = false.
Proof. exact concat_broken_blames_iff_reached_refuted. Qed.

Theorem C08_values_broken_refuted :
  exists fs, view_arr (prim_record_values_broken fs) <> map snd (sort_fields (view_rec (VRec fs))).
Proof. exact values_broken_not_tracked_refuted. Qed.

(* the blame label after ArrayConcat: every element keeps the labels of its own operand (general
   statement: C08_pending_tracked_concat); refuted for ArrayConcat as it was before 95e63eb *)
Theorem C08_concat_label_preserved :
  forall l, l = LArr [ANum 1] (Some (CArr CNum)) ->
    force 8 (TObs (OConcatL l) from_caller) = Err EBlameNeg /\
    force 8 (TObs OId from_caller) = Err EBlameNeg.
Proof. exact concat_label_preserved. Qed.

Theorem C08_concat_prefix_label_refuted :
  exists (l : lit),
    force 8 (TObs (OConcatL_prefix l) from_caller) = Err EBlame /\
    force 8 (TObs OId from_caller) = Err EBlameNeg.
Proof. exact concat_prefix_label_refuted. Qed.

Theorem C08_concat_prefix_not_tracked_refuted :
  exists es1 p1 es2 p2,
    view_arr (prim_array_concat_prefix es1 p1 es2 p2) <> view_arr (VArr es1 p1) ++ view_arr (VArr es2 p2).
Proof. exact concat_prefix_not_tracked_refuted. Qed.

(* the per-observer closed form of the reach predicate (index arithmetic) agrees with [reaches] *)
Theorem C08_reach_table_correct : forall o zs p b m,
  reach_table o (List.length zs) p = Some b ->
  reaches (S (S (S (S m)))) (KArr (nums zs)) o [p] = b.
Proof. exact reach_table_correct. Qed.

(* several delayed contracts on the same container: the pending list guards like the conjunction,
   and only the set of contracts matters (a duplicate may be dropped, a distinct contract may not) *)
Theorem C08_stack_conj : forall n p t, forallb flat (map snd p) = true ->
  eval n (tctrs p t) =
  match eval n t with
  | Err e => Err e
  | Ok v => match first_reject v p with None => Ok v | Some b => Err (blame b) end
  end.
Proof. exact stack_conj. Qed.

Theorem C08_stack_accepts_iff_all : forall n p t v, forallb flat (map snd p) = true ->
  eval n t = Ok v ->
  (eval n (tctrs p t) = Ok v <-> forallb (fun c => accepts c v) (map snd p) = true).
Proof. exact stack_accepts_iff_all. Qed.

Theorem C08_dedup_unobservable : forall n p q t,
  forallb flat (map snd p) = true -> forallb flat (map snd q) = true ->
  (forall c, In c (map snd p) <-> In c (map snd q)) ->
  res_sim (eval n (tctrs p t)) (eval n (tctrs q t)).
Proof. exact dedup_unobservable. Qed.

Theorem C08_push_dedup_unobservable : forall n p b c t,
  forallb flat (map snd p) = true -> In c (map snd p) ->
  res_sim (eval n (tctrs (p ++ [(b, c)]) t)) (eval n (tctrs p t)).
Proof. exact push_dedup_unobservable. Qed.

Theorem C08_drop_distinct_refuted :
  exists n p b c t, forallb flat (map snd (p ++ [(b, c)])) = true /\
    ~ res_sim (eval n (tctrs (p ++ [(b, c)]) t)) (eval n (tctrs p t)).
Proof. exact drop_distinct_refuted. Qed.

Theorem C08_stack_set_equiv : forall n xs cs1 cs2 o,
  supported o -> forallb atom_plain xs = true ->
  forallb flat cs1 = true -> forallb flat cs2 = true ->
  (forall c, In c cs1 <-> In c cs2) ->
  res_sim (run_stack n (KArr xs) (map CArr cs1) o) (run_stack n (KArr xs) (map CArr cs2) o).
Proof. exact stack_set_equiv. Qed.

Theorem C08_reached_blames_stack : forall n xs cs o i a v,
  supported o -> forallb flat cs = true ->
  others_accepted cs i xs = true ->
  atom_val a = Some v -> forallb (fun c => accepts c v) cs = false ->
  reaches n (KArr xs) o [i] = true ->
  exists e, run_stack n (plug (KArr xs) [i] a) (map CArr cs) o = Err e /\ is_blame e = true.
Proof. exact reached_blames_stack. Qed.

Theorem C08_laziness_stack : forall n k Ts o pos a,
  supported o -> container_ok k ->
  is_probe (run_stack n (plug k pos AProbe) Ts o) = false ->
  res_sim (run_stack n (plug k pos AProbe) Ts o) (run_stack n (plug k pos a) Ts o).
Proof. exact laziness_stack. Qed.

(* the recursive environment: a field observed through a sibling's recursive reference *)
Theorem C08_sibling_ref_guarded : forall n fs j x p, lookup j fs = Some (x, p) ->
  eval (S n) (subst_self (VRec fs) (TObs (OAccess j) TSelf))
  = eval n (tctrs p (subst_self (VRec fs) x))
  /\ eval (S n) (TObs (OAccess j) (TVal (Ok (VRec fs)))) = eval n (tctrs p (subst_self (VRec fs) x)).
Proof. exact sibling_ref_guarded. Qed.

Theorem C08_dependent_blames : forall n ds k j o a c v,
  lookup k ds = Some (DDep o j) ->
  (lookup j ds = Some (DAtom a) \/ lookup j ds = Some (DComp a)) ->
  strict_scalar o = true -> flat c = true ->
  atom_val a = Some v -> accepts c v = false ->
  run (S (S (S (S (S n))))) (KRecR ds) (Some (CDictC c)) (OAccess k) = Err EBlame.
Proof. exact dependent_blames. Qed.

Theorem C08_rec_env_constraw_refuted :
  exists n fs k,
    bind (prim_record_access k (close_rec fs)) (eval n) = Err EBlame /\
    access_constraw n k fs = Ok (VNum 2).
Proof. exact constraw_refuted. Qed.
