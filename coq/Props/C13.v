(* C13 — property theorems.  Only statements closed by [exact]; the proofs live in Codec/*Proofs.v.
   Tables named printer_keywords, lexer_reserved, grammar_accepted, escape_replaces, ... come from
   Gen/Keywords.v, regenerated from /repo on every run. *)
From Coq Require Import List NArith ZArith Bool.
Import ListNotations.
From NV Require Import Codec.Escape Codec.EscapeProofs Codec.Ident Codec.IdentProofs Codec.Num
  Codec.NumProofs Codec.YamlScalar Codec.YamlScalarProofs Codec.SourcePins Codec.Loaders Codec.LoadersProofs Codec.SciGrammar Codec.Overflow.
From NV Require Import Gen.Keywords.

(* --- strings: printer escaping vs. lexer, for every string *)
Theorem C13_escape_roundtrip : forall s rest : str,
  lex_string (print_string s ++ rest) = LexStatic s rest.
Proof. exact escape_roundtrip_rest. Qed.

(* the fuel of the executable lexer model never runs out: LexErr EFuel is unreachable *)
Theorem C13_lex_string_fuel_enough : forall inp : str, lex_string inp <> LexErr EFuel.
Proof. exact lex_string_fuel_enough. Qed.

Theorem C13_escape_is_single_pass : forall s : str, escape s = esc_pass s.
Proof. exact escape_pass_eq. Qed.

(* the model of escape is the chain of replaces found in pretty.rs at this run *)
Theorem C13_escape_is_generated_chain : forall s : str,
  apply_replaces escape_replaces s = Some (escape s).
Proof. exact escape_is_generated_chain. Qed.

Theorem C13_escape_char_is_generated_table : forall c : N,
  escape_char c = assoc_N escape_char_table c.
Proof. exact escape_char_is_generated_table. Qed.

Theorem C13_source_patterns_pinned :
  string_token_patterns = expected_string_token_patterns
  /\ quoting_regex_src = expected_quoting_regex
  /\ ident_regex_src = expected_ident_regex.
Proof. exact source_patterns_pinned. Qed.

Theorem C13_source_bodies_pinned :
  ident_quoted_body_src = expected_ident_quoted_body
  /\ escape_ascii_body_src = expected_escape_ascii_body
  /\ normalize_body_src = expected_normalize_body.
Proof. exact source_bodies_pinned. Qed.

(* --- record keys, against the keyword tables of this run *)
Theorem C13_keyword_tables_agree : tables_ok printer_keywords lexer_reserved grammar_accepted = true.
Proof. exact (eq_refl true). Qed.

Theorem C13_ident_quoted_roundtrip : forall k rest : str,
  rest_ok rest = true ->
  key_of grammar_accepted (lex_key lexer_reserved (print_key printer_keywords k ++ rest)) = Some (k, rest).
Proof.
  exact (fun k rest => ident_quoted_roundtrip printer_keywords lexer_reserved grammar_accepted k rest
                          C13_keyword_tables_agree).
Qed.

(* --- integers *)
Theorem C13_int_roundtrip : forall n : Z, (i64_min <= n <= u64_max)%Z ->
  int_token n = Some (dec_of_Z n)
  /\ resolve Plain None (dec_of_Z n) = RNum n 0
  /\ json_serde_int (dec_of_Z n) = SInt n
  /\ ((n <= i64_max)%Z -> toml_int (dec_of_Z n) = TInt n).
Proof. exact int_roundtrip. Qed.

Theorem C13_int_outside_range_goes_through_f64 : forall n : Z,
  (n < i64_min \/ u64_max < n)%Z -> serialize_int n = NF64 /\ int_token n = None.
Proof. exact int_outside_range_goes_through_f64. Qed.

(* --- YAML scalar resolution *)
Theorem C13_yaml_quoted_is_string : forall st tg v, st <> Plain -> resolve st tg v = RStr v.
Proof. exact yaml_quoted_is_string. Qed.

Theorem C13_yaml_plain_resolution : forall v : str,
  (resolve Plain None v = RStr v <-> nonstring_spelling v = false)
  /\ (resolve Plain None v = RErr <-> infnan_spelling v = true).
Proof. exact yaml_plain_resolution. Qed.

Theorem C13_yaml_string_survives_under_contract :
  forall (writes_plain : str -> bool) (quoted : style),
    quoted <> Plain -> emitter_meets_contract writes_plain ->
    forall s, resolve (if writes_plain s then Plain else quoted) None s = RStr s.
Proof. exact yaml_string_survives_under_contract. Qed.

Theorem C13_yaml_contract_necessary :
  forall s, nonstring_spelling s = true -> resolve Plain None s <> RStr s.
Proof. exact yaml_contract_necessary. Qed.

(* --- T1: the JSON event loader (yaml.rs) and the serde path agree on every in-scope document *)
Theorem C13_loaders_agree : forall t : jtree, in_scope t = true ->
  loader_run (events t) = Some (denote t) /\ serde_run (events t) = Some (denote t).
Proof. exact loaders_agree. Qed.

(* --- the number spellings of yaml_plain_resolution as a grammar:
       [+-]? ( D+ | D+ . D* | D* . D+ ) ( [eE] [+-]? D+ )?   (exponent in the i64 range) *)
Theorem C13_from_sci_grammar : forall v : str, is_some (from_sci v) = sci_grammar v.
Proof. exact from_sci_grammar. Qed.

(* --- the known class (known_findings.txt: yaml-float-overflow-string), made explicit and shown
       non-empty: a plain scalar spelled as a number at or beyond the f64 rounding threshold is that
       number for the loader, so a string spelled like that, which the YAML emitter writes plain,
       does not survive *)
Theorem C13_yaml_overflow_spelling_is_number : forall v : str,
  float_overflow_spelling v = true ->
  exists m e, from_sci v = Some (m, e) /\ overflows_f64 m e = true /\ resolve Plain None v = RNum m e.
Proof. exact yaml_overflow_spelling_is_number. Qed.

Theorem C13_yaml_overflow_class_refuted :
  exists v : str, float_overflow_spelling v = true /\ resolve Plain None v <> RStr v.
Proof.
  exists s_1e400. split; [exact (proj1 overflow_class_nonempty)|].
  exact (proj2 (yaml_overflow_class_breaks_contract s_1e400 (proj1 overflow_class_nonempty))).
Qed.
