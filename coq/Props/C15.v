(* C15 — output is independent of definition order.  Statements only. *)
From Coq Require Import List Permutation.
Import ListNotations.
From NV Require Import Merge.Algebra Merge.AlgebraProofs Merge.Rules.

(* permuting the fields of a record literal (distinct names) does not change what it denotes *)
Theorem C15_literal_order_irrelevant : forall fs fs', Permutation fs fs' -> NoDup (map fkey fs) ->
  elab (ERec fs) = elab (ERec fs').
Proof. exact elab_perm. Qed.

(* swapping merge operands does not change the denotation (hence neither the export nor any
   field listing, which are functions of the denotation) *)
Theorem C15_operand_order_irrelevant : forall a b, wf a = true -> wf b = true -> merge a b = merge b a.
Proof. exact merge_comm. Qed.
