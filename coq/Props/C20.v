(* C20 — property theorems.  Only statements closed by [exact]; proofs live in Pkg/*Proofs.v.
   matches_cur = SemVerPrefix::matches of the unchanged tree, matches_fix = the repaired matcher
   of proposed/C20-matches.diff; statements are given for both so that the claim can be switched
   once the fix is committed. *)
From Coq Require Import List NArith Bool String.
Import ListNotations.
From NV Require Import Pkg.Version Pkg.VersionProofs Pkg.Resolve Pkg.ResolveProofs Pkg.Spec
  Pkg.CheckerProofs Pkg.Lock Pkg.LockProofs Pkg.Scheme Pkg.SchemeProofs.

(* ---------------------------------------------------------------- req_views_agree *)

(* The three views of a requirement.  The solver's bucket + range view is exactly the property's
   words ("the exact version, or one of the same compatibility class that is not lower", never a
   prerelease unless asked for exactly) and exactly the repaired matcher. *)
Theorem C20_req_views_agree : forall r v,
  (bucket_contains (bucket_of_req r) v && range_contains (range_of_req r) v) = satisfies r v
  /\ satisfies r v = matches_fix r v.
Proof. exact req_views_agree. Qed.

(* The matcher of the unchanged tree is refuted as a view of the same requirement, in two ways. *)
Theorem C20_req_views_agree_cur_refuted :
  exists r v, bucket_contains (bucket_of_req r) v = true
           /\ range_contains (range_of_req r) v = true
           /\ satisfies r v = true
           /\ matches_cur r v = false.
Proof. exact req_views_agree_cur_refuted. Qed.

Theorem C20_req_views_agree_cur_pre_refuted :
  exists r v, matches_cur r v = true
           /\ bucket_contains (bucket_of_req r) v = false
           /\ satisfies r v = false.
Proof. exact req_views_agree_cur_pre_refuted. Qed.

(* Inside the solver's view the unchanged matcher fails exactly on the minor gap. *)
Theorem C20_matches_cur_on_solver_view : forall r v,
  satisfies r v = true -> matches_cur r v = negb (minor_gap r v).
Proof. exact matches_cur_on_satisfies. Qed.

(* Buckets partition the versions: one compatibility class per version. *)
Theorem C20_bucket_unique : forall b v,
  bucket_wf b = true -> bucket_contains b v = true -> b = bucket_of_ver v.
Proof. exact bucket_contains_unique. Qed.

(* ---------------------------------------------------------------- checker_complete *)

(* The executable checker is the declarative spec (every edge from the root and from every
   selected version is bound to a selected version of the required package that satisfies the
   requirement; every selected version exists and sits in its own compatibility class; the
   assignment is a map, i.e. one version per package and class). *)
Theorem C20_checker_correct : forall idx man a,
  valid_solution idx man a = true
  <-> keys_nodup a = true /\ Valid idx man (fun k => alookup k a).
Proof. exact checker_correct. Qed.

(* The brute-force solver is sound and complete: it fails iff no assignment at all is valid. *)
Theorem C20_exists_solution_sound : forall idx man a,
  exists_solution idx man = Some a -> valid_solution idx man a = true.
Proof. exact exists_solution_sound. Qed.

Theorem C20_exists_solution_complete : forall idx man,
  exists_solution idx man = None <-> forall a, valid_solution idx man a = false.
Proof. exact exists_solution_iff. Qed.

(* ---------------------------------------------------------------- lookup_total_and_right *)

(* On every valid assignment (every answer accepted by the checker): each dependency edge's
   post-resolution lookup returns a version, it is the one assigned to the edge's bucket, and it
   satisfies the requirement.  Repaired matcher: unconditionally. *)
Theorem C20_lookup_right_of_valid : forall idx man a d,
  valid_solution idx man a = true -> edge idx man a d ->
  exists w, index_dep_version matches_fix (index_packages a) d = Some w
         /\ alookup (dep_key d) a = Some w
         /\ satisfies (dreq d) w = true.
Proof. exact lookup_fix_right. Qed.

(* ... and whatever the order or duplication of the stored version list. *)
Theorem C20_lookup_right_any_order : forall idx man a d vs',
  valid_solution idx man a = true -> edge idx man a d ->
  (forall x, In x vs' <-> In x (vers_of a (dpkg d))) ->
  exists w, find (matches_fix (dreq d)) vs' = Some w
         /\ alookup (dep_key d) a = Some w /\ satisfies (dreq d) w = true.
Proof. exact lookup_fix_any_order. Qed.

(* Unchanged matcher: the lookup returns the assigned version exactly outside the known class
   (minor gap, or an earlier prerelease of the same package passing the matcher). *)
Theorem C20_lookup_cur_iff_not_known : forall idx man a d w,
  valid_solution idx man a = true -> edge idx man a d -> alookup (dep_key d) a = Some w ->
  (index_dep_version matches_cur (index_packages a) d = Some w
   <-> known_class (index_packages a) d w = false).
Proof. exact lookup_cur_iff. Qed.

(* ... and inside the known class it panics or returns a version that violates the requirement. *)
Theorem C20_lookup_cur_wrong_is_unsatisfied : forall idx man a d w x,
  valid_solution idx man a = true -> edge idx man a d -> alookup (dep_key d) a = Some w ->
  index_dep_version matches_cur (index_packages a) d = Some x -> x <> w ->
  satisfies (dreq d) x = false.
Proof. exact lookup_cur_wrong_is_unsatisfied. Qed.

Theorem C20_one_version_per_class : forall idx man a id x y,
  valid_solution idx man a = true ->
  In x (vers_of a id) -> In y (vers_of a id) -> bucket_of_ver x = bucket_of_ver y -> x = y.
Proof. exact one_version_per_class. Qed.

(* The same for every answer of a solver that meets the stated pubgrub contract (a hypothesis,
   not an axiom), for every lock file handed to resolve_with_lock. *)
Theorem C20_lookup_total_and_right : forall solve, pubgrub_sound solve ->
  forall idx entries man sol d,
  solve idx (locked_of entries) man = Solved sol -> edge idx man sol d ->
  exists w, index_dep_version matches_fix (index_packages sol) d = Some w
         /\ alookup (dep_key d) sol = Some w
         /\ satisfies (dreq d) w = true.
Proof. exact oracle_lookup_fix. Qed.

Theorem C20_lookup_total_and_right_except_known : forall solve, pubgrub_sound solve ->
  forall idx entries man sol d,
  solve idx (locked_of entries) man = Solved sol -> edge idx man sol d ->
  exists w, alookup (dep_key d) sol = Some w
         /\ satisfies (dreq d) w = true
         /\ (index_dep_version matches_cur (index_packages sol) d = Some w
             <-> known_class (index_packages sol) d w = false).
Proof. exact oracle_lookup_cur. Qed.

Theorem C20_oracle_answer_valid : forall solve, pubgrub_sound solve ->
  forall idx entries man sol,
  solve idx (locked_of entries) man = Solved sol -> valid_solution idx man sol = true.
Proof. exact oracle_answer_valid. Qed.

(* the contract is satisfiable: the brute-force solver meets it (soundness and completeness) *)
Theorem C20_pubgrub_contract_satisfiable :
  pubgrub_sound brute_solver /\ pubgrub_complete brute_solver.
Proof. exact brute_solver_meets_contract. Qed.

(* ---------------------------------------------------------------- lock_no_crash, namer_injective *)

Theorem C20_lock_no_crash : forall idx man a fuel,
  valid_solution idx man a = true ->
  ~ crashes (lock_new fuel matches_fix (Res idx (index_packages a)) man).
Proof. exact lock_no_crash_fix. Qed.

(* ... and it terminates (cyclic indices included) with a lock file, as soon as the fuel of the
   model exceeds the number of resolved packages: the `insert(..).is_none()` guard works. *)
Theorem C20_lock_new_ok : forall idx man a fuel,
  valid_solution idx man a = true ->
  (List.length (all_packages (Res idx (index_packages a))) < fuel)%nat ->
  exists l, lock_new fuel matches_fix (Res idx (index_packages a)) man = Ok l.
Proof. exact lock_new_ok_fix. Qed.

Theorem C20_lock_no_crash_except_known : forall idx man a fuel,
  valid_solution idx man a = true ->
  (forall d w, edge idx man a d -> alookup (dep_key d) a = Some w ->
               known_class (index_packages a) d w = false) ->
  ~ crashes (lock_new fuel matches_cur (Res idx (index_packages a)) man).
Proof. exact lock_no_crash_cur. Qed.

Theorem C20_package_map_no_crash : forall idx man a,
  valid_solution idx man a = true ->
  exists m, package_map matches_fix (Res idx (index_packages a)) man = Ok m.
Proof. exact package_map_no_crash_fix. Qed.

(* In every state reachable by LockFileNamer::name calls a name belongs to one precise package;
   two calls, any distance apart, return the same entry name only for the same package. *)
Theorem C20_namer_injective : forall calls p q e,
  let nm := namer_run calls namer_empty in
  lookup_ppkg p (assigned nm) = Some e -> lookup_ppkg q (assigned nm) = Some e -> p = q.
Proof. exact namer_injective. Qed.

Theorem C20_namer_names_distinct : forall calls0 calls n1 p1 n2 p2,
  let nm := namer_run calls0 namer_empty in
  let r1 := namer_name nm n1 p1 in
  let r2 := namer_name (namer_run calls (snd r1)) n2 p2 in
  fst r1 = fst r2 -> p1 = p2.
Proof. exact namer_names_distinct. Qed.

(* ---------------------------------------------------------------- relock_stable *)

(* With a lock file that is a complete valid solution, every run of a decide/propagate solver
   (any decision order, any subset of the known constraints handed to choose_version) decides only
   locked versions, never meets a conflict and is never stuck. *)
Theorem C20_relock_stable : forall idx man locked,
  valid_solution idx man locked = true ->
  forall P, run idx locked man P ->
    (forall k v, In (k, v) P -> alookup k locked = Some v)
    /\ ~ conflict idx man P
    /\ (forall k rgs, needed idx man P k -> (forall rg, In rg rgs -> imposes idx man P k rg) ->
          exists w, alookup k locked = Some w /\ choose_version idx locked k rgs = Some w).
Proof. exact relock_stable. Qed.

(* ---------------------------------------------------------------- keeping the lock after an edit *)

(* ManifestFile::lock keeps the lock file (copy_from_lock) when is_lock_file_up_to_date says so.
   If the lock's entries were a valid solution for the manifest they were made for, they are one
   for the edited manifest, and every edge is bound correctly by the copied resolution. *)
Theorem C20_up_to_date_sound : forall idx man1 man2 (l : lockfile),
  valid_solution idx man1 (locked_of (lock_entries l)) = true ->
  up_to_date matches_fix l man2 = true ->
  valid_solution idx man2 (locked_of (lock_entries l)) = true.
Proof. exact up_to_date_sound. Qed.

Theorem C20_copy_from_lock_right : forall idx man1 man2 (l : lockfile) d,
  valid_solution idx man1 (locked_of (lock_entries l)) = true ->
  up_to_date matches_fix l man2 = true ->
  edge idx man2 (locked_of (lock_entries l)) d ->
  exists w, index_dep_version matches_fix (copy_from_lock l) d = Some w
         /\ alookup (dep_key d) (locked_of (lock_entries l)) = Some w
         /\ satisfies (dreq d) w = true.
Proof. exact copy_from_lock_right. Qed.

(* With the matcher of the tree before dd15f85 the up-to-date test was unsound as well. *)
Theorem C20_up_to_date_cur_refuted :
  exists idx man1 man2 (l : lockfile),
    valid_solution idx man1 (locked_of (lock_entries l)) = true
    /\ up_to_date matches_cur l man2 = true
    /\ valid_solution idx man2 (locked_of (lock_entries l)) = false
    /\ exists_solution idx man2 <> None.
Proof. exact up_to_date_cur_refuted. Qed.

(* ---------------------------------------------------------------- witnesses of the known findings *)

Theorem C20_lock_crash_cur_refuted :
  valid_solution w_idx w_man w_sol = true
  /\ exists_solution w_idx w_man = Some w_sol
  /\ lock_new 10 matches_cur (Res w_idx (index_packages w_sol)) w_man = Panic
  /\ package_map matches_cur (Res w_idx (index_packages w_sol)) w_man = Panic
  /\ (exists l, lock_new 10 matches_fix (Res w_idx (index_packages w_sol)) w_man = Ok l).
Proof. exact lock_crash_cur_witness. Qed.

Theorem C20_lookup_wrong_cur_refuted :
  valid_solution w2_idx w2_man w2_sol = true
  /\ index_dep_version matches_cur (index_packages w2_sol) (Dep "a" 0 (RCompat 1 None None)) = Some (V 1 0 0 "alpha")
  /\ satisfies (RCompat 1 None None) (V 1 0 0 "alpha") = false
  /\ index_dep_version matches_fix (index_packages w2_sol) (Dep "a" 0 (RCompat 1 None None)) = Some (V 1 2 0 EmptyString).
Proof. exact lookup_wrong_cur_witness. Qed.

Theorem C20_self_dependency_no_solution :
  exists_solution w3_idx w3_man = None /\ valid_solution w3_idx w3_man [] = false.
Proof. exact self_dependency_witness. Qed.
