(* C20 — property theorems.  Only statements closed by [exact]; proofs live in Pkg/*Proofs.v. *)
From Coq Require Import List NArith Bool String.
Import ListNotations.
From NV Require Import Pkg.Version Pkg.VersionProofs.

(* The three views of a requirement.  The solver's bucket + range view is exactly the property's
   words ("the exact version, or one of the same compatibility class that is not lower", never a
   prerelease unless asked for exactly) and exactly the repaired matcher. *)
Theorem C20_req_views_agree : forall r v,
  (bucket_contains (bucket_of_req r) v && range_contains (range_of_req r) v) = satisfies r v
  /\ satisfies r v = matches_fix r v.
Proof. exact req_views_agree. Qed.

(* The matcher of the unchanged tree is refuted as a view of the same requirement, in two ways. *)
Theorem C20_req_views_agree_cur_refuted :
  exists r v, bucket_contains (bucket_of_req r) v = true
           /\ range_contains (range_of_req r) v = true
           /\ satisfies r v = true
           /\ matches_cur r v = false.
Proof. exact req_views_agree_cur_refuted. Qed.

Theorem C20_req_views_agree_cur_pre_refuted :
  exists r v, matches_cur r v = true
           /\ bucket_contains (bucket_of_req r) v = false
           /\ satisfies r v = false.
Proof. exact req_views_agree_cur_pre_refuted. Qed.

(* Inside the solver's view the unchanged matcher fails exactly on the minor gap. *)
Theorem C20_matches_cur_on_solver_view : forall r v,
  satisfies r v = true -> matches_cur r v = negb (minor_gap r v).
Proof. exact matches_cur_on_satisfies. Qed.

(* Buckets partition the versions: one compatibility class per version. *)
Theorem C20_bucket_unique : forall b v,
  bucket_wf b = true -> bucket_contains b v = true -> b = bucket_of_ver v.
Proof. exact bucket_contains_unique. Qed.
