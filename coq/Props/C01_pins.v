(* Pinned statements of the C01 theorems. *)
From Coq Require Import List String Bool.
Import ListNotations.
From NV Require Import Types.SigDefs Gen.PrimopSig Gen.PrimopDyn Props.C01.
From NV Require Import Types.Syntax Types.Sem Types.Decl Types.LogRel Types.Safety Types.ModelSig Types.Checker Gen.ModelSigGen.

Check (C01_sig_sound_generated :
  forall r, In r sig_table -> ~ In r.(s_name) exempt_ops ->
  forall ks, Forall (fun k => In k repr_kinds) ks ->
    Forall2 (fun k T => inhabits k T = true) ks r.(s_args) ->
    exists d, lookup_dyn dyn_table r.(s_name) ks = Some d
              /\ (forall c, In c d.(d_errs) -> bad_class r.(s_name) c = false)
              /\ (forall k, In k d.(d_kinds) -> inhabits k r.(s_res) = true)).

Check (C01_type_safety : forall Sg, sig_sound Sg ->
  forall n e T, has_type Sg [] e T -> safe_outcome (run n e)).
Check (C01_model_sig_sound : sig_sound model_sig).
Check (C01_type_safety_model : forall n e T, has_type model_sig [] e T -> safe_outcome (run n e)).
Check (C01_typed_result_in_type : forall Sg, sig_sound Sg ->
  forall n e T v, has_type Sg [] e T -> eval n MTyped [] e = Ok v -> V T [] [] v).

Check (C01_checker_sound : forall Sg a T, check_deriv Sg a T = true -> has_type Sg [] (erase a) T).
Check (C01_certified_safe : forall a T n, check_deriv model_sig a T = true -> safe_outcome (run n (erase a))).

Check (C01_model_sig_matches_generated :
  (forall o T, In (o, T) gen_model_sig -> model_sig o = Some T) /\
  (forall o, exists T, In (o, T) gen_model_sig)).
