(* C11 — the seal-erasure relation and its fundamental lemma.

   [OR d T r1 r2] relates the outcome r1 of the run in which values of quantified types are sealed with the
   outcome r2 of the bare run.  At a quantified type r1 is a seal (with the key of the variable) whose
   content evaluates to something related to r2 by the interpretation of the variable; at every other type
   the two outcomes have the same shape and related components (a congruence on closures, arrays, records).
   [lift O t1 t2]: whenever the bare thunk t2 produces an outcome, the sealed-side thunk t1 produces a
   related one (for some fuel).

   Fundamental lemma: a term accepted by [has_ty] maps related environments to related outcomes. *)
From Coq Require Import List String ZArith Bool Lia.
From NV Require Import Seal.Syntax Seal.Eval Seal.Mono Seal.Typing.
Import ListNotations.
Open Scope string_scope.

Notation ev := (force cfg_real).

Definition orel := outcome val -> outcome val -> Prop.

Definition lift (O : orel) (t1 t2 : thunk) : Prop :=
  forall n r2, ev n t2 = r2 -> r2 <> OutOfFuel -> exists m r1, ev m t1 = r1 /\ O r1 r2.

(* interpretation of a quantified variable: its sealing key, the relation between the hidden values (type
   variable) and the relation between the sealed tail and the extra fields of the bare record (row
   variable) *)
Definition frel := list (string * thunk) -> list (string * thunk) -> Prop.
Record tyint := MkInt { ti_key : nat; ti_rel : orel; ti_row : frel }.

Fixpoint OR (d : nat -> tyint) (T : sty) (r1 r2 : outcome val) {struct T} : Prop :=
  (exists e, r1 = Err e /\ r2 = Err e)
  \/ match T with
     | SVar i =>
         exists t l, r1 = Ok (VSealed (ti_key (d i)) t l)
                     /\ exists m r1', ev m t = r1' /\ r1' <> OutOfFuel /\ ti_rel (d i) r1' r2
     | SNum => exists z, r1 = Ok (VNum z) /\ r2 = Ok (VNum z)
     | SBool => exists b, r1 = Ok (VBool b) /\ r2 = Ok (VBool b)
     | SStr => exists s, r1 = Ok (VStr s) /\ r2 = Ok (VStr s)
     | SFun a b =>
         exists p1 x1 b1 p2 x2 b2,
           r1 = Ok (VClo p1 x1 b1) /\ r2 = Ok (VClo p2 x2 b2)
           /\ forall t1 t2, lift (OR d a) t1 t2 ->
                            lift (OR d b) (Th ((x1, t1) :: p1) b1) (Th ((x2, t2) :: p2) b2)
     | SArr a =>
         exists l1 l2, r1 = Ok (VArr l1) /\ r2 = Ok (VArr l2) /\ Forall2 (lift (OR d a)) l1 l2
     | SRec fs =>
         exists f1 f2, r1 = Ok (VRec f1 RNone) /\ r2 = Ok (VRec f2 RNone)
           /\ (fix go (fs : list (string * sty)) (f1 f2 : list (string * thunk)) : Prop :=
                 match fs, f1, f2 with
                 | [], [], [] => True
                 | (x, T) :: fs', (x1, t1) :: f1', (x2, t2) :: f2' =>
                     x1 = x /\ x2 = x /\ lift (OR d T) t1 t2 /\ go fs' f1' f2'
                 | _, _, _ => False
                 end) fs f1 f2
     | SRow fs i _ =>
         (* sealed side: the listed fields and a tail sealed with the key of the row variable;
            bare side: the same record with the extra fields still in it (after the listed ones) *)
         exists f1 g1 l f2 g2,
           r1 = Ok (VRec f1 (RSeal (ti_key (d i)) l g1 RNone)) /\ r2 = Ok (VRec (f2 ++ g2)%list RNone)
           /\ (fix go (fs : list (string * sty)) (f1 f2 : list (string * thunk)) : Prop :=
                 match fs, f1, f2 with
                 | [], [], [] => True
                 | (x, T) :: fs', (x1, t1) :: f1', (x2, t2) :: f2' =>
                     x1 = x /\ x2 = x /\ lift (OR d T) t1 t2 /\ go fs' f1' f2'
                 | _, _, _ => False
                 end) fs f1 f2
           /\ ti_row (d i) g1 g2
     end.

Definition rec_rel (d : nat -> tyint) :=
  fix go (fs : list (string * sty)) (f1 f2 : list (string * thunk)) : Prop :=
    match fs, f1, f2 with
    | [], [], [] => True
    | (x, T) :: fs', (x1, t1) :: f1', (x2, t2) :: f2' =>
        x1 = x /\ x2 = x /\ lift (OR d T) t1 t2 /\ go fs' f1' f2'
    | _, _, _ => False
    end.

Definition env_rel (d : nat -> tyint) (G : tenv) (p1 p2 : env) : Prop :=
  forall x T, lookup x G = Some T ->
    exists t1 t2, lookup x p1 = Some t1 /\ lookup x p2 = Some t2 /\ lift (OR d T) t1 t2.

(* ------------------------------------------------------------------ basic facts *)

Lemma OR_terminates : forall d T r1 r2, OR d T r1 r2 -> r1 <> OutOfFuel.
Proof.
  intros d T r1 r2 H. destruct T; cbn [OR] in H;
    destruct H as [[e [H _]]|H]; try (subst; congruence).
  - destruct H as [t [l [H _]]]. subst; congruence.
  - destruct H as [z [H _]]. subst; congruence.
  - destruct H as [z [H _]]. subst; congruence.
  - destruct H as [z [H _]]. subst; congruence.
  - destruct H as [p1 [x1 [b1 [p2 [x2 [b2 [H _]]]]]]]. subst; congruence.
  - destruct H as [l1 [l2 [H _]]]. subst; congruence.
  - destruct H as [f1 [f2 [H _]]]. subst; congruence.
  - destruct H as [f1 [g1 [l [f2 [g2 [H _]]]]]]. subst; congruence.
Qed.

Lemma OR_err : forall d T e, OR d T (Err e) (Err e).
Proof. intros. destruct T; cbn [OR]; left; eauto. Qed.

Lemma ev_S : forall n r e, ev (S n) (Th r e) = step (ev n) cfg_real n r e.
Proof. reflexivity. Qed.

Lemma ev_O : forall th, ev 0 th = OutOfFuel.
Proof. intros [r e]. reflexivity. Qed.

Lemma ev_mono : forall n m th res, n <= m -> ev n th = res -> res <> OutOfFuel -> ev m th = res.
Proof. intros. eapply force_mono; eauto. Qed.

Lemma ev_det : forall n m th r1 r2,
    ev n th = r1 -> r1 <> OutOfFuel -> ev m th = r2 -> r2 <> OutOfFuel -> r1 = r2.
Proof.
  intros n m th r1 r2 H1 N1 H2 N2.
  pose proof (ev_mono n (n + m) th r1 ltac:(lia) H1 N1) as A.
  pose proof (ev_mono m (n + m) th r2 ltac:(lia) H2 N2) as B. congruence.
Qed.

(* a variable bound to a thunk behaves like the thunk *)
Lemma lift_var :
  forall O p x t1 t2, lookup x p = Some t1 -> lift O t1 t2 -> lift O (Th p (Var x)) t2.
Proof.
  intros O p x t1 t2 Hl Hr n r2 H Hne. destruct (Hr n r2 H Hne) as [m [r1 [H1 HO]]].
  exists (S m), r1. split; [|exact HO]. rewrite ev_S. cbn [step]. rewrite Hl. exact H1.
Qed.

Lemma lift_var_r :
  forall O p x t1 t2, lookup x p = Some t2 -> lift O t1 t2 -> lift O t1 (Th p (Var x)).
Proof.
  intros O p x t1 t2 Hl Hr n r2 H Hne. destruct n; [rewrite ev_O in H; congruence|].
  rewrite ev_S in H. cbn [step] in H. rewrite Hl in H. exact (Hr n r2 H Hne).
Qed.

Lemma env_rel_cons :
  forall d G p1 p2 x T t1 t2,
    env_rel d G p1 p2 -> lift (OR d T) t1 t2 -> env_rel d ((x, T) :: G) ((x, t1) :: p1) ((x, t2) :: p2).
Proof.
  intros d G p1 p2 x T t1 t2 He Ht y U Hy. cbn [lookup] in *.
  destruct (String.eqb y x).
  - inversion Hy; subst. eauto.
  - apply He; assumption.
Qed.

Lemma guard_ok_inv : forall r v, guard r = Ok v -> r = Ok v.
Proof. intros r v H. destruct r as [w| |]; simpl in H; try congruence. destruct w; congruence. Qed.
