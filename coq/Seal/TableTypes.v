(* C11 — types of the generated seal-guard table (coq/Gen/SealTable.v, written by checks/c11_table.py
   from the primop enums of core/src/term/mod.rs and a run of the real interpreter). *)
From Coq Require Import List String Bool Arith.
Import ListNotations.
Open Scope string_scope.

(* observed outcome class of one program *)
Inductive klass :=
| BlamePos | BlameNeg        (* BlameError, polarity of the label *)
| TailAccess                 (* IllegalPolymorphicTailAccess *)
| Value                      (* evaluated to a value *)
| Blind                      (* tail tables: same outcome for two different sealed tails and for no tail *)
| Leak                       (* tail tables: the outcome depends on the sealed tail *)
| Panic | ParseError | OtherError | Budget
| Unexplored                 (* a primop for which the translator has no program *)
| Unreachable                (* spelling still rejected by the parser (checked), implementation is unimplemented!() *)
| Internal.                  (* operand only ever supplied by the interpreter itself *)

(* [e_pos]: primop tables: 1-based strict operand position holding the sealed value;
            tail table: 1 = the operation targets the sealed tail itself, 0 = it does not *)
Record entry := MkEntry { e_name : string; e_pos : nat; e_class : klass }.

Definition blamed (k : klass) : bool :=
  match k with BlamePos | BlameNeg => true | _ => false end.

(* the function under the contract is the blamed party *)
Definition blamed_pos (k : klass) : bool :=
  match k with BlamePos => true | _ => false end.

Definition is_value (k : klass) : bool := match k with Value => true | _ => false end.

Definition is_seq (e : entry) : bool :=
  String.eqb (e_name e) "UnaryOp::Seq seq" && Nat.eqb (e_pos e) 1.

Definition not_from_source (k : klass) : bool :=
  match k with Unreachable | Internal => true | _ => false end.

(* a primop entry: `seq` must see through the seal, everything else must blame *)
Definition primop_ok (e : entry) : bool :=
  if is_seq e then is_value (e_class e)
  else blamed_pos (e_class e) || not_from_source (e_class e).

Definition tail_ok (e : entry) : bool :=
  match e_class e with
  | TailAccess | BlamePos | BlameNeg => true
  | Blind => Nat.eqb (e_pos e) 0
  | _ => false
  end.
