(* C11 — fuel monotonicity: an outcome other than OutOfFuel is stable under more fuel.  Proved for every
   helper with respect to the order [ev_le] on the recursive evaluator (open recursion), then for [eval]. *)
From Coq Require Import List String ZArith Bool Lia.
From NV Require Import Seal.Syntax Seal.Eval.
Import ListNotations.
Open Scope string_scope.

Definition ev_le (ev1 ev2 : thunk -> outcome val) : Prop :=
  forall th r, ev1 th = r -> r <> OutOfFuel -> ev2 th = r.

Lemma bind_inv :
  forall {A B} (r : outcome A) (f : A -> outcome B) r',
    bind r f = r' -> r' <> OutOfFuel ->
    (exists a, r = Ok a /\ f a = r') \/ (exists e, r = Err e /\ r' = Err e).
Proof.
  intros A B r f r' H Hne. destruct r; simpl in H.
  - left. eauto.
  - right. eauto.
  - congruence.
Qed.

Lemma guard_inv :
  forall r r', guard r = r' -> r' <> OutOfFuel -> r <> OutOfFuel.
Proof. intros r r' H Hne Heq. subst r. simpl in H. congruence. Qed.

Lemma guard_mono :
  forall ev1 ev2 th r, ev_le ev1 ev2 -> guard (ev1 th) = r -> r <> OutOfFuel -> guard (ev2 th) = r.
Proof.
  intros ev1 ev2 th r Hle H Hne.
  assert (ev1 th <> OutOfFuel) by (eapply guard_inv; eauto).
  rewrite (Hle th (ev1 th) eq_refl H0). exact H.
Qed.

Section Mono.
  Variables ev1 ev2 : thunk -> outcome val.
  Hypothesis Hle : ev_le ev1 ev2.

  Lemma seqforce_mono :
    forall m1 m2 th r, m1 <= m2 -> seqforce ev1 m1 th = r -> r <> OutOfFuel -> seqforce ev2 m2 th = r.
  Proof.
    induction m1 as [|m1 IH]; intros m2 th r Hm H Hne; simpl in H; [congruence|].
    destruct m2 as [|m2]; [lia|]. simpl.
    destruct (ev1 th) as [v|e|] eqn:E.
    - rewrite (Hle th _ E) by congruence.
      destruct v; try exact H. eapply IH; eauto. lia.
    - rewrite (Hle th _ E) by congruence. exact H.
    - congruence.
  Qed.

  Lemma unseal_mono :
    forall k l th r, unseal ev1 k l th = r -> r <> OutOfFuel -> unseal ev2 k l th = r.
  Proof.
    intros k l th r H Hne. unfold unseal in *.
    destruct (ev1 th) as [v|e|] eqn:E; [| |congruence].
    - rewrite (Hle th _ E) by congruence.
      destruct v; try exact H. destruct (Nat.eqb k k0); [|exact H].
      apply Hle; assumption.
    - rewrite (Hle th _ E) by congruence. exact H.
  Qed.

  Lemma eqv_mono :
    forall m1 m2 v1 v2 r, m1 <= m2 -> eqv ev1 m1 v1 v2 = r -> r <> OutOfFuel -> eqv ev2 m2 v1 v2 = r.
  Proof.
    induction m1 as [|m1 IH]; intros m2 v1 v2 r Hm H Hne; [simpl in H; congruence|].
    destruct m2 as [|m2]; [lia|].
    assert (Hgo : forall a b r0,
               (fix go (a b : list thunk) : outcome bool :=
                  match a, b with
                  | [], [] => Ok true
                  | t1 :: a', t2 :: b' =>
                      bind (guard (ev1 t1)) (fun x =>
                      bind (guard (ev1 t2)) (fun y =>
                      bind (eqv ev1 m1 x y) (fun r => if r then go a' b' else Ok false)))
                  | _, _ => Ok false
                  end) a b = r0 -> r0 <> OutOfFuel ->
               (fix go (a b : list thunk) : outcome bool :=
                  match a, b with
                  | [], [] => Ok true
                  | t1 :: a', t2 :: b' =>
                      bind (guard (ev2 t1)) (fun x =>
                      bind (guard (ev2 t2)) (fun y =>
                      bind (eqv ev2 m2 x y) (fun r => if r then go a' b' else Ok false)))
                  | _, _ => Ok false
                  end) a b = r0).
    { induction a as [|t1 a IHa]; intros b r0 H0 Hne0; destruct b as [|t2 b]; try exact H0.
      apply bind_inv in H0; [|exact Hne0]. destruct H0 as [[x [Hx H0]]|[e [Hx H0]]].
      - rewrite (guard_mono ev1 ev2 t1 _ Hle Hx) by congruence. simpl.
        apply bind_inv in H0; [|exact Hne0]. destruct H0 as [[y [Hy H0]]|[e [Hy H0]]].
        + rewrite (guard_mono ev1 ev2 t2 _ Hle Hy) by congruence. simpl.
          apply bind_inv in H0; [|exact Hne0]. destruct H0 as [[b0 [Hb H0]]|[e [Hb H0]]].
          * rewrite (IH m2 x y (Ok b0)) by (try lia; try congruence; exact Hb). simpl.
            destruct b0; [apply IHa; assumption|exact H0].
          * rewrite (IH m2 x y (Err e)) by (try lia; try congruence; exact Hb). simpl. congruence.
        + rewrite (guard_mono ev1 ev2 t2 _ Hle Hy) by congruence. simpl. congruence.
      - rewrite (guard_mono ev1 ev2 t1 _ Hle Hx) by congruence. simpl. congruence. }
    cbn [eqv] in *.
    destruct v1, v2; try exact H.
    - destruct (Nat.eqb (List.length es) (List.length es0)); [|exact H]. apply Hgo; assumption.
    - destruct ((match fs, t with [] , RNone => true | _, _ => false end)
                && (match fs0, t0 with [] , RNone => true | _, _ => false end)); [exact H|].
      destruct ((match fs, t with [] , RNone => true | _, _ => false end)
                || (match fs0, t0 with [] , RNone => true | _, _ => false end)); [exact H|].
      destruct (Nat.eqb (List.length fs) (List.length fs0) && forallb (fun '(x, _) => mem x fs0) fs); [|exact H].
      apply Hgo; assumption.
  Qed.

  Lemma op1_sem_mono :
    forall o v r, op1_sem ev1 o v = r -> r <> OutOfFuel -> op1_sem ev2 o v = r.
  Proof.
    intros o v r H Hne. destruct o; try exact H.
    (* GetF *)
    simpl in *. destruct v; try exact H. destruct (lookup l fs); [|exact H]. apply Hle; assumption.
  Qed.

  Lemma op2_sem_mono :
    forall m1 m2 o v1 v2 r, m1 <= m2 -> op2_sem ev1 m1 o v1 v2 = r -> r <> OutOfFuel -> op2_sem ev2 m2 o v1 v2 = r.
  Proof.
    intros m1 m2 o v1 v2 r Hm H Hne. destruct o; try exact H.
    - (* Eq *) simpl in *. apply bind_inv in H; [|exact Hne]. destruct H as [[b [Hb H]]|[e [Hb H]]].
      + rewrite (eqv_mono m1 m2 v1 v2 (Ok b) Hm Hb) by congruence. exact H.
      + rewrite (eqv_mono m1 m2 v1 v2 (Err e) Hm Hb) by congruence. simpl. congruence.
    - (* At *) simpl in *. destruct v1; try exact H. destruct v2; try exact H.
      destruct ((0 <=? n)%Z && (n <? Z.of_nat (List.length es))%Z); [|exact H].
      destruct (nth_error es (Z.to_nat n)); [|exact H]. apply Hle; assumption.
  Qed.

  Lemma chk_with_mono :
    forall cf c l th r, chk_with ev1 cf c l th = r -> r <> OutOfFuel -> chk_with ev2 cf c l th = r.
  Proof.
    intros cf c. induction c; intros l0 th r H Hne; cbn [chk_with] in *.
    - apply Hle; assumption.
    - apply bind_inv in H; [|exact Hne]. destruct H as [[v [Hv H]]|[e [Hv H]]];
        rewrite (guard_mono ev1 ev2 th _ Hle Hv) by congruence; cbn [bind]; first [exact H | congruence].
    - apply bind_inv in H; [|exact Hne]. destruct H as [[v [Hv H]]|[e [Hv H]]];
        rewrite (guard_mono ev1 ev2 th _ Hle Hv) by congruence; cbn [bind]; first [exact H | congruence].
    - apply bind_inv in H; [|exact Hne]. destruct H as [[v [Hv H]]|[e [Hv H]]];
        rewrite (guard_mono ev1 ev2 th _ Hle Hv) by congruence; cbn [bind]; first [exact H | congruence].
    - apply bind_inv in H; [|exact Hne]. destruct H as [[v [Hv H]]|[e [Hv H]]];
        rewrite (guard_mono ev1 ev2 th _ Hle Hv) by congruence; cbn [bind]; first [exact H | congruence].
    - apply bind_inv in H; [|exact Hne]. destruct H as [[v [Hv H]]|[e [Hv H]]];
        rewrite (guard_mono ev1 ev2 th _ Hle Hv) by congruence; cbn [bind]; first [exact H | congruence].
    - apply bind_inv in H; [|exact Hne]. destruct H as [[v [Hv H]]|[e [Hv H]]];
        rewrite (guard_mono ev1 ev2 th _ Hle Hv) by congruence; cbn [bind]; first [exact H | congruence].
    - apply IHc; assumption.
    - destruct (lookup_tyvar k (ltenv l0)); [|exact H].
      destruct (Bool.eqb b (lpol l0)); [|exact H]. apply unseal_mono; assumption.
    - exact H.
  Qed.

  Lemma step_mono :
    forall cf m1 m2 r e res, m1 <= m2 -> step ev1 cf m1 r e = res -> res <> OutOfFuel -> step ev2 cf m2 r e = res.
  Proof.
    intros cf m1 m2 r e res Hm H Hne.
    destruct e; cbn [step] in *.
    - (* Var *) destruct (lookup x r); [|exact H]. apply Hle; assumption.
    - exact H.
    - (* App *) apply bind_inv in H; [|exact Hne]. destruct H as [[v [Hv H]]|[e [Hv H]]];
        rewrite (guard_mono ev1 ev2 _ _ Hle Hv) by congruence; simpl; [|congruence].
      destruct v; try exact H. apply Hle; assumption.
    - (* Let *) apply Hle; assumption.
    - exact H.
    - exact H.
    - exact H.
    - (* If *) apply bind_inv in H; [|exact Hne]. destruct H as [[v [Hv H]]|[e [Hv H]]];
        rewrite (guard_mono ev1 ev2 _ _ Hle Hv) by congruence; simpl; [|congruence].
      destruct v; try exact H. destruct b; apply Hle; assumption.
    - (* Op1 *) apply bind_inv in H; [|exact Hne].
      assert (Hg : forall r0, guard1 cf o (ev1 (Th r e)) = r0 -> r0 <> OutOfFuel -> guard1 cf o (ev2 (Th r e)) = r0).
      { intros r0 Hr0 Hne0. unfold guard1 in *.
        destruct o; try (eapply guard_mono; eauto);
          (destruct (cf_guard_typeof cf); [eapply guard_mono; eauto| apply Hle; assumption]). }
      destruct H as [[v [Hv H]]|[e0 [Hv H]]].
      + rewrite (Hg _ Hv) by congruence. simpl. apply op1_sem_mono; assumption.
      + rewrite (Hg _ Hv) by congruence. simpl. congruence.
    - (* Op2 *) apply bind_inv in H; [|exact Hne]. destruct H as [[v1 [Hv1 H]]|[e [Hv1 H]]];
        rewrite (guard_mono ev1 ev2 _ _ Hle Hv1) by congruence; simpl; [|congruence].
      apply bind_inv in H; [|exact Hne]. destruct H as [[v2 [Hv2 H]]|[e [Hv2 H]]];
        rewrite (guard_mono ev1 ev2 _ _ Hle Hv2) by congruence; simpl; [|congruence].
      eapply op2_sem_mono; eauto.
    - exact H.
    - (* ArrMap *) apply bind_inv in H; [|exact Hne]. destruct H as [[v [Hv H]]|[e [Hv H]]];
        rewrite (guard_mono ev1 ev2 _ _ Hle Hv) by congruence; simpl; congruence.
    - exact H.
    - (* Insert *) apply bind_inv in H; [|exact Hne]. destruct H as [[v [Hv H]]|[e [Hv H]]];
        rewrite (guard_mono ev1 ev2 _ _ Hle Hv) by congruence; simpl; congruence.
    - (* RecMap *) apply bind_inv in H; [|exact Hne]. destruct H as [[v [Hv H]]|[e [Hv H]]];
        rewrite (guard_mono ev1 ev2 _ _ Hle Hv) by congruence; simpl; congruence.
    - (* Seq *) apply bind_inv in H; [|exact Hne]. destruct H as [[v [Hv H]]|[e [Hv H]]].
      + rewrite (seqforce_mono m1 m2 _ _ Hm Hv) by congruence. simpl. apply Hle; assumption.
      + rewrite (seqforce_mono m1 m2 _ _ Hm Hv) by congruence. simpl. congruence.
    - (* Ann *) apply chk_with_mono; assumption.
    - apply chk_with_mono; assumption.
    - exact H.
    - apply unseal_mono; assumption.
  Qed.
End Mono.

Lemma force_le : forall cf n m, n <= m -> ev_le (force cf n) (force cf m).
Proof.
  intros cf n. induction n as [|n IH]; intros m Hm th r H Hne.
  - destruct th. simpl in H. congruence.
  - destruct m as [|m]; [lia|]. destruct th as [r0 e]. cbn [force] in *.
    cbn [eval] in *.
    eapply (step_mono (fun th => match th with Th r' e' => eval cf n r' e' end)
                      (fun th => match th with Th r' e' => eval cf m r' e' end)).
    + intros th r1 H1 Hne1. exact (IH m ltac:(lia) th r1 H1 Hne1).
    + instantiate (1 := n). lia.
    + exact H.
    + exact Hne.
Qed.

Theorem eval_mono :
  forall cf n m r e res, n <= m -> eval cf n r e = res -> res <> OutOfFuel -> eval cf m r e = res.
Proof. intros. exact (force_le cf n m H (Th r e) res H0 H1). Qed.

Theorem force_mono :
  forall cf n m th res, n <= m -> force cf n th = res -> res <> OutOfFuel -> force cf m th = res.
Proof. intros. exact (force_le cf n m H th res H0 H1). Qed.
