(* C11 — the contract of a polymorphic type is transparent for parametric implementations. *)
From Coq Require Import List String ZArith Bool Lia.
From NV Require Import Seal.Syntax Seal.Eval Seal.Mono Seal.Typing Seal.LogRel Seal.Fundamental Seal.Tail.
Import ListNotations.
Open Scope string_scope.
Open Scope list_scope.

Lemma eval_S_step : forall cf n r e, eval cf (S n) r e = step (force cf n) cf n r e.
Proof. reflexivity. Qed.
Lemma force_Th_eval : forall cf n r e, force cf n (Th r e) = eval cf n r e.
Proof. reflexivity. Qed.

Section StyInd.
  Variable P : sty -> Prop.
  Hypothesis HVar : forall i, P (SVar i).
  Hypothesis HNum : P SNum. Hypothesis HBool : P SBool. Hypothesis HStr : P SStr.
  Hypothesis HFun : forall a b, P a -> P b -> P (SFun a b).
  Hypothesis HArr : forall a, P a -> P (SArr a).
  Hypothesis HRec : forall fs, Forall (fun p => P (snd p)) fs -> P (SRec fs).
  Hypothesis HRow : forall fs i ex, Forall (fun p => P (snd p)) fs -> P (SRow fs i ex).
  Fixpoint sty_ind' (T : sty) : P T :=
    match T with
    | SVar i => HVar i | SNum => HNum | SBool => HBool | SStr => HStr
    | SFun a b => HFun a b (sty_ind' a) (sty_ind' b)
    | SArr a => HArr a (sty_ind' a)
    | SRec fs => HRec fs ((fix go (fs : list (string * sty)) : Forall (fun p => P (snd p)) fs :=
                             match fs with [] => Forall_nil _ | p :: fs' => Forall_cons p (sty_ind' (snd p)) (go fs') end) fs)
    | SRow fs i ex =>
        HRow fs i ex ((fix go (fs : list (string * sty)) : Forall (fun p => P (snd p)) fs :=
                         match fs with [] => Forall_nil _ | p :: fs' => Forall_cons p (sty_ind' (snd p)) (go fs') end) fs)
    end.
End StyInd.

(* variables below nv, record fields pairwise distinct *)
Fixpoint scoped (nv : nat) (T : sty) : Prop :=
  match T with
  | SVar i => i < nv
  | SNum | SBool | SStr => True
  | SFun a b => scoped nv a /\ scoped nv b
  | SArr a => scoped nv a
  | SRec fs => NoDup (map fst fs)
               /\ (fix go (fs : list (string * sty)) : Prop :=
                     match fs with [] => True | (_, T) :: fs' => scoped nv T /\ go fs' end) fs
  | SRow fs i _ => i < nv /\ NoDup (map fst fs)
               /\ (fix go (fs : list (string * sty)) : Prop :=
                     match fs with [] => True | (_, T) :: fs' => scoped nv T /\ go fs' end) fs
  end.

(* the instantiation of a row variable is a record type whose fields are distinct, are not among the
   listed fields and are not excluded *)
Fixpoint rows_ok (sg : nat -> sty) (T : sty) : Prop :=
  match T with
  | SVar _ | SNum | SBool | SStr => True
  | SFun a b => rows_ok sg a /\ rows_ok sg b
  | SArr a => rows_ok sg a
  | SRec fs => (fix go (fs : list (string * sty)) : Prop :=
                  match fs with [] => True | (_, T) :: fs' => rows_ok sg T /\ go fs' end) fs
  | SRow fs i ex =>
      (exists tl, sg i = SRec tl /\ NoDup (map fst tl)
                  /\ (forall x, In x (map fst tl) -> ~ In x (map fst fs) /\ mem_str x ex = false))
      /\ (fix go (fs : list (string * sty)) : Prop :=
            match fs with [] => True | (_, T) :: fs' => rows_ok sg T /\ go fs' end) fs
  end.

Fixpoint norow (T : sty) : Prop :=
  match T with
  | SVar _ | SNum | SBool | SStr => True
  | SFun a b => norow a /\ norow b
  | SArr a => norow a
  | SRec fs => (fix go (fs : list (string * sty)) : Prop :=
                  match fs with [] => True | (_, T) :: fs' => norow T /\ go fs' end) fs
  | SRow _ _ _ => False
  end.

Definition wrapT (c : ctr) (l : lbl) (t : thunk) : thunk :=
  match t with Th r e => Th r (Chk c l e) end.

Lemma ev_wrapT : forall n c l t, ev (S n) (wrapT c l t) = chk_with (ev n) cfg_real c l t.
Proof. intros n c l [r e]. reflexivity. Qed.

Lemma wrap_elem_wrapT : forall c l t, wrap_elem c l t = wrapT c l (Th [("%e", t)] (Var "%e")).
Proof. reflexivity. Qed.

Lemma OR_terminates_r : forall d T r1 r2, is_svar T = false -> OR d T r1 r2 -> r2 <> OutOfFuel.
Proof.
  intros d T r1 r2 Hv H. destruct T; try discriminate; cbn [OR] in H;
    destruct H as [[e [_ H]]|H]; try (subst; congruence).
  - destruct H as [z [_ H]]. subst; congruence.
  - destruct H as [z [_ H]]. subst; congruence.
  - destruct H as [z [_ H]]. subst; congruence.
  - destruct H as [p1 [x1 [b1 [p2 [x2 [b2 [_ [H _]]]]]]]]. subst; congruence.
  - destruct H as [l1 [l2 [_ [H _]]]]. subst; congruence.
  - destruct H as [f1 [f2 [_ [H _]]]]. subst; congruence.
  - destruct H as [f1 [g1 [l [f2 [g2 [_ [H _]]]]]]]. subst; congruence.
Qed.

Lemma OR_unsealed_rel : forall d U, is_svar U = false -> unsealed_rel (OR d U).
Proof.
  intros d U Hv r1 r2 HO. destruct r2 as [v2|e2|].
  - destruct (OR_ok_inv _ _ _ _ Hv HO) as [v1 E]. subst r1.
    destruct (OR_kind _ _ _ _ Hv HO) as [U1 [U2 _]]. right. eauto 6.
  - rewrite (OR_err_inv _ _ _ _ Hv HO). left. eauto.
  - exfalso. eapply OR_terminates_r; eauto.
Qed.

Lemma OR_base_eq : forall d U r1 r2, is_base U = true -> OR d U r1 r2 -> r1 = r2.
Proof.
  intros d U r1 r2 Hb HO. destruct U; try discriminate; cbn [OR] in HO;
    destruct HO as [[e [H1 H2]]|[z [H1 H2]]]; congruence.
Qed.

(* applying, on the sealed side, a function that is reached through a variable *)
Lemma app_through_var :
  forall (O : orel) env f a t1 m1 q1 x1 b1 body2,
    (forall r1 r2, O r1 r2 -> r1 <> OutOfFuel) ->
    lookup f env = Some t1 ->
    ev m1 t1 = Ok (VClo q1 x1 b1) ->
    lift O (Th ((x1, Th env a) :: q1) b1) body2 ->
    lift O (Th env (App (Var f) a)) body2.
Proof.
  intros O env f a t1 m1 q1 x1 b1 body2 Hterm Hl Hf Hb n r2 H2 Hne.
  destruct (Hb n r2 H2 Hne) as [m2 [r1 [Hb1 HO]]].
  exists (S (S (m1 + m2))), r1. split; [|exact HO].
  rewrite ev_S. cbn [step]. rewrite ev_S. cbn [step]. rewrite Hl.
  rewrite (ev_mono m1 (m1 + m2) _ _ ltac:(lia) Hf) by congruence. cbn [guard bind].
  apply (ev_mono m2 (S (m1 + m2)) _ _ ltac:(lia) Hb1). eapply Hterm; eauto.
Qed.

Section Wrap.
  Variable nv : nat.
  Variable keys : nat -> nat.
  Variable sg : nat -> sty.          (* instantiation *)
  Variable d0 : nat -> tyint.
  Definition ds : nat -> tyint :=
    fun i => MkInt (keys i) (OR d0 (sg i))
                   (fun g1 g2 => match sg i with SRec tl => rec_rel d0 tl g1 g2 | _ => False end).

  Definition lbl_ok (l : lbl) : Prop := forall i, i < nv -> lookup_tyvar (keys i) (ltenv l) = Some true.

  Lemma lbl_ok_flip : forall l, lbl_ok l -> lbl_ok (flip l).
  Proof. intros l H i Hi. exact (H i Hi). Qed.

  Definition wrap_pos (T : sty) : Prop :=
    forall l t1 t2, lpol l = true -> lbl_ok l ->
      lift (OR ds T) t1 t2 -> lift (OR d0 (inst sg T)) (wrapT (sty_ctr keys T) l t1) t2.
  Definition wrap_neg (T : sty) : Prop :=
    forall l t1 t2, lpol l = false -> lbl_ok l ->
      lift (OR d0 (inst sg T)) t1 t2 -> lift (OR ds T) (wrapT (sty_ctr keys T) l t1) t2.

  Ltac base_case :=
    intros l t1 t2 Hp Hok Hl n r2 H2 Hne;
    destruct (Hl n r2 H2 Hne) as [m1 [r1 [H1 HO]]];
    exists (S m1), r1; split;
    [ rewrite ev_wrapT; cbn [sty_ctr chk_with]; rewrite H1;
      cbn [OR] in HO; destruct HO as [[e [E1 E2]]|[z [E1 E2]]]; rewrite E1; reflexivity
    | cbn [OR inst] in *; destruct HO as [[e [E1 E2]]|[z [E1 E2]]]; [left|right]; eauto ].

  Lemma center_aligned :
    forall l (cfs0 cfs : list (string * ctr)) (f1 : list (string * thunk)),
      (forall x c, In (x, c) cfs -> lookup x cfs0 = Some c) ->
      map fst cfs = map fst f1 ->
      flat_map (fun '(x, t) => match lookup x cfs0 with
                               | Some c => [(x, wrap_elem c l t)]
                               | None => []
                               end) f1
      = map (fun '((x, c), (_, t)) => (x, wrap_elem c l t)) (combine cfs f1).
  Proof.
    intros l cfs0 cfs. induction cfs as [|[x c] cfs IH]; intros f1 Hin Hm; destruct f1 as [|[y t] f1]; try discriminate.
    - reflexivity.
    - cbn [map fst] in Hm. inversion Hm; subst y. cbn [flat_map combine map].
      rewrite (Hin x c (or_introl eq_refl)). cbn [app]. f_equal.
      apply IH; [|assumption]. intros z c' Hz. apply Hin. right. exact Hz.
  Qed.

  Lemma lookup_nodup :
    forall {A} (l : list (string * A)) x a, NoDup (map fst l) -> In (x, a) l -> lookup x l = Some a.
  Proof.
    intros A l. induction l as [|[y b] l IH]; intros x a Hnd Hin; [contradiction|].
    cbn [map fst] in Hnd. inversion Hnd; subst. cbn [lookup]. destruct Hin as [E|Hin].
    - inversion E; subst. rewrite String.eqb_refl. reflexivity.
    - destruct (String.eqb x y) eqn:Exy.
      + apply String.eqb_eq in Exy. subst y. exfalso. apply H1. apply (in_map fst) in Hin. exact Hin.
      + apply IH; assumption.
  Qed.

  Lemma mem_of_names :
    forall {A B} (l1 : list (string * A)) (l2 : list (string * B)) x a,
      map fst l1 = map fst l2 -> In (x, a) l1 -> mem x l2 = true.
  Proof.
    intros A B l1. induction l1 as [|[y b] l1 IH]; intros l2 x a Hm Hin; [contradiction|].
    destruct l2 as [|[z c] l2]; [discriminate|]. cbn [map fst] in Hm. inversion Hm; subst z.
    unfold mem. cbn [lookup]. destruct Hin as [E|Hin].
    - inversion E; subst. rewrite String.eqb_refl. reflexivity.
    - destruct (String.eqb x y); [reflexivity|]. apply (IH l2 x a H1 Hin).
  Qed.

  Lemma filter_none :
    forall {A} (f : A -> bool) l, (forall a, In a l -> f a = false) -> filter f l = [].
  Proof.
    intros A f l. induction l as [|a l IH]; intros H; [reflexivity|]. cbn [filter].
    rewrite (H a (or_introl eq_refl)). apply IH. intros b Hb. apply H. right. exact Hb.
  Qed.

  (* $record_type on a record that has exactly the fields of the (closed) record type *)
  Lemma chk_record_aligned :
    forall cf l (cfs : list (string * ctr)) (f1 : list (string * thunk)),
      NoDup (map fst cfs) -> map fst cfs = map fst f1 ->
      chk_record cf cfs CTEmpty l (VRec f1 RNone)
      = Ok (VRec (map (fun '((x, c), (_, t)) => (x, wrap_elem c l t)) (combine cfs f1)) RNone).
  Proof.
    intros cf l cfs f1 Hnd Hm. unfold chk_record.
    rewrite (filter_none (fun '(x, _) => negb (mem x f1)) cfs).
    2:{ intros [x c] Hin. rewrite (mem_of_names cfs f1 x c Hm Hin). reflexivity. }
    rewrite (filter_none (fun '(x, _) => negb (mem x cfs)) f1).
    2:{ intros [x t] Hin. rewrite (mem_of_names f1 cfs x t (eq_sym Hm) Hin). reflexivity. }
    rewrite (center_aligned l cfs cfs f1); [reflexivity| |exact Hm].
    intros x c Hin. apply lookup_nodup; assumption.
  Qed.

  Definition ctr_fields (fs : list (string * sty)) : list (string * ctr) :=
    (fix go (fs : list (string * sty)) : list (string * ctr) :=
       match fs with [] => [] | (x, T) :: fs' => (x, sty_ctr keys T) :: go fs' end) fs.
  Definition inst_fields (fs : list (string * sty)) : list (string * sty) :=
    (fix go (fs : list (string * sty)) : list (string * sty) :=
       match fs with [] => [] | (x, T) :: fs' => (x, inst sg T) :: go fs' end) fs.

  Lemma ctr_fields_names : forall fs, map fst (ctr_fields fs) = map fst fs.
  Proof. induction fs as [|[x T] fs IH]; [reflexivity|]. cbn [ctr_fields map fst] in *. f_equal. exact IH. Qed.

  Lemma rec_rel_names : forall d fs f1 f2, rec_rel d fs f1 f2 -> map fst fs = map fst f1 /\ map fst fs = map fst f2.
  Proof.
    intros d fs. induction fs as [|[x T] fs IH]; intros f1 f2 H; destruct f1 as [|[x1 t1] f1]; destruct f2 as [|[x2 t2] f2];
      cbn [rec_rel] in H; try contradiction.
    - split; reflexivity.
    - destruct H as [E1 [E2 [_ H]]]. subst. destruct (IH _ _ H) as [A B]. cbn [map fst]. split; f_equal; assumption.
  Qed.

  Lemma fields_pos :
    forall fs, Forall (fun p => wrap_pos (snd p)) fs ->
      forall l f1 f2, lpol l = true -> lbl_ok l -> rec_rel ds fs f1 f2 ->
        rec_rel d0 (inst_fields fs)
          (map (fun '((x, c), (_, t)) => (x, wrap_elem c l t)) (combine (ctr_fields fs) f1)) f2.
  Proof.
    intros fs HF l. induction HF as [|[x T] fs PT HF IH]; intros f1 f2 Hp Hok Hr;
      destruct f1 as [|[x1 u1] f1]; destruct f2 as [|[x2 u2] f2]; cbn [rec_rel] in Hr; try contradiction.
    - exact I.
    - destruct Hr as [E1 [E2 [Hu Hr]]]. subst x1 x2. cbn [snd] in PT.
      cbn [ctr_fields inst_fields combine map rec_rel]. split; [reflexivity|]. split; [reflexivity|]. split.
      + rewrite wrap_elem_wrapT. apply PT; [assumption|assumption|]. eapply lift_var; [reflexivity|exact Hu].
      + apply IH; assumption.
  Qed.

  Lemma fields_neg :
    forall fs, Forall (fun p => wrap_neg (snd p)) fs ->
      forall l f1 f2, lpol l = false -> lbl_ok l -> rec_rel d0 (inst_fields fs) f1 f2 ->
        rec_rel ds fs
          (map (fun '((x, c), (_, t)) => (x, wrap_elem c l t)) (combine (ctr_fields fs) f1)) f2.
  Proof.
    intros fs HF l. induction HF as [|[x T] fs NT HF IH]; intros f1 f2 Hp Hok Hr;
      destruct f1 as [|[x1 u1] f1]; destruct f2 as [|[x2 u2] f2]; cbn [rec_rel inst_fields] in Hr; try contradiction.
    - exact I.
    - destruct Hr as [E1 [E2 [Hu Hr]]]. subst x1 x2. cbn [snd] in NT.
      cbn [ctr_fields combine map rec_rel]. split; [reflexivity|]. split; [reflexivity|]. split.
      + rewrite wrap_elem_wrapT. apply NT; [assumption|assumption|]. eapply lift_var; [reflexivity|exact Hu].
      + apply IH; assumption.
  Qed.

  Lemma inst_fields_names : forall fs, map fst (inst_fields fs) = map fst fs.
  Proof. induction fs as [|[x T] fs IH]; [reflexivity|]. cbn [inst_fields map fst] in *. f_equal. exact IH. Qed.

  Lemma rec_rel_app :
    forall d A B f1 f2 g1 g2, rec_rel d A f1 f2 -> rec_rel d B g1 g2 -> rec_rel d (A ++ B) (f1 ++ g1) (f2 ++ g2).
  Proof.
    intros d A. induction A as [|[x T] A IH]; intros B f1 f2 g1 g2 Hf Hg;
      destruct f1 as [|[x1 u1] f1]; destruct f2 as [|[x2 u2] f2]; cbn [rec_rel] in Hf; try contradiction.
    - exact Hg.
    - destruct Hf as [E1 [E2 [Hu Hf]]]. cbn [app rec_rel]. repeat split; try assumption. apply IH; assumption.
  Qed.

  Lemma rec_rel_app_inv :
    forall d A B F1 F2, rec_rel d (A ++ B) F1 F2 ->
      exists f1 g1 f2 g2, F1 = f1 ++ g1 /\ F2 = f2 ++ g2 /\ rec_rel d A f1 f2 /\ rec_rel d B g1 g2.
  Proof.
    intros d A. induction A as [|[x T] A IH]; intros B F1 F2 H.
    - exists [], F1, [], F2. repeat split; try reflexivity. exact H.
    - destruct F1 as [|[x1 u1] F1]; destruct F2 as [|[x2 u2] F2]; cbn [app rec_rel] in H; try contradiction.
      destruct H as [E1 [E2 [Hu H]]]. destruct (IH B F1 F2 H) as [f1 [g1 [f2 [g2 [A1 [A2 [Hf Hg]]]]]]].
      exists ((x1, u1) :: f1), g1, ((x2, u2) :: f2), g2. subst. cbn [app rec_rel]. repeat split; assumption.
  Qed.

  (* set_field / extend_fields on names that are new *)
  Lemma set_field_new :
    forall x t fs, ~ In x (map fst fs) -> set_field x t fs = fs ++ [(x, t)].
  Proof.
    intros x t fs. induction fs as [|[y u] fs IH]; intros Hn; [reflexivity|].
    cbn [set_field map fst app] in *. destruct (String.eqb x y) eqn:E.
    - apply String.eqb_eq in E. subst. exfalso. apply Hn. left. reflexivity.
    - rewrite IH; [reflexivity|]. intro Hin. apply Hn. right. exact Hin.
  Qed.

  Lemma extend_fields_new :
    forall g fs, NoDup (map fst g) -> (forall x, In x (map fst g) -> ~ In x (map fst fs)) ->
      extend_fields fs g = fs ++ g.
  Proof.
    unfold extend_fields. induction g as [|[x t] g IH]; intros fs Hnd Hdis; cbn [fold_left].
    - rewrite app_nil_r. reflexivity.
    - cbn [map fst] in Hnd. inversion Hnd; subst.
      rewrite set_field_new by (apply Hdis; left; reflexivity).
      rewrite IH.
      + rewrite <- app_assoc. reflexivity.
      + assumption.
      + intros y Hy Hin. rewrite map_app in Hin. apply in_app_or in Hin. destruct Hin as [Hin|Hin].
        * apply (Hdis y); [right; exact Hy|exact Hin].
        * cbn in Hin. destruct Hin as [E|[]]. subst y. contradiction.
  Qed.

  Lemma mem_names : forall {A} (l : list (string * A)) x, mem x l = true <-> In x (map fst l).
  Proof.
    intros A l x. unfold mem. induction l as [|[y a] l IH]; cbn [lookup map fst In].
    - split; [discriminate|contradiction].
    - destruct (String.eqb x y) eqn:E.
      + apply String.eqb_eq in E. subst. split; auto.
      + split.
        * intro H. right. apply IH. exact H.
        * intros [H|H]; [subst; rewrite String.eqb_refl in E; discriminate|apply IH; exact H].
  Qed.

  Lemma mem_false_names : forall {A} (l : list (string * A)) x, ~ In x (map fst l) -> mem x l = false.
  Proof. intros A l x H. destruct (mem x l) eqn:E; [|reflexivity]. apply mem_names in E. contradiction. Qed.

  Lemma center_of_absent :
    forall cfs l (b : list (string * thunk)),
      (forall x, In x (map fst b) -> ~ In x (map fst cfs)) -> center_of cfs l b = [].
  Proof.
    intros cfs l b. unfold center_of. induction b as [|[x t] b IH]; intros H; [reflexivity|].
    cbn [flat_map].
    assert (E : lookup x cfs = None).
    { pose proof (mem_false_names cfs x (H x (or_introl eq_refl))) as M. unfold mem in M.
      destruct (lookup x cfs); [discriminate|reflexivity]. }
    rewrite E. cbn [app]. apply IH. intros y Hy. apply H. right. exact Hy.
  Qed.

  Lemma extra_of_present :
    forall (cfs : list (string * ctr)) (a : list (string * thunk)),
      (forall x, In x (map fst a) -> In x (map fst cfs)) -> extra_of cfs a = [].
  Proof.
    intros cfs a H. unfold extra_of. apply filter_none. intros [x t] Hin.
    assert (M : mem x cfs = true) by (apply mem_names; apply H; apply (in_map fst) in Hin; exact Hin).
    rewrite M. reflexivity.
  Qed.

  Lemma extra_of_absent :
    forall (cfs : list (string * ctr)) (b : list (string * thunk)),
      (forall x, In x (map fst b) -> ~ In x (map fst cfs)) -> extra_of cfs b = b.
  Proof.
    intros cfs b. unfold extra_of. induction b as [|[x t] b IH]; intros H; [reflexivity|].
    cbn [filter]. rewrite (mem_false_names cfs x (H x (or_introl eq_refl))). cbn [negb].
    f_equal. apply IH. intros y Hy. apply H. right. exact Hy.
  Qed.

  Lemma center_of_aligned :
    forall l (cfs : list (string * ctr)) (f1 : list (string * thunk)),
      NoDup (map fst cfs) -> map fst cfs = map fst f1 ->
      center_of cfs l f1 = map (fun '((x, c), (_, t)) => (x, wrap_elem c l t)) (combine cfs f1).
  Proof.
    intros l cfs f1 Hnd Hm. unfold center_of. apply center_aligned; [|exact Hm].
    intros x c Hin. apply lookup_nodup; assumption.
  Qed.

  Lemma aligned_names :
    forall l (cfs : list (string * ctr)) (f1 : list (string * thunk)),
      map fst cfs = map fst f1 ->
      map fst (map (fun '((x, c), (_, t)) => (x, wrap_elem c l t)) (combine cfs f1)) = map fst cfs.
  Proof.
    intros l cfs. induction cfs as [|[x c] cfs IH]; intros f1 Hm; destruct f1 as [|[y t] f1]; try discriminate; [reflexivity|].
    cbn [map fst combine] in *. inversion Hm. f_equal. apply IH. assumption.
  Qed.

  Theorem wrap_both : forall T, scoped nv T -> rows_ok sg T -> wrap_pos T /\ wrap_neg T.
  Proof.
    induction T as [i| | | |a b IHa IHb|a IHa|fs IHfs|fs ri ex IHfs] using sty_ind'; intros Hsc Hro;
      cbn [scoped] in Hsc; cbn [rows_ok] in Hro.
    - (* SVar *)
      split.
      + intros l t1 t2 Hp Hok Hl n r2 H2 Hne.
        destruct (Hl n r2 H2 Hne) as [m1 [r1 [H1 HO]]].
        cbn [OR] in HO. destruct HO as [[e [E1 E2]]|[t [l' [E1 [m2 [r1' [Hc [Hcne Hrel]]]]]]]].
        * exists (S m1), (Err e). split.
          -- rewrite ev_wrapT. cbn [sty_ctr chk_with]. rewrite (Hok i Hsc), Hp. cbn [Bool.eqb].
             unfold unseal. rewrite H1, E1. reflexivity.
          -- rewrite E2. apply OR_err.
        * exists (S (m1 + m2)), r1'. split.
          -- rewrite ev_wrapT. cbn [sty_ctr chk_with]. rewrite (Hok i Hsc), Hp. cbn [Bool.eqb].
             unfold unseal. rewrite (ev_mono m1 (m1 + m2) _ _ ltac:(lia) H1) by (rewrite E1; congruence).
             rewrite E1. cbn [ds ti_key]. rewrite Nat.eqb_refl.
             apply (ev_mono m2 (m1 + m2) _ _ ltac:(lia) Hc Hcne).
          -- exact Hrel.
      + intros l t1 t2 Hp Hok Hl n r2 H2 Hne.
        destruct (Hl n r2 H2 Hne) as [m1 [r1 [H1 HO]]].
        exists 1, (Ok (VSealed (keys i) t1 (flip l))). split.
        * rewrite ev_wrapT. cbn [sty_ctr chk_with]. rewrite (Hok i Hsc), Hp. reflexivity.
        * cbn [OR]. right. exists t1, (flip l). split; [reflexivity|].
          exists m1, r1. split; [exact H1|]. split; [eapply OR_terminates; eauto|exact HO].
    - split; base_case.
    - split; base_case.
    - split; base_case.
    - (* SFun *)
      destruct Hsc as [Hsa Hsb]. destruct Hro as [Hra Hrb].
      destruct (IHa Hsa Hra) as [Pa Na]. destruct (IHb Hsb Hrb) as [Pb Nb].
      split.
      + intros l t1 t2 Hp Hok Hl n r2 H2 Hne.
        destruct (Hl n r2 H2 Hne) as [m1 [r1 [H1 HO]]].
        cbn [OR] in HO. destruct HO as [[e [E1 E2]]|[q1 [x1 [b1 [q2 [x2 [b2 [E1 [E2 Hclo]]]]]]]]].
        * exists (S m1), (Err e). split.
          -- rewrite ev_wrapT. cbn [sty_ctr chk_with]. rewrite H1, E1. reflexivity.
          -- rewrite E2. apply OR_err.
        * eexists (S m1), _. split.
          -- rewrite ev_wrapT. cbn [sty_ctr chk_with]. rewrite H1, E1. cbn [guard bind]. reflexivity.
          -- rewrite E2. cbn [OR inst cf_flip_dom cfg_real]. right. do 6 eexists. split; [reflexivity|]. split; [reflexivity|].
             intros u1 u2 Hu.
             change (Th (("%x", u1) :: [("%f", t1)])
                        (Chk (sty_ctr keys b) l (App (Var "%f") (Chk (sty_ctr keys a) (flip l) (Var "%x")))))
               with (wrapT (sty_ctr keys b) l
                       (Th (("%x", u1) :: [("%f", t1)]) (App (Var "%f") (Chk (sty_ctr keys a) (flip l) (Var "%x"))))).
             apply Pb; [assumption|assumption|].
             eapply (app_through_var (OR ds b)).
             ++ intros; eapply OR_terminates; eauto.
             ++ reflexivity.
             ++ rewrite <- E1. exact H1.
             ++ apply Hclo.
                change (Th (("%x", u1) :: [("%f", t1)]) (Chk (sty_ctr keys a) (flip l) (Var "%x")))
                  with (wrapT (sty_ctr keys a) (flip l) (Th (("%x", u1) :: [("%f", t1)]) (Var "%x"))).
                apply Na; [cbn; rewrite Hp; reflexivity|apply lbl_ok_flip; assumption|].
                eapply lift_var; [reflexivity|exact Hu].
      + intros l t1 t2 Hp Hok Hl n r2 H2 Hne.
        destruct (Hl n r2 H2 Hne) as [m1 [r1 [H1 HO]]].
        cbn [OR inst] in HO. destruct HO as [[e [E1 E2]]|[q1 [x1 [b1 [q2 [x2 [b2 [E1 [E2 Hclo]]]]]]]]].
        * exists (S m1), (Err e). split.
          -- rewrite ev_wrapT. cbn [sty_ctr chk_with]. rewrite H1, E1. reflexivity.
          -- rewrite E2. apply OR_err.
        * eexists (S m1), _. split.
          -- rewrite ev_wrapT. cbn [sty_ctr chk_with]. rewrite H1, E1. cbn [guard bind]. reflexivity.
          -- rewrite E2. cbn [OR cf_flip_dom cfg_real]. right. do 6 eexists. split; [reflexivity|]. split; [reflexivity|].
             intros u1 u2 Hu.
             change (Th (("%x", u1) :: [("%f", t1)])
                        (Chk (sty_ctr keys b) l (App (Var "%f") (Chk (sty_ctr keys a) (flip l) (Var "%x")))))
               with (wrapT (sty_ctr keys b) l
                       (Th (("%x", u1) :: [("%f", t1)]) (App (Var "%f") (Chk (sty_ctr keys a) (flip l) (Var "%x"))))).
             apply Nb; [assumption|assumption|].
             eapply (app_through_var (OR d0 (inst sg b))).
             ++ intros; eapply OR_terminates; eauto.
             ++ reflexivity.
             ++ rewrite <- E1. exact H1.
             ++ apply Hclo.
                change (Th (("%x", u1) :: [("%f", t1)]) (Chk (sty_ctr keys a) (flip l) (Var "%x")))
                  with (wrapT (sty_ctr keys a) (flip l) (Th (("%x", u1) :: [("%f", t1)]) (Var "%x"))).
                apply Pa; [cbn; rewrite Hp; reflexivity|apply lbl_ok_flip; assumption|].
                eapply lift_var; [reflexivity|exact Hu].
    - (* SArr *)
      destruct (IHa Hsc Hro) as [Pa Na].
      split.
      + intros l t1 t2 Hp Hok Hl n r2 H2 Hne.
        destruct (Hl n r2 H2 Hne) as [m1 [r1 [H1 HO]]].
        cbn [OR] in HO. destruct HO as [[e [E1 E2]]|[l1 [l2 [E1 [E2 HF]]]]].
        * exists (S m1), (Err e). split.
          -- rewrite ev_wrapT. cbn [sty_ctr chk_with]. rewrite H1, E1. reflexivity.
          -- rewrite E2. apply OR_err.
        * eexists (S m1), _. split.
          -- rewrite ev_wrapT. cbn [sty_ctr chk_with]. rewrite H1, E1. cbn [guard bind]. reflexivity.
          -- rewrite E2. cbn [OR inst]. right. do 2 eexists. split; [reflexivity|]. split; [reflexivity|].
             clear -HF Pa Hp Hok. induction HF as [|u1 u2 l1 l2 Hu HF IH]; cbn [map]; constructor; [|exact IH].
             rewrite wrap_elem_wrapT. apply Pa; [assumption|assumption|].
             eapply lift_var; [reflexivity|exact Hu].
      + intros l t1 t2 Hp Hok Hl n r2 H2 Hne.
        destruct (Hl n r2 H2 Hne) as [m1 [r1 [H1 HO]]].
        cbn [OR inst] in HO. destruct HO as [[e [E1 E2]]|[l1 [l2 [E1 [E2 HF]]]]].
        * exists (S m1), (Err e). split.
          -- rewrite ev_wrapT. cbn [sty_ctr chk_with]. rewrite H1, E1. reflexivity.
          -- rewrite E2. apply OR_err.
        * eexists (S m1), _. split.
          -- rewrite ev_wrapT. cbn [sty_ctr chk_with]. rewrite H1, E1. cbn [guard bind]. reflexivity.
          -- rewrite E2. cbn [OR]. right. do 2 eexists. split; [reflexivity|]. split; [reflexivity|].
             clear -HF Na Hp Hok. induction HF as [|u1 u2 l1 l2 Hu HF IH]; cbn [map]; constructor; [|exact IH].
             rewrite wrap_elem_wrapT. apply Na; [assumption|assumption|].
             eapply lift_var; [reflexivity|exact Hu].
    - (* SRec *)
      destruct Hsc as [Hnd Hsall].
      assert (HFP : Forall (fun p => wrap_pos (snd p)) fs /\ Forall (fun p => wrap_neg (snd p)) fs).
      { clear Hnd. induction IHfs as [|[x T] fs IHT IHfs' IH]; [split; constructor|].
        destruct Hsall as [HsT Hsall]. destruct Hro as [HrT Hro]. cbn [snd] in IHT.
        destruct (IHT HsT HrT) as [PT NT]. destruct (IH Hsall Hro) as [PF NF]. split; constructor; assumption. }
      destruct HFP as [HFpos HFneg].
      pose proof (fields_pos fs HFpos) as Hpos. pose proof (fields_neg fs HFneg) as Hneg.
      assert (Hndc : NoDup (map fst (ctr_fields fs))) by (rewrite ctr_fields_names; exact Hnd).
      split.
      + intros l t1 t2 Hp Hok Hl n r2 H2 Hne.
        destruct (Hl n r2 H2 Hne) as [m1 [r1 [H1 HO]]].
        cbn [OR] in HO. destruct HO as [[e [E1 E2]]|[f1 [f2 [E1 [E2 Hr]]]]].
        * exists (S m1), (Err e). split.
          -- rewrite ev_wrapT. cbn [sty_ctr chk_with]. rewrite H1, E1. reflexivity.
          -- rewrite E2. apply OR_err.
        * change (rec_rel ds fs f1 f2) in Hr.
          destruct (rec_rel_names _ _ _ _ Hr) as [N1 N2].
          exists (S m1), (Ok (VRec (map (fun '((x, c), (_, t)) => (x, wrap_elem c l t)) (combine (ctr_fields fs) f1)) RNone)). split.
          -- rewrite ev_wrapT. cbn [sty_ctr chk_with]. rewrite H1, E1. cbn [guard bind].
             apply chk_record_aligned; [exact Hndc|rewrite ctr_fields_names; exact N1].
          -- rewrite E2. cbn [OR inst]. right. do 2 eexists. split; [reflexivity|]. split; [reflexivity|].
             change (rec_rel d0 (inst_fields fs)
                       (map (fun '((x, c), (_, t)) => (x, wrap_elem c l t)) (combine (ctr_fields fs) f1)) f2).
             apply Hpos; assumption.
      + intros l t1 t2 Hp Hok Hl n r2 H2 Hne.
        destruct (Hl n r2 H2 Hne) as [m1 [r1 [H1 HO]]].
        cbn [OR inst] in HO. destruct HO as [[e [E1 E2]]|[f1 [f2 [E1 [E2 Hr]]]]].
        * exists (S m1), (Err e). split.
          -- rewrite ev_wrapT. cbn [sty_ctr chk_with]. rewrite H1, E1. reflexivity.
          -- rewrite E2. apply OR_err.
        * change (rec_rel d0 (inst_fields fs) f1 f2) in Hr.
          destruct (rec_rel_names _ _ _ _ Hr) as [N1 N2].
          assert (N0 : map fst (inst_fields fs) = map fst fs).
          { clear. induction fs as [|[x T] fs IH]; [reflexivity|]. cbn [inst_fields map fst] in *. f_equal. exact IH. }
          exists (S m1), (Ok (VRec (map (fun '((x, c), (_, t)) => (x, wrap_elem c l t)) (combine (ctr_fields fs) f1)) RNone)). split.
          -- rewrite ev_wrapT. cbn [sty_ctr chk_with]. rewrite H1, E1. cbn [guard bind].
             apply chk_record_aligned; [exact Hndc|rewrite ctr_fields_names, <- N0; exact N1].
          -- rewrite E2. cbn [OR]. right. do 2 eexists. split; [reflexivity|]. split; [reflexivity|].
             change (rec_rel ds fs
                       (map (fun '((x, c), (_, t)) => (x, wrap_elem c l t)) (combine (ctr_fields fs) f1)) f2).
             apply Hneg; assumption.
    - (* SRow *)
      destruct Hsc as [Hlt [Hnd Hsall]]. destruct Hro as [[tl [Hsg [Hndt Hdis]]] Hrall].
      assert (HFP : Forall (fun p => wrap_pos (snd p)) fs /\ Forall (fun p => wrap_neg (snd p)) fs).
      { clear Hnd Hdis. induction IHfs as [|[x T] fs IHT IHfs' IH]; [split; constructor|].
        destruct Hsall as [HsT Hsall]. destruct Hrall as [HrT Hrall]. cbn [snd] in IHT.
        destruct (IHT HsT HrT) as [PT NT]. destruct (IH Hsall Hrall) as [PF NF]. split; constructor; assumption. }
      destruct HFP as [HFpos HFneg].
      pose proof (fields_pos fs HFpos) as Hpos. pose proof (fields_neg fs HFneg) as Hneg.
      assert (Hndc : NoDup (map fst (ctr_fields fs))) by (rewrite ctr_fields_names; exact Hnd).
      assert (Hinst : inst sg (SRow fs ri ex) = SRec (inst_fields fs ++ tl)).
      { cbn [inst]. rewrite Hsg. reflexivity. }
      assert (Hctr : sty_ctr keys (SRow fs ri ex) = CRec (ctr_fields fs) (CTVar (keys ri) ex)) by reflexivity.
      split.
      + intros l t1 t2 Hp Hok Hl n r2 H2 Hne.
        destruct (Hl n r2 H2 Hne) as [m1 [r1 [H1 HO]]].
        cbn [OR] in HO. destruct HO as [[e [E1 E2]]|[f1 [g1 [sl [f2 [g2 [E1 [E2 [Hr Hrow]]]]]]]]].
        * exists (S m1), (Err e). split.
          -- rewrite ev_wrapT, Hctr. cbn [chk_with]. rewrite H1, E1. reflexivity.
          -- rewrite E2. apply OR_err.
        * change (rec_rel ds fs f1 f2) in Hr.
          cbn [ds ti_row ti_key] in Hrow, E1. rewrite Hsg in Hrow.
          destruct (rec_rel_names _ _ _ _ Hr) as [N1 N2].
          destruct (rec_rel_names _ _ _ _ Hrow) as [M1 M2].
          assert (Ncf : map fst (ctr_fields fs) = map fst f1) by (rewrite ctr_fields_names; exact N1).
          exists (S m1), (Ok (VRec (map (fun '((x, c), (_, t)) => (x, wrap_elem c l t)) (combine (ctr_fields fs) f1) ++ g1) RNone)).
          split.
          -- rewrite ev_wrapT, Hctr. cbn [chk_with]. rewrite H1, E1. cbn [guard bind].
             rewrite (tail_unsealed cfg_real (ctr_fields fs) (keys ri) ex l f1 sl g1 RNone).
             ++ rewrite (center_of_aligned l _ _ Hndc Ncf).
                rewrite extend_fields_new; [reflexivity| |].
                ** rewrite <- M1. exact Hndt.
                ** intros x Hx. rewrite aligned_names by exact Ncf. rewrite ctr_fields_names.
                   rewrite <- M1 in Hx. apply (Hdis x Hx).
             ++ rewrite (Hok ri Hlt), Hp. reflexivity.
             ++ intros x c Hin. eapply mem_of_names; [exact Ncf|exact Hin].
             ++ apply extra_of_present. intros x Hx. rewrite Ncf. exact Hx.
          -- rewrite E2, Hinst. cbn [OR]. right. do 2 eexists. split; [reflexivity|]. split; [reflexivity|].
             change (rec_rel d0 (inst_fields fs ++ tl)
                       (map (fun '((x, c), (_, t)) => (x, wrap_elem c l t)) (combine (ctr_fields fs) f1) ++ g1) (f2 ++ g2)).
             apply rec_rel_app; [apply Hpos; assumption|exact Hrow].
      + intros l t1 t2 Hp Hok Hl n r2 H2 Hne.
        destruct (Hl n r2 H2 Hne) as [m1 [r1 [H1 HO]]].
        rewrite Hinst in HO. cbn [OR] in HO. destruct HO as [[e [E1 E2]]|[F1 [F2 [E1 [E2 Hr]]]]].
        * exists (S m1), (Err e). split.
          -- rewrite ev_wrapT, Hctr. cbn [chk_with]. rewrite H1, E1. reflexivity.
          -- rewrite E2. apply OR_err.
        * change (rec_rel d0 (inst_fields fs ++ tl) F1 F2) in Hr.
          destruct (rec_rel_app_inv _ _ _ _ _ Hr) as [f1 [g1 [f2 [g2 [A1 [A2 [Hf Hg]]]]]]]. subst F1 F2.
          destruct (rec_rel_names _ _ _ _ Hf) as [N1 N2].
          destruct (rec_rel_names _ _ _ _ Hg) as [M1 M2].
          rewrite inst_fields_names in N1, N2.
          assert (Ncf : map fst (ctr_fields fs) = map fst f1) by (rewrite ctr_fields_names; exact N1).
          assert (Hg1 : forall x, In x (map fst g1) -> ~ In x (map fst (ctr_fields fs))).
          { intros x Hx. rewrite ctr_fields_names. rewrite <- M1 in Hx. apply (Hdis x Hx). }
          assert (Hext : extra_of (ctr_fields fs) (f1 ++ g1) = g1).
          { unfold extra_of. rewrite filter_app. fold (extra_of (ctr_fields fs) f1). fold (extra_of (ctr_fields fs) g1).
            rewrite extra_of_present by (intros x Hx; rewrite Ncf; exact Hx).
            rewrite extra_of_absent by exact Hg1. reflexivity. }
          assert (Hcen : center_of (ctr_fields fs) l (f1 ++ g1)
                         = map (fun '((x, c), (_, t)) => (x, wrap_elem c l t)) (combine (ctr_fields fs) f1)).
          { unfold center_of. rewrite flat_map_app.
            fold (center_of (ctr_fields fs) l f1). fold (center_of (ctr_fields fs) l g1).
            rewrite (center_of_aligned l _ _ Hndc Ncf). rewrite center_of_absent by exact Hg1.
            rewrite app_nil_r. reflexivity. }
          exists (S m1), (Ok (VRec (map (fun '((x, c), (_, t)) => (x, wrap_elem c l t)) (combine (ctr_fields fs) f1))
                                   (RSeal (keys ri) (flip l) g1 RNone))).
          split.
          -- rewrite ev_wrapT, Hctr. cbn [chk_with]. rewrite H1, E1. cbn [guard bind].
             rewrite (tail_sealed cfg_real (ctr_fields fs) (keys ri) ex l (f1 ++ g1) RNone true).
             ++ rewrite Hcen, Hext. reflexivity.
             ++ apply (Hok ri Hlt).
             ++ rewrite Hp. discriminate.
             ++ intros x c Hin. apply mem_names. rewrite map_app. apply in_or_app. left.
                rewrite <- Ncf. apply (in_map fst) in Hin. exact Hin.
             ++ rewrite Hext. intros x t Hin. apply (in_map fst) in Hin. cbn [fst] in Hin.
                rewrite <- M1 in Hin. apply (Hdis x Hin).
          -- rewrite E2. cbn [OR]. right. exists (map (fun '((x, c), (_, t)) => (x, wrap_elem c l t)) (combine (ctr_fields fs) f1)), g1, (flip l), f2, g2.
             split; [reflexivity|]. split; [reflexivity|]. split.
             ++ change (rec_rel ds fs (map (fun '((x, c), (_, t)) => (x, wrap_elem c l t)) (combine (ctr_fields fs) f1)) f2).
                apply Hneg; assumption.
             ++ cbn [ds ti_row]. rewrite Hsg. exact Hg.
  Qed.
End Wrap.

(* ------------------------------------------------------------------ the forall prefix *)

Definition lbl_of (ks : list nat) (l : lbl) : lbl :=
  fold_left (fun l k => insert_tyvar k (lpol l) l) ks l.

Lemma chk_foralls :
  forall ev0 cf ks c l th, chk_with ev0 cf (foralls ks c) l th = chk_with ev0 cf c (lbl_of ks l) th.
Proof. intros ev0 cf ks. induction ks as [|k ks IH]; intros c l th; [reflexivity|]. cbn [foralls chk_with lbl_of fold_left]. apply IH. Qed.

Definition all_true (e : list (nat * bool)) : Prop := forall k p, In (k, p) e -> p = true.

Lemma lookup_all_true :
  forall e k, all_true e -> In k (map fst e) -> lookup_tyvar k e = Some true.
Proof.
  induction e as [|[k' p] e IH]; intros k Hall Hin; [contradiction|].
  cbn [lookup_tyvar]. destruct (Nat.eqb k k') eqn:E.
  - rewrite (Hall k' p (or_introl eq_refl)). reflexivity.
  - apply IH.
    + intros k0 p0 H0. apply (Hall k0 p0). right. exact H0.
    + destruct Hin as [Hin|Hin]; [|exact Hin]. cbn [fst] in Hin. subst k'. rewrite Nat.eqb_refl in E. discriminate.
Qed.

Lemma lbl_of_inv :
  forall ks l, lpol l = true -> all_true (ltenv l) ->
    lpol (lbl_of ks l) = true /\ all_true (ltenv (lbl_of ks l))
    /\ forall k, (In k ks \/ In k (map fst (ltenv l))) -> In k (map fst (ltenv (lbl_of ks l))).
Proof.
  induction ks as [|k ks IH]; intros l Hp Hall.
  - cbn. repeat split; auto. intros k [[]|H]; exact H.
  - cbn [lbl_of fold_left].
    destruct (IH (insert_tyvar k (lpol l) l)) as [A [B C]].
    + exact Hp.
    + intros k0 p0 [E|H0]; [inversion E; subst; exact Hp|apply (Hall k0 p0 H0)].
    + split; [exact A|]. split; [exact B|]. intros k0 [[E|H0]|H0]; apply C.
      * right. left. cbn. exact E.
      * left. exact H0.
      * right. right. exact H0.
Qed.

Lemma lift_same_ev :
  forall O t1 t1' t2, (forall n, ev n t1' = ev n t1) -> lift O t1 t2 -> lift O t1' t2.
Proof.
  intros O t1 t1' t2 He Hl n r2 H2 Hne. destruct (Hl n r2 H2 Hne) as [m [r1 [H1 HO]]].
  exists m, r1. split; [rewrite He; exact H1|exact HO].
Qed.

(* an interpretation that is never consulted (closed types) *)
Definition dtriv : nat -> tyint := fun _ => MkInt 0 (fun _ _ => False) (fun _ _ => False).
Lemma dtriv_wf : wf_int dtriv.
Proof. intros i r1 r2 []. Qed.

Lemma ds_wf : forall keys sg d0, (forall i, is_svar (sg i) = false) -> wf_int (ds keys sg d0).
Proof. intros keys sg d0 H i. cbn. apply OR_unsealed_rel. apply H. Qed.

Lemma env_rel_nil : forall d p1 p2, env_rel d [] p1 p2.
Proof. intros d p1 p2 x T H. discriminate. Qed.

Definition var_keys (keys : nat -> nat) (nv : nat) : list nat := map keys (seq 0 nv).

(* T0 — the contract `forall a0 ... a(nv-1). T` is transparent for a closed implementation that only
   passes values of the quantified types around: the contracted function is related to the bare one at
   the instantiated type, for every instantiation by non-variable types. *)
Theorem parametric_transparent :
  forall nv keys sg d0 T f p,
    scoped nv T -> rows_ok sg T -> (forall i, is_svar (sg i) = false) -> has_ty [] f T ->
    lift (OR d0 (inst sg T))
         (Th p (Chk (foralls (var_keys keys nv) (sty_ctr keys T)) lbl0 f))
         (Th p f).
Proof.
  intros nv keys sg d0 T f p Hsc Hro Hsg Hty.
  pose proof (fundamental (ds keys sg d0) f (ds_wf keys sg d0 Hsg) [] T Hty p p (env_rel_nil _ _ _)) as Hf.
  destruct (wrap_both nv keys sg d0 T Hsc Hro) as [Hpos _].
  destruct (lbl_of_inv (var_keys keys nv) lbl0 eq_refl) as [A [B C]].
  { intros k q []. }
  eapply lift_same_ev; [|apply (Hpos (lbl_of (var_keys keys nv) lbl0) (Th p f) (Th p f) A)].
  - intros [|n]; [reflexivity|]. cbn [wrapT]. rewrite !ev_S. cbn [step]. apply chk_foralls.
  - intros i Hi. apply lookup_all_true; [exact B|]. apply C. left.
    unfold var_keys. apply in_map. apply in_seq. lia.
  - exact Hf.
Qed.

(* the statement of the task: e with x sealed vs e with x bare *)
Theorem parametric_erasure :
  forall x e T k l0 U d0 t,
    passes_only x e T -> is_svar U = false -> lift (OR d0 U) t t ->
    lift (OR (fun _ => MkInt k (OR d0 U) (fun _ _ => False)) T)
         (Th [(x, Th [("%v", t)] (SealT k l0 (Var "%v")))] e)
         (Th [(x, t)] e).
Proof.
  intros x e T k l0 U d0 t Hty HU Ht.
  assert (Hwf : wf_int (fun _ => MkInt k (OR d0 U) (fun _ _ => False))).
  { intros i. cbn. apply OR_unsealed_rel. exact HU. }
  refine (fundamental (fun _ => MkInt k (OR d0 U) (fun _ _ => False)) e Hwf [(x, SVar 0)] T Hty _ _ _).
  - intros y T' Hy. cbn [lookup] in *. destruct (String.eqb y x); [|discriminate]. inversion Hy; subst T'.
    do 2 eexists. split; [reflexivity|]. split; [reflexivity|].
    intros n r2 H2 Hne. destruct (Ht n r2 H2 Hne) as [m1 [r1 [H1 HO]]].
    exists 1, (Ok (VSealed k (Th [("%v", t)] (Var "%v")) l0)). split; [reflexivity|].
    cbn [OR ti_key ti_rel]. right. do 2 eexists. split; [reflexivity|].
    exists (S m1), r1. split; [rewrite ev_S; cbn [step lookup String.eqb Ascii.eqb Bool.eqb]; exact H1|].
    split; [eapply OR_terminates; eauto|exact HO].
Qed.

(* closed, typed arguments are related to themselves *)
Lemma typed_self_related :
  forall e U p, has_ty [] e U -> lift (OR dtriv U) (Th p e) (Th p e).
Proof. intros e U p H. apply (fundamental dtriv e dtriv_wf [] U H p p). apply env_rel_nil. Qed.

(* "after the outer unseal the contracted function returns exactly what the bare function returns":
   one argument, result of a base type after instantiation *)
Theorem parametric_same_result :
  forall nv keys sg a b f arg p,
    scoped nv (SFun a b) -> rows_ok sg (SFun a b) -> (forall i, is_svar (sg i) = false) ->
    has_ty [] f (SFun a b) -> has_ty [] arg (inst sg a) -> is_base (inst sg b) = true ->
    forall n r, eval cfg_real n p (App f arg) = r -> r <> OutOfFuel ->
      exists m, eval cfg_real m p (App (Chk (foralls (var_keys keys nv) (sty_ctr keys (SFun a b))) lbl0 f) arg) = r.
Proof.
  intros nv keys sg a b f arg p Hsc Hro Hsg Hf Harg Hb n r Hev Hne.
  pose proof (parametric_transparent nv keys sg dtriv (SFun a b) f p Hsc Hro Hsg Hf) as Ht. cbn [inst] in Ht.
  pose proof (typed_self_related arg _ p Harg) as Ha.
  destruct (lift_app _ _ _ _ _ _ _ _ _ Ht Ha n r Hev Hne) as [m [r1 [H1 HO]]].
  exists m. rewrite (OR_base_eq _ _ _ _ Hb HO) in H1. exact H1.
Qed.

(* two arguments (callback + data), as in `forall a b. (a -> b) -> a -> b` *)
Theorem parametric_same_result2 :
  forall nv keys sg a1 a2 b f arg1 arg2 p,
    scoped nv (SFun a1 (SFun a2 b)) -> rows_ok sg (SFun a1 (SFun a2 b)) -> (forall i, is_svar (sg i) = false) ->
    has_ty [] f (SFun a1 (SFun a2 b)) -> has_ty [] arg1 (inst sg a1) -> has_ty [] arg2 (inst sg a2) ->
    is_base (inst sg b) = true ->
    forall n r, eval cfg_real n p (App (App f arg1) arg2) = r -> r <> OutOfFuel ->
      exists m, eval cfg_real m p
                  (App (App (Chk (foralls (var_keys keys nv) (sty_ctr keys (SFun a1 (SFun a2 b)))) lbl0 f) arg1) arg2) = r.
Proof.
  intros nv keys sg a1 a2 b f arg1 arg2 p Hsc Hro Hsg Hf H1 H2 Hb n r Hev Hne.
  pose proof (parametric_transparent nv keys sg dtriv _ f p Hsc Hro Hsg Hf) as Ht. cbn [inst] in Ht.
  pose proof (lift_app _ _ _ _ _ _ _ _ _ Ht (typed_self_related arg1 _ p H1)) as Ht1.
  destruct (lift_app _ _ _ _ _ _ _ _ _ Ht1 (typed_self_related arg2 _ p H2) n r Hev Hne) as [m [r1 [E1 HO]]].
  exists m. rewrite (OR_base_eq _ _ _ _ Hb HO) in E1. exact E1.
Qed.

(* ------------------------------------------------------------------ non-vacuity *)

Definition map_impl : tm := Lam "g" (Lam "xs" (ArrMap (Var "g") (Var "xs"))).
Definition map_sty : sty := SFun (SFun (SVar 0) (SVar 1)) (SFun (SArr (SVar 0)) (SArr (SVar 1))).

Example map_impl_parametric : has_ty [] map_impl map_sty /\ scoped 2 map_sty.
Proof. cbn. split; [eexists; split; reflexivity|repeat split; lia]. Qed.

Example passes_only_examples :
  passes_only "x" (Arr [Var "x"; Var "x"]) (SArr (SVar 0))
  /\ passes_only "x" (RecLit [("fa", Var "x"); ("fb", Num 1)]) (SRec [("fa", SVar 0); ("fb", SNum)])
  /\ passes_only "x" (App (Lam "y" (Var "y")) (Var "x")) (SVar 0)
  /\ passes_only "x" (Seq (Var "x") (Var "x")) (SVar 0)
  /\ ~ passes_only "x" (Op1 IsNum (Var "x")) SBool.
Proof.
  unfold passes_only. split; [|split; [|split; [|split]]].
  - cbn. auto.
  - cbn. auto.
  - cbn. exists (SVar 0). cbn. split; reflexivity.
  - cbn. exists (SVar 0). split; reflexivity.
  - cbn. intros [_ [U [Hv Hx]]]. inversion Hx; subst. discriminate.
Qed.


(* ------------------------------------------------------------------ from the surface type to [foralls] *)

(* the contract typ.rs generates for the body of the foralls, given that every variable is in scope *)
Lemma compile_sty :
  forall T vars sy keys names nv,
    scoped nv T -> norow T ->
    (forall i, i < nv -> lookup (names i) vars = Some (VCType (keys i))) ->
    compile vars sy (sty_ty names T) = (sty_ctr keys T, sy).
Proof.
  induction T as [i| | | |a b IHa IHb|a IHa|fs IHfs|fs ri ex IHfs] using sty_ind'; intros vars sy keys names nv Hsc Hnr Hv;
    cbn [scoped] in Hsc; cbn [norow] in Hnr; try contradiction; cbn [sty_ty compile sty_ctr]; try reflexivity.
  - rewrite (Hv i Hsc). reflexivity.
  - destruct Hsc as [Ha Hb]. destruct Hnr as [Hna Hnb].
    rewrite (IHa vars sy keys names nv Ha Hna Hv). rewrite (IHb vars sy keys names nv Hb Hnb Hv). reflexivity.
  - rewrite (IHa vars sy keys names nv Hsc Hnr Hv). reflexivity.
  - destruct Hsc as [_ Hall].
    assert (Hgo :
      (fix go (fs : list (string * ty)) (sy : nat) : list (string * ctr) * nat :=
         match fs with
         | [] => ([], sy)
         | (l, t) :: fs' =>
             let '(c, sy1) := compile vars sy t in
             let '(cs, sy2) := go fs' sy1 in
             ((l, c) :: cs, sy2)
         end)
        ((fix go (fs : list (string * sty)) : list (string * ty) :=
            match fs with [] => [] | (x, T) :: fs' => (x, sty_ty names T) :: go fs' end) fs) sy
      = ((fix go (fs : list (string * sty)) : list (string * ctr) :=
            match fs with [] => [] | (x, T) :: fs' => (x, sty_ctr keys T) :: go fs' end) fs, sy)).
    { induction IHfs as [|[x T] fs IHT IHfs' IH]; [reflexivity|].
      destruct Hall as [HT Hall]. destruct Hnr as [HnT Hnr]. cbn [snd] in IHT.
      rewrite (IHT vars sy keys names nv HT HnT Hv). rewrite (IH Hall Hnr). reflexivity. }
    rewrite Hgo. reflexivity.
Qed.

Definition names2 (i : nat) : string := match i with 0 => "a" | _ => "b" end.

(* one and two quantifiers, any body *)
Lemma norow_rows_ok : forall sg T, norow T -> rows_ok sg T.
Proof.
  intros sg. induction T as [i| | | |a b IHa IHb|a IHa|fs IHfs|fs ri ex IHfs] using sty_ind'; intros H;
    cbn [norow rows_ok] in *; try exact I; try contradiction.
  - destruct H. split; auto.
  - auto.
  - induction IHfs as [|[x T] fs IHT IHfs' IH]; [exact I|]. destruct H as [HT H]. split; [apply IHT; exact HT|apply IH; exact H].
Qed.

Theorem contract_of_forall1 :
  forall T, scoped 1 T -> norow T ->
    contract_of (TForall "a" KType (sty_ty names2 T)) = foralls (var_keys (fun i => i) 1) (sty_ctr (fun i => i) T).
Proof.
  intros T Hsc Hnr. unfold contract_of. cbn [compile].
  rewrite (compile_sty T [("a", VCType 0)] 1 (fun i => i) names2 1 Hsc Hnr); [reflexivity|].
  intros i Hi. assert (i = 0) by lia. subst. reflexivity.
Qed.

Theorem contract_of_forall2 :
  forall T, scoped 2 T -> norow T ->
    contract_of (TForall "a" KType (TForall "b" KType (sty_ty names2 T)))
    = foralls (var_keys (fun i => i) 2) (sty_ctr (fun i => i) T).
Proof.
  intros T Hsc Hnr. unfold contract_of. cbn [compile].
  rewrite (compile_sty T [("b", VCType 1); ("a", VCType 0)] 2 (fun i => i) names2 2 Hsc Hnr); [reflexivity|].
  intros i Hi. assert (i = 0 \/ i = 1) as [E|E] by lia; subst; reflexivity.
Qed.

(* the surface form of the theorem: `(f | forall a b. T) arg1 arg2` for a parametric f *)
Corollary parametric_annotation_same_result2 :
  forall sg a1 a2 b f arg1 arg2 p,
    scoped 2 (SFun a1 (SFun a2 b)) -> norow (SFun a1 (SFun a2 b)) -> (forall i, is_svar (sg i) = false) ->
    has_ty [] f (SFun a1 (SFun a2 b)) -> has_ty [] arg1 (inst sg a1) -> has_ty [] arg2 (inst sg a2) ->
    is_base (inst sg b) = true ->
    forall n r, eval cfg_real n p (App (App f arg1) arg2) = r -> r <> OutOfFuel ->
      exists m, eval cfg_real m p
                  (App (App (Ann (TForall "a" KType (TForall "b" KType (sty_ty names2 (SFun a1 (SFun a2 b))))) f) arg1) arg2) = r.
Proof.
  intros sg a1 a2 b f arg1 arg2 p Hsc Hnr Hsg Hf H1 H2 Hb n r Hev Hne.
  destruct (parametric_same_result2 2 (fun i => i) sg a1 a2 b f arg1 arg2 p Hsc (norow_rows_ok sg _ Hnr) Hsg Hf H1 H2 Hb n r Hev Hne) as [m Hm].
  (* Ann t e and Chk (contract_of t) lbl0 e evaluate alike *)
  assert (Hsame : forall k q e1 e2,
             eval cfg_real k q (App (App (Ann (TForall "a" KType (TForall "b" KType (sty_ty names2 (SFun a1 (SFun a2 b))))) f) e1) e2)
             = eval cfg_real k q (App (App (Chk (foralls (var_keys (fun i => i) 2) (sty_ctr (fun i => i) (SFun a1 (SFun a2 b)))) lbl0 f) e1) e2)).
  { intros k q e1 e2. destruct k as [|k]; [reflexivity|]. rewrite !eval_S_step. cbn [step].
    destruct k as [|k]; [reflexivity|]. rewrite !force_Th_eval, !eval_S_step. cbn [step].
    destruct k as [|k]; [reflexivity|]. rewrite !force_Th_eval, !eval_S_step. cbn [step].
    rewrite (contract_of_forall2 _ Hsc Hnr). reflexivity. }
  exists m. rewrite Hsame. exact Hm.
Qed.

(* evaluation is a function of the term: once both runs produce an outcome, the outcomes are related.
   (What [lift] leaves open is only the case where the bare run never produces an outcome.) *)
Theorem lift_both_terminate :
  forall (O : orel) t1 t2 n1 n2 r1 r2,
    (forall a b, O a b -> a <> OutOfFuel) ->
    lift O t1 t2 ->
    ev n1 t1 = r1 -> r1 <> OutOfFuel -> ev n2 t2 = r2 -> r2 <> OutOfFuel -> O r1 r2.
Proof.
  intros O t1 t2 n1 n2 r1 r2 HT Hl H1 N1 H2 N2.
  destruct (Hl n2 r2 H2 N2) as [m [r1' [H1' HO]]].
  assert (E : r1 = r1') by (eapply ev_det; eauto). rewrite E. exact HO.
Qed.

(* hypotheses of the erasure theorems are satisfiable: `(fun g x => g x) | forall a b. (a -> b) -> a -> b`
   applied to `fun y => y + 1` and `1` *)
Definition apply_impl : tm := Lam "g" (Lam "x" (App (Var "g") (Var "x"))).
Definition apply_sty_args : sty * sty * sty := (SFun (SVar 0) (SVar 1), SVar 0, SVar 1).

Example parametric_same_result2_hypotheses :
  let sg := fun _ : nat => SNum in
  scoped 2 (SFun (SFun (SVar 0) (SVar 1)) (SFun (SVar 0) (SVar 1)))
  /\ (forall i, is_svar (sg i) = false)
  /\ has_ty [] apply_impl (SFun (SFun (SVar 0) (SVar 1)) (SFun (SVar 0) (SVar 1)))
  /\ has_ty [] (Lam "y" (Op2 Add (Var "y") (Num 1))) (inst sg (SFun (SVar 0) (SVar 1)))
  /\ has_ty [] (Num 1) (inst sg (SVar 0))
  /\ is_base (inst sg (SVar 1)) = true
  /\ eval cfg_real 20 [] (App (App apply_impl (Lam "y" (Op2 Add (Var "y") (Num 1)))) (Num 1)) = Ok (VNum 2)
  /\ eval cfg_real 20 []
       (App (App (Ann (TForall "a" KType (TForall "b" KType
                         (sty_ty names2 (SFun (SFun (SVar 0) (SVar 1)) (SFun (SVar 0) (SVar 1))))))
                      apply_impl)
                 (Lam "y" (Op2 Add (Var "y") (Num 1)))) (Num 1)) = Ok (VNum 2).
Proof.
  cbn [scoped has_ty inst is_base is_svar apply_impl lookup String.eqb Ascii.eqb Bool.eqb].
  repeat split; try lia; try reflexivity.
  exists (SVar 0). split; reflexivity.
Qed.
