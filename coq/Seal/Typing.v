(* C11 — the syntactic criterion "only passes values of quantified type around".

   [has_ty G e T] is a simple type discipline for the untyped model language in which type variables
   [SVar i] are abstract: no primitive accepts them, they can only be bound, passed, stored in arrays
   and records, returned, and forced with `seq`.  [passes_only x e T] is the special case of the task
   statement: x is the only variable and has abstract type.

   Definitions only. *)
From Coq Require Import List String ZArith Bool.
From NV Require Import Seal.Syntax.
Import ListNotations.
Open Scope string_scope.

Inductive sty :=
| SVar (i : nat)
| SNum | SBool | SStr
| SFun (a b : sty)
| SArr (a : sty)
| SRec (fs : list (string * sty))
(* a record with the listed fields and a quantified tail: row variable i, whose excluded-field set
   (computed by the parser from the whole type) is ex *)
| SRow (fs : list (string * sty)) (i : nat) (ex : list string).

Definition is_svar (T : sty) : bool := match T with SVar _ => true | _ => false end.
Definition is_base (T : sty) : bool := match T with SNum | SBool | SStr => true | _ => false end.

Definition tenv := list (string * sty).

Fixpoint has_ty (G : tenv) (e : tm) (T : sty) {struct e} : Prop :=
  match e with
  | Var x => lookup x G = Some T
  | Lam x b => match T with SFun a b' => has_ty ((x, a) :: G) b b' | _ => False end
  | App f a => exists U, has_ty G f (SFun U T) /\ has_ty G a U
  | Let x e1 b => exists U, has_ty G e1 U /\ has_ty ((x, U) :: G) b T
  | Num _ => T = SNum
  | Bool _ => T = SBool
  | Str _ => T = SStr
  | If c t e' => has_ty G c SBool /\ has_ty G t T /\ has_ty G e' T
  | Op1 o a =>
      match o with
      | Not => T = SBool /\ has_ty G a SBool
      | Length => T = SNum /\ exists U, has_ty G a (SArr U)
      | ToStr => T = SStr /\ exists U, is_base U = true /\ has_ty G a U
      | GetF x => (exists fs, has_ty G a (SRec fs) /\ lookup x fs = Some T)
                  \/ (exists fs i ex, has_ty G a (SRow fs i ex) /\ lookup x fs = Some T)
      | IsNum | IsBool | IsStr | IsFun | IsArr | IsRec =>
          (* inspecting a value whose type is not a quantified variable is fine *)
          T = SBool /\ exists U, is_svar U = false /\ has_ty G a U
      | _ => False
      end
  | Op2 o a b =>
      match o with
      | Add | Sub | Mul => T = SNum /\ has_ty G a SNum /\ has_ty G b SNum
      | OLt => T = SBool /\ has_ty G a SNum /\ has_ty G b SNum
      | Cat => T = SStr /\ has_ty G a SStr /\ has_ty G b SStr
      | OEq => T = SBool /\ exists U, is_base U = true /\ has_ty G a U /\ has_ty G b U
      | At => has_ty G a (SArr T) /\ has_ty G b SNum
      end
  | Arr es =>
      match T with
      | SArr U => (fix all (es : list tm) : Prop :=
                     match es with [] => True | e :: es' => has_ty G e U /\ all es' end) es
      | _ => False
      end
  | ArrMap f a =>
      match T with
      | SArr U2 => exists U1, has_ty G f (SFun U1 U2) /\ has_ty G a (SArr U1)
      | _ => False
      end
  | RecLit fs =>
      match T with
      | SRec tfs =>
          (fix all (fs : list (string * tm)) (tfs : list (string * sty)) : Prop :=
             match fs, tfs with
             | [], [] => True
             | (x, e) :: fs', (y, U) :: tfs' => x = y /\ has_ty G e U /\ all fs' tfs'
             | _, _ => False
             end) fs tfs
      | _ => False
      end
  | Seq a b => exists U, has_ty G a U /\ has_ty G b T
  | Insert _ _ _ | RecMap _ _ | Ann _ _ | Chk _ _ _ | SealT _ _ _ | Unseal _ _ _ => False
  end.

(* the criterion of the task statement: the free variable x stands for a value of quantified type *)
Definition passes_only (x : string) (e : tm) (T : sty) : Prop := has_ty [(x, SVar 0)] e T.

(* instantiation of the quantified variables by closed types *)
Fixpoint inst (s : nat -> sty) (T : sty) : sty :=
  match T with
  | SVar i => s i
  | SNum => SNum | SBool => SBool | SStr => SStr
  | SFun a b => SFun (inst s a) (inst s b)
  | SArr a => SArr (inst s a)
  | SRec fs => SRec ((fix go (fs : list (string * sty)) : list (string * sty) :=
                        match fs with [] => [] | (x, T) :: fs' => (x, inst s T) :: go fs' end) fs)
  (* a row variable is instantiated by the (closed) record type of the extra fields *)
  | SRow fs i _ =>
      SRec (((fix go (fs : list (string * sty)) : list (string * sty) :=
                match fs with [] => [] | (x, T) :: fs' => (x, inst s T) :: go fs' end) fs)
              ++ match s i with SRec tl => tl | _ => [] end)%list
  end.

Fixpoint closed_sty (T : sty) : Prop :=
  match T with
  | SVar _ => False
  | SNum | SBool | SStr => True
  | SFun a b => closed_sty a /\ closed_sty b
  | SArr a => closed_sty a
  | SRec fs => (fix go (fs : list (string * sty)) : Prop :=
                  match fs with [] => True | (_, T) :: fs' => closed_sty T /\ go fs' end) fs
  | SRow _ _ _ => False
  end.

(* the contract generated for the body of `forall a0 ... . T`, variable i sealed with key [keys i] *)
Fixpoint sty_ctr (keys : nat -> nat) (T : sty) : ctr :=
  match T with
  | SVar i => CVar (keys i)
  | SNum => CNum | SBool => CBool | SStr => CStr
  | SFun a b => CFun (sty_ctr keys a) (sty_ctr keys b)
  | SArr a => CArr (sty_ctr keys a)
  | SRec fs => CRec ((fix go (fs : list (string * sty)) : list (string * ctr) :=
                        match fs with [] => [] | (x, T) :: fs' => (x, sty_ctr keys T) :: go fs' end) fs)
                    CTEmpty
  | SRow fs i ex =>
      CRec ((fix go (fs : list (string * sty)) : list (string * ctr) :=
               match fs with [] => [] | (x, T) :: fs' => (x, sty_ctr keys T) :: go fs' end) fs)
           (CTVar (keys i) ex)
  end.

Fixpoint foralls (ks : list nat) (c : ctr) : ctr :=
  match ks with [] => c | k :: ks' => CForall k (foralls ks' c) end.

(* the same type in the surface syntax, variable i named [names i] *)
Fixpoint sty_ty (names : nat -> string) (T : sty) : ty :=
  match T with
  | SVar i => TVar (names i)
  | SNum => TNum | SBool => TBool | SStr => TStr
  | SFun a b => TArrow (sty_ty names a) (sty_ty names b)
  | SArr a => TArr (sty_ty names a)
  | SRec fs => TRec ((fix go (fs : list (string * sty)) : list (string * ty) :=
                        match fs with [] => [] | (x, T) :: fs' => (x, sty_ty names T) :: go fs' end) fs)
                    TlEmpty
  | SRow fs i _ =>
      TRec ((fix go (fs : list (string * sty)) : list (string * ty) :=
               match fs with [] => [] | (x, T) :: fs' => (x, sty_ty names T) :: go fs' end) fs)
           (TlVar (names i))
  end.
