(* C11 — the theorem about the generated seal-guard table; re-checked against the freshly generated
   Gen/SealTable.v on every run. *)
From Coq Require Import List String Bool Arith.
From NV Require Import Seal.TableTypes Gen.SealTable.
Import ListNotations.
Open Scope string_scope.

Lemma primop_table_ok : forallb primop_ok primop_table = true.
Proof. vm_compute. reflexivity. Qed.
Lemma special_table_ok : forallb (fun e => blamed_pos (e_class e)) special_table = true.
Proof. vm_compute. reflexivity. Qed.
Lemma allowed_table_ok : forallb (fun e => is_value (e_class e)) allowed_table = true.
Proof. vm_compute. reflexivity. Qed.
Lemma tail_table_ok : forallb tail_ok tail_table = true.
Proof. vm_compute. reflexivity. Qed.

(* non-vacuity: the tables are populated (the translator extracted the enums) and contain the
   operations the anchors name *)
Definition has (name : string) (t : list entry) : bool :=
  existsb (fun e => String.eqb (e_name e) name) t.

Lemma tables_populated :
  Nat.leb 100 (List.length primop_table) && Nat.leb 40 (List.length special_table)
  && Nat.leb 40 (List.length tail_table)
  && has "UnaryOp::Seq seq" primop_table && has "BinaryOp::Unseal unseal" primop_table
  && has "UnaryOp::Typeof typeof" primop_table && has "BinaryOp::Eq (==)" primop_table
  && has "BinaryOp::Serialize serialize" primop_table && has "NAryOp::RecordSealTail record/seal_tail" primop_table
  && has "application" special_table && has "if-condition" special_table
  && has "string-interpolation" special_table && has "match-enum" special_table
  && has "static-access-tail-field" tail_table && has "remove-tail-field" tail_table
  && has "map" tail_table && has "freeze" tail_table && has "merge-left" tail_table
  && has "fields" tail_table && has "equality-self" tail_table && has "insert-new-field" tail_table
  && has "nested-all-fields:static-access-tail-field" tail_table && has "nested-no-field:remove-tail-field" tail_table
  && has "nested-all-fields:map" tail_table && has "row-roundtrip-nested-all-fields" allowed_table
  && has "row-roundtrip-higher-rank" allowed_table && Nat.leb 150 (List.length tail_table)
  = true.
Proof. vm_compute. reflexivity. Qed.

(* The statement: in the table observed on the real interpreter,
   - every strict operand position of every primitive operation blames a sealed operand, except `seq`
     (which must evaluate to a value), and except entries that cannot be reached from source; the blame
     is positive: the function under the contract is the blamed party;
   - application, if, match, interpolation, ==, serialisation, export ... blame;
   - seq and unseal-with-the-right-key yield the value;
   - every record operation on a record with a sealed tail either raises TailAccess / blame or is blind
     to the tail (same outcome for two different tails and for no tail); operations that target the
     tail itself must raise. *)
Definition seal_guard_statement : Prop :=
  (forall e, In e primop_table -> is_seq e = false ->
             e_class e = BlamePos \/ not_from_source (e_class e) = true)
  /\ (forall e, In e primop_table -> is_seq e = true -> e_class e = Value)
  /\ (forall e, In e special_table -> e_class e = BlamePos)
  /\ (forall e, In e allowed_table -> e_class e = Value)
  /\ (forall e, In e tail_table ->
        e_class e = TailAccess \/ blamed (e_class e) = true \/ (e_class e = Blind /\ e_pos e = 0))
  /\ (exists e, In e primop_table /\ is_seq e = true).

Theorem seal_guard_generated : seal_guard_statement.
Proof.
  unfold seal_guard_statement.
  pose proof primop_table_ok as Hp. pose proof special_table_ok as Hs.
  pose proof allowed_table_ok as Ha. pose proof tail_table_ok as Ht.
  rewrite forallb_forall in Hp, Hs, Ha, Ht.
  repeat split.
  - intros e Hin Hseq. specialize (Hp e Hin). unfold primop_ok in Hp. rewrite Hseq in Hp.
    apply orb_true_iff in Hp. destruct Hp as [Hp|Hp]; [left|right; exact Hp].
    destruct (e_class e); simpl in Hp; try discriminate; reflexivity.
  - intros e Hin Hseq. specialize (Hp e Hin). unfold primop_ok in Hp. rewrite Hseq in Hp.
    destruct (e_class e); simpl in Hp; try discriminate; reflexivity.
  - intros e Hin. specialize (Hs e Hin). destruct (e_class e); simpl in Hs; try discriminate; reflexivity.
  - intros e Hin. specialize (Ha e Hin). destruct (e_class e); simpl in Ha; try discriminate; reflexivity.
  - intros e Hin. specialize (Ht e Hin). unfold tail_ok in Ht.
    destruct (e_class e) eqn:Hc; try discriminate; auto.
    right; right. split; [reflexivity|]. apply Nat.eqb_eq. exact Ht.
  - pose proof tables_populated as Hpop.
    assert (Hex : existsb is_seq primop_table = true) by (vm_compute; reflexivity).
    apply existsb_exists in Hex. destruct Hex as [e [Hin Hs']]. exists e. auto.
Qed.
