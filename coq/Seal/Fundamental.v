(* C11 — fundamental lemma of the seal-erasure relation: a term accepted by [has_ty] (values of quantified
   types are only passed around) maps related environments to related outcomes: whenever the bare run
   produces an outcome, the run in which the quantified values are sealed produces a related one. *)
From Coq Require Import List String ZArith Bool Lia.
From NV Require Import Seal.Syntax Seal.Eval Seal.Mono Seal.Typing Seal.LogRel.
Import ListNotations.
Open Scope string_scope.

Section TmInd.
  Variable P : tm -> Prop.
  Hypothesis HVar : forall x, P (Var x).
  Hypothesis HLam : forall x b, P b -> P (Lam x b).
  Hypothesis HApp : forall f a, P f -> P a -> P (App f a).
  Hypothesis HLet : forall x e b, P e -> P b -> P (Let x e b).
  Hypothesis HNum : forall n, P (Num n).
  Hypothesis HBool : forall b, P (Bool b).
  Hypothesis HStr : forall s, P (Str s).
  Hypothesis HIf : forall c t e, P c -> P t -> P e -> P (If c t e).
  Hypothesis HOp1 : forall o a, P a -> P (Op1 o a).
  Hypothesis HOp2 : forall o a b, P a -> P b -> P (Op2 o a b).
  Hypothesis HArr : forall es, Forall P es -> P (Arr es).
  Hypothesis HArrMap : forall f a, P f -> P a -> P (ArrMap f a).
  Hypothesis HRecLit : forall fs, Forall (fun p => P (snd p)) fs -> P (RecLit fs).
  Hypothesis HInsert : forall x r v, P r -> P v -> P (Insert x r v).
  Hypothesis HRecMap : forall f r, P f -> P r -> P (RecMap f r).
  Hypothesis HSeq : forall a b, P a -> P b -> P (Seq a b).
  Hypothesis HAnn : forall t e, P e -> P (Ann t e).
  Hypothesis HChk : forall c l e, P e -> P (Chk c l e).
  Hypothesis HSealT : forall k l e, P e -> P (SealT k l e).
  Hypothesis HUnseal : forall k l e, P e -> P (Unseal k l e).

  Fixpoint tm_ind' (e : tm) : P e :=
    match e with
    | Var x => HVar x
    | Lam x b => HLam x b (tm_ind' b)
    | App f a => HApp f a (tm_ind' f) (tm_ind' a)
    | Let x e b => HLet x e b (tm_ind' e) (tm_ind' b)
    | Num n => HNum n | Bool b => HBool b | Str s => HStr s
    | If c t e => HIf c t e (tm_ind' c) (tm_ind' t) (tm_ind' e)
    | Op1 o a => HOp1 o a (tm_ind' a)
    | Op2 o a b => HOp2 o a b (tm_ind' a) (tm_ind' b)
    | Arr es => HArr es ((fix go (es : list tm) : Forall P es :=
                            match es with [] => Forall_nil _ | e :: es' => Forall_cons e (tm_ind' e) (go es') end) es)
    | ArrMap f a => HArrMap f a (tm_ind' f) (tm_ind' a)
    | RecLit fs => HRecLit fs ((fix go (fs : list (string * tm)) : Forall (fun p => P (snd p)) fs :=
                                  match fs with [] => Forall_nil _ | p :: fs' => Forall_cons p (tm_ind' (snd p)) (go fs') end) fs)
    | Insert x r v => HInsert x r v (tm_ind' r) (tm_ind' v)
    | RecMap f r => HRecMap f r (tm_ind' f) (tm_ind' r)
    | Seq a b => HSeq a b (tm_ind' a) (tm_ind' b)
    | Ann t e => HAnn t e (tm_ind' e)
    | Chk c l e => HChk c l e (tm_ind' e)
    | SealT k l e => HSealT k l e (tm_ind' e)
    | Unseal k l e => HUnseal k l e (tm_ind' e)
    end.
End TmInd.


Ltac start n r2 Hev Hne :=
  intros n r2 Hev Hne; destruct n as [|n]; [rewrite ev_O in Hev; congruence|];
  rewrite ev_S in Hev; cbn [step] in Hev.

Lemma OR_err_inv : forall d U r1 e, is_svar U = false -> OR d U r1 (Err e) -> r1 = Err e.
Proof.
  intros d U r1 e Hv HO.
  destruct U; try discriminate; cbn [OR] in HO; destruct HO as [[e0 [H1 H2]]|HO]; try congruence;
    repeat (destruct HO as [? HO]); try congruence.
Qed.

Lemma OR_ok_inv : forall d U r1 v2, is_svar U = false -> OR d U r1 (Ok v2) -> exists v1, r1 = Ok v1.
Proof.
  intros d U r1 v2 Hv HO.
  destruct U; try discriminate; cbn [OR] in HO; destruct HO as [[e0 [H1 H2]]|HO]; try congruence;
    repeat (destruct HO as [? HO]); eauto.
Qed.

Lemma lookup_app_l :
  forall {A} (l1 l2 : list (string * A)) x a, lookup x l1 = Some a -> lookup x (l1 ++ l2) = Some a.
Proof.
  intros A l1. induction l1 as [|[y b] l1 IH]; intros l2 x a H; [discriminate|].
  cbn [lookup app] in *. destruct (String.eqb x y); [exact H|apply IH; exact H].
Qed.

Lemma rec_rel_lookup :
  forall d fs f1 f2 x T, rec_rel d fs f1 f2 -> lookup x fs = Some T ->
    exists t1 t2, lookup x f1 = Some t1 /\ lookup x f2 = Some t2 /\ lift (OR d T) t1 t2.
Proof.
  intros d fs. induction fs as [|[y U] fs IH]; intros f1 f2 x T Hr Hl; [discriminate|].
  destruct f1 as [|[x1 t1] f1]; destruct f2 as [|[x2 t2] f2]; cbn [rec_rel] in Hr; try contradiction.
  destruct Hr as [E1 [E2 [Ht Hr]]]. subst x1 x2. cbn [lookup] in *.
  destruct (String.eqb x y).
  - inversion Hl; subst. eauto.
  - eapply IH; eauto.
Qed.

Definition unsealedb (v : val) : bool := match v with VSealed _ _ _ => false | _ => true end.

Lemma guard_unsealedb : forall v, unsealedb v = true -> guard (Ok v) = Ok v.
Proof. intros v H. destruct v; simpl in *; congruence. Qed.

Lemma OR_kind :
  forall d U v1 v2, is_svar U = false -> OR d U (Ok v1) (Ok v2) ->
    unsealedb v1 = true /\ unsealedb v2 = true /\ forall o, is_kind o v1 = is_kind o v2.
Proof.
  intros d U v1 v2 Hv H. destruct U; try discriminate; cbn [OR] in H;
    destruct H as [[e [H _]]|H]; try discriminate.
  - destruct H as [z [H1 H2]]. inversion H1; inversion H2; subst. repeat split.
  - destruct H as [z [H1 H2]]. inversion H1; inversion H2; subst. repeat split.
  - destruct H as [z [H1 H2]]. inversion H1; inversion H2; subst. repeat split.
  - destruct H as [q1 [x1 [b1 [q2 [x2 [b2 [H1 [H2 _]]]]]]]]. inversion H1; inversion H2; subst. repeat split.
  - destruct H as [l1 [l2 [H1 [H2 _]]]]. inversion H1; inversion H2; subst. repeat split.
  - destruct H as [f1 [f2 [H1 [H2 _]]]]. inversion H1; inversion H2; subst. repeat split.
  - destruct H as [f1 [g1 [l [f2 [g2 [H1 [H2 _]]]]]]]. inversion H1; inversion H2; subst. repeat split.
Qed.

(* strict unary operation that does not evaluate anything itself *)
Lemma fund_op1_pure :
  forall d o U T p1 p2 a,
    is_svar U = false ->
    (forall r, guard1 cfg_real o r = guard r) ->
    (forall ev1 ev2 v, op1_sem ev1 o v = op1_sem ev2 o v) ->
    (forall ev0 v1 v2, OR d U (Ok v1) (Ok v2) -> OR d T (op1_sem ev0 o v1) (op1_sem ev0 o v2)) ->
    lift (OR d U) (Th p1 a) (Th p2 a) ->
    lift (OR d T) (Th p1 (Op1 o a)) (Th p2 (Op1 o a)).
Proof.
  intros d o U T p1 p2 a Hnv Hg Hpure Hrel IH.
  start n r2 Hev Hne. rewrite Hg in Hev.
  apply bind_inv in Hev; [|exact Hne].
  assert (Han : ev n (Th p2 a) <> OutOfFuel).
  { destruct Hev as [[v [Hgd _]]|[e0 [Hgd _]]]; eapply guard_inv; eauto; congruence. }
  destruct (IH n _ eq_refl Han) as [m1 [r1 [Ha1 HO]]].
  destruct (ev n (Th p2 a)) as [v2|e2|] eqn:E2; [| |congruence].
  - destruct (OR_ok_inv _ _ _ _ Hnv HO) as [v1 Hr1]. rewrite Hr1 in HO, Ha1.
    destruct (OR_kind _ _ _ _ Hnv HO) as [U1 [U2 _]].
    rewrite (guard_unsealedb _ U2) in Hev.
    destruct Hev as [[v [Hgd Hb]]|[e' [Hgd _]]]; [|congruence]. inversion Hgd; subst v.
    exists (S m1), (op1_sem (ev m1) o v1). split.
    + rewrite ev_S. cbn [step]. rewrite Hg. rewrite Ha1. rewrite (guard_unsealedb _ U1). reflexivity.
    + rewrite <- Hb. rewrite (Hpure (ev m1) (ev n)). apply Hrel. exact HO.
  - pose proof (OR_err_inv _ _ _ _ Hnv HO) as Hr1. rewrite Hr1 in HO, Ha1.
    cbn [guard] in Hev. destruct Hev as [[v [Hgd _]]|[e' [Hgd Hr]]]; [congruence|]. inversion Hgd; subst e'.
    exists (S m1), (Err e2). split.
    + rewrite ev_S. cbn [step]. rewrite Hg. rewrite Ha1. reflexivity.
    + rewrite Hr. apply OR_err.
Qed.

Lemma Forall2_len : forall {A B} (R : A -> B -> Prop) l1 l2, Forall2 R l1 l2 -> List.length l1 = List.length l2.
Proof. intros A B R l1 l2 H. induction H; simpl; congruence. Qed.

Lemma Forall2_nth : forall {A B} (R : A -> B -> Prop) l1 l2 i b,
    Forall2 R l1 l2 -> nth_error l2 i = Some b -> exists a, nth_error l1 i = Some a /\ R a b.
Proof.
  intros A B R l1 l2 i b H. revert i. induction H; intros i Hn.
  - destruct i; discriminate.
  - destruct i; simpl in *.
    + inversion Hn; subst. eauto.
    + apply IHForall2. exact Hn.
Qed.

Lemma ev_ok_pos : forall n th v, ev n th = Ok v -> 1 <= n.
Proof. intros [|n] th v H; [rewrite ev_O in H; congruence|lia]. Qed.

(* strict binary operation that does not evaluate anything itself *)
Lemma fund_op2_pure :
  forall d o U1 U2 T p1 p2 a b,
    is_svar U1 = false -> is_svar U2 = false ->
    (forall ev1 m1 ev2 m2 v1 v2 w1 w2, 1 <= m1 -> 1 <= m2 ->
        OR d U1 (Ok v1) (Ok v2) -> OR d U2 (Ok w1) (Ok w2) ->
        OR d T (op2_sem ev1 m1 o v1 w1) (op2_sem ev2 m2 o v2 w2)) ->
    lift (OR d U1) (Th p1 a) (Th p2 a) ->
    lift (OR d U2) (Th p1 b) (Th p2 b) ->
    lift (OR d T) (Th p1 (Op2 o a b)) (Th p2 (Op2 o a b)).
Proof.
  intros d o U1 U2 T p1 p2 a b Hnv1 Hnv2 Hrel IHa IHb.
  start n r2 Hev Hne.
  apply bind_inv in Hev; [|exact Hne].
  assert (Han : ev n (Th p2 a) <> OutOfFuel).
  { destruct Hev as [[v [Hgd _]]|[e0 [Hgd _]]]; eapply guard_inv; eauto; congruence. }
  destruct (IHa n _ eq_refl Han) as [m1 [r1 [Ha1 HOa]]].
  destruct (ev n (Th p2 a)) as [v2|e2|] eqn:E2; [| |congruence].
  - destruct (OR_ok_inv _ _ _ _ Hnv1 HOa) as [v1 Hr1]. rewrite Hr1 in HOa, Ha1.
    destruct (OR_kind _ _ _ _ Hnv1 HOa) as [Ua1 [Ua2 _]].
    rewrite (guard_unsealedb _ Ua2) in Hev.
    destruct Hev as [[v [Hgd Hev]]|[e' [Hgd _]]]; [|congruence]. inversion Hgd; subst v.
    apply bind_inv in Hev; [|exact Hne].
    assert (Hbn : ev n (Th p2 b) <> OutOfFuel).
    { destruct Hev as [[v [Hgd' _]]|[e0 [Hgd' _]]]; eapply guard_inv; eauto; congruence. }
    destruct (IHb n _ eq_refl Hbn) as [m2 [s1 [Hb1 HOb]]].
    destruct (ev n (Th p2 b)) as [w2|e2|] eqn:E3; [| |congruence].
    + destruct (OR_ok_inv _ _ _ _ Hnv2 HOb) as [w1 Hs1]. rewrite Hs1 in HOb, Hb1.
      destruct (OR_kind _ _ _ _ Hnv2 HOb) as [Ub1 [Ub2 _]].
      rewrite (guard_unsealedb _ Ub2) in Hev.
      destruct Hev as [[v [Hgd' Hev]]|[e' [Hgd' _]]]; [|congruence]. inversion Hgd'; subst v.
      exists (S (m1 + m2)), (op2_sem (ev (m1 + m2)) (m1 + m2) o v1 w1). split.
      * rewrite ev_S. cbn [step].
        rewrite (ev_mono m1 (m1 + m2) _ _ ltac:(lia) Ha1) by congruence.
        rewrite (guard_unsealedb _ Ua1). cbn [bind].
        rewrite (ev_mono m2 (m1 + m2) _ _ ltac:(lia) Hb1) by congruence.
        rewrite (guard_unsealedb _ Ub1). reflexivity.
      * rewrite <- Hev. apply Hrel; try assumption.
        -- pose proof (ev_ok_pos _ _ _ Ha1). lia.
        -- eapply ev_ok_pos; eauto.
    + pose proof (OR_err_inv _ _ _ _ Hnv2 HOb) as Hs1. rewrite Hs1 in HOb, Hb1.
      cbn [guard] in Hev. destruct Hev as [[v [Hgd' _]]|[e' [Hgd' Hr]]]; [congruence|]. inversion Hgd'; subst e'.
      exists (S (m1 + m2)), (Err e2). split.
      * rewrite ev_S. cbn [step].
        rewrite (ev_mono m1 (m1 + m2) _ _ ltac:(lia) Ha1) by congruence.
        rewrite (guard_unsealedb _ Ua1). cbn [bind].
        rewrite (ev_mono m2 (m1 + m2) _ _ ltac:(lia) Hb1) by congruence. reflexivity.
      * rewrite Hr. apply OR_err.
  - pose proof (OR_err_inv _ _ _ _ Hnv1 HOa) as Hr1. rewrite Hr1 in HOa, Ha1.
    cbn [guard] in Hev. destruct Hev as [[v [Hgd _]]|[e' [Hgd Hr]]]; [congruence|]. inversion Hgd; subst e'.
    exists (S m1), (Err e2). split.
    + rewrite ev_S. cbn [step]. rewrite Ha1. reflexivity.
    + rewrite Hr. apply OR_err.
Qed.

Lemma OR_num_inv : forall d v1 v2, OR d SNum (Ok v1) (Ok v2) -> exists z, v1 = VNum z /\ v2 = VNum z.
Proof. intros d v1 v2 H. cbn [OR] in H. destruct H as [[e [H _]]|[z [H1 H2]]]; [discriminate|]. inversion H1; inversion H2; eauto. Qed.
Lemma OR_bool_inv : forall d v1 v2, OR d SBool (Ok v1) (Ok v2) -> exists z, v1 = VBool z /\ v2 = VBool z.
Proof. intros d v1 v2 H. cbn [OR] in H. destruct H as [[e [H _]]|[z [H1 H2]]]; [discriminate|]. inversion H1; inversion H2; eauto. Qed.
Lemma OR_str_inv : forall d v1 v2, OR d SStr (Ok v1) (Ok v2) -> exists z, v1 = VStr z /\ v2 = VStr z.
Proof. intros d v1 v2 H. cbn [OR] in H. destruct H as [[e [H _]]|[z [H1 H2]]]; [discriminate|]. inversion H1; inversion H2; eauto. Qed.
Lemma OR_num : forall d z, OR d SNum (Ok (VNum z)) (Ok (VNum z)).
Proof. intros. cbn [OR]. right. eauto. Qed.
Lemma OR_bool : forall d z, OR d SBool (Ok (VBool z)) (Ok (VBool z)).
Proof. intros. cbn [OR]. right. eauto. Qed.
Lemma OR_str : forall d z, OR d SStr (Ok (VStr z)) (Ok (VStr z)).
Proof. intros. cbn [OR]. right. eauto. Qed.


(* the hidden values related by an interpretation are never seals themselves *)
Definition unsealed_rel (R : orel) : Prop :=
  forall r1 r2, R r1 r2 ->
    (exists e, r1 = Err e /\ r2 = Err e)
    \/ (exists v1 v2, r1 = Ok v1 /\ r2 = Ok v2 /\ unsealedb v1 = true /\ unsealedb v2 = true).

Definition wf_int (d : nat -> tyint) : Prop := forall i, unsealed_rel (ti_rel (d i)).

Lemma ev_nonO : forall n th r, ev n th = r -> r <> OutOfFuel -> exists n', n = S n'.
Proof. intros [|n] th r H Hne; [rewrite ev_O in H; congruence|eauto]. Qed.

Lemma lift_app :
  forall d U T p1 p2 f1 f2 a1 a2,
    lift (OR d (SFun U T)) (Th p1 f1) (Th p2 f2) ->
    lift (OR d U) (Th p1 a1) (Th p2 a2) ->
    lift (OR d T) (Th p1 (App f1 a1)) (Th p2 (App f2 a2)).
Proof.
  intros d U T p1 p2 f1 f2 a1 a2 IHf IHa.
  start n r2 Hev Hne.
  apply bind_inv in Hev; [|exact Hne].
  assert (Hfn : ev n (Th p2 f2) <> OutOfFuel).
  { destruct Hev as [[v [Hg _]]|[e0 [Hg _]]]; eapply guard_inv; eauto; congruence. }
  destruct (IHf n _ eq_refl Hfn) as [m1 [r1 [Hf1 HO]]].
  cbn [OR] in HO. destruct HO as [[e0 [Hr1 Hr2]]|[q1 [x1 [b1 [q2 [x2 [b2 [Hr1 [Hr2 Hclo]]]]]]]]].
  + rewrite Hr2 in Hev. cbn [guard] in Hev.
    destruct Hev as [[v [Hg _]]|[e' [Hg Hr]]]; [congruence|]. inversion Hg; subst e'.
    exists (S m1), (Err e0). split.
    * rewrite ev_S. cbn [step]. rewrite Hf1, Hr1. reflexivity.
    * rewrite Hr. apply OR_err.
  + rewrite Hr2 in Hev. cbn [guard] in Hev.
    destruct Hev as [[v [Hg Hb]]|[e' [Hg _]]]; [|congruence]. inversion Hg; subst v.
    destruct (Hclo _ _ IHa n r2 Hb Hne) as [m2 [r1' [Hb1 HO']]].
    exists (S (m1 + m2)), r1'. split; [|exact HO'].
    rewrite ev_S. cbn [step].
    rewrite (ev_mono m1 (m1 + m2) _ _ ltac:(lia) Hf1) by (rewrite Hr1; congruence).
    rewrite Hr1. cbn [guard bind].
    apply (ev_mono m2 (m1 + m2) _ _ ltac:(lia) Hb1). eapply OR_terminates; eauto.
Qed.

Definition same_class (r1 r2 : outcome val) : Prop :=
  (exists e, r1 = Err e /\ r2 = Err e) \/ (exists v1 v2, r1 = Ok v1 /\ r2 = Ok v2).

Lemma lift_seqforce :
  forall d U t1 t2, wf_int d -> lift (OR d U) t1 t2 ->
    forall n r2, seqforce (ev n) n t2 = r2 -> r2 <> OutOfFuel ->
      exists m r1, seqforce (ev m) m t1 = r1 /\ same_class r1 r2.
Proof.
  intros d U t1 t2 Hwf Hl n r2 Hs Hne.
  destruct n as [|n]; [simpl in Hs; congruence|]. cbn [seqforce] in Hs.
  assert (Hn2 : ev (S n) t2 <> OutOfFuel) by (intro E; rewrite E in Hs; congruence).
  destruct (Hl (S n) _ eq_refl Hn2) as [m1 [r1' [H1 HO]]].
  destruct (ev_nonO _ _ _ H1 (OR_terminates _ _ _ _ HO)) as [m1' Em1]. subst m1.
  destruct (is_svar U) eqn:Hv.
  - destruct U; try discriminate. cbn [OR] in HO.
    destruct HO as [[e [Hr1 Hr2]]|[t [l [Hr1 [m2 [r1'' [Hc [Hcne Hrel]]]]]]]].
    + rewrite Hr2 in Hs. exists (S m1'), (Err e). split.
      * cbn [seqforce]. rewrite H1, Hr1. reflexivity.
      * left. eauto.
    + destruct (ev_nonO _ _ _ Hc Hcne) as [m2' Em2]. subst m2.
      destruct (Hwf i _ _ Hrel) as [[e [E1 E2]]|[v1 [v2 [E1 [E2 [U1 U2]]]]]].
      * rewrite E2 in Hs. exists (S (S (m1' + m2'))), (Err e). split.
        -- cbn [seqforce].
           rewrite (ev_mono (S m1') (S (S (m1' + m2'))) _ _ ltac:(lia) H1) by (rewrite Hr1; congruence).
           rewrite Hr1.
           rewrite (ev_mono (S m2') (S (S (m1' + m2'))) _ _ ltac:(lia) Hc) by (rewrite E1; congruence).
           rewrite E1. reflexivity.
        -- left. eauto.
      * rewrite E2 in Hs. destruct v2; try discriminate; 
          (exists (S (S (m1' + m2'))), (Ok v1); split;
           [ cbn [seqforce];
             rewrite (ev_mono (S m1') (S (S (m1' + m2'))) _ _ ltac:(lia) H1) by (rewrite Hr1; congruence);
             rewrite Hr1;
             rewrite (ev_mono (S m2') (S (S (m1' + m2'))) _ _ ltac:(lia) Hc) by (rewrite E1; congruence);
             rewrite E1; destruct v1; try discriminate; reflexivity
           | right; subst r2; eauto ]).
  - destruct (ev (S n) t2) as [v2|e2|] eqn:E2; [| |congruence].
    + destruct (OR_ok_inv _ _ _ _ Hv HO) as [v1 Hr1]. rewrite Hr1 in HO, H1.
      destruct (OR_kind _ _ _ _ Hv HO) as [U1 [U2 _]].
      exists (S m1'), (Ok v1). split.
      * cbn [seqforce]. rewrite H1. destruct v1; try discriminate; reflexivity.
      * right. destruct v2; try discriminate; subst r2; eauto.
    + pose proof (OR_err_inv _ _ _ _ Hv HO) as Hr1. rewrite Hr1 in H1.
      exists (S m1'), (Err e2). split.
      * cbn [seqforce]. rewrite H1. reflexivity.
      * left. subst r2. eauto.
Qed.

Definition fund (d : nat -> tyint) (e : tm) : Prop := wf_int d ->
  forall G T, has_ty G e T -> forall p1 p2, env_rel d G p1 p2 -> lift (OR d T) (Th p1 e) (Th p2 e).


Theorem fundamental : forall d e, fund d e.
Proof.
  intros d. induction e using tm_ind'; unfold fund in *; intros Hwf G T Hty p1 p2 Henv; cbn [has_ty] in Hty;
    repeat match goal with IH : wf_int d -> _ |- _ => specialize (IH Hwf) end.
  - (* Var *)
    destruct (Henv x T Hty) as [t1 [t2 [H1 [H2 Hr]]]].
    eapply lift_var; eauto. eapply lift_var_r; eauto.
  - (* Lam *)
    destruct T; try contradiction.
    start n r2 Hev Hne. subst r2.
    exists 1, (Ok (VClo p1 x e)). split; [reflexivity|].
    cbn [OR]. right. do 6 eexists. split; [reflexivity|]. split; [reflexivity|].
    intros t1 t2 Ht. apply (IHe _ _ Hty). apply env_rel_cons; assumption.
  - (* App *)
    destruct Hty as [U [Hf Ha]].
    start n r2 Hev Hne.
    apply bind_inv in Hev; [|exact Hne].
    assert (Hfn : ev n (Th p2 e1) <> OutOfFuel).
    { destruct Hev as [[v [Hg _]]|[e0 [Hg _]]]; eapply guard_inv; eauto; congruence. }
    destruct (IHe1 _ _ Hf p1 p2 Henv n _ eq_refl Hfn) as [m1 [r1 [Hf1 HO]]].
    cbn [OR] in HO. destruct HO as [[e0 [Hr1 Hr2]]|[q1 [x1 [b1 [q2 [x2 [b2 [Hr1 [Hr2 Hclo]]]]]]]]].
    + (* the function expression fails *)
      rewrite Hr2 in Hev. cbn [guard] in Hev.
      destruct Hev as [[v [Hg _]]|[e' [Hg Hr]]]; [congruence|]. inversion Hg; subst e'.
      exists (S m1), (Err e0). split.
      * rewrite ev_S. cbn [step]. rewrite Hf1, Hr1. reflexivity.
      * rewrite Hr. apply OR_err.
    + rewrite Hr2 in Hev. cbn [guard] in Hev.
      destruct Hev as [[v [Hg Hb]]|[e' [Hg _]]]; [|congruence]. inversion Hg; subst v.
      assert (Harg : lift (OR d U) (Th p1 e2) (Th p2 e2)) by (apply (IHe2 _ _ Ha); assumption).
      destruct (Hclo _ _ Harg n r2 Hb Hne) as [m2 [r1' [Hb1 HO']]].
      exists (S (m1 + m2)), r1'. split; [|exact HO'].
      rewrite ev_S. cbn [step].
      rewrite (ev_mono m1 (m1 + m2) _ _ ltac:(lia) Hf1) by (rewrite Hr1; congruence).
      rewrite Hr1. cbn [guard bind].
      apply (ev_mono m2 (m1 + m2) _ _ ltac:(lia) Hb1). eapply OR_terminates; eauto.
  - (* Let *)
    destruct Hty as [U [He Hb]].
    start n r2 Hev Hne.
    assert (Harg : lift (OR d U) (Th p1 e1) (Th p2 e1)) by (apply (IHe1 _ _ He); assumption).
    assert (Hbody : lift (OR d T) (Th ((x, Th p1 e1) :: p1) e2) (Th ((x, Th p2 e1) :: p2) e2)).
    { apply (IHe2 _ _ Hb). apply env_rel_cons; assumption. }
    destruct (Hbody n r2 Hev Hne) as [m [r1 [H1 HO]]].
    exists (S m), r1. split; [|exact HO]. rewrite ev_S. cbn [step]. exact H1.
  - (* Num *) subst T. start m r2 Hev Hne. subst r2. exists 1, (Ok (VNum n)). split; [reflexivity|]. cbn [OR]. right. eauto.
  - subst T. start m r2 Hev Hne. subst r2. exists 1, (Ok (VBool b)). split; [reflexivity|]. cbn [OR]. right. eauto.
  - subst T. start m r2 Hev Hne. subst r2. exists 1, (Ok (VStr s)). split; [reflexivity|]. cbn [OR]. right. eauto.
  - (* If *)
    destruct Hty as [Hc [Ht He]].
    start n r2 Hev Hne.
    apply bind_inv in Hev; [|exact Hne].
    assert (Hcn : ev n (Th p2 e1) <> OutOfFuel).
    { destruct Hev as [[v [Hg _]]|[e0 [Hg _]]]; eapply guard_inv; eauto; congruence. }
    destruct (IHe1 _ _ Hc p1 p2 Henv n _ eq_refl Hcn) as [m1 [r1 [Hc1 HO]]].
    cbn [OR] in HO. destruct HO as [[e0 [Hr1 Hr2]]|[b [Hr1 Hr2]]].
    + rewrite Hr2 in Hev. cbn [guard] in Hev.
      destruct Hev as [[v [Hg _]]|[e' [Hg Hr]]]; [congruence|]. inversion Hg; subst e'.
      exists (S m1), (Err e0). split.
      * rewrite ev_S. cbn [step]. rewrite Hc1, Hr1. reflexivity.
      * rewrite Hr. apply OR_err.
    + rewrite Hr2 in Hev. cbn [guard] in Hev.
      destruct Hev as [[v [Hg Hb]]|[e' [Hg _]]]; [|congruence]. inversion Hg; subst v.
      assert (Hbr : lift (OR d T) (Th p1 (if b then e2 else e3)) (Th p2 (if b then e2 else e3))).
      { destruct b; [apply (IHe2 _ _ Ht)|apply (IHe3 _ _ He)]; assumption. }
      assert (Hb' : ev n (Th p2 (if b then e2 else e3)) = r2) by (destruct b; exact Hb).
      destruct (Hbr n r2 Hb' Hne) as [m2 [r1' [Hb1 HO']]].
      exists (S (m1 + m2)), r1'. split; [|exact HO'].
      rewrite ev_S. cbn [step].
      rewrite (ev_mono m1 (m1 + m2) _ _ ltac:(lia) Hc1) by (rewrite Hr1; congruence).
      rewrite Hr1. cbn [guard bind].
      pose proof (ev_mono m2 (m1 + m2) _ _ ltac:(lia) Hb1 (OR_terminates _ _ _ _ HO')) as Hm.
      destruct b; exact Hm.
  - (* Op1 *)
    destruct o; try contradiction.
    + (* IsNum *) destruct Hty as [HT [U [Hnv Ha]]]. subst T.
      eapply (fund_op1_pure d IsNum U SBool); try reflexivity; try assumption.
      * intros ev0 v1 v2 HO. cbn [op1_sem]. destruct (OR_kind _ _ _ _ Hnv HO) as [_ [_ Hk]]. rewrite Hk. apply OR_bool.
      * apply (IHe _ _ Ha); assumption.
    + destruct Hty as [HT [U [Hnv Ha]]]. subst T.
      eapply (fund_op1_pure d IsBool U SBool); try reflexivity; try assumption.
      * intros ev0 v1 v2 HO. cbn [op1_sem]. destruct (OR_kind _ _ _ _ Hnv HO) as [_ [_ Hk]]. rewrite Hk. apply OR_bool.
      * apply (IHe _ _ Ha); assumption.
    + destruct Hty as [HT [U [Hnv Ha]]]. subst T.
      eapply (fund_op1_pure d IsStr U SBool); try reflexivity; try assumption.
      * intros ev0 v1 v2 HO. cbn [op1_sem]. destruct (OR_kind _ _ _ _ Hnv HO) as [_ [_ Hk]]. rewrite Hk. apply OR_bool.
      * apply (IHe _ _ Ha); assumption.
    + destruct Hty as [HT [U [Hnv Ha]]]. subst T.
      eapply (fund_op1_pure d IsFun U SBool); try reflexivity; try assumption.
      * intros ev0 v1 v2 HO. cbn [op1_sem]. destruct (OR_kind _ _ _ _ Hnv HO) as [_ [_ Hk]]. rewrite Hk. apply OR_bool.
      * apply (IHe _ _ Ha); assumption.
    + destruct Hty as [HT [U [Hnv Ha]]]. subst T.
      eapply (fund_op1_pure d IsArr U SBool); try reflexivity; try assumption.
      * intros ev0 v1 v2 HO. cbn [op1_sem]. destruct (OR_kind _ _ _ _ Hnv HO) as [_ [_ Hk]]. rewrite Hk. apply OR_bool.
      * apply (IHe _ _ Ha); assumption.
    + destruct Hty as [HT [U [Hnv Ha]]]. subst T.
      eapply (fund_op1_pure d IsRec U SBool); try reflexivity; try assumption.
      * intros ev0 v1 v2 HO. cbn [op1_sem]. destruct (OR_kind _ _ _ _ Hnv HO) as [_ [_ Hk]]. rewrite Hk. apply OR_bool.
      * apply (IHe _ _ Ha); assumption.
    + (* Not *) destruct Hty as [HT Ha]. subst T.
      eapply (fund_op1_pure d Not SBool SBool); try reflexivity.
      * intros ev0 v1 v2 HO. destruct (OR_bool_inv _ _ _ HO) as [b [E1 E2]]. subst. cbn [op1_sem]. apply OR_bool.
      * apply (IHe _ _ Ha); assumption.
    + (* Length *) destruct Hty as [HT [U Ha]]. subst T.
      eapply (fund_op1_pure d Length (SArr U) SNum); try reflexivity.
      * intros ev0 v1 v2 HO. cbn [OR] in HO. destruct HO as [[e0 [H _]]|[l1 [l2 [H1 [H2 HF]]]]]; [discriminate|].
        inversion H1; inversion H2; subst. cbn [op1_sem]. rewrite (Forall2_len _ _ _ HF). apply OR_num.
      * apply (IHe _ _ Ha); assumption.
    + (* ToStr *) destruct Hty as [HT [U [Hb Ha]]]. subst T.
      eapply (fund_op1_pure d ToStr U SStr); try reflexivity.
      * destruct U; try discriminate; reflexivity.
      * intros ev0 v1 v2 HO. destruct U; try discriminate.
        -- destruct (OR_num_inv _ _ _ HO) as [z [E1 E2]]. subst. cbn [op1_sem]. apply OR_str.
        -- destruct (OR_bool_inv _ _ _ HO) as [z [E1 E2]]. subst. cbn [op1_sem]. apply OR_str.
        -- destruct (OR_str_inv _ _ _ HO) as [z [E1 E2]]. subst. cbn [op1_sem]. apply OR_str.
      * apply (IHe _ _ Ha); assumption.
    + (* GetF *)
      destruct Hty as [[fs [Ha Hl]]|[fs [ri [ex [Ha Hl]]]]].
      * assert (IH : lift (OR d (SRec fs)) (Th p1 e) (Th p2 e)) by (apply (IHe _ _ Ha); assumption).
        start n r2 Hev Hne. cbn [guard1] in Hev.
        apply bind_inv in Hev; [|exact Hne].
        assert (Han : ev n (Th p2 e) <> OutOfFuel).
        { destruct Hev as [[v [Hgd _]]|[e0 [Hgd _]]]; eapply guard_inv; eauto; congruence. }
        destruct (IH n _ eq_refl Han) as [m1 [r1 [Ha1 HO]]].
        cbn [OR] in HO. destruct HO as [[e0 [Hr1 Hr2]]|[f1 [f2 [Hr1 [Hr2 Hrec]]]]].
        -- rewrite Hr2 in Hev. cbn [guard] in Hev.
           destruct Hev as [[v [Hg _]]|[e' [Hg Hr]]]; [congruence|]. inversion Hg; subst e'.
           exists (S m1), (Err e0). split.
           ++ rewrite ev_S. cbn [step guard1]. rewrite Ha1, Hr1. reflexivity.
           ++ rewrite Hr. apply OR_err.
        -- rewrite Hr2 in Hev. cbn [guard] in Hev.
           destruct Hev as [[v [Hg Hb]]|[e' [Hg _]]]; [|congruence]. inversion Hg; subst v.
           destruct (rec_rel_lookup d fs f1 f2 l T Hrec Hl) as [t1 [t2 [L1 [L2 Ht]]]].
           cbn [op1_sem] in Hb. rewrite L2 in Hb.
           destruct (Ht n r2 Hb Hne) as [m2 [r1' [Hb1 HO']]].
           exists (S (m1 + m2)), r1'. split; [|exact HO'].
           rewrite ev_S. cbn [step guard1].
           rewrite (ev_mono m1 (m1 + m2) _ _ ltac:(lia) Ha1) by (rewrite Hr1; congruence).
           rewrite Hr1. cbn [guard bind op1_sem]. rewrite L1.
           apply (ev_mono m2 (m1 + m2) _ _ ltac:(lia) Hb1). eapply OR_terminates; eauto.
      * (* a listed field of a record with a quantified tail *)
        assert (IH : lift (OR d (SRow fs ri ex)) (Th p1 e) (Th p2 e)) by (apply (IHe _ _ Ha); assumption).
        start n r2 Hev Hne. cbn [guard1] in Hev.
        apply bind_inv in Hev; [|exact Hne].
        assert (Han : ev n (Th p2 e) <> OutOfFuel).
        { destruct Hev as [[v [Hgd _]]|[e0 [Hgd _]]]; eapply guard_inv; eauto; congruence. }
        destruct (IH n _ eq_refl Han) as [m1 [r1 [Ha1 HO]]].
        cbn [OR] in HO. destruct HO as [[e0 [Hr1 Hr2]]|[f1 [g1 [sl [f2 [g2 [Hr1 [Hr2 [Hrec Hrow]]]]]]]]].
        -- rewrite Hr2 in Hev. cbn [guard] in Hev.
           destruct Hev as [[v [Hg _]]|[e' [Hg Hr]]]; [congruence|]. inversion Hg; subst e'.
           exists (S m1), (Err e0). split.
           ++ rewrite ev_S. cbn [step guard1]. rewrite Ha1, Hr1. reflexivity.
           ++ rewrite Hr. apply OR_err.
        -- rewrite Hr2 in Hev. cbn [guard] in Hev.
           destruct Hev as [[v [Hg Hb]]|[e' [Hg _]]]; [|congruence]. inversion Hg; subst v.
           destruct (rec_rel_lookup d fs f1 f2 l T Hrec Hl) as [t1 [t2 [L1 [L2 Ht]]]].
           cbn [op1_sem] in Hb. rewrite (lookup_app_l f2 g2 l t2 L2) in Hb.
           destruct (Ht n r2 Hb Hne) as [m2 [r1' [Hb1 HO']]].
           exists (S (m1 + m2)), r1'. split; [|exact HO'].
           rewrite ev_S. cbn [step guard1].
           rewrite (ev_mono m1 (m1 + m2) _ _ ltac:(lia) Ha1) by (rewrite Hr1; congruence).
           rewrite Hr1. cbn [guard bind op1_sem]. rewrite L1.
           apply (ev_mono m2 (m1 + m2) _ _ ltac:(lia) Hb1). eapply OR_terminates; eauto.
  - (* Op2 *)
    destruct o.
    + (* Add *) destruct Hty as [HT [Ha Hb]]. subst T.
      eapply (fund_op2_pure d Add SNum SNum SNum); try reflexivity.
      * intros ev1 m1 ev2 m2 v1 v2 w1 w2 _ _ HOa HOb.
        destruct (OR_num_inv _ _ _ HOa) as [x [E1 E2]]. destruct (OR_num_inv _ _ _ HOb) as [y [E3 E4]]. subst.
        cbn [op2_sem]. apply OR_num.
      * apply (IHe1 _ _ Ha); assumption.
      * apply (IHe2 _ _ Hb); assumption.
    + destruct Hty as [HT [Ha Hb]]. subst T.
      eapply (fund_op2_pure d Sub SNum SNum SNum); try reflexivity.
      * intros ev1 m1 ev2 m2 v1 v2 w1 w2 _ _ HOa HOb.
        destruct (OR_num_inv _ _ _ HOa) as [x [E1 E2]]. destruct (OR_num_inv _ _ _ HOb) as [y [E3 E4]]. subst.
        cbn [op2_sem]. apply OR_num.
      * apply (IHe1 _ _ Ha); assumption.
      * apply (IHe2 _ _ Hb); assumption.
    + destruct Hty as [HT [Ha Hb]]. subst T.
      eapply (fund_op2_pure d Mul SNum SNum SNum); try reflexivity.
      * intros ev1 m1 ev2 m2 v1 v2 w1 w2 _ _ HOa HOb.
        destruct (OR_num_inv _ _ _ HOa) as [x [E1 E2]]. destruct (OR_num_inv _ _ _ HOb) as [y [E3 E4]]. subst.
        cbn [op2_sem]. apply OR_num.
      * apply (IHe1 _ _ Ha); assumption.
      * apply (IHe2 _ _ Hb); assumption.
    + (* OEq *) destruct Hty as [HT [U [Hbase [Ha Hb]]]]. subst T.
      eapply (fund_op2_pure d OEq U U SBool); try (destruct U; try discriminate; reflexivity).
      * intros ev1 m1 ev2 m2 v1 v2 w1 w2 Hm1 Hm2 HOa HOb.
        destruct m1 as [|m1]; [lia|]. destruct m2 as [|m2]; [lia|].
        destruct U; try discriminate.
        -- destruct (OR_num_inv _ _ _ HOa) as [x [E1 E2]]. destruct (OR_num_inv _ _ _ HOb) as [y [E3 E4]]. subst.
           cbn [op2_sem eqv bind]. apply OR_bool.
        -- destruct (OR_bool_inv _ _ _ HOa) as [x [E1 E2]]. destruct (OR_bool_inv _ _ _ HOb) as [y [E3 E4]]. subst.
           cbn [op2_sem eqv bind]. apply OR_bool.
        -- destruct (OR_str_inv _ _ _ HOa) as [x [E1 E2]]. destruct (OR_str_inv _ _ _ HOb) as [y [E3 E4]]. subst.
           cbn [op2_sem eqv bind]. apply OR_bool.
      * apply (IHe1 _ _ Ha); assumption.
      * apply (IHe2 _ _ Hb); assumption.
    + (* OLt *) destruct Hty as [HT [Ha Hb]]. subst T.
      eapply (fund_op2_pure d OLt SNum SNum SBool); try reflexivity.
      * intros ev1 m1 ev2 m2 v1 v2 w1 w2 _ _ HOa HOb.
        destruct (OR_num_inv _ _ _ HOa) as [x [E1 E2]]. destruct (OR_num_inv _ _ _ HOb) as [y [E3 E4]]. subst.
        cbn [op2_sem]. apply OR_bool.
      * apply (IHe1 _ _ Ha); assumption.
      * apply (IHe2 _ _ Hb); assumption.
    + (* Cat *) destruct Hty as [HT [Ha Hb]]. subst T.
      eapply (fund_op2_pure d Cat SStr SStr SStr); try reflexivity.
      * intros ev1 m1 ev2 m2 v1 v2 w1 w2 _ _ HOa HOb.
        destruct (OR_str_inv _ _ _ HOa) as [x [E1 E2]]. destruct (OR_str_inv _ _ _ HOb) as [y [E3 E4]]. subst.
        cbn [op2_sem]. apply OR_str.
      * apply (IHe1 _ _ Ha); assumption.
      * apply (IHe2 _ _ Hb); assumption.
    + (* At *)
      destruct Hty as [Ha Hb].
      assert (IHa : lift (OR d (SArr T)) (Th p1 e1) (Th p2 e1)) by (apply (IHe1 _ _ Ha); assumption).
      assert (IHb : lift (OR d SNum) (Th p1 e2) (Th p2 e2)) by (apply (IHe2 _ _ Hb); assumption).
      start n r2 Hev Hne.
      apply bind_inv in Hev; [|exact Hne].
      assert (Han : ev n (Th p2 e1) <> OutOfFuel).
      { destruct Hev as [[v [Hgd _]]|[e0 [Hgd _]]]; eapply guard_inv; eauto; congruence. }
      destruct (IHa n _ eq_refl Han) as [m1 [r1 [Ha1 HOa]]].
      cbn [OR] in HOa. destruct HOa as [[e0 [Hr1 Hr2]]|[l1 [l2 [Hr1 [Hr2 HF]]]]].
      * rewrite Hr2 in Hev. cbn [guard] in Hev.
        destruct Hev as [[v [Hg _]]|[e' [Hg Hr]]]; [congruence|]. inversion Hg; subst e'.
        exists (S m1), (Err e0). split.
        -- rewrite ev_S. cbn [step]. rewrite Ha1, Hr1. reflexivity.
        -- rewrite Hr. apply OR_err.
      * rewrite Hr2 in Hev. cbn [guard] in Hev.
        destruct Hev as [[v [Hg Hev]]|[e' [Hg _]]]; [|congruence]. inversion Hg; subst v.
        apply bind_inv in Hev; [|exact Hne].
        assert (Hbn : ev n (Th p2 e2) <> OutOfFuel).
        { destruct Hev as [[v [Hgd' _]]|[e0 [Hgd' _]]]; eapply guard_inv; eauto; congruence. }
        destruct (IHb n _ eq_refl Hbn) as [m2 [s1 [Hb1 HOb]]].
        cbn [OR] in HOb. destruct HOb as [[e0 [Hs1 Hs2]]|[z [Hs1 Hs2]]].
        -- rewrite Hs2 in Hev. cbn [guard] in Hev.
           destruct Hev as [[v [Hg' _]]|[e' [Hg' Hr]]]; [congruence|]. inversion Hg'; subst e'.
           exists (S (m1 + m2)), (Err e0). split.
           ++ rewrite ev_S. cbn [step].
              rewrite (ev_mono m1 (m1 + m2) _ _ ltac:(lia) Ha1) by (rewrite Hr1; congruence).
              rewrite Hr1. cbn [guard bind].
              rewrite (ev_mono m2 (m1 + m2) _ _ ltac:(lia) Hb1) by (rewrite Hs1; congruence).
              rewrite Hs1. reflexivity.
           ++ rewrite Hr. apply OR_err.
        -- rewrite Hs2 in Hev. cbn [guard] in Hev.
           destruct Hev as [[v [Hg' Hev]]|[e' [Hg' _]]]; [|congruence]. inversion Hg'; subst v.
           cbn [op2_sem] in Hev. rewrite <- (Forall2_len _ _ _ HF) in Hev.
           destruct ((0 <=? z)%Z && (z <? Z.of_nat (List.length l1))%Z) eqn:Hin.
           ++ destruct (nth_error l2 (Z.to_nat z)) as [t2|] eqn:Hn2.
              ** destruct (Forall2_nth _ _ _ _ _ HF Hn2) as [t1 [Hn1 Ht]].
                 destruct (Ht n r2 Hev Hne) as [m3 [r1' [Hc1 HO']]].
                 exists (S (m1 + m2 + m3)), r1'. split; [|exact HO'].
                 rewrite ev_S. cbn [step].
                 rewrite (ev_mono m1 (m1 + m2 + m3) _ _ ltac:(lia) Ha1) by (rewrite Hr1; congruence).
                 rewrite Hr1. cbn [guard bind].
                 rewrite (ev_mono m2 (m1 + m2 + m3) _ _ ltac:(lia) Hb1) by (rewrite Hs1; congruence).
                 rewrite Hs1. cbn [guard bind op2_sem]. rewrite Hin, Hn1.
                 apply (ev_mono m3 (m1 + m2 + m3) _ _ ltac:(lia) Hc1). eapply OR_terminates; eauto.
              ** exfalso. apply nth_error_None in Hn2. rewrite <- (Forall2_len _ _ _ HF) in Hn2.
                 apply andb_true_iff in Hin. destruct Hin as [H0 H1]. lia.
           ++ exists (S (m1 + m2)), (Err OtherErr). split.
              ** rewrite ev_S. cbn [step].
                 rewrite (ev_mono m1 (m1 + m2) _ _ ltac:(lia) Ha1) by (rewrite Hr1; congruence).
                 rewrite Hr1. cbn [guard bind].
                 rewrite (ev_mono m2 (m1 + m2) _ _ ltac:(lia) Hb1) by (rewrite Hs1; congruence).
                 rewrite Hs1. cbn [guard bind op2_sem]. rewrite Hin. reflexivity.
              ** rewrite <- Hev. apply OR_err.
  - (* Arr *)
    destruct T; try contradiction.
    start n r2 Hev Hne. subst r2.
    exists 1, (Ok (VArr (map (Th p1) es))). split; [reflexivity|].
    cbn [OR]. right. do 2 eexists. split; [reflexivity|]. split; [reflexivity|].
    clear Hne. induction H as [|e es He Hes IH]; cbn [map]; [constructor|].
    destruct Hty as [Hte Htes]. constructor.
    + apply (He Hwf _ _ Hte); assumption.
    + apply IH. exact Htes.
  - (* ArrMap *)
    destruct T; try contradiction. destruct Hty as [U1 [Hf Ha]].
    assert (IHf : lift (OR d (SFun U1 T)) (Th p1 e1) (Th p2 e1)) by (apply (IHe1 _ _ Hf); assumption).
    assert (IHa : lift (OR d (SArr U1)) (Th p1 e2) (Th p2 e2)) by (apply (IHe2 _ _ Ha); assumption).
    start n r2 Hev Hne.
    apply bind_inv in Hev; [|exact Hne].
    assert (Han : ev n (Th p2 e2) <> OutOfFuel).
    { destruct Hev as [[v [Hgd _]]|[e0 [Hgd _]]]; eapply guard_inv; eauto; congruence. }
    destruct (IHa n _ eq_refl Han) as [m1 [r1 [Ha1 HOa]]].
    cbn [OR] in HOa. destruct HOa as [[e0 [Hr1 Hr2]]|[l1 [l2 [Hr1 [Hr2 HF]]]]].
    + rewrite Hr2 in Hev. cbn [guard] in Hev.
      destruct Hev as [[v [Hg _]]|[e' [Hg Hr]]]; [congruence|]. inversion Hg; subst e'.
      exists (S m1), (Err e0). split.
      * rewrite ev_S. cbn [step]. rewrite Ha1, Hr1. reflexivity.
      * rewrite Hr. apply OR_err.
    + rewrite Hr2 in Hev. cbn [guard] in Hev.
      destruct Hev as [[v [Hg Hev]]|[e' [Hg _]]]; [|congruence]. inversion Hg; subst v.
      eexists (S m1), _. split.
      * rewrite ev_S. cbn [step]. rewrite Ha1, Hr1. cbn [guard bind]. reflexivity.
      * rewrite <- Hev. cbn [OR]. right. do 2 eexists. split; [reflexivity|]. split; [reflexivity|].
        clear -HF IHf. induction HF as [|t1 t2 l1 l2 Ht HF IH]; cbn [map]; constructor; [|exact IH].
        eapply lift_app.
        -- eapply lift_var; [reflexivity|]. eapply lift_var_r; [reflexivity|]. exact IHf.
        -- eapply lift_var; [reflexivity|]. eapply lift_var_r; [reflexivity|]. exact Ht.
  - (* RecLit *)
    destruct T; try contradiction.
    start n r2 Hev Hne. subst r2.
    eexists 1, _. split; [reflexivity|].
    cbn [OR]. right. do 2 eexists. split; [reflexivity|]. split; [reflexivity|].
    clear Hne. revert fs0 Hty. induction H as [|[x e] fs He Hes IH]; intros tfs Hty; destruct tfs as [|[y U] tfs]; cbn [map]; try contradiction.
    + exact I.
    + destruct Hty as [Exy [Hte Htes]]. subst y. cbn [snd] in He.
      split; [reflexivity|]. split; [reflexivity|]. split.
      * apply (He Hwf _ _ Hte); assumption.
      * apply IH. exact Htes.
  - contradiction.
  - contradiction.
  - (* Seq *)
    destruct Hty as [U [Ha Hb]].
    assert (IHa : lift (OR d U) (Th p1 e1) (Th p2 e1)) by (apply (IHe1 _ _ Ha); assumption).
    assert (IHb : lift (OR d T) (Th p1 e2) (Th p2 e2)) by (apply (IHe2 _ _ Hb); assumption).
    start n r2 Hev Hne.
    apply bind_inv in Hev; [|exact Hne].
    assert (Hsn : seqforce (ev n) n (Th p2 e1) <> OutOfFuel).
    { destruct Hev as [[v [Hgd _]]|[e0 [Hgd _]]]; congruence. }
    destruct (lift_seqforce d U _ _ Hwf IHa n _ eq_refl Hsn) as [m1 [r1 [Hs1 Hsc]]].
    destruct Hsc as [[e0 [E1 E2]]|[v1 [v2 [E1 E2]]]].
    + rewrite E2 in Hev. destruct Hev as [[v [Hg _]]|[e' [Hg Hr]]]; [congruence|]. inversion Hg; subst e'.
      exists (S m1), (Err e0). split.
      * rewrite ev_S. cbn [step]. rewrite Hs1, E1. reflexivity.
      * rewrite Hr. apply OR_err.
    + rewrite E2 in Hev. destruct Hev as [[v [Hg Hbd]]|[e' [Hg _]]]; [|congruence].
      destruct (IHb n r2 Hbd Hne) as [m2 [r1' [Hb1 HO']]].
      exists (S (m1 + m2)), r1'. split; [|exact HO'].
      rewrite ev_S. cbn [step].
      assert (Hs1' : seqforce (ev (m1 + m2)) (m1 + m2) (Th p1 e1) = Ok v1).
      { eapply (seqforce_mono (ev m1) (ev (m1 + m2))).
        - apply force_le. lia.
        - instantiate (1 := m1). lia.
        - rewrite <- E1. exact Hs1.
        - congruence. }
      rewrite Hs1'. cbn [bind].
      apply (ev_mono m2 (m1 + m2) _ _ ltac:(lia) Hb1). eapply OR_terminates; eauto.
  - contradiction.
  - contradiction.
  - contradiction.
  - contradiction.
Qed.
