(* C11 — printer from model terms to Nickel concrete syntax.  The text the real interpreter parses is a
   function of the term the model evaluates.  Run-time-only constructors have no concrete syntax. *)
From Coq Require Import List String ZArith Bool.
From NV Require Import Seal.Syntax Seal.Eval.
Import ListNotations.
Open Scope string_scope.

Definition q (s : string) : string := """" ++ s ++ """".

Fixpoint print_ty (t : ty) : string :=
  match t with
  | TDyn => "Dyn" | TNum => "Number" | TBool => "Bool" | TStr => "String"
  | TArrow a b => "(" ++ print_ty a ++ " -> " ++ print_ty b ++ ")"
  | TArr t => "(Array " ++ print_ty t ++ ")"
  | TRec fs tl =>
      let fields :=
        (fix go (fs : list (string * ty)) : list string :=
           match fs with [] => [] | (x, t) :: fs' => (x ++ " : " ++ print_ty t) :: go fs' end) fs in
      "{ " ++ String.concat ", " fields
           ++ (match tl with TlEmpty => "" | TlDyn => " ; Dyn" | TlVar x => " ; " ++ x end) ++ " }"
  | TForall x _ b => "(forall " ++ x ++ ". " ++ print_ty b ++ ")"
  | TVar x => x
  | TAlias t => "(let Alias = " ++ print_ty t ++ " in Alias)"
  end.

Definition kind_tag (o : op1) : string :=
  match o with
  | IsNum => "'Number" | IsBool => "'Bool" | IsStr => "'String"
  | IsFun => "'Function" | IsArr => "'Array" | _ => "'Record"
  end.

Fixpoint print_tm (e : tm) : string :=
  match e with
  | Var x => x
  | Lam x b => "(fun " ++ x ++ " => " ++ print_tm b ++ ")"
  | App f a => "(" ++ print_tm f ++ " " ++ print_tm a ++ ")"
  | Let x e1 b => "(let " ++ x ++ " = " ++ print_tm e1 ++ " in " ++ print_tm b ++ ")"
  | Num n => if Z.ltb n 0 then "(" ++ z_to_string n ++ ")" else z_to_string n
  | Bool b => if b then "true" else "false"
  | Str s => q s
  | If c t e' => "(if " ++ print_tm c ++ " then " ++ print_tm t ++ " else " ++ print_tm e' ++ ")"
  | Op1 o a =>
      let s := print_tm a in
      match o with
      | IsNum | IsBool | IsStr | IsFun | IsArr | IsRec => "(%typeof% " ++ s ++ " == " ++ kind_tag o ++ ")"
      | Not => "(!" ++ s ++ ")"
      | Length => "(%array/length% " ++ s ++ ")"
      | Fields => "(%record/fields% " ++ s ++ ")"
      | Freeze => "(%record/freeze% " ++ s ++ ")"
      | ToStr => """%{" ++ s ++ "}"""
      | GetF x => "(" ++ s ++ "." ++ q x ++ ")"
      | Remove x => "(%record/remove% " ++ q x ++ " " ++ s ++ ")"
      | HasField x => "(%record/has_field% " ++ q x ++ " " ++ s ++ ")"
      end
  | Op2 o a b =>
      let s := print_tm a in
      let t := print_tm b in
      match o with
      | Add => "(" ++ s ++ " + " ++ t ++ ")"
      | Sub => "(" ++ s ++ " - " ++ t ++ ")"
      | Mul => "(" ++ s ++ " * " ++ t ++ ")"
      | OEq => "(" ++ s ++ " == " ++ t ++ ")"
      | OLt => "(" ++ s ++ " < " ++ t ++ ")"
      | Cat => "(" ++ s ++ " ++ " ++ t ++ ")"
      | At => "(%array/at% " ++ s ++ " " ++ t ++ ")"
      end
  | Arr es =>
      "[" ++ String.concat ", "
               ((fix go (es : list tm) : list string :=
                   match es with [] => [] | e :: es' => print_tm e :: go es' end) es) ++ "]"
  | ArrMap f a => "(%array/map% " ++ print_tm a ++ " " ++ print_tm f ++ ")"
  | RecLit fs =>
      "{ " ++ String.concat ", "
                ((fix go (fs : list (string * tm)) : list string :=
                    match fs with [] => [] | (x, e) :: fs' => (q x ++ " = " ++ print_tm e) :: go fs' end) fs)
           ++ " }"
  | Insert x r v => "(%record/insert% " ++ q x ++ " " ++ print_tm r ++ " " ++ print_tm v ++ ")"
  | RecMap f r => "(%record/map% " ++ print_tm r ++ " " ++ print_tm f ++ ")"
  | Seq a b => "(%seq% " ++ print_tm a ++ " " ++ print_tm b ++ ")"
  | Ann t e' => "(" ++ print_tm e' ++ " | " ++ print_ty t ++ ")"
  | Chk _ _ _ | SealT _ _ _ | Unseal _ _ _ => "<internal>"
  end.

(* the bare program: every contract annotation removed (direct oracle: contracted vs bare) *)
Fixpoint strip (e : tm) : tm :=
  match e with
  | Var _ | Num _ | Bool _ | Str _ => e
  | Lam x b => Lam x (strip b)
  | App f a => App (strip f) (strip a)
  | Let x e1 b => Let x (strip e1) (strip b)
  | If c t e' => If (strip c) (strip t) (strip e')
  | Op1 o a => Op1 o (strip a)
  | Op2 o a b => Op2 o (strip a) (strip b)
  | Arr es => Arr (map strip es)
  | ArrMap f a => ArrMap (strip f) (strip a)
  | RecLit fs => RecLit ((fix go (fs : list (string * tm)) : list (string * tm) :=
                            match fs with [] => [] | (x, e) :: fs' => (x, strip e) :: go fs' end) fs)
  | Insert x r v => Insert x (strip r) (strip v)
  | RecMap f r => RecMap (strip f) (strip r)
  | Seq a b => Seq (strip a) (strip b)
  | Ann _ e' => strip e'
  | Chk c l e' => Chk c l (strip e')
  | SealT k l e' => SealT k l (strip e')
  | Unseal k l e' => Unseal k l (strip e')
  end.
