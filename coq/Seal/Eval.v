(* C11 — fuel-indexed big-step semantics of the sealing model.

   Mirrors, for the fragment of Syntax.v:
   - core/src/eval/mod.rs, Term::Sealed arm + core/src/eval/stack.rs peek_sealed_cont:
       a sealed value reaching a strict position blames with the seal's label unless the pending
       continuation is `unseal` (second operand) or `seq`                     -> [guard], [seqforce], [unseal]
   - core/stdlib/internals.ncl: $dyn $num $bool $string $func $array $forall $forall_var $record_type
       $forall_record_tail $dyn_tail $empty_tail                              -> [chk_with]
   - core/src/eval/operation.rs: Seal, Unseal, RecordAccess, RecordRemove, RecordInsert, RecordMap,
       RecordFreeze, RecordSealTail, RecordUnsealTail, RecordDisjointMerge, fields, has_field, ==.

   Open-recursion style: every helper takes the recursive evaluator [ev : thunk -> outcome val] as a
   parameter; [eval (S n)] ties the knot with [ev := force n].

   [cfg] selects deliberately unsound variants used for the `_refuted` lemmas; [cfg_real] is the model
   of the code. *)
From Coq Require Import List String ZArith Bool DecimalString.
From NV Require Import Seal.Syntax.
Import ListNotations.
Open Scope string_scope.

Record cfg := MkCfg {
  cf_flip_dom : bool;        (* $func flips the polarity of the label for the domain (real: true) *)
  cf_guard_typeof : bool;    (* the typeof-like primops are stopped by a seal (real: true) *)
  cf_dedup : bool;           (* an array contract that is the same occurrence as one already pending on
                                the array is dropped, as RuntimeContract::push_dedup did before 88c71d0 for
                                contracts with polymorphic parts (real: false) *)
}.
Definition cfg_real : cfg := MkCfg true true false.

(* equality of generated contracts (what contract_eq decides; labels are not part of a contract) *)
Fixpoint ctr_eqb (a b : ctr) {struct a} : bool :=
  match a, b with
  | CDyn, CDyn | CNum, CNum | CBool, CBool | CStr, CStr | CUnbound, CUnbound => true
  | CFun d1 c1, CFun d2 c2 => ctr_eqb d1 d2 && ctr_eqb c1 c2
  | CArr c1, CArr c2 => ctr_eqb c1 c2
  | CForall k1 c1, CForall k2 c2 => Nat.eqb k1 k2 && ctr_eqb c1 c2
  | CVar k1, CVar k2 => Nat.eqb k1 k2
  | CRec f1 t1, CRec f2 t2 =>
      (fix go (f1 f2 : list (string * ctr)) : bool :=
         match f1, f2 with
         | [], [] => true
         | (x1, c1) :: f1', (x2, c2) :: f2' => String.eqb x1 x2 && ctr_eqb c1 c2 && go f1' f2'
         | _, _ => false
         end) f1 f2
      && match t1, t2 with
         | CTEmpty, CTEmpty | CTDyn, CTDyn | CTUnbound, CTUnbound => true
         | CTVar k1 _, CTVar k2 _ => Nat.eqb k1 k2
         | _, _ => false
         end
  | _, _ => false
  end.

(* is this occurrence of the element contract c among the contracts already pending on this element?  The
   pending contracts of an array are the chain of [wrap_elem] wrappers around each element.  push_dedup
   recognised a re-application of the same occurrence (the same contract closure); the domain and the
   codomain occurrence of `Array a` are different closures.  The model has no closure identity: an
   occurrence is identified by the contract and the polarity of its label. *)
Fixpoint pending (depth : nat) (c : ctr) (l : lbl) (t : thunk) : bool :=
  match depth with
  | O => false
  | S d =>
      match t with
      | Th [(_, t')] (Chk c' l' (Var _)) =>
          (ctr_eqb c c' && Bool.eqb (lpol l) (lpol l')) || pending d c l t'
      | _ => false
      end
  end.

(* ------------------------------------------------------------------ outcome plumbing *)

Definition bind {A B} (r : outcome A) (f : A -> outcome B) : outcome B :=
  match r with Ok a => f a | Err e => Err e | OutOfFuel => OutOfFuel end.

(* peek_sealed_cont = Other: the sealed value is in a strict position of something that is neither
   `unseal` nor `seq`  ->  BlameError with the label stored in the seal. *)
Definition guard (r : outcome val) : outcome val :=
  match r with
  | Ok (VSealed _ _ l) => Err (Blame (lpol l))
  | _ => r
  end.

Section WithEv.
  Variable ev : thunk -> outcome val.

  (* peek_sealed_cont = Seq: evaluation continues with the inner term, the `seq` continuation is still
     on the stack (so nested seals are looked through as well). *)
  Fixpoint seqforce (m : nat) (th : thunk) : outcome val :=
    match m with
    | O => OutOfFuel
    | S m' =>
        match ev th with
        | Ok (VSealed _ t _) => seqforce m' t
        | r => r
        end
    end.

  (* BinaryOp::Unseal: the sealed term is the second operand (peek_sealed_cont = Unseal).  Matching key:
     continue with the content; anything else: the blame expression. *)
  Definition unseal (k : nat) (l : lbl) (th : thunk) : outcome val :=
    match ev th with
    | Ok (VSealed k' t _) => if Nat.eqb k k' then ev t else Err (Blame (lpol l))
    | Ok _ => Err (Blame (lpol l))
    | r => r
    end.

  (* ---------------------------------------------------------------- records *)

  Fixpoint remove_field (x : string) (fs : list (string * thunk)) : list (string * thunk) :=
    match fs with
    | [] => []
    | (y, t) :: fs' => if String.eqb x y then fs' else (y, t) :: remove_field x fs'
    end.

  (* IndexMap::extend: a later binding of an existing key replaces the value in place *)
  Fixpoint set_field (x : string) (t : thunk) (fs : list (string * thunk)) : list (string * thunk) :=
    match fs with
    | [] => [(x, t)]
    | (y, u) :: fs' => if String.eqb x y then (y, t) :: fs' else (y, u) :: set_field x t fs'
    end.
  Definition extend_fields (a b : list (string * thunk)) : list (string * thunk) :=
    fold_left (fun acc '(x, t) => set_field x t acc) b a.

  Fixpoint insert_sorted (x : string) (l : list string) : list string :=
    match l with
    | [] => [x]
    | y :: l' => if String.leb x y then x :: l else y :: insert_sorted x l'
    end.
  Definition sort_strings (l : list string) : list string := fold_right insert_sorted [] l.

  Definition tail_has (x : string) (t : rtl) : bool :=
    match t with RSeal _ _ tfs _ => mem x tfs | RNone => false end.

  (* ---------------------------------------------------------------- == *)

  Fixpoint eqv (m : nat) (v1 v2 : val) {struct m} : outcome bool :=
    match m with
    | O => OutOfFuel
    | S m' =>
        let eq_thunks :=
          fix go (a b : list thunk) : outcome bool :=
            match a, b with
            | [], [] => Ok true
            | t1 :: a', t2 :: b' =>
                bind (guard (ev t1)) (fun x =>
                bind (guard (ev t2)) (fun y =>
                bind (eqv m' x y) (fun r => if r then go a' b' else Ok false)))
            | _, _ => Ok false
            end in
        match v1, v2 with
        | VNum a, VNum b => Ok (Z.eqb a b)
        | VBool a, VBool b => Ok (Bool.eqb a b)
        | VStr a, VStr b => Ok (String.eqb a b)
        | VArr a, VArr b =>
            (* operation.rs `eq`: the last pair is compared first, the others are pushed on the stack in
               order and therefore popped in reverse: right to left *)
            if Nat.eqb (List.length a) (List.length b) then eq_thunks (rev a) (rev b) else Ok false
        | VRec a ta, VRec b tb =>
            (* operation.rs `eq`: two records without fields and without sealed tail are equal; a record
               without fields is the inline empty record, which is different from any allocated record
               (in particular from one that only has a sealed tail); otherwise the sealed tails are
               ignored: same field names, then pairwise in the order of the left record *)
            let empty (fs : list (string * thunk)) (t : rtl) :=
              match fs, t with [], RNone => true | _, _ => false end in
            if empty a ta && empty b tb then Ok true
            else if empty a ta || empty b tb then Ok false
            else if Nat.eqb (List.length a) (List.length b) && forallb (fun '(x, _) => mem x b) a then
              (* gen_eqs: the first field (in the order of the left record) is compared first, the
                 remaining pairs are pushed in order and popped in reverse *)
              let order (l : list thunk) := match l with [] => [] | t :: l' => t :: rev l' end in
              eq_thunks (order (map snd a))
                        (order (map (fun '(x, _) => match lookup x b with Some t => t | None => Th [] (Var x) end) a))
            else Ok false
        | VClo _ _ _, VClo _ _ _ => Err Incomparable
        | _, _ => Ok false
        end
    end.

  (* ---------------------------------------------------------------- primitive operations *)

  Definition is_kind (o : op1) (v : val) : bool :=
    match o, v with
    | IsNum, VNum _ | IsBool, VBool _ | IsStr, VStr _ | IsFun, VClo _ _ _
    | IsArr, VArr _ | IsRec, VRec _ _ => true
    | _, _ => false
    end.

  Definition z_to_string (z : Z) : string := NilZero.string_of_int (Z.to_int z).

  (* [v] is already in weak head normal form and is not a seal *)
  Definition op1_sem (o : op1) (v : val) : outcome val :=
    match o with
    | IsNum | IsBool | IsStr | IsFun | IsArr | IsRec => Ok (VBool (is_kind o v))
    | Not => match v with VBool b => Ok (VBool (negb b)) | _ => Err TypeErr end
    | Length => match v with VArr es => Ok (VNum (Z.of_nat (List.length es))) | _ => Err TypeErr end
    | Fields =>
        match v with
        | VRec fs _ => Ok (VArr (map (fun x => Th [] (Str x)) (sort_strings (map fst fs))))
        | _ => Err TypeErr
        end
    | Freeze =>
        match v with
        | VRec fs RNone => Ok v
        | VRec _ (RSeal _ _ _ _) => Err TailAccess
        | _ => Err TypeErr
        end
    | ToStr =>
        match v with
        | VStr s => Ok (VStr s)
        | VNum z => Ok (VStr (z_to_string z))
        | VBool b => Ok (VStr (if b then "true" else "false"))
        | _ => Err TypeErr
        end
    | GetF x =>
        match v with
        | VRec fs t =>
            match lookup x fs with
            | Some th => ev th
            | None => if tail_has x t then Err TailAccess else Err FieldMissing
            end
        | _ => Err TypeErr
        end
    | Remove x =>
        match v with
        | VRec fs t =>
            if mem x fs then Ok (VRec (remove_field x fs) t)
            else if tail_has x t then Err TailAccess else Err FieldMissing
        | _ => Err TypeErr
        end
    | HasField x =>
        match v with VRec fs _ => Ok (VBool (mem x fs)) | _ => Err TypeErr end
    end.

  Definition op2_sem (m : nat) (o : op2) (v1 v2 : val) : outcome val :=
    match o with
    | Add => match v1, v2 with VNum a, VNum b => Ok (VNum (a + b)) | _, _ => Err TypeErr end
    | Sub => match v1, v2 with VNum a, VNum b => Ok (VNum (a - b)) | _, _ => Err TypeErr end
    | Mul => match v1, v2 with VNum a, VNum b => Ok (VNum (a * b)) | _, _ => Err TypeErr end
    | OLt => match v1, v2 with VNum a, VNum b => Ok (VBool (Z.ltb a b)) | _, _ => Err TypeErr end
    | Cat => match v1, v2 with VStr a, VStr b => Ok (VStr (a ++ b)) | _, _ => Err TypeErr end
    | OEq => bind (eqv m v1 v2) (fun b => Ok (VBool b))
    | At =>
        match v1, v2 with
        | VArr es, VNum i =>
            if (Z.leb 0 i && Z.ltb i (Z.of_nat (List.length es)))%bool then
              match nth_error es (Z.to_nat i) with Some th => ev th | None => Err OtherErr end
            else Err OtherErr
        | _, _ => Err TypeErr
        end
    end.

  (* ---------------------------------------------------------------- contracts (internals.ncl) *)

  Definition wrap_elem (c : ctr) (l : lbl) (t : thunk) : thunk :=
    Th [("%e", t)] (Chk c l (Var "%e")).

  Definition blame (l : lbl) : outcome val := Err (Blame (lpol l)).

  (* $record_type field_contracts tail_wrapper has_tail label value *)
  Definition chk_record (cf : cfg) (fs : list (string * ctr)) (ct : ctail) (l : lbl) (v : val) : outcome val :=
    match v with
    | VRec vfs vt =>
        let missing := filter (fun '(x, _) => negb (mem x vfs)) fs in
        let extra := filter (fun '(x, _) => negb (mem x fs)) vfs in
        let center :=
          flat_map (fun '(x, t) => match lookup x fs with
                                   | Some c => [(x, wrap_elem c l t)]
                                   | None => []
                                   end) vfs in
        match missing with
        | _ :: _ => blame l
        | [] =>
            match ct with
            | CTEmpty =>
                (* `split_result.right_only != {} && !has_tail`: right_only carries the sealed tail of the
                   checked value, and == only treats a record as empty when it has no sealed tail *)
                match extra, vt with [], RNone => Ok (VRec center RNone) | _, _ => blame l end
            | CTDyn => Ok (VRec (extend_fields center extra) vt)      (* $dyn_tail: disjoint_merge *)
            | CTUnbound => Err Unbound
            | CTVar k excl =>                                          (* $forall_record_tail *)
                match lookup_tyvar k (ltenv l) with
                | None => Err Unbound
                | Some p =>
                    if Bool.eqb p (lpol l) then
                      match extra with
                      | _ :: _ => blame l
                      | [] =>
                          match vt with                               (* %record/unseal_tail% *)
                          | RSeal k' _ tfs vt' =>
                              if Nat.eqb k k' then Ok (VRec (extend_fields center tfs) vt') else blame l
                          | RNone => blame l
                          end
                      end
                    else
                      if existsb (fun '(x, _) => mem_str x excl) extra then blame l
                      else Ok (VRec center (RSeal k (flip l) extra vt))   (* %record/seal_tail% *)
                end
            end
        end
    | _ => blame l
    end.

  Fixpoint chk_with (cf : cfg) (c : ctr) (l : lbl) (th : thunk) {struct c} : outcome val :=
    match c with
    | CDyn => ev th
    | CNum => bind (guard (ev th)) (fun v => match v with VNum _ => Ok v | _ => blame l end)
    | CBool => bind (guard (ev th)) (fun v => match v with VBool _ => Ok v | _ => blame l end)
    | CStr => bind (guard (ev th)) (fun v => match v with VStr _ => Ok v | _ => blame l end)
    | CFun d c' =>
        bind (guard (ev th)) (fun v =>
          match v with
          | VClo _ _ _ =>
              let ld := if cf_flip_dom cf then flip l else l in
              Ok (VClo [("%f", th)] "%x" (Chk c' l (App (Var "%f") (Chk d ld (Var "%x")))))
          | _ => blame l
          end)
    | CArr c' =>
        bind (guard (ev th)) (fun v =>
          match v with
          | VArr es =>
              if cf_dedup cf && forallb (pending 8 c' l) es then Ok v
              else Ok (VArr (map (wrap_elem c' l) es))
          | _ => blame l
          end)
    | CRec fs ct => bind (guard (ev th)) (chk_record cf fs ct l)
    | CForall k c' => chk_with cf c' (insert_tyvar k (lpol l) l) th
    | CVar k =>
        match lookup_tyvar k (ltenv l) with
        | None => Err Unbound
        | Some p =>
            if Bool.eqb p (lpol l) then unseal k l th
            else Ok (VSealed k th (flip l))
        end
    | CUnbound => Err Unbound
    end.

  (* ---------------------------------------------------------------- one step of the evaluator *)

  Definition guard1 (cf : cfg) (o : op1) (r : outcome val) : outcome val :=
    match o with
    | IsNum | IsBool | IsStr | IsFun | IsArr | IsRec => if cf_guard_typeof cf then guard r else r
    | _ => guard r
    end.

  Definition step (cf : cfg) (m : nat) (r : env) (e : tm) : outcome val :=
    let here (e : tm) := ev (Th r e) in
    match e with
    | Var x => match lookup x r with Some th => ev th | None => Err Unbound end
    | Lam x b => Ok (VClo r x b)
    | App f a =>
        bind (guard (here f)) (fun v =>
          match v with
          | VClo r' x b => ev (Th ((x, Th r a) :: r') b)
          | _ => Err NotAFunc
          end)
    | Let x e1 b => ev (Th ((x, Th r e1) :: r) b)
    | Num n => Ok (VNum n)
    | Bool b => Ok (VBool b)
    | Str s => Ok (VStr s)
    | If c t e' =>
        bind (guard (here c)) (fun v =>
          match v with
          | VBool true => here t
          | VBool false => here e'
          | _ => Err TypeErr
          end)
    | Op1 o a => bind (guard1 cf o (here a)) (op1_sem o)
    | Op2 o a b =>
        bind (guard (here a)) (fun v1 =>
        bind (guard (here b)) (fun v2 => op2_sem m o v1 v2))
    | Arr es => Ok (VArr (map (Th r) es))
    | ArrMap f a =>
        bind (guard (here a)) (fun v =>
          match v with
          | VArr es =>
              Ok (VArr (map (fun t => Th [("%f", Th r f); ("%e", t)] (App (Var "%f") (Var "%e"))) es))
          | _ => Err TypeErr
          end)
    | RecLit fs => Ok (VRec (map (fun '(x, e) => (x, Th r e)) fs) RNone)
    | Insert x rc v =>
        bind (guard (here rc)) (fun w =>
          match w with
          | VRec fs t => if mem x fs then Err OtherErr else Ok (VRec (fs ++ [(x, Th r v)])%list t)
          | _ => Err TypeErr
          end)
    | RecMap f rc =>
        bind (guard (here rc)) (fun w =>
          match w with
          | VRec fs RNone =>
              Ok (VRec (map (fun '(x, t) =>
                              (x, Th [("%f", Th r f); ("%e", t)] (App (App (Var "%f") (Str x)) (Var "%e")))) fs)
                       RNone)
          | VRec _ (RSeal _ _ _ _) => Err TailAccess
          | _ => Err TypeErr
          end)
    | Seq a b => bind (seqforce m (Th r a)) (fun _ => here b)
    | Ann t e' => chk_with cf (contract_of t) lbl0 (Th r e')
    | Chk c l e' => chk_with cf c l (Th r e')
    | SealT k l e' => Ok (VSealed k (Th r e') l)
    | Unseal k l e' => unseal k l (Th r e')
    end.
End WithEv.

Fixpoint eval (cf : cfg) (n : nat) (r : env) (e : tm) {struct n} : outcome val :=
  match n with
  | O => OutOfFuel
  | S n' => step (fun th => match th with Th r' e' => eval cf n' r' e' end) cf n' r e
  end.

Definition force (cf : cfg) (n : nat) (th : thunk) : outcome val :=
  match th with Th r e => eval cf n r e end.

(* ------------------------------------------------------------------ export (eval_full + printing) *)

Inductive data :=
| DNum (n : Z) | DBool (b : bool) | DStr (s : string)
| DArr (l : list data) | DRec (l : list (string * data)) | DFun.

(* UnaryOp::Force: not `seq`, so a seal anywhere in the result is blamed *)
Definition deep_list (ev : thunk -> outcome val) (dp : val -> outcome data) : list thunk -> outcome (list data) :=
  fix go (ts : list thunk) : outcome (list data) :=
    match ts with
    | [] => Ok []
    | t :: ts' =>
        bind (guard (ev t)) (fun v =>
        bind (dp v) (fun d =>
        bind (go ts') (fun ds => Ok (d :: ds))))
    end.

Fixpoint deep (ev : thunk -> outcome val) (m : nat) (v : val) {struct m} : outcome data :=
  match m with
  | O => OutOfFuel
  | S m' =>
      match v with
      | VNum n => Ok (DNum n)
      | VBool b => Ok (DBool b)
      | VStr s => Ok (DStr s)
      | VClo _ _ _ => Ok DFun
      (* operation.rs Force: `terms.fold(cont, |acc, t| seq t acc)` puts the last element outermost, so the
         elements are forced from right to left *)
      | VArr ts => bind (deep_list ev (deep ev m') (rev ts)) (fun ds => Ok (DArr (rev ds)))
      | VRec fs _ =>
          bind (deep_list ev (deep ev m') (rev (map snd fs))) (fun ds => Ok (DRec (combine (map fst fs) (rev ds))))
      | VSealed _ _ l => Err (Blame (lpol l))
      end
  end.

Definition run_data (cf : cfg) (n : nat) (e : tm) : outcome data :=
  bind (guard (eval cf n [] e)) (deep (force cf n) n).

(* the format of harness/src/eval.rs show_value (export mode): numbers as #n, record keys sorted *)
Fixpoint insert_entry (x : string) (s : string) (l : list (string * string)) : list (string * string) :=
  match l with
  | [] => [(x, s)]
  | (y, t) :: l' => if String.leb x y then (x, s) :: l else (y, t) :: insert_entry x s l'
  end.

Fixpoint show_data (d : data) : option string :=
  let all :=
    fix go (l : list data) : option (list string) :=
      match l with
      | [] => Some []
      | d :: l' => match show_data d, go l' with Some s, Some ss => Some (s :: ss) | _, _ => None end
      end in
  match d with
  | DNum n => Some ("#" ++ z_to_string n)
  | DBool b => Some (if b then "true" else "false")
  | DStr s => Some ("""" ++ s ++ """")
  | DFun => None
  | DArr l => match all l with Some ss => Some ("[" ++ String.concat "," ss ++ "]") | None => None end
  | DRec l =>
      let allr :=
        fix go (l : list (string * data)) : option (list (string * string)) :=
          match l with
          | [] => Some []
          | (x, d) :: l' => match show_data d, go l' with Some s, Some ss => Some ((x, s) :: ss) | _, _ => None end
          end in
      match allr l with
      | Some xs =>
          let entries := fold_right (fun '(x, s) acc => insert_entry x s acc) [] xs in
          Some ("{" ++ String.concat "," (map (fun '(x, s) => """" ++ x ++ """:" ++ s) entries) ++ "}")
      | None => None
      end
  end.

Definition show_err (e : err) : string :=
  match e with
  | Blame true => "Blame+" | Blame false => "Blame-"
  | TailAccess => "TailAccess" | TypeErr => "TypeErr" | NotAFunc => "NotAFunc"
  | FieldMissing => "FieldMissing" | OtherErr => "OtherErr" | Incomparable => "Incomparable"
  | Unbound => "UnboundId" | NotExportable => "NotExportable"
  end.

(* one line in the format of nkeval *)
Definition run_line (cf : cfg) (n : nat) (e : tm) : string :=
  match run_data cf n e with
  | Ok d => match show_data d with Some s => "OK " ++ s | None => "ERR NotExportable" end
  | Err e => "ERR " ++ show_err e
  | OutOfFuel => "ERR Budget"
  end.
