(* C11 / T2 — sealing keys of one generated contract: every `forall` of a type (without let-bound
   aliases) gets its own key, nested and higher-rank quantifiers included; together with
   [Guard.unseal_other_key_blames] this is what keeps nested quantifiers apart.  Across contracts the
   keys are NOT distinct (Variants.cross_contract_keys_refuted). *)
From Coq Require Import List String ZArith Bool Lia.
From NV Require Import Seal.Syntax.
Import ListNotations.
Open Scope string_scope.
Open Scope list_scope.

Fixpoint alias_free (t : ty) : Prop :=
  match t with
  | TAlias _ => False
  | TArrow a b => alias_free a /\ alias_free b
  | TArr t => alias_free t
  | TRec fs _ =>
      (fix go (fs : list (string * ty)) : Prop :=
         match fs with [] => True | (_, t) :: fs' => alias_free t /\ go fs' end) fs
  | TForall _ _ b => alias_free b
  | _ => True
  end.

(* keys of the `$forall` nodes of a contract *)
Fixpoint fkeys (c : ctr) : list nat :=
  match c with
  | CForall k c' => k :: fkeys c'
  | CFun d c' => fkeys d ++ fkeys c'
  | CArr c' => fkeys c'
  | CRec fs _ =>
      (fix go (fs : list (string * ctr)) : list nat :=
         match fs with [] => [] | (_, c) :: fs' => fkeys c ++ go fs' end) fs
  | _ => []
  end.

Definition keys_in (c : ctr) (lo hi : nat) : Prop :=
  lo <= hi /\ (forall k, In k (fkeys c) -> lo <= k < hi) /\ NoDup (fkeys c).

Lemma nodup_app_ranges :
  forall (a b : list nat) lo mid hi,
    NoDup a -> NoDup b -> (forall k, In k a -> lo <= k < mid) -> (forall k, In k b -> mid <= k < hi) ->
    NoDup (a ++ b).
Proof.
  induction a as [|x a IH]; intros b lo mid hi Ha Hb Hra Hrb; simpl; [exact Hb|].
  inversion Ha; subst. constructor.
  - intro Hin. apply in_app_or in Hin. destruct Hin as [Hin|Hin]; [contradiction|].
    specialize (Hra x (or_introl eq_refl)). specialize (Hrb x Hin). lia.
  - eapply IH; eauto. intros k Hk. apply Hra. right. exact Hk.
Qed.

Section TyInd.
  Variable P : ty -> Prop.
  Hypothesis HDyn : P TDyn. Hypothesis HNum : P TNum. Hypothesis HBool : P TBool. Hypothesis HStr : P TStr.
  Hypothesis HArrow : forall a b, P a -> P b -> P (TArrow a b).
  Hypothesis HArr : forall t, P t -> P (TArr t).
  Hypothesis HRec : forall fs tl, Forall (fun p => P (snd p)) fs -> P (TRec fs tl).
  Hypothesis HForall : forall x k b, P b -> P (TForall x k b).
  Hypothesis HVar : forall x, P (TVar x).
  Hypothesis HAlias : forall t, P t -> P (TAlias t).

  Fixpoint ty_ind' (t : ty) : P t :=
    match t with
    | TDyn => HDyn | TNum => HNum | TBool => HBool | TStr => HStr
    | TArrow a b => HArrow a b (ty_ind' a) (ty_ind' b)
    | TArr t => HArr t (ty_ind' t)
    | TRec fs tl =>
        HRec fs tl
          ((fix go (fs : list (string * ty)) : Forall (fun p => P (snd p)) fs :=
              match fs with
              | [] => Forall_nil _
              | p :: fs' => Forall_cons p (ty_ind' (snd p)) (go fs')
              end) fs)
    | TForall x k b => HForall x k b (ty_ind' b)
    | TVar x => HVar x
    | TAlias t => HAlias t (ty_ind' t)
    end.
End TyInd.

Theorem compile_keys_distinct :
  forall t vars sy, alias_free t ->
    keys_in (fst (compile vars sy t)) sy (snd (compile vars sy t)).
Proof.
  induction t as [ | | | | t1 t2 IHt1 IHt2 | t IHt | fs tl H | x k t IHt | x | t IHt ] using ty_ind';
    intros vars sy Haf; unfold keys_in; cbn [compile fst snd fkeys];
    try (split; [lia | split; [intros k0 Hk0; destruct Hk0 | constructor]]).
  - (* arrow *)
    destruct Haf as [Ha Hb].
    specialize (IHt1 vars sy Ha). destruct (compile vars sy t1) as [ca sy1] eqn:E1. cbn [fst snd] in IHt1.
    specialize (IHt2 vars sy1 Hb). destruct (compile vars sy1 t2) as [cb sy2] eqn:E2. cbn [fst snd] in *.
    destruct IHt1 as [L1 [R1 N1]]. destruct IHt2 as [L2 [R2 N2]].
    split; [lia|]. split.
    + intros k0 Hk0. apply in_app_or in Hk0. destruct Hk0 as [Hk0|Hk0]; [apply R1 in Hk0|apply R2 in Hk0]; lia.
    + eapply nodup_app_ranges; eauto.
  - (* array *)
    specialize (IHt vars sy Haf). destruct (compile vars sy t) as [c sy1] eqn:E. cbn [fst snd fkeys] in *.
    exact IHt.
  - (* record *)
    cbn [alias_free] in Haf.
    assert (Hgo : forall sy0,
      (fix go (fs : list (string * ty)) : Prop :=
         match fs with [] => True | (_, t) :: fs' => alias_free t /\ go fs' end) fs ->
      let r := (fix go (fs : list (string * ty)) (sy : nat) : list (string * ctr) * nat :=
                  match fs with
                  | [] => ([], sy)
                  | (l, t) :: fs' =>
                      let '(c, sy1) := compile vars sy t in
                      let '(cs, sy2) := go fs' sy1 in
                      ((l, c) :: cs, sy2)
                  end) fs sy0 in
      let ks := (fix go (fs : list (string * ctr)) : list nat :=
                   match fs with [] => [] | (_, c) :: fs' => fkeys c ++ go fs' end) (fst r) in
      sy0 <= snd r /\ (forall k, In k ks -> sy0 <= k < snd r) /\ NoDup ks).
    { clear Haf. induction H as [|[l t] fs Ht Hfs IH]; intros sy0 Haf; cbn.
      - split; [lia|]. split; [intros k0 Hk0; destruct Hk0 | constructor].
      - destruct Haf as [Ha Hrest]. cbn [snd] in Ht.
        specialize (Ht vars sy0 Ha). destruct (compile vars sy0 t) as [c sy1] eqn:E1. cbn [fst snd] in Ht.
        specialize (IH sy1 Hrest). cbn in IH.
        destruct ((fix go (fs : list (string * ty)) (sy : nat) : list (string * ctr) * nat :=
                  match fs with
                  | [] => ([], sy)
                  | (l, t) :: fs' =>
                      let '(c, sy1) := compile vars sy t in
                      let '(cs, sy2) := go fs' sy1 in
                      ((l, c) :: cs, sy2)
                  end) fs sy1) as [cs sy2] eqn:E2.
        cbn [fst snd] in *. destruct Ht as [L1 [R1 N1]]. destruct IH as [L2 [R2 N2]].
        split; [lia|]. split.
        + intros k0 Hk0. apply in_app_or in Hk0. destruct Hk0 as [Hk0|Hk0]; [apply R1 in Hk0|apply R2 in Hk0]; lia.
        + eapply nodup_app_ranges; eauto. }
    specialize (Hgo sy Haf). cbn in Hgo.
    destruct ((fix go (fs : list (string * ty)) (sy : nat) : list (string * ctr) * nat :=
                  match fs with
                  | [] => ([], sy)
                  | (l, t) :: fs' =>
                      let '(c, sy1) := compile vars sy t in
                      let '(cs, sy2) := go fs' sy1 in
                      ((l, c) :: cs, sy2)
                  end) fs sy) as [cs sy2] eqn:E2.
    cbn [fst snd fkeys] in *. exact Hgo.
  - (* forall *)
    cbn [alias_free] in Haf.
    match goal with |- context [compile ?vs (S sy) t] => specialize (IHt vs (S sy) Haf);
      destruct (compile vs (S sy) t) as [c sy1] eqn:E end.
    cbn [fst snd fkeys] in *. destruct IHt as [L [R N]].
    split; [lia|]. split.
    + intros k0 Hk0. destruct Hk0 as [Hk0|Hk0]; [subst; lia| apply R in Hk0; lia].
    + constructor; [|exact N]. intro Hin. apply R in Hin. lia.
  - (* var *)
    destruct (lookup x vars) as [[k1|k1 ex]|]; cbn; (split; [lia|]; split; [intros k0 Hk0; destruct Hk0 | constructor]).
  - (* alias *) contradiction.
Qed.

(* two different quantifiers of one (alias-free) type never share a key *)
Corollary nested_foralls_have_distinct_keys :
  forall t, alias_free t -> NoDup (fkeys (contract_of t)).
Proof.
  intros t Haf. pose proof (compile_keys_distinct t [] 0 Haf) as [_ [_ H]]. exact H.
Qed.

Example higher_rank_keys :
  fkeys (contract_of (TForall "a" KType (TArrow (TForall "b" KType (TArrow (TVar "b") (TVar "a")))
                                                (TForall "c" KType (TArrow (TVar "c") (TVar "a"))))))
  = [0; 1; 2].
Proof. reflexivity. Qed.

(* a let-bound alias restarts the numbering: its keys collide with the enclosing type's *)
Example alias_restarts_keys :
  fkeys (contract_of (TForall "a" KType (TArrow (TVar "a") (TAlias (TForall "b" KType (TArrow TDyn (TVar "b")))))))
  = [0; 0].
Proof. reflexivity. Qed.
