(* C11 — syntax of the sealing model.

   A small untyped lazy language with the run-time sealing machinery of Nickel's polymorphic
   contracts.  Source programs are [tm]s without [Chk]/[SealT]/[Unseal] (those are produced by
   contract application only); [ty] is the fragment of Nickel types whose contracts are modelled,
   [ctr] is the contract *as generated* by core/src/typ.rs ([subcontract]): every `forall` has been
   given its sealing key.

   Definitions only (no proofs) so that extraction works even when a proof breaks. *)
From Coq Require Import List String ZArith Bool.
Import ListNotations.
Open Scope string_scope.

(* ------------------------------------------------------------------ labels *)

(* core/src/label.rs: what the sealing machinery reads from a label is its polarity and the
   [type_environment] (sealing key -> polarity at which the forall was entered).  [true] = Positive. *)
Record lbl := MkLbl { lpol : bool; ltenv : list (nat * bool) }.

Definition lbl0 : lbl := MkLbl true [].
Definition flip (l : lbl) : lbl := MkLbl (negb (lpol l)) (ltenv l).

(* %label/insert_type_variable% key pol label *)
Definition insert_tyvar (k : nat) (p : bool) (l : lbl) : lbl := MkLbl (lpol l) ((k, p) :: ltenv l).

(* %label/lookup_type_variable%: label.rs iterates the environment in reverse insertion order and takes
   the first binding of the key, i.e. the latest inserted one.  We cons on insertion. *)
Fixpoint lookup_tyvar (k : nat) (e : list (nat * bool)) : option bool :=
  match e with
  | [] => None
  | (k', p) :: e' => if Nat.eqb k k' then Some p else lookup_tyvar k e'
  end.

(* ------------------------------------------------------------------ types and contracts *)

Inductive ttail := TlEmpty | TlDyn | TlVar (x : string).

Inductive vkind := KType | KRow.

Inductive ty :=
| TDyn | TNum | TBool | TStr
| TArrow (a b : ty)
| TArr (t : ty)
| TRec (fs : list (string * ty)) (tl : ttail)
| TForall (x : string) (k : vkind) (b : ty)
| TVar (x : string)
| TAlias (t : ty).   (* a closed type bound by `let C = <type> in` and used as `C`: typ.rs turns the
                        type *value* into a contract on its own ([Type::contract], sy restarts at 0) *)

Inductive ctail := CTEmpty | CTDyn | CTVar (k : nat) (excl : list string) | CTUnbound.

Inductive ctr :=
| CDyn | CNum | CBool | CStr
| CFun (d c : ctr)
| CArr (c : ctr)
| CRec (fs : list (string * ctr)) (t : ctail)
| CForall (k : nat) (c : ctr)        (* $forall key _ C *)
| CVar (k : nat)                     (* $forall_var key *)
| CUnbound.                          (* unbound type variable: typ.rs returns UnboundTypeVariableError *)

(* ------------------------------------------------------------------ terms *)

Inductive op1 :=
| IsNum | IsBool | IsStr | IsFun | IsArr | IsRec      (* %typeof% e == 'X *)
| Not | Length | Fields | Freeze | ToStr              (* ToStr: "%{e}" *)
| GetF (l : string) | Remove (l : string) | HasField (l : string).

Inductive op2 := Add | Sub | Mul | OEq | OLt | Cat | At.

Inductive tm :=
| Var (x : string)
| Lam (x : string) (b : tm)
| App (f a : tm)
| Let (x : string) (e b : tm)
| Num (n : Z) | Bool (b : bool) | Str (s : string)
| If (c t e : tm)
| Op1 (o : op1) (a : tm)
| Op2 (o : op2) (a b : tm)
| Arr (es : list tm)
| ArrMap (f a : tm)                  (* %array/map% a f *)
| RecLit (fs : list (string * tm))
| Insert (l : string) (r v : tm)     (* %record/insert% "l" r v *)
| RecMap (f r : tm)                  (* %record/map% r f *)
| Seq (a b : tm)                     (* %seq% a b *)
| Ann (t : ty) (e : tm)              (* (e | t) *)
(* produced at run time only *)
| Chk (c : ctr) (l : lbl) (e : tm)   (* %contract/apply% c l e *)
| SealT (k : nat) (l : lbl) (e : tm) (* %seal% k l e *)
| Unseal (k : nat) (l : lbl) (e : tm)(* %unseal% k e (%blame% l) *).

(* ------------------------------------------------------------------ run-time values *)

(* Call-by-name: a variable is bound to a suspended computation.  Nickel memoises thunks; the language
   is pure, so re-evaluation gives the same outcome. *)
Inductive val :=
| VNum (n : Z) | VBool (b : bool) | VStr (s : string)
| VClo (r : list (string * thunk)) (x : string) (b : tm)
| VArr (es : list thunk)
| VRec (fs : list (string * thunk)) (t : rtl)
| VSealed (k : nat) (t : thunk) (l : lbl)        (* Term::Sealed(key, inner, label) *)
with thunk := Th (r : list (string * thunk)) (e : tm)
(* record.sealed_tail: key, label, the sealed record (its fields and, since right_only of
   %record/split_pair% keeps the tail of the checked value, its own sealed tail) *)
with rtl := RNone | RSeal (k : nat) (l : lbl) (fs : list (string * thunk)) (t : rtl).

Definition env := list (string * thunk).

Inductive err :=
| Blame (pos : bool)
| TailAccess
| TypeErr | NotAFunc | FieldMissing | OtherErr | Incomparable | Unbound | NotExportable.

Inductive outcome (A : Type) :=
| Ok (a : A)
| Err (e : err)
| OutOfFuel.
Arguments Ok {A} a.
Arguments Err {A} e.
Arguments OutOfFuel {A}.

(* ------------------------------------------------------------------ contract generation (typ.rs) *)

Fixpoint lookup {A} (x : string) (l : list (string * A)) : option A :=
  match l with
  | [] => None
  | (y, a) :: l' => if String.eqb x y then Some a else lookup x l'
  end.

Definition mem {A} (x : string) (l : list (string * A)) : bool :=
  match lookup x l with Some _ => true | None => false end.

Fixpoint mem_str (x : string) (l : list string) : bool :=
  match l with [] => false | y :: l' => if String.eqb x y then true else mem_str x l' end.

(* The parser gives a row variable the set of fields it must not contain: every field of every record
   type in the scope of the forall whose tail is that variable (parser: fix_type_vars / VarKind::RecordRows). *)
Fixpoint excluded_of (x : string) (t : ty) : list string :=
  match t with
  | TDyn | TNum | TBool | TStr | TVar _ => []
  | TArrow a b => (excluded_of x a ++ excluded_of x b)%list
  | TArr t => excluded_of x t
  | TRec fs tl =>
      ((fix go (fs : list (string * ty)) : list string :=
          match fs with [] => [] | (_, t) :: fs' => (excluded_of x t ++ go fs')%list end) fs
       ++ (match tl with TlVar y => if String.eqb x y then map fst fs else [] | _ => [] end))%list
  | TForall y _ b => if String.eqb x y then [] else excluded_of x b
  | TAlias _ => []
  end.

Inductive varctr := VCType (k : nat) | VCRow (k : nat) (excl : list string).

(* [compile vars sy t] = (contract, next sy).  Mirrors Type::subcontract / RecordRows::subcontract:
   - a forall takes the current [sy] as its key and increments it;
   - arrows compile the domain first, then the codomain; record rows in source order;
   - polarity is not needed: after commit 4ff2ab7 `$forall` records the label's run-time polarity. *)
Fixpoint compile (vars : list (string * varctr)) (sy : nat) (t : ty) {struct t} : ctr * nat :=
  match t with
  | TDyn => (CDyn, sy) | TNum => (CNum, sy) | TBool => (CBool, sy) | TStr => (CStr, sy)
  | TArrow a b =>
      let '(ca, sy1) := compile vars sy a in
      let '(cb, sy2) := compile vars sy1 b in
      (CFun ca cb, sy2)
  | TArr t => let '(c, sy1) := compile vars sy t in (CArr c, sy1)
  | TRec fs tl =>
      let '(cfs, sy1) :=
        (fix go (fs : list (string * ty)) (sy : nat) : list (string * ctr) * nat :=
           match fs with
           | [] => ([], sy)
           | (l, t) :: fs' =>
               let '(c, sy1) := compile vars sy t in
               let '(cs, sy2) := go fs' sy1 in
               ((l, c) :: cs, sy2)
           end) fs sy in
      let ct := match tl with
                | TlEmpty => CTEmpty
                | TlDyn => CTDyn
                | TlVar x => match lookup x vars with
                             | Some (VCRow k ex) => CTVar k ex
                             | _ => CTUnbound
                             end
                end in
      (CRec cfs ct, sy1)
  | TForall x kd b =>
      let vc := match kd with KType => VCType sy | KRow => VCRow sy (excluded_of x b) end in
      let '(c, sy1) := compile ((x, vc) :: vars) (S sy) b in
      (CForall sy c, sy1)
  | TVar x => (match lookup x vars with Some (VCType k) => CVar k | _ => CUnbound end, sy)
  | TAlias t => (fst (compile [] 0 t), sy)
  end.

Definition contract_of (t : ty) : ctr := fst (compile [] 0 t).
