(* C11 — deliberately unsound variants of the model and the two known key-freshness findings, each with
   a concrete witness ([_refuted] lemmas).  The witnesses are replayed on the real interpreter by
   checks/c11.py (corpus/C11/basics.case). *)
From Coq Require Import List String ZArith Bool.
From NV Require Import Seal.Syntax Seal.Eval.
Import ListNotations.
Open Scope string_scope.

Definition idT : ty := TForall "a" KType (TArrow (TVar "a") (TVar "a")).
Definition prog_id : tm := App (Ann idT (Lam "x" (Var "x"))) (Num 1).
Definition prog_typeof : tm :=
  App (Ann (TForall "a" KType (TArrow (TVar "a") TDyn)) (Lam "x" (Op1 IsNum (Var "x")))) (Num 1).

(* what a parametricity-enforcing semantics must satisfy on these two programs *)
Definition enforces (cf : cfg) : Prop :=
  (forall n, 12 <= n -> eval cf n [] prog_id = Ok (VNum 1))
  /\ (forall n, 12 <= n -> exists p, eval cf n [] prog_typeof = Err (Blame p)).

(* variant 1: `$func` does not flip the polarity of the domain label -> the identity is blamed *)
Lemma noflip_variant_refuted : ~ enforces (MkCfg false true).
Proof.
  intros [H _]. specialize (H 12 (le_n 12)). vm_compute in H. discriminate.
Qed.

(* variant 2: the typeof-like primops are not stopped by a seal -> an inspecting function is not blamed *)
Lemma seethrough_variant_refuted : ~ enforces (MkCfg true false).
Proof.
  intros [_ H]. destruct (H 12 (le_n 12)) as [p Hp]. vm_compute in Hp. discriminate.
Qed.

Lemma real_model_on_witnesses :
  eval cfg_real 12 [] prog_id = Ok (VNum 1) /\ eval cfg_real 12 [] prog_typeof = Err (Blame true).
Proof. split; reflexivity. Qed.

(* ------------------------------------------------------------------ known findings (faithful model) *)

(* typ.rs numbers sealing keys from 0 for every generated contract: an unrelated contract
   `forall b. Dyn -> b` unseals what `forall a. a -> Number` sealed, and the function inspects its
   argument without anybody being blamed. *)
Definition launder : tm :=
  App (Ann (TForall "a" KType (TArrow (TVar "a") TNum))
         (Lam "x" (Op2 Add
                     (App (Ann (TForall "b" KType (TArrow TDyn (TVar "b"))) (Lam "y" (Var "y"))) (Var "x"))
                     (Num 1))))
      (Num 1).

Definition blamed_outcome (r : outcome val) : Prop := exists p, r = Err (Blame p).

Lemma cross_contract_keys_refuted :
  eval cfg_real 30 [] launder = Ok (VNum 2) /\ ~ blamed_outcome (eval cfg_real 30 [] launder).
Proof.
  split; [reflexivity|]. intros [p Hp]. vm_compute in Hp. discriminate.
Qed.

(* keys are per contract, not per instantiation: the second call of the same contracted function unseals
   what the first call sealed; the function returns a `Dyn` where an `a` is expected and is not blamed. *)
Definition two_calls : tm :=
  Let "f" (Ann (TForall "a" KType
                  (TArrow (TVar "a") (TArrow TDyn (TRec [("leak", TDyn); ("res", TVar "a")] TlEmpty))))
               (Lam "x" (Lam "d" (RecLit [("leak", Var "x"); ("res", Var "d")]))))
   (Let "r1" (App (App (Var "f") (Num 1)) (Num 0))
     (Let "r2" (App (App (Var "f") (Num 2)) (Op1 (GetF "leak") (Var "r1")))
        (Op1 (GetF "res") (Var "r2")))).

Lemma per_instantiation_keys_refuted :
  eval cfg_real 40 [] two_calls = Ok (VNum 1) /\ ~ blamed_outcome (eval cfg_real 40 [] two_calls).
Proof.
  split; [reflexivity|]. intros [p Hp]. vm_compute in Hp. discriminate.
Qed.

(* with distinct keys the laundering is blamed: same program, the inner contract compiled with key 1 *)
Definition launder_fresh : tm :=
  App (Ann (TForall "a" KType (TArrow (TVar "a") TNum))
         (Lam "x" (Op2 Add
                     (App (Chk (CForall 1 (CFun CDyn (CVar 1))) lbl0 (Lam "y" (Var "y"))) (Var "x"))
                     (Num 1))))
      (Num 1).

Lemma distinct_keys_blame_laundering : eval cfg_real 30 [] launder_fresh = Err (Blame true).
Proof. reflexivity. Qed.
