(* C11 — deliberately unsound variants of the model and the two known key-freshness findings, each with
   a concrete witness ([_refuted] lemmas).  The witnesses are replayed on the real interpreter by
   checks/c11.py (corpus/C11/basics.case). *)
From Coq Require Import List String ZArith Bool.
From NV Require Import Seal.Syntax Seal.Eval.
Import ListNotations.
Open Scope string_scope.

Definition idT : ty := TForall "a" KType (TArrow (TVar "a") (TVar "a")).
Definition prog_id : tm := App (Ann idT (Lam "x" (Var "x"))) (Num 1).
Definition prog_typeof : tm :=
  App (Ann (TForall "a" KType (TArrow (TVar "a") TDyn)) (Lam "x" (Op1 IsNum (Var "x")))) (Num 1).

(* what a parametricity-enforcing semantics must satisfy on these two programs *)
Definition enforces (cf : cfg) : Prop :=
  (forall n, 12 <= n -> eval cf n [] prog_id = Ok (VNum 1))
  /\ (forall n, 12 <= n -> exists p, eval cf n [] prog_typeof = Err (Blame p)).

(* variant 1: `$func` does not flip the polarity of the domain label -> the identity is blamed *)
Lemma noflip_variant_refuted : ~ enforces (MkCfg false true false).
Proof.
  intros [H _]. specialize (H 12 (le_n 12)). vm_compute in H. discriminate.
Qed.

(* variant 2: the typeof-like primops are not stopped by a seal -> an inspecting function is not blamed *)
Lemma seethrough_variant_refuted : ~ enforces (MkCfg true false false).
Proof.
  intros [_ H]. destruct (H 12 (le_n 12)) as [p Hp]. vm_compute in Hp. discriminate.
Qed.

Lemma real_model_on_witnesses :
  eval cfg_real 12 [] prog_id = Ok (VNum 1) /\ eval cfg_real 12 [] prog_typeof = Err (Blame true).
Proof. split; reflexivity. Qed.

(* ------------------------------------------------------------------ known findings (faithful model) *)

(* typ.rs numbers sealing keys from 0 for every generated contract: an unrelated contract
   `forall b. Dyn -> b` unseals what `forall a. a -> Number` sealed, and the function inspects its
   argument without anybody being blamed. *)
Definition launder : tm :=
  App (Ann (TForall "a" KType (TArrow (TVar "a") TNum))
         (Lam "x" (Op2 Add
                     (App (Ann (TForall "b" KType (TArrow TDyn (TVar "b"))) (Lam "y" (Var "y"))) (Var "x"))
                     (Num 1))))
      (Num 1).

Definition blamed_outcome (r : outcome val) : Prop := exists p, r = Err (Blame p).

Lemma cross_contract_keys_refuted :
  eval cfg_real 30 [] launder = Ok (VNum 2) /\ ~ blamed_outcome (eval cfg_real 30 [] launder).
Proof.
  split; [reflexivity|]. intros [p Hp]. vm_compute in Hp. discriminate.
Qed.

(* keys are per contract, not per instantiation: the second call of the same contracted function unseals
   what the first call sealed; the function returns a `Dyn` where an `a` is expected and is not blamed. *)
Definition two_calls : tm :=
  Let "f" (Ann (TForall "a" KType
                  (TArrow (TVar "a") (TArrow TDyn (TRec [("leak", TDyn); ("res", TVar "a")] TlEmpty))))
               (Lam "x" (Lam "d" (RecLit [("leak", Var "x"); ("res", Var "d")]))))
   (Let "r1" (App (App (Var "f") (Num 1)) (Num 0))
     (Let "r2" (App (App (Var "f") (Num 2)) (Op1 (GetF "leak") (Var "r1")))
        (Op1 (GetF "res") (Var "r2")))).

Lemma per_instantiation_keys_refuted :
  eval cfg_real 40 [] two_calls = Ok (VNum 1) /\ ~ blamed_outcome (eval cfg_real 40 [] two_calls).
Proof.
  split; [reflexivity|]. intros [p Hp]. vm_compute in Hp. discriminate.
Qed.

(* with distinct keys the laundering is blamed: same program, the inner contract compiled with key 1 *)
Definition launder_fresh : tm :=
  App (Ann (TForall "a" KType (TArrow (TVar "a") TNum))
         (Lam "x" (Op2 Add
                     (App (Chk (CForall 1 (CFun CDyn (CVar 1))) lbl0 (Lam "y" (Var "y"))) (Var "x"))
                     (Num 1))))
      (Num 1).

Lemma distinct_keys_blame_laundering : eval cfg_real 30 [] launder_fresh = Err (Blame true).
Proof. reflexivity. Qed.

(* ------------------------------------------------------------------ deduplication of sealing contracts *)

(* variant 3: an array contract that is the same occurrence as one already pending on the array is not
   applied again (RuntimeContract::push_dedup before 88c71d0 did this even for contracts with polymorphic
   parts).  A function applied to its own result then finds, on the second call, the seal of its domain
   dropped while the unseal of its codomain is still there: it sees plain elements. *)
Definition cfg_dedup : cfg := MkCfg true true true.

Definition arrT : ty := TForall "a" KType (TArrow TBool (TArrow (TArr (TVar "a")) (TArr (TVar "a")))).
Definition own_result : tm :=
  Let "f" (Ann arrT (Lam "b" (Lam "l" (If (Var "b") (Var "l")
                                    (Seq (Op2 Add (Op2 At (Var "l") (Num 0)) (Num 1)) (Var "l"))))))
      (App (App (Var "f") (Bool false)) (App (App (Var "f") (Bool true)) (Arr [Num 1; Num 2]))).

Lemma dedup_variant_refuted :
  run_line cfg_dedup 60 own_result = "OK [#1,#2]"      (* the inspection of an `a` goes unnoticed *)
  /\ run_line cfg_real 60 own_result = "ERR Blame+".
Proof. split; vm_compute; reflexivity. Qed.

(* why dropping is unsound: a sealing contract is not idempotent.  Applying the element contract of
   `Array a` (negative occurrence) twice seals twice — the content of the outer seal is again a seal — so
   that one unseal (the codomain occurrence) still leaves a sealed element. *)
Theorem array_contract_twice_seals_twice :
  forall n k l t p,
    lookup_tyvar k (ltenv l) = Some p -> p <> lpol l ->
    let once := wrap_elem (CVar k) l t in
    let twice := wrap_elem (CVar k) l once in
    force cfg_real (S n) twice = Ok (VSealed k (Th [("%e", once)] (Var "%e")) (flip l))
    /\ force cfg_real (S (S n)) (Th [("%e", once)] (Var "%e"))
       = Ok (VSealed k (Th [("%e", t)] (Var "%e")) (flip l)).
Proof.
  intros n k l t p Hk Hp.
  assert (Hne : Bool.eqb p (lpol l) = false).
  { destruct p, (lpol l); simpl; try reflexivity; exfalso; apply Hp; reflexivity. }
  assert (Hw : forall m u, force cfg_real (S m) (wrap_elem (CVar k) l u)
                           = Ok (VSealed k (Th [("%e", u)] (Var "%e")) (flip l))).
  { intros m u. unfold wrap_elem. cbn [force eval step chk_with]. rewrite Hk, Hne. reflexivity. }
  cbv zeta. split.
  - apply Hw.
  - cbn [force eval step lookup String.eqb Ascii.eqb Bool.eqb]. apply (Hw n t).
Qed.

(* and the array contract of the real model applies the element contract to every element, whatever is
   already pending *)
Lemma array_contract_always_applies :
  forall ev c l th es,
    ev th = Ok (VArr es) -> chk_with ev cfg_real (CArr c) l th = Ok (VArr (map (wrap_elem c l) es)).
Proof. intros ev c l th es H. cbn [chk_with]. rewrite H. reflexivity. Qed.
