(* C11 — [inspect_blames]: in the model, a sealed value reaching a strict position of any eliminator other
   than `unseal` with its own key or `seq` is blamed with the label stored in the seal. *)
From Coq Require Import List String ZArith Bool Lia.
From NV Require Import Seal.Syntax Seal.Eval.
Import ListNotations.
Open Scope string_scope.

(* ------------------------------------------------------------------ strict positions *)

Inductive frame :=
| FApp (a : tm)                      (* [.] a *)
| FIf (t e : tm)                     (* if [.] then t else e *)
| FOp1 (o : op1)                     (* typeof-like tests, !, length, fields, freeze, "%{[.]}", .l, remove, has_field *)
| FOp2L (o : op2) (b : tm)           (* [.] op b *)
| FOp2R (o : op2) (a : tm)           (* a op [.]   (reached when a evaluates to an unsealed value) *)
| FArrMap (f : tm)                   (* %array/map% [.] f *)
| FInsert (x : string) (v : tm)      (* %record/insert% x [.] v *)
| FRecMap (f : tm)                   (* %record/map% [.] f *)
| FChk (c : ctr) (l' : lbl).         (* a contract whose first action is %typeof% *)

Definition plug (F : frame) (e : tm) : tm :=
  match F with
  | FApp a => App e a
  | FIf t e' => If e t e'
  | FOp1 o => Op1 o e
  | FOp2L o b => Op2 o e b
  | FOp2R o a => Op2 o a e
  | FArrMap f => ArrMap f e
  | FInsert x v => Insert x e v
  | FRecMap f => RecMap f e
  | FChk c l' => Chk c l' e
  end.

Fixpoint head_strict (c : ctr) : Prop :=
  match c with
  | CNum | CBool | CStr | CFun _ _ | CArr _ | CRec _ _ => True
  | CForall _ c' => head_strict c'
  | CDyn | CVar _ | CUnbound => False
  end.

Definition unsealed (v : val) : Prop := match v with VSealed _ _ _ => False | _ => True end.

(* side condition of a frame: what has to be evaluated before the hole is reached *)
Definition frame_ok (F : frame) (n : nat) (r : env) : Prop :=
  match F with
  | FOp2R _ a => exists v, eval cfg_real n r a = Ok v /\ unsealed v
  | FChk c _ => head_strict c
  | _ => True
  end.

Lemma eval_S : forall cf n r e, eval cf (S n) r e = step (force cf n) cf n r e.
Proof. reflexivity. Qed.

Lemma force_Th : forall cf n r e, force cf n (Th r e) = eval cf n r e.
Proof. reflexivity. Qed.

Lemma guard_unsealed : forall v, unsealed v -> guard (Ok v) = Ok v.
Proof. intros v H. destruct v; simpl in *; try reflexivity. contradiction. Qed.

Lemma chk_head_strict_sealed :
  forall ev cf c l' th k t l,
    head_strict c -> ev th = Ok (VSealed k t l) ->
    chk_with ev cf c l' th = Err (Blame (lpol l)).
Proof.
  intros ev cf c. induction c; intros l' th k0 t0 l0 Hs Hev; simpl in Hs; try contradiction;
    try (simpl; rewrite Hev; reflexivity).
  simpl. eapply IHc; eauto.
Qed.

Theorem inspect_blames :
  forall n r e k t l F,
    eval cfg_real n r e = Ok (VSealed k t l) ->
    frame_ok F n r ->
    eval cfg_real (S n) r (plug F e) = Err (Blame (lpol l)).
Proof.
  intros n r e k t l F He Hok.
  destruct F; cbn [plug]; rewrite eval_S; cbn [step bind force]; try (rewrite He; reflexivity).
  - (* FOp1 *) rewrite He. destruct o; reflexivity.
  - (* FOp2R *) destruct Hok as [v [Ha Hu]]. rewrite Ha. rewrite (guard_unsealed v Hu). cbn [bind].
    rewrite He. reflexivity.
  - (* FChk *) cbn in Hok. eapply chk_head_strict_sealed; eauto.
Qed.

(* `unseal` with another key, or applied to something that is not sealed: the unseal's own label is blamed *)
Theorem unseal_other_key_blames :
  forall n r e k k' t l l',
    eval cfg_real n r e = Ok (VSealed k t l) -> k' <> k ->
    eval cfg_real (S n) r (Unseal k' l' e) = Err (Blame (lpol l')).
Proof.
  intros. rewrite eval_S. cbn [step]. unfold unseal. cbn [force]. cbv beta iota. rewrite H. apply Nat.eqb_neq in H0. rewrite H0. reflexivity.
Qed.

Theorem unseal_unsealed_blames :
  forall n r e v k' l',
    eval cfg_real n r e = Ok v -> unsealed v ->
    eval cfg_real (S n) r (Unseal k' l' e) = Err (Blame (lpol l')).
Proof.
  intros. rewrite eval_S. cbn [step]. unfold unseal. cbn [force]. cbv beta iota. rewrite H. destruct v; simpl in H0; try reflexivity. contradiction.
Qed.

(* the two continuations that may look at a seal *)
Theorem unseal_right_key :
  forall n r e k t l l',
    eval cfg_real n r e = Ok (VSealed k t l) ->
    eval cfg_real (S n) r (Unseal k l' e) = force cfg_real n t.
Proof.
  intros. rewrite eval_S. cbn [step]. unfold unseal. cbn [force]. cbv beta iota. rewrite H. rewrite Nat.eqb_refl. destruct t. reflexivity.
Qed.

Theorem seq_sees_through :
  forall n r a b k t l v,
    eval cfg_real (S (S n)) r a = Ok (VSealed k t l) ->
    force cfg_real (S (S n)) t = Ok v -> unsealed v ->
    eval cfg_real (S (S (S n))) r (Seq a b) = eval cfg_real (S (S n)) r b.
Proof.
  intros n r a b k t l v Ha Ht Hu.
  rewrite eval_S. cbn [step bind seqforce force]. rewrite Ha. rewrite Ht.
  destruct v; simpl in Hu; try contradiction; reflexivity.
Qed.

(* export (UnaryOp::Force) blames a seal anywhere in the result *)
Theorem export_sealed_blames :
  forall ev m k t l, deep ev (S m) (VSealed k t l) = Err (Blame (lpol l)).
Proof. reflexivity. Qed.

(* elements are forced from right to left *)
Theorem export_sealed_element_blames :
  forall ev m th ts k t l,
    ev th = Ok (VSealed k t l) ->
    deep ev (S m) (VArr (ts ++ [th])) = Err (Blame (lpol l)).
Proof. intros. cbn [deep]. rewrite rev_unit. cbn [deep_list bind]. rewrite H. reflexivity. Qed.

(* ------------------------------------------------------------------ at the level of contracts *)

(* contracts that evaluate the checked term first and pass its errors on *)
Fixpoint propagating (c : ctr) (l : lbl) : Prop :=
  match c with
  | CDyn | CNum | CBool | CStr | CFun _ _ | CArr _ | CRec _ _ => True
  | CForall k c' => propagating c' (insert_tyvar k (lpol l) l)
  | CVar k => lookup_tyvar k (ltenv l) = Some (lpol l)
  | CUnbound => False
  end.

Lemma chk_propagates :
  forall ev cf c l th e,
    propagating c l -> ev th = Err e -> chk_with ev cf c l th = Err e.
Proof.
  intros ev cf c. induction c; intros l0 th e0 Hp Hev; simpl in Hp; try contradiction;
    try (simpl; rewrite Hev; reflexivity).
  - simpl. eapply IHc; eauto.
  - simpl. rewrite Hp. rewrite Bool.eqb_reflx. unfold unseal. rewrite Hev. reflexivity.
Qed.

(* the frames whose hole is the first thing evaluated *)
Definition first_strict (F : frame) : Prop :=
  match F with
  | FOp2R _ _ => False
  | FChk c _ => head_strict c
  | _ => True
  end.

Definition l1 : lbl := insert_tyvar 0 true lbl0.

(* `(fun x => F[x]) | forall a. a -> T` applied to anything: positive blame. *)
Theorem inspect_blames_contract :
  forall n r x F T arg,
    first_strict F ->
    propagating (fst (compile [("a", VCType 0)] 1 T)) l1 ->
    eval cfg_real (10 + n) r
      (App (Ann (TForall "a" KType (TArrow (TVar "a") T)) (Lam x (plug F (Var x)))) arg)
    = Err (Blame true).
Proof.
  intros n r x F T arg HF HT.
  change (10 + n) with (S (S (S (S (S (S (S (S (S (S n)))))))))).
  rewrite eval_S. cbn [step bind force].
  rewrite eval_S. cbn [step].
  unfold contract_of. cbn [compile lookup String.eqb Ascii.eqb Bool.eqb].
  destruct (compile [("a", VCType 0)] 1 T) as [cT sy] eqn:HcT. cbn [fst] in *.
  cbn [chk_with bind guard lbl0 lpol ltenv insert_tyvar force].
  rewrite eval_S. cbn [step bind guard force]. fold l1.
  cbn [cf_flip_dom cfg_real].
  rewrite eval_S. cbn [step].
  apply chk_propagates; [exact HT|].
  cbn [force]. rewrite eval_S. cbn [step bind force].
  rewrite eval_S. cbn [step lookup String.eqb Ascii.eqb Bool.eqb force].
  rewrite eval_S. cbn [step bind guard force].
  eapply (inspect_blames _ _ (Var x) 0 _ l1 F).
  - rewrite eval_S. cbn [step lookup]. rewrite String.eqb_refl. cbn [force].
    rewrite eval_S. cbn [step chk_with]. reflexivity.
  - destruct F; simpl in *; auto. contradiction.
Qed.

Example inspect_blames_contract_typeof :
  eval cfg_real 12 []
    (App (Ann (TForall "a" KType (TArrow (TVar "a") TDyn)) (Lam "x" (Op1 IsNum (Var "x")))) (Num 1))
  = Err (Blame true).
Proof. reflexivity. Qed.

Example parametric_identity_ok :
  eval cfg_real 12 []
    (App (Ann (TForall "a" KType (TArrow (TVar "a") (TVar "a"))) (Lam "x" (Var "x"))) (Num 1))
  = Ok (VNum 1).
Proof. reflexivity. Qed.
