(* C11 / T1 — sealed record tails: the record primitives guard the tail ([tail_guarded]); the contract
   of a row-polymorphic record type seals exactly the fields it does not list and gives them back,
   untouched, when the same row variable is met in a positive position ([tail_preserved]). *)
From Coq Require Import List String ZArith Bool Lia.
From NV Require Import Seal.Syntax Seal.Eval Seal.Guard.
Import ListNotations.
Open Scope string_scope.

(* ------------------------------------------------------------------ tail_guarded *)

Inductive tail_op :=
| TOGet (x : string) | TORemove (x : string) | TOMap (f : tm) | TOFreeze.

Definition tail_op_tm (o : tail_op) (e : tm) : tm :=
  match o with
  | TOGet x => Op1 (GetF x) e
  | TORemove x => Op1 (Remove x) e
  | TOMap f => RecMap f e
  | TOFreeze => Op1 Freeze e
  end.

(* the operation touches the sealed tail: it names one of its fields (and the field is not visible), or
   it is a whole-record operation *)
Definition touches_tail (o : tail_op) (fs tfs : list (string * thunk)) : Prop :=
  match o with
  | TOGet x | TORemove x => mem x fs = false /\ mem x tfs = true
  | TOMap _ | TOFreeze => True
  end.

Theorem tail_guarded :
  forall n r e fs k l tfs t o,
    eval cfg_real n r e = Ok (VRec fs (RSeal k l tfs t)) ->
    touches_tail o fs tfs ->
    eval cfg_real (S n) r (tail_op_tm o e) = Err TailAccess.
Proof.
  intros n r e fs k l tfs t o He Ht.
  destruct o; cbn [tail_op_tm]; rewrite eval_S; cbn [step bind force guard1]; rewrite He;
    cbn [guard bind op1_sem tail_has].
  - destruct Ht as [H1 H2]. unfold mem in H1. destruct (lookup x fs); [discriminate|]. rewrite H2. reflexivity.
  - destruct Ht as [H1 H2]. rewrite H1, H2. reflexivity.
  - reflexivity.
  - reflexivity.
Qed.

(* operations on the visible part do not see the tail *)
Theorem visible_field_unaffected :
  forall n r e fs tl x th,
    eval cfg_real n r e = Ok (VRec fs tl) -> lookup x fs = Some th ->
    eval cfg_real (S n) r (Op1 (GetF x) e) = force cfg_real n th.
Proof.
  intros. rewrite eval_S. cbn [step bind force guard1]. rewrite H. cbn [guard bind op1_sem]. rewrite H0.
  destruct th; reflexivity.
Qed.

(* fields / has_field answer from the visible part only, whatever the tail is *)
Theorem tail_blind_ops :
  forall ev fs tl tl' x,
    op1_sem ev Fields (VRec fs tl) = op1_sem ev Fields (VRec fs tl')
    /\ op1_sem ev (HasField x) (VRec fs tl) = op1_sem ev (HasField x) (VRec fs tl').
Proof. intros. split; reflexivity. Qed.

(* ------------------------------------------------------------------ tail_preserved *)

Definition field_names {A} (l : list (string * A)) : list string := map fst l.

Definition extra_of (fs : list (string * ctr)) (vfs : list (string * thunk)) : list (string * thunk) :=
  filter (fun '(x, _) => negb (mem x fs)) vfs.

Definition center_of (fs : list (string * ctr)) (l : lbl) (vfs : list (string * thunk)) : list (string * thunk) :=
  flat_map (fun '(x, t) => match lookup x fs with
                           | Some c => [(x, wrap_elem c l t)]
                           | None => []
                           end) vfs.

(* negative occurrence of the row variable (argument of the function): the fields that the type does not
   list are moved, as they are, into a tail sealed with the variable's key *)
Theorem tail_sealed :
  forall cf fs k excl l vfs vt p,
    lookup_tyvar k (ltenv l) = Some p -> p <> lpol l ->
    (forall x c, In (x, c) fs -> mem x vfs = true) ->
    (forall x t, In (x, t) (extra_of fs vfs) -> mem_str x excl = false) ->
    chk_record cf fs (CTVar k excl) l (VRec vfs vt)
    = Ok (VRec (center_of fs l vfs) (RSeal k (flip l) (extra_of fs vfs) vt)).
Proof.
  intros cf fs k excl l vfs vt p Hk Hp Hall Hex.
  unfold chk_record.
  assert (Hm : filter (fun '(x, _) => negb (mem x vfs)) fs = []).
  { clear -Hall. induction fs as [|[x c] fs IH]; [reflexivity|].
    simpl. rewrite (Hall x c (or_introl eq_refl)). simpl. apply IH.
    intros y c' Hin. apply (Hall y c'). right. exact Hin. }
  rewrite Hm. rewrite Hk.
  assert (Hne : Bool.eqb p (lpol l) = false).
  { destruct p, (lpol l); simpl; try reflexivity; exfalso; apply Hp; reflexivity. }
  rewrite Hne.
  assert (Hx : existsb (fun '(x, _) => mem_str x excl) (filter (fun '(x, _) => negb (mem x fs)) vfs) = false).
  { fold (extra_of fs vfs). clear -Hex. induction (extra_of fs vfs) as [|[x t] ex IH]; [reflexivity|].
    simpl. rewrite (Hex x t (or_introl eq_refl)). simpl. apply IH.
    intros y t' Hin. apply (Hex y t'). right. exact Hin. }
  rewrite Hx. reflexivity.
Qed.

(* positive occurrence (result of the function): a record that still carries the tail sealed with the same
   key, and no visible field beyond those of the type, gets the sealed fields back unchanged *)
Theorem tail_unsealed :
  forall cf fs k excl l vfs l0 tfs vt,
    lookup_tyvar k (ltenv l) = Some (lpol l) ->
    (forall x c, In (x, c) fs -> mem x vfs = true) ->
    extra_of fs vfs = [] ->
    chk_record cf fs (CTVar k excl) l (VRec vfs (RSeal k l0 tfs vt))
    = Ok (VRec (extend_fields (center_of fs l vfs) tfs) vt).
Proof.
  intros cf fs k excl l vfs l0 tfs vt Hk Hall Hex.
  unfold chk_record.
  assert (Hm : filter (fun '(x, _) => negb (mem x vfs)) fs = []).
  { clear -Hall. induction fs as [|[x c] fs IH]; [reflexivity|].
    simpl. rewrite (Hall x c (or_introl eq_refl)). simpl. apply IH.
    intros y c' Hin. apply (Hall y c'). right. exact Hin. }
  rewrite Hm. rewrite Hk. rewrite Bool.eqb_reflx.
  unfold extra_of in Hex. rewrite Hex. rewrite Nat.eqb_refl. reflexivity.
Qed.

(* the function added a visible field, dropped the tail, or returns a tail sealed by another key: blame *)
Theorem tail_tampered_blames :
  forall cf fs k excl l vfs vt,
    lookup_tyvar k (ltenv l) = Some (lpol l) ->
    (forall x c, In (x, c) fs -> mem x vfs = true) ->
    (extra_of fs vfs <> [] \/ vt = RNone \/ (exists k' l0 tfs vt', vt = RSeal k' l0 tfs vt' /\ k' <> k)) ->
    chk_record cf fs (CTVar k excl) l (VRec vfs vt) = Err (Blame (lpol l)).
Proof.
  intros cf fs k excl l vfs vt Hk Hall Hbad.
  unfold chk_record.
  assert (Hm : filter (fun '(x, _) => negb (mem x vfs)) fs = []).
  { clear -Hall. induction fs as [|[x c] fs IH]; [reflexivity|].
    simpl. rewrite (Hall x c (or_introl eq_refl)). simpl. apply IH.
    intros y c' Hin. apply (Hall y c'). right. exact Hin. }
  rewrite Hm. rewrite Hk. rewrite Bool.eqb_reflx.
  fold (extra_of fs vfs).
  destruct (extra_of fs vfs) eqn:Hex.
  - destruct Hbad as [H|[H|[k' [l0 [tfs [vt' [H Hk']]]]]]].
    + contradiction.
    + subst vt. reflexivity.
    + subst vt. apply Nat.eqb_neq in Hk'. rewrite Nat.eqb_sym in Hk'. rewrite Hk'. reflexivity.
  - reflexivity.
Qed.

(* an excluded field in the argument is rejected before anything is sealed *)
Theorem excluded_field_blames :
  forall cf fs k excl l vfs vt p x t,
    lookup_tyvar k (ltenv l) = Some p -> p <> lpol l ->
    (forall y c, In (y, c) fs -> mem y vfs = true) ->
    In (x, t) (extra_of fs vfs) -> mem_str x excl = true ->
    chk_record cf fs (CTVar k excl) l (VRec vfs vt) = Err (Blame (lpol l)).
Proof.
  intros cf fs k excl l vfs vt p x t Hk Hp Hall Hin Hx.
  unfold chk_record.
  assert (Hm : filter (fun '(x, _) => negb (mem x vfs)) fs = []).
  { clear -Hall. induction fs as [|[y c] fs IH]; [reflexivity|].
    simpl. rewrite (Hall y c (or_introl eq_refl)). simpl. apply IH.
    intros z c' Hin. apply (Hall z c'). right. exact Hin. }
  rewrite Hm. rewrite Hk.
  assert (Hne : Bool.eqb p (lpol l) = false).
  { destruct p, (lpol l); simpl; try reflexivity; exfalso; apply Hp; reflexivity. }
  rewrite Hne.
  assert (Hex : existsb (fun '(x, _) => mem_str x excl) (filter (fun '(x, _) => negb (mem x fs)) vfs) = true).
  { apply existsb_exists. exists (x, t). split; [exact Hin| exact Hx]. }
  rewrite Hex. reflexivity.
Qed.

(* nested sealing: a record that already carries a sealed tail [vt] and has exactly the fields listed by
   ANOTHER row-polymorphic record type is sealed (no visible extra field: the new tail holds nothing but
   [vt]) and unsealed again: the outer tail [vt] is back, untouched, whatever it is. *)
Theorem nested_tail_preserved :
  forall cf fs k excl ln lp vfs vt vfs' p,
    lookup_tyvar k (ltenv ln) = Some p -> p <> lpol ln ->
    lookup_tyvar k (ltenv lp) = Some (lpol lp) ->
    (forall x c, In (x, c) fs -> mem x vfs = true) -> extra_of fs vfs = [] ->
    (forall x c, In (x, c) fs -> mem x vfs' = true) -> extra_of fs vfs' = [] ->
    (* sealing side *)
    chk_record cf fs (CTVar k excl) ln (VRec vfs vt)
      = Ok (VRec (center_of fs ln vfs) (RSeal k (flip ln) [] vt))
    (* unsealing side, for any record with the listed fields that still carries that tail *)
    /\ chk_record cf fs (CTVar k excl) lp (VRec vfs' (RSeal k (flip ln) [] vt))
      = Ok (VRec (center_of fs lp vfs') vt).
Proof.
  intros cf fs k excl ln lp vfs vt vfs' p Hn Hp Hpos Hall Hex Hall' Hex'. split.
  - rewrite (tail_sealed cf fs k excl ln vfs vt p Hn Hp Hall).
    + rewrite Hex. reflexivity.
    + rewrite Hex. intros x t [].
  - rewrite (tail_unsealed cf fs k excl lp vfs' (flip ln) [] vt Hpos Hall' Hex'). reflexivity.
Qed.

(* end to end: `fun r => r` under `forall r. {fa : Number; r} -> {fa : Number; r}` *)
Example tail_roundtrip_example :
  run_line cfg_real 40
    (App (Ann (TForall "r" KRow (TArrow (TRec [("fa", TNum)] (TlVar "r")) (TRec [("fa", TNum)] (TlVar "r"))))
              (Lam "x" (Var "x")))
         (RecLit [("fa", Num 1); ("tb", Num 2)]))
  = "OK {""fa"":#1,""tb"":#2}".
Proof. vm_compute. reflexivity. Qed.

Example nested_tail_roundtrip_example :
  run_line cfg_real 60
    (App (Ann (TForall "r" KRow (TArrow (TRec [("fa", TNum)] (TlVar "r")) (TRec [("fa", TNum)] (TlVar "r"))))
              (Lam "x" (App (Ann (TForall "s" KRow (TArrow (TRec [("fa", TDyn)] (TlVar "s")) (TRec [("fa", TDyn)] (TlVar "s"))))
                                 (Lam "z" (Var "z")))
                            (Var "x"))))
         (RecLit [("fa", Num 1); ("tb", Num 2)]))
  = "OK {""fa"":#1,""tb"":#2}".
Proof. vm_compute. reflexivity. Qed.
