(* C11 — related outcomes export to the same data: "the contracted function returns exactly what the
   bare function returns", in terms of what `nickel export` prints. *)
From Coq Require Import List String ZArith Bool Lia.
From NV Require Import Seal.Syntax Seal.Eval Seal.Mono Seal.Typing Seal.LogRel Seal.Fundamental Seal.Erasure.
Import ListNotations.
Open Scope string_scope.

(* ------------------------------------------------------------------ monotonicity of deep *)

Lemma deep_mono :
  forall ev1 ev2, ev_le ev1 ev2 ->
  forall m1 m2 v r, m1 <= m2 -> deep ev1 m1 v = r -> r <> OutOfFuel -> deep ev2 m2 v = r.
Proof.
  intros ev1 ev2 Hle. induction m1 as [|m1 IH]; intros m2 v r Hm H Hne; [simpl in H; congruence|].
  destruct m2 as [|m2]; [lia|].
  assert (Hl : forall ts r0, deep_list ev1 (deep ev1 m1) ts = r0 -> r0 <> OutOfFuel ->
                             deep_list ev2 (deep ev2 m2) ts = r0).
  { induction ts as [|t ts IHts]; intros r0 H0 Hne0; [exact H0|].
    cbn [deep_list] in *.
    apply bind_inv in H0; [|exact Hne0]. destruct H0 as [[x [Hx H0]]|[e [Hx H0]]].
    - rewrite (guard_mono ev1 ev2 t _ Hle Hx) by congruence. cbn [bind].
      apply bind_inv in H0; [|exact Hne0]. destruct H0 as [[dx [Hd H0]]|[e [Hd H0]]].
      + rewrite (IH m2 x (Ok dx)) by (try lia; try congruence; exact Hd). cbn [bind].
        apply bind_inv in H0; [|exact Hne0]. destruct H0 as [[ds [Hds H0]]|[e [Hds H0]]].
        * rewrite (IHts (Ok ds) Hds) by congruence. exact H0.
        * rewrite (IHts (Err e) Hds) by congruence. cbn [bind]. congruence.
      + rewrite (IH m2 x (Err e)) by (try lia; try congruence; exact Hd). cbn [bind]. congruence.
    - rewrite (guard_mono ev1 ev2 t _ Hle Hx) by congruence. cbn [bind]. congruence. }
  cbn [deep] in *. destruct v; try exact H.
  - apply bind_inv in H; [|exact Hne]. destruct H as [[ds [Hds H]]|[e [Hds H]]].
    + rewrite (Hl _ _ Hds) by congruence. exact H.
    + rewrite (Hl _ _ Hds) by congruence. cbn [bind]. congruence.
  - apply bind_inv in H; [|exact Hne]. destruct H as [[ds [Hds H]]|[e [Hds H]]].
    + rewrite (Hl _ _ Hds) by congruence. exact H.
    + rewrite (Hl _ _ Hds) by congruence. cbn [bind]. congruence.
Qed.

Lemma deep_list_mono :
  forall ev1 ev2, ev_le ev1 ev2 ->
  forall m1 m2 ts r, m1 <= m2 -> deep_list ev1 (deep ev1 m1) ts = r -> r <> OutOfFuel ->
                     deep_list ev2 (deep ev2 m2) ts = r.
Proof.
  intros ev1 ev2 Hle m1 m2 ts. induction ts as [|t ts IHts]; intros r0 Hm H0 Hne0; [exact H0|].
  cbn [deep_list] in *.
  apply bind_inv in H0; [|exact Hne0]. destruct H0 as [[x [Hx H0]]|[e [Hx H0]]].
  - rewrite (guard_mono ev1 ev2 t _ Hle Hx) by congruence. cbn [bind].
    apply bind_inv in H0; [|exact Hne0]. destruct H0 as [[dx [Hd H0]]|[e [Hd H0]]].
    + rewrite (deep_mono ev1 ev2 Hle m1 m2 x (Ok dx) Hm Hd) by congruence. cbn [bind].
      apply bind_inv in H0; [|exact Hne0]. destruct H0 as [[ds [Hds H0]]|[e [Hds H0]]].
      * rewrite (IHts (Ok ds) Hm Hds) by congruence. exact H0.
      * rewrite (IHts (Err e) Hm Hds) by congruence. cbn [bind]. congruence.
    + rewrite (deep_mono ev1 ev2 Hle m1 m2 x (Err e) Hm Hd) by congruence. cbn [bind]. congruence.
  - rewrite (guard_mono ev1 ev2 t _ Hle Hx) by congruence. cbn [bind]. congruence.
Qed.

(* first-order data types *)
Fixpoint data_ty (T : sty) : Prop :=
  match T with
  | SNum | SBool | SStr => True
  | SArr a => data_ty a
  | SRec fs => (fix go (fs : list (string * sty)) : Prop :=
                  match fs with [] => True | (_, T) :: fs' => data_ty T /\ go fs' end) fs
  | SVar _ | SFun _ _ | SRow _ _ _ => False
  end.

Lemma data_ty_nonvar : forall T, data_ty T -> is_svar T = false.
Proof. destruct T; simpl; try reflexivity; contradiction. Qed.

Definition deep_ok (d : nat -> tyint) (T : sty) : Prop :=
  forall v1 v2, OR d T (Ok v1) (Ok v2) ->
    forall n m2 r2, deep (ev n) m2 v2 = r2 -> r2 <> OutOfFuel -> exists M, deep (ev M) M v1 = r2.

Definition pair_ok (d : nat -> tyint) (t1 t2 : thunk) : Prop :=
  exists T, is_svar T = false /\ deep_ok d T /\ lift (OR d T) t1 t2.

Lemma deep_list_rel :
  forall d l1 l2, Forall2 (pair_ok d) l1 l2 ->
    forall n m2 r2, deep_list (ev n) (deep (ev n) m2) l2 = r2 -> r2 <> OutOfFuel ->
      exists M, deep_list (ev M) (deep (ev M) M) l1 = r2.
Proof.
  intros d l1 l2 HF. induction HF as [|t1 t2 l1 l2 [T [Hnv [Hdk Hl]]] HF IH]; intros n m2 r2 H Hne.
  - exists 0. exact H.
  - cbn [deep_list] in H.
    apply bind_inv in H; [|exact Hne].
    assert (Hn2 : ev n t2 <> OutOfFuel).
    { destruct H as [[v [Hg _]]|[e [Hg _]]]; eapply guard_inv; eauto; congruence. }
    destruct (Hl n _ eq_refl Hn2) as [m1 [r1 [H1 HO]]].
    destruct (ev n t2) as [v2|e2|] eqn:E2; [| |congruence].
    + destruct (OR_ok_inv _ _ _ _ Hnv HO) as [v1 Hr1]. rewrite Hr1 in HO, H1.
      destruct (OR_kind _ _ _ _ Hnv HO) as [U1 [U2 _]].
      rewrite (guard_unsealedb _ U2) in H.
      destruct H as [[v [Hg H]]|[e [Hg _]]]; [|congruence]. inversion Hg; subst v.
      apply bind_inv in H; [|exact Hne].
      assert (Hdn : deep (ev n) m2 v2 <> OutOfFuel).
      { destruct H as [[x [Hx _]]|[e [Hx _]]]; congruence. }
      destruct (Hdk v1 v2 HO n m2 _ eq_refl Hdn) as [M1 HM1].
      destruct (deep (ev n) m2 v2) as [dx|e|] eqn:Ed; [| |congruence].
      * destruct H as [[x [Hx H]]|[e [Hx _]]]; [|congruence]. inversion Hx; subst x.
        apply bind_inv in H; [|exact Hne].
        assert (Hln : deep_list (ev n) (deep (ev n) m2) l2 <> OutOfFuel).
        { destruct H as [[x [Hx' _]]|[e [Hx' _]]]; congruence. }
        destruct (IH n m2 _ eq_refl Hln) as [M2 HM2].
        exists (m1 + M1 + M2). cbn [deep_list].
        rewrite (ev_mono m1 (m1 + M1 + M2) _ _ ltac:(lia) H1) by congruence.
        rewrite (guard_unsealedb _ U1). cbn [bind].
        rewrite (deep_mono (ev M1) (ev (m1 + M1 + M2)) (force_le cfg_real M1 (m1 + M1 + M2) ltac:(lia)) M1 (m1 + M1 + M2) v1 (Ok dx) ltac:(lia) HM1) by congruence.
        cbn [bind].
        assert (HM2' : deep_list (ev (m1 + M1 + M2)) (deep (ev (m1 + M1 + M2)) (m1 + M1 + M2)) l1
                       = deep_list (ev n) (deep (ev n) m2) l2).
        { clear -HM2 Hln. revert HM2 Hln. generalize (deep_list (ev n) (deep (ev n) m2) l2) as r0.
          intros r0 HM2 Hln.
          (* monotonicity of deep_list, via the same argument as in deep_mono *)
          assert (G : forall ts r1, deep_list (ev M2) (deep (ev M2) M2) ts = r1 -> r1 <> OutOfFuel ->
                        deep_list (ev (m1 + M1 + M2)) (deep (ev (m1 + M1 + M2)) (m1 + M1 + M2)) ts = r1).
          { induction ts as [|t ts IHts]; intros r1 H0 Hne0; [exact H0|].
            cbn [deep_list] in *.
            apply bind_inv in H0; [|exact Hne0]. destruct H0 as [[x [Hx H0]]|[e [Hx H0]]].
            - rewrite (guard_mono (ev M2) (ev (m1 + M1 + M2)) t _ (force_le cfg_real M2 (m1 + M1 + M2) ltac:(lia)) Hx) by congruence. cbn [bind].
              apply bind_inv in H0; [|exact Hne0]. destruct H0 as [[dx [Hd H0]]|[e [Hd H0]]].
              + rewrite (deep_mono (ev M2) (ev (m1 + M1 + M2)) (force_le cfg_real M2 (m1 + M1 + M2) ltac:(lia)) M2 (m1 + M1 + M2) x (Ok dx) ltac:(lia) Hd) by congruence.
                cbn [bind].
                apply bind_inv in H0; [|exact Hne0]. destruct H0 as [[ds [Hds H0]]|[e [Hds H0]]].
                * rewrite (IHts (Ok ds) Hds) by congruence. exact H0.
                * rewrite (IHts (Err e) Hds) by congruence. cbn [bind]. congruence.
              + rewrite (deep_mono (ev M2) (ev (m1 + M1 + M2)) (force_le cfg_real M2 (m1 + M1 + M2) ltac:(lia)) M2 (m1 + M1 + M2) x (Err e) ltac:(lia) Hd) by congruence.
                cbn [bind]. congruence.
            - rewrite (guard_mono (ev M2) (ev (m1 + M1 + M2)) t _ (force_le cfg_real M2 (m1 + M1 + M2) ltac:(lia)) Hx) by congruence. cbn [bind]. congruence. }
          apply G; assumption. }
        rewrite HM2'. destruct H as [[ds [Hds H]]|[e [Hds H]]]; rewrite Hds; cbn [bind]; congruence.
      * destruct H as [[x [Hx _]]|[e' [Hx Hr]]]; [congruence|]. inversion Hx; subst e'.
        exists (m1 + M1). cbn [deep_list].
        rewrite (ev_mono m1 (m1 + M1) _ _ ltac:(lia) H1) by congruence.
        rewrite (guard_unsealedb _ U1). cbn [bind].
        rewrite (deep_mono (ev M1) (ev (m1 + M1)) (force_le cfg_real M1 (m1 + M1) ltac:(lia)) M1 (m1 + M1) v1 (Err e) ltac:(lia) HM1) by congruence.
        cbn [bind]. congruence.
    + pose proof (OR_err_inv _ _ _ _ Hnv HO) as Hr1. rewrite Hr1 in H1.
      cbn [guard] in H. destruct H as [[v [Hg _]]|[e' [Hg Hr]]]; [congruence|]. inversion Hg; subst e'.
      exists m1. cbn [deep_list]. rewrite H1. cbn [guard bind]. congruence.
Qed.

Lemma Forall2_rev : forall {A B} (R : A -> B -> Prop) l1 l2, Forall2 R l1 l2 -> Forall2 R (rev l1) (rev l2).
Proof.
  intros A B R l1 l2 H. induction H; cbn [rev]; [constructor|].
  apply Forall2_app; [assumption|]. constructor; [assumption|constructor].
Qed.

Lemma deep_leaf :
  forall d0 n m2 r2, deep (ev n) m2 d0 = r2 -> r2 <> OutOfFuel ->
    (exists z, d0 = VNum z) \/ (exists z, d0 = VBool z) \/ (exists z, d0 = VStr z) ->
    deep (ev 1) 1 d0 = r2.
Proof.
  intros d0 n m2 r2 H Hne Hs. destruct m2 as [|m2]; [simpl in H; congruence|].
  destruct Hs as [[z E]|[[z E]|[z E]]]; subst d0; exact H.
Qed.

Theorem deep_rel : forall d T, data_ty T -> deep_ok d T.
Proof.
  intros d. induction T as [i| | | |a b IHa IHb|a IHa|fs IHfs|fs ri ex IHfs] using sty_ind'; intros Hd; cbn [data_ty] in Hd;
    try contradiction; intros v1 v2 HO n m2 r2 H Hne.
  - destruct (OR_num_inv _ _ _ HO) as [z [E1 E2]]. subst. exists 1. eapply deep_leaf; eauto.
  - destruct (OR_bool_inv _ _ _ HO) as [z [E1 E2]]. subst. exists 1. eapply deep_leaf; eauto.
  - destruct (OR_str_inv _ _ _ HO) as [z [E1 E2]]. subst. exists 1. eapply deep_leaf; eauto 6.
  - (* arrays *)
    cbn [OR] in HO. destruct HO as [[e [E _]]|[l1 [l2 [E1 [E2 HF]]]]]; [discriminate|].
    inversion E1; inversion E2; subst v1 v2.
    destruct m2 as [|m2]; [simpl in H; congruence|]. cbn [deep] in H.
    apply bind_inv in H; [|exact Hne].
    assert (Hln : deep_list (ev n) (deep (ev n) m2) (rev l2) <> OutOfFuel).
    { destruct H as [[x [Hx _]]|[e [Hx _]]]; congruence. }
    assert (HF' : Forall2 (pair_ok d) (rev l1) (rev l2)).
    { apply Forall2_rev. clear -HF IHa Hd. induction HF; constructor; [|assumption].
      exists a. split; [apply data_ty_nonvar; assumption|]. split; [apply IHa; assumption|assumption]. }
    destruct (deep_list_rel d _ _ HF' n m2 _ eq_refl Hln) as [M HM].
    exists (S M). cbn [deep].
    rewrite (deep_list_mono (ev M) (ev (S M)) (force_le cfg_real M (S M) ltac:(lia)) M M _ _ (le_n M) HM Hln).
    destruct H as [[x [Hx H]]|[e [Hx H]]]; rewrite Hx; cbn [bind]; congruence.
  - (* records *)
    cbn [OR] in HO. destruct HO as [[e [E _]]|[f1 [f2 [E1 [E2 Hr]]]]]; [discriminate|].
    inversion E1; inversion E2; subst v1 v2.
    change (rec_rel d fs f1 f2) in Hr.
    destruct (rec_rel_names _ _ _ _ Hr) as [N1 N2].
    destruct m2 as [|m2]; [simpl in H; congruence|]. cbn [deep] in H.
    apply bind_inv in H; [|exact Hne].
    assert (Hln : deep_list (ev n) (deep (ev n) m2) (rev (map snd f2)) <> OutOfFuel).
    { destruct H as [[x [Hx _]]|[e [Hx _]]]; congruence. }
    assert (HF' : Forall2 (pair_ok d) (rev (map snd f1)) (rev (map snd f2))).
    { apply Forall2_rev. clear -Hr IHfs Hd. revert f1 f2 Hr.
      induction IHfs as [|[x T] fs IHT IHfs' IH]; intros f1 f2 Hr;
        destruct f1 as [|[x1 t1] f1]; destruct f2 as [|[x2 t2] f2]; cbn [rec_rel] in Hr; try contradiction.
      - constructor.
      - destruct Hr as [_ [_ [Ht Hr]]]. destruct Hd as [HdT Hd]. cbn [map snd]. constructor.
        + exists T. split; [apply data_ty_nonvar; assumption|]. split; [apply IHT; assumption|assumption].
        + apply IH; assumption. }
    destruct (deep_list_rel d _ _ HF' n m2 _ eq_refl Hln) as [M HM].
    exists (S M). cbn [deep].
    rewrite (deep_list_mono (ev M) (ev (S M)) (force_le cfg_real M (S M) ltac:(lia)) M M _ _ (le_n M) HM Hln).
    rewrite <- N1, N2.
    destruct H as [[x [Hx H]]|[e [Hx H]]]; rewrite Hx; cbn [bind]; congruence.
Qed.

(* the exported result of two related computations *)
Definition export (n : nat) (t : thunk) : outcome data := bind (guard (ev n t)) (deep (ev n) n).

Theorem export_same :
  forall d T t1 t2, data_ty T -> lift (OR d T) t1 t2 ->
    forall n r, export n t2 = r -> r <> OutOfFuel -> exists m, export m t1 = r.
Proof.
  intros d T t1 t2 Hd Hl n r H Hne. unfold export in *.
  pose proof (data_ty_nonvar T Hd) as Hnv.
  apply bind_inv in H; [|exact Hne].
  assert (Hn2 : ev n t2 <> OutOfFuel).
  { destruct H as [[v [Hg _]]|[e [Hg _]]]; eapply guard_inv; eauto; congruence. }
  destruct (Hl n _ eq_refl Hn2) as [m1 [r1 [H1 HO]]].
  destruct (ev n t2) as [v2|e2|] eqn:E2; [| |congruence].
  - destruct (OR_ok_inv _ _ _ _ Hnv HO) as [v1 Hr1]. rewrite Hr1 in HO, H1.
    destruct (OR_kind _ _ _ _ Hnv HO) as [U1 [U2 _]].
    rewrite (guard_unsealedb _ U2) in H.
    destruct H as [[v [Hg H]]|[e [Hg _]]]; [|congruence]. inversion Hg; subst v.
    destruct (deep_rel d T Hd v1 v2 HO n n r H Hne) as [M HM].
    exists (m1 + M).
    rewrite (ev_mono m1 (m1 + M) _ _ ltac:(lia) H1) by congruence.
    rewrite (guard_unsealedb _ U1). cbn [bind].
    apply (deep_mono (ev M) (ev (m1 + M)) (force_le cfg_real M (m1 + M) ltac:(lia)) M (m1 + M) v1 r ltac:(lia) HM Hne).
  - pose proof (OR_err_inv _ _ _ _ Hnv HO) as Hr1. rewrite Hr1 in H1.
    cbn [guard] in H. destruct H as [[v [Hg _]]|[e' [Hg Hr]]]; [congruence|]. inversion Hg; subst e'.
    exists m1. rewrite H1. cbn [guard bind]. congruence.
Qed.

Lemma run_data_export : forall n e, run_data cfg_real n e = export n (Th [] e).
Proof. reflexivity. Qed.

(* T0, in terms of what is printed: `(f | forall a b. T) arg1 arg2` exports exactly what `f arg1 arg2`
   exports (values and errors), for a parametric f, typed arguments and a first-order result type. *)
Theorem parametric_annotation_same_export2 :
  forall sg a1 a2 b f arg1 arg2,
    scoped 2 (SFun a1 (SFun a2 b)) -> norow (SFun a1 (SFun a2 b)) -> (forall i, is_svar (sg i) = false) ->
    has_ty [] f (SFun a1 (SFun a2 b)) -> has_ty [] arg1 (inst sg a1) -> has_ty [] arg2 (inst sg a2) ->
    data_ty (inst sg b) ->
    forall n r, run_data cfg_real n (App (App f arg1) arg2) = r -> r <> OutOfFuel ->
      exists m, run_data cfg_real m
                  (App (App (Ann (TForall "a" KType (TForall "b" KType (sty_ty names2 (SFun a1 (SFun a2 b))))) f) arg1) arg2) = r.
Proof.
  intros sg a1 a2 b f arg1 arg2 Hsc Hnr Hsg Hf H1 H2 Hb n r Hev Hne.
  pose proof (parametric_transparent 2 (fun i => i) sg dtriv _ f [] Hsc (norow_rows_ok sg _ Hnr) Hsg Hf) as Ht. cbn [inst] in Ht.
  pose proof (lift_app _ _ _ _ _ _ _ _ _ Ht (typed_self_related arg1 _ [] H1)) as Ht1.
  pose proof (lift_app _ _ _ _ _ _ _ _ _ Ht1 (typed_self_related arg2 _ [] H2)) as Ht2.
  rewrite run_data_export in Hev.
  destruct (export_same dtriv _ _ _ Hb Ht2 n r Hev Hne) as [m Hm].
  exists (S (S (S m))). rewrite run_data_export.
  (* Ann t f and Chk (contract_of t) lbl0 f evaluate alike, one step later at most *)
  assert (Hsame : forall k,
             ev k (Th [] (App (App (Chk (foralls (var_keys (fun i => i) 2) (sty_ctr (fun i => i) (SFun a1 (SFun a2 b)))) lbl0 f) arg1) arg2))
             = ev k (Th [] (App (App (Ann (TForall "a" KType (TForall "b" KType (sty_ty names2 (SFun a1 (SFun a2 b))))) f) arg1) arg2))).
  { intros k. destruct k as [|k]; [reflexivity|]. rewrite !ev_S. cbn [step].
    destruct k as [|k]; [reflexivity|]. rewrite !ev_S. cbn [step].
    destruct k as [|k]; [reflexivity|]. rewrite !ev_S. cbn [step].
    rewrite (contract_of_forall2 _ Hsc Hnr). reflexivity. }
  unfold export in *. rewrite <- Hsame.
  apply bind_inv in Hm; [|exact Hne].
  destruct Hm as [[v [Hg Hd]]|[e [Hg Hr]]].
  - pose proof (guard_ok_inv _ _ Hg) as Hv.
    rewrite (ev_mono m (S (S (S m))) _ _ ltac:(lia) Hv) by congruence.
    rewrite Hv in Hg. rewrite Hg. cbn [bind].
    apply (deep_mono (ev m) (ev (S (S (S m)))) (force_le cfg_real m (S (S (S m))) ltac:(lia)) m (S (S (S m))) v r ltac:(lia) Hd Hne).
  - assert (Hn : ev m (Th [] (App (App (Chk (foralls (var_keys (fun i => i) 2) (sty_ctr (fun i => i) (SFun a1 (SFun a2 b)))) lbl0 f) arg1) arg2)) <> OutOfFuel)
      by (eapply guard_inv; eauto; congruence).
    rewrite (ev_mono m (S (S (S m))) _ _ ltac:(lia) eq_refl Hn). rewrite Hg. cbn [bind]. congruence.
Qed.

(* the hypotheses are satisfiable: `map` under `forall a b. (a -> b) -> Array a -> Array b` *)
Example map_same_export_hypotheses :
  let sg := fun _ : nat => SNum in
  let a1 := SFun (SVar 0) (SVar 1) in
  let a2 := SArr (SVar 0) in
  let b := SArr (SVar 1) in
  scoped 2 (SFun a1 (SFun a2 b)) /\ norow (SFun a1 (SFun a2 b)) /\ has_ty [] map_impl (SFun a1 (SFun a2 b))
  /\ has_ty [] (Lam "y" (Op2 Add (Var "y") (Num 1))) (inst sg a1)
  /\ has_ty [] (Arr [Num 1; Num 2]) (inst sg a2) /\ data_ty (inst sg b)
  /\ run_line cfg_real 30 (App (App map_impl (Lam "y" (Op2 Add (Var "y") (Num 1)))) (Arr [Num 1; Num 2])) = "OK [#2,#3]"
  /\ run_line cfg_real 30
       (App (App (Ann (TForall "a" KType (TForall "b" KType (sty_ty names2 (SFun a1 (SFun a2 b))))) map_impl)
                 (Lam "y" (Op2 Add (Var "y") (Num 1)))) (Arr [Num 1; Num 2])) = "OK [#2,#3]".
Proof.
  cbn [scoped norow has_ty inst data_ty map_impl lookup String.eqb Ascii.eqb Bool.eqb].
  repeat split; try lia; try reflexivity.
  exists (SVar 0). split; reflexivity.
Qed.

(* one argument, any quantifier prefix, row variables included: the exported result is the same *)
Theorem parametric_same_export :
  forall nv keys sg a b f arg,
    scoped nv (SFun a b) -> rows_ok sg (SFun a b) -> (forall i, is_svar (sg i) = false) ->
    has_ty [] f (SFun a b) -> has_ty [] arg (inst sg a) -> data_ty (inst sg b) ->
    forall n r, run_data cfg_real n (App f arg) = r -> r <> OutOfFuel ->
      exists m, run_data cfg_real m (App (Chk (foralls (var_keys keys nv) (sty_ctr keys (SFun a b))) lbl0 f) arg) = r.
Proof.
  intros nv keys sg a b f arg Hsc Hro Hsg Hf Harg Hb n r Hev Hne.
  pose proof (parametric_transparent nv keys sg dtriv _ f [] Hsc Hro Hsg Hf) as Ht. cbn [inst] in Ht.
  pose proof (lift_app _ _ _ _ _ _ _ _ _ Ht (typed_self_related arg _ [] Harg)) as Ht1.
  rewrite run_data_export in Hev.
  destruct (export_same dtriv _ _ _ Hb Ht1 n r Hev Hne) as [m Hm].
  exists m. rewrite run_data_export. exact Hm.
Qed.

(* T1, end to end: a function that only passes a row-polymorphic record around (here: returns it, or
   projects a listed field) gets the sealed tail back intact; the hypotheses are satisfiable *)
Definition row_sty : sty := SRow [("fa", SNum)] 0 ["fa"; "fa"].

Example tail_preserved_hypotheses :
  let sg := fun _ : nat => SRec [("tb", SNum)] in
  scoped 1 (SFun row_sty row_sty) /\ rows_ok sg (SFun row_sty row_sty)
  /\ (forall i, is_svar (sg i) = false)
  /\ has_ty [] (Lam "x" (Var "x")) (SFun row_sty row_sty)
  /\ has_ty [] (Lam "x" (Op1 (GetF "fa") (Var "x"))) (SFun row_sty SNum)
  /\ has_ty [] (RecLit [("fa", Num 1); ("tb", Num 2)]) (inst sg row_sty)
  /\ data_ty (inst sg row_sty)
  /\ contract_of (TForall "r" KRow (TArrow (TRec [("fa", TNum)] (TlVar "r")) (TRec [("fa", TNum)] (TlVar "r"))))
     = foralls (var_keys (fun i => i) 1) (sty_ctr (fun i => i) (SFun row_sty row_sty)).
Proof.
  cbn [scoped rows_ok has_ty inst data_ty row_sty lookup String.eqb Ascii.eqb Bool.eqb map fst].
  repeat split; try lia; try reflexivity.
  - constructor; [intros []|constructor].
  - constructor; [intros []|constructor].
  - exists [("tb", SNum)]. split; [reflexivity|]. split.
    + constructor; [intros []|constructor].
    + intros x [E|[]]. subst x. split; [intros [E|[]]; discriminate|reflexivity].
  - exists [("tb", SNum)]. split; [reflexivity|]. split.
    + constructor; [intros []|constructor].
    + intros x [E|[]]. subst x. split; [intros [E|[]]; discriminate|reflexivity].
  - right. exists [("fa", SNum)], 0, ["fa"; "fa"]. split; reflexivity.
Qed.
