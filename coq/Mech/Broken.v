(* C12 — the deliberately broken machine (the VM is dropped without unwinding: black-holed thunks
   of an abandoned evaluation stay black-holed) violates the invariants and the property; the
   witnesses are checked by computation.  This shows the theorems have teeth. *)
From Coq Require Import String ZArith List Bool Arith.
Import ListNotations.
From NV Require Import Mech.Syntax Mech.Machine Mech.Spec Mech.Invariants.
Open Scope string_scope.

(* let x = 1 + 1 ; x  (abandoned after 3 steps: x is under evaluation) ; x *)
Definition witness_history : list input :=
  [IDef "x" (Op2 OAdd (Num 1) (Num 1)); Abort 3 (Var "x")].

Definition witness_input : tm := Var "x".

(* with the real [unwind] the session heap is clean and the answer is the stand-alone one *)
Example witness_ok :
  count_blackholed (sheap (fst (sess_run empty_session witness_history))) = 0 /\
  snd (sess_step (fst (sess_run empty_session witness_history)) (IEval 100 witness_input))
  = OOk (ONum 2) /\
  spec_run 10 (defs_of witness_history) witness_input = Val (VNum 2).
Proof. vm_compute. auto. Qed.

(* without unwinding: a black-holed thunk survives the abandoned evaluation ... *)
Lemma unwind_clean_broken_refuted_lemma :
  exists h, count_blackholed (sheap (fst (sess_run_broken empty_session h))) <> 0.
Proof. exists witness_history. vm_compute. discriminate. Qed.

(* ... and the next evaluation reports an infinite recursion although the stand-alone program
   `let x = 1 + 1 in x` evaluates to 2 *)
Lemma session_equiv_broken_refuted_lemma :
  exists h k e n v,
    snd (sess_step_broken (fst (sess_run_broken empty_session h)) (IEval k e)) = OErr EInfRec /\
    spec_run n (defs_of h) e = Val v.
Proof.
  exists witness_history, 100, witness_input, 10, (VNum 2). vm_compute. auto.
Qed.

(* eval_guarded without the unlock on the error path: a lock survives an abandoned
   eval_record_spine, and the next eval_record_spine returns unevaluated leaves. *)
Definition spine_record : tm :=
  Rec [("a", Op2 OAdd (Num 1) (Num 1));
       ("b", Rec [("c", Op2 OAdd (Var "a") (Var "a")); ("d", Lam "p" (Var "p"))])].

Definition spine_history : list input := [IDef "r" spine_record; ISpine 8 (Var "r")].

Example spine_ok :
  count_locked (sheap (fst (sess_run empty_session spine_history))) = 0 /\
  snd (sess_step (fst (sess_run empty_session spine_history)) (ISpine 1000 (Var "r")))
  = OData (DRec [("a", DNum 2); ("b", DRec [("c", DNum 4); ("d", DFun)])]) /\
  snd (sess_step empty_session (ISpine 1000 (chain (defs_of spine_history) (Var "r"))))
  = OData (DRec [("a", DNum 2); ("b", DRec [("c", DNum 4); ("d", DFun)])]).
Proof. vm_compute. auto. Qed.

Lemma spine_nounlock_refuted_lemma :
  exists h k e,
    count_locked (sheap (fst (sess_run_nounlock empty_session h))) <> 0 /\
    snd (sess_step_nounlock (fst (sess_run_nounlock empty_session h)) (ISpine k e))
    <> snd (sess_step_nounlock empty_session (ISpine k (chain (defs_of h) e))).
Proof.
  exists spine_history, 1000, (Var "r"). vm_compute. split; discriminate.
Qed.

(* Copies of thunk data that keep the state (the derived Clone of ThunkData at the pinned commit,
   reached from Thunk::saturate and with_pos_idx during a record merge): a field merged while it is
   being evaluated is copied black-holed, the copy is on no update frame and is never reset. *)
Definition copy_record (body : tm) (other : tm) : tm :=
  Rec [("r", Rec [("y", Seq (Var "m") body)]);
       ("m", Op2 OMerge (Var "r") (Rec [("y", other)]))].

Definition copy_history : list input :=
  [IDef "o" (copy_record (Op2 OAdd (Num 1) (Bool true)) (Num 2));
   IEval 1000 (Proj (Proj (Var "o") "r") "y")].

Definition copy_input : tm := Proj (Proj (Var "o") "m") "y".

(* the machine whose copies are born suspended answers like the stand-alone program *)
Example copy_ok :
  snd (sess_run empty_session copy_history) = [OBound; OErr ETypeErr] /\
  snd (sess_step (fst (sess_run empty_session copy_history)) (IEval 1000 copy_input)) = OErr ETypeErr /\
  spec_run 40 (defs_of copy_history) copy_input = Err ETypeErr.
Proof. vm_compute. auto. Qed.

Lemma session_equiv_thunk_copy_refuted_lemma :
  exists h k e n c,
    snd (sess_step_satcopy (fst (sess_run_satcopy empty_session h)) (IEval k e)) = OErr EInfRec /\
    spec_run n (defs_of h) e = Err c.
Proof.
  exists copy_history, 1000, copy_input, 40, ETypeErr. vm_compute. auto.
Qed.

(* the same inside ONE evaluation, with no failure at all: o.r.y + o.m.y reports an infinite
   recursion, although the call-by-name meaning is 10 (and o.m.y + o.r.y evaluates to 10) *)
Definition copy_single (swap : bool) : tm :=
  Let "o" (copy_record (Num 5) (Num 5))
      (if swap
       then Op2 OAdd (Proj (Proj (Var "o") "m") "y") (Proj (Proj (Var "o") "r") "y")
       else Op2 OAdd (Proj (Proj (Var "o") "r") "y") (Proj (Proj (Var "o") "m") "y")).

Lemma thunk_copy_order_refuted_lemma :
  exists k n,
    snd (sess_step_satcopy empty_session (IEval k (copy_single false))) = OErr EInfRec /\
    snd (sess_step_satcopy empty_session (IEval k (copy_single true))) = OOk (ONum 10) /\
    spec_run n [] (copy_single false) = Val (VNum 10) /\
    snd (sess_step empty_session (IEval k (copy_single false))) = OOk (ONum 10).
Proof. exists 1000, 40. vm_compute. auto. Qed.
