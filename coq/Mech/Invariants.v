(* C12 — mechanical invariants of the machine (full language, no reference to the meaning of
   programs): black-holed thunks are exactly the thunks of the update frames on the stack;
   unwinding therefore leaves no black-holed thunk and touches nothing else. *)
From Coq Require Import String ZArith List Bool Arith Lia.
Import ListNotations.
From NV Require Import Mech.Syntax Mech.Machine.

(* ---------------------------------------------------------------- lists *)

Lemma upd_nth_length {A} (l : list A) i f : length (upd_nth l i f) = length l.
Proof. revert i; induction l as [|a l IH]; intros [|i]; cbn; auto. Qed.

Lemma nth_error_upd_nth_eq {A} (l : list A) i f a :
  nth_error l i = Some a -> nth_error (upd_nth l i f) i = Some (f a).
Proof.
  revert i; induction l as [|b l IH]; intros [|i] H; cbn in *; try discriminate.
  - now inversion H.
  - auto.
Qed.

Lemma nth_error_upd_nth_neq {A} (l : list A) i j f :
  i <> j -> nth_error (upd_nth l i f) j = nth_error l j.
Proof.
  revert i j; induction l as [|b l IH]; intros [|i] [|j] H; cbn; auto; try congruence.
Qed.

Lemma nth_error_upd_nth {A} (l : list A) i j f :
  nth_error (upd_nth l i f) j =
  if Nat.eqb i j then option_map f (nth_error l j) else nth_error l j.
Proof.
  destruct (Nat.eqb_spec i j) as [->|N].
  - destruct (nth_error l j) eqn:E.
    + cbn. now apply nth_error_upd_nth_eq.
    + cbn. apply nth_error_None. rewrite upd_nth_length. now apply nth_error_None.
  - now apply nth_error_upd_nth_neq.
Qed.

Lemma nth_error_app_Some {A} (l l' : list A) i a :
  nth_error l i = Some a -> nth_error (l ++ l') i = Some a.
Proof.
  intros H. rewrite nth_error_app1; auto. apply nth_error_Some. congruence.
Qed.

(* ---------------------------------------------------------------- the invariant *)

Fixpoint upd_locs (s : list frame) : list loc :=
  match s with
  | [] => []
  | FUpd l :: s' => l :: upd_locs s'
  | _ :: s' => upd_locs s'
  end.

Definition blackholed (h : heap) (l : loc) : Prop :=
  exists c, nth_error h l = Some c /\ st c = Blackholed.

(* The thunks referenced by update frames are pairwise distinct and are exactly the black-holed
   ones (so: equal as multisets). *)
Definition bh_inv (s : list frame) (h : heap) : Prop :=
  NoDup (upd_locs s) /\ forall l, In l (upd_locs s) <-> blackholed h l.

Definition clean (h : heap) : Prop := forall l, ~ blackholed h l.
Definition unlocked (h : heap) : Prop := forall l c, nth_error h l = Some c -> locked c = false.

Lemma bh_inv_nil h : clean h <-> bh_inv [] h.
Proof.
  unfold bh_inv, clean; cbn. split.
  - intros C. split; [constructor|]. intros l; split; [tauto|]. intros B; exact (C l B).
  - intros [_ H] l B. now apply H in B.
Qed.

(* heap changes that keep the set of black-holed thunks *)
Lemma blackholed_app h cs l :
  (forall c, In c cs -> st c <> Blackholed) -> blackholed (h ++ cs) l <-> blackholed h l.
Proof.
  intros Hcs. unfold blackholed. split.
  - intros (c & E & B). destruct (lt_dec l (length h)) as [L|L].
    + rewrite nth_error_app1 in E by auto. eauto.
    + rewrite nth_error_app2 in E by lia. apply nth_error_In in E. now apply Hcs in E.
  - intros (c & E & B). exists c. split; auto. now apply nth_error_app_Some.
Qed.

Lemma blackholed_upd h i f l :
  blackholed (upd_nth h i f) l <->
  (if Nat.eqb i l then exists c, nth_error h l = Some c /\ st (f c) = Blackholed else blackholed h l).
Proof.
  unfold blackholed. rewrite nth_error_upd_nth. destruct (Nat.eqb i l).
  - split.
    + intros (c & E & B). destruct (nth_error h l); cbn in E; inversion E; subst. eauto.
    + intros (c & E & B). rewrite E. cbn. eauto.
  - tauto.
Qed.

Lemma bh_inv_same_upds s s' h :
  upd_locs s' = upd_locs s -> bh_inv s h -> bh_inv s' h.
Proof. unfold bh_inv. intros ->. auto. Qed.

Lemma bh_inv_alloc s h cs :
  (forall c, In c cs -> st c <> Blackholed) -> bh_inv s h -> bh_inv s (h ++ cs).
Proof.
  intros Hcs [ND H]. split; auto. intros l. rewrite blackholed_app by auto. apply H.
Qed.

Lemma new_cell_not_bh c : st (new_cell c) <> Blackholed.
Proof. cbn. discriminate. Qed.

Lemma bh_inv_alloc1 s h c : bh_inv s h -> bh_inv s (h ++ [new_cell c]).
Proof.
  apply bh_inv_alloc. intros c' [<-|[]]. apply new_cell_not_bh.
Qed.

(* ---------------------------------------------------------------- preservation *)

(* the thunks allocated by a primitive operation (copies of the merged fields' thunks and the
   thunks of the merged fields) are neither black-holed nor locked *)
Lemma copy_cell_ok c : st (copy_cell false c) <> Blackholed /\ locked (copy_cell false c) = false.
Proof. unfold copy_cell; cbn. split; auto. destruct (st c); discriminate. Qed.

Lemma merge_center_cons keep h base f p1 p2 cs :
  merge_center keep h base ((f, (p1, p2)) :: cs) =
  match nth_error h (fst p1), nth_error h (fst p2) with
  | Some c1, Some c2 =>
      let (cells, fl) := merge_center keep h (3 + base) cs in
      (copy_cell keep c1 :: copy_cell keep c2
         :: new_cell (CTm merge_body, [("%1", base); ("%2", S base)]) :: cells,
       (f, (2 + base, false)) :: fl)
  | _, _ => ([], [])
  end.
Proof. reflexivity. Qed.

Lemma merge_center_cells h : forall cs base cells fl,
  merge_center false h base cs = (cells, fl) ->
  forall c, In c cells -> st c <> Blackholed /\ locked c = false.
Proof.
  induction cs as [|[f [p1 p2]] cs IH]; intros base cells fl E c I.
  - inversion E; subst. destruct I.
  - rewrite merge_center_cons in E.
    destruct (nth_error h (fst p1)) as [c1|]; [|inversion E; subst; destruct I].
    destruct (nth_error h (fst p2)) as [c2|]; [|inversion E; subst; destruct I].
    destruct (merge_center false h (3 + base) cs) as [cells' fl'] eqn:E'.
    inversion E; subst. destruct I as [<-|[<-|[<-|I]]]; try apply copy_cell_ok.
    + split; [discriminate|reflexivity].
    + eapply IH; eauto.
Qed.

Lemma binop_cells o a b h r cells :
  binop_eval false o a b h = BVal r cells ->
  forall c, In c cells -> st c <> Blackholed /\ locked c = false.
Proof.
  intros E c I. unfold binop_eval in E.
  assert (N : forall x (y : list cell), BVal x [] = BVal r cells -> False).
  { intros x y X. inversion X; subst. destruct I. }
  destruct o; destruct (fst a) as [[]|fl1]; destruct (fst b) as [[]|fl2]; try discriminate;
    try (exfalso; eapply N; eauto; fail).
  - destruct (Z.eqb n n0); try discriminate. exfalso; eapply N; eauto.
  - destruct (Bool.eqb b0 b1); try discriminate. exfalso; eapply N; eauto.
  - destruct (any_rev fl1 || any_rev fl2); try discriminate.
    destruct (merge_center false h (length h) (center_part fl1 fl2)) as [cells' cfl] eqn:EM.
    inversion E; subst. apply (merge_center_cells _ _ _ _ _ EM c I).
Qed.

Lemma enter_bh_inv l c c' :
  bh_inv (stack c) (hp c) -> enter l c = Next c' -> bh_inv (stack c') (hp c').
Proof.
  intros [ND H] E. unfold enter in E.
  destruct (nth_error (hp c) l) as [cl|] eqn:Ecl; try discriminate.
  destruct (st cl) eqn:Est; try discriminate.
  - (* Suspended *)
    destruct (no_update_needed (cur cl)); inversion E; subst; clear E; cbn.
    + (* no frame, state := Evaluated *)
      split; auto. intros l'. rewrite blackholed_upd.
      destruct (Nat.eqb_spec l l') as [<-|N]; [|apply H].
      split.
      * intros I. apply H in I. destruct I as (c0 & E0 & B0). congruence.
      * intros (c0 & E0 & B0). cbn in B0. discriminate.
    + (* push the update frame, state := Blackholed *)
      assert (NI : ~ In l (upd_locs (stack c))).
      { intros I. apply H in I. destruct I as (c0 & E0 & B0). congruence. }
      split; [constructor; auto|].
      intros l'. rewrite blackholed_upd. cbn.
      destruct (Nat.eqb_spec l l') as [<-|N].
      * split; [intros _; exists cl; auto | auto].
      * rewrite <- H. split; [intros [?|?]; [congruence|auto] | auto].
  - (* Evaluated *)
    inversion E; subst; cbn. split; auto.
Qed.

Lemma ret_bh_inv c c' :
  bh_inv (stack c) (hp c) -> ret c = Next c' -> bh_inv (stack c') (hp c').
Proof.
  intros I E. unfold ret_gen in E.
  destruct (stack c) as [|fr s] eqn:Es; try discriminate.
  destruct fr as [a|l|o c2|o v1|t e|f|sq].
  - discriminate.
  - (* update frame popped, thunk := Evaluated *)
    inversion E; subst; clear E; cbn. destruct I as [ND H]. cbn in ND, H.
    inversion ND as [|? ? NI ND']; subst.
    split; auto. intros l'. rewrite blackholed_upd.
    destruct (Nat.eqb_spec l l') as [<-|N].
    + split; [tauto|]. intros (c0 & E0 & B0). cbn in B0. discriminate.
    + rewrite <- H. split; [auto | intros [?|?]; [congruence|auto]].
  - inversion E; subst; cbn. eapply bh_inv_same_upds; [|exact I]. reflexivity.
  - destruct (binop_eval false o v1 (ctrl c) (hp c)) as [r cells|e] eqn:EB; inversion E; subst; cbn.
    apply bh_inv_alloc; [intros c0 I0; apply (binop_cells _ _ _ _ _ _ EB c0 I0)|].
    eapply bh_inv_same_upds; [|exact I]. reflexivity.
  - destruct (fst (ctrl c)) as [[]|]; try discriminate.
    destruct b; inversion E; subst; cbn; (eapply bh_inv_same_upds; [|exact I]); reflexivity.
  - destruct (fst (ctrl c)) as [|fl]; try discriminate.
    destruct (assoc fl f) as [[l b]|]; inversion E; subst; cbn.
    eapply bh_inv_same_upds; [|exact I]. reflexivity.
  - inversion E; subst; cbn. eapply bh_inv_same_upds; [|exact I]. reflexivity.
Qed.

Lemma alloc_rec_cells h env fs h' fl :
  alloc_rec h env fs = (h', fl) ->
  exists cs, h' = h ++ cs /\ forall c, In c cs -> st c <> Blackholed.
Proof.
  unfold alloc_rec. intros E. inversion E; subst. eexists; split; [reflexivity|].
  intros c I. apply in_map_iff in I. destruct I as (fe & <- & _). apply new_cell_not_bh.
Qed.

Theorem step_bh_inv c c' :
  bh_inv (stack c) (hp c) -> step c = Next c' -> bh_inv (stack c') (hp c').
Proof.
  intros I E. unfold step_gen in E.
  destruct (fst (ctrl c)) as [t|fl] eqn:Ec; [|(eapply ret_bh_inv; eassumption)].
  destruct t; try ((eapply ret_bh_inv; eassumption)); try discriminate.
  - destruct (assoc (snd (ctrl c)) x) as [l|]; try discriminate. eapply enter_bh_inv; eauto.
  - (* Lam *)
    pose proof (ret_bh_inv c c' I) as R. unfold ret_gen in R.
    destruct (stack c) as [|[a| | | | | |] s] eqn:Es;
      try (apply R; unfold ret_gen in E; rewrite Es in E; exact E).
    inversion E; subst; cbn. apply bh_inv_alloc1.
    eapply bh_inv_same_upds; [|exact I]. reflexivity.
  - inversion E; subst; cbn. eapply bh_inv_same_upds; [|exact I]. reflexivity.
  - inversion E; subst; cbn. now apply bh_inv_alloc1.
  - inversion E; subst; cbn. now apply bh_inv_alloc1.
  - inversion E; subst; cbn. eapply bh_inv_same_upds; [|exact I]. reflexivity.
  - inversion E; subst; cbn. eapply bh_inv_same_upds; [|exact I]. reflexivity.
  - destruct (alloc_rec (hp c) (snd (ctrl c)) fs) as [h' fl] eqn:Ea.
    inversion E; subst; cbn. apply alloc_rec_cells in Ea. destruct Ea as (cs & -> & Hcs).
    now apply bh_inv_alloc.
  - inversion E; subst; cbn. eapply bh_inv_same_upds; [|exact I]. reflexivity.
  - inversion E; subst; cbn. eapply bh_inv_same_upds; [|exact I]. reflexivity.
Qed.

Lemma run_bh_inv fuel : forall c r c' k,
  bh_inv (stack c) (hp c) -> run fuel c = (r, c', k) -> bh_inv (stack c') (hp c').
Proof.
  induction fuel as [|n IH]; intros c r c' k I E; cbn in E.
  - inversion E; subst; auto.
  - destruct (step c) as [c1| |e] eqn:Es.
    + eapply IH; [|exact E]. eapply step_bh_inv; eauto.
    + inversion E; subst; auto.
    + inversion E; subst; auto.
Qed.

(* a successful run ends with an empty stack *)
Lemma step_done_stack c : step c = Done -> stack c = [].
Proof.
  assert (R : ret c = Done -> stack c = []).
  { unfold ret_gen. destruct (stack c) as [|[a|l|o c2|o v1|t e|f|sq] s]; auto; try discriminate.
    - destruct (binop_eval false o v1 (ctrl c) (hp c)); discriminate.
    - destruct (fst (ctrl c)) as [[]|]; try discriminate. destruct b; discriminate.
    - destruct (fst (ctrl c)) as [|fl]; try discriminate. destruct (assoc fl f) as [[? ?]|]; discriminate. }
  unfold step_gen. destruct (fst (ctrl c)) as [t|fl]; auto.
  destruct t; auto; try discriminate.
  - destruct (assoc (snd (ctrl c)) x) as [l|]; try discriminate. unfold enter.
    destruct (nth_error (hp c) l) as [cl|]; try discriminate.
    destruct (st cl); try discriminate. destruct (no_update_needed (cur cl)); discriminate.
  - destruct (stack c) as [|[a| | | | | |] s] eqn:Es; auto; try discriminate.
Qed.

Lemma run_val_stack fuel : forall c v c' k, run fuel c = (Val v, c', k) -> stack c' = [].
Proof.
  induction fuel as [|n IH]; intros c v c' k E; cbn in E; try discriminate.
  destruct (step c) eqn:Es.
  - eauto.
  - inversion E; subst. now apply step_done_stack.
  - discriminate.
Qed.

(* ---------------------------------------------------------------- unwinding *)

(* What [unwind] does to a cell: a black-holed thunk is suspended again, nothing else changes
   (in particular evaluated thunks keep their value, and no [locked] flag is touched). *)
Definition unwound (c : cell) : cell :=
  match st c with Blackholed => set_state Suspended c | _ => c end.

Lemma unwind_spec s : forall h,
  bh_inv s h ->
  length (unwind s h) = length h /\
  forall l, nth_error (unwind s h) l = option_map unwound (nth_error h l).
Proof.
  induction s as [|fr s IH]; intros h I.
  - cbn. split; auto. intros l. destruct (nth_error h l) as [c|] eqn:E; cbn; auto.
    f_equal. unfold unwound. destruct (st c) eqn:Est; auto.
    exfalso. apply bh_inv_nil in I. apply (I l). exists c. auto.
  - destruct fr as [a|l0|o c2|o v1|t e|f|sq];
      try (cbn; apply IH; eapply bh_inv_same_upds; [|exact I]; reflexivity).
    cbn. destruct I as [ND H]. cbn in ND, H. inversion ND as [|? ? NI ND']; subst.
    assert (B0 : blackholed h l0) by (apply H; now left).
    destruct B0 as (c0 & E0 & S0).
    assert (I' : bh_inv s (upd_nth h l0 (set_state Suspended))).
    { split; auto. intros l. rewrite blackholed_upd.
      destruct (Nat.eqb_spec l0 l) as [<-|N].
      - split; [tauto|]. intros (c & E & B). cbn in B. discriminate.
      - rewrite <- H. split; [auto | intros [?|?]; [congruence|auto]]. }
    destruct (IH _ I') as [L N]. rewrite upd_nth_length in L. split; auto.
    intros l. rewrite N, nth_error_upd_nth.
    destruct (Nat.eqb_spec l0 l) as [<-|Nl]; auto.
    rewrite E0. cbn. f_equal. unfold unwound. cbn. rewrite S0. reflexivity.
Qed.

Theorem unwind_clean_thm s h :
  bh_inv s h ->
  let h' := unwind s h in
  clean h' /\
  length h' = length h /\
  (forall l c, nth_error h l = Some c -> st c <> Blackholed -> nth_error h' l = Some c) /\
  (forall l c, nth_error h l = Some c -> st c = Blackholed ->
               nth_error h' l = Some (set_state Suspended c)) /\
  (unlocked h -> unlocked h').
Proof.
  intros I h'. destruct (unwind_spec s h I) as [L N]. fold h' in L, N.
  split; [|split; [auto|split; [|split]]].
  - intros l (c & E & B). rewrite N in E. destruct (nth_error h l) as [c0|]; cbn in E; inversion E; subst.
    unfold unwound in B. destruct (st c0) eqn:S0; cbn in B; congruence.
  - intros l c E S. rewrite N, E. cbn. f_equal. unfold unwound. destruct (st c); congruence.
  - intros l c E S. rewrite N, E. cbn. f_equal. unfold unwound. now rewrite S.
  - intros U l c E. rewrite N in E. destruct (nth_error h l) as [c0|] eqn:E0; cbn in E; inversion E; subst.
    unfold unwound. destruct (st c0); cbn; eauto.
Qed.

(* ---------------------------------------------------------------- reachable configurations *)

(* Every run of the machine (the one of `eval`, each of the runs of `eval_full` and `:query`)
   starts with an empty stack on a heap without black-holed thunks. *)
Inductive reachable : config -> Prop :=
| reach_start c h : clean h -> reachable (mkcfg c [] h)
| reach_step c c' : reachable c -> step c = Next c' -> reachable c'.

Theorem blackhole_iff_on_stack_thm c : reachable c -> bh_inv (stack c) (hp c).
Proof.
  induction 1 as [c h C | c c' R IH E].
  - cbn. now apply bh_inv_nil.
  - eapply step_bh_inv; eauto.
Qed.

Lemma run_reachable fuel : forall c r c' k, reachable c -> run fuel c = (r, c', k) -> reachable c'.
Proof.
  induction fuel as [|n IH]; intros c r c' k R E; cbn in E.
  - inversion E; subst; auto.
  - destruct (step c) as [c1| |e] eqn:Es.
    + eapply IH; [|exact E]. eapply reach_step; eauto.
    + inversion E; subst; auto.
    + inversion E; subst; auto.
Qed.

(* ---------------------------------------------------------------- sessions keep the heap clean *)

Lemma step_unlocked c c' : unlocked (hp c) -> step c = Next c' -> unlocked (hp c').
Proof.
  intros U E.
  assert (UA : forall cs, (forall x, In x cs -> locked x = false) -> unlocked (hp c ++ cs)).
  { intros cs Hcs l x Ex. destruct (lt_dec l (length (hp c))).
    - rewrite nth_error_app1 in Ex by auto. eauto.
    - rewrite nth_error_app2 in Ex by lia. apply nth_error_In in Ex. auto. }
  assert (UU : forall i f, (forall x, locked (f x) = locked x) -> unlocked (upd_nth (hp c) i f)).
  { intros i f Hf l x Ex. rewrite nth_error_upd_nth in Ex. destruct (Nat.eqb i l); eauto.
    destruct (nth_error (hp c) l) eqn:E0; cbn in Ex; inversion Ex; subst. rewrite Hf. eauto. }
  assert (R : ret c = Next c' -> unlocked (hp c')).
  { unfold ret_gen. destruct (stack c) as [|[a|l|o c2|o v1|t e|f|sq] s]; try discriminate.
    - intros X; inversion X; subst; cbn. now apply UU.
    - intros X; inversion X; subst; auto.
    - destruct (binop_eval false o v1 (ctrl c) (hp c)) as [r cells|e] eqn:EB; intros X; inversion X; subst; cbn.
      apply UA. intros x I. apply (binop_cells _ _ _ _ _ _ EB x I).
    - destruct (fst (ctrl c)) as [[]|]; try discriminate. destruct b; intros X; inversion X; subst; auto.
    - destruct (fst (ctrl c)) as [|fl]; try discriminate.
      destruct (assoc fl f) as [[? ?]|]; intros X; inversion X; subst; auto.
    - intros X; inversion X; subst; auto. }
  unfold step_gen in E. destruct (fst (ctrl c)) as [t|fl]; auto.
  destruct t; auto; try discriminate.
  - destruct (assoc (snd (ctrl c)) x) as [l|]; try discriminate. unfold enter in E.
    destruct (nth_error (hp c) l) as [cl|]; try discriminate.
    destruct (st cl); try discriminate.
    + destruct (no_update_needed (cur cl)); inversion E; subst; cbn; now apply UU.
    + inversion E; subst; auto.
  - destruct (stack c) as [|[a| | | | | |] s] eqn:Es;
      try (apply R; exact E).
    inversion E; subst; cbn. apply UA. intros x0 [<-|[]]. reflexivity.
  - inversion E; subst; auto.
  - inversion E; subst; cbn. apply UA. intros x0 [<-|[]]. reflexivity.
  - inversion E; subst; cbn. apply UA. intros x0 [<-|[]]. reflexivity.
  - inversion E; subst; auto.
  - inversion E; subst; auto.
  - unfold alloc_rec in E. inversion E; subst; cbn. apply UA.
    intros x0 I. apply in_map_iff in I. destruct I as (fe & <- & _). reflexivity.
  - inversion E; subst; auto.
  - inversion E; subst; auto.
Qed.

Lemma run_unlocked fuel : forall c r c' k,
  unlocked (hp c) -> run fuel c = (r, c', k) -> unlocked (hp c').
Proof.
  induction fuel as [|n IH]; intros c r c' k U E; cbn in E.
  - inversion E; subst; auto.
  - destruct (step c) as [c1| |e] eqn:Es.
    + eapply IH; [|exact E]. eapply step_unlocked; eauto.
    + inversion E; subst; auto.
    + inversion E; subst; auto.
Qed.

(* a run from a clean heap: what remains after the run is unwindable to a clean heap *)
Lemma run_clean fuel c0 h r c' k :
  clean h -> run fuel (mkcfg c0 [] h) = (r, c', k) -> bh_inv (stack c') (hp c').
Proof.
  intros C E. eapply run_bh_inv; [|exact E]. cbn. now apply bh_inv_nil.
Qed.

Lemma run_val_clean fuel c0 h v c' k :
  clean h -> run fuel (mkcfg c0 [] h) = (Val v, c', k) -> clean (hp c').
Proof.
  intros C E. pose proof (run_clean _ _ _ _ _ _ C E) as I.
  rewrite (run_val_stack _ _ _ _ _ E) in I. now apply bh_inv_nil.
Qed.

Definition good_heap (h : heap) : Prop := clean h /\ unlocked h.

Ltac fin3 := split; [solve [auto]|]; split; [solve [auto]|]; try (intros ? ?; discriminate).

(* the drivers of `eval_full` and `:query`: the frames they hand back for unwinding satisfy the
   invariant with the heap they hand back *)
Lemma force_bh d : forall k h c r fr h' k',
  good_heap h -> force d k h c = (r, (fr, h', k')) ->
  bh_inv fr h' /\ unlocked h' /\ (forall a, r = Val a -> fr = []).
Proof.
  induction d as [|d IH]; intros k h c r fr h' k' [C U] E; cbn in E.
  - inversion E; subst. split; [now apply bh_inv_nil|]. split; auto; try discriminate.
  - destruct (run k (mkcfg c [] h)) as [[r0 cf] k0] eqn:Er.
    pose proof (run_clean _ _ _ _ _ _ C Er) as I.
    assert (U0 : unlocked (hp cf)) by (eapply run_unlocked; [|exact Er]; exact U).
    destruct r0 as [w|e|].
    2:{ inversion E; subst. fin3. }
    2:{ inversion E; subst. fin3. }
    pose proof (run_val_clean _ _ _ _ _ _ C Er) as C0.
    assert (base : forall (a : data), (Val a, ([] : list frame, hp cf, k0)) = (r, (fr, h', k')) ->
                   bh_inv fr h' /\ unlocked h' /\ (forall a, r = Val a -> fr = [])).
    { intros a X. inversion X; subst. split; [now apply bh_inv_nil|]. split; auto. }
    destruct (fst w) as [t|fl].
    + destruct t; try (eapply base; exact E).
    + clear base.
      (* the loop over the fields *)
      match type of E with map_res _ (?F fl (hp cf) k0) = _ => set (fields := F) in * end.
      assert (FL : forall fl0 h1 k1 r1 fr1 h2 k2,
                 good_heap h1 -> fields fl0 h1 k1 = (r1, (fr1, h2, k2)) ->
                 bh_inv fr1 h2 /\ unlocked h2 /\ (forall a, r1 = Val a -> fr1 = [])).
      { clear E. intros fl0.
        induction fl0 as [|[f [l bb]] fl0 IHfl]; intros h1 k1 r1 fr1 h2 k2 G1 E1; cbn in E1.
        - inversion E1; subst. destruct G1. split; [now apply bh_inv_nil|]. split; auto.
        - destruct (fields fl0 h1 k1) as [r2 [[fr2 h3] k3]] eqn:E2.
          specialize (IHfl _ _ _ _ _ _ G1 E2). destruct IHfl as (I2 & U2 & V2).
          destruct r2 as [ds|e|].
          2:{ inversion E1; subst. fin3. }
          2:{ inversion E1; subst. fin3. }
          rewrite (V2 ds eq_refl) in I2. apply bh_inv_nil in I2.
          destruct (force d k3 h3 (ptr l)) as [r4 [[fr4 h4] k4]] eqn:E4.
          destruct (IH _ _ _ _ _ _ _ (conj I2 U2) E4) as (I4 & U4 & V4).
          destruct r4 as [dv|e|]; cbn in E1; inversion E1; subst.
          + fin3; intros a _; eapply V4; eauto.
          + fin3.
          + fin3. }
      destruct (fields fl (hp cf) k0) as [r1 [[fr1 h2] k2]] eqn:E1.
      destruct (FL _ _ _ _ _ _ _ (conj C0 U0) E1) as (I1 & U1 & V1).
      destruct r1 as [ds|e|]; cbn in E; inversion E; subst.
      * fin3; intros a _; eapply V1; eauto.
      * fin3.
      * fin3.
Qed.

Lemma query_bh path : forall k h c r fr h' k',
  good_heap h -> query k h c path = (r, (fr, h', k')) ->
  bh_inv fr h' /\ unlocked h'.
Proof.
  induction path as [|f path IH]; intros k h c r fr h' k' [C U] E; cbn in E;
    destruct (run k (mkcfg c [] h)) as [[r0 cf] k0] eqn:Er;
    pose proof (run_clean _ _ _ _ _ _ C Er) as I;
    assert (U0 : unlocked (hp cf)) by (eapply run_unlocked; [|exact Er]; exact U);
    destruct r0 as [w|e|]; try (inversion E; subst; now split);
    pose proof (run_val_clean _ _ _ _ _ _ C Er) as C0.
  - inversion E; subst. split; auto. now apply bh_inv_nil.
  - destruct (fst w) as [t|fl].
    + inversion E; subst. split; auto. now apply bh_inv_nil.
    + destruct (assoc fl f) as [[l bb]|].
      * eapply IH; [|exact E]. split; auto.
      * inversion E; subst. split; auto. now apply bh_inv_nil.
Qed.

(* ---------------------------------------------------------------- locks (eval_record_spine) *)

Definition lock_of (h : heap) (l : loc) : option bool := option_map locked (nth_error h l).

(* the cells of [h] keep their lock flag in [h'], the cells allocated since are unlocked *)
Definition same_locks (h h' : heap) : Prop :=
  length h <= length h' /\
  forall l, (l < length h -> lock_of h' l = lock_of h l) /\
            (length h <= l -> lock_of h' l = None \/ lock_of h' l = Some false).

Lemma same_locks_refl h : same_locks h h.
Proof.
  split; auto. intros l. split; auto. intros L. left. unfold lock_of.
  now rewrite (proj2 (nth_error_None h l) L).
Qed.

Lemma same_locks_trans h1 h2 h3 : same_locks h1 h2 -> same_locks h2 h3 -> same_locks h1 h3.
Proof.
  intros [L1 H1] [L2 H2]. split; [lia|]. intros l. split.
  - intros L. rewrite <- (proj1 (H1 l) L). apply (proj1 (H2 l)). lia.
  - intros L. destruct (lt_dec l (length h2)) as [Lt|Ge].
    + rewrite (proj1 (H2 l) Lt). apply (proj2 (H1 l) L).
    + apply (proj2 (H2 l)). lia.
Qed.

Lemma same_locks_app h cs : (forall c, In c cs -> locked c = false) -> same_locks h (h ++ cs).
Proof.
  intros Hcs. split; [rewrite app_length; lia|]. intros l. unfold lock_of. split.
  - intros L. now rewrite nth_error_app1.
  - intros L. rewrite nth_error_app2 by lia. destruct (nth_error cs (l - length h)) as [c|] eqn:E; auto.
    right. cbn. f_equal. apply Hcs. eapply nth_error_In; eauto.
Qed.

Lemma same_locks_upd h i f : (forall c, locked (f c) = locked c) -> same_locks h (upd_nth h i f).
Proof.
  intros Hf. split; [now rewrite upd_nth_length|]. intros l. unfold lock_of.
  rewrite nth_error_upd_nth. split.
  - intros L. destruct (Nat.eqb i l); auto. destruct (nth_error h l); cbn; auto. now rewrite Hf.
  - intros L. left. rewrite (proj2 (nth_error_None h l) L). now destruct (Nat.eqb i l).
Qed.

Lemma step_same_locks c c' : step c = Next c' -> same_locks (hp c) (hp c').
Proof.
  intros E.
  assert (R : ret c = Next c' -> same_locks (hp c) (hp c')).
  { unfold ret_gen. destruct (stack c) as [|[a|l|o c2|o v1|t e|f|sq] s]; try discriminate.
    - intros X; inversion X; subst; cbn. now apply same_locks_upd.
    - intros X; inversion X; subst; apply same_locks_refl.
    - destruct (binop_eval false o v1 (ctrl c) (hp c)) as [r cells|e] eqn:EB; intros X; inversion X; subst; cbn.
      apply same_locks_app. intros x I. apply (binop_cells _ _ _ _ _ _ EB x I).
    - destruct (fst (ctrl c)) as [[]|]; try discriminate.
      destruct b; intros X; inversion X; subst; apply same_locks_refl.
    - destruct (fst (ctrl c)) as [|fl]; try discriminate.
      destruct (assoc fl f) as [[? ?]|]; intros X; inversion X; subst; apply same_locks_refl.
    - intros X; inversion X; subst; apply same_locks_refl. }
  assert (A1 : forall x, same_locks (hp c) (hp c ++ [new_cell x])).
  { intros x. apply same_locks_app. intros c0 [<-|[]]. reflexivity. }
  unfold step_gen in E. destruct (fst (ctrl c)) as [t|fl]; auto.
  destruct t; auto; try discriminate.
  - destruct (assoc (snd (ctrl c)) x) as [l|]; try discriminate. unfold enter in E.
    destruct (nth_error (hp c) l) as [cl|]; try discriminate.
    destruct (st cl); try discriminate.
    + destruct (no_update_needed (cur cl)); inversion E; subst; cbn; now apply same_locks_upd.
    + inversion E; subst; apply same_locks_refl.
  - destruct (stack c) as [|[a| | | | | |] s] eqn:Es; try (apply R; exact E).
    inversion E; subst; cbn. apply A1.
  - inversion E; subst; apply same_locks_refl.
  - inversion E; subst; cbn. apply A1.
  - inversion E; subst; cbn. apply A1.
  - inversion E; subst; apply same_locks_refl.
  - inversion E; subst; apply same_locks_refl.
  - unfold alloc_rec in E. inversion E; subst; cbn. apply same_locks_app.
    intros x0 I. apply in_map_iff in I. destruct I as (fe & <- & _). reflexivity.
  - inversion E; subst; apply same_locks_refl.
  - inversion E; subst; apply same_locks_refl.
Qed.

Lemma run_same_locks fuel : forall c r c' k, run fuel c = (r, c', k) -> same_locks (hp c) (hp c').
Proof.
  induction fuel as [|n IH]; intros c r c' k E; cbn in E.
  - inversion E; subst. apply same_locks_refl.
  - destruct (step c) as [c1| |e] eqn:Es.
    + eapply same_locks_trans; [eapply step_same_locks; eauto|eauto].
    + inversion E; subst. apply same_locks_refl.
    + inversion E; subst. apply same_locks_refl.
Qed.

Lemma unwind_same_locks s : forall h, same_locks h (unwind s h).
Proof.
  induction s as [|fr s IH]; intros h; cbn; [apply same_locks_refl|].
  destruct fr; auto. eapply same_locks_trans; [|apply IH]. now apply same_locks_upd.
Qed.

Lemma clean_upd_locked h l b : clean h -> clean (upd_nth h l (set_locked b)).
Proof.
  intros C l' B. apply (C l'). apply blackholed_upd in B. destruct (Nat.eqb l l'); auto.
Qed.

Lemma lock_of_upd_locked h l b cl :
  nth_error h l = Some cl -> lock_of (upd_nth h l (set_locked b)) l = Some b.
Proof. intros E. unfold lock_of. now rewrite (nth_error_upd_nth_eq _ _ _ _ E). Qed.

Lemma lock_of_upd_other h l l' f : l <> l' -> lock_of (upd_nth h l f) l' = lock_of h l'.
Proof. intros N. unfold lock_of. now rewrite nth_error_upd_nth_neq. Qed.

(* [lock l; ... ; unlock l] restores the locks *)
Lemma relock_same_locks h l cl h2 :
  nth_error h l = Some cl -> locked cl = false ->
  same_locks (upd_nth h l (set_locked true)) h2 ->
  same_locks h (upd_nth h2 l (set_locked false)).
Proof.
  intros E LK [L H]. rewrite upd_nth_length in L. split; [now rewrite upd_nth_length|].
  assert (Ll : l < length h) by (apply nth_error_Some; congruence).
  intros l'. rewrite upd_nth_length in H. split.
  - intros Lt. destruct (Nat.eq_dec l l') as [<-|N].
    + destruct (nth_error h2 l) as [c2|] eqn:E2.
      * rewrite (lock_of_upd_locked _ _ _ _ E2). unfold lock_of. now rewrite E, <- LK.
      * apply nth_error_None in E2. lia.
    + rewrite lock_of_upd_other by auto. rewrite (proj1 (H l') Lt). now apply lock_of_upd_other.
  - intros Ge. rewrite lock_of_upd_other by lia. apply (proj2 (H l') Ge).
Qed.

Lemma same_locks_unlocked h h' : same_locks h h' -> unlocked h -> unlocked h'.
Proof.
  intros [L H] U l c E. destruct (lt_dec l (length h)) as [Lt|Ge].
  - pose proof (proj1 (H l) Lt) as Q. unfold lock_of in Q. rewrite E in Q.
    destruct (nth_error h l) as [c0|] eqn:E0; cbn in Q; inversion Q. rewrite H1. eauto.
  - destruct (proj2 (H l) ltac:(lia)) as [Q|Q]; unfold lock_of in Q; rewrite E in Q; cbn in Q; congruence.
Qed.

(* eval_record_spine: every abandoned run is unwound at once, every lock taken is released *)
Lemma spine_good d : forall k h l r h' k',
  clean h -> spine_with true unwind d k h l = (r, (h', k')) -> clean h' /\ same_locks h h'.
Proof.
  induction d as [|d IH]; intros k h l r h' k' C E; cbn in E.
  - inversion E; subst. split; auto using same_locks_refl.
  - destruct (nth_error h l) as [cl|] eqn:Ecl.
    2:{ inversion E; subst. split; auto using same_locks_refl. }
    destruct (locked cl) eqn:LK.
    { inversion E; subst. split; auto using same_locks_refl. }
    set (h1 := upd_nth h l (set_locked true)) in *.
    assert (C1 : clean h1) by now apply clean_upd_locked.
    assert (FIN : forall r0 h2 k2,
              clean h2 -> same_locks h1 h2 ->
              (r0, (upd_nth h2 l (set_locked false), k2)) = (r, (h', k')) ->
              clean h' /\ same_locks h h').
    { intros r0 h2 k2 C2 S2 X. inversion X; subst. split; [now apply clean_upd_locked|].
      eapply relock_same_locks; eauto. }
    destruct (run k (mkcfg (ptr l) [] h1)) as [[r0 cf] k0] eqn:Er.
    pose proof (run_same_locks _ _ _ _ _ Er) as S1. cbn [hp] in S1.
    pose proof (run_clean _ _ _ _ _ _ C1 Er) as I1.
    destruct r0 as [w|e|].
    2:{ cbn in E. eapply FIN; [| |exact E].
        - apply (unwind_clean_thm _ _ I1).
        - eapply same_locks_trans; [exact S1|apply unwind_same_locks]. }
    2:{ cbn in E. eapply FIN; [| |exact E].
        - apply (unwind_clean_thm _ _ I1).
        - eapply same_locks_trans; [exact S1|apply unwind_same_locks]. }
    pose proof (run_val_clean _ _ _ _ _ _ C1 Er) as C0.
    destruct (fst w) as [t|fl].
    + destruct t; cbn in E; (eapply FIN; [exact C0|exact S1|exact E]).
    + match type of E with context [?F fl (hp cf) k0] => set (fields := F) in * end.
      assert (FL : forall fl0 h3 k3 r3 h4 k4,
                 clean h3 -> fields fl0 h3 k3 = (r3, (h4, k4)) -> clean h4 /\ same_locks h3 h4).
      { clear E FIN. intros fl0. induction fl0 as [|[f [lf bb]] fl0 IHfl]; intros h3 k3 r3 h4 k4 C3 E3; cbn in E3.
        - inversion E3; subst. split; auto using same_locks_refl.
        - destruct (spine_with true unwind d k3 h3 lf) as [r5 [h5 k5]] eqn:E5.
          destruct (IH _ _ _ _ _ _ C3 E5) as [C5 S5].
          destruct r5 as [dv|e|]; try (inversion E3; subst; split; auto; fail).
          destruct (fields fl0 h5 k5) as [r6 [h6 k6]] eqn:E6.
          destruct (IHfl _ _ _ _ _ C5 E6) as [C6 S6].
          destruct r6 as [ds|e|]; inversion E3; subst; split; eauto using same_locks_trans. }
      destruct (fields fl (hp cf) k0) as [r3 [h4 k4]] eqn:E3.
      destruct (FL _ _ _ _ _ _ C0 E3) as [C4 S4].
      destruct r3 as [ds|e|]; cbn in E; (eapply FIN; [exact C4|eapply same_locks_trans; eauto|exact E]).
Qed.

Theorem sess_step_good s i : good_heap (sheap s) -> good_heap (sheap (fst (sess_step s i))).
Proof.
  intros [C U]. destruct i as [x e|k e|k e|k x path|k e]; unfold sess_step, sess_step_with, sess_step_gen.
  - cbn [fst sheap]. split.
    + intros l B. apply (C l). revert B. apply blackholed_app. intros c [<-|[]]. apply new_cell_not_bh.
    + intros l c E. destruct (lt_dec l (length (sheap s))).
      * rewrite nth_error_app1 in E by auto. eauto.
      * rewrite nth_error_app2 in E by lia. apply nth_error_In in E. destruct E as [<-|[]]. reflexivity.
  - destruct (run k (mkcfg (CTm e, stop s) [] (sheap s))) as [[r cf] k'] eqn:Er. cbn [fst sheap].
    pose proof (run_clean _ _ _ _ _ _ C Er) as I.
    destruct (unwind_clean_thm _ _ I) as (C' & _ & _ & _ & U').
    split; auto. apply U'. eapply run_unlocked; [|exact Er]. exact U.
  - destruct (force (S k) k (sheap s) (CTm e, stop s)) as [r [[fr h] k']] eqn:Ef. cbn [fst sheap].
    destruct (force_bh _ _ _ _ _ _ _ _ (conj C U) Ef) as (I & U1 & _).
    destruct (unwind_clean_thm _ _ I) as (C' & _ & _ & _ & U'). split; auto.
  - destruct (query k (sheap s) (CTm (Var x), stop s) path) as [r [[fr h] k']] eqn:Eq. cbn [fst sheap].
    destruct (query_bh _ _ _ _ _ _ _ _ (conj C U) Eq) as (I & U1).
    destruct (unwind_clean_thm _ _ I) as (C' & _ & _ & _ & U'). split; auto.
  - destruct (spine_with true unwind (S k) k (sheap s ++ [new_cell (CTm e, stop s)]) (length (sheap s)))
      as [r [h k']] eqn:Es. cbn [fst sheap].
    assert (C0 : clean (sheap s ++ [new_cell (CTm e, stop s)])).
    { intros l B. apply (C l). revert B. apply blackholed_app. intros c [<-|[]]. apply new_cell_not_bh. }
    destruct (spine_good _ _ _ _ _ _ _ C0 Es) as [C1 S1]. split; auto.
    eapply same_locks_unlocked; [exact S1|].
    intros l c E. destruct (lt_dec l (length (sheap s))).
    + rewrite nth_error_app1 in E by auto. eauto.
    + rewrite nth_error_app2 in E by lia. apply nth_error_In in E. destruct E as [<-|[]]. reflexivity.
Qed.

Lemma sess_run_fst s h :
  fst (sess_run s h) = fold_left (fun s i => fst (sess_step s i)) h s.
Proof.
  revert s; induction h as [|i h IH]; intros s; cbn; auto.
  unfold sess_run, sess_step in *. cbn.
  destruct (sess_step_with unwind s i) as [s' o] eqn:E1.
  destruct (sess_run_with unwind s' h) as [s'' os] eqn:E2. cbn.
  rewrite <- IH, E2. reflexivity.
Qed.

(* After any history whatsoever (inputs that succeed, fail at any depth, or run out of budget
   after any number of steps) no thunk of the session is black-holed or locked. *)
Theorem session_heap_good h : good_heap (sheap (fst (sess_run empty_session h))).
Proof.
  rewrite sess_run_fst.
  assert (G : good_heap (sheap empty_session)).
  { split; intros l; cbn; destruct l; cbn; try discriminate; intros (c & E & _); discriminate. }
  revert G. generalize empty_session. induction h as [|i h IH]; intros s G; cbn; auto.
  apply IH. now apply sess_step_good.
Qed.
