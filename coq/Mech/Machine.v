(* C12 — mechanism model: the call-by-need abstract machine of core/src/eval/mod.rs restricted to
   the language of Syntax.v, with the thunk states of core/src/eval/cache/lazy.rs, the update
   frames and [unwind] of core/src/eval/stack.rs, and the REPL session layer of
   core/src/repl/mod.rs.  Definitions only (extracted by Extract/C12.v); proofs are in
   Invariants.v / Refine.v.

   Reading of the code that this file mirrors
   ------------------------------------------
   * A thunk (lazy.rs [ThunkData]) = closure + [ThunkState] (Suspended | Blackholed | Evaluated)
     + [locked] flag.  Here: [cell]; [cur] is the closure stored in the thunk, [orig] is a ghost
     copy of the closure the thunk was created with (no transition reads it; the theorems use it).
   * [VirtualMachine::eval_closure_impl], one loop iteration = [step]:
       - Var / Thunk           -> [enter] = [enter_cache_index] + [CBNCache::get_update_index]:
            Evaluated                        : no update frame, continue with the stored closure;
            Suspended, stored closure is a
              value block (not a Term)       : [set_evaluated], no frame  ([!should_update]);
            Suspended otherwise              : state := Blackholed, push the update frame;
            Blackholed                       : [EvalErrorKind::InfiniteRecursion].
       - App                   -> push the argument closure, continue with the head
       - Let / LetRec          -> [cache.add] a thunk per binding (the recursive one is patched
                                  with the extended environment), continue with the body
       - Op2                   -> push [Op2FirstCont], evaluate the first operand; then
                                  [Op2SecondCont]; then [eval_op2] (type error unless both numbers)
       - If                    -> Nickel desugars to [Op1(IfThenElse, c) t e]: an [Op1Cont] above
                                  two [Arg] items; modelled as one frame [FIf t e]
       - Rec                   -> [RecRecord]: one thunk per field, all of them closed over the
                                  recursive environment; the control becomes the record value
       - Proj                  -> [Op1Cont(RecordAccess f)]; on a record value the control becomes
                                  the field's thunk ([ptr])
       - Seq (std.seq a b)     -> [Op1Cont(Seq)]: evaluate a, drop the value, continue with b
       - Op2 OMerge (a & b)    -> merge.rs, for numbers, booleans and records all of whose fields
                                  are STANDARD thunks (no dependency on a sibling field): fields of
                                  one side keep their thunk ([revert] of a standard thunk is the
                                  thunk itself); a field of both sides gets a new thunk holding
                                  `copy1 & copy2` where copy_i is a COPY of the data of the side's
                                  thunk ([Thunk::saturate]; [copy_cell] says what a copy inherits).
                                  A record with a revertible field (recursive overriding) is
                                  outside the model: explicit outcome [EOutOfFragment].
       - Fun                   -> if the top of the stack is an argument: [pop_arg_as_idx]
                                  (allocates a thunk), bind, continue with the body
       - weak head normal form -> top is an update frame: [update_at_indices] (the Rust code pops
                                  all consecutive frames in one iteration, the model one per step:
                                  same states are reached, plus the intermediate ones);
                                  top is a continuation: [continue_op]; top is an argument:
                                  [NotAFunc]; empty stack: done.
   * [Stack::unwind] (called by [VirtualMachine::reset], i.e. by [Drop for VirtualMachine]):
     pops every item and calls [reset_state] (state := Suspended) on the thunk of every update
     frame = [unwind].
   * [ReplImpl::eval_]: a top-level `let x = e` allocates one thunk closed over the current
     environment ([eval::env_add]); an expression is evaluated by a fresh [VirtualMachine] over
     the session's [VmContext]; the VM is dropped (= unwound) when [eval_] returns, whatever the
     result.  The step budget of hook H1 ([verif_hooks::set_fuel]) is the [k] of each input:
     an evaluation "abandoned after k steps" is an input whose budget is too small. *)
From Coq Require Import String ZArith List Bool Arith.
Import ListNotations.
From NV Require Import Mech.Syntax.
Open Scope string_scope.
Open Scope list_scope.

Notation loc := nat (only parsing).   (* thunk address = index in the heap *)
Definition menv := list (string * loc).

(* What a closure can hold: a source term, or an evaluated record (field -> thunk). *)
Inductive code :=
| CTm (t : tm)
| CRecV (fs : list (string * (loc * bool))).   (* field -> thunk, is the thunk revertible (has deps) *)

Definition clos : Type := code * menv.

Inductive tstate := Suspended | Blackholed | Evaluated.

Record cell := mkcell { orig : clos; cur : clos; st : tstate; locked : bool }.
Definition heap := list cell.

Inductive frame :=
| FArg (c : clos)                        (* Marker::Arg *)
| FUpd (l : loc)                         (* Marker::UpdateIndex *)
| FOp2First (o : binop) (c : clos)       (* Marker::Op2FirstCont: second operand pending *)
| FOp2Second (o : binop) (v : clos)      (* Marker::Op2SecondCont: first operand evaluated *)
| FIf (t e : clos)                       (* Op1Cont(IfThenElse) + its two Arg items *)
| FProj (f : string)                     (* Op1Cont(RecordAccess f) *)
| FSeq (c : clos).                       (* Op1Cont(Seq) + its Arg item: what to evaluate next *)

Record config := mkcfg { ctrl : clos; stack : list frame; hp : heap }.

(* ---------------------------------------------------------------- heap primitives *)

Fixpoint upd_nth {A} (l : list A) (i : nat) (f : A -> A) : list A :=
  match l, i with
  | [], _ => []
  | a :: l', 0 => f a :: l'
  | a :: l', S i' => a :: upd_nth l' i' f
  end.

Definition new_cell (c : clos) : cell := mkcell c c Suspended false.            (* Thunk::new *)
Definition set_state (s : tstate) (c : cell) : cell := mkcell (orig c) (cur c) s (locked c).
Definition set_value (v : clos) (c : cell) : cell := mkcell (orig c) v Evaluated (locked c). (* ThunkData::update *)
Definition set_locked (b : bool) (c : cell) : cell := mkcell (orig c) (cur c) (st c) b.

(* [NickelValue::is_whnf] of the stored closure: true for value blocks (numbers, booleans,
   evaluated records), false for every [Term] — functions included.  [should_update] is its
   negation. *)
Definition no_update_needed (c : clos) : bool :=
  match fst c with
  | CTm (Num _) | CTm (Bool _) | CRecV _ => true
  | _ => false
  end.

(* The control is a weak head normal form (the `_` arm and the `Fun` arm of the main loop). *)
Definition is_value (c : clos) : bool :=
  match fst c with
  | CTm (Num _) | CTm (Bool _) | CTm (Lam _ _) | CRecV _ => true
  | _ => false
  end.

(* A closure whose evaluation enters thunk [l] (a `Thunk` value in the Rust code; both the `Var`
   arm and the `Thunk` arm call [enter_cache_index]).  "%" is not a Nickel identifier. *)
Definition ptr (l : loc) : clos := (CTm (Var "%"), [("%", l)]).

Definition rfields := list (string * (loc * bool)).
Definition locs_of (fl : rfields) : menv := map (fun p => (fst p, fst (snd p))) fl.
Definition any_rev (fl : rfields) : bool := existsb (fun p => snd (snd p)) fl.

(* the body of the thunk of a field defined on both sides of a merge *)
Definition merge_body : tm := Op2 OMerge (Var "%1") (Var "%2").

(* A copy of the data of a thunk ([ThunkData::clone]: made by [Thunk::saturate] for a standard
   thunk, and by `NickelValue::with_pos_idx` / `make_unique` whenever the value block holding the
   thunk is shared).
     keep = true  : the pinned code (derived Clone): the closure AND the state (and the lock flag)
                    are copied, so the copy of a thunk under evaluation is born black-holed
                    although no update frame references it;
     keep = false : the repair of proposed/C12-saturate-state.diff: a black-holed original gives a
                    suspended copy (it still holds its unevaluated closure), never locked. *)
Definition copy_cell (keep : bool) (c : cell) : cell :=
  if keep then c
  else mkcell (orig c) (cur c) (match st c with Blackholed => Suspended | s => s end) false.

(* merge.rs [fields_merge_closurize] on the fields present on both sides: `saturate(t1)` and
   `saturate(t2)` are copies of the two (standard) thunks, and a new standard thunk holds
   `copy1 & copy2`. *)
Fixpoint merge_center (keep : bool) (h : heap) (base : nat)
         (cs : list (string * ((loc * bool) * (loc * bool)))) : list cell * rfields :=
  match cs with
  | [] => ([], [])
  | (f, (p1, p2)) :: cs' =>
      match nth_error h (fst p1), nth_error h (fst p2) with
      | Some c1, Some c2 =>
          let (cells, fl) := merge_center keep h (3 + base) cs' in
          (copy_cell keep c1 :: copy_cell keep c2
             :: new_cell (CTm merge_body, [("%1", base); ("%2", S base)]) :: cells,
           (f, (2 + base, false)) :: fl)
      | _, _ => ([], [])     (* dangling field thunk: unreachable *)
      end
  end.

Inductive bres :=
| BVal (r : clos) (cells : list cell)     (* result, thunks allocated by the operation *)
| BErr (e : err).

(* [eval_op2] / [merge]: both operands are weak head normal forms *)
Definition binop_eval (keep : bool) (o : binop) (a b : clos) (h : heap) : bres :=
  match o with
  | OMerge =>
      match fst a, fst b with
      | CTm (Num x), CTm (Num y) =>
          if Z.eqb x y then BVal (CTm (Num x), []) [] else BErr ENonMergeable
      | CTm (Bool x), CTm (Bool y) =>
          if Bool.eqb x y then BVal (CTm (Bool x), []) [] else BErr ENonMergeable
      | CRecV fl1, CRecV fl2 =>
          if any_rev fl1 || any_rev fl2 then BErr EOutOfFragment
          else
            let (cells, cfl) := merge_center keep h (length h) (center_part fl1 fl2) in
            BVal (CRecV (left_part fl1 fl2 ++ cfl ++ left_part fl2 fl1), []) cells
      | _, _ => BErr ENonMergeable
      end
  | _ =>
      match fst a, fst b with
      | CTm (Num x), CTm (Num y) =>
          BVal (match o with
                | OAdd => (CTm (Num (x + y)), [])
                | OSub => (CTm (Num (x - y)), [])
                | _ => (CTm (Bool (Z.ltb x y)), [])
                end) []
      | _, _ => BErr ETypeErr
      end
  end.

(* RecRecord: thunks [length h ..] for the fields, each closed over env + all the fields; a field
   mentioning a sibling gets a revertible thunk (closurize_rec_record + free_vars) *)
Definition alloc_rec (h : heap) (env : menv) (fs : list (string * tm)) : heap * rfields :=
  let names := map fst fs in
  let fl := combine names (combine (seq (length h) (length fs)) (map (fun fe => fvb [] names (snd fe)) fs)) in
  let env' := locs_of fl ++ env in
  (h ++ map (fun fe => new_cell (CTm (snd fe), env')) fs, fl).

(* ---------------------------------------------------------------- one transition *)

Inductive stepres :=
| Next (c : config)
| Done                 (* the control is the result, the stack is empty *)
| Raise (e : err).     (* the evaluation raises [e]; the stack is left as it is *)

Definition enter (l : loc) (c : config) : stepres :=
  match nth_error (hp c) l with
  | None => Raise EPanic
  | Some cl =>
      match st cl with
      | Evaluated => Next (mkcfg (cur cl) (stack c) (hp c))
      | Blackholed => Raise EInfRec
      | Suspended =>
          if no_update_needed (cur cl)
          then Next (mkcfg (cur cl) (stack c) (upd_nth (hp c) l (set_state Evaluated)))
          else Next (mkcfg (cur cl) (FUpd l :: stack c) (upd_nth (hp c) l (set_state Blackholed)))
      end
  end.

Section Machine.
(* how the data of a thunk is copied, see [copy_cell]; the machine everything is proved about is
   [keep = false] (notations [ret], [step], [run] below) *)
Variable keep : bool.

(* The control is a weak head normal form and no argument can be consumed. *)
Definition ret_gen (c : config) : stepres :=
  let v := ctrl c in
  match stack c with
  | [] => Done
  | FUpd l :: s => Next (mkcfg v s (upd_nth (hp c) l (set_value v)))
  | FArg _ :: _ => Raise ENotAFunc
  | FOp2First o c2 :: s => Next (mkcfg c2 (FOp2Second o v :: s) (hp c))
  | FOp2Second o v1 :: s =>
      match binop_eval keep o v1 v (hp c) with
      | BVal r cells => Next (mkcfg r s (hp c ++ cells))
      | BErr e => Raise e
      end
  | FIf t e :: s =>
      match fst v with
      | CTm (Bool true) => Next (mkcfg t s (hp c))
      | CTm (Bool false) => Next (mkcfg e s (hp c))
      | _ => Raise ETypeErr
      end
  | FProj f :: s =>
      match fst v with
      | CRecV fl =>
          match assoc fl f with
          | Some (l, _) => Next (mkcfg (ptr l) s (hp c))
          | None => Raise EFieldMissing
          end
      | _ => Raise ETypeErr
      end
  | FSeq c2 :: s => Next (mkcfg c2 s (hp c))
  end.

Definition step_gen (c : config) : stepres :=
  let env := snd (ctrl c) in
  match fst (ctrl c) with
  | CTm (Var x) =>
      match assoc env x with
      | Some l => enter l c
      | None => Raise EUnbound
      end
  | CTm (App f a) => Next (mkcfg (CTm f, env) (FArg (CTm a, env) :: stack c) (hp c))
  | CTm (Let x e b) =>
      Next (mkcfg (CTm b, (x, length (hp c)) :: env) (stack c) (hp c ++ [new_cell (CTm e, env)]))
  | CTm (LetRec x e b) =>
      let env' := (x, length (hp c)) :: env in
      Next (mkcfg (CTm b, env') (stack c) (hp c ++ [new_cell (CTm e, env')]))
  | CTm (Op2 o a b) => Next (mkcfg (CTm a, env) (FOp2First o (CTm b, env) :: stack c) (hp c))
  | CTm (If g t e) => Next (mkcfg (CTm g, env) (FIf (CTm t, env) (CTm e, env) :: stack c) (hp c))
  | CTm (Rec fs) =>
      let (h', fl) := alloc_rec (hp c) env fs in
      Next (mkcfg (CRecV fl, []) (stack c) h')
  | CTm (Proj e f) => Next (mkcfg (CTm e, env) (FProj f :: stack c) (hp c))
  | CTm (Seq a b) => Next (mkcfg (CTm a, env) (FSeq (CTm b, env) :: stack c) (hp c))
  | CTm Fail => Raise EBlame
  | CTm (Lam x b) =>
      match stack c with
      | FArg a :: s =>
          Next (mkcfg (CTm b, (x, length (hp c)) :: env) s (hp c ++ [new_cell a]))
      | _ => ret_gen c
      end
  | CTm (Num _) | CTm (Bool _) | CRecV _ => ret_gen c
  end.

(* [eval_closure_impl] under the step budget of hook H1.  Returns the outcome, the configuration
   in which the loop stopped (its stack is what [Drop] will unwind) and the unused budget. *)
Fixpoint run_gen (fuel : nat) (c : config) : res clos * config * nat :=
  match fuel with
  | 0 => (OOF, c, 0)
  | S n =>
      match step_gen c with
      | Next c' => run_gen n c'
      | Done => (Val (ctrl c), c, n)
      | Raise e => (Err e, c, n)
      end
  end.

End Machine.

Notation ret := (ret_gen false).
Notation step := (step_gen false).
Notation run := (run_gen false).

(* ---------------------------------------------------------------- unwinding *)

(* [Stack::unwind]: pop everything; [reset_state] the thunk of every update frame. *)
Fixpoint unwind (s : list frame) (h : heap) : heap :=
  match s with
  | [] => h
  | FUpd l :: s' => unwind s' (upd_nth h l (set_state Suspended))
  | _ :: s' => unwind s' h
  end.

(* The deliberately broken variant: the stack is dropped but the thunks under evaluation are
   left black-holed (what happens with [NoUnwindVirtualMachine], or if [reset] were not called
   from [Drop]). *)
Definition unwind_broken (s : list frame) (h : heap) : heap := h.

(* ---------------------------------------------------------------- observations *)

Definition obs_of (v : clos) : obs :=
  match fst v with
  | CTm (Num n) => ONum n
  | CTm (Bool b) => OBool b
  | CRecV fl => ORec (map fst fl)
  | _ => OFun
  end.

Inductive outcome :=
| OBound                  (* a top-level let was recorded *)
| OOk (o : obs)           (* weak head normal form *)
| OData (d : data)        (* full evaluation *)
| OErr (e : err)
| OBudget.                (* step budget exhausted: the evaluation was abandoned *)

(* ---------------------------------------------------------------- deep evaluation, query *)

(* `eval_full` = %force%: evaluate to a weak head normal form, then every field (in the Rust
   code one machine run in which %force% re-schedules itself on the fields, last field first;
   here a driver that starts one run per thunk — the thunks entered, the order and the values
   are the same; the difference is only in which frames are on the stack when the budget runs
   out, and they are all unwound).  [d] bounds the depth of the data, [k] is the step budget.
   Returns the frames left by a failed run (to be unwound by the caller). *)
Definition frc : Type := list frame * heap * nat.

Definition map_res {A B} (f : A -> B) (r : res A * frc) : res B * frc :=
  match r with
  | (Val a, x) => (Val (f a), x)
  | (Err e, x) => (Err e, x)
  | (OOF, x) => (OOF, x)
  end.

Fixpoint force (d : nat) (k : nat) (h : heap) (c : clos) : res data * frc :=
  match d with
  | 0 => (OOF, ([], h, k))
  | S d' =>
      match run k (mkcfg c [] h) with
      | (Val w, cf, k') =>
          match fst w with
          | CTm (Num n) => (Val (DNum n), ([], hp cf, k'))
          | CTm (Bool b) => (Val (DBool b), ([], hp cf, k'))
          | CRecV fl =>
              map_res DRec
                ((fix fields (fl : rfields) (h : heap) (k : nat)
                    : res (list (string * data)) * frc :=
                    match fl with
                    | [] => (Val [], ([], h, k))
                    | (f, (l, _)) :: fl' =>
                        match fields fl' h k with
                        | (Val ds, (_, h1, k1)) =>
                            map_res (fun dv => (f, dv) :: ds) (force d' k1 h1 (ptr l))
                        | r => r
                        end
                    end) fl (hp cf) k')
          | _ => (Val DFun, ([], hp cf, k'))
          end
      | (Err e, cf, k') => (Err e, (stack cf, hp cf, k'))
      | (OOF, cf, k') => (OOF, (stack cf, hp cf, k'))
      end
  end.

(* `:query x.a.b` = [VirtualMachine::query_closure]: evaluate `x`; for every further path
   element the value must be a record ([QueryNonRecord] otherwise) having that field
   ([FieldMissing]); the field's value is evaluated in turn, by the same VM (no reset in
   between: each successful run leaves an empty stack).  The last one is the answer. *)
Fixpoint query (k : nat) (h : heap) (c : clos) (path : list string)
  : res clos * frc :=
  match run k (mkcfg c [] h) with
  | (Val w, cf, k') =>
      match path with
      | [] => (Val w, ([], hp cf, k'))
      | f :: path' =>
          match fst w with
          | CRecV fl =>
              match assoc fl f with
              | Some (l, _) => query k' (hp cf) (ptr l) path'
              | None => (Err EFieldMissing, ([], hp cf, k'))
              end
          | _ => (Err EQueryNonRecord, ([], hp cf, k'))
          end
      end
  | (Err e, cf, k') => (Err e, (stack cf, hp cf, k'))
  | (OOF, cf, k') => (OOF, (stack cf, hp cf, k'))
  end.

(* `Program::eval_record_spine` (program.rs: [eval_guarded] / [do_eval]): evaluate thunk [l] to a
   weak head normal form and, if it is a record, its fields in turn, recursively.  To stop on
   recursive structures the thunk is [lock]ed while its children are evaluated; a thunk found
   locked is returned unevaluated ([DThunk]).  The thunk is unlocked when [do_eval] returns,
   whether it succeeded or failed ([unlock_on_err = true]; [false] is the broken variant that
   forgets the error path).  Every [do_eval] uses its own VM, dropped (unwound by [unw]) as soon
   as its evaluation returns. *)
Fixpoint spine_with (unlock_on_err : bool) (unw : list frame -> heap -> heap)
         (d k : nat) (h : heap) (l : loc) : res data * (heap * nat) :=
  match d with
  | 0 => (OOF, (h, k))
  | S d' =>
      match nth_error h l with
      | None => (Err EPanic, (h, k))
      | Some cl =>
          if locked cl then (Val DThunk, (h, k))
          else
            let h1 := upd_nth h l (set_locked true) in
            let res :=
              match run k (mkcfg (ptr l) [] h1) with
              | (Val w, cf, k') =>
                  match fst w with
                  | CTm (Num n) => (Val (DNum n), (hp cf, k'))
                  | CTm (Bool b) => (Val (DBool b), (hp cf, k'))
                  | CRecV fl =>
                      match
                        (fix fields (fl : rfields) (h : heap) (k : nat)
                           : res (list (string * data)) * (heap * nat) :=
                           match fl with
                           | [] => (Val [], (h, k))
                           | (f, (lf, _)) :: fl' =>
                               match spine_with unlock_on_err unw d' k h lf with
                               | (Val dv, (h1, k1)) =>
                                   match fields fl' h1 k1 with
                                   | (Val ds, x) => (Val ((f, dv) :: ds), x)
                                   | r => r
                                   end
                               | (Err e, x) => (Err e, x)
                               | (OOF, x) => (OOF, x)
                               end
                           end) fl (hp cf) k'
                      with
                      | (Val ds, x) => (Val (DRec ds), x)
                      | (Err e, x) => (Err e, x)
                      | (OOF, x) => (OOF, x)
                      end
                  | _ => (Val DFun, (hp cf, k'))
                  end
              | (Err e, cf, k') => (Err e, (unw (stack cf) (hp cf), k'))
              | (OOF, cf, k') => (OOF, (unw (stack cf) (hp cf), k'))
              end in
            match res with
            | (r, (h2, k2)) =>
                let unlock := match r with Val _ => true | _ => unlock_on_err end in
                (r, ((if unlock then upd_nth h2 l (set_locked false) else h2), k2))
            end
      end
  end.

(* ---------------------------------------------------------------- sessions *)

Record session := mksess { sheap : heap; stop : menv }.
Definition empty_session : session := mksess [] [].

Inductive input :=
| IDef (x : string) (e : tm)                         (* let x = e        *)
| IEval (k : nat) (e : tm)                           (* e                 (budget k) *)
| IFull (k : nat) (e : tm)                       (* :print e          (budget k) *)
| IQuery (k : nat) (x : string) (path : list string) (* :query x.p1...pn  (budget k) *)
| ISpine (k : nat) (e : tm).                        (* eval_record_spine of e (budget k) *)

(* An evaluation abandoned after [k] steps is an evaluation whose budget is [k]. *)
Definition Abort (k : nat) (e : tm) : input := IEval k e.

Definition out_of {A} (f : A -> outcome) (r : res A) : outcome :=
  match r with Val a => f a | Err e => OErr e | OOF => OBudget end.

(* One REPL input.  [unw] is what dropping the VM does ([unwind], or [unwind_broken]). *)
Definition sess_step_gen (unlock_on_err : bool) (unw : list frame -> heap -> heap) (s : session) (i : input)
  : session * outcome :=
  match i with
  | IDef x e =>
      (mksess (sheap s ++ [new_cell (CTm e, stop s)]) ((x, length (sheap s)) :: stop s), OBound)
  | IEval k e =>
      match run k (mkcfg (CTm e, stop s) [] (sheap s)) with
      | (r, cf, _) => (mksess (unw (stack cf) (hp cf)) (stop s), out_of (fun v => OOk (obs_of v)) r)
      end
  | IFull k e =>
      match force (S k) k (sheap s) (CTm e, stop s) with
      | (r, (fr, h, _)) => (mksess (unw fr h) (stop s), out_of OData r)
      end
  | IQuery k x path =>
      match query k (sheap s) (CTm (Var x), stop s) path with
      | (r, (fr, h, _)) => (mksess (unw fr h) (stop s), out_of (fun v => OOk (obs_of v)) r)
      end
  | ISpine k e =>
      (* the prepared main term is one thunk *)
      match spine_with unlock_on_err unw (S k) k (sheap s ++ [new_cell (CTm e, stop s)]) (length (sheap s)) with
      | (r, (h, _)) => (mksess h (stop s), out_of OData r)
      end
  end.

Definition sess_step_with := sess_step_gen true.
Definition sess_step := sess_step_with unwind.
(* the variant of eval_guarded that forgets to unlock on the error path *)
Definition sess_step_nounlock := sess_step_gen false unwind.
Definition sess_step_broken := sess_step_with unwind_broken.

Fixpoint sess_run_with (unw : list frame -> heap -> heap) (s : session) (h : list input)
  : session * list outcome :=
  match h with
  | [] => (s, [])
  | i :: h' =>
      let (s', o) := sess_step_with unw s i in
      let (s'', os) := sess_run_with unw s' h' in
      (s'', o :: os)
  end.

Definition sess_run := sess_run_with unwind.
Definition sess_run_broken := sess_run_with unwind_broken.

Fixpoint sess_run_nounlock (s : session) (h : list input) : session * list outcome :=
  match h with
  | [] => (s, [])
  | i :: h' =>
      let (s', o) := sess_step_nounlock s i in
      let (s'', os) := sess_run_nounlock s' h' in
      (s'', o :: os)
  end.

(* The top-level definitions of a history, oldest first. *)
Fixpoint defs_of (h : list input) : list (string * tm) :=
  match h with
  | [] => []
  | IDef x e :: h' => (x, e) :: defs_of h'
  | _ :: h' => defs_of h'
  end.

(* the session over the machine whose copies of thunk data keep the state (the pinned derived
   Clone of ThunkData); only `eval` differs from [sess_step] *)
Definition sess_step_satcopy (s : session) (i : input) : session * outcome :=
  match i with
  | IEval k e =>
      match run_gen true k (mkcfg (CTm e, stop s) [] (sheap s)) with
      | (r, cf, _) => (mksess (unwind (stack cf) (hp cf)) (stop s), out_of (fun v => OOk (obs_of v)) r)
      end
  | _ => sess_step s i
  end.

Fixpoint sess_run_satcopy (s : session) (h : list input) : session * list outcome :=
  match h with
  | [] => (s, [])
  | i :: h' =>
      let (s', o) := sess_step_satcopy s i in
      let (s'', os) := sess_run_satcopy s' h' in
      (s'', o :: os)
  end.

(* The stand-alone run the property compares with: a fresh machine on `let x1 = e1 in ... e`. *)
Definition fresh_eval (k : nat) (defs : list (string * tm)) (e : tm) : outcome :=
  snd (sess_step empty_session (IEval k (chain defs e))).

Definition fresh_eval_full (k : nat) (defs : list (string * tm)) (e : tm) : outcome :=
  snd (sess_step empty_session (IFull k (chain defs e))).

(* How many thunks are black-holed / locked (what hook H7 would report). *)
Definition count_blackholed (h : heap) : nat :=
  length (filter (fun c => match st c with Blackholed => true | _ => false end) h).
Definition count_locked (h : heap) : nat := length (filter locked h).
