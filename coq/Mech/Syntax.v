(* C12 — the small language shared by the mechanism model (Machine.v) and the stand-alone
   call-by-name meaning (Spec.v).

   It is the fragment of Nickel that matters for session interference: variables, functions,
   (recursive) let, numbers and booleans with strict primitive operators that raise a run-time
   type error, `if`, recursive records with static field access, an explicit failure
   (`std.fail_with`).  A diverging term is derivable ([omega] below), so is a genuine infinite
   recursion ([let rec x = x in x]).  Definitions only. *)
From Coq Require Import String ZArith List Bool.
Import ListNotations.
Open Scope string_scope.

Inductive binop := OAdd | OSub | OLt | OMerge.   (* a + b, a - b, a < b, a & b *)

Inductive tm :=
| Var (x : string)
| Lam (x : string) (b : tm)
| App (f a : tm)
| Let (x : string) (e b : tm)          (* let x = e in b      (not recursive) *)
| LetRec (x : string) (e b : tm)       (* let rec x = e in b *)
| Num (n : Z)
| Bool (b : bool)
| Op2 (o : binop) (a b : tm)           (* strict in both operands, type error on a mismatch *)
| If (c t e : tm)
| Rec (fs : list (string * tm))        (* record literal; fields are mutually recursive *)
| Proj (e : tm) (f : string)           (* e.f *)
| Seq (a b : tm)                       (* std.seq a b : force a, then b *)
| Fail.                                (* std.fail_with "..."   (class Blame) *)

(* Error classes (DESIGN §1.2); [EPanic] is the explicit out-of-contract outcome of the model
   (dangling thunk index, unsaturated if-then-else continuation): proved unreachable. *)
Inductive err :=
| ETypeErr | ENotAFunc | EFieldMissing | EUnbound | EBlame | EInfRec | EQueryNonRecord | EPanic
| ENonMergeable       (* MergeIncompatibleArgs *)
| EOutOfFragment.     (* model limitation, explicit: merge of a record having a field that depends on
                         a sibling field (a revertible thunk: recursive overriding is not modelled) *)

Inductive res (A : Type) :=
| Val (a : A)
| Err (e : err)
| OOF.                                  (* out of fuel / step budget exhausted *)
Arguments Val {A} a.
Arguments Err {A} e.
Arguments OOF {A}.

Definition bind {A B} (r : res A) (f : A -> res B) : res B :=
  match r with Val a => f a | Err e => Err e | OOF => OOF end.

(* first definition of [x] in an association list *)
Fixpoint assoc {A} (l : list (string * A)) (x : string) : option A :=
  match l with
  | [] => None
  | (y, a) :: l' => if String.eqb x y then Some a else assoc l' x
  end.

Definition has_key {A} (l : list (string * A)) (x : string) : bool :=
  match assoc l x with Some _ => true | None => false end.

(* Does [e] mention, free, one of [names]?  ([bound]: variables bound on the way.)  This is the
   dependency analysis of transform/free_vars.rs restricted to the question asked by
   closurize_rec_record: is the field's thunk revertible (non-empty deps) or standard. *)
Fixpoint fvb (bound names : list string) (e : tm) : bool :=
  let mem x l := existsb (String.eqb x) l in
  match e with
  | Var x => mem x names && negb (mem x bound)
  | Lam x b => fvb (x :: bound) names b
  | App f a => fvb bound names f || fvb bound names a
  | Let x d b => fvb bound names d || fvb (x :: bound) names b
  | LetRec x d b => fvb (x :: bound) names d || fvb (x :: bound) names b
  | Num _ | Bool _ | Fail => false
  | Op2 _ a b => fvb bound names a || fvb bound names b
  | If c t f => fvb bound names c || fvb bound names t || fvb bound names f
  | Rec fs =>
      let bound' := (map fst fs ++ bound)%list in
      (fix go (l : list (string * tm)) : bool :=
         match l with
         | [] => false
         | (_, d) :: l' => fvb bound' names d || go l'
         end) fs
  | Proj a _ => fvb bound names a
  | Seq a b => fvb bound names a || fvb bound names b
  end.

(* the three parts of a record merge (merge.rs [split]): fields only on the left, fields on both
   sides, fields only on the right *)
Definition left_part {A B} (l1 : list (string * A)) (l2 : list (string * B)) : list (string * A) :=
  filter (fun p => negb (has_key l2 (fst p))) l1.

Fixpoint center_part {A B} (l1 : list (string * A)) (l2 : list (string * B)) : list (string * (A * B)) :=
  match l1 with
  | [] => []
  | (f, a) :: l1' =>
      match assoc l2 f with
      | Some b => (f, (a, b)) :: center_part l1' l2
      | None => center_part l1' l2
      end
  end.

(* What is observable of a weak head normal form (what the REPL prints for `eval`). *)
Inductive obs :=
| ONum (n : Z) | OBool (b : bool) | OFun | ORec (fields : list string).

(* Fully evaluated data (what `eval_full` yields). *)
Inductive data :=
| DNum (n : Z) | DBool (b : bool) | DFun | DRec (fs : list (string * data))
| DThunk.   (* only in the result of eval_record_spine: a leaf skipped because its thunk is locked *)

(* let rec f = fun x => f x in f 0 : loops without ever re-entering a thunk under evaluation *)
Definition omega : tm :=
  LetRec "f" (Lam "x" (App (Var "f") (Var "x"))) (App (Var "f") (Num 0)).

(* let x1 = e1 in ... let xk = ek in e : the stand-alone program equivalent to the REPL input [e]
   after the top-level definitions [defs] (oldest first). *)
Fixpoint chain (defs : list (string * tm)) (e : tm) : tm :=
  match defs with
  | [] => e
  | (x, d) :: defs' => Let x d (chain defs' e)
  end.
