(* C12 — the small language shared by the mechanism model (Machine.v) and the stand-alone
   call-by-name meaning (Spec.v).

   It is the fragment of Nickel that matters for session interference: variables, functions,
   (recursive) let, numbers and booleans with strict primitive operators that raise a run-time
   type error, `if`, recursive records with static field access, an explicit failure
   (`std.fail_with`).  A diverging term is derivable ([omega] below), so is a genuine infinite
   recursion ([let rec x = x in x]).  Definitions only. *)
From Coq Require Import String ZArith List Bool.
Import ListNotations.
Open Scope string_scope.

Inductive binop := OAdd | OSub | OLt.

Inductive tm :=
| Var (x : string)
| Lam (x : string) (b : tm)
| App (f a : tm)
| Let (x : string) (e b : tm)          (* let x = e in b      (not recursive) *)
| LetRec (x : string) (e b : tm)       (* let rec x = e in b *)
| Num (n : Z)
| Bool (b : bool)
| Op2 (o : binop) (a b : tm)           (* strict in both operands, type error on a mismatch *)
| If (c t e : tm)
| Rec (fs : list (string * tm))        (* record literal; fields are mutually recursive *)
| Proj (e : tm) (f : string)           (* e.f *)
| Fail.                                (* std.fail_with "..."   (class Blame) *)

(* Error classes (DESIGN §1.2); [EPanic] is the explicit out-of-contract outcome of the model
   (dangling thunk index, unsaturated if-then-else continuation): proved unreachable. *)
Inductive err :=
| ETypeErr | ENotAFunc | EFieldMissing | EUnbound | EBlame | EInfRec | EQueryNonRecord | EPanic.

Inductive res (A : Type) :=
| Val (a : A)
| Err (e : err)
| OOF.                                  (* out of fuel / step budget exhausted *)
Arguments Val {A} a.
Arguments Err {A} e.
Arguments OOF {A}.

Definition bind {A B} (r : res A) (f : A -> res B) : res B :=
  match r with Val a => f a | Err e => Err e | OOF => OOF end.

(* first definition of [x] in an association list *)
Fixpoint assoc {A} (l : list (string * A)) (x : string) : option A :=
  match l with
  | [] => None
  | (y, a) :: l' => if String.eqb x y then Some a else assoc l' x
  end.

(* What is observable of a weak head normal form (what the REPL prints for `eval`). *)
Inductive obs :=
| ONum (n : Z) | OBool (b : bool) | OFun | ORec (fields : list string).

(* Fully evaluated data (what `eval_full` yields). *)
Inductive data :=
| DNum (n : Z) | DBool (b : bool) | DFun | DRec (fs : list (string * data))
| DThunk.   (* only in the result of eval_record_spine: a leaf skipped because its thunk is locked *)

(* let rec f = fun x => f x in f 0 : loops without ever re-entering a thunk under evaluation *)
Definition omega : tm :=
  LetRec "f" (Lam "x" (App (Var "f") (Var "x"))) (App (Var "f") (Num 0)).

(* let x1 = e1 in ... let xk = ek in e : the stand-alone program equivalent to the REPL input [e]
   after the top-level definitions [defs] (oldest first). *)
Fixpoint chain (defs : list (string * tm)) (e : tm) : tm :=
  match defs with
  | [] => e
  | (x, d) :: defs' => Let x d (chain defs' e)
  end.
